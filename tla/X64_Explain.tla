---------------------------- MODULE X64_Explain ----------------------------
(* Companion of X64_Eval: writes the verdict record of every record of       *)
(* TRACE_FILE (the records X64_Eval rejected) to OUT_FILE, so that the       *)
(* harness can say what disagrees (the decoded mnemonic, the undeclared      *)
(* registers) in violation keys and messages.  The verdict itself is the     *)
(* invariant of X64_Eval.                                                    *)
EXTENDS X64_Eval
Members(fams) == Mk([n \in 1..32 |-> (n - 1) \in fams])
Explain(r) ==
    IF r.t = "enc" THEN EncVerdict(r)
    ELSE LET v == RwVerdict(r) IN
         [t |-> "rw", st |-> v.st, dmn |-> v.dmn, mr |-> Members(v.mr), mri |-> Members(v.mri), mw |-> Members(v.mw),
          mwi |-> Members(v.mwi)]
ASSUME JsonSerialize(IOEnv.OUT_FILE, [j \in 1..Len(Recs) |-> Explain(Recs[j])])
=============================================================================
