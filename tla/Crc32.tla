-------------------------------- MODULE Crc32 --------------------------------
(* CRC-32 as used by zlib / PNG / Ethernet / U-Boot ("CRC-32/ISO-HDLC"):      *)
(*   width 32, polynomial 04C11DB7, init FFFFFFFF, input and output           *)
(*   reflected, final xor FFFFFFFF, check("123456789") = CBF43926.            *)
(*                                                                            *)
(* Three forms, model-checked against each other in ImgFmt_MC.tla:            *)
(*   CrcPoly   the definition: remainder of a polynomial division over GF(2)  *)
(*             (bit strings, first transmitted bit = highest coefficient);    *)
(*   CrcBits   the reflected shift-register algorithm, one bit per step, on   *)
(*             32-element bit sequences (LSB first, tla/BitSeq.tla style);    *)
(*   Crc       the table-driven byte-at-a-time form on 4 byte limbs (least    *)
(*             significant limb first, tla/Words.tla), used on real files.    *)
(* TLC integers are 32-bit, hence no form uses a 32-bit integer.              *)
EXTENDS Naturals, Sequences, SequencesExt, Words

\* ------------------------------------------------------------ definition --
\* G(x) = x^32+x^26+x^23+x^22+x^16+x^12+x^11+x^10+x^8+x^7+x^5+x^4+x^2+x+1,
\* coefficients from x^32 down to x^0
CrcGenExps == {32, 26, 23, 22, 16, 12, 11, 10, 8, 7, 5, 4, 2, 1, 0}
CrcGen == Mk([k \in 1..33 |-> IF (33 - k) \in CrcGenExps THEN 1 ELSE 0])

\* the message as a bit string in transmission order: bytes in order, each byte
\* least significant bit first ("reflected input")
ByteBitsLsb(b) == Mk([k \in 1..8 |-> (b \div P2(k - 1)) % 2])
RECURSIVE MsgBits(_, _)
MsgBits(D, p) == IF p > Len(D) THEN <<>> ELSE ByteBitsLsb(D[p]) \o MsgBits(D, p + 1)

\* long division: S is the dividend (message * x^32, first 32 bits complemented = register
\* preset to ones); for every message bit position p that holds 1, subtract G aligned at p
RECURSIVE PolyDiv(_, _, _)
PolyDiv(S, p, n) ==
    IF p > n THEN S
    ELSE IF S[p] = 0 THEN PolyDiv(S, p + 1, n)
    ELSE PolyDiv(Mk([k \in 1..Len(S) |-> IF k >= p /\ k <= p + 32 THEN (S[k] + CrcGen[k - p + 1]) % 2 ELSE S[k]]),
                 p + 1, n)

\* result as 32 bits, least significant first: the remainder's coefficient of x^31 is bit 0
\* ("reflected output"), complemented (final xor)
CrcPolyBits(D) ==
    LET M == MsgBits(D, 1)
        n == Len(M)
        S0 == M \o Mk([k \in 1..32 |-> 0])
        S1 == Mk([k \in 1..(n + 32) |-> IF k <= 32 THEN 1 - S0[k] ELSE S0[k]])
        R == PolyDiv(S1, 1, n)
    IN Mk([k \in 1..32 |-> 1 - R[n + k]])

\* bits (LSB first, 32) -> 4 byte limbs (LSB limb first)
BitsToLimbs(B) == Mk([j \in 1..4 |-> B[8*j-7] + 2*B[8*j-6] + 4*B[8*j-5] + 8*B[8*j-4] + 16*B[8*j-3]
                                       + 32*B[8*j-2] + 64*B[8*j-1] + 128*B[8*j]])
LimbsToBits(w) == Mk([k \in 1..32 |-> (w[((k - 1) \div 8) + 1] \div P2((k - 1) % 8)) % 2])
CrcPoly(D) == BitsToLimbs(CrcPolyBits(D))

\* ------------------------------------------------- bit-serial (reflected) --
\* EDB88320 = reflected 04C11DB7, as bits LSB first
CrcPolyRefl == LimbsToBits(<<32, 131, 184, 237>>)
BitsXor(a, b) == Mk([k \in 1..32 |-> (a[k] + b[k]) % 2])
BitsShr1(a) == Mk([k \in 1..32 |-> IF k < 32 THEN a[k + 1] ELSE 0])
BitStep(c) == IF c[1] = 1 THEN BitsXor(BitsShr1(c), CrcPolyRefl) ELSE BitsShr1(c)
RECURSIVE BitSteps(_, _)
BitSteps(c, n) == IF n = 0 THEN c ELSE BitSteps(BitStep(c), n - 1)
ByteIn(c, b) == Mk([k \in 1..32 |-> IF k <= 8 THEN (c[k] + ((b \div P2(k - 1)) % 2)) % 2 ELSE c[k]])
RECURSIVE BitsRun(_, _, _)
BitsRun(c, D, p) == IF p > Len(D) THEN c ELSE BitsRun(BitSteps(ByteIn(c, D[p]), 8), D, p + 1)
AllOnes32 == Mk([k \in 1..32 |-> 1])
CrcBits(D) == BitsToLimbs(BitsXor(BitsRun(AllOnes32, D, 1), AllOnes32))

\* ---------------------------------------------------------- table-driven --
\* one step of the register on byte limbs
LimbStep(w) == LET s == WShrL(w, 1) IN IF w[1] % 2 = 1 THEN WXor(s, <<32, 131, 184, 237>>) ELSE s
\* eight steps, written out: a definition that uses a RECURSIVE operator is not constant-level for
\* TLC and would be re-evaluated at every use
LimbSteps8(w) == LimbStep(LimbStep(LimbStep(LimbStep(LimbStep(LimbStep(LimbStep(LimbStep(w))))))))
\* CrcTab[n + 1] = register after shifting the byte n through (constant: evaluated once)
CrcTab == Mk([n \in 1..256 |-> LimbSteps8(<<n - 1, 0, 0, 0>>)])
\* crc' = tab[(crc ^ b) & FF] ^ (crc >> 8)
CrcByte(c, b) == LET t == CrcTab[(c[1] ^^ b) + 1]
                 IN <<t[1] ^^ c[2], t[2] ^^ c[3], t[3] ^^ c[4], t[4]>>
\* fold over the bytes (SequencesExt!FoldLeft is evaluated iteratively by TLC: no recursion depth,
\* every intermediate register value is a concrete tuple)
\* CRC-32 of the bytes D[lo..hi] (1-based, inclusive; empty when hi < lo)
CrcOfRange(D, lo, hi) == WNot(FoldLeft(CrcByte, <<255, 255, 255, 255>>, SubSeq(D, lo, hi)))
Crc(D) == CrcOfRange(D, 1, Len(D))

\* the same value as 4 bytes in big-endian file order
BE4(w) == <<w[4], w[3], w[2], w[1]>>
=============================================================================
