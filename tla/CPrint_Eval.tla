----------------------------- MODULE CPrint_Eval -----------------------------
(* X09, programs: one record per translation unit that ppci parsed.              *)
(*   print   [ok, exc]  CPrinter.print ran                                        *)
(*   reparse [ok, exc]  ppci compiled the printed text again                      *)
(*   fns     [orig, printed]  names of the functions with a body                  *)
(* The printed text of a translation unit that ppci accepts must be a translation *)
(* unit that ppci accepts, with the same functions.                               *)
EXTENDS Naturals, Sequences, Json, IOUtils, TLC
Recs == JsonDeserialize(IOEnv.TRACE_FILE)
NChunks == 16
VARIABLES chunk, i
vars == <<chunk, i>>
Init == chunk = 0 /\ i = 0
PickChunk == chunk = 0 /\ chunk' \in 1..NChunks /\ i' = 0
PickRec == chunk > 0 /\ i = 0 /\ chunk' = chunk /\ i' \in {k \in 1..Len(Recs) : k % NChunks = chunk - 1}
Next == PickChunk \/ PickRec
R == Recs[i]
PrinterRuns   == i > 0 => R.print.ok
PrintedIsC    == (i > 0 /\ R.print.ok) => R.reparse.ok
SameFunctions == (i > 0 /\ R.print.ok /\ R.reparse.ok) => R.fns.orig = R.fns.printed
=============================================================================
