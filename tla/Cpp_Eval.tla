----------------------------- MODULE Cpp_Eval -----------------------------
(* Conformance binding for property C26: every recorded translation unit is  *)
(* run through the machine of Cpp.tla, one TLC step per source line (the     *)
(* action names the rule that applies), and what the implementation under    *)
(* test produced for that unit must be the machine's token sequence.         *)
(*                                                                           *)
(* TRACE_FILE: JSON array of units                                           *)
(*   [lines |-> << line, ... >>, obs |-> [ok, toks], tobs |-> [ok, toks],    *)
(*    want |-> status]                                                       *)
(* a line is a sequence of tokens, a token is the integer sequence           *)
(*   << kind, ws, c1, c2, ... >>  kind: 1 id 2 num 3 punct 4 str 5 chr,      *)
(*   ws: 1 = preceded by white space, c1.. = character codes of the spelling *)
(* obs.ok = the implementation returned normally, obs.toks = its tokens     *)
(*   << kind, c1, c2, ... >> (white space is not compared);                  *)
(* tobs = the same for the text the implementation prints, lexed again;     *)
(* want = "" for an observed unit; for a reference unit (an example of the  *)
(*   standard with the result the standard states as obs) the status the    *)
(*   machine has to end in.                                                  *)
EXTENDS Cpp, Json, IOUtils, TLC

Recs == JsonDeserialize(IOEnv.TRACE_FILE)
NChunks == 32
KindName == <<"id", "num", "punct", "str", "chr">>
InTok(x) == Tok(KindName[x[1]], SubSeq(x, 3, Len(x)), x[2] = 1)
InLine(line) == Mk([j \in 1..Len(line) |-> InTok(line[j])])
ObsToks(o) == Mk([j \in 1..Len(o) |-> [k |-> KindName[o[j][1]], t |-> Tail(o[j])]])

VARIABLES chunk, i, l, st, fin
vars == <<chunk, i, l, st, fin>>
Init == chunk = 0 /\ i = 0 /\ l = 0 /\ st = S0 /\ fin = FALSE
PickChunk == chunk = 0 /\ chunk' \in 1..NChunks /\ UNCHANGED <<i, l, st, fin>>
PickRec == /\ chunk > 0 /\ i = 0
           /\ i' \in {k \in 1..Len(Recs) : k % NChunks = chunk - 1}
           /\ l' = 1 /\ UNCHANGED <<chunk, st, fin>>
NLines == Len(Recs[i].lines)
Cur == InLine(Recs[i].lines[l])
Line(kind) == /\ i > 0 /\ ~fin /\ l <= NLines
              /\ LineKind(st, Cur) = kind
              /\ st' = StepKind(st, Cur, kind)
              /\ l' = l + 1 /\ UNCHANGED <<chunk, i, fin>>
\* one action per rule of the machine
Text   == Line("text")
Skip   == Line("skip")
Null   == Line("null")
Define == Line("define")
Undef  == Line("undef")
Other  == Line("other")
If     == Line("if")
Ifdef  == Line("ifdef")
Ifndef == Line("ifndef")
Elif   == Line("elif")
Else   == Line("else")
Endif  == Line("endif")
End    == /\ i > 0 /\ ~fin /\ l = NLines + 1
          /\ LET f == Finish(st) IN st' = f /\ PrintT(<<"C26ST", i, f.status>>)
          /\ fin' = TRUE /\ UNCHANGED <<chunk, i, l>>
Next == PickChunk \/ PickRec \/ Text \/ Skip \/ Null \/ Define \/ Undef \/ Other
        \/ If \/ Ifdef \/ Ifndef \/ Elif \/ Else \/ Endif \/ End

\* only units with a defined result are judged
Allowed(S, obs) == S.status = "ok" => (obs.ok /\ ObsToks(obs.toks) = Proj(S.out))
Conforms == fin => Allowed(st, Recs[i].obs)
\* the printed form must lex back to the same tokens (judged when the token stream itself conforms)
TextConforms == (fin /\ st.status = "ok" /\ Allowed(st, Recs[i].obs)) => Allowed(st, Recs[i].tobs)
\* reference units: the machine reproduces the standard's own examples
Reference == (fin /\ Recs[i].want # "") => st.status = Recs[i].want
\* machine invariants, evaluated in every state of every unit
NoFuel == st.status # "fuel"
SkippingHoldsNoText == ~Live(st.cs) => st.pend = <<>>
=============================================================================
