--------------------------- MODULE DbgSession_Trace ---------------------------
(* Idioms T and G for X17: sessions recorded from the real Debugger +          *)
(* GdbDebugDriver / DummyDebugDriver (harness/dbg_replay.py) are validated      *)
(* against DbgSession.tla.  The scripts of the sessions come from TLC itself    *)
(* (behaviours of DbgSession_MC generated with -simulate and replayed into the  *)
(* real objects), from directed probes and from seeded random scripts.          *)
(* TRACE_FILE is a JSON array of traces                                         *)
(*   {"id": str, "drv": "gdb"|"dummy", "flags": [str], "strict": bool,          *)
(*    "events": [event]}                                                        *)
(* one event per action of the specification:                                   *)
(*   {"a": name, <parameters>,                                                  *)
(*    "tx":   [packet]   what the stub received from the client in this step,   *)
(*    "ret":  {"t":..}   what the command returned to its caller,               *)
(*    "evs":  [str]      events fired (on_start / on_stop),                     *)
(*    "view": {"status","cache","reason","pcstop","q"}  projected client state, *)
(*    "tgt":  {"st","regs","mem","bps","intr"}          projected target}       *)
(* A trace is accepted iff the specification (under the trace's flags) can take *)
(* every event in order with exactly these observations (invariant             *)
(* NotRejected).  The clauses of the property are invariants of the states the  *)
(* trace visits; after a violation the clauses are suspended (`taint`) until    *)
(* the session is back in a synchronised state, so that one defect is reported  *)
(* once, at the step that leaves the protocol.                                  *)
EXTENDS DbgSession, Json, IOUtils, TLC

Traces == JsonDeserialize(IOEnv.TRACE_FILE)
NChunks == 32
TracePCs == <<0, 4, 8>>
VARIABLES chunk, i, l, bad, taint, dirty
tvars == <<chunk, i, l, bad, taint, dirty>>

FlagSet(t) == {t.flags[k] : k \in 1..Len(t.flags)}
SeqSet(s) == {s[k] : k \in 1..Len(s)}

TInit == chunk = 0 /\ i = 0 /\ l = 0 /\ bad = FALSE /\ taint = FALSE /\ dirty = FALSE /\ InitWith("gdb", {})
PickChunk == /\ chunk = 0 /\ chunk' \in 1..NChunks /\ UNCHANGED <<i, l, bad, taint, dirty>> /\ UNCHANGED vars
PickTrace == /\ chunk > 0 /\ i = 0
             /\ i' \in {k \in 1..Len(Traces) : k % NChunks = chunk - 1}
             /\ l' = 1 /\ flags' = FlagSet(Traces[i']) /\ drv' = Traces[i'].drv
             /\ status' = IF Traces[i'].drv = "gdb" THEN "RUNNING" ELSE "STOPPED"
             /\ UNCHANGED <<chunk, bad, taint, dirty>>
             /\ UNCHANGED <<cache, reason, pcstop, tstate, tregs, tmem, tbps, intr, stops, bpset, lastEv, outst, out, act>>

Ev == Traces[i].events[l]

\* what the real objects showed after the step is what the specification's next state shows
Observed ==
  /\ Len(Ev.tx) = Len(out'.tx)
  /\ \A j \in 1..Len(Ev.tx) : Ev.tx[j].k = out'.tx[j].k
  /\ Ev.tx = out'.tx
  /\ Ev.ret.t = out'.ret.t /\ Ev.ret = out'.ret
  /\ Ev.evs = out'.evs
  /\ Ev.view.status = status'
  /\ drv = "gdb" =>
       /\ Ev.view.cache = cache' /\ Ev.view.reason = reason' /\ Ev.view.pcstop = pcstop'
       /\ Ev.view.q = Len(stops')
       /\ Ev.tgt.st = tstate' /\ Ev.tgt.regs = tregs' /\ Ev.tgt.mem = tmem'
       /\ SeqSet(Ev.tgt.bps) = tbps' /\ Ev.tgt.intr = intr'

Action ==
    \/ Ev.a = "run"     /\ (CmdRun \/ DummyRun)
    \/ Ev.a = "stop"    /\ (CmdStop \/ DummyStop)
    \/ Ev.a = "step"    /\ (CmdStep \/ DummyStep)
    \/ Ev.a = "restart" /\ (CmdRestart \/ DummyRestart)
    \/ Ev.a = "setbp"   /\ CmdSetBp(Ev.x)
    \/ Ev.a = "clrbp"   /\ CmdClearBp(Ev.x)
    \/ Ev.a = "rmem"    /\ CmdReadMem(Ev.x, Ev.n)
    \/ Ev.a = "rmem0"   /\ DummyReadMem(Ev.n)
    \/ Ev.a = "wmem"    /\ CmdWriteMem(Ev.x, Ev.d)
    \/ Ev.a = "rregs"   /\ (CmdReadRegs \/ DummyReadRegs)
    \/ Ev.a = "wregs"   /\ CmdWriteRegs(Ev.w)
    \/ Ev.a = "getpc"   /\ (CmdGetPc \/ DummyGetPc)
    \/ Ev.a = "setpc"   /\ CmdSetPc(Ev.v)
    \/ Ev.a = "stopthr" /\ StopThread
    \/ Ev.a = "tbreak"  /\ TgtBreak(Ev.x, Ev.form)
    \/ Ev.a = "tstep"   /\ TgtStepDone(Ev.form)
    \/ Ev.a = "tintr"   /\ TgtIntr

EvStep == Action /\ Observed

Clean == drv = "dummy" \/ InSync
StateClauses == ViewMatchesTarget /\ CacheCoherent /\ BpConsistent /\ OneStopPerRun
StepClauses == RefusedWhileRunning /\ Alternation /\ EventsOnce
Step == /\ i > 0 /\ l <= Len(Traces[i].events) /\ ~bad
        /\ EvStep /\ l' = l + 1 /\ UNCHANGED <<chunk, i, bad>>
        /\ dirty' = (taint \/ ~StateClauses \/ (~dirty /\ ~StepClauses))
        /\ taint' = (dirty' /\ ~Clean')
Reject == /\ i > 0 /\ l <= Len(Traces[i].events) /\ ~bad
          /\ ~ENABLED EvStep
          /\ bad' = TRUE /\ UNCHANGED <<chunk, i, l, taint, dirty>> /\ UNCHANGED vars
Done == /\ i > 0 /\ (bad \/ l = Len(Traces[i].events) + 1) /\ UNCHANGED tvars /\ UNCHANGED vars
EmptyChunk == /\ chunk > 0 /\ i = 0 /\ \A k \in 1..Len(Traces) : k % NChunks # chunk - 1
              /\ UNCHANGED tvars /\ UNCHANGED vars
TNext == PickChunk \/ PickTrace \/ Step \/ Reject \/ Done \/ EmptyChunk

NotRejected == ~bad
\* The steps at which an as-built deviation named in the trace's flags shows.  In a strict trace
\* (the probe of each detected deviation) they are reported; in the bulk of the sessions the same
\* known step is not reported again (the clauses stay suspended until the session is in sync).
Excused == \/ "EagerStopped" \in flags /\ act.a = "stop" /\ out.st0 = "RUNNING"
           \/ "RunAnyway" \in flags /\ act.a = "run" /\ out.st0 = "RUNNING"
           \/ "StaleRegCache" \in flags /\ act.a \in {"setpc", "wregs"} /\ out.st0 = "STOPPED"
Live == i > 0 /\ ~bad /\ ~taint /\ (Traces[i].strict \/ ~Excused)
T_ViewMatchesTarget == Live => ViewMatchesTarget
T_CacheCoherent == Live => CacheCoherent
T_BpConsistent == Live => BpConsistent
\* clauses about the last step are judged only for a step taken from a state in which the session
\* was in order (`dirty`: the state before was in violation or suspended)
LiveStep == Live /\ ~dirty
T_RefusedWhileRunning == LiveStep => RefusedWhileRunning
T_Alternation == LiveStep => Alternation
T_OneStopPerRun == Live => OneStopPerRun
T_EventsOnce == LiveStep => EventsOnce

Shown == [i |-> i, l |-> l, bad |-> bad, taint |-> taint, dirty |-> dirty, flags |-> flags, status |-> status, cache |-> cache,
          tstate |-> tstate, tregs |-> tregs, tbps |-> tbps, bpset |-> bpset, intr |-> intr, stops |-> stops,
          lastEv |-> lastEv, outst |-> outst, out |-> out, act |-> act]
=============================================================================
