------------------------------ MODULE Or1k_MC ------------------------------
(* Idiom M for Or1k.tla: laws of the ORBIS32 model.                          *)
(*  family "or1k.w"   instruction words: every opcode x register-field       *)
(*        samples x low halfwords (for the ALU opcode 0x38 every value of    *)
(*        the sub-opcode bits 9:0): exactly one layout class matches; a      *)
(*        defined instruction is well-formed and re-encodes to the same word; *)
(*        field split / join laws incl. the split store immediate            *)
(*  family "or1k.ln"  printed reference lines x registers x labelled         *)
(*        boundary operands, hi() / lo() of boundary addresses:              *)
(*        Decode(Encode(Asm(line))) = Asm(line)                              *)
(*  family "or1k.hl"  hi / lo recombination of an address                    *)
EXTENDS Or1k, SequencesExt
CONSTANTS Deep, Fams
VARIABLES fam, pick

Row(r) == [mns |-> SetToSeq(r[1]), pat |-> r[2], lo |-> r[3], hi |-> r[4], align |-> r[5],
           vals |-> SetToSeq({[v |-> v, inside |-> Inside(r[3], r[4], r[5], v)] : v \in Labelled(r[3], r[4], r[5])})]
Table == [rows |-> SetToSeq({Row(r) : r \in Ranges}), hilo |-> SetToSeq(HiLoSyms)]

None == [k |-> "none"]
Rg(r) == <<"r", r, "">>
Im(v) == <<"i", v, "">>
Lb == <<"l", 0, "L_t">>
G(ch) == <<ch, 0, "">>
Wd(w) == <<"w", 0, w>>
ImmsIn(r) == {v \in Labelled(r[3], r[4], r[5]) : Inside(r[3], r[4], r[5], v)}
RangeOf(mn, pat) == CHOOSE r \in Ranges : mn \in r[1] /\ r[2] = pat
RS == IF Deep THEN {0, 1, 9, 16, 30, 31} ELSE {0, 9, 31}
PcB == 268435456
NLineGroups == 6
LineGroup(g) ==
    CASE g = 1 -> {<<m, <<Rg(d), Rg(a), Rg(b)>>, 0, 0>> : m \in Alu3, d \in RS, a \in RS, b \in RS}
      [] g = 2 -> {<<m, <<Rg(d), Rg(a)>>, 0, 0>> : m \in Alu2, d \in 0..31, a \in (IF Deep THEN 0..31 ELSE RS)}
                  \cup {<<m, <<Rg(a), Rg(b)>>, 0, 0>> : m \in SfR \cup {"l.mac", "l.msb", "l.macu", "l.msbu"}, a \in RS, b \in RS}
                  \cup {<<m, <<Rg(b)>>, 0, 0>> : m \in {"l.jr", "l.jalr", "l.macrc"}, b \in 0..31}
                  \cup {<<m, <<>>, 0, 0>> : m \in {"l.msync", "l.psync", "l.csync", "l.rfe"}}
                  \cup {<<m, <<Im(v)>>, 0, 0>> : m \in {"l.nop", "l.sys", "l.trap"}, v \in ImmsIn(RangeOf("l.nop", "i"))}
      [] g = 3 -> {<<m, <<Rg(d), Rg(a), Im(v)>>, 0, 0>> : m \in ImmSMn, d \in RS, a \in RS, v \in ImmsIn(RangeOf("l.addi", "rri"))}
                  \cup {<<m, <<Rg(d), Rg(a), Im(v)>>, 0, 0>> : m \in ImmUMn \cup {"l.mfspr"}, d \in RS, a \in RS, v \in ImmsIn(RangeOf("l.ori", "rri"))}
                  \cup {<<"l.mtspr", <<Rg(a), Rg(b), Im(v)>>, 0, 0>> : a \in RS, b \in RS, v \in ImmsIn(RangeOf("l.ori", "rri"))}
                  \cup {<<m, <<Rg(d), Rg(a), Im(v)>>, 0, 0>> : m \in ShI, d \in RS, a \in RS, v \in ImmsIn(RangeOf("l.slli", "rri"))}
                  \cup {<<m, <<Rg(a), Im(v)>>, 0, 0>> : m \in SfI \cup {"l.maci"}, a \in RS, v \in ImmsIn(RangeOf("l.sfeqi", "ri"))}
      [] g = 4 -> {<<m, <<Rg(d), Im(v), G("("), Rg(a), G(")")>>, 0, 0>> : m \in LoadMn, d \in RS, a \in RS,
                                                                         v \in ImmsIn(RangeOf("l.lwz", "ri(r)"))}
                  \cup {<<m, <<Im(v), G("("), Rg(a), G(")"), Rg(b)>>, 0, 0>> : m \in StoreMn, a \in RS, b \in RS,
                                                                              v \in ImmsIn(RangeOf("l.sw", "i(r)r"))}
      [] g = 5 -> {<<m, <<Lb>>, PcB + v, PcB>> : m \in JumpMn, v \in ImmsIn(RangeOf("l.j", "l"))}
                  \cup {<<"l.movhi", <<Rg(d), Im(v)>>, 0, 0>> : d \in 0..31, v \in ImmsIn(RangeOf("l.movhi", "ri"))}
      [] g = 6 -> {<<"l.movhi", <<Rg(d), Wd(h), G("("), Lb, G(")")>>, s, 0>> : d \in RS, h \in {"hi", "lo"}, s \in HiLoSyms}
                  \cup {<<m, <<Rg(d), Rg(a), Wd(h), G("("), Lb, G(")")>>, s, 0>> :
                            m \in ImmSMn \cup ImmUMn, d \in {3, 31}, a \in {0, 4}, h \in {"hi", "lo"}, s \in HiLoSyms}

FieldCoded == {47, 57, 48, 51, 53, 54, 55, 6, 8, 5}     \* opcodes whose bits 25:16 carry a sub-opcode or part of an immediate
HiRest(op) == IF op = 56 THEN (IF Deep THEN {0, 166, 1023, 9 * 32 + 9} ELSE {166})
              ELSE IF op \in FieldCoded
                   THEN {a * 32 + b : a \in 0..31, b \in (IF Deep THEN {0, 9} ELSE {0})} \cup {a * 32 + b : a \in {0, 13}, b \in (IF Deep THEN 0..31 ELSE {1, 31})}
                        \cup {256, 512, 640, 768, 1023}
                   ELSE (IF Deep THEN {0, 1, 32, 166, 1023, 992, 31, 297} ELSE {0, 166, 1023})
LoFor(op) == IF op = 56 THEN {c * 2048 + x : c \in (IF Deep THEN {0, 7, 31} ELSE {7}), x \in (IF Deep THEN 0..2047 ELSE 0..1023)}
             ELSE {0, 1, 4, 32767, 32768, 65535, 4660, 2048, 63, 64, 128, 192}
                  \cup (IF Deep THEN {43690, 65532, 21845, 255, 256, 14336, 2047, 63488, 2, 3, 5, 16, 6144} ELSE {})
HlSyms == HiLoSyms \cup {65535, 32767, 2147483647, 1073741824, 123456789}

Init == fam = "none" /\ pick = None
PickFam == fam = "none" /\ fam' \in Fams \cap {"or1k.w", "or1k.ln", "or1k.hl"} /\ pick' = None
PickWHi == fam = "or1k.w" /\ pick = None /\ UNCHANGED fam /\ \E op \in 0..63 : \E r \in HiRest(op) : pick' = [k |-> "or1k.w-", hi |-> op * 1024 + r]
PickWLo == fam = "or1k.w" /\ pick.k = "or1k.w-" /\ UNCHANGED fam /\ \E lo \in LoFor(pick.hi \div 1024) : pick' = [k |-> "or1k.w", w |-> <<pick.hi, lo>>]
PickLnG == fam = "or1k.ln" /\ pick = None /\ UNCHANGED fam /\ \E g \in 1..NLineGroups : pick' = [k |-> "or1k.ln-", g |-> g]
PickLn == fam = "or1k.ln" /\ pick.k = "or1k.ln-" /\ UNCHANGED fam /\ \E ln \in LineGroup(pick.g) : pick' = [k |-> "or1k.ln", ln |-> ln]
PickHl == fam = "or1k.hl" /\ pick = None /\ UNCHANGED fam /\ \E s \in HlSyms : pick' = [k |-> "or1k.hl", s |-> s]
Next == PickFam \/ PickWHi \/ PickWLo \/ PickLnG \/ PickLn \/ PickHl

-----------------------------------------------------------------------------
RegsOK(d) == Reads(d) \subseteq 0..31 /\ Writes(d) \subseteq 0..31
LawOneFormat == pick.k = "or1k.w" => Cardinality(Matches(pick.w)) = 1
LawReencode == pick.k = "or1k.w" => LET d == DecodeW(pick.w) IN
    /\ d.len = 4
    /\ Valid(d) => (WF(d) /\ EncodeW(d) = pick.w /\ Decode(Encode(d)) = d /\ RegsOK(d))
LawFields == pick.k = "or1k.w" => LET w == pick.w IN
    /\ MkW(Op6(w), F25(w), F20(w), Lo16(w)) = w
    /\ MkW(Op6(w), F25(w), F20(w), F15(w) * 2048 + Lo11(w)) = w
    /\ MkJ(Op6(w), Lo26(w)) = w
    /\ WordBE(BytesBE(w)) = w
    \* the store immediate I = <bits 25:21 : bits 10:0> splits and joins
    /\ LET v == F25(w) * 2048 + Lo11(w) IN v \div 2048 = F25(w) /\ v % 2048 = Lo11(w) /\ v \in Half
LawLine == pick.k = "or1k.ln" => LET a == Asm(pick.ln[1], pick.ln[2], pick.ln[3], pick.ln[4]) IN
    /\ a # NoAsm /\ WF(a)
    /\ Core(Decode(Encode(a))) = a
    /\ Len(Encode(a)) = 4
\* l.movhi rD, hi(s) ; l.ori rD, rD, lo(s) builds s
LawHiLo == pick.k = "or1k.hl" => LET s == pick.s IN
    HiOf(s) \in 0..32767 /\ LoOf(s) \in Half /\ HiOf(s) * 65536 + LoOf(s) = s
=============================================================================
