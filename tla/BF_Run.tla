------------------------------- MODULE BF_Run -------------------------------
(* Idiom G for extension property X02 (Brainfuck half): TLC produces the      *)
(* behaviours of the abstract machine BF.tla that the driver (engines/x02.py) *)
(* replays into ppci's Brainfuck front-end.                                   *)
(*   chunks 0..8   : TLC enumerates *every* program of length <= GenLen over  *)
(*                   the eight commands itself (`,` reads GenInput);          *)
(*   chunks 9..    : the programs of TRACE_FILE                               *)
(*                   ([src : char codes, inp : bytes, tape, fuel]).           *)
(* Each program is executed to the end and  [g, i, src, inp, tape, obs]  is   *)
(* written to <OBS_DIR>/<g>_<i>.json .  The driver compiles `src` with        *)
(* ppci.lang.bf and hands `obs` to BF_IR.tla, where TLC compares it with the  *)
(* execution of the emitted IR; the verdict on malformed programs is judged   *)
(* by BF_Diag.tla.                                                            *)
EXTENDS BF, TLC, Json, IOUtils
CONSTANTS GenLen, TapeN, Fuel
Cases == JsonDeserialize(IOEnv.TRACE_FILE)
GenInput == <<5, 200, 0>>
NChunks == 32
VARIABLES chunk, i, gen, done
Cmd == <<Plus, Minus, Left, Right, Dot, Comma, Open, Close>>
\* programs of length <= GenLen are numbered in base 9 with the digits 1..8
Tails == UNION {[1..n -> 1..8] : n \in 0..(GenLen - 1)}
RECURSIVE Num(_, _)
Num(d, j) == IF j = 0 THEN 0 ELSE 9 * Num(d, j - 1) + d[j]
Src(d) == [j \in 1..Len(d) |-> Cmd[d[j]]]

Loaded == m # Idle
RInit == m = Idle /\ chunk = -1 /\ i = 0 /\ gen = FALSE /\ done = FALSE
PickChunk == /\ chunk = -1 /\ UNCHANGED <<m, i, gen, done>>
             /\ chunk' \in (IF GenLen > 0 THEN 0..8 ELSE {}) \cup 9..(8 + NChunks)
LoadCase == /\ chunk > 8 /\ ~Loaded /\ UNCHANGED <<chunk, done>> /\ gen' = FALSE
            /\ i' \in {x \in 1..Len(Cases) : x % NChunks = chunk - 9}
            /\ m' = Fresh(Cases[i'].src, Cases[i'].inp, Cases[i'].tape, Cases[i'].fuel)
LoadGen  == /\ GenLen > 0 /\ chunk \in 0..8 /\ ~Loaded /\ UNCHANGED <<chunk, done>> /\ gen' = TRUE
            /\ \E d \in IF chunk = 0 THEN {<<>>} ELSE {<<chunk>> \o q : q \in Tails} :
                 /\ i' = Num(d, Len(d))
                 /\ m' = Fresh(Src(d), GenInput, TapeN, Fuel)
Run == Loaded /\ Step /\ UNCHANGED <<chunk, i, gen, done>>
ObsPath == IOEnv.OBS_DIR \o "/" \o (IF gen THEN "g" ELSE "c") \o "_" \o ToString(i) \o ".json"
Emit == /\ Loaded /\ Finished /\ ~done /\ done' = TRUE /\ UNCHANGED <<m, chunk, i, gen>>
        /\ JsonSerialize(ObsPath, [gen |-> gen, i |-> i, src |-> m.prog, inp |-> m.inp, tape |-> m.tlen,
                                   last |-> m.last, obs |-> Obs])
RNext == PickChunk \/ LoadCase \/ LoadGen \/ Run \/ Emit
=============================================================================
