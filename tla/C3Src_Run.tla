------------------------------ MODULE C3Src_Run ------------------------------
(* Batch driver for C3Src.tla: every (case, argument vector) is executed by TLC  *)
(* and its observation is written to  <OBS_DIR>/<i>_<av>.json ; the driver       *)
(* (engines/c37.py) hands these observations to C3Src_IR.tla, where TLC compares *)
(* them with the execution of the IR that ppci's C3 front-end produced for the   *)
(* same program, and to the gcc reference guard.  `acts` records which actions   *)
(* of C3Src.tla the behaviour took (TLC's -coverage instrumentation cannot be    *)
(* used with the mutually recursive evaluator).                                  *)
EXTENDS C3Src
VARIABLES done, acts
ObsPath == IOEnv.OBS_DIR \o "/" \o ToString(i) \o "_" \o ToString(av) \o ".json"
RInit == Init /\ done = FALSE /\ acts = {}
T(name, A) == A /\ UNCHANGED <<chunk, i, av, done>> /\ acts' = acts \cup {name}
Emit == /\ Finished /\ ~done
        /\ done' = TRUE
        /\ JsonSerialize(ObsPath, [i |-> i, av |-> av, steps |-> steps, acts |-> acts, obs |-> Obs])
        /\ UNCHANGED vars /\ UNCHANGED acts
RNext == \/ ((PickChunk \/ PickCase) /\ UNCHANGED <<done, acts>>)
         \/ T("Decl", Decl) \/ T("DeclArr", DeclArr) \/ T("Assign", Assign) \/ T("CallStmt", CallStmt)
         \/ T("If", If) \/ T("While", While) \/ T("For", For) \/ T("LoopTest", LoopTest) \/ T("Switch", Switch)
         \/ T("Return", Return) \/ T("BlockEnd", BlockEnd) \/ T("Unknown", Unknown) \/ T("OutOfFuel", OutOfFuel)
         \/ Emit
=============================================================================
