--------------------------------- MODULE IR ---------------------------------
(* Small-step operational semantics of ppci's IR (ppci/ir.py) as a TLA+      *)
(* state machine, one named action per instruction kind.                     *)
(*                                                                           *)
(* A *case* is  [id, mods : Seq(module), fn : function name,                 *)
(*               argv : Seq(Seq(word))  (argument vectors),                  *)
(*               ext : Seq([name, rets : Seq(word)]), fuel : Nat]            *)
(* The machine runs fn(args) on mods[1] ("before"), records the observation, *)
(* then on mods[2], mods[3], ... ("after" artifacts: the same module after   *)
(* an optimisation pass, after a print/parse round trip, ...) and the        *)
(* property is  ObsPreserved: whenever the first execution is fully defined, *)
(* every later one yields the same observation                               *)
(*    Obs = [status, return value, final bytes of every global, sequence of  *)
(*           external calls with their arguments].                           *)
(*                                                                           *)
(* Values are byte-limb words (Words.tla); the poison value is <<>>.         *)
(* Memory is flat, little-endian; cell contents: 0..255, Uninit, Unmapped.   *)
(* Modules are the JSON projection of harness/project_ir.py.                 *)
EXTENDS IROps, FiniteSets, TLC, Json, IOUtils

Cases == JsonDeserialize(IOEnv.TRACE_FILE)     \* sequence of cases
NChunks == 64

VARIABLES chunk,   \* fan-out helper (0 = not chosen yet)
          i,       \* case under execution (0 = none yet)
          av,      \* argument vector of the case under execution
          ph,      \* phase = index into Cases[i].mods
          stack,   \* call stack, top = last element
          mem,     \* memory cells 1..Len(mem)
          calls,   \* external calls made so far
          status,  \* "run" | "ok" | "undefined" | "outofmodel" | "fuel" | "stuck" | "idle"
          why,     \* reason for a non-ok status (diagnostic)
          ret,     \* returned word of the outermost activation
          steps,   \* instructions executed in this phase
          obs0,    \* observation of phase 1
          gaddr    \* address of every global of the current module

mvars == <<stack, mem, calls, status, why, ret, steps, gaddr>>
vars == <<chunk, i, av, ph, stack, mem, calls, status, why, ret, steps, obs0, gaddr>>

Uninit == -1
Unmapped == -2
Poison == <<>>
GlobalBase == 16
FnBase == 1000000                \* pseudo addresses of functions: FnBase + 16 * global index
MaxDepth == 24
MaxMem == 4096

C == Cases[i]
M == C.mods[ph]
PB == M.pb

Sz(t) == SzP(t, PB)

AlignUp(a, al) == IF al <= 1 THEN a ELSE ((a + al - 1) \div al) * al
AddrW(a) == WFromNat(a, PB)

(* ---- layout of globals ---------------------------------------------------- *)
\* returns <<gaddr sequence, next free address>>
RECURSIVE LayoutR(_, _, _, _)
LayoutR(G, k, cur, acc) ==
    IF k > Len(G) THEN <<acc, cur>>
    ELSE IF G[k].k = "var"
         THEN LET a == AlignUp(cur, G[k].align) IN LayoutR(G, k + 1, a + G[k].size, Append(acc, a))
         ELSE LayoutR(G, k + 1, cur, Append(acc, FnBase + 16 * k))

\* flatten the initialiser parts of one variable into cells
RECURSIVE InitCells(_, _, _, _)
InitCells(parts, k, ga, pb) ==
    IF k > Len(parts) THEN <<>>
    ELSE (IF parts[k].k = "b" THEN parts[k].b
          ELSE IF parts[k].k = "r" /\ parts[k].g > 0 THEN WFromNat(ga[parts[k].g], pb)
          ELSE [j \in 1..pb |-> Uninit]) \o InitCells(parts, k + 1, ga, pb)

VarCells(g, ga, pb) ==
    IF g.hasinit
    THEN LET c == InitCells(g.init, 1, ga, pb)
         IN Mk([j \in 1..g.size |-> IF j <= Len(c) THEN c[j] ELSE 0])
    ELSE Mk([j \in 1..g.size |-> 0])

RECURSIVE MemR(_, _, _, _, _)
MemR(G, k, ga, pb, acc) ==
    IF k > Len(G) THEN acc
    ELSE IF G[k].k = "var"
         THEN MemR(G, k + 1, ga, pb,
                   acc \o [j \in 1..(ga[k] - Len(acc) - 1) |-> Unmapped] \o VarCells(G[k], ga, pb))
         ELSE MemR(G, k + 1, ga, pb, acc)
InitMem(G, ga, pb) == MemR(G, 1, ga, pb, [j \in 1..(GlobalBase - 1) |-> Unmapped])

FnIndex(name, m) == LET S == {k \in 1..Len(m.funcs) : m.funcs[k].name = name}
                    IN IF S = {} THEN 0 ELSE CHOOSE k \in S : TRUE

NewFrame(m, fi, argvals, dst, base) ==
    LET F == m.funcs[fi] IN
    [f |-> fi, b |-> F.entry, k |-> 1, prev |-> 0, dst |-> dst, base |-> base,
     env |-> Mk([v \in 1..F.nvals |->
                 IF \E p \in 1..Len(F.params) : F.params[p].id = v
                 THEN argvals[CHOOSE p \in 1..Len(F.params) : F.params[p].id = v]
                 ELSE Poison])]

StartPhase(c, a, p) ==
    LET m == c.mods[p]
        lay == LayoutR(m.globals, 1, GlobalBase, <<>>)
        fi == FnIndex(c.fn, m)
    IN /\ gaddr' = lay[1]
       /\ mem' = InitMem(m.globals, lay[1], m.pb)
       /\ calls' = <<>>
       /\ ret' = Poison
       /\ steps' = 0
       /\ IF fi = 0 \/ Len(m.funcs[fi].params) # Len(c.argv[a])
          THEN status' = "stuck" /\ why' = "no such function" /\ stack' = <<>>
          ELSE status' = "run" /\ why' = "" /\ stack' = <<NewFrame(m, fi, c.argv[a], 0, 0)>>

(* ---- current instruction --------------------------------------------------- *)
Top == stack[Len(stack)]
F == M.funcs[Top.f]
Blk == F.blocks[Top.b]
Running == i > 0 /\ status = "run"
HasIns == Top.b >= 1 /\ Top.b <= Len(F.blocks) /\ Top.k <= Len(Blk.ins)
I == Blk.ins[Top.k]
Is(kind) == Running /\ HasIns /\ I.k = kind

\* operand value: local id > 0, global < 0
Opv(o) == IF o > 0 THEN Top.env[o]
          ELSE IF o < 0 THEN AddrW(gaddr[-o])
          ELSE Poison

Halt(st, reason) ==
    /\ status' = st /\ why' = reason
    /\ UNCHANGED <<stack, mem, calls, ret, gaddr>>
    /\ steps' = steps + 1

\* define local d := v and move to the next instruction
Advance(d, v) ==
    /\ stack' = [stack EXCEPT ![Len(stack)] =
                    [@ EXCEPT !.k = @ + 1, !.env = IF d > 0 THEN [@ EXCEPT ![d] = v] ELSE @]]
    /\ steps' = steps + 1
    /\ UNCHANGED <<status, why, ret, gaddr>>

(* ---- memory ------------------------------------------------------------------ *)
AddrOK(w) == w # Poison /\ WFitsNat(w)
Mapped(a, n) == a >= 1 /\ a + n - 1 <= Len(mem) /\ \A j \in a..(a + n - 1) : mem[j] # Unmapped
Cells(a, n) == Mk([j \in 1..n |-> mem[a + j - 1]])
AllInit(c) == \A j \in 1..Len(c) : c[j] >= 0
WriteCells(mm, a, c) == Mk([j \in 1..Len(mm) |-> IF j >= a /\ j < a + Len(c) THEN c[j - a + 1] ELSE mm[j]])

(* ---- actions, one per instruction kind ------------------------------------------ *)
Const ==
    /\ Is("const")
    /\ IF IsIntTy(I.ty) THEN Advance(I.d, I.v) /\ UNCHANGED <<mem, calls>>
       ELSE Halt("outofmodel", "float")

Binop ==
    /\ Is("binop")
    /\ LET a == Opv(I.a)  b == Opv(I.b) IN
       IF ~IsIntTy(I.ty) THEN Halt("outofmodel", "float")
       ELSE IF a = Poison \/ b = Poison THEN Halt("undefined", "poison operand")
       ELSE IF ~KnownBinop(I.op) \/ Len(a) # Sz(I.ty) \/ Len(b) # Sz(I.ty) THEN Halt("stuck", "ill-typed binop")
       ELSE IF ~BinopDefined(I.op, a, b, I.ty) THEN Halt("undefined", "binop " \o I.op)
       ELSE Advance(I.d, BinopVal(I.op, a, b, I.ty)) /\ UNCHANGED <<mem, calls>>

Unop ==
    /\ Is("unop")
    /\ LET a == Opv(I.a) IN
       IF ~IsIntTy(I.ty) THEN Halt("outofmodel", "float")
       ELSE IF a = Poison THEN Halt("undefined", "poison operand")
       ELSE IF Len(a) # Sz(I.ty) \/ I.op \notin {"-", "~"} THEN Halt("stuck", "ill-typed unop")
       ELSE Advance(I.d, IF I.op = "-" THEN WNeg(a) ELSE WNot(a)) /\ UNCHANGED <<mem, calls>>

Cast ==
    /\ Is("cast")
    /\ LET a == Opv(I.a) IN
       IF ~IsIntTy(I.ty) \/ ~IsIntTy(I.aty) THEN Halt("outofmodel", "float cast")
       ELSE IF a = Poison THEN Halt("undefined", "poison operand")
       ELSE Advance(I.d, WResize(a, Sz(I.ty), Signed(I.aty))) /\ UNCHANGED <<mem, calls>>

AddressOf ==
    /\ Is("addrof")
    /\ Advance(I.d, Opv(I.a)) /\ UNCHANGED <<mem, calls>>

Alloc ==
    /\ Is("alloc")
    /\ LET a == AlignUp(Len(mem) + 1, I.align) IN
       IF a + I.amount > MaxMem THEN Halt("fuel", "memory")
       ELSE /\ mem' = mem \o [j \in 1..(a - Len(mem) - 1) |-> Unmapped] \o [j \in 1..I.amount |-> Uninit]
            /\ Advance(I.d, AddrW(a)) /\ UNCHANGED calls

Literal ==
    /\ Is("literal")
    /\ LET a == Len(mem) + 1 IN
       IF a + Len(I.data) > MaxMem THEN Halt("fuel", "memory")
       ELSE /\ mem' = mem \o I.data
            /\ Advance(I.d, AddrW(a)) /\ UNCHANGED calls

Load ==
    /\ Is("load")
    /\ LET w == Opv(I.a)  n == Sz(I.ty) IN
       IF IsFloatTy(I.ty) THEN Halt("outofmodel", "float")
       ELSE IF ~AddrOK(w) \/ n = 0 THEN Halt("undefined", "bad address")
       ELSE LET a == WToNat(w) IN
            IF ~Mapped(a, n) THEN Halt("undefined", "load out of bounds")
            ELSE LET c == Cells(a, n) IN
                 Advance(I.d, IF AllInit(c) THEN c ELSE Poison) /\ UNCHANGED <<mem, calls>>

Store ==
    /\ Is("store")
    /\ LET w == Opv(I.a)  v == Opv(I.b)  n == Sz(I.bty) IN
       IF IsFloatTy(I.bty) THEN Halt("outofmodel", "float")
       ELSE IF ~AddrOK(w) \/ n = 0 THEN Halt("undefined", "bad address")
       ELSE LET a == WToNat(w) IN
            IF ~Mapped(a, n) THEN Halt("undefined", "store out of bounds")
            ELSE /\ mem' = WriteCells(mem, a, IF v = Poison THEN [j \in 1..n |-> Uninit] ELSE v)
                 /\ Advance(0, Poison) /\ UNCHANGED calls

CopyBlob ==
    /\ Is("copyblob")
    /\ LET dw == Opv(I.a)  sw == Opv(I.b)  n == I.amount IN
       IF ~AddrOK(dw) \/ ~AddrOK(sw) THEN Halt("undefined", "bad address")
       ELSE LET d == WToNat(dw)  s == WToNat(sw) IN
            IF ~Mapped(d, n) \/ ~Mapped(s, n) THEN Halt("undefined", "memcpy out of bounds")
            ELSE /\ mem' = WriteCells(mem, d, Cells(s, n))
                 /\ Advance(0, Poison) /\ UNCHANGED calls

Undef ==
    /\ Is("undef")
    /\ Advance(I.d, Poison) /\ UNCHANGED <<mem, calls>>

\* block entry: all phis of the target are evaluated in parallel with the old environment
RECURSIVE PhiEnv(_, _, _, _, _)
PhiEnv(ins, k, from, oldenv, env) ==     \* returns <<env, first non-phi index, ok>>
    IF k > Len(ins) \/ ins[k].k # "phi" THEN <<env, k, TRUE>>
    ELSE LET S == {j \in 1..Len(ins[k].inc) : ins[k].inc[j].p = from} IN
         IF S = {} THEN <<env, k, FALSE>>
         ELSE LET o == ins[k].inc[CHOOSE j \in S : TRUE].v
                  v == IF o > 0 THEN oldenv[o] ELSE IF o < 0 THEN AddrW(gaddr[-o]) ELSE Poison
              IN PhiEnv(ins, k + 1, from, oldenv, [env EXCEPT ![ins[k].d] = v])

Goto(t) ==
    IF t < 1 \/ t > Len(F.blocks) THEN Halt("stuck", "jump to unknown block")
    ELSE LET r == PhiEnv(F.blocks[t].ins, 1, Top.b, Top.env, Top.env) IN
         IF ~r[3] THEN Halt("stuck", "phi without incoming value for predecessor")
         ELSE /\ stack' = [stack EXCEPT ![Len(stack)] = [@ EXCEPT !.prev = Top.b, !.b = t, !.k = r[2], !.env = r[1]]]
              /\ steps' = steps + 1
              /\ UNCHANGED <<mem, calls, status, why, ret, gaddr>>

Jump == Is("jmp") /\ Goto(I.t)

CJump ==
    /\ Is("cjmp")
    /\ LET a == Opv(I.a)  b == Opv(I.b) IN
       IF IsFloatTy(I.aty) THEN Halt("outofmodel", "float")
       ELSE IF a = Poison \/ b = Poison THEN Halt("undefined", "poison condition")
       ELSE IF Len(a) # Len(b) THEN Halt("stuck", "ill-typed cjmp")
       ELSE Goto(IF CondVal(I.cond, a, b, I.aty) THEN I.yes ELSE I.no)

\* a stray phi reached by falling through the instruction list cannot happen (Goto skips them)
StrayPhi == Is("phi") /\ Halt("stuck", "phi not at block start")

PopTo(v) ==
    IF Len(stack) = 1
    THEN /\ status' = "ok" /\ why' = "" /\ ret' = v
         /\ stack' = <<>> /\ steps' = steps + 1
         /\ UNCHANGED <<mem, calls, gaddr>>
    ELSE LET caller == stack[Len(stack) - 1] IN
         /\ stack' = [j \in 1..(Len(stack) - 1) |->
                        IF j < Len(stack) - 1 THEN stack[j]
                        ELSE [caller EXCEPT !.k = @ + 1,
                                            !.env = IF Top.dst > 0 THEN [@ EXCEPT ![Top.dst] = v] ELSE @]]
         /\ mem' = SubSeq(mem, 1, Top.base)           \* the callee's allocas die
         /\ steps' = steps + 1
         /\ UNCHANGED <<calls, status, why, ret, gaddr>>

Return ==
    /\ Is("ret")
    /\ LET v == Opv(I.a) IN
       IF IsFloatTy(I.aty) THEN Halt("outofmodel", "float")
       ELSE IF v = Poison THEN Halt("undefined", "return of poison")
       ELSE PopTo(v)

Exit == Is("exit") /\ PopTo(Poison)

\* result of the k-th call of external `name` (0-filled when the stub table is shorter)
ExtRet(name, k, n) ==
    LET S == {j \in 1..Len(C.ext) : C.ext[j].name = name} IN
    IF S = {} THEN WZero(n)
    ELSE LET rets == C.ext[CHOOSE j \in S : TRUE].rets IN
         IF k <= Len(rets) THEN WResize(rets[k], n, FALSE) ELSE WZero(n)
CountCalls(name) == Cardinality({j \in 1..Len(calls) : calls[j].name = name})

\* which global does a callee value designate?  0 if none
CalleeGlobal(o) ==
    IF o < 0 THEN -o
    ELSE LET w == Opv(o) IN
         IF w = Poison \/ ~WFitsNat(w) THEN 0
         ELSE LET a == WToNat(w) IN
              IF a >= FnBase /\ (a - FnBase) % 16 = 0 /\ (a - FnBase) \div 16 <= Len(M.globals)
              THEN (a - FnBase) \div 16 ELSE 0

DoCall(isfn) ==
    LET g == CalleeGlobal(I.c)
        argv == Mk([j \in 1..Len(I.args) |-> Opv(I.args[j])])
    IN
    IF g = 0 THEN Halt("undefined", "call through bad pointer")
    ELSE IF \E j \in 1..Len(argv) : argv[j] = Poison THEN Halt("undefined", "poison argument")
    ELSE IF \E j \in 1..Len(I.atys) : IsFloatTy(I.atys[j]) THEN Halt("outofmodel", "float")
    ELSE LET G == M.globals[g] IN
         IF G.k = "fn" THEN
            IF Len(stack) >= MaxDepth THEN Halt("fuel", "call depth")
            ELSE IF Len(M.funcs[G.fi].params) # Len(argv) THEN Halt("stuck", "arity mismatch")
            ELSE /\ stack' = Append(stack, NewFrame(M, G.fi, argv, I.d, Len(mem)))
                 /\ steps' = steps + 1
                 /\ UNCHANGED <<mem, calls, status, why, ret, gaddr>>
         ELSE IF G.k = "xfn" THEN
            IF isfn /\ IsFloatTy(I.ty) THEN Halt("outofmodel", "float")
            ELSE /\ calls' = Append(calls, [name |-> G.name, args |-> argv])
                 /\ Advance(I.d, IF isfn THEN ExtRet(G.name, CountCalls(G.name) + 1, Sz(I.ty)) ELSE Poison)
                 /\ UNCHANGED mem
         ELSE Halt("undefined", "call of a variable")

Call  == Is("call") /\ DoCall(TRUE)
PCall == Is("pcall") /\ DoCall(FALSE)

OutOfModel == Is("oom") /\ Halt("outofmodel", I.why)
Unknown == Running /\ HasIns
           /\ I.k \notin {"const", "binop", "unop", "cast", "addrof", "alloc", "literal", "load", "store",
                          "copyblob", "undef", "jmp", "cjmp", "phi", "ret", "exit", "call", "pcall", "oom"}
           /\ Halt("stuck", "unknown instruction kind")
FellOff == Running /\ ~HasIns /\ Halt("stuck", "fell off the end of a block")

FuelLimit == IF ph = 1 THEN C.fuel ELSE 10 * obs0.steps + 1000
OutOfFuel == Running /\ steps >= FuelLimit

Step == /\ ~OutOfFuel
        /\ \/ Const \/ Binop \/ Unop \/ Cast \/ AddressOf \/ Alloc \/ Literal \/ Load \/ Store
           \/ CopyBlob \/ Undef \/ Jump \/ CJump \/ StrayPhi \/ Return \/ Exit \/ Call \/ PCall
           \/ OutOfModel \/ Unknown \/ FellOff
        /\ UNCHANGED <<chunk, i, av, ph, obs0>>

Exhaust == /\ OutOfFuel
           /\ status' = "fuel" /\ why' = "step budget"
           /\ UNCHANGED <<chunk, i, av, ph, obs0, stack, mem, calls, ret, steps, gaddr>>

(* ---- observation ------------------------------------------------------------- *)
GlobalBytes(k) == Cells(gaddr[k], M.globals[k].size)
VarIdx == {k \in 1..Len(M.globals) : M.globals[k].k = "var"}
Obs == [status |-> status,
        ret |-> ret,
        globals |-> IF status = "ok" THEN [k \in VarIdx |-> <<M.globals[k].name, GlobalBytes(k)>>] ELSE <<>>,
        calls |-> calls]

Finished == i > 0 /\ status \notin {"run", "idle"}

\* move to the next artifact of the case, remembering the first observation
NextPhase ==
    /\ Finished
    /\ ph < Len(C.mods)
    /\ (ph = 1 => status = "ok")          \* nothing to compare unless the original is fully defined
    /\ obs0' = IF ph = 1 THEN [o |-> Obs, steps |-> steps] ELSE obs0
    /\ ph' = ph + 1
    /\ StartPhase(C, av, ph + 1)
    /\ UNCHANGED <<chunk, i, av>>

(* ---- batch driver: two-level fan-out over the cases ------------------------- *)
Init == /\ chunk = 0 /\ i = 0 /\ av = 0 /\ ph = 0 /\ stack = <<>> /\ mem = <<>> /\ calls = <<>>
        /\ status = "idle" /\ why = "" /\ ret = Poison /\ steps = 0 /\ obs0 = <<>> /\ gaddr = <<>>
PickChunk == /\ chunk = 0 /\ chunk' \in 1..NChunks
             /\ UNCHANGED <<i, av, ph, stack, mem, calls, status, why, ret, steps, obs0, gaddr>>
PickCase == /\ chunk > 0 /\ i = 0
            /\ i' \in {k \in 1..Len(Cases) : k % NChunks = chunk - 1}
            /\ av' \in 1..Len(Cases[i'].argv)
            /\ ph' = 1 /\ obs0' = <<>>
            /\ StartPhase(Cases[i'], av', 1)
            /\ UNCHANGED chunk
Next == PickChunk \/ PickCase \/ Step \/ Exhaust \/ NextPhase

(* ---- the property ------------------------------------------------------------ *)
SameGlobals(a, b) == DOMAIN a = DOMAIN b /\ \A k \in DOMAIN a : a[k] = b[k]
ObsPreserved ==
    (Finished /\ ph > 1) =>
        /\ status = obs0.o.status
        /\ ret = obs0.o.ret
        /\ calls = obs0.o.calls
        /\ SameGlobals(Obs.globals, obs0.o.globals)

\* Trace validation against an execution of the artifact by something other than TLC
\* (generated Python, native code, an emulator): the case carries what the implementation
\* observed,  obs = [outcome : "ok" | "trap" | "error:<class>", ret : word | <<>>,
\*                   globals : Seq([name, bytes]), hascalls : BOOLEAN, calls : Seq([name, args])].
\* Whenever the IR execution of mods[1] is fully defined the observation must coincide.
GlobalByName(n) == LET S == {k \in VarIdx : M.globals[k].name = n} IN
                   IF S = {} THEN <<>> ELSE GlobalBytes(CHOOSE k \in S : TRUE)
ObsMatchesImpl ==
    (Finished /\ ph = 1 /\ status = "ok" /\ "obs" \in DOMAIN C) =>
        /\ C.obs.outcome = "ok"
        /\ ret = C.obs.ret
        /\ \A j \in 1..Len(C.obs.globals) : GlobalByName(C.obs.globals[j].name) = C.obs.globals[j].bytes
        /\ (C.obs.hascalls => calls = C.obs.calls)

\* sanity of the semantics itself: exactly one instruction action is enabled while running
TypeOK == /\ status \in {"run", "ok", "undefined", "outofmodel", "fuel", "stuck", "idle"}
          /\ (status = "run" => Len(stack) >= 1)
=============================================================================
