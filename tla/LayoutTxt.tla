------------------------------ MODULE LayoutTxt ------------------------------
(* The text form of a linker memory layout (ppci.binutils.layout): lexer,     *)
(* grammar and printer.  A text is a sequence of character codes.             *)
(*                                                                            *)
(*   layout    ::= top_level+                                                 *)
(*   top_level ::= mem | entry                                                *)
(*   entry     ::= ENTRY ( ID )                                               *)
(*   mem       ::= MEMORY ID LOCATION = NUMBER SIZE = NUMBER { input+ }       *)
(*   input     ::= ALIGN ( NUMBER ) | SECTION ( ID ) | SECTIONDATA ( ID )     *)
(*               | DEFINESYMBOL ( ID )                                        *)
(*   NUMBER    ::= 0x hexdigit+ | digit+                                     *)
(*   ID        ::= letter or _ , then letters, digits, _                      *)
(*   white space: blank, tab, CR, LF between tokens; keywords are the upper   *)
(*   case words above and are not identifiers.                                *)
(* Numbers are 64-bit words (8 byte limbs, LSB first; TLC integers are 32-bit).*)
(* An abstract layout is [entry |-> [present, name], mems |-> <<[name, loc,   *)
(* size, inputs |-> <<[k, name, num]>>]>>] with k \in {"align", "section",    *)
(* "sectiondata", "symbol"}.                                                  *)
EXTENDS FmtBytes, FiniteSets

LtDigits == 48..57
LtHex == LtDigits \cup (65..70) \cup (97..102)
LtIdStart == {95} \cup (65..90) \cup (97..122)
LtIdChars == LtIdStart \cup LtDigits
LtSpace == {32, 9, 13, 10}
LtPunct == {46, 44, 61, 58, 45, 43, 42, 91, 93, 47, 40, 41, 62, 60, 125, 123}   \* . , = : - + * [ ] / ( ) > < } {
KwMemory == <<77, 69, 77, 79, 82, 89>>
KwAlign == <<65, 76, 73, 71, 78>>
KwEntry == <<69, 78, 84, 82, 89>>
KwLocation == <<76, 79, 67, 65, 84, 73, 79, 78>>
KwSection == <<83, 69, 67, 84, 73, 79, 78>>
KwSectiondata == <<83, 69, 67, 84, 73, 79, 78, 68, 65, 84, 65>>
KwSize == <<83, 73, 90, 69>>
KwDefinesymbol == <<68, 69, 70, 73, 78, 69, 83, 89, 77, 66, 79, 76>>
LtKeywords == {KwMemory, KwAlign, KwEntry, KwLocation, KwSection, KwSectiondata, KwSize, KwDefinesymbol}

\* first position >= p whose character is not in the class CS (Len + 1 when the run reaches the end)
LtRunEnd(T, p, CS) == LET S == {q \in p..Len(T) : T[q] \notin CS} IN
                      IF S = {} THEN Len(T) + 1 ELSE CHOOSE q \in S : \A o \in S : q <= o

\* ---- numbers ----
LtTen == <<10, 0, 0, 0, 0, 0, 0, 0>>
RECURSIVE LtDecVal(_, _, _)
LtDecVal(ds, p, acc) == IF p > Len(ds) THEN acc
                        ELSE LtDecVal(ds, p + 1, WAdd(WMul(acc, LtTen), WFromNat(ds[p] - 48, 8)))
LtNibble(ch) == IF ch \in LtDigits THEN ch - 48 ELSE IF ch \in 65..70 THEN ch - 55 ELSE ch - 87
\* hs = hex digit characters, most significant first (at most 16 significant)
LtHexVal(hs) == LET n == Len(hs)
                    nib(j) == IF j <= n THEN LtNibble(hs[n + 1 - j]) ELSE 0     \* j-th nibble from the right
                IN Mk([k \in 1..8 |-> nib(2 * k - 1) + 16 * nib(2 * k)])

\* ---- lexer: the token that starts at p (p <= Len(T), T[p] not white space) ----
LtTok(kind, str, val, nxt) == [k |-> kind, s |-> str, v |-> val, nxt |-> nxt]
LtTokenAt(T, p) ==
    LET ch == T[p] IN
    IF ch = 48 /\ p + 2 <= Len(T) /\ T[p + 1] = 120 /\ T[p + 2] \in LtHex
    THEN LET e == LtRunEnd(T, p + 2, LtHex) IN LtTok("num", SubSeq(T, p, e - 1), LtHexVal(SubSeq(T, p + 2, e - 1)), e)
    ELSE IF ch \in LtDigits
    THEN LET e == LtRunEnd(T, p, LtDigits) IN LtTok("num", SubSeq(T, p, e - 1), LtDecVal(SubSeq(T, p, e - 1), 1, WZero(8)), e)
    ELSE IF ch \in LtIdStart
    THEN LET e == LtRunEnd(T, p, LtIdChars)
             w == SubSeq(T, p, e - 1)
         IN LtTok(IF w \in LtKeywords THEN "kw" ELSE "id", w, WZero(8), e)
    ELSE IF ch = 58 /\ p + 1 <= Len(T) /\ T[p + 1] = 61 THEN LtTok("punct", <<58, 61>>, WZero(8), p + 2)
    ELSE IF ch \in LtPunct
    THEN IF ch \in {62, 60} /\ p + 1 <= Len(T) /\ T[p + 1] = 61 THEN LtTok("punct", <<ch, 61>>, WZero(8), p + 2)
         ELSE IF ch = 60 /\ p + 1 <= Len(T) /\ T[p + 1] = 62 THEN LtTok("punct", <<60, 62>>, WZero(8), p + 2)
         ELSE LtTok("punct", <<ch>>, WZero(8), p + 1)
    ELSE IF ch = 39
    THEN LET S == {q \in (p + 1)..Len(T) : T[q] = 39 \/ T[q] = 10} IN
         IF S = {} THEN LtTok("bad", <<ch>>, WZero(8), Len(T) + 1)
         ELSE LET e == CHOOSE q \in S : \A o \in S : q <= o IN
              IF T[e] = 10 THEN LtTok("bad", <<ch>>, WZero(8), Len(T) + 1)
              ELSE LtTok("string", SubSeq(T, p + 1, e - 1), WZero(8), e + 1)
    ELSE LtTok("bad", <<ch>>, WZero(8), Len(T) + 1)
RECURSIVE LtLex(_, _, _)
LtLex(T, p, acc) ==
    IF p > Len(T) THEN acc
    ELSE IF T[p] \in LtSpace THEN LtLex(T, LtRunEnd(T, p, LtSpace), acc)
    ELSE LET t == LtTokenAt(T, p) IN LtLex(T, t.nxt, Append(acc, t))

\* ---- parser (recursive descent over the token sequence K from position p) ----
LtIsKw(K, p, w) == p <= Len(K) /\ K[p].k = "kw" /\ K[p].s = w
LtIsP(K, p, ch) == p <= Len(K) /\ K[p].k = "punct" /\ K[p].s = <<ch>>
LtIsId(K, p) == p <= Len(K) /\ K[p].k = "id"
LtIsNum(K, p) == p <= Len(K) /\ K[p].k = "num"
LtFail == [ok |-> FALSE, pos |-> 0]
\* KEYWORD ( ID|NUMBER )
LtInput(K, p) ==
    IF ~(p + 3 <= Len(K) /\ LtIsP(K, p + 1, 40) /\ LtIsP(K, p + 3, 41)) THEN [ok |-> FALSE, pos |-> 0, inp |-> <<>>]
    ELSE IF LtIsKw(K, p, KwAlign) /\ LtIsNum(K, p + 2)
         THEN [ok |-> TRUE, pos |-> p + 4, inp |-> [k |-> "align", name |-> <<>>, num |-> K[p + 2].v]]
    ELSE IF LtIsKw(K, p, KwSection) /\ LtIsId(K, p + 2)
         THEN [ok |-> TRUE, pos |-> p + 4, inp |-> [k |-> "section", name |-> K[p + 2].s, num |-> WZero(8)]]
    ELSE IF LtIsKw(K, p, KwSectiondata) /\ LtIsId(K, p + 2)
         THEN [ok |-> TRUE, pos |-> p + 4, inp |-> [k |-> "sectiondata", name |-> K[p + 2].s, num |-> WZero(8)]]
    ELSE IF LtIsKw(K, p, KwDefinesymbol) /\ LtIsId(K, p + 2)
         THEN [ok |-> TRUE, pos |-> p + 4, inp |-> [k |-> "symbol", name |-> K[p + 2].s, num |-> WZero(8)]]
    ELSE [ok |-> FALSE, pos |-> 0, inp |-> <<>>]
RECURSIVE LtInputs(_, _, _)
LtInputs(K, p, acc) ==
    LET r == LtInput(K, p) IN
    IF r.ok THEN LtInputs(K, r.pos, Append(acc, r.inp)) ELSE [pos |-> p, list |-> acc]
\* MEMORY ID LOCATION = NUMBER SIZE = NUMBER { input+ }
LtMem(K, p) ==
    IF ~(/\ LtIsKw(K, p, KwMemory) /\ LtIsId(K, p + 1) /\ LtIsKw(K, p + 2, KwLocation) /\ LtIsP(K, p + 3, 61)
         /\ LtIsNum(K, p + 4) /\ LtIsKw(K, p + 5, KwSize) /\ LtIsP(K, p + 6, 61) /\ LtIsNum(K, p + 7)
         /\ LtIsP(K, p + 8, 123))
    THEN [ok |-> FALSE, pos |-> 0, mem |-> <<>>]
    ELSE LET I == LtInputs(K, p + 9, <<>>) IN
         IF Len(I.list) = 0 \/ ~LtIsP(K, I.pos, 125) THEN [ok |-> FALSE, pos |-> 0, mem |-> <<>>]
         ELSE [ok |-> TRUE, pos |-> I.pos + 1,
               mem |-> [name |-> K[p + 1].s, loc |-> K[p + 4].v, size |-> K[p + 7].v, inputs |-> I.list]]
LtNoEntry == [present |-> FALSE, name |-> <<>>]
RECURSIVE LtTop(_, _, _, _)
LtTop(K, p, ent, mems) ==
    IF p > Len(K) THEN [ok |-> TRUE, entry |-> ent, mems |-> mems]
    ELSE IF LtIsKw(K, p, KwEntry)
         THEN IF LtIsP(K, p + 1, 40) /\ LtIsId(K, p + 2) /\ LtIsP(K, p + 3, 41)
              THEN LtTop(K, p + 4, [present |-> TRUE, name |-> K[p + 2].s], mems)
              ELSE [ok |-> FALSE, entry |-> ent, mems |-> mems]
    ELSE LET m == LtMem(K, p) IN
         IF m.ok THEN LtTop(K, m.pos, ent, Append(mems, m.mem)) ELSE [ok |-> FALSE, entry |-> ent, mems |-> mems]
\* the layout a text denotes; ok = FALSE when the text is not in the language
LtParse(T) ==
    LET K == LtLex(T, 1, <<>>) IN
    IF K = <<>> \/ \E q \in 1..Len(K) : K[q].k = "bad" THEN [ok |-> FALSE, entry |-> LtNoEntry, mems |-> <<>>]
    ELSE LtTop(K, 1, LtNoEntry, <<>>)

\* ---- printers ----
RECURSIVE LtDecDigits(_)
LtDecDigits(num) == IF num < 10 THEN <<48 + num>> ELSE Append(LtDecDigits(num \div 10), 48 + (num % 10))
LtHexDigit(d) == IF d < 10 THEN 48 + d ELSE 55 + d
\* upper-case hexadecimal, at least 8 digits ("%08X")
LtHex08(wd) ==
    LET nib(j) == IF j % 2 = 1 THEN wd[(j + 1) \div 2] % 16 ELSE wd[j \div 2] \div 16    \* j-th nibble from the right
        S == {j \in 1..16 : nib(j) # 0}
        top == IF S = {} THEN 1 ELSE CHOOSE j \in S : \A o \in S : o <= j
        n == IF top < 8 THEN 8 ELSE top
    IN Mk([k \in 1..n |-> LtHexDigit(nib(n + 1 - k))])
LtStr(s) == s
RECURSIVE LtJoin(_, _)
LtJoin(parts, p) == IF p > Len(parts) THEN <<>>
                    ELSE (IF p > 1 THEN <<44, 32>> ELSE <<>>) \o parts[p] \o LtJoin(parts, p + 1)
LtList(parts) == <<91>> \o LtJoin(parts, 1) \o <<93>>
\* the printed form of the objects (their repr), which the documentation of the classes fixes:
\*   Section(x)  SectionData(x)  Align(n)  Symbol define: x
\*   MEM name loc=%08X size=%08X[inputs]        layout = [mem, mem]
LtReprInput(inp) ==
    IF inp.k = "section" THEN <<83, 101, 99, 116, 105, 111, 110, 40>> \o inp.name \o <<41>>
    ELSE IF inp.k = "sectiondata" THEN <<83, 101, 99, 116, 105, 111, 110, 68, 97, 116, 97, 40>> \o inp.name \o <<41>>
    ELSE IF inp.k = "align" THEN <<65, 108, 105, 103, 110, 40>> \o LtDecDigits(FNum(inp.num)) \o <<41>>
    ELSE <<83, 121, 109, 98, 111, 108, 32, 100, 101, 102, 105, 110, 101, 58, 32>> \o inp.name
LtReprMem(m) == <<77, 69, 77, 32>> \o m.name \o <<32, 108, 111, 99, 61>> \o LtHex08(m.loc)
                \o <<32, 115, 105, 122, 101, 61>> \o LtHex08(m.size)
                \o LtList(Mk([k \in 1..Len(m.inputs) |-> LtReprInput(m.inputs[k])]))
LtRepr(L) == LtList(Mk([k \in 1..Len(L.mems) |-> LtReprMem(L.mems[k])]))
LtPrintable(L) == \A k \in 1..Len(L.mems) : \A j \in 1..Len(L.mems[k].inputs) :
                      L.mems[k].inputs[j].k = "align" => FNum(L.mems[k].inputs[j].num) < FCap

\* canonical text of a layout (one way to write it; used for the round-trip law)
LtTextInput(inp) ==
    IF inp.k = "section" THEN KwSection \o <<40>> \o inp.name \o <<41>>
    ELSE IF inp.k = "sectiondata" THEN KwSectiondata \o <<40>> \o inp.name \o <<41>>
    ELSE IF inp.k = "align" THEN KwAlign \o <<40>> \o LtDecDigits(FNum(inp.num)) \o <<41>>
    ELSE KwDefinesymbol \o <<40>> \o inp.name \o <<41>>
RECURSIVE LtCat(_, _)
LtCat(parts, p) == IF p > Len(parts) THEN <<>> ELSE parts[p] \o <<10>> \o LtCat(parts, p + 1)
LtTextMem(m) == KwMemory \o <<32>> \o m.name \o <<32>> \o KwLocation \o <<61, 48, 120>> \o LtHex08(m.loc) \o <<32>>
                \o KwSize \o <<61, 48, 120>> \o LtHex08(m.size) \o <<32, 123, 10>>
                \o LtCat(Mk([k \in 1..Len(m.inputs) |-> LtTextInput(m.inputs[k])]), 1) \o <<125>>
LtText(L) == (IF L.entry.present THEN KwEntry \o <<40>> \o L.entry.name \o <<41, 10>> ELSE <<>>)
             \o LtCat(Mk([k \in 1..Len(L.mems) |-> LtTextMem(L.mems[k])]), 1)

\* ---- clauses: r = [text, want = the abstract layout the text was rendered from,
\*      got = [ok, exc, layout, repr, eq (ppci's == with the layout built through the API), built_repr,
\*             eq_other / other_repr = the same for a layout that differs from it in one place]] ----
\* (the printed form itself is not prescribed by the property: it has to be a faithful function of the
\*  layout -- equal layouts print alike, a layout that differs prints differently; LtRepr above is the
\*  form the classes use today and serves the model check of this module)
LtFailures(r) ==
    LET S == LtParse(r.text) IN
    IF ~S.ok THEN Fails("LtRejects", TRUE)            \* texts outside the language: no verdict
    ELSE Fails("LtAccepts", r.got.ok)
         \cup (IF ~r.got.ok THEN {} ELSE
               Fails("LtParsed", r.got.layout = [entry |-> S.entry, mems |-> S.mems])
               \cup Fails("LtPrinted", r.got.built_repr = r.got.repr)
               \cup Fails("LtRoundTrip", r.got.eq)
               \cup Fails("LtDistinguishes", r.dom => ~r.got.eq_other /\ r.got.other_repr # r.got.repr))
LtClauses == {"LtAccepts", "LtParsed", "LtPrinted", "LtRoundTrip", "LtDistinguishes"}
\* the harness rendered the text from `want`: the specification must read it back as that (harness sanity)
LtDomain(r) == LET S == LtParse(r.text) IN S.ok /\ [entry |-> S.entry, mems |-> S.mems] = r.want
=============================================================================
