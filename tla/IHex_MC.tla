------------------------------ MODULE IHex_MC ------------------------------
(* Idiom M: the Intel HEX specification model-checked on a scaled-down      *)
(* address space (HiMod "segments" of LoMod bytes).  A behaviour builds a   *)
(* set of disjoint regions in any order (AddRegion), optionally a start     *)
(* address (SetStart), writes the file with the reference encoder in one of *)
(* its styles (Save) and then reads it back record by record with the       *)
(* streaming reader (the Read actions), exactly the actions the conformance *)
(* check (IHex_Trace) takes over files written by ppci.  The laws are       *)
(* invariants of the final state.                                           *)
EXTENDS IHex
CONSTANTS MaxRegs, MaxLen, Chunk
VARIABLES regs, start, phase, lines, l, cur, rd      \* cur: the parsed record under the read head
vars == <<regs, start, phase, lines, l, cur, rd>>

AddrSpace == {<<h, o>> : h \in 0..(HiMod - 1), o \in 0..(LoMod - 1)}
\* data of a region: a function of its address, so adjacent regions differ
DataAt(a, n) == [k \in 1..n |-> (37 * (a[1] * LoMod + a[2] + k - 1) + 201) % 256]
Starts == {[hi |-> 0, lo |-> 0], [hi |-> HiMod - 1, lo |-> 1]}
Opts == {[ch |-> Chunk, split |-> s, lazy |-> z, upper |-> s, force05 |-> z] : s, z \in BOOLEAN}

Init == regs = <<>> /\ start = [hi |-> 0, lo |-> 0] /\ phase = "build" /\ lines = <<>> /\ l = 0 /\ cur = NoParse /\ rd = RdInit
AddRegion == /\ phase = "build" /\ Len(regs) < MaxRegs
             /\ \E a \in AddrSpace, n \in 1..MaxLen :
                   LET r == Reg(a, DataAt(a, n))
                   IN /\ InDomain(Append(regs, r), LoMod, HiMod)
                      /\ regs' = Append(regs, r)
             /\ UNCHANGED <<start, phase, lines, l, cur, rd>>
SetStart == /\ phase = "build" /\ start.hi = 0 /\ start.lo = 0
            /\ \E s \in Starts : (s.hi # 0 \/ s.lo # 0) /\ start' = s
            /\ UNCHANGED <<regs, phase, lines, l, cur, rd>>
Save == /\ phase = "build"
        /\ \E o \in Opts : lines' = Encode(regs, start, o)
        /\ phase' = "read" /\ cur' = Parse(lines'[1])
        /\ UNCHANGED <<regs, start, l, rd>>

Exp == Merge(regs, LoMod)
Cur == cur
Reading == phase = "read" /\ l < Len(lines)
Adv(nrd) == /\ rd' = nrd /\ l' = l + 1
            /\ cur' = (IF l + 2 <= Len(lines) THEN Parse(lines[l + 2]) ELSE NoParse)
            /\ UNCHANGED <<regs, start, phase, lines>>
ReadAfterEof == Reading /\ rd.eof /\ Adv(RdAfterEof(rd))
ReadBad      == Reading /\ ~rd.eof /\ ~WellFormed(Cur) /\ Adv(RdBad(rd))
Good(t)      == Reading /\ ~rd.eof /\ WellFormed(Cur) /\ Cur.typ = t
ReadData     == Good(DATA) /\ Adv(RdData(rd, Cur, Exp))
ReadEof      == Good(EOFR) /\ Adv(RdEof(rd))
ReadExtLin   == Good(EXTLIN) /\ Adv(RdExtLin(rd, Cur))
ReadExtSeg   == Good(EXTSEG) /\ Adv(RdExtSeg(rd, Cur))
ReadStartLin == Good(STARTLIN) /\ Adv(RdStartLin(rd, Cur))
ReadStartSeg == Good(STARTSEG) /\ Adv(RdStartSeg(rd, Cur))
Finish == phase = "read" /\ l = Len(lines) /\ phase' = "done" /\ UNCHANGED <<regs, start, lines, l, cur, rd>>
Next == \/ AddRegion \/ SetStart \/ Save \/ Finish
        \/ ReadAfterEof \/ ReadBad \/ ReadData \/ ReadEof \/ ReadExtLin \/ ReadExtSeg \/ ReadStartLin \/ ReadStartSeg

Done == phase = "done"
P == Parsed(lines)

\* ---- laws of the region algebra (every state)
LawMerge == LET m == Merge(regs, LoMod) IN
            /\ Cells(m, LoMod) = Cells(regs, LoMod) /\ Bytes(m) = Bytes(regs)
            /\ \A k \in 1..(Len(m) - 1) : AddrLt(RegEnd(m[k], LoMod), A(m[k + 1]))      \* sorted, not adjacent
            /\ m = Merge([k \in 1..Len(regs) |-> regs[Len(regs) + 1 - k]], LoMod)        \* order of insertion irrelevant
            /\ IsCover(CovOfRegions(m, LoMod))
\* ---- laws of the streaming reader (every state while reading)
LawCover == IsCover(rd.cov)
\* ---- laws of the written file (final state)
LawWellFormed == Done => AllWellFormed(P) /\ EofAt(P) = Len(P)
LawAccept == Done => Accepts(rd, Exp, start) /\ rd = RunP(P, Exp)
LawRoundTrip == Done => /\ DecodedRegions(P) = Exp
                        /\ StartIs(DecodedStart(P), start)
                        /\ DecodesExactly(P, regs)
\* a changed digit is always detected (length or checksum).  A law about single
\* records: checked on the files of at most one region, which contain every
\* kind of record
LawCorrupt == (Done /\ Len(regs) <= 1) =>
                 \A k \in 1..Len(lines) : \A c \in 2..Len(lines[k]) :
                     LET d == HexDigit(lines[k][c])
                         ln == [lines[k] EXCEPT ![c] = UDigit((d + 1) % 16)]
                     IN ~WellFormed(Parse(ln))
\* the two formulations (streaming reader, declarative decoder) agree on the
\* file and on every file obtained from it by deleting one record or (files of
\* at most one region) duplicating one record; and deleting or duplicating a
\* data record is never accepted
Drop(s, k) == SubSeq(s, 1, k - 1) \o SubSeq(s, k + 1, Len(s))
Dup(s, k) == SubSeq(s, 1, k) \o SubSeq(s, k, Len(s))
AgreeOn(v, must_reject) == LET acc == Accepts(RunP(v, Exp), Exp, start)
                           IN (acc <=> DeclAccepts(v, regs, start)) /\ (must_reject => ~acc)
LawAgree == Done => /\ AgreeOn(P, FALSE)
                    /\ \A k \in 1..Len(P) :
                          LET isdata == P[k].typ = DATA /\ P[k].count > 0
                          IN /\ AgreeOn(Drop(P, k), isdata)
                             /\ (Len(regs) <= 1 => AgreeOn(Dup(P, k), isdata))

\* ---- known-answer files with the real constants (LoMod = HiMod = 65536):
\* the example of the format's Wikipedia article, segment addressing with an
\* offset that wraps inside the segment (02/03 records), linear addressing
\* that wraps modulo 2^32 with a start address (04/05) and lower-case digits,
\* and a file of malformed records and records after the end-of-file record.
KatWiki == <<
    \* :10010000214601360121470136007EFE09D2190140
    <<58,49,48,48,49,48,48,48,48,50,49,52,54,48,49,51,54,48,49,50,49,52,55,48,49,51,54,48,48,55,69,70,69,48,57,68,50,49,57,48,49,52,48>>,
    \* :100110002146017E17C20001FF5F16002148011928
    <<58,49,48,48,49,49,48,48,48,50,49,52,54,48,49,55,69,49,55,67,50,48,48,48,49,70,70,53,70,49,54,48,48,50,49,52,56,48,49,49,57,50,56>>,
    \* :10012000194E79234623965778239EDA3F01B2CAA7
    <<58,49,48,48,49,50,48,48,48,49,57,52,69,55,57,50,51,52,54,50,51,57,54,53,55,55,56,50,51,57,69,68,65,51,70,48,49,66,50,67,65,65,55>>,
    \* :100130003F0156702B5E712B722B732146013421C7
    <<58,49,48,48,49,51,48,48,48,51,70,48,49,53,54,55,48,50,66,53,69,55,49,50,66,55,50,50,66,55,51,50,49,52,54,48,49,51,52,50,49,67,55>>,
    \* :00000001FF
    <<58,48,48,48,48,48,48,48,49,70,70>>
  >>
KatSeg == <<
    \* :020000021200EA
    <<58,48,50,48,48,48,48,48,50,49,50,48,48,69,65>>,
    \* :04FFFE00AABBCCDDF1
    <<58,48,52,70,70,70,69,48,48,65,65,66,66,67,67,68,68,70,49>>,
    \* :0400000300003800C1
    <<58,48,52,48,48,48,48,48,51,48,48,48,48,51,56,48,48,67,49>>,
    \* :00000001FF
    <<58,48,48,48,48,48,48,48,49,70,70>>
  >>
KatLin == <<
    \* :02000004FFFFFC
    <<58,48,50,48,48,48,48,48,52,70,70,70,70,70,67>>,
    \* :04FFFE00AABBCCDDF1
    <<58,48,52,70,70,70,69,48,48,65,65,66,66,67,67,68,68,70,49>>,
    \* :04000005000000CD2A
    <<58,48,52,48,48,48,48,48,53,48,48,48,48,48,48,67,68,50,65>>,
    \* :03001000010203e7
    <<58,48,51,48,48,49,48,48,48,48,49,48,50,48,51,101,55>>,
    \* :00000001FF
    <<58,48,48,48,48,48,48,48,49,70,70>>
  >>
KatBad == <<
    \* :03000000010203F0
    <<58,48,51,48,48,48,48,48,48,48,49,48,50,48,51,70,48>>,
    \* :020000000102
    <<58,48,50,48,48,48,48,48,48,48,49,48,50>>,
    \* :0000000
    <<58,48,48,48,48,48,48,48>>,
    \* 00000001FF
    <<48,48,48,48,48,48,48,49,70,70>>,
    \* :00000006FA
    <<58,48,48,48,48,48,48,48,54,70,65>>,
    \* :0100000401FA
    <<58,48,49,48,48,48,48,48,52,48,49,70,65>>,
    \* :00000001FF
    <<58,48,48,48,48,48,48,48,49,70,70>>,
    \* :0100000009F6
    <<58,48,49,48,48,48,48,48,48,48,57,70,54>>,
    \* :00000001FF
    <<58,48,48,48,48,48,48,48,49,70,70>>
  >>
WikiData == <<33, 70, 1, 54, 1, 33, 71, 1, 54, 0, 126, 254, 9, 210, 25, 1, 33, 70, 1, 126, 23, 194, 0, 1, 255, 95, 22, 0,
              33, 72, 1, 25, 25, 78, 121, 35, 70, 35, 150, 87, 120, 35, 158, 218, 63, 1, 178, 202, 63, 1, 86, 112, 43,
              94, 113, 43, 114, 43, 115, 33, 70, 1, 52, 33>>
Kats == {[lines |-> KatWiki, regs |-> <<Reg(<<0, 256>>, WikiData)>>, start |-> [hi |-> 0, lo |-> 0],
          accept |-> TRUE, nbad |-> 0, nafter |-> 0],
         [lines |-> KatSeg, regs |-> <<Reg(<<2, 8190>>, <<170, 187>>), Reg(<<1, 8192>>, <<204, 221>>)>>,
          start |-> [hi |-> 0, lo |-> 0], accept |-> TRUE, nbad |-> 0, nafter |-> 0],
         [lines |-> KatLin, regs |-> <<Reg(<<65535, 65534>>, <<170, 187>>), Reg(<<0, 0>>, <<204, 221>>), Reg(<<65535, 16>>, <<1, 2, 3>>)>>,
          start |-> [hi |-> 0, lo |-> 205], accept |-> TRUE, nbad |-> 0, nafter |-> 0],
         [lines |-> KatLin, regs |-> <<Reg(<<65535, 65534>>, <<170, 187>>), Reg(<<0, 0>>, <<204, 221>>), Reg(<<65535, 16>>, <<1, 2, 4>>)>>,
          start |-> [hi |-> 0, lo |-> 205], accept |-> FALSE, nbad |-> 0, nafter |-> 0],
         [lines |-> KatLin, regs |-> <<Reg(<<65535, 65534>>, <<170, 187>>), Reg(<<0, 0>>, <<204, 221>>), Reg(<<65535, 16>>, <<1, 2, 3>>)>>,
          start |-> [hi |-> 0, lo |-> 206], accept |-> FALSE, nbad |-> 0, nafter |-> 0],
         [lines |-> KatBad, regs |-> <<>>, start |-> [hi |-> 0, lo |-> 0], accept |-> FALSE, nbad |-> 6, nafter |-> 2]}
InitKat == \E K \in Kats : /\ regs = K.regs /\ start = K.start /\ phase = "read" /\ lines = K.lines
                            /\ l = 0 /\ cur = Parse(K.lines[1]) /\ rd = RdInit
LawKat == Done => \A K \in Kats : (K.lines = lines /\ K.regs = regs /\ K.start = start) =>
              /\ Accepts(rd, Exp, start) = K.accept /\ DeclAccepts(P, regs, start) = K.accept
              /\ rd.nbad = K.nbad /\ rd.nafter = K.nafter /\ rd = RunP(P, Exp)
=============================================================================
