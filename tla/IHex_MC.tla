------------------------------ MODULE IHex_MC ------------------------------
(* Idiom M: the Intel HEX specification model-checked on a scaled-down      *)
(* address space (HiMod "segments" of LoMod bytes).  A behaviour builds a   *)
(* set of disjoint regions in any order (AddRegion), optionally a start     *)
(* address (SetStart), writes the file with the reference encoder in one of *)
(* its styles (Save) and then reads it back record by record with the       *)
(* streaming reader (the Read actions), exactly the actions the conformance check      *)
(* (IHex_Trace) takes over files written by ppci.  The laws are invariants  *)
(* of the final state.                                                      *)
EXTENDS IHex
CONSTANTS MaxRegs, MaxLen, Chunk
VARIABLES regs, start, phase, lines, l, rd
vars == <<regs, start, phase, lines, l, rd>>

AddrSpace == {<<h, o>> : h \in 0..(HiMod - 1), o \in 0..(LoMod - 1)}
\* data of a region: a function of its address, so adjacent regions differ
DataAt(a, n) == [k \in 1..n |-> (37 * (a[1] * LoMod + a[2] + k - 1) + 201) % 256]
Starts == {[hi |-> 0, lo |-> 0], [hi |-> HiMod - 1, lo |-> 1]}
Opts == {[ch |-> Chunk, split |-> s, lazy |-> z, upper |-> s, force05 |-> z] : s, z \in BOOLEAN}

Init == regs = <<>> /\ start = [hi |-> 0, lo |-> 0] /\ phase = "build" /\ lines = <<>> /\ l = 0 /\ rd = RdInit
AddRegion == /\ phase = "build" /\ Len(regs) < MaxRegs
             /\ \E a \in AddrSpace, n \in 1..MaxLen :
                   LET r == Reg(a, DataAt(a, n))
                   IN /\ InDomain(Append(regs, r), LoMod, HiMod)
                      /\ regs' = Append(regs, r)
             /\ UNCHANGED <<start, phase, lines, l, rd>>
SetStart == /\ phase = "build" /\ start.hi = 0 /\ start.lo = 0
            /\ \E s \in Starts : (s.hi # 0 \/ s.lo # 0) /\ start' = s
            /\ UNCHANGED <<regs, phase, lines, l, rd>>
Save == /\ phase = "build"
        /\ \E o \in Opts : lines' = Encode(regs, start, o)
        /\ phase' = "read"
        /\ UNCHANGED <<regs, start, l, rd>>

Exp == Merge(regs, LoMod)
Cur == Parse(lines[l + 1])
Reading == phase = "read" /\ l < Len(lines)
Adv(nrd) == rd' = nrd /\ l' = l + 1 /\ UNCHANGED <<regs, start, phase, lines>>
ReadAfterEof == Reading /\ rd.eof /\ Adv(RdAfterEof(rd))
ReadBad      == Reading /\ ~rd.eof /\ ~WellFormed(Cur) /\ Adv(RdBad(rd))
Good(t)      == Reading /\ ~rd.eof /\ WellFormed(Cur) /\ Cur.typ = t
ReadData     == Good(DATA) /\ Adv(RdData(rd, Cur, Exp))
ReadEof      == Good(EOFR) /\ Adv(RdEof(rd))
ReadExtLin   == Good(EXTLIN) /\ Adv(RdExtLin(rd, Cur))
ReadExtSeg   == Good(EXTSEG) /\ Adv(RdExtSeg(rd, Cur))
ReadStartLin == Good(STARTLIN) /\ Adv(RdStartLin(rd, Cur))
ReadStartSeg == Good(STARTSEG) /\ Adv(RdStartSeg(rd, Cur))
Finish == phase = "read" /\ l = Len(lines) /\ phase' = "done" /\ UNCHANGED <<regs, start, lines, l, rd>>
Next == \/ AddRegion \/ SetStart \/ Save \/ Finish
        \/ ReadAfterEof \/ ReadBad \/ ReadData \/ ReadEof \/ ReadExtLin \/ ReadExtSeg \/ ReadStartLin \/ ReadStartSeg

Done == phase = "done"
P == Parsed(lines)

\* ---- laws of the region algebra (every state)
LawMerge == LET m == Merge(regs, LoMod) IN
            /\ Cells(m, LoMod) = Cells(regs, LoMod) /\ Bytes(m) = Bytes(regs)
            /\ \A k \in 1..(Len(m) - 1) : AddrLt(RegEnd(m[k], LoMod), A(m[k + 1]))      \* sorted, not adjacent
            /\ m = Merge([k \in 1..Len(regs) |-> regs[Len(regs) + 1 - k]], LoMod)        \* order of insertion irrelevant
            /\ IsCover(CovOfRegions(m, LoMod))
\* ---- laws of the streaming reader (every state while reading)
LawCover == IsCover(rd.cov)
\* ---- laws of the written file (final state)
LawWellFormed == Done => AllWellFormed(P) /\ EofAt(P) = Len(P)
LawAccept == Done => Accepts(rd, Exp, start) /\ rd = Run(lines, Exp)
LawRoundTrip == Done => /\ DecodedRegions(P) = Exp
                        /\ StartIs(DecodedStart(P), start)
                        /\ DecodesExactly(P, regs)
\* a changed digit is always detected (length or checksum)
LawCorrupt == Done => \A k \in 1..Len(lines) : \A c \in 2..Len(lines[k]) :
                 LET d == HexDigit(lines[k][c])
                     ln == [lines[k] EXCEPT ![c] = UDigit((d + 1) % 16)]
                 IN ~WellFormed(Parse(ln))
\* the two formulations agree on the file and on every file obtained from it
\* by deleting or duplicating one record
Drop(s, k) == SubSeq(s, 1, k - 1) \o SubSeq(s, k + 1, Len(s))
Dup(s, k) == SubSeq(s, 1, k) \o SubSeq(s, k, Len(s))
Variants == {lines} \cup {Drop(lines, k) : k \in 1..Len(lines)} \cup {Dup(lines, k) : k \in 1..Len(lines)}
LawAgree == Done => \A v \in Variants : Accepts(Run(v, Exp), Exp, start) <=> DeclAccepts(Parsed(v), regs, start)
\* and deleting or duplicating a data record is never accepted
LawStrict == Done => \A k \in 1..Len(lines) :
                 (P[k].typ = DATA /\ P[k].count > 0) =>
                     /\ ~Accepts(Run(Drop(lines, k), Exp), Exp, start)
                     /\ ~Accepts(Run(Dup(lines, k), Exp), Exp, start)
=============================================================================
