----------------------------- MODULE IntSet_MC -----------------------------
(* Idiom M for C33.  The algorithms of integer_set.py as a state machine,   *)
(* model-checked against the denotational definitions of IntSet.tla:        *)
(*   norm      constructor: drop empty ranges, sort, merge overlapping or   *)
(*             adjacent neighbours (merge_overlapping_intervals) - every    *)
(*             list of at most NormR ranges over 0..NormN-1                 *)
(*   inter     two-finger sweep of intersection()                           *)
(*   diff      two-finger sweep of difference() with the trimmed range r    *)
(*   contains  bisect + two comparisons of contains()                       *)
(*             - every pair of subsets of 0..UN-1 in canonical form         *)
(*   crit      no algorithm: the critical-point judgement (Part 2) is       *)
(*             equivalent to the denotational one (Part 1)                  *)
(*   zint      no algorithm: the unbounded-integer order/successor/span     *)
(*             operators (base Base, here small) agree with TLC integers    *)
(*             on -ZN..ZN                                                   *)
(* Invariants: loop invariants, result = Canon(set operation), results are  *)
(* already canonical before the final re-normalisation, and the laws.       *)
EXTENDS IntSet, TLC
CONSTANTS UN, NormN, NormR, CritN, CritRA, ZN
VARIABLES alg, pc, inp, A, B, R, x, ia, ib, r, s, k, acc, res
vars == <<alg, pc, inp, A, B, R, x, ia, ib, r, s, k, acc, res>>

None == <<>>                      \* Python's None for "iterator exhausted"
U == 0..(UN - 1)
Pairs(n) == {<<a, b>> : a \in 0..(n - 1), b \in 0..(n - 1)}          \* includes empty ranges lo > hi
Lists(n, m) == UNION {[1..j -> Pairs(n)] : j \in 0..m}
At(L, j) == IF j <= Len(L) THEN L[j] ELSE None                        \* next(iterator, None)
From(L, j) == SubSeq(L, j, Len(L))
DenO(t) == IF t = None THEN {} ELSE DenR(t)
LexLt(p, q) == p[1] < q[1] \/ (p[1] = q[1] /\ p[2] < q[2])
MaxI(a, b) == IF a >= b THEN a ELSE b
MinI(a, b) == IF a <= b THEN a ELSE b
NonEmpty(t) == Lo(t) <= Hi(t)

Blank == /\ inp = <<>> /\ A = <<>> /\ B = <<>> /\ R = <<>> /\ x = 0 /\ ia = 1 /\ ib = 1
         /\ r = None /\ s = None /\ k = 0 /\ acc = <<>> /\ res = FALSE

Algs == {"norm", "inter", "diff", "contains", "crit", "zint"}
Init == alg \in Algs /\ pc = "pick" /\ Blank

(* ---- choice of the case (fan-out in two steps so that all workers share) - *)
\* norm: any list of at most NormR ranges, empty ranges (lo > hi) included
PickInput ==
    /\ alg = "norm" /\ pc = "pick"
    /\ inp' \in Lists(NormN, NormR) /\ pc' = "filter"
    /\ UNCHANGED <<alg, A, B, R, x, ia, ib, r, s, k, acc, res>>
\* sweeps and contains: operands are sets in canonical form
PickA ==
    /\ alg \in {"inter", "diff", "contains"} /\ pc = "pick"
    /\ \E SA \in SUBSET U : A' = Canon(SA)
    /\ pc' = "pickB"
    /\ UNCHANGED <<alg, inp, B, R, x, ia, ib, r, s, k, acc, res>>
PickB ==
    /\ alg \in {"inter", "diff"} /\ pc = "pickB"
    /\ \E SB \in SUBSET U : B' = Canon(SB)
    /\ pc' = "start"
    /\ UNCHANGED <<alg, inp, A, R, x, ia, ib, r, s, k, acc, res>>
PickProbe ==
    /\ alg = "contains" /\ pc = "pickB"
    /\ x' \in -1..UN /\ pc' = "start"
    /\ UNCHANGED <<alg, inp, A, B, R, ia, ib, r, s, k, acc, res>>
\* crit: operand A and candidate result R arbitrary lists, B canonical
PickCritA ==
    /\ alg = "crit" /\ pc = "pick"
    /\ A' \in Lists(CritN, CritRA) /\ pc' = "pickB"
    /\ UNCHANGED <<alg, inp, B, R, x, ia, ib, r, s, k, acc, res>>
PickCritBR ==
    /\ alg = "crit" /\ pc = "pickB"
    /\ R' \in Lists(CritN, 2)
    /\ \E SB \in SUBSET (0..(CritN - 1)) : B' = Canon(SB)
    /\ pc' = "law"
    /\ UNCHANGED <<alg, inp, A, x, ia, ib, r, s, k, acc, res>>
PickZ ==
    /\ alg = "zint" /\ pc = "pick"
    /\ ia' \in (-ZN)..ZN /\ ib' \in (-ZN)..ZN /\ pc' = "law"
    /\ UNCHANGED <<alg, inp, A, B, R, x, r, s, k, acc, res>>

(* ---- IntegerSet.__init__ + merge_overlapping_intervals ------------------ *)
\* ranges = sorted(filter(lambda r: r[0] <= r[1], ranges))
NormFilterSort ==
    /\ alg = "norm" /\ pc = "filter"
    /\ R' = SortSeq(SelectSeq(inp, NonEmpty), LexLt) /\ pc' = "merge0"
    /\ UNCHANGED <<alg, inp, A, B, x, ia, ib, r, s, k, acc, res>>
\* if ranges: r = ranges[0]
MergeStart ==
    /\ alg = "norm" /\ pc = "merge0"
    /\ IF R = <<>> THEN pc' = "done" /\ UNCHANGED <<r, k>>
       ELSE pc' = "merge" /\ r' = R[1] /\ k' = 2
    /\ UNCHANGED <<alg, inp, A, B, R, x, ia, ib, s, acc, res>>
\* s[0] > r[1] + 1: found hole, yield r
MergeHole ==
    /\ alg = "norm" /\ pc = "merge" /\ k <= Len(R) /\ Lo(R[k]) > Hi(r) + 1
    /\ acc' = Append(acc, r) /\ r' = R[k] /\ k' = k + 1
    /\ UNCHANGED <<alg, pc, inp, A, B, R, x, ia, ib, s, res>>
\* s overlaps with (or touches) r: merge end values
MergeExtend ==
    /\ alg = "norm" /\ pc = "merge" /\ k <= Len(R) /\ ~(Lo(R[k]) > Hi(r) + 1)
    /\ r' = <<Lo(r), MaxI(Hi(r), Hi(R[k]))>> /\ k' = k + 1
    /\ UNCHANGED <<alg, pc, inp, A, B, R, x, ia, ib, s, acc, res>>
MergeFinish ==
    /\ alg = "norm" /\ pc = "merge" /\ k > Len(R)
    /\ acc' = Append(acc, r) /\ pc' = "done"
    /\ UNCHANGED <<alg, inp, A, B, R, x, ia, ib, r, s, k, res>>

(* ---- both sweeps: r, s = next(i, None), next(j, None) ------------------- *)
SweepStart ==
    /\ alg \in {"inter", "diff"} /\ pc = "start"
    /\ r' = At(A, 1) /\ s' = At(B, 1) /\ ia' = 2 /\ ib' = 2 /\ pc' = "run"
    /\ UNCHANGED <<alg, inp, A, B, R, x, k, acc, res>>

(* ---- intersection(): while r and s -------------------------------------- *)
InterBody(emit) ==
    LET lo == MaxI(Lo(r), Lo(s))  hi == MinI(Hi(r), Hi(s)) IN
    /\ acc' = (IF emit THEN Append(acc, <<lo, hi>>) ELSE acc)
    /\ IF Hi(r) <= hi THEN r' = At(A, ia) /\ ia' = ia + 1 ELSE UNCHANGED <<r, ia>>
    /\ IF Hi(s) <= hi THEN s' = At(B, ib) /\ ib' = ib + 1 ELSE UNCHANGED <<s, ib>>
InterOverlap ==
    /\ alg = "inter" /\ pc = "run" /\ r # None /\ s # None
    /\ MaxI(Lo(r), Lo(s)) <= MinI(Hi(r), Hi(s)) /\ InterBody(TRUE)
    /\ UNCHANGED <<alg, pc, inp, A, B, R, x, k, res>>
InterDisjoint ==
    /\ alg = "inter" /\ pc = "run" /\ r # None /\ s # None
    /\ MaxI(Lo(r), Lo(s)) > MinI(Hi(r), Hi(s)) /\ InterBody(FALSE)
    /\ UNCHANGED <<alg, pc, inp, A, B, R, x, k, res>>
InterFinish ==
    /\ alg = "inter" /\ pc = "run" /\ (r = None \/ s = None) /\ pc' = "done"
    /\ UNCHANGED <<alg, inp, A, B, R, x, ia, ib, r, s, k, acc, res>>

(* ---- difference(): while r ---------------------------------------------- *)
DiffDrain ==          \* no s left: keep r
    /\ alg = "diff" /\ pc = "run" /\ r # None /\ s = None
    /\ acc' = Append(acc, r) /\ r' = At(A, ia) /\ ia' = ia + 1
    /\ UNCHANGED <<alg, pc, inp, A, B, R, x, ib, s, k, res>>
DiffSkipS ==          \* range s before range r, no hole
    /\ alg = "diff" /\ pc = "run" /\ r # None /\ s # None /\ Lo(r) > Hi(s)
    /\ s' = At(B, ib) /\ ib' = ib + 1
    /\ UNCHANGED <<alg, pc, inp, A, B, R, x, ia, r, k, acc, res>>
DiffEmitR ==          \* range s after range r, no hole
    /\ alg = "diff" /\ pc = "run" /\ r # None /\ s # None /\ ~(Lo(r) > Hi(s)) /\ Hi(r) < Lo(s)
    /\ acc' = Append(acc, r) /\ r' = At(A, ia) /\ ia' = ia + 1
    /\ UNCHANGED <<alg, pc, inp, A, B, R, x, ib, s, k, res>>
Overlapping == r # None /\ s # None /\ ~(Lo(r) > Hi(s)) /\ ~(Hi(r) < Lo(s))
Cut == IF Lo(r) < Lo(s) THEN Append(acc, <<Lo(r), Lo(s) - 1>>) ELSE acc
DiffOverlapTail ==    \* s punches a hole and r sticks out behind it
    /\ alg = "diff" /\ pc = "run" /\ Overlapping /\ Hi(r) > Hi(s)
    /\ acc' = Cut /\ r' = <<Hi(s) + 1, Hi(r)>> /\ s' = At(B, ib) /\ ib' = ib + 1
    /\ UNCHANGED <<alg, pc, inp, A, B, R, x, ia, k, res>>
DiffOverlapEnd ==     \* s covers the rest of r
    /\ alg = "diff" /\ pc = "run" /\ Overlapping /\ ~(Hi(r) > Hi(s))
    /\ acc' = Cut /\ r' = At(A, ia) /\ ia' = ia + 1
    /\ UNCHANGED <<alg, pc, inp, A, B, R, x, ib, s, k, res>>
DiffFinish ==
    /\ alg = "diff" /\ pc = "run" /\ r = None /\ pc' = "done"
    /\ UNCHANGED <<alg, inp, A, B, R, x, ia, ib, r, s, k, acc, res>>

(* ---- contains(): index = bisect.bisect(self.ranges, (value,)) ------------ *)
\* a tuple (lo, hi) sorts before (value,) iff lo < value
ContainsEval ==
    /\ alg = "contains" /\ pc = "start"
    /\ LET idx == Cardinality({j \in 1..Len(A) : Lo(A[j]) < x}) IN
       /\ k' = idx
       /\ res' = (\/ (idx < Len(A) /\ x = Lo(A[idx + 1]))
                  \/ (idx > 0 /\ Lo(A[idx]) <= x /\ x <= Hi(A[idx])))
    /\ pc' = "done"
    /\ UNCHANGED <<alg, inp, A, B, R, x, ia, ib, r, s, acc>>

Next == \/ PickInput \/ PickA \/ PickB \/ PickProbe \/ PickCritA \/ PickCritBR \/ PickZ
        \/ NormFilterSort \/ MergeStart \/ MergeHole \/ MergeExtend \/ MergeFinish
        \/ SweepStart \/ InterOverlap \/ InterDisjoint \/ InterFinish
        \/ DiffDrain \/ DiffSkipS \/ DiffEmitR \/ DiffOverlapTail \/ DiffOverlapEnd \/ DiffFinish
        \/ ContainsEval

(* ---- invariants ----------------------------------------------------------- *)
TypeOK ==
    /\ alg \in Algs
    /\ pc \in {"pick", "pickB", "filter", "merge0", "merge", "start", "run", "done", "law"}
    /\ IsRangeList(inp) /\ IsRangeList(A) /\ IsRangeList(B) /\ IsRangeList(R) /\ IsRangeList(acc)
    /\ res \in BOOLEAN

\* operands of the sweeps are canonical, Canon is the denotation's inverse, and
\* cardinality / iteration can be read off the canonical list
CanonLaw ==
    (alg \in {"inter", "diff", "contains"} /\ pc = "start") =>
        /\ IsCanonical(A) /\ IsCanonical(B)
        /\ Canon(Den(A)) = A /\ CardR(A) = Cardinality(Den(A))
        /\ Enumerates(SetToSortSeq(Den(A), LAMBDA p, q : p < q), Den(A))
\* the canonical form is unique: a canonical list is the Canon of what it denotes
CanonUnique ==
    (alg = "norm" /\ pc = "filter") =>
                    /\ IsCanonical(inp) => inp = Canon(Den(inp))
                    /\ CardR(inp) >= Cardinality(Den(inp))
                    /\ IsCanonical(inp) => CardR(inp) = Cardinality(Den(inp))

\* merge loop: finished ranges, the open range r, and the unread rest make up the input;
\* finished ranges are canonical and end at least two below r
MergeInv ==
    (alg = "norm" /\ pc = "merge") =>
        /\ Den(acc) \cup DenR(r) \cup Den(From(R, k)) = Den(inp)
        /\ IsCanonical(acc) /\ NonEmpty(r)
        /\ acc # <<>> => Hi(acc[Len(acc)]) + 1 < Lo(r)
        /\ \A j \in k..Len(R) : Lo(R[j]) >= Lo(r) /\ NonEmpty(R[j])
NormDone ==
    (alg = "norm" /\ pc = "done") => acc = Canon(Den(inp))

\* intersection sweep: what is emitted plus what the unread parts can still produce
InterInv ==
    (alg = "inter" /\ pc \in {"run", "done"}) =>
        /\ Den(acc) \cup ((DenO(r) \cup Den(From(A, ia))) \cap (DenO(s) \cup Den(From(B, ib))))
              = Den(A) \cap Den(B)
        /\ IsCanonical(acc)                      \* the re-normalisation at the end changes nothing
InterDone ==
    (alg = "inter" /\ pc = "done") => acc = Canon(Den(A) \cap Den(B))

DiffInv ==
    (alg = "diff" /\ pc \in {"run", "done"}) =>
        /\ Den(acc) \cup ((DenO(r) \cup Den(From(A, ia))) \ (DenO(s) \cup Den(From(B, ib))))
              = Den(A) \ Den(B)
        /\ IsCanonical(acc)
        /\ (r # None /\ acc # <<>>) => Hi(acc[Len(acc)]) + 1 < Lo(r)
DiffDone ==
    (alg = "diff" /\ pc = "done") => acc = Canon(Den(A) \ Den(B))

ContainsDone ==
    (alg = "contains" /\ pc = "done") => (res <=> x \in Den(A))

\* union and symmetric difference are compositions: union = normalise(A ++ B),
\* symmetric difference = (A - B) | (B - A)
CompositionLaw ==
    (alg = "inter" /\ pc = "start") =>
        /\ Den(A \o B) = Den(A) \cup Den(B)
        /\ OpSet("symmetric_difference", Den(A), Den(B))
              = Den(Canon(Den(A) \ Den(B)) \o Canon(Den(B) \ Den(A)))

\* Part 2 = Part 1: judging by critical points is judging by denotation
CritLaw ==
    (alg = "crit" /\ pc = "law") =>
        /\ \A op \in BinOps : AgreeN(op, A, B, R) <=> (Den(R) = OpSet(op, Den(A), Den(B)))
        /\ AgreeN("same", A, <<>>, R) <=> (Den(R) = Den(A))
        /\ CanonG(NLe, NSucc, R) <=> IsCanonical(R)
        /\ \A y \in -1..CritN : MemG(NLe, y, A) <=> y \in Den(A)

\* the unbounded-integer operators are the integer ones
ZLaw ==
    (alg = "zint" /\ pc = "law") =>
        LET a == ZOfInt(ia)  b == ZOfInt(ib) IN
        /\ IsLInt(a) /\ (ZLe(a, b) <=> ia <= ib) /\ (ZLt(a, b) <=> ia < ib) /\ (a = b <=> ia = ib)
        /\ ZSucc(a) = ZOfInt(ia + 1) /\ ZPred(a) = ZOfInt(ia - 1)
        /\ ia <= ib => SpanMag(a, b) = ZOfInt(ib - ia + 1).limbs
        /\ (ia >= 0 /\ ib >= 0) => MagAdd(a.limbs, b.limbs) = ZOfInt(ia + ib).limbs
        /\ (ia >= ib /\ ib >= 0) => MagSub(a.limbs, b.limbs) = ZOfInt(ia - ib).limbs
        /\ CardZ(<<<<a, b>>, <<b, a>>>>)
              = ZOfInt((IF ia <= ib THEN ib - ia + 1 ELSE 0) + (IF ib <= ia THEN ia - ib + 1 ELSE 0))
=============================================================================
