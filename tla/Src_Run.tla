------------------------------- MODULE Src_Run -------------------------------
(* Batch driver for Src.tla: every (case, argument vector) is executed by TLC  *)
(* and its observation is written to  <OBS_DIR>/<i>_<av>.json ; the driver      *)
(* (engines/c01.py) hands these observations to Src_IR.tla, where TLC compares  *)
(* them with the execution of the IR that ppci produced for the same program,  *)
(* and to the gcc reference guard.  `acts` records which actions of Src.tla     *)
(* the behaviour took (TLC's own -coverage instrumentation cannot be used: its  *)
(* cost model unfolds the mutually recursive evaluator and exhausts the heap).  *)
EXTENDS Src
VARIABLES done, acts
ObsPath == IOEnv.OBS_DIR \o "/" \o ToString(i) \o "_" \o ToString(av) \o ".json"
RInit == Init /\ done = FALSE /\ acts = {}
T(name, A) == A /\ UNCHANGED <<chunk, i, av, done>> /\ acts' = acts \cup {name}
Emit == /\ Finished /\ ~done
        /\ done' = TRUE
        /\ JsonSerialize(ObsPath, [i |-> i, av |-> av, steps |-> steps, acts |-> acts, obs |-> Obs])
        /\ UNCHANGED vars /\ UNCHANGED acts
RNext == \/ ((PickChunk \/ PickCase) /\ UNCHANGED <<done, acts>>)
         \/ T("Decl", Decl) \/ T("DeclArr", DeclArr) \/ T("ExprStmt", ExprStmt) \/ T("Assign", Assign)
         \/ T("IncDec", IncDec) \/ T("If", If) \/ T("SeqStmt", SeqStmt) \/ T("While", While) \/ T("DoWhile", DoWhile)
         \/ T("LoopTest", LoopTest) \/ T("For", For) \/ T("ForTest", ForTest) \/ T("Switch", Switch)
         \/ T("SwitchStep", SwitchStep) \/ T("Break", Break) \/ T("Continue", Continue) \/ T("Return", Return)
         \/ T("BlockEnd", BlockEnd) \/ T("Unknown", Unknown) \/ T("OutOfFuel", OutOfFuel)
         \/ Emit
=============================================================================
