------------------------------- MODULE Src_Run -------------------------------
(* Batch driver for Src.tla: every (case, argument vector) is executed by TLC  *)
(* and its observation is written to  <OBS_DIR>/<i>_<av>.json ; the driver      *)
(* (engines/c01.py) hands these observations to Src_IR.tla, where TLC compares  *)
(* them with the execution of the IR that ppci produced for the same program,  *)
(* and to the gcc reference guard.                                             *)
EXTENDS Src
VARIABLE done
ObsPath == IOEnv.OBS_DIR \o "/" \o ToString(i) \o "_" \o ToString(av) \o ".json"
RInit == Init /\ done = FALSE
Emit == /\ Finished /\ ~done
        /\ done' = TRUE
        /\ JsonSerialize(ObsPath, [i |-> i, av |-> av, steps |-> steps, obs |-> Obs])
        /\ UNCHANGED vars
RNext == (Next /\ UNCHANGED done) \/ Emit
=============================================================================
