------------------------------ MODULE PasSrc_MC ------------------------------
(* Idiom M for PasSrc.tla: the specification checked by itself.                 *)
(*                                                                             *)
(* (1) Laws of the operator definitions, exhaustively over a GridN x GridN grid *)
(*     of integer values (small values of both signs, the square-root-of-maxint *)
(*     boundary, +-maxint; state variable `lw`), against TLC's own integer       *)
(*     arithmetic:  div truncates toward zero and satisfies the ISO inequality  *)
(*     abs(i) - abs(j) < abs((i div j) * j) <= abs(i);  i mod j is the value in  *)
(*     0..j-1 congruent to i, an error for j <= 0;  + - * yield the mathematical *)
(*     result or the error "outside -maxint..maxint", never a wrapped value;    *)
(*     relational operators; assignment compatibility with subranges; the       *)
(*     required functions abs sqr succ pred odd chr ord.                         *)
(* (2) Hand-written micro programs (TRACE_FILE, written by engines/x01.py)      *)
(*     whose outcomes were derived by hand from rules P1-P10: for-loop bounds   *)
(*     evaluated once, zero-trip for, control variable undefined afterwards,    *)
(*     repeat at least once, case without a match, value parameters are copies, *)
(*     variable parameters alias, recursion, undefined function results,        *)
(*     and / or with a deciding left operand, interfering operands, range       *)
(*     checks, output events.  Every behaviour must end with the expected       *)
(*     status / values / output; in every running state exactly one action of   *)
(*     PasSrc is enabled (determinism and progress); no execution gets stuck.   *)
EXTENDS PasSrc

CONSTANT GridN       \* number of grid values used for the laws (<= 25)
VARIABLE lw          \* <<>> or a law instance [x, y]

MaxI == 2147483647
Ints == <<0, 1, -1, 2, -2, 3, -3, 7, -7, 10, 46340, 46341, -46341, MaxI, -MaxI, 100, -100, -46340, 65536, -65536, 5, -5, 8, -8, MaxI - 1>>
HasLaw == lw # <<>>
xi == Ints[lw.x]
yi == Ints[lw.y]
X == W4(xi)
Y == W4(yi)
Abs(a) == IF a < 0 THEN -a ELSE a
TDiv(a, b) == IF (a >= 0) = (b >= 0) THEN Abs(a) \div Abs(b) ELSE -(Abs(a) \div Abs(b))
IntV(n) == OkV(V("int", W4(n)))

LawDivMod == HasLaw =>
    LET d == ArithI("div", X, Y)  m == ArithI("mod", X, Y) IN
    /\ (yi = 0 => d.st = "undefined" /\ m.st = "undefined")
    /\ (yi < 0 => m.st = "undefined")
    /\ (yi # 0 => /\ d = IntV(TDiv(xi, yi))
                  /\ LET p == Abs(TDiv(xi, yi)) * Abs(yi) IN p <= Abs(xi) /\ Abs(xi) - Abs(yi) < p      \* ISO 6.7.2.2
                  /\ (TDiv(xi, yi) # 0 => (TDiv(xi, yi) > 0) = ((xi > 0) = (yi > 0))))
    /\ (yi > 0 => /\ m = IntV(xi % yi)                                                                    \* TLA+ %: the value in 0..yi-1
                  /\ SmallInt(m.v.w) >= 0 /\ SmallInt(m.v.w) < yi
                  /\ (xi >= 0 => SmallInt(m.v.w) = xi - yi * TDiv(xi, yi)))
AddOvf(a, b) == (a > 0 /\ b > MaxI - a) \/ (a < 0 /\ b < -MaxI - a)
MulOvf(a, b) == a # 0 /\ b # 0 /\ Abs(a) > MaxI \div Abs(b)
LawArith == HasLaw =>
    /\ ArithI("+", X, Y) = (IF AddOvf(xi, yi) THEN ArithI("+", X, Y) ELSE IntV(xi + yi))
    /\ (AddOvf(xi, yi) <=> ArithI("+", X, Y).st = "undefined")
    /\ (AddOvf(xi, -yi) <=> ArithI("-", X, Y).st = "undefined")
    /\ (~AddOvf(xi, -yi) => ArithI("-", X, Y) = IntV(xi - yi))
    /\ (MulOvf(xi, yi) <=> ArithI("*", X, Y).st = "undefined")
    /\ (~MulOvf(xi, yi) => ArithI("*", X, Y) = IntV(xi * yi))
    /\ ArithI("+", X, Y) = ArithI("+", Y, X) /\ ArithI("*", X, Y) = ArithI("*", Y, X)
    /\ Monadic("-", V("int", X)) = IntV(-xi) /\ Monadic("+", V("int", X)) = IntV(xi)
    /\ Dyadic("+", V("int", X), BoolV(TRUE)).st = "stuck" /\ Dyadic("div", V("char", X), V("int", Y)).st = "stuck"
LawRel == HasLaw =>
    LET R(op) == Dyadic(op, V("int", X), V("int", Y)) IN
    /\ R("=") = OkV(BoolV(xi = yi)) /\ R("<>") = OkV(BoolV(xi # yi))
    /\ R("<") = OkV(BoolV(xi < yi)) /\ R("<=") = OkV(BoolV(xi <= yi))
    /\ R(">") = OkV(BoolV(xi > yi)) /\ R(">=") = OkV(BoolV(xi >= yi))
    /\ Dyadic("<", V("int", X), V("char", Y)).st = "stuck"
    /\ Dyadic("<", BoolV(FALSE), BoolV(TRUE)) = OkV(BoolV(TRUE))                    \* false < true (6.4.2.2)
    /\ Monadic("not", BoolV(xi < yi)) = OkV(BoolV(xi >= yi))
    /\ Monadic("not", V("int", X)).st = "stuck"
LawAssign == HasLaw =>
    LET T == [k |-> "sub", lo |-> W4(-3), hi |-> Y] IN
    /\ AssignTo(V("int", X), T) = (IF -3 <= xi /\ xi <= yi THEN OkV(V("int", X)) ELSE Bad("undefined", "value outside the range of the type"))
    /\ AssignTo(V("int", X), [k |-> "int"]) = OkV(V("int", X))
    /\ AssignTo(V("int", X), [k |-> "bool"]).st = "stuck" /\ AssignTo(BoolV(TRUE), [k |-> "int"]).st = "stuck"
    /\ AssignTo(V("int", X), [k |-> "arr", lo |-> 0, hi |-> 1, el |-> [k |-> "int"]]).st = "stuck"
    /\ AssignTo(V("enum:c", X), [k |-> "enum", n |-> "c", card |-> 4]).st = (IF xi >= 0 /\ xi < 4 THEN "ok" ELSE "undefined")
    /\ AssignTo(V("enum:c", X), [k |-> "enum", n |-> "d", card |-> 4]).st = "stuck"
LawBuiltIn == HasLaw =>
    LET F(f) == BuiltIn(f, V("int", X), 0) IN
    /\ F("abs") = IntV(Abs(xi))
    /\ F("sqr") = (IF MulOvf(xi, xi) THEN Bad("undefined", "integer result outside -maxint..maxint") ELSE IntV(xi * xi))
    /\ F("succ") = (IF xi = MaxI THEN Bad("undefined", "integer result outside -maxint..maxint") ELSE IntV(xi + 1))
    /\ F("pred") = (IF xi = -MaxI THEN Bad("undefined", "integer result outside -maxint..maxint") ELSE IntV(xi - 1))
    /\ F("odd") = OkV(BoolV(Abs(xi) % 2 = 1))
    /\ F("ord") = IntV(xi)
    /\ F("chr") = (IF xi >= 0 /\ xi <= 255 THEN OkV(V("char", X)) ELSE Bad("undefined", "chr: no such character"))
    /\ (xi >= 0 /\ xi <= 255 => BuiltIn("ord", V("char", X), 0) = IntV(xi))
    /\ (xi \in 0..3 => /\ BuiltIn("succ", V("enum:c", X), 4).st = (IF xi = 3 THEN "undefined" ELSE "ok")
                       /\ BuiltIn("pred", V("enum:c", X), 4).st = (IF xi = 0 THEN "undefined" ELSE "ok")
                       /\ (xi < 3 => BuiltIn("pred", BuiltIn("succ", V("enum:c", X), 4).v, 4) = OkV(V("enum:c", X))))
    /\ BuiltIn("succ", BoolV(FALSE), 0) = OkV(BoolV(TRUE)) /\ BuiltIn("succ", BoolV(TRUE), 0).st = "undefined"
    /\ BuiltIn("abs", BoolV(TRUE), 0).st = "stuck"

(* ---- micro programs ---------------------------------------------------------------- *)
Exp == C.expect[av]
ExpectMet == (Finished /\ lw = <<>>) =>
    /\ status = Exp.status
    /\ (status = "ok" =>
          /\ ret = Exp.ret
          /\ \A j \in 1..Len(Exp.globals) :
               \E k \in 1..Len(Obs.globals) : Obs.globals[k].name = Exp.globals[j].name /\ Obs.globals[k].w = Exp.globals[j].w
          /\ (Exp.hasout =>
                /\ Len(Obs.out) = Len(Exp.out)
                /\ \A j \in 1..Len(Exp.out) : /\ Obs.out[j].k = Exp.out[j].k /\ Obs.out[j].v = Exp.out[j].v
                                              /\ Obs.out[j].hasw = Exp.out[j].hasw /\ Obs.out[j].wd = Exp.out[j].wd))

ActionsEnabled ==
    {<<1, ENABLED Assign>>, <<2, ENABLED CallStmt>>, <<3, ENABLED If>>, <<4, ENABLED While>>, <<5, ENABLED LoopTest>>,
     <<6, ENABLED Repeat>>, <<7, ENABLED Until>>, <<8, ENABLED For>>, <<9, ENABLED ForNext>>, <<10, ENABLED Case>>,
     <<11, ENABLED Write>>, <<12, ENABLED BlockEnd>>, <<13, ENABLED Unknown>>, <<14, ENABLED OutOfFuel>>}
Deterministic == Running => Cardinality({p \in ActionsEnabled : p[2]}) = 1

(* ---- driver --------------------------------------------------------------------------- *)
VARIABLES acts, done
ObsPath == IOEnv.OBS_DIR \o "/" \o ToString(i) \o "_" \o ToString(av) \o ".json"
MInit == Init /\ lw = <<>> /\ acts = {} /\ done = FALSE
PickLaw == /\ chunk = 0 /\ lw = <<>>
           /\ lw' \in [x : 1..GridN, y : 1..GridN]
           /\ chunk' = -1
           /\ UNCHANGED <<i, av, stack, mem, nfr, status, why, ret, steps, acts, done>>
T(name, A) == A /\ UNCHANGED <<chunk, i, av, lw, done>> /\ acts' = acts \cup {name}
EmitActs == /\ Finished /\ ~done /\ lw = <<>>
            /\ done' = TRUE
            /\ JsonSerialize(ObsPath, [i |-> i, av |-> av, acts |-> acts])
            /\ UNCHANGED vars /\ UNCHANGED <<lw, acts>>
MNext == \/ ((PickChunk \/ PickCase) /\ UNCHANGED <<lw, acts, done>>)
         \/ PickLaw
         \/ T("Assign", Assign) \/ T("CallStmt", CallStmt) \/ T("If", If) \/ T("While", While) \/ T("LoopTest", LoopTest)
         \/ T("Repeat", Repeat) \/ T("Until", Until) \/ T("For", For) \/ T("ForNext", ForNext) \/ T("Case", Case)
         \/ T("Write", Write) \/ T("BlockEnd", BlockEnd) \/ T("Unknown", Unknown) \/ T("OutOfFuel", OutOfFuel)
         \/ EmitActs
=============================================================================
