------------------------------ MODULE Dom_Eval ------------------------------
(* Idiom E for property C25: what the real ppci code answered about a graph *)
(* is judged against the path-based definitions of Dom.tla.                 *)
(*                                                                           *)
(* The input is a JSON array of graph records                                 *)
(*   [n |-> number of nodes (nodes are 1..n), edges |-> pair list,           *)
(*    entry |-> node, exits |-> the exit nodes used by the observations,     *)
(*    obs |-> << observation, ... >>]                                        *)
(* (a pair list encodes each pair <<a, b>> as the number 1000 * a + b)       *)
(* and every observation o carries o.cl, the clause of the property it is   *)
(* evidence for, plus what ppci returned (all through the public API):      *)
(*   "idom"      o.impl, o.idom = [ok, v]: v[k] = immediate dominator of k  *)
(*               (0 = none) -- ControlFlowGraph.get_immediate_dominator,     *)
(*               lt.calculate_idom on a plain DiGraph, or the fixed-point    *)
(*               calculate_dominators + calculate_immediate_dominators       *)
(*   "queries"   o.dom, o.sdom = [ok, t, x]: t = pairs <<d, n>> answered     *)
(*               True by dominates / strictly_dominates, x = pairs raising   *)
(*   "intervals" o.iv = [ok, v]: v[k] = <<lo, hi>> of tree_map[k].interval   *)
(*   "tree"      o.kids = [ok, v] children lists of the dominator tree,      *)
(*               o.bu = [ok, v] the order produced by bottom_up(root_tree)   *)
(*   "df"        o.df = [ok, v]: v[k] = dominance frontier of k              *)
(*   "cfginfo"   o.df as above but from domtree.CfgInfo (exit node o.exit    *)
(*               is not a block and is filtered out)                         *)
(*   "fpdom"     o.sets = [ok, v]: v[k] = calculate_dominators(...)[k]       *)
(*   "pdom"      o.exit, o.pd = [ok, t, x] post_dominates answers            *)
(*   "ipdom"     o.exit, o.ipdom = [ok, v] (0 = None, -1 = raised)           *)
(*   "reach"     o.reach = [ok, t, x] can_reach answers                      *)
(* [ok |-> FALSE, exc |-> class] records that the computation as a whole    *)
(* raised (or did not terminate); such an observation is never allowed.     *)
(*                                                                           *)
(* Only what the property defines is judged: dominance notions for nodes    *)
(* reachable from the entry, post-dominance for nodes that can reach the    *)
(* exit, can_reach(a, a) only when a lies on a cycle (then both the         *)
(* reflexive and the non-reflexive reading of "reach" say TRUE).            *)
EXTENDS Dom, Integers, Json, IOUtils, TLC

\* The records are dealt round-robin over NChunks files <TRACE_FILE><chunk>.json, so
\* that the workers parse and evaluate them in parallel.
NChunks == 64
ChunkFile(ch) == IOEnv.TRACE_FILE \o ToString(ch) \o ".json"
Rng(s)  == {s[k] : k \in 1..Len(s)}
Pairs(s) == {<<s[k] \div 1000, s[k] % 1000>> : k \in 1..Len(s)}
NoDup(s) == \A a \in 1..Len(s) : \A b \in 1..Len(s) : s[a] = s[b] => a = b
G(r)    == Pairs(r.edges)
Nodes(r) == 1..r.n

\* chunk, i select the record (i-th of its chunk), rec is the record itself and c the
\* observation under evaluation; dm and pm hold the definitions for the graph of rec,
\* evaluated once when the record is picked:
\*   dm = dominance map w.r.t. the entry, pm[x] = post-dominance map w.r.t. exit x
VARIABLES chunk, i, c, rec, dm, pm
vars == <<chunk, i, c, rec, dm, pm>>
Empty == [x \in {} |-> 0]
Init == chunk = 0 /\ i = 0 /\ c = 0 /\ rec = Empty /\ dm = Empty /\ pm = Empty
PickChunk == chunk = 0 /\ chunk' \in 1..NChunks /\ UNCHANGED <<i, c, rec, dm, pm>>
PickRec == /\ chunk > 0 /\ i = 0 /\ UNCHANGED <<chunk, c>>
           /\ \E F \in {JsonDeserialize(ChunkFile(chunk))} : \E k \in 1..Len(F) :
                 /\ i' = k
                 /\ rec' = F[k]
                 /\ dm' = DomMapF(G(F[k]), F[k].entry)
                 /\ pm' = [x \in Rng(F[k].exits) |-> PDomMapF(G(F[k]), x)]
PickClause == /\ i > 0 /\ c = 0 /\ UNCHANGED <<chunk, i, rec, dm, pm>>
              /\ c' \in 1..Len(rec.obs)
Next == PickChunk \/ PickRec \/ PickClause
\* what an error trace shows (the record itself is known to the harness)
Shown == [chunk |-> chunk, i |-> i, c |-> c]

\* ---- the clauses ---------------------------------------------------------
IdomListOK(DM, o, n) ==
    /\ o.ok /\ Len(o.v) = n
    /\ \A k \in DOMAIN DM : IDomSetM(DM, k) = (IF o.v[k] = 0 THEN {} ELSE {o.v[k]})

PairsOK(q, Ds, Ns, Holds(_, _)) ==
    /\ q.ok
    /\ LET T == Pairs(q.t)
           X == Pairs(q.x)
       IN \A d \in Ds : \A n \in Ns : <<d, n>> \notin X /\ (<<d, n>> \in T <=> Holds(d, n))

IdomAllowed(r, o) == IdomListOK(dm, o.idom, r.n)

QueriesAllowed(r, o) ==
    LET DM == dm
        D(d, n) == n \in DM[d]
        S(d, n) == d # n /\ n \in DM[d]
    IN /\ PairsOK(o.dom, DOMAIN DM, DOMAIN DM, D)
       /\ PairsOK(o.sdom, DOMAIN DM, DOMAIN DM, S)

IntervalsAllowed(r, o) ==
    /\ o.iv.ok /\ Len(o.iv.v) = r.n
    /\ IntervalsMatch(dm, o.iv.v)

TreeAllowed(r, o) ==
    LET DM == dm IN
    /\ o.kids.ok /\ Len(o.kids.v) = r.n
    /\ \A k \in DOMAIN DM : NoDup(o.kids.v[k]) /\ Rng(o.kids.v[k]) = ChildrenM(DM, k)
    \* bottom_up: every reachable node once, no node before one it dominates
    /\ o.bu.ok /\ NoDup(o.bu.v) /\ Rng(o.bu.v) = DOMAIN DM
    /\ \A a \in 1..Len(o.bu.v) : \A b \in 1..Len(o.bu.v) :
          a < b => o.bu.v[b] \notin DM[o.bu.v[a]]

DFAllowed(r, o) ==
    LET DM == dm IN
    /\ o.df.ok /\ Len(o.df.v) = r.n
    /\ \A k \in DOMAIN DM : Rng(o.df.v[k]) = DFM(G(r), DM, k)

CfgInfoAllowed(r, o) ==
    LET DM == dm IN
    /\ o.df.ok /\ Len(o.df.v) = r.n
    /\ \A k \in DOMAIN DM \ {o.exit} : Rng(o.df.v[k]) = DFM(G(r), DM, k) \ {o.exit}

FpDomAllowed(r, o) ==
    LET DM == dm IN
    /\ o.sets.ok /\ Len(o.sets.v) = r.n
    /\ \A k \in DOMAIN DM : Rng(o.sets.v[k]) = DomSetM(DM, k)

PDomAllowed(r, o) ==
    LET PM == pm[o.exit]
        P(d, n) == d \in DOMAIN PM /\ n \in PM[d]
    IN PairsOK(o.pd, Nodes(r), DOMAIN PM, P)

IPDomAllowed(r, o) == IdomListOK(pm[o.exit], o.ipdom, r.n)

ReachAllowed(r, o) ==
    /\ o.reach.ok
    /\ LET T == Pairs(o.reach.t)
           X == Pairs(o.reach.x)
       IN \A a \in Nodes(r) :
            LET RP == ReachPlus(G(r), a) IN
            \A b \in Nodes(r) :
               /\ <<a, b>> \notin X
               /\ IF a # b THEN <<a, b>> \in T <=> b \in RP
                           ELSE a \in RP => <<a, b>> \in T

\* ---- one invariant per clause (a state carries exactly one observation) ---
Obs == rec.obs[c]
Is(cl) == c > 0 /\ Obs.cl = cl
IdomOK      == Is("idom")      => IdomAllowed(rec, Obs)
QueriesOK   == Is("queries")   => QueriesAllowed(rec, Obs)
IntervalsOK == Is("intervals") => IntervalsAllowed(rec, Obs)
TreeOK      == Is("tree")      => TreeAllowed(rec, Obs)
DFOK        == Is("df")        => DFAllowed(rec, Obs)
CfgInfoOK   == Is("cfginfo")   => CfgInfoAllowed(rec, Obs)
FpDomOK     == Is("fpdom")     => FpDomAllowed(rec, Obs)
PDomOK      == Is("pdom")      => PDomAllowed(rec, Obs)
IPDomOK     == Is("ipdom")     => IPDomAllowed(rec, Obs)
ReachOK     == Is("reach")     => ReachAllowed(rec, Obs)
KnownClause == c > 0 => Obs.cl \in {"idom", "queries", "intervals", "tree", "df", "cfginfo",
                                    "fpdom", "pdom", "ipdom", "reach"}
=============================================================================
