------------------------------ MODULE Stm8_MC ------------------------------
(* Idiom M for Stm8.tla: laws of the ISA model, checked exhaustively before   *)
(* the model judges ppci.                                                     *)
(*  family "tab"  the opcode map as a whole: the pre-code bytes and 05 0B 71   *)
(*                75 are the only undefined cells of the first page (248       *)
(*                defined); the map is a partial bijection (no two cells with  *)
(*                the same mnemonic and operand forms, i.e. every (page,       *)
(*                opcode) has one meaning and every form one encoding); the    *)
(*                mnemonics are the 78 instruction names of the manual + the   *)
(*                22 jrxx conditions                                          *)
(*  family "op"   every cell of the five pages x operand bytes: the decoded    *)
(*                record is well-formed, has the length the map gives, is      *)
(*                re-encoded to the same bytes; one byte less is "truncated",  *)
(*                one more "toolong"; register sets are sets of registers      *)
(*  family "ln"   every cell x operand values, printed in the assembly         *)
(*                notation (numbers, (X), (n,X), [n], ([n],X), #n; jump        *)
(*                targets as displacement and as label): Asm of the line       *)
(*                agrees with the decoded record                               *)
(*  family "ka"   hand-checked known answers from the manual's per-instruction *)
(*                encoding tables (about 190)                                  *)
(*  family "fld"  byte / word pattern and sign-extension laws, big-endian      *)
(* The same run writes the boundary table of idiom G to IOEnv.OUT_FILE.      *)
EXTENDS Stm8, Json, IOUtils, SequencesExt
CONSTANTS Deep, Fams

Labelled(lo, hi, a) ==
    {lo - a, lo - 1, lo, lo + 1, lo + a, -a, -1, 0, 1, a, 2 * a, 3 * a, 4, 7, 8, hi - a, hi - 1, hi, hi + 1, hi + a,
     ((lo + hi) \div (2 * a)) * a, ((lo + hi) \div (2 * a)) * a + a, (hi \div (2 * a)) * a, (hi \div (2 * a)) * a + a,
     (lo \div (2 * a)) * a, (lo \div (2 * a)) * a - a, 127, 128, 255, 256, -128, -129, 4660, 18}
Inside(lo, hi, a, v) == lo <= v /\ v <= hi /\ v % a = 0
Row(r) == [what |-> r[1], lo |-> r[2], hi |-> r[3], align |-> r[4],
           vals |-> SetToSeq({[v |-> v, inside |-> Inside(r[2], r[3], r[4], v)] : v \in Labelled(r[2], r[3], r[4])})]
Table == [stm8 |-> SetToSeq({Row(r) : r \in MRanges})]
ASSUME JsonSerialize(IOEnv.OUT_FILE, Table)

-----------------------------------------------------------------------------
VARIABLES fam, pick
vars == <<fam, pick>>
None == [k |-> "none"]

Im(v) == <<"i", v, "">>
Lb(a) == <<"l", a, "L_t">>
Wd(w) == <<"w", 0, w>>
G(ch) == <<ch, 0, "">>
\* operand notations
tR(r) == <<Wd(r)>>
tA == tR("a")
tI(v) == <<G("#"), Im(v)>>
tM(v) == <<Im(v)>>
tX(r) == <<G("("), Wd(r), G(")")>>
tO(v, r) == <<G("("), Im(v), G(","), Wd(r), G(")")>>
tP(v) == <<G("["), Im(v), G("]")>>
tPw(v) == <<G("["), Im(v), G("."), Wd("w"), G("]")>>
tPe(v) == <<G("["), Im(v), G("."), Wd("e"), G("]")>>
tPx(v, r) == <<G("("), G("["), Im(v), G("]"), G(","), Wd(r), G(")")>>
L2(a, b) == a \o <<G(",")>> \o b
L3(a, b, c) == a \o <<G(",")>> \o b \o <<G(",")>> \o c

Lower == [A |-> "a", X |-> "x", Y |-> "y", XL |-> "xl", XH |-> "xh", YL |-> "yl", YH |-> "yh", SP |-> "sp", CC |-> "cc"]
\* a decoded operand printed; rel: as displacement (lab = FALSE) or as label
RenderOp(o, lab, pc, len) ==
    CASE o.k = "reg" -> tR(Lower[o.r])
      [] o.k = "imm" -> tI(o.v)
      [] o.k = "rel" -> IF lab THEN <<Lb(pc + len + o.v)>> ELSE <<Im(o.v)>>
      [] o.k = "mem" -> IF o.x = "" THEN tM(o.v) ELSE IF o.sz = 0 THEN tX(Lower[o.x]) ELSE tO(o.v, Lower[o.x])
      [] o.k = "ptr" -> IF o.r = "e" THEN tPe(o.v) ELSE IF o.x = "" THEN tP(o.v) ELSE tPx(o.v, Lower[o.x])
RECURSIVE RenderR(_, _, _, _)
RenderR(d, j, lab, pc) == IF j > Len(d.o) THEN <<>>
                          ELSE (IF j > 1 THEN <<G(",")>> ELSE <<>>) \o RenderOp(d.o[j], lab, pc, d.len) \o RenderR(d, j + 1, lab, pc)
Render(d, lab, pc) == RenderR(d, 1, lab, pc)
Printable(d) == \A j \in 1..Len(d.o) : ~(d.o[j].k = "ptr" /\ d.o[j].r = "e" /\ d.o[j].x # "")

ManualMn == {"adc", "add", "addw", "and", "bccm", "bcp", "bcpl", "break", "bres", "bset", "btjf", "btjt", "call", "callf", "callr",
             "ccf", "clr", "clrw", "cp", "cpw", "cpl", "cplw", "dec", "decw", "div", "divw", "exg", "exgw", "halt", "inc", "incw",
             "int", "iret", "jp", "jpf", "ld", "ldf", "ldw", "mov", "mul", "neg", "negw", "nop", "or", "pop", "popw", "push",
             "pushw", "rcf", "ret", "retf", "rim", "rlc", "rlcw", "rlwa", "rrc", "rrcw", "rrwa", "rvf", "sbc", "scf", "sim",
             "sll", "sllw", "sra", "sraw", "srl", "srlw", "sub", "subw", "swap", "swapw", "tnz", "tnzw", "trap", "wfe", "wfi", "xor"}
JrNames == {"jra", "jrf", "jrugt", "jrule", "jrnc", "jrc", "jrne", "jreq", "jrnv", "jrv", "jrpl", "jrmi", "jrsgt", "jrsle",
            "jrsge", "jrslt", "jrnh", "jrh", "jrnm", "jrm", "jril", "jrih"}

\* operand bytes to try per cell: <<b1, b2, b3, b4>>
Samples == IF Deep THEN {<<0, 0, 0, 0>>, <<255, 255, 255, 255>>, <<18, 52, 86, 120>>, <<128, 0, 127, 129>>}
           ELSE {<<146, 52, 214, 120>>}
BytesOf(c, s) == (IF c[1] = 0 THEN <<>> ELSE <<c[1]>>) \o <<c[2]>> \o SubSeq(s, 1, FormBytes(Form(c[1], c[2])))
AllCells == {<<t[1], t[2]>> : t \in CellTable}

\* ---- hand-checked known answers: <<mnemonic, ops, pc, bytes>>
K(mn, ops, b) == <<mn, ops, 0, b>>
Known == {
    K("ld", L2(tA, tI(85)), <<\hA6, \h55>>), K("ld", L2(tA, tM(80)), <<\hB6, \h50>>), K("ld", L2(tA, tM(20480)), <<\hC6, \h50, 0>>),
    K("ld", L2(tA, tX("x")), <<\hF6>>), K("ld", L2(tA, tO(80, "x")), <<\hE6, \h50>>), K("ld", L2(tA, tO(20480, "x")), <<\hD6, \h50, 0>>),
    K("ld", L2(tA, tX("y")), <<\h90, \hF6>>), K("ld", L2(tA, tO(80, "y")), <<\h90, \hE6, \h50>>),
    K("ld", L2(tA, tO(20480, "y")), <<\h90, \hD6, \h50, 0>>), K("ld", L2(tA, tO(80, "sp")), <<\h7B, \h50>>),
    K("ld", L2(tA, tPw(80)), <<\h92, \hC6, \h50>>), K("ld", L2(tA, tPw(20480)), <<\h72, \hC6, \h50, 0>>),
    K("ld", L2(tA, tPx(80, "x")), <<\h92, \hD6, \h50>>), K("ld", L2(tA, tPx(20480, "x")), <<\h72, \hD6, \h50, 0>>),
    K("ld", L2(tA, tPx(80, "y")), <<\h91, \hD6, \h50>>),
    K("ld", L2(tM(80), tA), <<\hB7, \h50>>), K("ld", L2(tM(20480), tA), <<\hC7, \h50, 0>>), K("ld", L2(tX("x"), tA), <<\hF7>>),
    K("ld", L2(tO(80, "x"), tA), <<\hE7, \h50>>), K("ld", L2(tO(20480, "x"), tA), <<\hD7, \h50, 0>>), K("ld", L2(tX("y"), tA), <<\h90, \hF7>>),
    K("ld", L2(tO(80, "sp"), tA), <<\h6B, \h50>>), K("ld", L2(tP(20480), tA), <<\h72, \hC7, \h50, 0>>),
    K("ld", L2(tPx(80, "y"), tA), <<\h91, \hD7, \h50>>),
    K("ld", L2(tR("xl"), tA), <<\h97>>), K("ld", L2(tA, tR("xl")), <<\h9F>>), K("ld", L2(tR("xh"), tA), <<\h95>>), K("ld", L2(tA, tR("xh")), <<\h9E>>),
    K("ld", L2(tR("yl"), tA), <<\h90, \h97>>), K("ld", L2(tA, tR("yl")), <<\h90, \h9F>>), K("ld", L2(tR("yh"), tA), <<\h90, \h95>>),
    K("ld", L2(tA, tR("yh")), <<\h90, \h9E>>),
    K("ldw", L2(tR("x"), tI(4660)), <<\hAE, \h12, \h34>>), K("ldw", L2(tR("y"), tI(4660)), <<\h90, \hAE, \h12, \h34>>),
    K("ldw", L2(tR("x"), tM(80)), <<\hBE, \h50>>), K("ldw", L2(tR("x"), tM(20480)), <<\hCE, \h50, 0>>), K("ldw", L2(tR("x"), tX("x")), <<\hFE>>),
    K("ldw", L2(tR("x"), tO(80, "x")), <<\hEE, \h50>>), K("ldw", L2(tR("x"), tO(80, "sp")), <<\h1E, \h50>>),
    K("ldw", L2(tR("y"), tO(80, "sp")), <<\h16, \h50>>), K("ldw", L2(tO(80, "sp"), tR("y")), <<\h17, \h50>>), K("ldw", L2(tO(80, "sp"), tR("x")), <<\h1F, \h50>>),
    K("ldw", L2(tR("y"), tM(20480)), <<\h90, \hCE, \h50, 0>>), K("ldw", L2(tR("y"), tX("y")), <<\h90, \hFE>>),
    K("ldw", L2(tR("y"), tO(20480, "y")), <<\h90, \hDE, \h50, 0>>), K("ldw", L2(tR("y"), tP(80)), <<\h91, \hCE, \h50>>),
    K("ldw", L2(tR("y"), tPx(80, "y")), <<\h91, \hDE, \h50>>), K("ldw", L2(tR("x"), tP(20480)), <<\h72, \hCE, \h50, 0>>),
    K("ldw", L2(tR("x"), tPx(20480, "x")), <<\h72, \hDE, \h50, 0>>), K("ldw", L2(tR("x"), tP(80)), <<\h92, \hCE, \h50>>),
    K("ldw", L2(tM(20480), tR("x")), <<\hCF, \h50, 0>>), K("ldw", L2(tM(80), tR("x")), <<\hBF, \h50>>), K("ldw", L2(tX("x"), tR("y")), <<\hFF>>),
    K("ldw", L2(tO(80, "x"), tR("y")), <<\hEF, \h50>>), K("ldw", L2(tO(20480, "x"), tR("y")), <<\hDF, \h50, 0>>),
    K("ldw", L2(tM(20480), tR("y")), <<\h90, \hCF, \h50, 0>>), K("ldw", L2(tX("y"), tR("x")), <<\h90, \hFF>>),
    K("ldw", L2(tO(20480, "y"), tR("x")), <<\h90, \hDF, \h50, 0>>), K("ldw", L2(tP(80), tR("y")), <<\h91, \hCF, \h50>>),
    K("ldw", L2(tPx(80, "y"), tR("x")), <<\h91, \hDF, \h50>>), K("ldw", L2(tP(20480), tR("x")), <<\h72, \hCF, \h50, 0>>),
    K("ldw", L2(tPx(20480, "x"), tR("y")), <<\h72, \hDF, \h50, 0>>),
    K("ldw", L2(tR("x"), tR("y")), <<\h93>>), K("ldw", L2(tR("y"), tR("x")), <<\h90, \h93>>), K("ldw", L2(tR("sp"), tR("x")), <<\h94>>),
    K("ldw", L2(tR("x"), tR("sp")), <<\h96>>), K("ldw", L2(tR("sp"), tR("y")), <<\h90, \h94>>), K("ldw", L2(tR("y"), tR("sp")), <<\h90, \h96>>),
    K("mov", L2(tM(32768), tI(170)), <<\h35, \hAA, \h80, 0>>), K("mov", L2(tM(16), tM(32)), <<\h45, \h20, \h10>>),
    K("mov", L2(tM(4096), tM(8192)), <<\h55, \h20, 0, \h10, 0>>),
    K("btjt", L3(tM(4096), tI(1), tM(21)), <<\h72, \h02, \h10, 0, \h15>>), K("btjf", L3(tM(4096), tI(1), tM(-2)), <<\h72, \h03, \h10, 0, \hFE>>),
    K("btjt", L3(tM(4096), tI(7), tM(0)), <<\h72, \h0E, \h10, 0, 0>>),
    K("bset", L2(tM(4096), tI(1)), <<\h72, \h12, \h10, 0>>), K("bres", L2(tM(4096), tI(7)), <<\h72, \h1F, \h10, 0>>),
    K("bset", L2(tM(4096), tI(0)), <<\h72, \h10, \h10, 0>>), K("bres", L2(tM(4096), tI(0)), <<\h72, \h11, \h10, 0>>),
    K("bcpl", L2(tM(4096), tI(2)), <<\h90, \h14, \h10, 0>>), K("bccm", L2(tM(4096), tI(1)), <<\h90, \h13, \h10, 0>>),
    K("callr", tM(16), <<\hAD, \h10>>), K("call", tM(4096), <<\hCD, \h10, 0>>), K("call", tX("x"), <<\hFD>>), K("call", tO(16, "x"), <<\hED, \h10>>),
    K("call", tPw(16), <<\h92, \hCD, \h10>>), K("call", tP(4096), <<\h72, \hCD, \h10, 0>>), K("call", tX("y"), <<\h90, \hFD>>),
    K("call", tPx(16, "y"), <<\h91, \hDD, \h10>>), K("callf", tM(1193046), <<\h8D, \h12, \h34, \h56>>), K("callf", tPe(4096), <<\h92, \h8D, \h10, 0>>),
    K("jp", tM(4096), <<\hCC, \h10, 0>>), K("jp", tX("x"), <<\hFC>>), K("jp", tX("y"), <<\h90, \hFC>>), K("jp", tO(4096, "x"), <<\hDC, \h10, 0>>),
    K("jp", tP(4096), <<\h72, \hCC, \h10, 0>>), K("jp", tPx(16, "y"), <<\h91, \hDC, \h10>>), K("jpf", tM(1193046), <<\hAC, \h12, \h34, \h56>>),
    K("jpf", tPe(4096), <<\h92, \hAC, \h10, 0>>),
    K("jra", tM(16), <<\h20, \h10>>), K("jrt", tM(16), <<\h20, \h10>>), K("jrf", tM(16), <<\h21, \h10>>), K("jrugt", tM(16), <<\h22, \h10>>),
    K("jrule", tM(16), <<\h23, \h10>>), K("jrnc", tM(16), <<\h24, \h10>>), K("jruge", tM(16), <<\h24, \h10>>), K("jrc", tM(16), <<\h25, \h10>>),
    K("jrult", tM(16), <<\h25, \h10>>), K("jrne", tM(16), <<\h26, \h10>>), K("jreq", tM(-2), <<\h27, \hFE>>), K("jrnv", tM(16), <<\h28, \h10>>),
    K("jrv", tM(16), <<\h29, \h10>>), K("jrpl", tM(16), <<\h2A, \h10>>), K("jrmi", tM(16), <<\h2B, \h10>>), K("jrsgt", tM(16), <<\h2C, \h10>>),
    K("jrsle", tM(16), <<\h2D, \h10>>), K("jrsge", tM(16), <<\h2E, \h10>>), K("jrslt", tM(16), <<\h2F, \h10>>),
    K("jrnh", tM(16), <<\h90, \h28, \h10>>), K("jrh", tM(16), <<\h90, \h29, \h10>>), K("jrnm", tM(16), <<\h90, \h2C, \h10>>),
    K("jrm", tM(16), <<\h90, \h2D, \h10>>), K("jril", tM(16), <<\h90, \h2E, \h10>>), K("jrih", tM(16), <<\h90, \h2F, \h10>>),
    <<"jra", <<Lb(4096)>>, 4096, <<\h20, \hFE>>>>, <<"jrh", <<Lb(4096)>>, 4096, <<\h90, \h29, \hFD>>>>,
    <<"btjt", L3(tM(4096), tI(0), <<Lb(4096)>>), 4096, <<\h72, 0, \h10, 0, \hFB>>>>, <<"callr", <<Lb(4100)>>, 4096, <<\hAD, 2>>>>,
    K("int", tM(32768), <<\h82, 0, \h80, 0>>), K("iret", <<>>, <<\h80>>), K("ret", <<>>, <<\h81>>), K("trap", <<>>, <<\h83>>), K("retf", <<>>, <<\h87>>),
    K("break", <<>>, <<\h8B>>), K("ccf", <<>>, <<\h8C>>), K("halt", <<>>, <<\h8E>>), K("wfi", <<>>, <<\h8F>>), K("wfe", <<>>, <<\h72, \h8F>>),
    K("rcf", <<>>, <<\h98>>), K("scf", <<>>, <<\h99>>), K("rim", <<>>, <<\h9A>>), K("sim", <<>>, <<\h9B>>), K("rvf", <<>>, <<\h9C>>), K("nop", <<>>, <<\h9D>>),
    K("pop", tA, <<\h84>>), K("popw", tR("x"), <<\h85>>), K("popw", tR("y"), <<\h90, \h85>>), K("pop", tR("cc"), <<\h86>>), K("pop", tM(4096), <<\h32, \h10, 0>>),
    K("push", tA, <<\h88>>), K("pushw", tR("x"), <<\h89>>), K("pushw", tR("y"), <<\h90, \h89>>), K("push", tR("cc"), <<\h8A>>),
    K("push", tI(16), <<\h4B, \h10>>), K("push", tM(4096), <<\h3B, \h10, 0>>),
    K("exg", L2(tA, tR("xl")), <<\h41>>), K("exg", L2(tA, tR("yl")), <<\h61>>), K("exg", L2(tA, tM(4096)), <<\h31, \h10, 0>>), K("exgw", L2(tR("x"), tR("y")), <<\h51>>),
    K("mul", L2(tR("x"), tA), <<\h42>>), K("mul", L2(tR("y"), tA), <<\h90, \h42>>), K("div", L2(tR("x"), tA), <<\h62>>), K("div", L2(tR("y"), tA), <<\h90, \h62>>),
    K("divw", L2(tR("x"), tR("y")), <<\h65>>),
    K("rrwa", L2(tR("x"), tA), <<\h01>>), K("rlwa", L2(tR("x"), tA), <<\h02>>), K("rrwa", L2(tR("y"), tA), <<\h90, \h01>>), K("rlwa", L2(tR("y"), tA), <<\h90, \h02>>),
    K("addw", L2(tR("x"), tI(4096)), <<\h1C, \h10, 0>>), K("addw", L2(tR("sp"), tI(9)), <<\h5B, 9>>), K("add", L2(tR("sp"), tI(9)), <<\h5B, 9>>),
    K("subw", L2(tR("x"), tI(4096)), <<\h1D, \h10, 0>>), K("sub", L2(tR("sp"), tI(9)), <<\h52, 9>>), K("subw", L2(tR("sp"), tI(9)), <<\h52, 9>>),
    K("addw", L2(tR("y"), tI(4096)), <<\h72, \hA9, \h10, 0>>), K("subw", L2(tR("y"), tI(4096)), <<\h72, \hA2, \h10, 0>>),
    K("addw", L2(tR("x"), tM(4096)), <<\h72, \hBB, \h10, 0>>), K("addw", L2(tR("y"), tM(4096)), <<\h72, \hB9, \h10, 0>>),
    K("subw", L2(tR("x"), tM(4096)), <<\h72, \hB0, \h10, 0>>), K("subw", L2(tR("y"), tM(4096)), <<\h72, \hB2, \h10, 0>>),
    K("addw", L2(tR("x"), tO(16, "sp")), <<\h72, \hFB, \h10>>), K("addw", L2(tR("y"), tO(16, "sp")), <<\h72, \hF9, \h10>>),
    K("subw", L2(tR("x"), tO(16, "sp")), <<\h72, \hF0, \h10>>), K("subw", L2(tR("y"), tO(16, "sp")), <<\h72, \hF2, \h10>>),
    K("cpw", L2(tR("x"), tI(4096)), <<\hA3, \h10, 0>>), K("cpw", L2(tR("y"), tI(4096)), <<\h90, \hA3, \h10, 0>>), K("cpw", L2(tR("x"), tM(4096)), <<\hC3, \h10, 0>>),
    K("cpw", L2(tR("y"), tM(4096)), <<\h90, \hC3, \h10, 0>>), K("cpw", L2(tR("x"), tX("y")), <<\h90, \hF3>>), K("cpw", L2(tR("y"), tX("x")), <<\hF3>>),
    K("cpw", L2(tR("y"), tO(16, "x")), <<\hE3, \h10>>), K("cpw", L2(tR("y"), tO(4096, "x")), <<\hD3, \h10, 0>>), K("cpw", L2(tR("x"), tO(4096, "y")), <<\h90, \hD3, \h10, 0>>),
    K("cpw", L2(tR("x"), tO(16, "sp")), <<\h13, \h10>>), K("cpw", L2(tR("x"), tP(4096)), <<\h72, \hC3, \h10, 0>>), K("cpw", L2(tR("y"), tP(16)), <<\h91, \hC3, \h10>>),
    K("cpw", L2(tR("x"), tPx(16, "y")), <<\h91, \hD3, \h10>>), K("cpw", L2(tR("y"), tPx(4096, "x")), <<\h72, \hD3, \h10, 0>>), K("cpw", L2(tR("x"), tM(16)), <<\hB3, \h10>>),
    K("clr", tA, <<\h4F>>), K("clr", tM(16), <<\h3F, \h10>>), K("clr", tM(4096), <<\h72, \h5F, \h10, 0>>), K("clr", tX("x"), <<\h7F>>), K("clr", tO(16, "x"), <<\h6F, \h10>>),
    K("clr", tO(4096, "x"), <<\h72, \h4F, \h10, 0>>), K("clr", tX("y"), <<\h90, \h7F>>), K("clr", tO(16, "y"), <<\h90, \h6F, \h10>>),
    K("clr", tO(4096, "y"), <<\h90, \h4F, \h10, 0>>), K("clr", tO(16, "sp"), <<\h0F, \h10>>), K("clr", tPw(16), <<\h92, \h3F, \h10>>),
    K("clr", tP(4096), <<\h72, \h3F, \h10, 0>>), K("clr", tPx(16, "x"), <<\h92, \h6F, \h10>>), K("clr", tPx(4096, "x"), <<\h72, \h6F, \h10, 0>>),
    K("clr", tPx(16, "y"), <<\h91, \h6F, \h10>>), K("clrw", tR("x"), <<\h5F>>), K("clrw", tR("y"), <<\h90, \h5F>>),
    K("neg", tO(16, "sp"), <<0, \h10>>), K("neg", tA, <<\h40>>), K("negw", tR("x"), <<\h50>>), K("negw", tR("y"), <<\h90, \h50>>), K("cpl", tA, <<\h43>>),
    K("srl", tA, <<\h44>>), K("rrc", tA, <<\h46>>), K("sra", tA, <<\h47>>), K("sll", tA, <<\h48>>), K("sla", tA, <<\h48>>), K("rlc", tA, <<\h49>>), K("dec", tA, <<\h4A>>),
    K("inc", tA, <<\h4C>>), K("tnz", tA, <<\h4D>>), K("swap", tA, <<\h4E>>), K("cplw", tR("x"), <<\h53>>), K("srlw", tR("x"), <<\h54>>), K("rrcw", tR("x"), <<\h56>>),
    K("sraw", tR("x"), <<\h57>>), K("sllw", tR("x"), <<\h58>>), K("rlcw", tR("x"), <<\h59>>), K("decw", tR("x"), <<\h5A>>), K("incw", tR("x"), <<\h5C>>),
    K("tnzw", tR("x"), <<\h5D>>), K("swapw", tR("x"), <<\h5E>>), K("swapw", tR("y"), <<\h90, \h5E>>), K("inc", tM(4096), <<\h72, \h5C, \h10, 0>>), K("dec", tX("y"), <<\h90, \h7A>>),
    K("adc", L2(tA, tI(16)), <<\hA9, \h10>>), K("add", L2(tA, tI(16)), <<\hAB, \h10>>), K("and", L2(tA, tI(16)), <<\hA4, \h10>>), K("bcp", L2(tA, tI(16)), <<\hA5, \h10>>),
    K("cp", L2(tA, tI(16)), <<\hA1, \h10>>), K("or", L2(tA, tI(16)), <<\hAA, \h10>>), K("sbc", L2(tA, tI(16)), <<\hA2, \h10>>), K("sub", L2(tA, tI(16)), <<\hA0, \h10>>),
    K("xor", L2(tA, tI(16)), <<\hA8, \h10>>), K("adc", L2(tA, tO(16, "sp")), <<\h19, \h10>>), K("sub", L2(tA, tO(16, "sp")), <<\h10, \h10>>),
    K("xor", L2(tA, tM(4096)), <<\hC8, \h10, 0>>), K("or", L2(tA, tPx(16, "y")), <<\h91, \hDA, \h10>>), K("and", L2(tA, tP(4096)), <<\h72, \hC4, \h10, 0>>),
    K("ldf", L2(tA, tM(5242880)), <<\hBC, \h50, 0, 0>>), K("ldf", L2(tM(5242880), tA), <<\hBD, \h50, 0, 0>>), K("ldf", L2(tA, tO(5242880, "x")), <<\hAF, \h50, 0, 0>>),
    K("ldf", L2(tO(5242880, "x"), tA), <<\hA7, \h50, 0, 0>>), K("ldf", L2(tA, tO(5242880, "y")), <<\h90, \hAF, \h50, 0, 0>>), K("ldf", L2(tA, tPe(20480)), <<\h92, \hBC, \h50, 0>>),
    K("ldf", L2(tPe(20480), tA), <<\h92, \hBD, \h50, 0>>) }

Init == fam = "none" /\ pick = None
PickFam == fam = "none" /\ fam' \in Fams /\ pick' = None
PickTab == fam = "tab" /\ pick = None /\ UNCHANGED fam /\ pick' = [k |-> "tab"]
PickOpPage == fam = "op" /\ pick = None /\ UNCHANGED fam /\ \E p \in Pages : pick' = [k |-> "op-", p |-> p]
PickOp == fam = "op" /\ pick.k = "op-" /\ UNCHANGED fam /\ \E op \in 0..255, s \in Samples : pick' = [k |-> "op", c |-> <<pick.p, op>>, s |-> s]
PickLnPage == fam = "ln" /\ pick = None /\ UNCHANGED fam /\ \E p \in Pages : pick' = [k |-> "ln-", p |-> p]
PickLn == fam = "ln" /\ pick.k = "ln-" /\ UNCHANGED fam
          /\ \E c \in {x \in AllCells : x[1] = pick.p}, s \in Samples, lab \in BOOLEAN :
                /\ (lab => Form(c[1], c[2]).mn \in RelMn)
                /\ pick' = [k |-> "ln", c |-> c, s |-> s, lab |-> lab]
PickKa == fam = "ka" /\ pick = None /\ UNCHANGED fam /\ \E ka \in Known : pick' = [k |-> "ka", ka |-> ka]
PickFld == fam = "fld" /\ pick = None /\ UNCHANGED fam /\ \E v \in 0..255 : pick' = [k |-> "fld", v |-> v]
Next == PickFam \/ PickTab \/ PickOpPage \/ PickOp \/ PickLnPage \/ PickLn \/ PickKa \/ PickFld

RegsOK(d) == Reads(d) \subseteq Regs /\ Writes(d) \subseteq Regs
-----------------------------------------------------------------------------
LawTable == pick.k = "tab" =>
    /\ {op \in 0..255 : ~Defined(0, op)} = PreCodes \cup {\h05, \h0B, \h71, \h75}
    /\ Cardinality({c \in AllCells : c[1] = 0}) = 248
    /\ Cardinality({t[3] : t \in CellTable}) = Cardinality(CellTable)       \* no form has two encodings
    /\ AllMn = ManualMn \cup JrNames /\ Cardinality(ManualMn) = 78 /\ Cardinality(JrNames) = 22
    /\ \A t \in CellTable : Len(t[3].o) <= 3
    \* the pre-code 91 page holds only Y-indexed pointer forms and the three word forms on a short pointer
    /\ \A t \in CellTable : t[1] = \h91 => \E j \in 1..Len(t[3].o) : t[3].o[j].k = "ptr" /\ t[3].o[j].sz = 1 + (IF t[3].o[j].r = "e" THEN 1 ELSE 0)
    /\ \A t \in CellTable : t[1] = \h92 => \E j \in 1..Len(t[3].o) : t[3].o[j].k = "ptr" /\ t[3].o[j].x \in {"", "X"}
LawCell == pick.k = "op" =>
    \E n \in {LengthOf(pick.c[1], pick.c[2])} :
    IF n = 0 THEN Decode((IF pick.c[1] = 0 THEN <<>> ELSE <<pick.c[1]>>) \o <<pick.c[2]>>).mn \in {"undefined", "truncated"}
    ELSE \E b \in {BytesOf(pick.c, pick.s)} : \E d \in {Decode(b)} :
         /\ Valid(d) /\ WF(d) /\ d.len = n /\ Len(b) = n /\ Encode(d) = b /\ RegsOK(d)
         /\ Decode(b \o <<0>>).mn = "toolong"
         /\ Decode(SubSeq(b, 1, n - 1)).mn \in {"truncated", "undefined"}
LawLine == pick.k = "ln" =>
    \E d \in {Decode(BytesOf(pick.c, pick.s))} :
    Printable(d) => \E a \in {Asm(d.mn, Render(d, pick.lab, 4096), 4096)} : a # NoAsm /\ Agrees(d, a)
LawKnown == pick.k = "ka" => LET a == Asm(pick.ka[1], pick.ka[2], pick.ka[3])  d == Decode(pick.ka[4]) IN
    /\ a # NoAsm /\ Valid(d) /\ Agrees(d, a) /\ Encode(d) = pick.ka[4]
LawFields == pick.k = "fld" => LET v == pick.v IN
    /\ Pattern(SignExt(v, 8), 8) = v /\ SignExt(v, 8) \in -128..127
    /\ WN(v, 8) = v /\ WN(v - 256, 8) = v /\ WN(256 * v + v - 65536, 16) = 256 * v + v /\ WN(-1, 16) = 65535
    /\ BE(<<v, 255 - v, 1>>, 1, 2) = 256 * v + 255 - v /\ BEBytes(256 * v + 7, 2) = <<v, 7>> /\ BEBytes(65536 * v + 513, 3) = <<v, 2, 1>>
    /\ BE(<<9, v, 2, 1>>, 2, 3) = 65536 * v + 513
=============================================================================
