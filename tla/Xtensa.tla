-------------------------------- MODULE Xtensa --------------------------------
(* The Xtensa core instruction set (little-endian configuration) with the     *)
(* code density, 32-bit multiply / divide, miscellaneous, boolean and single  *)
(* precision floating point options, transcribed from the Xtensa Instruction  *)
(* Set Architecture Reference Manual: chapter 7 "Instruction formats and      *)
(* opcodes" (formats RRR, RRI4, RRI8, RI16, RSR, CALL, CALLX, BRI8, BRI12,    *)
(* RRRN, RI7, RI6 and the opcode maps QRST / RST0..3 / ST0 / SNM0 / JR /      *)
(* CALLX / SYNC / ST1 / RT0 / LSAI / LSCI / CALLN / SI / BZ / BI0 / BI1 / B1  *)
(* / B / ST2 / ST3 / S3 / FP0 / FP1OP / FP1) and chapter 6 (instruction       *)
(* descriptions: assembler syntax and the meaning of the immediate fields),   *)
(* independently of ppci.                                                     *)
(*                                                                           *)
(*   Decode(b)   2 or 3 instruction bytes (little-endian) -> record            *)
(*   MatchesX(w) the instruction formats a 24-bit / 16-bit word belongs to     *)
(*   Split / Join   the fields of a format                                     *)
(*   Encode(i)   the reference encoder (inverse; laws in Xtensa_MC)            *)
(*   Asm(mn, ops, sym, pc)   meaning of a printed line (the manual's syntax:  *)
(*               "add a1, a2, a3", "l32i.n a1, a2, 8", "beqz a3, label")       *)
(*   WF(i)       operand ranges of the instruction descriptions                *)
(*   Reads / Writes   address registers read / written                         *)
(*   XRanges     operand ranges per mnemonic (boundary generation, idiom G)    *)
EXTENDS Integers, Sequences, FiniteSets, TLC

P2(n) == 2 ^ n                                        \* n <= 30
Bits(x, lo, n) == (x \div P2(lo)) % P2(n)             \* field x<lo+n-1:lo>
Bit(x, k) == (x \div P2(k)) % 2
SignExt(v, n) == IF v >= P2(n - 1) THEN v - P2(n) ELSE v     \* n-bit pattern -> signed value
Pattern(v, n) == IF v < 0 THEN v + P2(n) ELSE v              \* signed value -> n-bit pattern
NoReg == 16

(* The decoded instruction.                                                  *)
(*  mn    mnemonic as the manual spells it, lower case ("add.n", "abs.s")     *)
(*  r s t the register operands named by the fields r, s, t of the format     *)
(*        (ar / as / at, fr / fs / ft, br / bs / bt)                          *)
(*  rf    kinds of the assembler operands in the order the manual lists them: *)
(*        a address register, f floating point register, b boolean register, *)
(*        i integer, l label                                                 *)
(*  imm   immediate / offset in bytes / shift amount, as the assembler states *)
(*        it; for a label operand the displacement from the base address of  *)
(*        the instruction description (PC + 4; CALLn: (PC and not 3) + 4;     *)
(*        L32R: (PC + 3) and not 3)                                           *)
(*  imm2  second immediate (EXTUI mask size, BREAK)                           *)
(*  len   3 | 2 bytes                                                         *)
XI0 == [mn |-> "", rf |-> "", r |-> NoReg, s |-> NoReg, t |-> NoReg, imm |-> 0, imm2 |-> 0, len |-> 0]
NotInsn == {"reserved", "unsupported", "none", "length"}
Bad(k, len) == [XI0 EXCEPT !.mn = k, !.len = len]
Valid(i) == i.mn \notin NotInsn
NoAsm == Bad("none", 0)
Core(i) == i                                          \* every field of the record is operation or operand

-----------------------------------------------------------------------------
(* The assembler syntax of every modelled instruction:                        *)
(*   <<mnemonic, operand kinds, field of each operand, registers written>>    *)
(* fields: r s t registers, i imm, j imm2, l label (-> imm)                   *)
RRR3 == {"and", "or", "xor", "add", "addx2", "addx4", "addx8", "sub", "subx2", "subx4", "subx8", "src", "mul16u", "mul16s",
         "mull", "muluh", "mulsh", "quou", "quos", "remu", "rems", "min", "max", "minu", "maxu"}
CondMove == {"moveqz", "movnez", "movltz", "movgez"}
Bool3 == {"andb", "andbc", "orb", "orbc", "xorb"}
BranchRR == {"bnone", "beq", "blt", "bltu", "ball", "bbc", "bany", "bne", "bge", "bgeu", "bnall", "bbs"}
BranchZ == {"beqz", "bnez", "bltz", "bgez"}
BranchI == {"beqi", "bnei", "blti", "bgei", "bltui", "bgeui"}
Loads == {"l8ui", "l16ui", "l16si", "l32i", "l32ai"}
Stores == {"s8i", "s16i", "s32i", "s32ri", "s32c1i"}
Fp3 == {"add.s", "sub.s", "mul.s", "madd.s", "msub.s"}
FpCmp == {"un.s", "oeq.s", "ueq.s", "olt.s", "ult.s", "ole.s", "ule.s"}
FpToInt == {"round.s", "trunc.s", "floor.s", "ceil.s", "utrunc.s"}
Plain3 == {"ret", "retw", "nop", "isync", "rsync", "esync", "dsync", "excw", "memw", "extw", "syscall", "ill"}
Syntax ==
    {<<m, "aaa", "rst", "r">> : m \in RRR3}
    \cup {<<m, "aaa", "rst", "r">> : m \in CondMove}
    \cup {<<m, "bbb", "rst", "">> : m \in Bool3}
    \cup {<<m, "bb", "ts", "">> : m \in {"any4", "all4", "any8", "all8"}}
    \cup {<<m, "aab", "rst", "r">> : m \in {"movf", "movt"}}
    \cup {<<m, "aa", "rt", "r">> : m \in {"neg", "abs", "srl", "sra"}}
    \cup {<<"sll", "aa", "rs", "r">>}
    \cup {<<m, "aa", "ts", "t">> : m \in {"nsa", "nsau", "movsp"}}
    \cup {<<m, "a", "s", "">> : m \in {"ssr", "ssl", "ssa8l", "ssa8b", "jx"}}
    \cup {<<m, "a", "s", "0">> : m \in {"callx0", "callx4", "callx8", "callx12"}}
    \cup {<<"ssai", "i", "i", "">>, <<"waiti", "i", "i", "">>, <<"break", "ii", "ij", "">>, <<"rsil", "ai", "ti", "t">>}
    \cup {<<m, "", "", "">> : m \in Plain3}
    \cup {<<"slli", "aai", "rsi", "r">>, <<"srai", "aai", "rti", "r">>, <<"srli", "aai", "rti", "r">>,
          <<"extui", "aaii", "rtij", "r">>, <<"sext", "aai", "rsi", "r">>, <<"clamps", "aai", "rsi", "r">>}
    \cup {<<m, "aai", "tsi", "t">> : m \in Loads \cup {"addi", "addmi"}}
    \cup {<<m, "aai", "tsi", "">> : m \in Stores}
    \cup {<<"movi", "ai", "ti", "t">>, <<"l32r", "al", "tl", "t">>}
    \cup {<<m, "fai", "tsi", "">> : m \in {"lsi", "ssi", "lsiu", "ssiu"}}
    \cup {<<m, "l", "l", "0">> : m \in {"call0", "call4", "call8", "call12"}}
    \cup {<<"j", "l", "l", "">>, <<"entry", "ai", "si", "">>}
    \cup {<<m, "aal", "stl", "">> : m \in BranchRR}
    \cup {<<m, "al", "sl", "">> : m \in BranchZ \cup {"loop", "loopnez", "loopgtz", "beqz.n", "bnez.n"}}
    \cup {<<m, "ail", "sil", "">> : m \in BranchI \cup {"bbci", "bbsi"}}
    \cup {<<m, "bl", "sl", "">> : m \in {"bf", "bt"}}
    \cup {<<m, "aai", "tsi", "t">> : m \in {"l32i.n"}} \cup {<<"s32i.n", "aai", "tsi", "">>}
    \cup {<<"add.n", "aaa", "rst", "r">>, <<"addi.n", "aai", "rsi", "r">>, <<"mov.n", "aa", "ts", "t">>, <<"movi.n", "ai", "si", "s">>}
    \cup {<<m, "", "", "">> : m \in {"ret.n", "retw.n", "nop.n", "ill.n"}} \cup {<<"break.n", "i", "i", "">>}
    \cup {<<m, "fff", "rst", "">> : m \in Fp3}
    \cup {<<m, "ff", "rs", "">> : m \in {"mov.s", "abs.s", "neg.s"}}
    \cup {<<"rfr", "af", "rs", "r">>, <<"wfr", "fa", "rs", "">>}
    \cup {<<m, "afi", "rsi", "r">> : m \in FpToInt} \cup {<<m, "fai", "rsi", "">> : m \in {"float.s", "ufloat.s"}}
    \cup {<<m, "bff", "rst", "">> : m \in FpCmp}
    \cup {<<m, "ffa", "rst", "">> : m \in {"moveqz.s", "movnez.s", "movltz.s", "movgez.s"}}
    \cup {<<m, "ffb", "rst", "">> : m \in {"movf.s", "movt.s"}}
Mnemonics == {x[1] : x \in Syntax}
Row(mn) == CHOOSE x \in Syntax : x[1] = mn
Narrow(mn) == mn \in {"l32i.n", "s32i.n", "add.n", "addi.n", "mov.n", "movi.n", "beqz.n", "bnez.n", "ret.n", "retw.n", "nop.n",
                      "ill.n", "break.n"}
X(mn) == [XI0 EXCEPT !.mn = mn, !.rf = Row(mn)[2], !.len = IF Narrow(mn) THEN 2 ELSE 3]

-----------------------------------------------------------------------------
(* Instruction formats (figures "RRR" .. "RI6" of chapter 7): fields of a     *)
(* word as <<name, lowest bit, width>>                                        *)
Formats == {"RRR", "RRI4", "RRI8", "RI16", "RSR", "CALL", "CALLX", "BRI8", "BRI12", "RRRN", "RI7", "RI6"}
Layout(f) ==
    CASE f = "RRR"   -> <<<<"op0", 0, 4>>, <<"t", 4, 4>>, <<"s", 8, 4>>, <<"r", 12, 4>>, <<"op1", 16, 4>>, <<"op2", 20, 4>>>>
      [] f = "RRI4"  -> <<<<"op0", 0, 4>>, <<"t", 4, 4>>, <<"s", 8, 4>>, <<"r", 12, 4>>, <<"op1", 16, 4>>, <<"imm4", 20, 4>>>>
      [] f = "RRI8"  -> <<<<"op0", 0, 4>>, <<"t", 4, 4>>, <<"s", 8, 4>>, <<"r", 12, 4>>, <<"imm8", 16, 8>>>>
      [] f = "RI16"  -> <<<<"op0", 0, 4>>, <<"t", 4, 4>>, <<"imm16", 8, 16>>>>
      [] f = "RSR"   -> <<<<"op0", 0, 4>>, <<"t", 4, 4>>, <<"rs", 8, 8>>, <<"op1", 16, 4>>, <<"op2", 20, 4>>>>
      [] f = "CALL"  -> <<<<"op0", 0, 4>>, <<"n", 4, 2>>, <<"offset", 6, 18>>>>
      [] f = "CALLX" -> <<<<"op0", 0, 4>>, <<"n", 4, 2>>, <<"m", 6, 2>>, <<"s", 8, 4>>, <<"r", 12, 4>>, <<"op1", 16, 4>>, <<"op2", 20, 4>>>>
      [] f = "BRI8"  -> <<<<"op0", 0, 4>>, <<"n", 4, 2>>, <<"m", 6, 2>>, <<"s", 8, 4>>, <<"r", 12, 4>>, <<"imm8", 16, 8>>>>
      [] f = "BRI12" -> <<<<"op0", 0, 4>>, <<"n", 4, 2>>, <<"m", 6, 2>>, <<"s", 8, 4>>, <<"imm12", 12, 12>>>>
      [] f = "RRRN"  -> <<<<"op0", 0, 4>>, <<"t", 4, 4>>, <<"s", 8, 4>>, <<"r", 12, 4>>>>
      [] f = "RI7"   -> <<<<"op0", 0, 4>>, <<"imm7hi", 4, 3>>, <<"i", 7, 1>>, <<"s", 8, 4>>, <<"imm7lo", 12, 4>>>>
      [] f = "RI6"   -> <<<<"op0", 0, 4>>, <<"imm6hi", 4, 2>>, <<"z", 6, 1>>, <<"i", 7, 1>>, <<"s", 8, 4>>, <<"imm6lo", 12, 4>>>>
FmtBits(f) == IF f \in {"RRRN", "RI7", "RI6"} THEN 16 ELSE 24
Split(f, w) == [k \in 1..Len(Layout(f)) |-> Bits(w, Layout(f)[k][2], Layout(f)[k][3])]
RECURSIVE JoinR(_, _, _)
JoinR(f, v, k) == IF k > Len(Layout(f)) THEN 0 ELSE v[k] * P2(Layout(f)[k][2]) + JoinR(f, v, k + 1)
Join(f, v) == JoinR(f, v, 1)
Field(f, w, name) == LET k == CHOOSE j \in 1..Len(Layout(f)) : Layout(f)[j][1] = name IN Split(f, w)[k]
FieldsTile(f) ==                                      \* the fields of a format tile the word without gap or overlap
    LET L == Layout(f) IN
    /\ L[1][2] = 0
    /\ \A k \in 1..(Len(L) - 1) : L[k][2] + L[k][3] = L[k + 1][2]
    /\ L[Len(L)][2] + L[Len(L)][3] = FmtBits(f)

\* field accessors of the common positions
Op0(w) == Bits(w, 0, 4)
FT(w) == Bits(w, 4, 4)
FS(w) == Bits(w, 8, 4)
FR(w) == Bits(w, 12, 4)
Op1(w) == Bits(w, 16, 4)
Op2(w) == Bits(w, 20, 4)
FN(w) == Bits(w, 4, 2)
FM(w) == Bits(w, 6, 2)
Imm8(w) == Bits(w, 16, 8)

\* which format an instruction word is in (opcode maps of section 7.3)
MatchX(f, w, narrow) ==
    LET o == Op0(w) IN
    IF narrow THEN
        CASE f = "RRRN" -> o \in {8, 9, 10, 11, 13}
          [] f = "RI7"  -> o = 12 /\ Bit(w, 7) = 0
          [] f = "RI6"  -> o = 12 /\ Bit(w, 7) = 1
          [] OTHER -> FALSE
    ELSE
        CASE f = "CALLX" -> o = 0 /\ Op1(w) = 0 /\ Op2(w) = 0 /\ FR(w) = 0                      \* QRST / RST0 / ST0 / SNM0
          [] f = "RSR"   -> o = 0 /\ ((Op1(w) = 3 /\ Op2(w) \in {0, 1}) \/ (Op1(w) = 1 /\ Op2(w) = 6))  \* RSR WSR XSR
          [] f = "RRI4"  -> o = 0 /\ Op1(w) = 9                                                 \* LSC4
          [] f = "RRR"   -> (o = 0 /\ ~(Op1(w) = 0 /\ Op2(w) = 0 /\ FR(w) = 0) /\ ~(Op1(w) = 3 /\ Op2(w) \in {0, 1})
                                   /\ ~(Op1(w) = 1 /\ Op2(w) = 6) /\ Op1(w) # 9) \/ o = 4        \* QRST, MAC16
          [] f = "RI16"  -> o = 1                                                               \* L32R
          [] f = "RRI8"  -> o \in {2, 3, 7}                                                     \* LSAI LSCI B
          [] f = "CALL"  -> o = 5 \/ (o = 6 /\ FN(w) = 0)                                       \* CALLN, J
          [] f = "BRI12" -> o = 6 /\ (FN(w) = 1 \/ (FN(w) = 3 /\ FM(w) = 0))                    \* BZ, ENTRY
          [] f = "BRI8"  -> o = 6 /\ (FN(w) = 2 \/ (FN(w) = 3 /\ FM(w) # 0))                    \* BI0, B1 BLTUI BGEUI
          [] OTHER -> FALSE
MatchesX(w, narrow) == {f \in Formats : MatchX(f, w, narrow)}
IsNarrowOp0(o) == o \in 8..13                          \* code density option: 16-bit instructions
IsWideOp0(o) == o \in 0..7

-----------------------------------------------------------------------------
B4Const == <<-1, 1, 2, 3, 4, 5, 6, 7, 8, 10, 12, 16, 32, 64, 128, 256>>
B4ConstU == <<32768, 65536, 2, 3, 4, 5, 6, 7, 8, 10, 12, 16, 32, 64, 128, 256>>

R3(mn, w) == [X(mn) EXCEPT !.r = FR(w), !.s = FS(w), !.t = FT(w)]
RT(mn, w) == [X(mn) EXCEPT !.r = FR(w), !.t = FT(w)]
RS(mn, w) == [X(mn) EXCEPT !.r = FR(w), !.s = FS(w)]
TS(mn, w) == [X(mn) EXCEPT !.t = FT(w), !.s = FS(w)]
S1(mn, w) == [X(mn) EXCEPT !.s = FS(w)]
Res3 == Bad("reserved", 3)
Uns3 == Bad("unsupported", 3)

DecST0(w) ==                                                                 \* table "ST0" (op2 = 0), by r
    LET r == FR(w)  s == FS(w)  t == FT(w)  m == FM(w)  n == FN(w) IN
    CASE r = 0 ->                                                            \* SNM0, by m
            (CASE m = 0 -> IF n = 0 /\ s = 0 THEN X("ill") ELSE Res3
               [] m = 1 -> Res3
               [] m = 2 -> (CASE n = 0 -> IF s = 0 THEN X("ret") ELSE Res3    \* JR
                              [] n = 1 -> IF s = 0 THEN X("retw") ELSE Res3
                              [] n = 2 -> S1("jx", w)
                              [] n = 3 -> Res3)
               [] m = 3 -> S1(<<"callx0", "callx4", "callx8", "callx12">>[n + 1], w))
      [] r = 1 -> TS("movsp", w)
      [] r = 2 -> IF s # 0 THEN Res3                                          \* SYNC, by t
                  ELSE (CASE t = 0 -> X("isync") [] t = 1 -> X("rsync") [] t = 2 -> X("esync") [] t = 3 -> X("dsync")
                          [] t = 8 -> X("excw") [] t = 12 -> X("memw") [] t = 13 -> X("extw") [] t = 15 -> X("nop")
                          [] OTHER -> Res3)
      [] r = 3 -> Uns3                                                        \* RFEI
      [] r = 4 -> [X("break") EXCEPT !.imm = s, !.imm2 = t]
      [] r = 5 -> IF s = 0 /\ t = 0 THEN X("syscall") ELSE Res3
      [] r = 6 -> [X("rsil") EXCEPT !.t = t, !.imm = s]
      [] r = 7 -> IF t = 0 THEN [X("waiti") EXCEPT !.imm = s] ELSE Res3
      [] r \in 8..11 -> TS(<<"any4", "all4", "any8", "all8">>[r - 7], w)
      [] OTHER -> Res3

DecST1(w) ==                                                                 \* table "ST1" (op2 = 4), by r
    LET r == FR(w)  s == FS(w)  t == FT(w) IN
    CASE r \in 0..3 -> IF t = 0 THEN S1(<<"ssr", "ssl", "ssa8l", "ssa8b">>[r + 1], w) ELSE Res3
      [] r = 4 -> IF t \in {0, 1} THEN [X("ssai") EXCEPT !.imm = 16 * t + s] ELSE Res3
      [] r \in {6, 7, 8} -> Uns3                                              \* RER WER ROTW
      [] r = 14 -> TS("nsa", w)
      [] r = 15 -> TS("nsau", w)
      [] OTHER -> Res3

DecRST0(w) ==                                                                \* table "RST0" (op1 = 0), by op2
    LET o == Op2(w) IN
    CASE o = 0 -> DecST0(w)
      [] o \in {1, 2, 3} -> R3(<<"and", "or", "xor">>[o], w)
      [] o = 4 -> DecST1(w)
      [] o = 5 -> Uns3                                                        \* TLB
      [] o = 6 -> (CASE FS(w) = 0 -> RT("neg", w) [] FS(w) = 1 -> RT("abs", w) [] OTHER -> Res3)   \* RT0
      [] o = 7 -> Res3
      [] OTHER -> R3(<<"add", "addx2", "addx4", "addx8", "sub", "subx2", "subx4", "subx8">>[o - 7], w)

DecRST1(w) ==                                                                \* table "RST1" (op1 = 1), by op2
    LET o == Op2(w)  s == FS(w)  t == FT(w) IN
    CASE o \in {0, 1} -> IF 16 * o + t = 0 THEN Res3                          \* the field holds 32 - sa, sa in 1..31
                         ELSE [RS("slli", w) EXCEPT !.imm = 32 - (16 * o + t)]
      [] o \in {2, 3} -> [RT("srai", w) EXCEPT !.imm = 16 * (o - 2) + s]
      [] o = 4 -> [RT("srli", w) EXCEPT !.imm = s]
      [] o = 8 -> R3("src", w)
      [] o = 9 -> IF s = 0 THEN RT("srl", w) ELSE Res3
      [] o = 10 -> IF t = 0 THEN RS("sll", w) ELSE Res3
      [] o = 11 -> IF s = 0 THEN RT("sra", w) ELSE Res3
      [] o = 12 -> R3("mul16u", w)
      [] o = 13 -> R3("mul16s", w)
      [] o \in {6, 7, 15} -> Uns3                                             \* XSR ACCER IMP
      [] OTHER -> Res3

DecRST2(w) ==                                                                \* table "RST2" (op1 = 2), by op2
    LET o == Op2(w) IN
    CASE o \in 0..4 -> R3(<<"andb", "andbc", "orb", "orbc", "xorb">>[o + 1], w)
      [] o = 8 -> R3("mull", w)
      [] o \in {10, 11} -> R3(<<"muluh", "mulsh">>[o - 9], w)
      [] o \in 12..15 -> R3(<<"quou", "quos", "remu", "rems">>[o - 11], w)
      [] OTHER -> Res3

DecRST3(w) ==                                                                \* table "RST3" (op1 = 3), by op2
    LET o == Op2(w) IN
    CASE o \in {0, 1, 14, 15} -> Uns3                                         \* RSR WSR RUR WUR
      [] o = 2 -> [RS("sext", w) EXCEPT !.imm = FT(w) + 7]
      [] o = 3 -> [RS("clamps", w) EXCEPT !.imm = FT(w) + 7]
      [] o \in 4..7 -> R3(<<"min", "max", "minu", "maxu">>[o - 3], w)
      [] o \in 8..11 -> R3(<<"moveqz", "movnez", "movltz", "movgez">>[o - 7], w)
      [] o = 12 -> R3("movf", w)
      [] o = 13 -> R3("movt", w)

DecFP0(w) ==                                                                 \* table "FP0" (op1 = 10), by op2
    LET o == Op2(w)  t == FT(w) IN
    CASE o \in {0, 1, 2} -> R3(<<"add.s", "sub.s", "mul.s">>[o + 1], w)
      [] o \in {4, 5} -> R3(<<"madd.s", "msub.s">>[o - 3], w)
      [] o \in 8..11 -> [RS(<<"round.s", "trunc.s", "floor.s", "ceil.s">>[o - 7], w) EXCEPT !.imm = t]
      [] o \in {12, 13} -> [RS(<<"float.s", "ufloat.s">>[o - 11], w) EXCEPT !.imm = t]
      [] o = 14 -> [RS("utrunc.s", w) EXCEPT !.imm = t]
      [] o = 15 -> (CASE t = 0 -> RS("mov.s", w) [] t = 1 -> RS("abs.s", w) [] t = 4 -> RS("rfr", w)   \* FP1OP, by t
                      [] t = 5 -> RS("wfr", w) [] t = 6 -> RS("neg.s", w) [] OTHER -> Res3)
      [] OTHER -> Res3

DecFP1(w) ==                                                                 \* table "FP1" (op1 = 11), by op2
    LET o == Op2(w) IN
    CASE o \in 1..7 -> R3(<<"un.s", "oeq.s", "ueq.s", "olt.s", "ult.s", "ole.s", "ule.s">>[o], w)
      [] o \in 8..11 -> R3(<<"moveqz.s", "movnez.s", "movltz.s", "movgez.s">>[o - 7], w)
      [] o \in {12, 13} -> R3(<<"movf.s", "movt.s">>[o - 11], w)
      [] OTHER -> Res3

DecQRST(w) ==                                                                \* table "QRST" (op0 = 0), by op1
    LET o == Op1(w) IN
    CASE o = 0 -> DecRST0(w)
      [] o = 1 -> DecRST1(w)
      [] o = 2 -> DecRST2(w)
      [] o = 3 -> DecRST3(w)
      [] o \in {4, 5} -> [RT("extui", w) EXCEPT !.imm = 16 * (o - 4) + FS(w), !.imm2 = Op2(w) + 1]
      [] o = 10 -> DecFP0(w)
      [] o = 11 -> DecFP1(w)
      [] o \in {6, 7, 8, 9} -> Uns3                                           \* CUST0 CUST1 LSCX LSC4
      [] OTHER -> Res3

DecLSAI(w) ==                                                                \* table "LSAI" (op0 = 2), by r
    LET r == FR(w)  v == Imm8(w) IN
    CASE r = 0 -> [TS("l8ui", w) EXCEPT !.imm = v]
      [] r = 1 -> [TS("l16ui", w) EXCEPT !.imm = 2 * v]
      [] r = 2 -> [TS("l32i", w) EXCEPT !.imm = 4 * v]
      [] r = 4 -> [TS("s8i", w) EXCEPT !.imm = v]
      [] r = 5 -> [TS("s16i", w) EXCEPT !.imm = 2 * v]
      [] r = 6 -> [TS("s32i", w) EXCEPT !.imm = 4 * v]
      [] r = 7 -> Uns3                                                        \* CACHE
      [] r = 9 -> [TS("l16si", w) EXCEPT !.imm = 2 * v]
      [] r = 10 -> [X("movi") EXCEPT !.t = FT(w), !.imm = SignExt(256 * FS(w) + v, 12)]      \* imm12 = s : imm8
      [] r = 11 -> [TS("l32ai", w) EXCEPT !.imm = 4 * v]
      [] r = 12 -> [TS("addi", w) EXCEPT !.imm = SignExt(v, 8)]
      [] r = 13 -> [TS("addmi", w) EXCEPT !.imm = 256 * SignExt(v, 8)]                       \* sign-extended imm8 shifted left by 8
      [] r = 14 -> [TS("s32c1i", w) EXCEPT !.imm = 4 * v]
      [] r = 15 -> [TS("s32ri", w) EXCEPT !.imm = 4 * v]
      [] OTHER -> Res3

DecLSCI(w) ==                                                                \* table "LSCI" (op0 = 3), by r
    LET r == FR(w) IN
    IF r \in {0, 4, 8, 12} THEN [TS(<<"lsi", "ssi", "lsiu", "ssiu">>[r \div 4 + 1], w) EXCEPT !.imm = 4 * Imm8(w)] ELSE Res3

DecSI(w) ==                                                                  \* table "SI" (op0 = 6), by n, then m
    LET n == FN(w)  m == FM(w)  r == FR(w)  d8 == SignExt(Imm8(w), 8) IN
    CASE n = 0 -> [X("j") EXCEPT !.imm = SignExt(Bits(w, 6, 18), 18)]
      [] n = 1 -> [S1(<<"beqz", "bnez", "bltz", "bgez">>[m + 1], w) EXCEPT !.imm = SignExt(Bits(w, 12, 12), 12)]
      [] n = 2 -> [S1(<<"beqi", "bnei", "blti", "bgei">>[m + 1], w) EXCEPT !.imm2 = B4Const[r + 1], !.imm = d8]
      [] n = 3 -> (CASE m = 0 -> [S1("entry", w) EXCEPT !.imm = 8 * Bits(w, 12, 12)]
                     [] m = 1 -> (CASE r \in {0, 1} -> [S1(<<"bf", "bt">>[r + 1], w) EXCEPT !.imm = d8]
                                    [] r \in {8, 9, 10} -> [S1(<<"loop", "loopnez", "loopgtz">>[r - 7], w) EXCEPT !.imm = Imm8(w)]
                                    [] OTHER -> Res3)
                     [] m = 2 -> [S1("bltui", w) EXCEPT !.imm2 = B4ConstU[r + 1], !.imm = d8]
                     [] m = 3 -> [S1("bgeui", w) EXCEPT !.imm2 = B4ConstU[r + 1], !.imm = d8])

DecB(w) ==                                                                   \* table "B" (op0 = 7), by r
    LET r == FR(w)  d8 == SignExt(Imm8(w), 8) IN
    CASE r \in {6, 7} -> [S1("bbci", w) EXCEPT !.imm2 = 16 * (r - 6) + FT(w), !.imm = d8]
      [] r \in {14, 15} -> [S1("bbsi", w) EXCEPT !.imm2 = 16 * (r - 14) + FT(w), !.imm = d8]
      [] OTHER -> [X(<<"bnone", "beq", "blt", "bltu", "ball", "bbc", "?", "?", "bany", "bne", "bge", "bgeu", "bnall", "bbs">>[r + 1])
                      EXCEPT !.s = FS(w), !.t = FT(w), !.imm = d8]

Decode24(w) ==                                                               \* table "op0"
    LET o == Op0(w) IN
    CASE o = 0 -> DecQRST(w)
      [] o = 1 -> [X("l32r") EXCEPT !.t = FT(w), !.imm = 4 * (Bits(w, 8, 16) - 65536)]       \* ones-extended imm16, shifted by 2
      [] o = 2 -> DecLSAI(w)
      [] o = 3 -> DecLSCI(w)
      [] o = 4 -> Uns3                                                        \* MAC16
      [] o = 5 -> [X(<<"call0", "call4", "call8", "call12">>[FN(w) + 1]) EXCEPT !.imm = 4 * SignExt(Bits(w, 6, 18), 18)]
      [] o = 6 -> DecSI(w)
      [] o = 7 -> DecB(w)
      [] OTHER -> Bad("length", 3)                                            \* op0 8..13 are 16-bit instructions, 14 15 reserved

Decode16(h) ==
    LET o == Op0(h)  r == FR(h)  s == FS(h)  t == FT(h) IN
    CASE o = 8 -> [X("l32i.n") EXCEPT !.t = t, !.s = s, !.imm = 4 * r]
      [] o = 9 -> [X("s32i.n") EXCEPT !.t = t, !.s = s, !.imm = 4 * r]
      [] o = 10 -> [X("add.n") EXCEPT !.r = r, !.s = s, !.t = t]
      [] o = 11 -> [X("addi.n") EXCEPT !.r = r, !.s = s, !.imm = IF t = 0 THEN -1 ELSE t]
      [] o = 12 -> IF Bit(h, 7) = 0                                           \* ST2: MOVI.N (RI7), BEQZ.N / BNEZ.N (RI6)
                   THEN LET v == 16 * Bits(h, 4, 3) + r IN [X("movi.n") EXCEPT !.s = s, !.imm = IF v >= 96 THEN v - 128 ELSE v]
                   ELSE [X(IF Bit(h, 6) = 0 THEN "beqz.n" ELSE "bnez.n") EXCEPT !.s = s, !.imm = 16 * Bits(h, 4, 2) + r]
      [] o = 13 -> (CASE r = 0 -> [X("mov.n") EXCEPT !.t = t, !.s = s]         \* ST3
                      [] r = 15 -> (CASE t = 0 /\ s = 0 -> X("ret.n") [] t = 1 /\ s = 0 -> X("retw.n")      \* S3
                                      [] t = 2 -> [X("break.n") EXCEPT !.imm = s] [] t = 3 /\ s = 0 -> X("nop.n")
                                      [] t = 6 /\ s = 0 -> X("ill.n") [] OTHER -> Bad("reserved", 2))
                      [] OTHER -> Bad("reserved", 2))
      [] o \in {14, 15} -> Bad("reserved", 2)
      [] OTHER -> Bad("length", 2)                                            \* op0 0..7 are 24-bit instructions

Decode(b) ==
    IF Len(b) = 3 THEN Decode24(b[1] + 256 * b[2] + 65536 * b[3])
    ELSE IF Len(b) = 2 THEN Decode16(b[1] + 256 * b[2])
    ELSE Bad("length", Len(b))

-----------------------------------------------------------------------------
(* Operand ranges of the instruction descriptions: <<lo, hi, step>> of imm    *)
ImmRange(mn) ==
    CASE mn \in {"l8ui", "s8i"} -> <<0, 255, 1>>
      [] mn \in {"l16ui", "l16si", "s16i"} -> <<0, 510, 2>>
      [] mn \in {"l32i", "s32i", "l32ai", "s32ri", "s32c1i", "lsi", "ssi", "lsiu", "ssiu"} -> <<0, 1020, 4>>
      [] mn \in {"l32i.n", "s32i.n"} -> <<0, 60, 4>>
      [] mn = "addi" -> <<-128, 127, 1>>
      [] mn = "addmi" -> <<-32768, 32512, 256>>
      [] mn = "movi" -> <<-2048, 2047, 1>>
      [] mn = "movi.n" -> <<-32, 95, 1>>
      [] mn = "addi.n" -> <<-1, 15, 1>>                                        \* and not 0 (WF)
      [] mn = "slli" -> <<1, 31, 1>>
      [] mn \in {"srai", "extui", "ssai"} -> <<0, 31, 1>>
      [] mn \in {"srli", "break", "break.n", "rsil", "waiti"} \cup FpToInt \cup {"float.s", "ufloat.s"} -> <<0, 15, 1>>
      [] mn \in {"sext", "clamps"} -> <<7, 22, 1>>
      [] mn = "entry" -> <<0, 32760, 8>>
      [] mn \in BranchRR \cup BranchI \cup {"bbci", "bbsi", "bf", "bt"} -> <<-128, 127, 1>>      \* label - (PC + 4)
      [] mn \in BranchZ -> <<-2048, 2047, 1>>
      [] mn = "j" -> <<-131072, 131071, 1>>
      [] mn \in {"call0", "call4", "call8", "call12"} -> <<-524288, 524284, 4>>                   \* label - ((PC and not 3) + 4)
      [] mn = "l32r" -> <<-262144, -4, 4>>                                                        \* label - ((PC + 3) and not 3)
      [] mn \in {"loop", "loopnez", "loopgtz"} -> <<0, 255, 1>>
      [] mn \in {"beqz.n", "bnez.n"} -> <<0, 63, 1>>
      [] OTHER -> <<0, 0, 1>>
InRange(rg, v) == rg[1] <= v /\ v <= rg[2] /\ (v - rg[1]) % rg[3] = 0
Imm2OK(i) ==
    CASE i.mn \in {"beqi", "bnei", "blti", "bgei"} -> \E k \in 1..16 : B4Const[k] = i.imm2
      [] i.mn \in {"bltui", "bgeui"} -> \E k \in 1..16 : B4ConstU[k] = i.imm2
      [] i.mn \in {"bbci", "bbsi"} -> i.imm2 \in 0..31
      [] i.mn = "extui" -> i.imm2 \in 1..16
      [] i.mn = "break" -> i.imm2 \in 0..15
      [] OTHER -> i.imm2 = 0
FieldsOf(mn) == Row(mn)[3]
\* TLC strings are not sequences: the field letters of a row are kept as a tuple
FieldSeq(fs) ==
    CASE fs = "" -> <<>> [] fs = "rst" -> <<"r", "s", "t">> [] fs = "ts" -> <<"t", "s">> [] fs = "rt" -> <<"r", "t">>
      [] fs = "rs" -> <<"r", "s">> [] fs = "s" -> <<"s">> [] fs = "i" -> <<"i">> [] fs = "ij" -> <<"i", "j">>
      [] fs = "ti" -> <<"t", "i">> [] fs = "rsi" -> <<"r", "s", "i">> [] fs = "rti" -> <<"r", "t", "i">>
      [] fs = "rtij" -> <<"r", "t", "i", "j">> [] fs = "tsi" -> <<"t", "s", "i">> [] fs = "tl" -> <<"t", "l">>
      [] fs = "l" -> <<"l">> [] fs = "si" -> <<"s", "i">> [] fs = "stl" -> <<"s", "t", "l">> [] fs = "sl" -> <<"s", "l">>
      [] fs = "sil" -> <<"s", "j", "l">>
Uses(mn, ch) == \E k \in 1..Len(FieldSeq(Row(mn)[3])) : FieldSeq(Row(mn)[3])[k] = ch
WF(i) ==
    /\ i.mn \in Mnemonics
    /\ i.rf = Row(i.mn)[2]
    /\ i.len = (IF Narrow(i.mn) THEN 2 ELSE 3)
    /\ (IF Uses(i.mn, "r") THEN i.r \in 0..15 ELSE i.r = NoReg)
    /\ (IF Uses(i.mn, "s") THEN i.s \in 0..15 ELSE i.s = NoReg)
    /\ (IF Uses(i.mn, "t") THEN i.t \in 0..15 ELSE i.t = NoReg)
    /\ InRange(ImmRange(i.mn), i.imm)
    /\ (i.mn = "addi.n" => i.imm # 0)
    /\ Imm2OK(i)

-----------------------------------------------------------------------------
(* The reference encoder, from the encoding diagram of each instruction       *)
(* description (chapter 6): W = op2 op1 r s t op0                              *)
W(op2, op1, r, s, t, op0) == op2 * P2(20) + op1 * P2(16) + r * P2(12) + s * P2(8) + t * 16 + op0
IndexOf(seq, x) == CHOOSE k \in 1..Len(seq) : seq[k] = x
In(seq, x) == \E k \in 1..Len(seq) : seq[k] = x
Rst0Names == <<"and", "or", "xor", "?", "?", "?", "?", "add", "addx2", "addx4", "addx8", "sub", "subx2", "subx4", "subx8">>
Rst2Names == <<"andb", "andbc", "orb", "orbc", "xorb", "?", "?", "?", "mull", "?", "muluh", "mulsh", "quou", "quos", "remu", "rems">>
Rst3Names == <<"?", "?", "sext", "clamps", "min", "max", "minu", "maxu", "moveqz", "movnez", "movltz", "movgez", "movf", "movt">>
LsaiNames == <<"l8ui", "l16ui", "l32i", "?", "s8i", "s16i", "s32i", "?", "?", "l16si", "movi", "l32ai", "addi", "addmi", "s32c1i", "s32ri">>
BNames == <<"bnone", "beq", "blt", "bltu", "ball", "bbc", "?", "?", "bany", "bne", "bge", "bgeu", "bnall", "bbs">>
Fp0Names == <<"add.s", "sub.s", "mul.s", "?", "madd.s", "msub.s", "?", "?", "round.s", "trunc.s", "floor.s", "ceil.s", "float.s",
              "ufloat.s", "utrunc.s">>
Fp1Names == <<"?", "un.s", "oeq.s", "ueq.s", "olt.s", "ult.s", "ole.s", "ule.s", "moveqz.s", "movnez.s", "movltz.s", "movgez.s",
              "movf.s", "movt.s">>
Scale(mn) == ImmRange(mn)[3]
Enc24(i) ==
    LET m == i.mn IN
    CASE In(Rst0Names, m) -> W(IndexOf(Rst0Names, m), 0, i.r, i.s, i.t, 0)
      [] In(Rst2Names, m) -> W(IndexOf(Rst2Names, m) - 1, 2, i.r, i.s, i.t, 0)
      [] m \in {"sext", "clamps"} -> W(IndexOf(Rst3Names, m) - 1, 3, i.r, i.s, i.imm - 7, 0)
      [] In(Rst3Names, m) /\ m \notin {"sext", "clamps"} -> W(IndexOf(Rst3Names, m) - 1, 3, i.r, i.s, i.t, 0)
      [] m = "neg" -> W(6, 0, i.r, 0, i.t, 0)
      [] m = "abs" -> W(6, 0, i.r, 1, i.t, 0)
      [] m = "ill" -> 0
      [] m = "ret" -> W(0, 0, 0, 0, 8, 0)
      [] m = "retw" -> W(0, 0, 0, 0, 9, 0)
      [] m = "jx" -> W(0, 0, 0, i.s, 10, 0)
      [] m \in {"callx0", "callx4", "callx8", "callx12"} -> W(0, 0, 0, i.s, 12 + IndexOf(<<"callx0", "callx4", "callx8", "callx12">>, m) - 1, 0)
      [] m = "movsp" -> W(0, 0, 1, i.s, i.t, 0)
      [] m \in {"isync", "rsync", "esync", "dsync"} -> W(0, 0, 2, 0, IndexOf(<<"isync", "rsync", "esync", "dsync">>, m) - 1, 0)
      [] m = "excw" -> W(0, 0, 2, 0, 8, 0)
      [] m = "memw" -> W(0, 0, 2, 0, 12, 0)
      [] m = "extw" -> W(0, 0, 2, 0, 13, 0)
      [] m = "nop" -> W(0, 0, 2, 0, 15, 0)
      [] m = "break" -> W(0, 0, 4, i.imm, i.imm2, 0)
      [] m = "syscall" -> W(0, 0, 5, 0, 0, 0)
      [] m = "rsil" -> W(0, 0, 6, i.imm, i.t, 0)
      [] m = "waiti" -> W(0, 0, 7, i.imm, 0, 0)
      [] m \in {"any4", "all4", "any8", "all8"} -> W(0, 0, 7 + IndexOf(<<"any4", "all4", "any8", "all8">>, m), i.s, i.t, 0)
      [] m \in {"ssr", "ssl", "ssa8l", "ssa8b"} -> W(4, 0, IndexOf(<<"ssr", "ssl", "ssa8l", "ssa8b">>, m) - 1, i.s, 0, 0)
      [] m = "ssai" -> W(4, 0, 4, i.imm % 16, i.imm \div 16, 0)
      [] m = "nsa" -> W(4, 0, 14, i.s, i.t, 0)
      [] m = "nsau" -> W(4, 0, 15, i.s, i.t, 0)
      [] m = "slli" -> W((32 - i.imm) \div 16, 1, i.r, i.s, (32 - i.imm) % 16, 0)
      [] m = "srai" -> W(2 + i.imm \div 16, 1, i.r, i.imm % 16, i.t, 0)
      [] m = "srli" -> W(4, 1, i.r, i.imm, i.t, 0)
      [] m = "src" -> W(8, 1, i.r, i.s, i.t, 0)
      [] m = "srl" -> W(9, 1, i.r, 0, i.t, 0)
      [] m = "sll" -> W(10, 1, i.r, i.s, 0, 0)
      [] m = "sra" -> W(11, 1, i.r, 0, i.t, 0)
      [] m = "mul16u" -> W(12, 1, i.r, i.s, i.t, 0)
      [] m = "mul16s" -> W(13, 1, i.r, i.s, i.t, 0)
      [] m = "extui" -> W(i.imm2 - 1, 4 + i.imm \div 16, i.r, i.imm % 16, i.t, 0)
      [] m \in {"round.s", "trunc.s", "floor.s", "ceil.s", "float.s", "ufloat.s", "utrunc.s"} -> W(IndexOf(Fp0Names, m) - 1, 10, i.r, i.s, i.imm, 0)
      [] In(Fp0Names, m) /\ m \in Fp3 -> W(IndexOf(Fp0Names, m) - 1, 10, i.r, i.s, i.t, 0)
      [] m \in {"mov.s", "abs.s", "rfr", "wfr", "neg.s"} -> W(15, 10, i.r, i.s, IndexOf(<<"mov.s", "abs.s", "?", "?", "rfr", "wfr", "neg.s">>, m) - 1, 0)
      [] In(Fp1Names, m) -> W(IndexOf(Fp1Names, m) - 1, 11, i.r, i.s, i.t, 0)
      [] m = "movi" -> LET v == Pattern(i.imm, 12) IN P2(16) * (v % 256) + W(0, 0, 10, v \div 256, i.t, 2)
      [] m \in {"addi", "addmi"} -> P2(16) * Pattern(i.imm \div Scale(m), 8) + W(0, 0, IndexOf(LsaiNames, m) - 1, i.s, i.t, 2)
      [] In(LsaiNames, m) /\ m \notin {"movi", "addi", "addmi"} -> P2(16) * (i.imm \div Scale(m)) + W(0, 0, IndexOf(LsaiNames, m) - 1, i.s, i.t, 2)
      [] m \in {"lsi", "ssi", "lsiu", "ssiu"} -> P2(16) * (i.imm \div 4) + W(0, 0, 4 * (IndexOf(<<"lsi", "ssi", "lsiu", "ssiu">>, m) - 1), i.s, i.t, 3)
      [] m = "l32r" -> 256 * (i.imm \div 4 + 65536) + 16 * i.t + 1
      [] m \in {"call0", "call4", "call8", "call12"} -> 64 * Pattern(i.imm \div 4, 18) + 16 * (IndexOf(<<"call0", "call4", "call8", "call12">>, m) - 1) + 5
      [] m = "j" -> 64 * Pattern(i.imm, 18) + 6
      [] m \in BranchZ -> P2(12) * Pattern(i.imm, 12) + 256 * i.s + 64 * (IndexOf(<<"beqz", "bnez", "bltz", "bgez">>, m) - 1) + 16 + 6
      [] m \in {"beqi", "bnei", "blti", "bgei"} -> P2(16) * Pattern(i.imm, 8) + P2(12) * (IndexOf(B4Const, i.imm2) - 1) + 256 * i.s
                                                     + 64 * (IndexOf(<<"beqi", "bnei", "blti", "bgei">>, m) - 1) + 32 + 6
      [] m \in {"bltui", "bgeui"} -> P2(16) * Pattern(i.imm, 8) + P2(12) * (IndexOf(B4ConstU, i.imm2) - 1) + 256 * i.s
                                      + 64 * (IF m = "bltui" THEN 2 ELSE 3) + 48 + 6
      [] m = "entry" -> P2(12) * (i.imm \div 8) + 256 * i.s + 48 + 6
      [] m \in {"bf", "bt"} -> P2(16) * Pattern(i.imm, 8) + P2(12) * (IF m = "bf" THEN 0 ELSE 1) + 256 * i.s + 64 + 48 + 6
      [] m \in {"loop", "loopnez", "loopgtz"} -> P2(16) * i.imm + P2(12) * (7 + IndexOf(<<"loop", "loopnez", "loopgtz">>, m)) + 256 * i.s + 64 + 48 + 6
      [] m \in {"bbci", "bbsi"} -> P2(16) * Pattern(i.imm, 8) + P2(12) * ((IF m = "bbci" THEN 6 ELSE 14) + i.imm2 \div 16) + 256 * i.s
                                    + 16 * (i.imm2 % 16) + 7
      [] In(BNames, m) -> P2(16) * Pattern(i.imm, 8) + P2(12) * (IndexOf(BNames, m) - 1) + 256 * i.s + 16 * i.t + 7
Enc16(i) ==
    LET m == i.mn IN
    CASE m = "l32i.n" -> P2(12) * (i.imm \div 4) + 256 * i.s + 16 * i.t + 8
      [] m = "s32i.n" -> P2(12) * (i.imm \div 4) + 256 * i.s + 16 * i.t + 9
      [] m = "add.n" -> P2(12) * i.r + 256 * i.s + 16 * i.t + 10
      [] m = "addi.n" -> P2(12) * i.r + 256 * i.s + 16 * (IF i.imm = -1 THEN 0 ELSE i.imm) + 11
      [] m = "movi.n" -> LET v == Pattern(i.imm, 7) IN P2(12) * (v % 16) + 256 * i.s + 16 * (v \div 16) + 12
      [] m \in {"beqz.n", "bnez.n"} -> P2(12) * (i.imm % 16) + 256 * i.s + 128 + (IF m = "bnez.n" THEN 64 ELSE 0) + 16 * (i.imm \div 16) + 12
      [] m = "mov.n" -> 256 * i.s + 16 * i.t + 13
      [] m = "ret.n" -> 15 * P2(12) + 13
      [] m = "retw.n" -> 15 * P2(12) + 16 + 13
      [] m = "break.n" -> 15 * P2(12) + 256 * i.imm + 32 + 13
      [] m = "nop.n" -> 15 * P2(12) + 48 + 13
      [] m = "ill.n" -> 15 * P2(12) + 96 + 13
Encode(i) == IF i.len = 2 THEN LET h == Enc16(i) IN <<h % 256, h \div 256>>
             ELSE LET w == Enc24(i) IN <<w % 256, (w \div 256) % 256, w \div 65536>>

-----------------------------------------------------------------------------
(* Meaning of a printed line.  Operand tokens: <<kind, number, text>>, kind    *)
(* a / f / b register of that file, i integer, l label, x anything else.      *)
(* The row is selected by the mnemonic and the *shape* of the operands (any   *)
(* register file in a register position); the register files actually         *)
(* printed are kept in rf, so that "andb a1, a2, a3" does not mean the same   *)
(* as "andb b1, b2, b3".                                                       *)
RECURSIVE PatR(_, _)
PatR(ops, k) == IF k > Len(ops) THEN "" ELSE ops[k][1] \o PatR(ops, k + 1)
Pat(ops) == PatR(ops, 1)
Gen(ch) == IF ch \in {"a", "f", "b"} THEN "g" ELSE ch
RECURSIVE ShapeR(_, _)
ShapeR(ops, k) == IF k > Len(ops) THEN "" ELSE Gen(ops[k][1]) \o ShapeR(ops, k + 1)
KindSeq(ks) ==                                        \* shape of a row's operand kinds
    CASE ks = "" -> "" [] ks \in {"aaa", "bbb", "fff", "aab", "bff", "ffa", "ffb"} -> "ggg" [] ks \in {"aa", "bb", "ff", "af", "fa"} -> "gg"
      [] ks = "a" -> "g" [] ks = "i" -> "i" [] ks = "ii" -> "ii" [] ks = "ai" -> "gi" [] ks \in {"aai", "fai", "afi"} -> "ggi"
      [] ks = "aaii" -> "ggii" [] ks = "al" -> "gl" [] ks = "l" -> "l" [] ks = "aal" -> "ggl" [] ks = "ail" -> "gil" [] ks = "bl" -> "gl"
LabelBase(mn, pc) ==
    CASE mn \in {"call0", "call4", "call8", "call12"} -> (pc - (pc % 4)) + 4
      [] mn = "l32r" -> (pc + 3) - ((pc + 3) % 4)
      [] OTHER -> pc + 4
Asm(mn, ops, sym, pc) ==
    IF mn \notin Mnemonics \/ ShapeR(ops, 1) # KindSeq(Row(mn)[2]) THEN NoAsm
    ELSE LET fs == FieldSeq(Row(mn)[3])
             Val(ch) == IF \E k \in 1..Len(fs) : fs[k] = ch THEN ops[CHOOSE k \in 1..Len(fs) : fs[k] = ch][2] ELSE NoReg
             ImmV == IF \E k \in 1..Len(fs) : fs[k] = "l" THEN sym - LabelBase(mn, pc)
                     ELSE IF \E k \in 1..Len(fs) : fs[k] = "i" THEN ops[CHOOSE k \in 1..Len(fs) : fs[k] = "i"][2] ELSE 0
             Imm2V == IF \E k \in 1..Len(fs) : fs[k] = "j" THEN ops[CHOOSE k \in 1..Len(fs) : fs[k] = "j"][2] ELSE 0 IN
         [XI0 EXCEPT !.mn = mn, !.rf = Pat(ops), !.r = Val("r"), !.s = Val("s"), !.t = Val("t"), !.imm = ImmV, !.imm2 = Imm2V,
                     !.len = IF Narrow(mn) THEN 2 ELSE 3]

-----------------------------------------------------------------------------
(* Address registers read / written (section 6: "Operation" of each          *)
(* instruction).  SAR, the boolean and floating point registers and the       *)
(* windowed register file rotation are outside these sets.                    *)
AFields(i) ==                                          \* <<field letter, register number>> of the operands in the a file
    LET ks == Row(i.mn)[2]  fs == FieldSeq(Row(i.mn)[3]) IN
    {<<fs[k], CASE fs[k] = "r" -> i.r [] fs[k] = "s" -> i.s [] fs[k] = "t" -> i.t [] OTHER -> NoReg>> :
        k \in {j \in 1..Len(fs) : fs[j] \in {"r", "s", "t"} /\
                   (CASE ks \in {"aaa", "aa", "a", "ai", "aai", "aaii", "al", "aal", "ail"} -> TRUE
                      [] ks = "aab" -> j < 3 [] ks = "fai" -> j = 2 [] ks = "afi" -> j = 1 [] ks = "af" -> j = 1
                      [] ks = "fa" -> j = 2 [] ks = "ffa" -> j = 3 [] OTHER -> FALSE)}}
WrittenLetters(mn) == Row(mn)[4]
Writes(i) ==
    {p[2] : p \in {q \in AFields(i) : q[1] = WrittenLetters(i.mn)}}
    \cup (IF WrittenLetters(i.mn) = "0" THEN {0} ELSE {})                       \* CALL0 / CALLX0: a0 := return address
    \cup (IF i.mn \in {"lsiu", "ssiu"} THEN {i.s} ELSE {})                      \* base register update
Reads(i) ==
    {p[2] : p \in {q \in AFields(i) : q[1] # WrittenLetters(i.mn)}}
    \cup (IF i.mn \in CondMove \cup {"movf", "movt"} THEN {i.r} ELSE {})        \* the destination keeps its value when the move is not done
    \cup (IF i.mn \in {"ret", "ret.n"} THEN {0} ELSE {})
\* fixed implicit state of the instruction descriptions
ImplicitR(i) == IF i.mn \in {"ret", "ret.n", "retw", "retw.n"} THEN {0} ELSE {}
ImplicitW(i) == {}

-----------------------------------------------------------------------------
(* Operand ranges per printed form, for the boundary generation (idiom G):    *)
(* <<mnemonic, operand kinds, lo, hi, step, kind of the ranged operand>>      *)
XRanges == {<<x[1], x[2], ImmRange(x[1])[1], ImmRange(x[1])[2], ImmRange(x[1])[3]>> :
               x \in {y \in Syntax : Uses(y[1], "i") \/ Uses(y[1], "l")}}
=============================================================================
