----------------------------- MODULE AllocCheck -----------------------------
(***************************************************************************)
(* C06 "register allocation never clobbers a live value" — the property   *)
(* itself, stated as a lock-step machine over ONE function:               *)
(*                                                                         *)
(*  * the SPECIFICATION program: a list of instructions over register     *)
(*    NAMES (virtual registers and pre-coloured machine registers), each   *)
(*    with ordered use / def operands, clobbered machine registers, jump   *)
(*    targets and the `ismove' flag — ppci's own annotations, which are    *)
(*    the allocator's input contract;                                      *)
(*  * the IMPLEMENTATION program: what the allocator turned it into, over  *)
(*    LOCATIONS (machine registers, or — across a spill rewrite — virtual  *)
(*    registers plus the new stack slot).                                  *)
(*                                                                         *)
(* Two uses (field `mode' of a case):                                      *)
(*  "colour"  ColourCheck.  spec = the instruction list L at the start of  *)
(*            the LAST allocation round (all spill code present, nothing   *)
(*            coloured), impl = the list emitted by alloc_frame, every     *)
(*            virtual name r living in the machine register colour[r].     *)
(*            impl must be L minus the coalesced moves that                *)
(*            remove_redundant_moves deleted (a subsequence with unchanged *)
(*            operands).                                                   *)
(*  "spill"   SpillRewriteCheck.  spec = the list before one call of       *)
(*            rewrite_program(node), impl = the list after it; locations   *)
(*            are the names themselves plus the stack slot; the inserted   *)
(*            instructions come in recorded load / store blocks, taken as  *)
(*            atomic slot -> register / register -> slot transfers.        *)
(*                                                                         *)
(* Both are walked along the LONGER list W (colour: spec; spill: impl);    *)
(* the encoder numbers instructions so that an instruction's id is its     *)
(* position in W; the shorter list S refers to these ids.                  *)
(*                                                                         *)
(* State of the machine: pc (position in W), cur (ground truth: the value  *)
(* every live NAME holds on this path, absent = undefined), holds (what    *)
(* every LOCATION holds in the implementation, absent = junk).  Values     *)
(* are identities of definitions; a move copies the identity of its        *)
(* source.  Only equalities between identities matter, so every state is   *)
(* normalised: names that are dead (by the liveness of the specification   *)
(* program, computed here) are dropped, an identity is renamed to the      *)
(* smallest live name carrying it and locations whose content no live      *)
(* name carries are junk.  This is exact for the invariants below and      *)
(* replaces the "generation bit" of the design sketch: a fresh definition  *)
(* is distinct from every older one, and paths that agree on "who holds    *)
(* whose value" merge.                                                     *)
(*                                                                         *)
(* Invariants (checked in every reachable state, all paths):               *)
(*   ReadsSeeLatestDef  every used operand u whose name has a value on     *)
(*                      this path finds exactly that value in the location *)
(*                      the implementation reads — sentence 1 of C06;      *)
(*   NoSharing          two live names with different values never sit in  *)
(*                      equal or aliasing machine registers — sentence 2;  *)
(*   CoalescedSameLoc   a removed instruction is a move whose source and   *)
(*                      destination share the location;                    *)
(*   structural clauses (impl is the right sub/super-list, operands        *)
(*                      unchanged, every emitted name coloured, inserted   *)
(*                      code only in recorded blocks).                     *)
(***************************************************************************)
EXTENDS Naturals, Sequences, FiniteSets, TLC

Mk(fn) == fn \o <<>>                      \* force a concrete tuple (TLC keeps [x \in S |-> e] lazy)
Range(s) == {s[k] : k \in 1..Len(s)}
MinOf(S) == CHOOSE x \in S : \A y \in S : x <= y
Pick(S) == CHOOSE x \in S : TRUE
Force(fn) == fn @@ [x \in {} |-> 0]       \* a concrete function value (TLC applies a lazy one in O(domain))
(* TLC passes operator arguments and LET definitions unevaluated and may evaluate them again at every  *)
(* use.  Heavy values are therefore bound with  Pick({ F(x) : x \in {e} }) : e is evaluated once and   *)
(* x stands for its value.  (Parameters here are never called `f', `pc', `cur', `holds', `chunk': a      *)
(* parameter that shares its name with a VARIABLE of the extending module makes TLC treat the           *)
(* definition as state-level and silently stops caching constant tables.)                               *)
V(fn, x) == IF x \in DOMAIN fn THEN fn[x] ELSE 0       \* 0 = undefined / junk
Big == 1000000                                           \* identities of fresh definitions: Big + k

\* an instruction is the tuple <<id, uses, defs, clobbers, jumps, ismove(0/1)>>
Id(e) == e[1]
U(e)  == e[2]
D(e)  == e[3]
C(e)  == e[4]
J(e)  == e[5]
IsMv(e) == e[6] = 1
NoIns(i) == <<i, <<>>, <<>>, <<>>, <<>>, 0>>

---------------------------------------------------------------------------
(* Register aliasing.  An architecture is [np |-> number of machine         *)
(* registers (names 1..np), sub |-> per register its DIRECT sub-registers   *)
(* (ppci: Register.aliases)].  Two machine registers overlap iff one        *)
(* contains the other (al/ax/eax/rax overlap pairwise; al and ah do not).   *)
RECURSIVE DescOf(_, _, _)
DescOf(A, p, fuel) == IF fuel = 0 THEN {}
                      ELSE LET s == {q \in Range(A.sub[p]) : q >= 1 /\ q <= A.np}
                           IN s \cup UNION {DescOf(A, q, fuel - 1) : q \in s}
DescTab(A) == Mk([p \in 1..A.np |-> DescOf(A, p, 6)])
OvFrom(A, dt) == Mk([p \in 1..A.np |-> {p} \cup dt[p] \cup {q \in 1..A.np : p \in dt[q]}])
OvOf(A) == Pick({OvFrom(A, dt) : dt \in {DescTab(A)}})
\* overlap set of a location: machine registers by the table, anything else only itself
OvL(ov, l) == IF l >= 1 /\ l <= Len(ov) THEN ov[l] ELSE {l}

---------------------------------------------------------------------------
(* Per-case tables, computed once.                                         *)
(* case = [mode, nn (number of names), W, S, colour (colour mode: per name *)
(*         the machine register, 0 = none), blocks (spill mode:            *)
(*         <<kind 1=load 2=store, reg, slot, <<ids>>>>), pre, post (colour  *)
(*         mode: ids of frame.instructions around remove_redundant_moves), *)
(*         chain (pairs of observations of the instruction list between     *)
(*         which nothing may have changed: round k -> first rewrite ->      *)
(*         ... -> round k+1)]                                               *)

RECURSIVE SIdxFrom(_, _, _, _)
SIdxFrom(S, n, k, acc) ==           \* acc[i] = index in S of the entry with id i (0 = none)
    IF k > Len(S) THEN acc
    ELSE Pick({SIdxFrom(S, n, k + 1, a2) :
               a2 \in {IF Id(S[k]) >= 1 /\ Id(S[k]) <= n THEN [acc EXCEPT ![Id(S[k])] = k] ELSE acc}})
SIdx(c, n) == SIdxFrom(c.S, n, 1, Mk([i \in 1..n |-> 0]))

\* S must be a sub-list of W: ids inside 1..n and strictly increasing
SubList(S, n) == /\ \A k \in 1..Len(S) : Id(S[k]) >= 1 /\ Id(S[k]) <= n
                 /\ \A k \in 1..(Len(S) - 1) : Id(S[k]) < Id(S[k + 1])

LocOf(c, np, r) == IF c.mode = "colour"
                   THEN (IF r <= np THEN r ELSE IF r <= Len(c.colour) THEN c.colour[r] ELSE 0)
                   ELSE r
LocSeq(c, np, s) == Mk([k \in 1..Len(s) |-> LocOf(c, np, s[k])])

BlockAt(c, i) == LET bs == {b \in 1..Len(c.blocks) : Len(c.blocks[b][4]) > 0 /\ c.blocks[b][4][1] = i}
                 IN IF bs = {} THEN 0 ELSE MinOf(bs)
BlockOK(c, n, b) ==        \* contiguous, inside W, all inserted, the transfer register is touched
    LET B == c.blocks[b]  ids == B[4]  first == ids[1]  IN
    /\ \A k \in 1..Len(ids) : ids[k] = first + k - 1 /\ ids[k] <= n
    /\ B[1] \in {1, 2}
    /\ \A k \in 1..Len(ids) : ids[k] <= n => J(c.W[ids[k]]) = <<>>
    /\ IF B[1] = 1 THEN \E k \in 1..Len(ids) : ids[k] <= n /\ B[2] \in Range(D(c.W[ids[k]]))
                   ELSE \E k \in 1..Len(ids) : ids[k] <= n /\ B[2] \in Range(U(c.W[ids[k]]))

Entry(c, ov, n, sidx, i) ==
    LET w == c.W[i]
        k == sidx[i]
        np == Len(ov)
        col == c.mode = "colour"
        specE == IF col THEN w ELSE IF k > 0 THEN c.S[k] ELSE NoIns(i)
        implE == IF col THEN (IF k > 0 THEN c.S[k] ELSE w) ELSE w     \* a deleted instruction: its own operands
        b == IF col \/ k > 0 THEN 0 ELSE BlockAt(c, i)
    IN [kind |-> IF k > 0 THEN "both" ELSE IF col THEN "spec" ELSE "impl",
        su   |-> U(specE), sd |-> D(specE),
        mu   |-> LocSeq(c, np, U(implE)), md |-> LocSeq(c, np, D(implE)),
        use  |-> Range(U(specE)), def |-> Range(D(specE)),
        clob |-> Range(C(w)),
        succ |-> IF J(w) = <<>> THEN {i + 1} ELSE {t \in Range(J(w)) : t >= 1 /\ t <= n},
        jumpsOK |-> \A t \in Range(J(w)) : t >= 1 /\ t <= n,
        move |-> IsMv(w),
        \* colour: the emitted instruction is the same instruction with the same operands;
        \* spill: same instruction, same shape (operands may have been renamed)
        same |-> IF k = 0 THEN TRUE
                 ELSE LET s == c.S[k] IN
                      /\ C(s) = C(w) /\ J(s) = J(w) /\ s[6] = w[6]
                      /\ IF col THEN U(s) = U(w) /\ D(s) = D(w)
                                ELSE Len(U(s)) = Len(U(w)) /\ Len(D(s)) = Len(D(w)),
        located |-> \A l \in Range(LocSeq(c, np, U(implE))) \cup Range(LocSeq(c, np, D(implE))) : l # 0,
        blk  |-> b,
        blkOK |-> IF b = 0 THEN TRUE ELSE BlockOK(c, n, b),
        blkLen |-> IF b = 0 THEN 0 ELSE Len(c.blocks[b][4]),
        blkDefs |-> IF b = 0 THEN {} ELSE
                    UNION {Range(D(c.W[x])) \cup Range(C(c.W[x])) : x \in {y \in Range(c.blocks[b][4]) : y <= n}}]

(* Liveness of the specification program along W (backward data-flow to    *)
(* the least fixed point):  in[i] = use[i] \cup (out[i] \ def[i]),          *)
(* out[i] = UNION in[s], s successor of i;  in[n+1] = {}.                   *)
RECURSIVE Sweep(_, _, _)
Sweep(T, live, i) ==
    IF i = 0 THEN live
    ELSE Pick({Sweep(T, nl, i - 1) :
               nl \in {[live EXCEPT ![i] = T[i].use \cup (UNION {live[s] : s \in T[i].succ} \ T[i].def)]}})
RECURSIVE LiveFix(_, _, _)
LiveFix(T, n, live) == Pick({IF nl = live THEN live ELSE LiveFix(T, n, nl) : nl \in {Sweep(T, live, n)}})
LiveIn(T, n) == LiveFix(T, n, Mk([i \in 1..(n + 1) |-> {}]))

BuildT(c, ov, n, sidx) == Mk([i \in 1..n |-> Entry(c, ov, n, sidx, i)])
BuildP(c, ov, n, T) ==
    [n |-> n, T |-> T, live |-> LiveIn(T, n), ov |-> ov, mode |-> c.mode, nn |-> c.nn,
     loc |-> Mk([r \in 1..c.nn |-> LocOf(c, Len(ov), r)]),
     slots |-> IF c.mode = "spill" THEN Mk([b \in 1..Len(c.blocks) |-> c.blocks[b]]) ELSE <<>>,
     \* ---- structural clauses, evaluated once ----
     subList |-> SubList(c.S, n),
     sameOps |-> \A i \in 1..n : T[i].same,
     jumpsOK |-> \A i \in 1..n : T[i].jumpsOK,
     located |-> \A i \in 1..n : T[i].located,
     blocksOK |-> \A i \in 1..n : T[i].blkOK,
     chainOK |-> \A k \in 1..Len(c.chain) : c.chain[k][1] = c.chain[k][2],
     removedOK |-> IF c.mode = "colour"      \* what remove_redundant_moves saw and left
                   THEN /\ c.pre = Mk([i \in 1..n |-> i])
                        /\ c.post = Mk([k \in 1..Len(c.S) |-> Id(c.S[k])])
                   ELSE TRUE]
Build(c, ov) ==
    Pick({BuildP(c, ov, Len(c.W), T) :
          T \in {Pick({BuildT(c, ov, Len(c.W), sidx) : sidx \in {SIdx(c, Len(c.W))}})}})

---------------------------------------------------------------------------
(* The lock-step machine.  P is a table built above, i a position of W.    *)

\* value written by definition number k of entry e
DefVal(e, cu, ho, k) ==
    IF e.move /\ k = 1 /\ Len(e.su) >= 1
    THEN (IF V(cu, e.su[1]) # 0 THEN V(cu, e.su[1])
          ELSE IF Len(e.mu) >= 1 /\ V(ho, e.mu[1]) # 0 THEN V(ho, e.mu[1])   \* copies whatever is there
          ELSE Big)                                                              \* ... an unknown content
    ELSE Big + k
LastDef(seq, x) == CHOOSE k \in 1..Len(seq) : seq[k] = x /\ \A m \in (k + 1)..Len(seq) : seq[m] # x

\* ground truth after executing entry e
CurAfter(P, e, cu, ho) ==
    Pick({[r \in (DOMAIN cu \ kill) \cup defs |->
              IF r \in defs THEN DefVal(e, cu, ho, LastDef(e.sd, r)) ELSE cu[r]] :
          defs \in {Range(e.sd)},
          kill \in {UNION {OvL(P.ov, c) : c \in e.clob} \cup UNION {OvL(P.ov, d) \ {d} : d \in Range(e.sd)}}})

\* a move from a name without value copies the present content of its location: give that
\* content an identity if it has none
Materialise(e, cu, ho) ==
    IF e.move /\ Len(e.su) >= 1 /\ Len(e.mu) >= 1 /\ V(cu, e.su[1]) = 0 /\ V(ho, e.mu[1]) = 0 /\ e.mu[1] # 0
    THEN [l \in DOMAIN ho \cup {e.mu[1]} |-> IF l = e.mu[1] THEN Big ELSE ho[l]]
    ELSE ho

\* implementation state after executing entry e (kind "both")
HoldsAfter(P, e, cu, ho) ==
    Pick({[l \in (DOMAIN h0 \ kill) \cup defs |->
              IF l \in defs THEN DefVal(e, cu, ho, LastDef(e.md, l)) ELSE h0[l]] :
          h0 \in {Force(Materialise(e, cu, ho))},
          defs \in {Range(e.md) \ {0}},
          kill \in {UNION {OvL(P.ov, c) : c \in e.clob}
                    \cup UNION {OvL(P.ov, l) \ {l} : l \in Range(e.md) \ {0}}}})

\* a recorded spill block starting at entry e: one atomic transfer
BlockHolds(P, e, ho) ==
    LET B == P.slots[e.blk]
        reg == B[2]
        slot == P.nn + B[3]
        kill == UNION {OvL(P.ov, l) : l \in e.blkDefs}
    IN IF B[1] = 1
       THEN [l \in (DOMAIN ho \ kill) \cup (IF V(ho, slot) # 0 THEN {reg} ELSE {}) |->
               IF l = reg THEN ho[slot] ELSE ho[l]]
       ELSE [l \in ((DOMAIN ho \ kill) \ {slot}) \cup (IF V(ho, reg) # 0 THEN {slot} ELSE {}) |->
               IF l = slot THEN ho[reg] ELSE ho[l]]

\* normal form of a state entering position j (c1, h1, live must be values, not expressions)
Norm2(c1, h1, live) ==
    [cur |-> Force([r \in live |-> MinOf({q \in live : c1[q] = c1[r]})]),
     holds |-> Force([l \in {x \in DOMAIN h1 : \E r \in live : c1[r] = h1[x]} |->
                        MinOf({q \in live : c1[q] = h1[l]})])]
Norm(P, j, c1, h1) ==
    Pick({Norm2(c1, h1, live) :
          live \in {{r \in DOMAIN c1 : r \in (IF j <= P.n THEN P.live[j] ELSE {}) /\ c1[r] # 0}}})

ExecTo(P, i, j, cu, ho) ==        \* an instruction present in both programs
    Pick({Norm(P, j, c1, h1) : c1 \in {Force(CurAfter(P, P.T[i], cu, ho))},
                                h1 \in {Force(HoldsAfter(P, P.T[i], cu, ho))}})
RemovedTo(P, i, j, cu, ho) ==     \* specification only: a coalesced move that was deleted
    Pick({Norm(P, j, c1, h1) : c1 \in {Force(CurAfter(P, P.T[i], cu, ho))},
                                h1 \in {Force(Materialise(P.T[i], cu, ho))}})
BlockTo(P, i, cu, ho) ==          \* implementation only: a load / store block
    Pick({Norm(P, i + P.T[i].blkLen, cu, h1) : h1 \in {Force(BlockHolds(P, P.T[i], ho))}})

---------------------------------------------------------------------------
(* The clauses of the property, as state predicates.                       *)

\* sentence 1: each read sees the most recent definition, on this path
ReadsOK(P, i, cu, ho) ==
    LET e == P.T[i] IN
    e.kind = "both" =>
      \A k \in 1..Len(e.su) :
         V(cu, e.su[k]) # 0 => (k <= Len(e.mu) /\ e.mu[k] # 0 /\ V(ho, e.mu[k]) = cu[e.su[k]])

\* sentence 2: two live values share (aliasing) registers only if they are copies
NoShare(P, cu) ==
    P.mode = "colour" =>
      \A a \in DOMAIN cu : \A b \in DOMAIN cu :
         (a < b /\ cu[a] # cu[b]) => P.loc[b] \notin OvL(P.ov, P.loc[a])

(* The same clause, incrementally.  Locations of names are fixed and values change only where a   *)
(* name is defined, so a forbidden pair can only appear in the state AFTER an instruction and      *)
(* must involve a name that instruction defined: given that the clause held before entry i0 was    *)
(* executed (i0 = 0: the initial state, no name has a value), it holds now iff it holds for the    *)
(* pairs (d, b) with d defined by entry i0.  (AllocCheck_MC checks that this is NoShare.)           *)
NoShareStep(P, i0, cu) ==
    (P.mode = "colour" /\ i0 >= 1 /\ i0 <= P.n) =>
      \A d \in P.T[i0].def \cap DOMAIN cu : \A b \in DOMAIN cu :
         (b # d /\ cu[b] # cu[d]) => P.loc[b] \notin OvL(P.ov, P.loc[d])

\* deleting an instruction is legal only for a move within one location
RemovedOK(P, i) ==
    LET e == P.T[i] IN
    e.kind = "spec" => /\ e.move /\ Len(e.su) = 1 /\ Len(e.sd) = 1
                       /\ P.loc[e.sd[1]] # 0 /\ P.loc[e.sd[1]] = P.loc[e.su[1]]

\* inserted instructions are reached only at the head of a recorded, well-formed block
InsertedOK(P, i) == LET e == P.T[i] IN e.kind = "impl" => (e.blk # 0 /\ e.blkOK)

(* The definition liveness is meant to satisfy (used by AllocCheck_MC):    *)
(* r is live at i iff some path from i reads r before any write of r.       *)
RECURSIVE LivePath(_, _, _, _, _)
LivePath(T, n, r, i, seen) ==
    /\ i <= n
    /\ \/ r \in T[i].use
       \/ /\ r \notin T[i].def
          /\ \E s \in T[i].succ \ seen : LivePath(T, n, r, s, seen \cup {s})
=============================================================================
