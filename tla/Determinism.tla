---------------------------- MODULE Determinism ----------------------------
(* C30 "compilation is deterministic".                                      *)
(*                                                                          *)
(* A history is the sequence of compile events a set of processes produced: *)
(*   [key |-> what was compiled (source digest, target, options, artefact), *)
(*    env |-> where (process, hash seed, what was compiled before),          *)
(*    digest |-> digest of the bytes that came out]                          *)
(* The property: AT MOST ONE digest per key, whatever the env.               *)
(*                                                                          *)
(* The machine replays a recorded history (variable l = events consumed,     *)
(* seen = the first digest observed for every key so far); the invariant     *)
(* AtMostOneDigestPerKey is evaluated after every event.                     *)
(* Determinism_MC.tla model-checks that this invariant is exactly            *)
(* "the compiler's output is a function of the key alone".                   *)
EXTENDS Naturals, Sequences, TLC

First(seen, k) == IF k \in DOMAIN seen THEN seen[k] ELSE ""
Record(seen, e) == IF e.key \in DOMAIN seen THEN seen ELSE seen @@ (e.key :> e.digest)
\* the property on a whole history
OneDigestPerKey(h) == \A a \in 1..Len(h) : \A b \in 1..Len(h) : h[a].key = h[b].key => h[a].digest = h[b].digest
=============================================================================
