------------------------------- MODULE Words -------------------------------
(* Fixed-width machine words as little-endian sequences of byte limbs       *)
(* (0..255).  Width in bytes = Len(x) \in {1,2,4,8}.  TLC integers are      *)
(* 32-bit, so all arithmetic is done limb-wise; no intermediate exceeds     *)
(* 8 * 255 * 255 + carry.                                                   *)
EXTENDS Naturals, Integers, Sequences, Bitwise

Byte == 0..255
\* TLC evaluates [i \in S |-> e] lazily and re-evaluates e on every application;
\* concatenation with <<>> forces the value into a concrete tuple once.
Mk(f) == f \o <<>>
IsWord(x) == DOMAIN x = 1..Len(x) /\ \A i \in 1..Len(x) : x[i] \in Byte
WZero(n) == Mk([i \in 1..n |-> 0])
WOnes(n) == Mk([i \in 1..n |-> 255])
WOne(n)  == Mk([i \in 1..n |-> IF i = 1 THEN 1 ELSE 0])

P2(k) == IF k = 0 THEN 1 ELSE 2 ^ k              \* k <= 30

\* small natural -> word (n < 2^31)
WFromNat(v, n) == Mk([i \in 1..n |-> IF i <= 4 THEN (v \div P2(8 * (i - 1))) % 256 ELSE 0])
\* word -> natural; only meaningful when WFitsNat(x)
WFitsNat(x) == \A i \in 1..Len(x) : (i > 4 => x[i] = 0) /\ (i = 4 => x[i] < 128)
RECURSIVE WToNatR(_, _)
WToNatR(x, i) == IF i > Len(x) \/ i > 4 THEN 0 ELSE x[i] + 256 * WToNatR(x, i + 1)
WToNat(x) == WToNatR(x, 1)
\* small integer (possibly negative) -> two's complement word
WFromInt(v, n) == IF v >= 0 THEN WFromNat(v, n)
                  ELSE LET m == WFromNat(-v - 1, n) IN Mk([i \in 1..n |-> 255 - m[i]])

WNot(x)    == Mk([i \in 1..Len(x) |-> 255 - x[i]])
WAnd(x, y) == Mk([i \in 1..Len(x) |-> x[i] & y[i]])
WOr(x, y)  == Mk([i \in 1..Len(x) |-> x[i] | y[i]])
WXor(x, y) == Mk([i \in 1..Len(x) |-> x[i] ^^ y[i]])

RECURSIVE AddR(_, _, _, _, _)
AddR(x, y, c, i, acc) ==
    IF i > Len(x) THEN acc
    ELSE LET s == x[i] + y[i] + c IN AddR(x, y, s \div 256, i + 1, Append(acc, s % 256))
WAddC(x, y, c) == AddR(x, y, c, 1, <<>>)
WAdd(x, y) == WAddC(x, y, 0)
WSub(x, y) == WAddC(x, WNot(y), 1)
WNeg(x)    == WAddC(WZero(Len(x)), WNot(x), 1)

SignBit(x) == x[Len(x)] \div 128
IsNegW(x)  == SignBit(x) = 1
WIsZero(x) == \A i \in 1..Len(x) : x[i] = 0

\* unsigned / signed comparison
RECURSIVE LtUR(_, _, _)
LtUR(x, y, i) == IF i = 0 THEN FALSE
                 ELSE IF x[i] # y[i] THEN x[i] < y[i] ELSE LtUR(x, y, i - 1)
WLtU(x, y) == LtUR(x, y, Len(x))
WLtS(x, y) == IF SignBit(x) # SignBit(y) THEN SignBit(x) = 1 ELSE WLtU(x, y)
WLt(x, y, signed) == IF signed THEN WLtS(x, y) ELSE WLtU(x, y)

\* column k (1-based) of the school-book product, before carries
RECURSIVE ColSum(_, _, _, _)
ColSum(x, y, k, i) == IF i > k THEN 0 ELSE x[i] * y[k + 1 - i] + ColSum(x, y, k, i + 1)
RECURSIVE MulR(_, _, _, _, _)
MulR(x, y, k, c, acc) ==
    IF k > Len(x) THEN acc
    ELSE LET s == ColSum(x, y, k, 1) + c IN MulR(x, y, k + 1, s \div 256, Append(acc, s % 256))
WMul(x, y) == MulR(x, y, 1, 0, <<>>)             \* low Len(x) bytes of the product

\* shifts by 0 <= n < 8*Len(x)
WShl(x, n) == LET q == n \div 8  r == n % 8  w == Len(x) IN
    Mk([i \in 1..w |-> LET lo == IF i - q >= 1 THEN (x[i - q] * P2(r)) % 256 ELSE 0
                           hi == IF i - q - 1 >= 1 THEN x[i - q - 1] \div P2(8 - r) ELSE 0
                       IN lo + hi])
ShrFill(x, n, fill) == LET q == n \div 8  r == n % 8  w == Len(x) IN
    Mk([i \in 1..w |-> LET a == IF i + q <= w THEN x[i + q] ELSE fill
                           b == IF i + q + 1 <= w THEN x[i + q + 1] ELSE fill
                       IN (a \div P2(r)) + ((b * P2(8 - r)) % 256)])
WShrL(x, n) == ShrFill(x, n, 0)
WShrA(x, n) == ShrFill(x, n, IF IsNegW(x) THEN 255 ELSE 0)
WRol(x, n) == LET w == 8 * Len(x)  m == n % w IN
              IF m = 0 THEN x ELSE WOr(WShl(x, m), WShrL(x, w - m))
WRor(x, n) == LET w == 8 * Len(x)  m == n % w IN
              IF m = 0 THEN x ELSE WOr(WShrL(x, m), WShl(x, w - m))

Bit(x, k) == (x[(k \div 8) + 1] \div P2(k % 8)) % 2      \* k-th bit, 0-based

\* unsigned long division, bit by bit from the top: returns <<quotient, remainder>>
RECURSIVE DivR(_, _, _, _, _)
DivR(x, y, k, q, r) ==
    IF k < 0 THEN <<q, r>>
    ELSE LET r2 == LET s == WShl(r, 1) IN Mk([s EXCEPT ![1] = @ + Bit(x, k)])
             ge == ~WLtU(r2, y)
         IN DivR(x, y, k - 1,
                 IF ge THEN Mk([q EXCEPT ![(k \div 8) + 1] = @ + P2(k % 8)]) ELSE q,
                 IF ge THEN WSub(r2, y) ELSE r2)
WDivModU(x, y) == DivR(x, y, 8 * Len(x) - 1, WZero(Len(x)), WZero(Len(x)))
WAbs(x) == IF IsNegW(x) THEN WNeg(x) ELSE x
\* truncating signed division (C semantics); y # 0 and not (MIN / -1)
WDivS(x, y) == LET d == WDivModU(WAbs(x), WAbs(y))[1] IN IF IsNegW(x) # IsNegW(y) THEN WNeg(d) ELSE d
WRemS(x, y) == LET m == WDivModU(WAbs(x), WAbs(y))[2] IN IF IsNegW(x) THEN WNeg(m) ELSE m
WDiv(x, y, signed) == IF signed THEN WDivS(x, y) ELSE WDivModU(x, y)[1]
WRem(x, y, signed) == IF signed THEN WRemS(x, y) ELSE WDivModU(x, y)[2]
WIsMin(x) == x[Len(x)] = 128 /\ \A i \in 1..(Len(x) - 1) : x[i] = 0
WIsMinusOne(x) == \A i \in 1..Len(x) : x[i] = 255

\* resize to n bytes from a source of given signedness
WResize(x, n, signed) == LET f == IF signed /\ IsNegW(x) THEN 255 ELSE 0 IN
    Mk([i \in 1..n |-> IF i <= Len(x) THEN x[i] ELSE f])
=============================================================================
