------------------------------ MODULE BitSeq ------------------------------
(* Bit strings of any width as sequences over {0,1}, least significant bit  *)
(* first (index 1 = bit 0), and unbounded integers ("ZInt") as sign +       *)
(* normalised magnitude bit string.  TLC integers are 32 bit, so everything *)
(* that may exceed 2^31 lives here.                                         *)
EXTENDS Naturals, Integers, Sequences, FiniteSets

Bit == {0, 1}
BV(w) == [1..w -> Bit]
IsBV(b) == DOMAIN b = 1..Len(b) /\ \A i \in 1..Len(b) : b[i] \in Bit

Zeros(w) == [i \in 1..w |-> 0]
Ones(w)  == [i \in 1..w |-> 1]

Pow2(n) == IF n = 0 THEN 1 ELSE 2 ^ n          \* n <= 30 only

\* value of a short bit string as a TLC integer (Len(b) <= 30)
RECURSIVE Val(_)
Val(b) == IF b = <<>> THEN 0 ELSE b[1] + 2 * Val(Tail(b))

\* w-bit string of a small natural
NatBits(n, w) == [i \in 1..w |-> IF i <= 31 THEN (n \div Pow2(i - 1)) % 2 ELSE 0]

Not(b)     == [i \in 1..Len(b) |-> 1 - b[i]]
And(a, b)  == [i \in 1..Len(a) |-> a[i] * b[i]]
Or(a, b)   == [i \in 1..Len(a) |-> IF a[i] + b[i] > 0 THEN 1 ELSE 0]
Xor(a, b)  == [i \in 1..Len(a) |-> (a[i] + b[i]) % 2]

\* carry into position i (1-based) when adding a + b + cin
RECURSIVE CarryInto(_, _, _, _)
CarryInto(a, b, cin, i) ==
    IF i = 1 THEN cin
    ELSE LET c == CarryInto(a, b, cin, i - 1)
         IN (a[i - 1] + b[i - 1] + c) \div 2

\* iterative adder (linear): returns <<sum bits, carry out>>
RECURSIVE AddAcc(_, _, _, _, _)
AddAcc(a, b, c, i, acc) ==
    IF i > Len(a) THEN <<acc, c>>
    ELSE LET s == a[i] + b[i] + c
         IN AddAcc(a, b, s \div 2, i + 1, Append(acc, s % 2))
AddC(a, b, cin) == AddAcc(a, b, cin, 1, <<>>)
Add(a, b) == AddC(a, b, 0)[1]                   \* mod 2^w
Inc(a)    == AddC(a, Zeros(Len(a)), 1)[1]
Neg(a)    == Inc(Not(a))                        \* two's complement negate mod 2^w
Sub(a, b) == AddC(a, Not(b), 1)[1]

IsZero(b) == \A i \in 1..Len(b) : b[i] = 0

\* unsigned comparison of equal-width strings
LtU(a, b) == \E i \in 1..Len(a) : a[i] < b[i] /\ \A j \in (i + 1)..Len(a) : a[j] = b[j]
LeU(a, b) == a = b \/ LtU(a, b)

\* resize: truncate or zero-extend to w bits
ZExt(b, w) == [i \in 1..w |-> IF i <= Len(b) THEN b[i] ELSE 0]
SExt(b, w) == [i \in 1..w |-> IF i <= Len(b) THEN b[i] ELSE b[Len(b)]]

\* strip high zero bits
RECURSIVE Norm(_)
Norm(b) == IF b = <<>> THEN <<>>
           ELSE IF b[Len(b)] = 0 THEN Norm(SubSeq(b, 1, Len(b) - 1)) ELSE b

Shl(b, n) == [i \in 1..Len(b) |-> IF i - n >= 1 THEN b[i - n] ELSE 0]
ShrL(b, n) == [i \in 1..Len(b) |-> IF i + n <= Len(b) THEN b[i + n] ELSE 0]
ShrA(b, n) == [i \in 1..Len(b) |-> IF i + n <= Len(b) THEN b[i + n] ELSE b[Len(b)]]

RotL(b, c) == LET w == Len(b) IN [i \in 1..w |-> b[((i - 1 + w - (c % w)) % w) + 1]]
RotR(b, c) == LET w == Len(b) IN [i \in 1..w |-> b[((i - 1 + c) % w) + 1]]
Rev(b)     == LET w == Len(b) IN [i \in 1..w |-> b[w + 1 - i]]

SetOnes(b) == {i \in 1..Len(b) : b[i] = 1}
MaxOf(S) == CHOOSE x \in S : \A y \in S : y <= x
MinOf(S) == CHOOSE x \in S : \A y \in S : x <= y
Clz(b) == IF SetOnes(b) = {} THEN Len(b) ELSE Len(b) - MaxOf(SetOnes(b))
Ctz(b) == IF SetOnes(b) = {} THEN Len(b) ELSE MinOf(SetOnes(b)) - 1
Pop(b) == Cardinality(SetOnes(b))

(* ---- unbounded integers ---------------------------------------------- *)
\* ZInt == [neg : BOOLEAN, mag : normalised bit string]; zero is not negative
IsZInt(z) == /\ z.neg \in BOOLEAN /\ IsBV(z.mag) /\ Norm(z.mag) = z.mag
             /\ (z.mag = <<>> => ~z.neg)
ZOfNat(n) == [neg |-> FALSE, mag |-> Norm(NatBits(n, 31))]
ZOfInt(n) == IF n >= 0 THEN ZOfNat(n) ELSE [neg |-> TRUE, mag |-> Norm(NatBits(-n, 31))]
ZVal(z) == IF z.neg THEN -Val(z.mag) ELSE Val(z.mag)     \* small only

\* z mod 2^w as a w-bit string
ZToUnsigned(z, w) == IF z.neg THEN Neg(ZExt(z.mag, w)) ELSE ZExt(z.mag, w)
\* the w-bit string u read as two's complement
BVToSignedZ(u) == LET w == Len(u) IN
    IF w > 0 /\ u[w] = 1 THEN [neg |-> TRUE, mag |-> Norm(Neg(u))]
    ELSE [neg |-> FALSE, mag |-> Norm(u)]
BVToUnsignedZ(u) == [neg |-> FALSE, mag |-> Norm(u)]

\* -(2^(w-1)) <= z < 2^(w-1)
ZFitsSigned(z, w) ==
    IF z.neg THEN \/ Len(z.mag) <= w - 1
                  \/ (Len(z.mag) = w /\ \A i \in 1..(w - 1) : z.mag[i] = 0)
    ELSE Len(z.mag) <= w - 1
\* 0 <= z < 2^w
ZFitsUnsigned(z, w) == ~z.neg /\ Len(z.mag) <= w
=============================================================================
