----------------------------- MODULE IHexText -----------------------------
(* Vocabulary shared by the two record-format readers IHex.tla (Intel HEX)  *)
(* and SRec.tla (Motorola S-record):                                        *)
(*   - text lines are sequences of character codes (0..255);                *)
(*   - hexadecimal digit pairs <-> bytes, byte sums;                        *)
(*   - 32-bit addresses as pairs <<hi, lo>> (TLC integers are 32 bit, so a  *)
(*     number >= 2^31 is never formed); `M` is the modulus of the low half  *)
(*     (65536 in the real formats, a small number in the toy models);       *)
(*   - memory regions [hi, lo, data], their canonical (merged) form;        *)
(*   - covers: sorted sequences of disjoint, non-adjacent intervals         *)
(*     [f, t) of addresses - the "which bytes have been written" summary    *)
(*     of a streaming reader.                                               *)
EXTENDS Integers, Sequences, FiniteSets, TLC

\* ---------------------------------------------------------------- hex text
HexDigit(c) == IF c >= 48 /\ c <= 57 THEN c - 48             \* '0'..'9'
               ELSE IF c >= 65 /\ c <= 70 THEN c - 55        \* 'A'..'F'
               ELSE IF c >= 97 /\ c <= 102 THEN c - 87       \* 'a'..'f'
               ELSE -1
\* digit values of s[from..] (-1 for a character that is no hexadecimal digit)
Digits(s, from) == [k \in 1..(Len(s) - from + 1) |-> HexDigit(s[from + k - 1])]
\* a non-empty even number of hexadecimal digits
AreHexPairs(d) == Len(d) >= 2 /\ Len(d) % 2 = 0 /\ \A k \in 1..Len(d) : d[k] >= 0
DigitsToBytes(d) == [k \in 1..(Len(d) \div 2) |-> 16 * d[2 * k - 1] + d[2 * k]]
UDigit(d) == IF d < 10 THEN 48 + d ELSE 55 + d
LDigit(d) == IF d < 10 THEN 48 + d ELSE 87 + d
\* the text of a byte sequence (upper: use 'A'..'F')
HexOfBytes(b, upper) == [k \in 1..(2 * Len(b)) |->
                            LET v == b[(k + 1) \div 2]
                                d == IF k % 2 = 1 THEN v \div 16 ELSE v % 16
                            IN IF upper THEN UDigit(d) ELSE LDigit(d)]
IsByteSeq(b) == \A k \in 1..Len(b) : b[k] \in 0..255

RECURSIVE SumTo(_, _)
SumTo(b, n) == IF n = 0 THEN 0 ELSE b[n] + SumTo(b, n - 1)
Sum(b) == SumTo(b, Len(b))                       \* Len(b) <= 300 in every use

\* ---------------------------------------------------------------- addresses
AddrLt(a, b) == a[1] < b[1] \/ (a[1] = b[1] /\ a[2] < b[2])
AddrLe(a, b) == a = b \/ AddrLt(a, b)
AddrMin(a, b) == IF AddrLt(b, a) THEN b ELSE a
AddrMax(a, b) == IF AddrLt(a, b) THEN b ELSE a
\* a + n for 0 <= n < 2^30; the high half is NOT reduced (the caller knows the
\* size of its address space)
AddrPlus(a, n, M) == <<a[1] + ((a[2] + n) \div M), (a[2] + n) % M>>
\* a - b as a TLC integer; only used when the high halves are close
AddrDiff(a, b, M) == (a[1] - b[1]) * M + (a[2] - b[2])

\* ------------------------------------------------------------------ regions
A(r) == <<r.hi, r.lo>>
RegEnd(r, M) == AddrPlus(A(r), Len(r.data), M)
Reg(a, d) == [hi |-> a[1], lo |-> a[2], data |-> d]
RegOverlap(r, s, M) == AddrLt(A(r), RegEnd(s, M)) /\ AddrLt(A(s), RegEnd(r, M))
\* the domain of both writers: non-empty, pairwise disjoint regions inside the
\* address space of Top high halves
InDomain(regs, M, Top) ==
    /\ \A k \in 1..Len(regs) :
          /\ Len(regs[k].data) > 0 /\ IsByteSeq(regs[k].data)
          /\ regs[k].hi \in 0..(Top - 1) /\ regs[k].lo \in 0..(M - 1)
          /\ AddrLe(RegEnd(regs[k], M), <<Top, 0>>)
    /\ \A j, k \in 1..Len(regs) : j < k => ~RegOverlap(regs[j], regs[k], M)

RECURSIVE MergeSorted(_, _, _, _)
MergeSorted(s, k, acc, M) ==
    IF k > Len(s) THEN acc
    ELSE IF acc # <<>> /\ RegEnd(acc[Len(acc)], M) = A(s[k])
         THEN MergeSorted(s, k + 1, [acc EXCEPT ![Len(acc)].data = @ \o s[k].data], M)
         ELSE MergeSorted(s, k + 1, Append(acc, s[k]), M)
\* canonical form of a set of disjoint regions given in any order: sorted by
\* address, adjacent regions joined
Merge(regs, M) == MergeSorted(SortSeq(regs, LAMBDA x, y : AddrLt(A(x), A(y))), 1, <<>>, M)

\* the memory map a region sequence denotes, as a set of <<hi, lo, byte>> cells
CellsOfRegion(r, M) == {LET a == AddrPlus(A(r), k - 1, M) IN <<a[1], a[2], r.data[k]>> : k \in 1..Len(r.data)}
Cells(regs, M) == UNION {CellsOfRegion(regs[k], M) : k \in 1..Len(regs)}
Bytes(regs) == Sum([k \in 1..Len(regs) |-> Len(regs[k].data)])

\* region r (a piece of decoded data) lies inside one region of `exp` and has
\* the bytes that region has there
PieceIn(r, e, M) ==
    /\ AddrLe(A(e), A(r)) /\ AddrLe(RegEnd(r, M), RegEnd(e, M))
    /\ LET o == AddrDiff(A(r), A(e), M) IN SubSeq(e.data, o + 1, o + Len(r.data)) = r.data
PieceMatches(r, exp, M) == \E k \in 1..Len(exp) : PieceIn(r, exp[k], M)

\* ------------------------------------------------------------------- covers
Iv(f, t) == [f |-> f, t |-> t]
CovOverlaps(cov, f, t) == \E k \in 1..Len(cov) : AddrLt(cov[k].f, t) /\ AddrLt(f, cov[k].t)
\* add [f, t) (f < t); intervals that touch or overlap it are coalesced
CovAdd(cov, f, t) ==
    LET before == SelectSeq(cov, LAMBDA v : AddrLt(v.t, f))
        after  == SelectSeq(cov, LAMBDA v : AddrLt(t, v.f))
        touch  == SelectSeq(cov, LAMBDA v : ~AddrLt(v.t, f) /\ ~AddrLt(t, v.f))
        nf     == IF touch = <<>> THEN f ELSE AddrMin(f, touch[1].f)
        nt     == IF touch = <<>> THEN t ELSE AddrMax(t, touch[Len(touch)].t)
    IN before \o <<Iv(nf, nt)>> \o after
\* the cover of a canonical region sequence
CovOfRegions(mregs, M) == [k \in 1..Len(mregs) |-> Iv(A(mregs[k]), RegEnd(mregs[k], M))]
IsCover(cov) == /\ \A k \in 1..Len(cov) : AddrLt(cov[k].f, cov[k].t)
                /\ \A k \in 1..(Len(cov) - 1) : AddrLt(cov[k].t, cov[k + 1].f)
=============================================================================
