------------------------------- MODULE Reloc -------------------------------
(* Meaning of ppci's relocation types (property C11), read off the ISA        *)
(* manuals: for a relocation of type t applied at address P (the address of   *)
(* the first byte of the field / instruction) against symbol address S with   *)
(* addend A,                                                                  *)
(*   Designates(arch, t, bytes, P)  the address the patched field denotes     *)
(*                                  when the bytes are decoded per the manual *)
(*   FieldOK(arch, t, bytes, S, A, P)  the field is right: Designates = S + A *)
(*                                  (for the %hi / %lo halves: the half of    *)
(*                                  S + A, resp. S + A - P, it must hold)     *)
(*   Representable(arch, t, S, A, P)   S + A (resp. S + A - P) can be encoded *)
(*   Preserved(arch, t, before, after) no bit outside the field changed       *)
(*   BranchOK(arch, t, after, off, S, P)  a control-transfer instruction      *)
(*                                  still decodes to a branch, with target S  *)
(* All addresses are 64-bit two's-complement words (8 little-endian byte      *)
(* limbs, Words.tla), so the 32- and 64-bit fields of x86-64 are covered;     *)
(* immediates are bit strings (LSB first).                                    *)
(* Types modelled:                                                            *)
(*   data (all targets)  absaddr16 absaddr32 absaddr64                        *)
(*   x86_64   rel32 abs32 abs64 jmp8                                          *)
(*   riscv    b_imm12 b_imm20 abs32_imm20 abs32_imm12 rel_imm20 rel_imm12     *)
(*   arm      imm24 ldr_imm12 adr_imm12                                       *)
(*   thumb    lit8 wrap_new11 rel8 bl_imm11 b_imm11_imm6                      *)
EXTENDS Words

AW == 8                                   \* address width in limbs
W(v) == WFromInt(v, AW)                   \* |v| < 2^31
IsAddr(x) == Len(x) = AW
WZ == WZero(AW)

(* bit strings, least significant bit first *)
BitsAt(bytes, pos) == Mk([k \in 1..Len(pos) |-> IF pos[k] < 0 THEN 0 ELSE Bit(bytes, pos[k])])
PosRange(lo, n) == Mk([k \in 1..n |-> lo + k - 1])          \* positions lo .. lo+n-1
Zeros(n) == Mk([k \in 1..n |-> -1])                      \* implicit zero bits of an immediate
BitOr0(bs, k) == IF k <= Len(bs) THEN bs[k] ELSE 0
\* the value of a bit string as an address-wide word: zero- / sign-extended
WOfBitsFill(bs, fill) == Mk([j \in 1..AW |->
    LET b(q) == IF 8 * (j - 1) + q <= Len(bs) THEN bs[8 * (j - 1) + q] ELSE fill IN
    b(1) + 2 * b(2) + 4 * b(3) + 8 * b(4) + 16 * b(5) + 32 * b(6) + 64 * b(7) + 128 * b(8)])
WOfBitsU(bs) == WOfBitsFill(bs, 0)
WOfBitsS(bs) == WOfBitsFill(bs, bs[Len(bs)])
\* the low n bits of a word, as a bit string
LowBits(x, n) == Mk([k \in 1..n |-> Bit(x, k - 1)])
\* x fits a signed / unsigned field of n bits (n < 64)
InS(x, n) == WShrA(WShl(x, 8 * AW - n), 8 * AW - n) = x
InU(x, n) == WIsZero(WShrL(x, n))
Aligned(x, n) == WIsZero(WAnd(x, W(n - 1)))              \* n a power of two
AlignDown(x, n) == WAnd(x, WNot(W(n - 1)))
Is32(x) == InU(x, 32)                                    \* an address of a 32-bit target

-----------------------------------------------------------------------------
(* field layouts: for each immediate bit (LSB first) the bit position inside  *)
(* the relocation site (bit k of the site = bit k%8 of byte k\div 8), or -1   *)
(* for an implicit zero                                                       *)
K(arch, t) == <<arch, t>>
IsData(t) == t \in {"absaddr16", "absaddr32", "absaddr64"}

RelSize(t) ==
    CASE t = "absaddr16" -> 2 [] t = "absaddr32" -> 4 [] t = "absaddr64" -> 8
      [] t = "rel32" -> 4 [] t = "abs32" -> 4 [] t = "abs64" -> 8 [] t = "jmp8" -> 1
      [] t \in {"b_imm12", "b_imm20", "abs32_imm20", "abs32_imm12", "rel_imm20", "rel_imm12"} -> 4
      [] t \in {"imm24", "ldr_imm12", "adr_imm12"} -> 4
      [] t \in {"lit8", "wrap_new11", "rel8"} -> 2
      [] t \in {"bl_imm11", "b_imm11_imm6"} -> 4
      [] OTHER -> 0
Modelled(arch, t) ==
    \/ IsData(t)
    \/ arch = "x86_64" /\ t \in {"rel32", "abs32", "abs64", "jmp8"}
    \/ arch = "riscv" /\ t \in {"b_imm12", "b_imm20", "abs32_imm20", "abs32_imm12", "rel_imm20", "rel_imm12"}
    \/ arch = "arm" /\ t \in {"imm24", "ldr_imm12", "adr_imm12"}
    \/ arch = "thumb" /\ t \in {"lit8", "wrap_new11", "rel8", "bl_imm11", "b_imm11_imm6"}

ImmPos(arch, t) ==
    CASE t = "absaddr16" -> PosRange(0, 16) [] t = "absaddr32" -> PosRange(0, 32) [] t = "absaddr64" -> PosRange(0, 64)
      [] t = "rel32" -> PosRange(0, 32) [] t = "abs32" -> PosRange(0, 32) [] t = "abs64" -> PosRange(0, 64)
      [] t = "jmp8" -> PosRange(0, 8)
      \* RISC-V B-type: imm[12|10:5] = inst[31|30:25], imm[4:1|11] = inst[11:8|7]
      [] t = "b_imm12" -> Zeros(1) \o PosRange(8, 4) \o PosRange(25, 6) \o <<7>> \o <<31>>
      \* RISC-V J-type: imm[20|10:1|11|19:12] = inst[31|30:21|20|19:12]
      [] t = "b_imm20" -> Zeros(1) \o PosRange(21, 10) \o <<20>> \o PosRange(12, 8) \o <<31>>
      \* U-type imm[31:12] = inst[31:12];  I-type imm[11:0] = inst[31:20]
      [] t \in {"abs32_imm20", "rel_imm20"} -> PosRange(12, 20)
      [] t \in {"abs32_imm12", "rel_imm12"} -> PosRange(20, 12)
      \* ARM B / BL: imm24 = inst[23:0], offset = SignExtend(imm24:'00')
      [] t = "imm24" -> Zeros(2) \o PosRange(0, 24)
      [] t \in {"ldr_imm12", "adr_imm12"} -> PosRange(0, 12)
      \* Thumb LDR (literal) T1: imm8:'00';  B T2: imm11:'0';  B<c> T1: imm8:'0'
      [] t = "lit8" -> Zeros(2) \o PosRange(0, 8)
      [] t = "wrap_new11" -> Zeros(1) \o PosRange(0, 11)
      [] arch = "thumb" /\ t = "rel8" -> Zeros(1) \o PosRange(0, 8)
      \* Thumb-2 B<c>.W T3: offset = SignExtend(S:J2:J1:imm6:imm11:'0'); hw1 = site bits 0..15, hw2 = 16..31
      [] t = "b_imm11_imm6" -> Zeros(1) \o PosRange(16, 11) \o PosRange(0, 6) \o <<29>> \o <<27>> \o <<10>>
      \* Thumb-2 BL T1 / B.W T4: imm11, imm10 (I1, I2, S are handled in Thumb32Offset)
      [] t = "bl_imm11" -> Zeros(1) \o PosRange(16, 11) \o PosRange(0, 10)
      [] OTHER -> <<>>
\* the bits a relocation of this type may write
FieldBits(arch, t) ==
    LET pos == ImmPos(arch, t) IN
    ({pos[k] : k \in 1..Len(pos)} \ {-1})
    \cup (CASE t = "ldr_imm12" -> {23}                \* U: add / subtract the offset
            [] t = "adr_imm12" -> {22, 23}            \* opcode ADD (0100) / SUB (0010)
            [] t = "bl_imm11" -> {10, 27, 29}         \* S, J2, J1
            [] OTHER -> {})
Preserved(arch, t, before, after) ==
    /\ Len(before) = RelSize(t) /\ Len(after) = RelSize(t)
    /\ LET fb == FieldBits(arch, t) IN
       \A k \in (0..(8 * RelSize(t) - 1)) \ fb : Bit(after, k) = Bit(before, k)

-----------------------------------------------------------------------------
(* decoding *)
Imm(arch, t, bytes) == BitsAt(bytes, ImmPos(arch, t))
\* Thumb-2 BL / B.W: I1 = NOT(J1 EOR S), I2 = NOT(J2 EOR S), offset = SignExtend(S:I1:I2:imm10:imm11:'0')
Thumb32Offset(bytes) ==
    LET s == Bit(bytes, 10)  j1 == Bit(bytes, 29)  j2 == Bit(bytes, 27)
        i1 == 1 - ((j1 + s) % 2)  i2 == 1 - ((j2 + s) % 2) IN
    WOfBitsS(Imm("thumb", "bl_imm11", bytes) \o <<i2, i1, s>>)
\* ARMExpandImm: imm12 = rot:imm8, value = ROR(ZeroExtend(imm8, 32), 2 * rot)
ArmExpandImm(bits12) ==
    LET imm8 == bits12[1] + 2 * bits12[2] + 4 * bits12[3] + 8 * bits12[4] + 16 * bits12[5] + 32 * bits12[6]
                + 64 * bits12[7] + 128 * bits12[8]
        rot == bits12[9] + 2 * bits12[10] + 4 * bits12[11] + 8 * bits12[12] IN
    WResize(WRor(<<imm8, 0, 0, 0>>, 2 * rot), AW, FALSE)

\* the pc-relative displacement (or absolute value) encoded in the field, as a signed word
Displacement(arch, t, bytes) ==
    CASE t \in {"rel32", "abs32", "jmp8", "b_imm12", "b_imm20", "imm24", "wrap_new11", "b_imm11_imm6"}
             -> WOfBitsS(Imm(arch, t, bytes))
      [] arch = "thumb" /\ t = "rel8" -> WOfBitsS(Imm(arch, t, bytes))
      [] t = "bl_imm11" -> Thumb32Offset(bytes)
      [] t = "ldr_imm12" -> LET v == WOfBitsU(Imm(arch, t, bytes)) IN IF Bit(bytes, 23) = 1 THEN v ELSE WNeg(v)
      [] t = "adr_imm12" -> LET v == ArmExpandImm(Imm(arch, t, bytes)) IN
                            IF Bit(bytes, 23) = 1 /\ Bit(bytes, 22) = 0 THEN v ELSE WNeg(v)
      [] OTHER -> WOfBitsU(Imm(arch, t, bytes))       \* absaddr*, abs64, lit8
\* the base a displacement is relative to (ISA manuals: "PC" of the instruction at P)
Base(arch, t, Pw) ==
    CASE t = "rel32" -> Pw                                 \* relocation-level: relative to the field itself
      [] t = "jmp8" -> WAdd(Pw, W(1))                      \* rel8 is relative to the next instruction
      [] t \in {"b_imm12", "b_imm20"} -> Pw                \* RISC-V: relative to the branch
      [] t \in {"imm24", "ldr_imm12", "adr_imm12"} -> WAdd(AlignDown(Pw, 4), W(8))   \* ARM: PC = P + 8
      [] t = "lit8" -> AlignDown(WAdd(Pw, W(4)), 4)        \* Thumb LDR literal: Align(PC, 4), PC = P + 4
      [] t \in {"wrap_new11", "bl_imm11", "b_imm11_imm6"} -> WAdd(Pw, W(4))          \* Thumb: PC = P + 4
      [] arch = "thumb" /\ t = "rel8" -> WAdd(Pw, W(4))
      [] OTHER -> WZ                                       \* absolute
Designates(arch, t, bytes, Pw) == WAdd(Base(arch, t, Pw), Displacement(arch, t, bytes))

Split(t) == t \in {"abs32_imm20", "abs32_imm12", "rel_imm20", "rel_imm12"}
\* %hi / %lo of a 32-bit value v:  hi = (v + 0x800)[31:12], lo = v[11:0]  (hi << 12) + SignExtend(lo) = v
Hi20(v) == LowBits(WShrL(WAdd(v, W(2048)), 12), 20)
Lo12(v) == LowBits(v, 12)
\* the value the two halves of an absolute / pc-relative pair stand for.  ppci's rel_imm12 sits on the
\* instruction after the auipc (la rd, sym = auipc + addi): it is relative to P - 4.
SplitValue(t, Sw, Aw, Pw) ==
    CASE t \in {"abs32_imm20", "abs32_imm12"} -> WAdd(Sw, Aw)
      [] t = "rel_imm20" -> WSub(WAdd(Sw, Aw), Pw)
      [] t = "rel_imm12" -> WSub(WAdd(Sw, Aw), WSub(Pw, W(4)))
FieldOK(arch, t, bytes, Sw, Aw, Pw) ==
    IF Split(t)
    THEN Imm(arch, t, bytes) = (IF t \in {"abs32_imm20", "rel_imm20"} THEN Hi20(SplitValue(t, Sw, Aw, Pw))
                                ELSE Lo12(SplitValue(t, Sw, Aw, Pw)))
    ELSE Designates(arch, t, bytes, Pw) = WAdd(Sw, Aw)

-----------------------------------------------------------------------------
(* representability: the set of values the field can take, per the manuals *)
Disp(arch, t, Sw, Aw, Pw) == WSub(WAdd(Sw, Aw), Base(arch, t, Pw))
\* some 8-bit value rotated right by an even amount (ARM modified immediate)
ArmEncodable(v) == InU(v, 32) /\ \E rot \in 0..15 : InU(WResize(WRol(WResize(v, 4, FALSE), 2 * rot), AW, FALSE), 8)
Representable(arch, t, Sw, Aw, Pw) ==
    LET v == WAdd(Sw, Aw)
        d == Disp(arch, t, Sw, Aw, Pw) IN
    CASE t = "absaddr16" -> InU(v, 16)
      [] t = "absaddr32" -> InU(v, 32)
      [] t = "absaddr64" -> TRUE
      [] t = "abs64" -> TRUE
      [] t = "abs32" -> InS(v, 32)              \* disp32 / imm32 of x86-64 is sign-extended to 64 bits
      [] t = "rel32" -> InS(d, 32)
      [] t = "jmp8" -> InS(d, 8)
      [] t = "b_imm12" -> InS(d, 13) /\ Aligned(d, 2)
      [] t = "b_imm20" -> InS(d, 21) /\ Aligned(d, 2)
      [] Split(t) -> Is32(v) /\ Is32(Pw)
      [] t = "imm24" -> InS(d, 26) /\ Aligned(d, 4)
      [] t = "ldr_imm12" -> InU(d, 12) \/ InU(WNeg(d), 12)
      [] t = "adr_imm12" -> ArmEncodable(d) \/ ArmEncodable(WNeg(d))
      [] t = "lit8" -> InU(d, 10) /\ Aligned(d, 4)
      [] t = "wrap_new11" -> InS(d, 12) /\ Aligned(d, 2)
      [] arch = "thumb" /\ t = "rel8" -> InS(d, 9) /\ Aligned(d, 2)
      [] t = "bl_imm11" -> InS(d, 25) /\ Aligned(d, 2)
      [] t = "b_imm11_imm6" -> InS(d, 21) /\ Aligned(d, 2)
      [] OTHER -> FALSE

-----------------------------------------------------------------------------
(* control transfers: the patched instruction is still a branch and goes to S *)
\* sec = all bytes of the section after the relocation, off = offset of the field in it
IsBranch(arch, t, sec, off) ==
    CASE t = "rel32" -> \/ off >= 1 /\ sec[off] \in {232, 233}                       \* E8 call, E9 jmp
                        \/ off >= 2 /\ sec[off - 1] = 15 /\ sec[off] \in 128..143    \* 0F 8x jcc
      [] t = "jmp8" -> off >= 1 /\ sec[off] = 235                                    \* EB
      [] t = "b_imm12" -> sec[off + 1] % 128 = 99                                    \* opcode 1100011 BRANCH
      [] t = "b_imm20" -> sec[off + 1] % 128 = 111                                   \* opcode 1101111 JAL
      [] t = "imm24" -> (sec[off + 4] \div 2) % 8 = 5                                \* inst[27:25] = 101
      [] t = "wrap_new11" -> sec[off + 2] \div 8 = 28                                \* 11100
      [] arch = "thumb" /\ t = "rel8" -> sec[off + 2] \div 16 = 13 /\ sec[off + 2] % 16 < 14   \* 1101 cond
      [] t = "bl_imm11" -> sec[off + 2] \div 8 = 30 /\ sec[off + 4] \div 64 \in {2, 3}          \* 11110 ... 1x
                           /\ (sec[off + 4] \div 16) % 2 = 1                                   \* BL / B.W
      [] t = "b_imm11_imm6" -> sec[off + 2] \div 8 = 30 /\ sec[off + 4] \div 64 = 2
                               /\ (sec[off + 4] \div 16) % 2 = 0                               \* B<c>.W
      [] OTHER -> FALSE
SiteOf(sec, off, n) == Mk([k \in 1..n |-> sec[off + k]])
\* x86: rel32 of jmp / call / jcc counts from the end of the instruction = the end of the field
BranchTarget(arch, t, sec, off, Pw) ==
    LET d == Designates(arch, t, SiteOf(sec, off, RelSize(t)), Pw) IN
    IF t = "rel32" THEN WAdd(d, W(4)) ELSE d
BranchOK(arch, t, sec, off, Sw, Pw) == IsBranch(arch, t, sec, off) /\ BranchTarget(arch, t, sec, off, Pw) = Sw

-----------------------------------------------------------------------------
(* the interface used by Linker_Trace (small addresses as TLC integers) *)
ArchOf(a) == IF a = "arm:thumb" THEN "thumb" ELSE a
PatchOKW(arch, t, before, after, Sw, Aw, Pw) ==
    /\ Modelled(arch, t)
    /\ Preserved(arch, t, before, after)
    /\ FieldOK(arch, t, after, Sw, Aw, Pw)
=============================================================================
