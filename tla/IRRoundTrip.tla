----------------------------- MODULE IRRoundTrip -----------------------------
(* What "reading back a serialised IR module yields the same module" means   *)
(* (properties C15: text format, C16: JSON), stated over the projection      *)
(* harness/irrt.py: project() of the original module `a` and of the module   *)
(* `b` that the reader returned:                                             *)
(*                                                                           *)
(*   [name, externals : Seq([k, name, ret, args])                            *)
(*    variables : Seq([name, binding, size, align]),                         *)
(*    inits     : Seq([has, parts : Seq([k, b : bytes, name])]),  (per var.) *)
(*    funcs     : Seq([sig : [name, binding, kind, ret, ptys],               *)
(*                     entry, blocks : Seq(Seq(instruction)),                *)
(*                     vol : Seq(Seq(BOOLEAN)),          (volatility plane)  *)
(*                     pnames, bnames, vnames : Seq(Seq(STRING)), (names)    *)
(*                     dangling : Seq(STRING)])]                             *)
(*                                                                           *)
(* Instructions refer to local values by position (parameters first, then    *)
(* value-defining instructions in block order), to globals by index and to   *)
(* blocks by index; integer constants are sign + base-256 magnitude, float   *)
(* constants their IEEE-754 bit pattern.  So two modules have the same       *)
(* projection iff they are the same module up to object identity.            *)
(*                                                                           *)
(* The requirement is split into named clauses so that a failing record says *)
(* WHAT was lost; IRRoundTrip_MC checks that the clauses together are        *)
(* exactly equality of the projections (nothing escapes, nothing is          *)
(* invented) and that each kind of loss is blamed on the clause named for it.*)
EXTENDS Naturals, Integers, Sequences, FiniteSets, TLC

Min(x, y) == IF x < y THEN x ELSE y

\* first index at which two sequences differ; 0 if they are equal
FirstDiff(s, t) ==
    IF s = t THEN 0
    ELSE LET n == Min(Len(s), Len(t))
             D == {k \in 1..n : s[k] # t[k]}
         IN IF D = {} THEN n + 1 ELSE CHOOSE k \in D : \A j \in D : k <= j

(* ---- planes of a projected module ------------------------------------------ *)
NF(m) == Len(m.funcs)
Sigs(m) == [f \in 1..NF(m) |-> m.funcs[f].sig]
Shape(m) == [f \in 1..NF(m) |->
               [entry |-> m.funcs[f].entry,
                sizes |-> [b \in 1..Len(m.funcs[f].blocks) |-> Len(m.funcs[f].blocks[b])]]]
Code(m) == [f \in 1..NF(m) |-> m.funcs[f].blocks]
Volatility(m) == [f \in 1..NF(m) |-> m.funcs[f].vol]
Names(m) == [f \in 1..NF(m) |-> <<m.funcs[f].pnames, m.funcs[f].bnames>> \o m.funcs[f].vnames]
Dangling(m) == [f \in 1..NF(m) |-> m.funcs[f].dangling]

(* ---- the clauses -------------------------------------------------------------- *)
Clauses == <<"ReadBack", "SameModuleName", "SameExternals", "SameVariables", "SameInitialValues",
             "SameSignatures", "SameBlocks", "SameInstructions", "SameVolatility", "SameNames",
             "NoDanglingValues", "SameText">>
NClauses == Len(Clauses)

\* the plane a structural clause compares
Plane(c, m) ==
    CASE c = "SameModuleName"    -> <<m.name>>
      [] c = "SameExternals"     -> m.externals
      [] c = "SameVariables"     -> m.variables
      [] c = "SameInitialValues" -> m.inits
      [] c = "SameSignatures"    -> Sigs(m)
      [] c = "SameBlocks"        -> Shape(m)
      [] c = "SameInstructions"  -> Code(m)
      [] c = "SameVolatility"    -> Volatility(m)
      [] c = "SameNames"         -> Names(m)
      [] c = "NoDanglingValues"  -> Dangling(m)

StructuralClauses == {Clauses[k] : k \in 2..(NClauses - 1)}

SameOn(c, a, b) == Plane(c, a) = Plane(c, b)

\* position of the first difference on a plane: <<f, b, k>> (function / item, block, index), zeros when n/a
Where(c, a, b) ==
    LET pa == Plane(c, a)
        pb == Plane(c, b)
        f == FirstDiff(pa, pb)
    IN IF f = 0 THEN <<0, 0, 0>>
       ELSE IF c \in {"SameInstructions", "SameVolatility", "SameNames"} /\ f <= Min(Len(pa), Len(pb))
            THEN LET bl == FirstDiff(pa[f], pb[f])
                 IN IF bl >= 1 /\ bl <= Min(Len(pa[f]), Len(pb[f]))
                    THEN <<f, bl, FirstDiff(pa[f][bl], pb[f][bl])>>
                    ELSE <<f, bl, 0>>
            ELSE <<f, 0, 0>>

\* all structural clauses that fail for a pair
FailedStructural(a, b) == {c \in StructuralClauses : ~SameOn(c, a, b)}

\* the whole requirement on the structure
SameModule(a, b) == FailedStructural(a, b) = {}

(* ---- printed text (C15): sequences of lines, a line = sequence of char codes --- *)
SameTextC(ta, tb) == FirstDiff(ta, tb) = 0

(* ---- a record of the harness ---------------------------------------------------- *)
(* [id, fmt : "text" | "json", outcome : "ok" | "error:<stage>:<class>", a, b?, ta?, tb?]       *)
Read(r) == r.outcome = "ok" /\ "b" \in DOMAIN r
HasText(r) == Read(r) /\ "ta" \in DOMAIN r /\ "tb" \in DOMAIN r

Holds(c, r) ==
    CASE c = "ReadBack" -> Read(r)                      \* no action of the specification fails to return a module
      [] c = "SameText" -> HasText(r) => SameTextC(r.ta, r.tb)
      [] OTHER          -> Read(r) => SameOn(c, r.a, r.b)

Diag(c, r) ==
    CASE c = "ReadBack" -> [pos |-> <<0, 0, 0>>]
      [] c = "SameText" -> [pos |-> <<IF HasText(r) THEN FirstDiff(r.ta, r.tb) ELSE 0, 0, 0>>]
      [] OTHER          -> [pos |-> IF Read(r) THEN Where(c, r.a, r.b) ELSE <<0, 0, 0>>]
=============================================================================
