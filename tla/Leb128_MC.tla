----------------------------- MODULE Leb128_MC -----------------------------
(* Idiom M for C20.  The four algorithms printed in the DWARF specification *)
(* (appendix C, figures "encode/decode an unsigned/signed LEB128 number")   *)
(* as a state machine over TLC integers, model-checked against the          *)
(* bit-string definitions of Leb128.tla:                                    *)
(*   - encoders: every integer n with |n| <= MaxN                           *)
(*   - decoders: every well-formed byte sequence of at most MaxLen bytes    *)
(*     whose non-final bytes are in ContBytes (actions GenMore / GenLast)   *)
(* Invariants: loop invariants of the algorithms, algorithm = definition,   *)
(* Decode(Encode(n)) = n, and by brute force over all byte sequences:       *)
(* no well-formed sequence decoding to z is shorter than Enc(z), one of     *)
(* the same length is Enc(z) itself (unique minimal encoding), and          *)
(* "last byte not redundant" characterises the canonical encoding.          *)
EXTENDS Leb128, TLC
CONSTANTS MaxN, MaxLen, ContBytes     \* ContBytes: non-final bytes the generator uses
AllCont == 128..255
BoundaryCont == {128, 129, 191, 192, 254, 255}
VARIABLES alg, pc, n, val, out, bs, pos, result, shift
vars == <<alg, pc, n, val, out, bs, pos, result, shift>>

Encoders == {"encU", "encS"}
Decoders == {"decU", "decS"}
Pow128(k) == IF k = 0 THEN 1 ELSE 128 ^ k          \* k <= 4

Init ==
    /\ alg \in Encoders \cup Decoders
    /\ n \in (IF alg = "encS" THEN (-MaxN)..MaxN ELSE IF alg = "encU" THEN 0..MaxN ELSE {0})
    /\ pc = (IF alg \in Encoders THEN "run" ELSE "gen")
    /\ val = n /\ out = <<>> /\ bs = <<>> /\ pos = 1 /\ result = 0 /\ shift = 0

(* ---- DWARF figure: encode unsigned ------------------------------------- *)
EncUMore ==
    /\ alg = "encU" /\ pc = "run" /\ val \div 128 # 0
    /\ out' = Append(out, (val % 128) + 128) /\ val' = val \div 128
    /\ UNCHANGED <<alg, pc, n, bs, pos, result, shift>>
EncULast ==
    /\ alg = "encU" /\ pc = "run" /\ val \div 128 = 0
    /\ out' = Append(out, val % 128) /\ val' = 0 /\ pc' = "done"
    /\ UNCHANGED <<alg, n, bs, pos, result, shift>>

(* ---- DWARF figure: encode signed (>> is an arithmetic shift = floor div) *)
SDone(rest, byte) == (rest = 0 /\ ~SignBit(byte)) \/ (rest = -1 /\ SignBit(byte))
EncSMore ==
    /\ alg = "encS" /\ pc = "run" /\ ~SDone(val \div 128, val % 128)
    /\ out' = Append(out, (val % 128) + 128) /\ val' = val \div 128
    /\ UNCHANGED <<alg, pc, n, bs, pos, result, shift>>
EncSLast ==
    /\ alg = "encS" /\ pc = "run" /\ SDone(val \div 128, val % 128)
    /\ out' = Append(out, val % 128) /\ val' = val \div 128 /\ pc' = "done"
    /\ UNCHANGED <<alg, n, bs, pos, result, shift>>

(* ---- generator of every well-formed byte sequence ---------------------- *)
GenMore ==
    /\ pc = "gen" /\ Len(bs) < MaxLen - 1
    /\ \E b \in ContBytes : bs' = Append(bs, b)
    /\ UNCHANGED <<alg, pc, n, val, out, pos, result, shift>>
GenLast ==
    /\ pc = "gen"
    /\ \E b \in 0..127 : bs' = Append(bs, b)
    /\ pc' = "run"
    /\ UNCHANGED <<alg, n, val, out, pos, result, shift>>

(* ---- DWARF figures: decode unsigned / signed ---------------------------- *)
DecStep ==
    /\ alg \in Decoders /\ pc = "run"
    /\ result' = result + Low7(bs[pos]) * Pow2(shift)       \* result |= group << shift
    /\ shift' = shift + 7 /\ pos' = pos + 1
    /\ pc' = (IF Cont(bs[pos]) THEN "run" ELSE IF alg = "decS" THEN "sign" ELSE "done")
    /\ UNCHANGED <<alg, n, val, out, bs>>
DecSign ==
    /\ alg = "decS" /\ pc = "sign"
    /\ result' = (IF SignBit(bs[pos - 1]) THEN result - Pow2(shift) ELSE result)   \* result |= -(1 << shift)
    /\ pc' = "done"
    /\ UNCHANGED <<alg, n, val, out, bs, pos, shift>>

Next == EncUMore \/ EncULast \/ EncSMore \/ EncSLast \/ GenMore \/ GenLast \/ DecStep \/ DecSign

(* ---- invariants ---------------------------------------------------------- *)
TypeOK ==
    /\ alg \in Encoders \cup Decoders /\ pc \in {"gen", "run", "sign", "done"}
    /\ IsByteSeq(out) /\ IsByteSeq(bs) /\ Len(bs) <= MaxLen /\ Len(out) <= 5
    /\ pos \in 1..(MaxLen + 1) /\ shift = 7 * (pos - 1)

RECURSIVE GroupSum(_, _)
GroupSum(s, k) == IF k = 0 THEN 0 ELSE GroupSum(s, k - 1) + Low7(s[k]) * Pow128(k - 1)

\* loop invariant of both encoders: emitted groups + remaining value make up n
EncLoopInv ==
    alg \in Encoders =>
        /\ n = val * Pow128(Len(out)) + GroupSum(out, Len(out))
        /\ \A k \in 1..Len(out) : Cont(out[k]) <=> (k < Len(out) \/ pc = "run")
\* loop invariant of both decoders: result = the groups consumed so far
DecLoopInv ==
    (alg \in Decoders /\ pc \in {"run", "sign"}) => result = GroupSum(bs, pos - 1)

Z == ZOfInt(n)
\* the algorithm computes the declarative canonical encoding
EncAlgIsDef ==
    pc = "done" => /\ alg = "encS" => out = EncS(Z)
                   /\ alg = "encU" => out = EncU(Z)
\* the decoders return the original integer
EncRoundTrip ==
    pc = "done" => /\ alg = "encS" => IsEncodingS(out, Z) /\ ZVal(DecS(out)) = n
                   /\ alg = "encU" => IsEncodingU(out, Z) /\ ZVal(DecU(out)) = n
\* arithmetic statement of minimality: k groups hold [-64*128^(k-1), 64*128^(k-1)) resp. [0, 128^k)
HoldsS(x, k) == -(64 * Pow128(k - 1)) <= x /\ x < 64 * Pow128(k - 1)
HoldsU(x, k) == 0 <= x /\ x < Pow128(k)
EncMinimal ==
    pc = "done" =>
        /\ alg = "encS" => /\ HoldsS(n, Len(out)) /\ \A k \in 1..(Len(out) - 1) : ~HoldsS(n, k)
                           /\ MinimalS(out)
        /\ alg = "encU" => /\ HoldsU(n, Len(out)) /\ \A k \in 1..(Len(out) - 1) : ~HoldsU(n, k)
                           /\ MinimalU(out)
\* the CHOOSE-based group counts have the closed forms
EncClosedForms ==
    (pc = "done" /\ alg \in Encoders) =>
        /\ GroupsS(Z) = GroupsSClosed(Z)
        /\ ~Z.neg => GroupsU(Z) = GroupsUClosed(Z)
        /\ \A k \in 1..4 : (FitsS(Z, k) <=> HoldsS(n, k)) /\ (FitsU(Z, k) <=> HoldsU(n, k))

\* the decoding algorithm computes the declarative value
DecAlgIsDef ==
    pc = "done" => /\ alg = "decS" => result = ZVal(DecS(bs)) /\ IsZInt(DecS(bs))
                   /\ alg = "decU" => result = ZVal(DecU(bs)) /\ IsZInt(DecU(bs))
\* brute force over all byte sequences: Enc(z) is the unique shortest encoding of z
Unique(e, minimal) ==
    /\ WellFormed(bs) /\ Len(e) <= Len(bs)
    /\ Len(e) = Len(bs) => e = bs
    /\ minimal <=> e = bs
DecUniqueMinimal ==
    (pc = "done" /\ alg \in Decoders) =>
        /\ alg = "decS" => Unique(EncS(DecS(bs)), MinimalS(bs))
        /\ alg = "decU" => Unique(EncU(DecU(bs)), MinimalU(bs))
\* the non-recursive wide-string operators are BitSeq's (on every payload generated)
WideOps ==
    (pc = "done" /\ alg \in Decoders) =>
        LET u == Payload(bs) IN
        /\ WNeg(u) = Neg(u) /\ WNorm(u) = Norm(u)
        /\ SignedOf(u) = BVToSignedZ(u) /\ UnsignedOf(u) = BVToUnsignedZ(u)
        /\ \A w \in {Len(u), Len(u) + 3} : ToBits(SignedOf(u), w) = ZToUnsigned(BVToSignedZ(u), w)
\* a number is self-delimiting inside a longer byte stream
DecPrefix ==
    (pc = "done" /\ alg \in Decoders) =>
        /\ PrefixLen(bs) = Len(bs) /\ PrefixLen(bs \o <<200, 7, 255>>) = Len(bs)
        /\ PrefixLen(<<128, 255>>) = 0 /\ PrefixLen(<<>>) = 0
=============================================================================
