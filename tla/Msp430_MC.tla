----------------------------- MODULE Msp430_MC -----------------------------
(* Idiom M for Msp430.tla: laws of the ISA model, checked exhaustively on    *)
(* small domains before the model judges ppci.                               *)
(*  family "w16"  every first word (65 536; every eighth high byte when        *)
(*                ~Deep) x samples of the extension words: exactly one        *)
(*                format matches; a defined instruction is well-formed and    *)
(*                re-encodes to the same words; one word less is "truncated", *)
(*                one more "toolong"; LengthOf agrees with the decoder        *)
(*  family "ins"  well-formed records (every mnemonic x byte/word x every     *)
(*                source mode x destination mode x registers x boundary       *)
(*                values x constant-generator choice): Decode(Encode(i)) = i  *)
(*  family "ln"   printed lines of the reference assembler (ppci's and TI's   *)
(*                spellings, every operand syntax x registers x boundary      *)
(*                values, emulated instructions, jumps x distances): the      *)
(*                bytes of every equivalent encoding decode to what the line  *)
(*                means; lines with R2 / R3 / @PC+ in a slot the architecture *)
(*                does not have are recognised as such                        *)
(*  family "ka"   hand-checked known answers from the manual (RET = 4130h...) *)
(*  family "fld"  field split / join laws: sign extension, 16-bit patterns    *)
(*  family "mn"   every mnemonic spelling parses in exactly one way           *)
(* The same run writes the boundary table of idiom G to IOEnv.OUT_FILE.      *)
EXTENDS Msp430, Json, IOUtils, SequencesExt
CONSTANTS Deep, Fams

-----------------------------------------------------------------------------
(* idiom G: labelled boundary values of a range <<what, lo, hi, align>>      *)
Labelled(lo, hi, a) ==
    {lo - a, lo - 1, lo, lo + 1, lo + a, -a, -1, 0, 1, a, 2 * a, 3 * a, 4, 8, hi - a, hi - 1, hi, hi + 1, hi + a,
     ((lo + hi) \div (2 * a)) * a, ((lo + hi) \div (2 * a)) * a + a, (hi \div (2 * a)) * a, (hi \div (2 * a)) * a + a,
     (lo \div (2 * a)) * a, (lo \div (2 * a)) * a - a, (hi \div (4 * a)) * a, (lo \div (4 * a)) * a, 255, 256, -128, -129, 4660}
Inside(lo, hi, a, v) == lo <= v /\ v <= hi /\ v % a = 0
Row(r) == [what |-> r[1], lo |-> r[2], hi |-> r[3], align |-> r[4],
           vals |-> SetToSeq({[v |-> v, inside |-> Inside(r[2], r[3], r[4], v)] : v \in Labelled(r[2], r[3], r[4])})]
Table == [msp430 |-> SetToSeq({Row(r) : r \in MRanges})]
ASSUME JsonSerialize(IOEnv.OUT_FILE, Table)

-----------------------------------------------------------------------------
VARIABLES fam, pick
vars == <<fam, pick>>
None == [k |-> "none"]

Rg(r) == <<"r", r, "">>
Im(v) == <<"i", v, "">>
Lb(a) == <<"l", a, "L_t">>
G(ch) == <<ch, 0, "">>

RegsS == IF Deep THEN 0..15 ELSE {0, 1, 2, 3, 4, 15}
ValsS == IF Deep THEN {0, 1, 255, 32768, 65535} ELSE {0, 32768, 65535}
\* well-formed operands
SrcOps == {<<Reg(r), FALSE>> : r \in RegsS \ {CG}}
          \cup {<<Idx(r, v), FALSE>> : r \in RegsS \ {SR, CG}, v \in ValsS} \cup {<<Abs(v), FALSE>> : v \in ValsS}
          \cup {<<Ind(r), FALSE>> : r \in RegsS \ {SR, CG}} \cup {<<Inc(r), FALSE>> : r \in RegsS \ {SR, CG, PC}}
          \cup {<<Imm(v), FALSE>> : v \in ValsS \cup CGValues} \cup {<<Imm(v), TRUE>> : v \in CGValues}
DstOps == {Reg(r) : r \in RegsS} \cup {Idx(r, v) : r \in RegsS \ {SR, CG}, v \in ValsS} \cup {Abs(v) : v \in ValsS}
WithLen(i) == [i EXCEPT !.len = LenOf(i)]
InsOf(mn) ==
    IF InSeq(JumpMn, mn) THEN {[I0 EXCEPT !.mn = mn, !.rel = v, !.len = 2] : v \in {-1024, -1022, -2, 0, 2, 4, 510, 512, 1020, 1022}}
    ELSE IF mn = "reti" THEN {[I0 EXCEPT !.mn = mn, !.len = 2]}
    ELSE IF InSeq(SingleMn, mn) THEN
        {WithLen([I0 EXCEPT !.mn = mn, !.bw = b, !.dst = s[1], !.cg = s[2]]) : b \in (IF mn \in WordOnly THEN {0} ELSE {0, 1}), s \in SrcOps}
    ELSE {WithLen([I0 EXCEPT !.mn = mn, !.bw = b, !.src = s[1], !.cg = s[2], !.dst = d]) : b \in {0, 1}, s \in SrcOps,
              d \in (IF Deep /\ mn \in {"mov", "sub"} THEN DstOps ELSE {Reg(4), Reg(CG), Idx(SP, 65535), Idx(PC, 0), Abs(32768)})}
AllMn == {DoubleMn[k] : k \in 1..12} \cup {SingleMn[k] : k \in 1..7} \cup {JumpMn[k] : k \in 1..8}

\* ---- printed lines <<mnemonic, ops, pc>>
LRegs == IF Deep THEN 0..15 ELSE {0, 1, 2, 3, 4, 15}
LVals == IF Deep THEN {-32768, -1, 0, 1, 2, 4, 5, 8, 255, 32767, 32768, 65535} ELSE {-32768, -1, 0, 1, 2, 4, 5, 8, 65535}
LOffs == IF Deep THEN {-2, 6, 65535} ELSE {-2, 65535}
LAddr == IF Deep THEN {0, 512, 65534} ELSE {512, 65534}
G1Mn == IF Deep THEN {"mov", "cmp"} ELSE {"mov"}
G1Sfx == IF Deep THEN {".w", ".b", ""} ELSE {".b", ""}
SrcTexts == {<<Rg(r)>> : r \in LRegs} \cup {<<G("#"), Im(v)>> : v \in LVals} \cup {<<G("#"), Lb(a)>> : a \in LAddr}
            \cup {<<G("&"), Lb(a)>> : a \in LAddr} \cup {<<G("@"), Rg(r)>> : r \in LRegs}
            \cup {<<G("@"), Rg(r), G("+")>> : r \in LRegs} \cup {<<Im(v), G("("), Rg(r), G(")")>> : v \in LOffs, r \in LRegs}
DstTexts == {<<Rg(r)>> : r \in LRegs} \cup {<<G("&"), Lb(a)>> : a \in LAddr}
            \cup {<<Im(v), G("("), Rg(r), G(")")>> : v \in LOffs, r \in LRegs}
NLineGroups == 6
LineGroup(g) ==
    CASE g = 1 -> {<<m \o sfx, s \o <<G(",")>> \o d, 0>> : m \in G1Mn, sfx \in G1Sfx, s \in SrcTexts, d \in DstTexts}
      [] g = 2 -> {<<DoubleMn[k] \o sfx, s \o <<G(",")>> \o d, 0>> : k \in 1..12, sfx \in {".w", ".b"}, s \in SrcTexts,
                                                                      d \in {<<Rg(5)>>, <<Im(2), G("("), Rg(1), G(")")>>}}
      [] g = 3 -> {<<m \o sfx, s, 0>> : m \in {"rrc", "rra", "push"}, sfx \in {"", ".w", ".b"}, s \in SrcTexts}
                  \cup {<<m, s, 0>> : m \in {"swpb", "sxt", "call", "br"}, s \in SrcTexts}
      [] g = 4 -> {<<m \o sfx, d, 0>> : m \in DOMAIN Emul1 \cup {"rla", "rlc"}, sfx \in {"", ".w", ".b"}, d \in DstTexts}
      [] g = 5 -> {<<m, <<>>, 0>> : m \in DOMAIN Emul0 \cup {"reti"}}
      [] g = 6 -> {<<a[1], <<Lb(pc + 2 + v)>>, pc>> : a \in JumpAlias, pc \in {2048, 2050, 4096}, v \in {-1024, -1022, -2, 0, 2, 510, 512, 1022}}
\* every equivalent encoding of what a line means
ImmOf(a) == IF a.src.m = "imm" THEN a.src.v ELSE IF a.src.m = "none" /\ a.dst.m = "imm" THEN a.dst.v ELSE -1
Completions(a) == {WithLen([a EXCEPT !.cg = g]) : g \in (IF ImmOf(a) \in CGValues THEN {TRUE, FALSE} ELSE {FALSE})}
\* the lines whose operand text names a mode the architecture does not have
UsesNoMode(ops) == \E k \in 1..Len(ops) :
    \/ ops[k][1] = "@" /\ k < Len(ops) /\ ops[k + 1][1] = "r" /\ ops[k + 1][2] \in {SR, CG}
    \/ ops[k][1] = "@" /\ k + 1 < Len(ops) /\ ops[k + 1][1] = "r" /\ ops[k + 1][2] = PC /\ ops[k + 2][1] = "+"
    \/ ops[k][1] = "(" /\ k < Len(ops) /\ ops[k + 1][1] = "r" /\ ops[k + 1][2] \in {SR, CG}

\* ---- hand-checked known answers: <<mnemonic, ops, pc, words>>
Known == {
    <<"ret", <<>>, 0, <<16688>>>>,                                          \* 4130h
    <<"nop", <<>>, 0, <<17155>>>>,                                          \* 4303h
    <<"clrc", <<>>, 0, <<49938>>>>, <<"clrz", <<>>, 0, <<49954>>>>, <<"clrn", <<>>, 0, <<49698>>>>,   \* C312h C322h C222h
    <<"setc", <<>>, 0, <<54034>>>>, <<"setz", <<>>, 0, <<54050>>>>, <<"setn", <<>>, 0, <<53794>>>>,   \* D312h D322h D222h
    <<"dint", <<>>, 0, <<49714>>>>, <<"eint", <<>>, 0, <<53810>>>>,        \* C232h D232h
    <<"reti", <<>>, 0, <<4864>>>>,                                          \* 1300h
    <<"pop", <<Rg(5)>>, 0, <<16693>>>>,                                     \* 4135h
    <<"br", <<Rg(5)>>, 0, <<17664>>>>,                                      \* 4500h
    <<"clr", <<Rg(5)>>, 0, <<17157>>>>, <<"tst", <<Rg(5)>>, 0, <<37637>>>>,   \* 4305h 9305h
    <<"inc", <<Rg(5)>>, 0, <<21269>>>>, <<"incd", <<Rg(5)>>, 0, <<21285>>>>,  \* 5315h 5325h
    <<"dec", <<Rg(5)>>, 0, <<33557>>>>, <<"decd", <<Rg(5)>>, 0, <<33573>>>>,  \* 8315h 8325h
    <<"inv", <<Rg(5)>>, 0, <<58165>>>>, <<"inv.b", <<Rg(5)>>, 0, <<58229>>>>, \* E335h E375h
    <<"rla", <<Rg(5)>>, 0, <<21765>>>>, <<"rlc", <<Rg(5)>>, 0, <<25861>>>>,   \* 5505h 6505h
    <<"adc", <<Rg(5)>>, 0, <<25349>>>>, <<"sbc", <<Rg(5)>>, 0, <<29445>>>>, <<"dadc", <<Rg(5)>>, 0, <<41733>>>>,   \* 6305h 7305h A305h
    <<"mov", <<Rg(5), G(","), Rg(6)>>, 0, <<17670>>>>,                      \* 4506h
    <<"mov.w", <<G("#"), Im(5), G(","), Rg(5)>>, 0, <<16437, 5>>>>,         \* 4035h 0005h
    <<"add.b", <<G("@"), Rg(4), G("+"), G(","), Im(2), G("("), Rg(5), G(")")>>, 0, <<21749, 2>>>>,   \* 54F5h 0002h
    <<"mov", <<G("&"), Lb(4660), G(","), G("&"), Lb(22136)>>, 0, <<17042, 4660, 22136>>>>,           \* 4292h 1234h 5678h
    <<"mov.b", <<G("@"), Rg(4), G("+"), G(","), Rg(5)>>, 0, <<17525>>>>,    \* 4475h
    <<"push", <<Rg(4)>>, 0, <<4612>>>>, <<"swpb", <<Rg(5)>>, 0, <<4229>>>>, <<"sxt", <<Rg(5)>>, 0, <<4485>>>>,    \* 1204h 1085h 1185h
    <<"rrc.b", <<Im(-2), G("("), Rg(5), G(")")>>, 0, <<4181, 65534>>>>,     \* 1055h FFFEh
    <<"rra", <<Rg(5)>>, 0, <<4357>>>>,                                      \* 1105h
    <<"call", <<G("#"), Lb(4660)>>, 0, <<4784, 4660>>>>,                    \* 12B0h 1234h
    <<"jmp", <<Lb(512)>>, 512, <<16383>>>>,                                 \* 3FFFh  jmp $
    <<"jne", <<Lb(522)>>, 512, <<8196>>>>, <<"jz", <<Lb(514)>>, 512, <<9216>>>>,   \* 2004h 2400h
    <<"jl", <<Lb(0)>>, 1022, <<14848>>>>,                                   \* 3A00h: offset -512
    <<"jge", <<Lb(1024)>>, 0, <<13823>>>> }                                 \* 35FFh: offset +511

Ext2 == IF Deep THEN {<<0, 65535>>, <<4660, 1>>} ELSE {<<4660, 65535>>}
WHi == IF Deep THEN 0..255 ELSE {h \in 0..255 : h % 8 = 0} \cup {16, 17, 18, 19}
Init == fam = "none" /\ pick = None
PickFam == fam = "none" /\ fam' \in Fams /\ pick' = None
PickW16 == fam = "w16" /\ pick = None /\ UNCHANGED fam /\ \E hi \in WHi : pick' = [k |-> "w16-", hi |-> hi]
PickW16b == fam = "w16" /\ pick.k = "w16-" /\ UNCHANGED fam /\ \E lo \in 0..255, e \in Ext2 : pick' = [k |-> "w16", w |-> 256 * pick.hi + lo, e |-> e]
PickInsMn == fam = "ins" /\ pick = None /\ UNCHANGED fam /\ \E mn \in AllMn : pick' = [k |-> "ins-", mn |-> mn]
PickIns == fam = "ins" /\ pick.k = "ins-" /\ UNCHANGED fam /\ \E i \in InsOf(pick.mn) : pick' = [k |-> "ins", i |-> i]
PickLnG == fam = "ln" /\ pick = None /\ UNCHANGED fam /\ \E g \in 1..NLineGroups : pick' = [k |-> "ln-", g |-> g]
PickLn == fam = "ln" /\ pick.k = "ln-" /\ UNCHANGED fam /\ \E ln \in LineGroup(pick.g) : pick' = [k |-> "ln", ln |-> ln]
PickKa == fam = "ka" /\ pick = None /\ UNCHANGED fam /\ \E ka \in Known : pick' = [k |-> "ka", ka |-> ka]
PickFld == fam = "fld" /\ pick = None /\ UNCHANGED fam /\ \E v \in 0..1023 : pick' = [k |-> "fld", v |-> v]
PickMn == fam = "mn" /\ pick = None /\ UNCHANGED fam /\ \E s \in Spellings : pick' = [k |-> "mn", nm |-> s[1]]
Next == PickFam \/ PickW16 \/ PickW16b \/ PickInsMn \/ PickIns \/ PickLnG \/ PickLn \/ PickKa \/ PickFld \/ PickMn

RegsOK(d) == Reads(d) \subseteq 0..15 /\ Writes(d) \subseteq 0..15
-----------------------------------------------------------------------------
\* the formats are a partition of the 16-bit space
LawOneFormat == pick.k = "w16" => Cardinality(Matches(pick.w)) = 1
\* a defined instruction is well-formed and re-encoded to the same words by the reference encoder
LawReencode == pick.k = "w16" =>
    \E n \in {LengthOf(pick.w) \div 2} :
    \E ws \in {<<pick.w>> \o (IF n >= 2 THEN <<pick.e[1]>> ELSE <<>>) \o (IF n >= 3 THEN <<pick.e[2]>> ELSE <<>>)} :
    \E d \in {DecodeW(ws)} :
    /\ n \in 0..3
    /\ (n = 0) = (d.mn \in {"undefined", "unsupported"})
    /\ n > 0 => /\ Valid(d) /\ WF(d) /\ d.len = 2 * n /\ EncodeW(d) = ws /\ RegsOK(d)
                /\ Decode(Encode(d)) = d
                /\ DecodeW(ws \o <<0>>).mn = "toolong"
                /\ (n > 1 => DecodeW(SubSeq(ws, 1, n - 1)).mn = "truncated")
LawDecodeEncode == pick.k = "ins" => \E b \in {Encode(pick.i)} :
    /\ WF(pick.i) /\ Decode(b) = pick.i /\ Len(b) = pick.i.len /\ RegsOK(pick.i)
\* the reference assembler: every equivalent encoding of a printed line decodes to what the line means
LawLine == pick.k = "ln" => \E a \in {Asm(pick.ln[1], pick.ln[2], pick.ln[3])} :
    /\ a # NoAsm
    /\ (a = NoMode) = UsesNoMode(pick.ln[2])
    /\ a # NoMode => \A c \in Completions(a) : \E d \in {Decode(Encode(c))} : WF(c) /\ Core(d) = Core(a) /\ d = c
LawKnown == pick.k = "ka" => LET a == Asm(pick.ka[1], pick.ka[2], pick.ka[3])  ws == pick.ka[4] IN
    /\ Valid(a)
    /\ \E c \in Completions(a) : EncodeW(c) = ws
    /\ Core(DecodeW(ws)) = Core(a)
\* field laws
LawFields == pick.k = "fld" => LET v == pick.v IN
    /\ Pattern(SignExt(v, 10), 10) = v /\ SignExt(v, 10) \in -512..511
    /\ Bits(P2(13) + 7 * P2(10) + v, 0, 10) = v /\ Bits(P2(13) + 5 * P2(10) + v, 10, 3) = 5
    /\ \A x \in {v, -v, v - 65536, v + 64512, 65536 + v, 64 * v} : W16(x) \in 0..65535 /\ (W16(x) - x) % 65536 = 0
    /\ W16(-1) = 65535 /\ W16(-32768) = 32768 /\ W16(65535) = 65535
    /\ WordBytes(<<64 * v>>) = <<(64 * v) % 256, v \div 4>> /\ Words(WordBytes(<<64 * v, v>>)) = <<64 * v, v>>
LawMnemonic == pick.k = "mn" => Cardinality(MnParses(pick.nm)) = 1 /\ ~(\E a \in JumpAlias : a[1] = pick.nm) /\ pick.nm \notin DOMAIN Emul0
=============================================================================
