------------------------------ MODULE Leb128 ------------------------------
(* LEB128 (Little Endian Base 128) as defined by the DWARF specification    *)
(* (section 7.6 "Variable Length Data", appendix C) and the WebAssembly     *)
(* specification (section 5.2.2 "Integers"), for integers of any size       *)
(* (property C20; implementation: ppci/utils/leb128.py).                    *)
(*                                                                          *)
(* An encoding is a non-empty byte sequence; the low 7 bits of each byte    *)
(* are a group of payload bits, least significant group first; bit 7 is     *)
(* the continuation bit: set on every byte but the last.  The unsigned      *)
(* value is the payload read as a natural number, the signed value is the   *)
(* payload read as a two's-complement number of 7*len bits.  The canonical  *)
(* ("the") encoding of an integer is the shortest one.                      *)
(*                                                                          *)
(* Integers are ZInt records [neg, mag] (BitSeq): TLC integers are 32 bit.  *)
(* Leb128_MC.tla checks these bit-string definitions against the            *)
(* arithmetic algorithms printed in the DWARF appendix, exhaustively on a   *)
(* small domain; Leb128_Eval.tla judges recorded calls of the real code.    *)
EXTENDS BitSeq, SequencesExt

Byte     == 0..255
Low7(b)  == b % 128                 \* payload group of a byte
Cont(b)  == b >= 128                \* continuation bit
SignBit(b) == (b \div 64) % 2 = 1   \* bit 6: sign bit of the last group

IsByteSeq(bs) == DOMAIN bs = 1..Len(bs) /\ \A k \in 1..Len(bs) : bs[k] \in Byte

\* grammar: one or more bytes, continuation bit exactly on the non-final ones
WellFormed(bs) ==
    /\ IsByteSeq(bs) /\ Len(bs) >= 1
    /\ \A k \in 1..Len(bs) : Cont(bs[k]) <=> k < Len(bs)

\* the first well-formed prefix of a byte stream (0 if none: truncated stream)
IsFinal(b) == ~Cont(b)
PrefixLen(bs) == SelectInSeq(bs, IsFinal)

\* the 7*len payload bits, least significant first
Payload(bs) ==
    [k \in 1..(7 * Len(bs)) |-> (Low7(bs[((k - 1) \div 7) + 1]) \div Pow2((k - 1) % 7)) % 2]

\* ---- wide bit strings ------------------------------------------------------
\* BitSeq's Neg / Norm recurse once per bit; numbers here have hundreds of bits,
\* so the same functions are restated without recursion (SelectInSeq and
\* SelectLastInSeq are iterative).  Leb128_MC checks WNeg = Neg, WNorm = Norm.
IsOne(x)      == x = 1
LowestOne(b)  == SelectInSeq(b, IsOne)          \* 0 if there is none
HighestOne(b) == SelectLastInSeq(b, IsOne)
WNorm(b) == SubSeq(b, 1, HighestOne(b))
\* two's complement: bits above the lowest 1 are inverted
WNeg(b)  == LET lo == LowestOne(b) IN
            [i \in 1..Len(b) |-> IF lo # 0 /\ i > lo THEN 1 - b[i] ELSE b[i]]
\* z mod 2^w as a w-bit string; a w-bit string read as unsigned / two's complement
ToBits(z, w)  == IF z.neg THEN WNeg(ZExt(z.mag, w)) ELSE ZExt(z.mag, w)
UnsignedOf(u) == [neg |-> FALSE, mag |-> WNorm(u)]
SignedOf(u)   == IF Len(u) > 0 /\ u[Len(u)] = 1 THEN [neg |-> TRUE, mag |-> WNorm(WNeg(u))]
                 ELSE [neg |-> FALSE, mag |-> WNorm(u)]

\* ---- decoding (total on well-formed sequences, minimal or not) ---------
DecU(bs) == UnsignedOf(Payload(bs))
DecS(bs) == SignedOf(Payload(bs))

\* ---- canonical encoding --------------------------------------------------
\* k groups hold an unsigned value < 2^(7k), a signed value in [-2^(7k-1), 2^(7k-1))
FitsU(z, k) == ZFitsUnsigned(z, 7 * k)
FitsS(z, k) == ZFitsSigned(z, 7 * k)

\* the least number of groups (at least one: zero is encoded as the byte 00)
GroupsU(z) == CHOOSE k \in 1..((Len(z.mag) \div 7) + 2) :
                 FitsU(z, k) /\ \A j \in 1..(k - 1) : ~FitsU(z, j)
GroupsS(z) == CHOOSE k \in 1..((Len(z.mag) \div 7) + 2) :
                 FitsS(z, k) /\ \A j \in 1..(k - 1) : ~FitsS(z, j)

\* cut a 7k-bit string into k bytes, continuation bit on all but the last
Pack(bits, k) ==
    [j \in 1..k |-> Val(SubSeq(bits, 7 * (j - 1) + 1, 7 * j)) + (IF j < k THEN 128 ELSE 0)]

EncU(z) == LET k == GroupsU(z) IN Pack(ZExt(z.mag, 7 * k), k)          \* z >= 0 only
EncS(z) == LET k == GroupsS(z) IN Pack(ToBits(z, 7 * k), k)

\* closed forms of the group counts (laws checked in Leb128_MC)
GroupsUClosed(z) == IF z.mag = <<>> THEN 1 ELSE (Len(z.mag) + 6) \div 7
\* signed bit width: magnitude bits + sign bit, except -(2^m) which needs only m + 1
IsPow2Mag(m) == Len(m) >= 1 /\ \A i \in 1..(Len(m) - 1) : m[i] = 0
SignedWidth(z) == IF z.neg /\ IsPow2Mag(z.mag) THEN Len(z.mag) ELSE Len(z.mag) + 1
GroupsSClosed(z) == (SignedWidth(z) + 6) \div 7

\* ---- properties of an encoding (clauses of C20) --------------------------
IsEncodingU(bs, z) == WellFormed(bs) /\ ~z.neg /\ DecU(bs) = z
IsEncodingS(bs, z) == WellFormed(bs) /\ DecS(bs) = z

\* "last byte not redundant": dropping the last group would change the value
LastNeededU(bs) == Len(bs) > 1 => bs[Len(bs)] # 0
LastNeededS(bs) ==
    Len(bs) > 1 =>
        LET last == bs[Len(bs)]  prev == bs[Len(bs) - 1] IN
        /\ ~(last = 0 /\ ~SignBit(prev))        \* positive padding
        /\ ~(last = 127 /\ SignBit(prev))       \* negative padding (all ones)

MinimalU(bs) == WellFormed(bs) /\ LastNeededU(bs)
MinimalS(bs) == WellFormed(bs) /\ LastNeededS(bs)

(* ---- judging recorded calls of the implementation ---------------------- *)
(* r.f        function                                                      *)
(* r.v        ZInt argument (encoders)                                      *)
(* r.bytes    the byte stream handed to a decoder (may continue after the   *)
(*            encoded number)                                               *)
(* r.out      encoders: [ok |-> TRUE, bytes |-> Seq(Byte)]                   *)
(*            decoders: [ok |-> TRUE, z |-> ZInt, used |-> bytes consumed]  *)
(*            any:      [ok |-> FALSE, exc |-> class name] (encoders also   *)
(*                      raised |-> the function itself raised an exception) *)
(* r.rt       encoders: outcome of the matching decoder on r.out.bytes      *)
ResBytes(bs) == [ok |-> TRUE, bytes |-> bs]
ResDec(z, n) == [ok |-> TRUE, z |-> z, used |-> n]

\* the encoder returns the canonical encoding ...
EncodeOk(r) ==
    CASE r.f = "signed_encode"   -> r.out = ResBytes(EncS(r.v))
      [] r.f = "unsigned_encode" -> IF r.v.neg THEN ~r.out.ok /\ r.out.raised   \* rejects negatives
                                    ELSE r.out = ResBytes(EncU(r.v))
\* ... and the decoder returns the original integer from it
RoundTripOk(r) ==
    (r.out.ok /\ ~(r.f = "unsigned_encode" /\ r.v.neg)) => r.rt = ResDec(r.v, Len(r.out.bytes))

\* decoder on a byte stream: the first well-formed prefix is the number
DecodeOk(r) ==
    LET n == PrefixLen(r.bytes) IN
    IF n = 0 THEN TRUE                              \* truncated input: not defined by C20
    ELSE LET bs == SubSeq(r.bytes, 1, n)
             z  == IF r.f = "signed_decode" THEN DecS(bs) ELSE DecU(bs)
             canonical == IF r.f = "signed_decode" THEN EncS(z) = bs ELSE EncU(z) = bs
         IN IF canonical THEN r.out = ResDec(z, n)
            ELSE r.out.ok => r.out = ResDec(z, n)   \* non-minimal: may be refused, never misread

IsEncodeRec(r) == r.f \in {"signed_encode", "unsigned_encode"}
IsDecodeRec(r) == r.f \in {"signed_decode", "unsigned_decode"}
=============================================================================
