-------------------------------- MODULE PySrc --------------------------------
(* What CPython computes for the subset of Python named by property C36,      *)
(* written from the Python Language Reference (section numbers in comments)   *)
(* and independent of ppci.  Programs are JSON ASTs (harness/pygen.py prints  *)
(* the same AST as Python text):                                              *)
(*   prog  = [funcs : Seq([n, params : Seq(name), body : Seq(stmt)])]         *)
(*   expr  = [k:"lit", w : word] | [k:"var", n] | [k:"neg", a]                *)
(*         | [k:"bin", op : "+" "-" "*" "//" "%", a, b] | [k:"call", f, args] *)
(*   cond  = [k:"cmp", ops : Seq(op), es : Seq(expr)]   (e1 op1 e2 op2 e3 ..) *)
(*         | [k:"and", cs] | [k:"or", cs] | [k:"not", c]                      *)
(*   stmt  = [k:"asg", n, e] | [k:"aug", n, op, e] | [k:"tup", ns, es]        *)
(*         | [k:"expr", e] | [k:"pass"] | [k:"ret", e]                        *)
(*         | [k:"if", c, t, f] | [k:"while", c, b]                            *)
(*         | [k:"for", v, args : Seq(expr) (1..3 arguments of range), b]      *)
(*         | [k:"break"] | [k:"continue"]                                     *)
(*                                                                           *)
(* Python integers are unbounded; the property speaks about executions whose  *)
(* integer values stay within 64 bits.  Values are 8-byte two's complement    *)
(* words (Words.tla); an operation whose mathematical result leaves the       *)
(* 64-bit range ends the execution with status "outofmodel" (no verdict).     *)
(* An execution in which CPython raises an exception (ZeroDivisionError,      *)
(* UnboundLocalError, ValueError of range) or returns None ends "undefined"   *)
(* (the property is about returned integers).                                 *)
(*                                                                           *)
(* Expressions and conditions are evaluated by recursive operators in the     *)
(* order the reference prescribes (6.16: left to right); statements are       *)
(* executed small-step, one named action per statement kind, over a           *)
(* continuation stack, so loops are sequences of transitions.  A call of a    *)
(* generated function suspends the statement: the callee runs in a new frame, *)
(* its result is appended to the caller's `pend` list and the statement is    *)
(* evaluated again, replaying completed calls from `pend` (functions of the   *)
(* subset have no effects other than their result).                           *)
(*   Obs = [status, ret : 8-byte word].                                       *)
EXTENDS Words, FiniteSets, TLC, Json, IOUtils

Cases == JsonDeserialize(IOEnv.TRACE_FILE)     \* sequence of [id, prog, fn, argv : Seq(Seq(word)), fuel]
NChunks == 32
MaxDepth == 12                                  \* activation frames (IR.tla allows 24)

VARIABLES chunk,   \* fan-out helper (0 = not chosen yet)
          i,       \* case under execution (0 = none yet)
          av,      \* argument vector of the case under execution
          stack,   \* activation frames, top = last
          status,  \* "idle" | "run" | "ok" | "undefined" | "outofmodel" | "fuel" | "stuck"
          why,     \* reason for a non-ok status
          ret,     \* returned word of the outermost activation
          steps,   \* transitions taken
          acts     \* names of the actions taken (history variable: coverage of the specification)

vars == <<chunk, i, av, stack, status, why, ret, steps, acts>>

(* ======================= integers (reference 6.7, 6.6, 6.10) ======================== *)
\* results of an operation
Val(w) == [st |-> "ok", w |-> w]
Err(st, reason) == [st |-> st, why |-> reason]

\* An operation is exact iff its mathematical result is a value of the model.  + - and unary - are computed
\* modulo 2^64 and are exact iff the sign of the wrapped result is the one the mathematical result must have
\* (PySrc_MC.tla checks these rules against arithmetic in twice the width, where nothing can overflow);
\* the product is computed in twice the width and is exact iff it is the sign extension of its low half.
Wide(x) == WResize(x, 2 * Len(x), TRUE)
WideU(x) == WResize(x, 2 * Len(x), FALSE)
Low(z, n) == SubSeq(z, 1, n)
FitsW(z, n) == WResize(Low(z, n), Len(z), TRUE) = z
Leaves(opname) == Err("outofmodel", "result of " \o opname \o " leaves the 64-bit range")
Exact(z, n, opname) == IF FitsW(z, n) THEN Val(Low(z, n)) ELSE Leaves(opname)

PyAdd(x, y) == LET z == WAdd(x, y) IN
               IF IsNegW(x) = IsNegW(y) /\ IsNegW(z) # IsNegW(x) THEN Leaves("+") ELSE Val(z)
PySub(x, y) == LET z == WSub(x, y) IN
               IF IsNegW(x) # IsNegW(y) /\ IsNegW(z) # IsNegW(x) THEN Leaves("-") ELSE Val(z)
PyMul(x, y) == Exact(WMul(Wide(x), Wide(y)), Len(x), "*")
PyNeg(x)    == IF WIsMin(x) THEN Leaves("unary -") ELSE Val(WNeg(x))

\* 6.7: "The // operator yields the floor of the mathematical quotient ... The % operator always yields a
\* result with the same sign as its second operand (or zero); the absolute value of the result is strictly
\* smaller than the absolute value of the second operand ... x == (x//y)*y + (x%y)."
\* From the magnitudes |x| = d[1]*|y| + d[2], 0 <= d[2] < |y| (|MIN| = 2^63 is representable unsigned):
\*   signs equal          : floor = d[1],        x - floor*y has magnitude d[2]
\*   differ, d[2] = 0     : floor = -d[1],       remainder 0
\*   differ, d[2] # 0     : floor = -(d[1] + 1), remainder magnitude |y| - d[2]
\* and the remainder carries the sign of y.  Returns <<quotient, remainder>> in twice the width.
PyDivMod(x, y) ==
    LET d == WDivModU(WAbs(x), WAbs(y))
        same == IsNegW(x) = IsNegW(y)
        exact == WIsZero(d[2])
        one == WOne(2 * Len(x))
        q == IF same THEN WideU(d[1])
             ELSE IF exact THEN WNeg(WideU(d[1]))
             ELSE WNeg(WAdd(WideU(d[1]), one))
        rm == IF same \/ exact THEN WideU(d[2]) ELSE WSub(WideU(WAbs(y)), WideU(d[2]))
        r == IF IsNegW(y) THEN WNeg(rm) ELSE rm
    IN <<q, r>>
PyFloorDiv(x, y) == IF WIsZero(y) THEN Err("undefined", "ZeroDivisionError: integer division or modulo by zero")
                    ELSE Exact(PyDivMod(x, y)[1], Len(x), "//")
PyMod(x, y) == IF WIsZero(y) THEN Err("undefined", "ZeroDivisionError: integer division or modulo by zero")
               ELSE Exact(PyDivMod(x, y)[2], Len(x), "%")

ArithOps == {"+", "-", "*", "//", "%"}
Arith(op, x, y) ==
    CASE op = "+" -> PyAdd(x, y)
      [] op = "-" -> PySub(x, y)
      [] op = "*" -> PyMul(x, y)
      [] op = "//" -> PyFloorDiv(x, y)
      [] op = "%" -> PyMod(x, y)
      [] OTHER -> Err("stuck", "unknown arithmetic operator")

\* 6.10: comparison of integers is comparison of their mathematical values
CmpOps == {"==", "!=", "<", "<=", ">", ">="}
Cmp(op, x, y) ==
    CASE op = "==" -> x = y
      [] op = "!=" -> x # y
      [] op = "<"  -> WLtS(x, y)
      [] op = ">"  -> WLtS(y, x)
      [] op = "<=" -> ~WLtS(y, x)
      [] op = ">=" -> ~WLtS(x, y)
      [] OTHER -> FALSE

(* ======================= expressions (6.16 evaluation order) ======================== *)
\* results:  [t:"v", w, nx]      a value; nx = index of the next replayed call result in pend
\*           [t:"vs", ws, nx]    a list of values
\*           [t:"b", b, nx]      the truth value of a condition
\*           [t:"err", st, why]  CPython raises / the value leaves the model
\*           [t:"call", f, args] the next thing to happen is this call
V(w, nx) == [t |-> "v", w |-> w, nx |-> nx]
E(st, reason) == [t |-> "err", st |-> st, why |-> reason]
Lift(r, nx) == IF r.st = "ok" THEN V(r.w, nx) ELSE E(r.st, r.why)
BV(b, nx) == [t |-> "b", b |-> b, nx |-> nx]
None == [t |-> "none"]

RECURSIVE Eval(_, _, _, _), EvalList(_, _, _, _, _, _)
Eval(e, env, pend, nx) ==
    CASE e.k = "lit" -> V(e.w, nx)
      \* 6.2.1 / 4.2.2: a local name that is not bound raises UnboundLocalError
      [] e.k = "var" -> IF e.n \in DOMAIN env THEN V(env[e.n], nx)
                        ELSE E("undefined", "UnboundLocalError: " \o e.n)
      [] e.k = "neg" -> LET a == Eval(e.a, env, pend, nx) IN
                        IF a.t # "v" THEN a ELSE Lift(PyNeg(a.w), a.nx)
      [] e.k = "bin" -> LET a == Eval(e.a, env, pend, nx) IN
                        IF a.t # "v" THEN a
                        ELSE LET b == Eval(e.b, env, pend, a.nx) IN
                             IF b.t # "v" THEN b ELSE Lift(Arith(e.op, a.w, b.w), b.nx)
      \* 6.3.4: all argument expressions are evaluated before the call is attempted
      [] e.k = "call" -> LET as == EvalList(e.args, 1, env, pend, nx, <<>>) IN
                         IF as.t # "vs" THEN as
                         ELSE IF as.nx <= Len(pend) THEN V(pend[as.nx], as.nx + 1)
                         ELSE [t |-> "call", f |-> e.f, args |-> as.ws]
      [] OTHER -> E("stuck", "unknown expression kind")
EvalList(es, j, env, pend, nx, acc) ==
    IF j > Len(es) THEN [t |-> "vs", ws |-> acc, nx |-> nx]
    ELSE LET r == Eval(es[j], env, pend, nx) IN
         IF r.t # "v" THEN r ELSE EvalList(es, j + 1, env, pend, r.nx, Append(acc, r.w))

\* 6.10: a op1 b op2 c  is  a op1 b and b op2 c  with b evaluated once; 6.11: and / or short-circuit;
\* conditions occur only where their truth value is tested (if, while)
RECURSIVE EvalCond(_, _, _, _), CmpChain(_, _, _, _, _, _), AndOr(_, _, _, _, _, _)
CmpChain(c, j, left, env, pend, nx) ==
    LET r == Eval(c.es[j + 1], env, pend, nx) IN
    IF r.t # "v" THEN r
    ELSE IF ~Cmp(c.ops[j], left, r.w) THEN BV(FALSE, r.nx)
    ELSE IF j = Len(c.ops) THEN BV(TRUE, r.nx)
    ELSE CmpChain(c, j + 1, r.w, env, pend, r.nx)
\* stop = the truth value that ends the evaluation (FALSE for and, TRUE for or)
AndOr(cs, j, stop, env, pend, nx) ==
    LET r == EvalCond(cs[j], env, pend, nx) IN
    IF r.t # "b" THEN r
    ELSE IF r.b = stop \/ j = Len(cs) THEN r
    ELSE AndOr(cs, j + 1, stop, env, pend, r.nx)
EvalCond(c, env, pend, nx) ==
    CASE c.k = "cmp" -> IF Len(c.es) # Len(c.ops) + 1 \/ Len(c.ops) < 1 \/ \E j \in 1..Len(c.ops) : c.ops[j] \notin CmpOps
                        THEN E("stuck", "malformed comparison")
                        ELSE LET a == Eval(c.es[1], env, pend, nx) IN
                             IF a.t # "v" THEN a ELSE CmpChain(c, 1, a.w, env, pend, a.nx)
      [] c.k = "and" -> IF Len(c.cs) < 1 THEN E("stuck", "empty and") ELSE AndOr(c.cs, 1, FALSE, env, pend, nx)
      [] c.k = "or" -> IF Len(c.cs) < 1 THEN E("stuck", "empty or") ELSE AndOr(c.cs, 1, TRUE, env, pend, nx)
      [] c.k = "not" -> LET r == EvalCond(c.c, env, pend, nx) IN
                        IF r.t # "b" THEN r ELSE BV(~r.b, r.nx)
      [] OTHER -> E("stuck", "unknown condition kind")

(* ======================= the statement machine ======================================= *)
C == Cases[i]
Prog == C.prog
FnIndex(name) == LET S == {k \in 1..Len(Prog.funcs) : Prog.funcs[k].n = name}
                 IN IF S = {} THEN 0 ELSE CHOOSE k \in S : TRUE

\* continuation items
Blk(b) == [k |-> "seq", b |-> b, pc |-> 1]
WhileK(s) == [k |-> "while", s |-> s]
\* 8.3 + range(): the iterable is evaluated once; live = FALSE once cur + step has left the 64-bit range
\* (the sequence is then exhausted: every later element would lie beyond stop)
ForK(s, cur, stop, step) == [k |-> "for", s |-> s, cur |-> cur, stop |-> stop, step |-> step, live |-> TRUE]

RECURSIVE BindR(_, _, _, _)
BindR(names, ws, j, env) == IF j > Len(names) THEN env ELSE BindR(names, ws, j + 1, (names[j] :> ws[j]) @@ env)
NewFrame(fi, args) == [f |-> fi, env |-> BindR(Prog.funcs[fi].params, args, 1, <<>>),
                       ks |-> <<Blk(Prog.funcs[fi].body)>>, pend |-> <<>>]

Running == i > 0 /\ status = "run"
Top == stack[Len(stack)]
K == Top.ks
It == K[Len(K)]
AtStmt == Running /\ Len(K) > 0 /\ It.k = "seq" /\ It.pc <= Len(It.b)
AtEnd == Running /\ Len(K) > 0 /\ It.k = "seq" /\ It.pc > Len(It.b)
AtWhile == Running /\ Len(K) > 0 /\ It.k = "while"
AtFor == Running /\ Len(K) > 0 /\ It.k = "for"
St == It.b[It.pc]
Is(kind) == AtStmt /\ St.k = kind

\* what the current configuration has to evaluate before it can take its step
AugEval(s) == IF s.n \notin DOMAIN Top.env THEN E("undefined", "UnboundLocalError: " \o s.n)   \* 7.2.1: target read first
              ELSE LET r == Eval(s.e, Top.env, Top.pend, 1) IN
                   IF r.t # "v" THEN r ELSE Lift(Arith(s.op, Top.env[s.n], r.w), r.nx)
Need ==
    IF AtStmt THEN
       CASE St.k \in {"asg", "expr", "ret"} -> Eval(St.e, Top.env, Top.pend, 1)
         [] St.k = "aug" -> AugEval(St)
         [] St.k = "tup" -> EvalList(St.es, 1, Top.env, Top.pend, 1, <<>>)
         [] St.k = "if" -> EvalCond(St.c, Top.env, Top.pend, 1)
         [] St.k = "for" -> EvalList(St.args, 1, Top.env, Top.pend, 1, <<>>)
         [] OTHER -> None
    ELSE IF AtWhile THEN EvalCond(It.s.c, Top.env, Top.pend, 1)
    ELSE None

Tick(name) == steps' = steps + 1 /\ acts' = acts \cup {name}
Halt(name, st, reason) ==
    /\ status' = st /\ why' = reason
    /\ UNCHANGED <<stack, ret>>
    /\ Tick(name)
\* replace environment and continuation of the running frame; the statement is complete, so pend is dropped
Commit(name, env2, ks2) ==
    /\ stack' = [stack EXCEPT ![Len(stack)] = [@ EXCEPT !.env = env2, !.ks = ks2, !.pend = <<>>]]
    /\ UNCHANGED <<status, why, ret>>
    /\ Tick(name)

KPop == SubSeq(K, 1, Len(K) - 1)
AdvTop(ks) == [ks EXCEPT ![Len(ks)] = [@ EXCEPT !.pc = @ + 1]]
KAdv == AdvTop(K)                                        \* the current statement is done
LoopIdx == {j \in 1..Len(K) : K[j].k \in {"while", "for"}}
Innermost == CHOOSE j \in LoopIdx : \A m \in LoopIdx : m <= j

(* ---- calls ---------------------------------------------------------------------------- *)
CallStep(nd) ==
    /\ Running /\ nd.t = "call"
    /\ LET fi == FnIndex(nd.f) IN
       IF fi = 0 THEN Halt("CallStep", "stuck", "call of an unknown function")
       ELSE IF Len(Prog.funcs[fi].params) # Len(nd.args) THEN Halt("CallStep", "stuck", "arity mismatch")
       ELSE IF Len(stack) >= MaxDepth THEN Halt("CallStep", "fuel", "call depth")
       ELSE /\ stack' = Append(stack, NewFrame(fi, nd.args))
            /\ UNCHANGED <<status, why, ret>>
            /\ Tick("CallStep")

\* an exception is raised (nothing in the subset catches it) or a value leaves the model
Raise(nd) == Running /\ nd.t = "err" /\ Halt("Raise", nd.st, nd.why)

(* ---- simple statements (7.1, 7.2, 7.2.1, 7.4) --------------------------------------------- *)
Assign(nd) == Is("asg") /\ nd.t = "v" /\ Commit("Assign", (St.n :> nd.w) @@ Top.env, KAdv)
AugAssign(nd) == Is("aug") /\ nd.t = "v" /\ Commit("AugAssign", (St.n :> nd.w) @@ Top.env, KAdv)
\* 7.2: the expression list is evaluated first, then the targets are assigned from left to right
TupleAssign(nd) == /\ Is("tup") /\ nd.t = "vs"
               /\ IF Len(St.ns) # Len(nd.ws) THEN Halt("TupleAssign", "stuck", "tuple length mismatch")
                  ELSE Commit("TupleAssign", BindR(St.ns, nd.ws, 1, Top.env), KAdv)
ExprStmt(nd) == Is("expr") /\ nd.t = "v" /\ Commit("ExprStmt", Top.env, KAdv)
Pass == Is("pass") /\ Commit("Pass", Top.env, KAdv)

(* ---- compound statements (8.1, 8.2, 8.3) -------------------------------------------------- *)
If(nd) == Is("if") /\ nd.t = "b" /\ Commit("If", Top.env, Append(KAdv, Blk(IF nd.b THEN St.t ELSE St.f)))

WhileEnter == Is("while") /\ Commit("WhileEnter", Top.env, Append(K, WhileK(St)))
\* 8.2: "repeatedly tests the expression and, if it is true, executes the suite; if false the loop terminates"
WhileTest(nd) == /\ AtWhile /\ nd.t = "b"
             /\ Commit("WhileTest", Top.env, IF nd.b THEN Append(K, Blk(It.s.b)) ELSE AdvTop(KPop))

\* range(stop) | range(start, stop) | range(start, stop, step); step = 0 raises ValueError
ForEnter(nd) ==
    /\ Is("for") /\ nd.t = "vs"
    /\ LET a == nd.ws
           n == Len(a)
       IN IF n < 1 \/ n > 3 THEN Halt("ForEnter", "stuck", "range takes 1..3 arguments")
          ELSE LET start == IF n = 1 THEN WZero(Len(a[1])) ELSE a[1]
                   stop == IF n = 1 THEN a[1] ELSE a[2]
                   step == IF n = 3 THEN a[3] ELSE WOne(Len(a[1]))
               IN IF WIsZero(step) THEN Halt("ForEnter", "undefined", "ValueError: range() arg 3 must not be zero")
                  ELSE Commit("ForEnter", Top.env, Append(K, ForK(St, start, stop, step)))
\* 8.3: "the suite is executed once for each item provided by the iterator ... each item in turn is assigned to
\* the target"; "when the items are exhausted ... the loop terminates".  The target is an ordinary local:
\* assignments to it in the suite do not influence the next item, and it keeps its last value afterwards.
InRange(m) == m.live /\ (IF IsNegW(m.step) THEN WLtS(m.stop, m.cur) ELSE WLtS(m.cur, m.stop))
ForNext ==
    /\ AtFor
    /\ IF InRange(It)
       THEN LET nxt == PyAdd(It.cur, It.step)
                m2 == IF nxt.st = "ok" THEN [It EXCEPT !.cur = nxt.w] ELSE [It EXCEPT !.live = FALSE]
            IN Commit("ForNext", (It.s.v :> It.cur) @@ Top.env, Append(Append(KPop, m2), Blk(It.s.b)))
       ELSE Commit("ForNext", Top.env, AdvTop(KPop))

\* 7.9 / 7.10: break terminates, continue continues with the next cycle of, the nearest enclosing loop
Break == /\ Is("break")
         /\ IF LoopIdx = {} THEN Halt("Break", "stuck", "break outside loop")
            ELSE Commit("Break", Top.env, AdvTop(SubSeq(K, 1, Innermost - 1)))
Continue == /\ Is("continue")
            /\ IF LoopIdx = {} THEN Halt("Continue", "stuck", "continue outside loop")
               ELSE Commit("Continue", Top.env, SubSeq(K, 1, Innermost))

\* 7.6: return leaves the current function call with the expression as return value
Return(nd) ==
    /\ Is("ret") /\ nd.t = "v"
    /\ IF Len(stack) = 1
       THEN /\ status' = "ok" /\ why' = "" /\ ret' = nd.w /\ stack' = <<>>
            /\ Tick("Return")
       ELSE /\ stack' = [j \in 1..(Len(stack) - 1) |->
                           IF j < Len(stack) - 1 THEN stack[j]
                           ELSE [stack[j] EXCEPT !.pend = Append(@, nd.w)]]
            /\ UNCHANGED <<status, why, ret>>
            /\ Tick("Return")

\* end of a suite: back to the enclosing construct; the end of the function body returns None (6.3.4),
\* which is not an integer: the property says nothing about such executions
BlockEnd == /\ AtEnd
            /\ IF Len(K) = 1 THEN Halt("BlockEnd", "undefined", "the function returns None")
               ELSE Commit("BlockEnd", Top.env, KPop)

Unknown == /\ AtStmt
           /\ St.k \notin {"asg", "aug", "tup", "expr", "pass", "ret", "if", "while", "for", "break", "continue"}
           /\ Halt("Unknown", "stuck", "unknown statement kind")

OutOfFuel == Running /\ steps >= C.fuel

\* nd = what the configuration needs evaluated (Need), computed once per step
StmtStepN(nd) == \/ CallStep(nd) \/ Raise(nd) \/ Assign(nd) \/ AugAssign(nd) \/ TupleAssign(nd) \/ ExprStmt(nd) \/ Pass
                 \/ If(nd) \/ WhileEnter \/ WhileTest(nd) \/ ForEnter(nd) \/ ForNext \/ Break \/ Continue \/ Return(nd)
                 \/ BlockEnd \/ Unknown
StmtStep == StmtStepN(Need)
Step == ~OutOfFuel /\ StmtStep /\ UNCHANGED <<chunk, i, av>>
Exhaust == /\ OutOfFuel
           /\ status' = "fuel" /\ why' = "step budget"
           /\ acts' = acts \cup {"Exhaust"}
           /\ UNCHANGED <<chunk, i, av, stack, ret, steps>>

(* ---- observation and batch driver ----------------------------------------------------------- *)
Obs == [status |-> status, ret |-> ret, why |-> why]
Finished == i > 0 /\ status \notin {"run", "idle"}

Start(c, a) ==
    LET S == {k \in 1..Len(c.prog.funcs) : c.prog.funcs[k].n = c.fn} IN
    IF S = {} THEN status' = "stuck" /\ why' = "no such function" /\ stack' = <<>>
    ELSE LET fi == CHOOSE k \in S : TRUE
             fd == c.prog.funcs[fi]
         IN IF Len(fd.params) # Len(c.argv[a])
            THEN status' = "stuck" /\ why' = "arity mismatch" /\ stack' = <<>>
            ELSE /\ status' = "run" /\ why' = ""
                 /\ stack' = <<[f |-> fi, env |-> BindR(fd.params, c.argv[a], 1, <<>>),
                               ks |-> <<Blk(fd.body)>>, pend |-> <<>>]>>

Init == /\ chunk = 0 /\ i = 0 /\ av = 0 /\ stack = <<>> /\ status = "idle" /\ why = "" /\ ret = <<>>
        /\ steps = 0 /\ acts = {}
PickChunk == /\ chunk = 0 /\ chunk' \in 1..NChunks
             /\ UNCHANGED <<i, av, stack, status, why, ret, steps, acts>>
PickCase == /\ chunk > 0 /\ i = 0
            /\ i' \in {k \in 1..Len(Cases) : k % NChunks = chunk - 1}
            /\ av' \in 1..Len(Cases[i'].argv)
            /\ Start(Cases[i'], av')
            /\ UNCHANGED <<chunk, ret, steps, acts>>
Next == PickChunk \/ PickCase \/ Step \/ Exhaust

(* ---- sanity of the semantics itself ----------------------------------------------------------- *)
TypeOK == /\ status \in {"idle", "run", "ok", "undefined", "outofmodel", "fuel", "stuck"}
          /\ (status = "run" => Len(stack) >= 1)
          /\ (status = "ok" => Len(ret) = 8)
\* a well-formed program never reaches a configuration the semantics has no rule for
NeverStuck == status # "stuck"
=============================================================================
