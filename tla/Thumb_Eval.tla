----------------------------- MODULE Thumb_Eval -----------------------------
(* Idiom E for the ARM part of C08 / C07: one state per record observed on   *)
(* the real ppci code (harness/armgen.py); one invariant per clause.         *)
(*                                                                           *)
(* t = "enc": one instruction instance of ppci.arch.arm (isa = "thumb" |     *)
(*     "arm"): mn, ops = the text ppci printed, tokenised; sym, pc = address *)
(*     of the label operand / of the instruction; out = [ok, exc, bytes]:    *)
(*     what encode() (+ the instruction's own relocation) or the assembler   *)
(*     and linker produced                                                   *)
(* t = "rw":  bytes of the instance, uses / defs / clob = numbers of the     *)
(*     core registers ppci declares as read / written / clobbered            *)
EXTENDS ArmExec, Json, IOUtils
Recs == JsonDeserialize(IOEnv.TRACE_FILE)
ChunkLen == 16
NChunks == (Len(Recs) + ChunkLen - 1) \div ChunkLen
VARIABLES chunk, idx
vars == <<chunk, idx>>
Init == chunk = 0 /\ idx = 0
PickChunk == chunk = 0 /\ chunk' \in 1..NChunks /\ idx' = 0
PickRec == chunk > 0 /\ idx = 0 /\ chunk' = chunk
           /\ idx' \in ((chunk - 1) * ChunkLen + 1)..(IF chunk * ChunkLen < Len(Recs) THEN chunk * ChunkLen ELSE Len(Recs))
Next == PickChunk \/ PickRec

SetOf(q) == {q[k] : k \in 1..Len(q)}
Dec(r, b) == IF r.isa = "thumb" THEN Decode(b) ELSE DecodeA(b)
AsmOf(r) == IF r.isa = "thumb" THEN AsmT(r.mn, r.ops, r.sym, r.pc) ELSE AsmA(r.mn, r.ops, r.sym, r.pc)

\* ---- C08: whatever ppci accepts and emits decodes to the operation and operands it prints
IsEnc == idx > 0 /\ Recs[idx].t = "enc"
\* not a verdict (reported as a note): the printed line is outside the modelled assembly syntax
SyntaxKnown == (IsEnc /\ Recs[idx].mn # "invalid") => AsmOf(Recs[idx]) # NoAsm
\* spec validation only (text = the reference disassembler's output; "invalid" = it rejects the bytes)
RefInvalid == (IsEnc /\ Recs[idx].mn = "invalid") => ~Valid(Dec(Recs[idx], Recs[idx].out.bytes))
\* (no verdict where the architecture leaves the emitted encoding UNPREDICTABLE, e.g. "blx pc": note only)
Predictable == (IsEnc /\ Recs[idx].out.ok) => Dec(Recs[idx], Recs[idx].out.bytes).mn # "unpredictable"
EncodingAgrees == (IsEnc /\ Recs[idx].out.ok) =>
    \E a \in {AsmOf(Recs[idx])} : \E d \in {Dec(Recs[idx], Recs[idx].out.bytes)} :
        (a # NoAsm /\ d.mn # "unpredictable") => Core(d) = Core(a)
RefAgrees == (IsEnc /\ Recs[idx].out.ok) =>
    \E a \in {AsmOf(Recs[idx])} : \E d \in {Dec(Recs[idx], Recs[idx].out.bytes)} :
        (a # NoAsm /\ d.mn \notin {"unpredictable", "unsupported"}) => Core(d) = Core(a)

\* ---- C07: the registers the emitted instruction reads / writes are declared
IsRw == idx > 0 /\ Recs[idx].t = "rw"
\* (note only: bytes outside the model or UNPREDICTABLE have no register sets to compare)
Decodable == IsRw => Valid(Dec(Recs[idx], Recs[idx].bytes))
StaticWrites == IsRw => \E d \in {Dec(Recs[idx], Recs[idx].bytes)} :
    Valid(d) => (Writes(d) \ (ImplicitW(d) \cup LinkW(d))) \subseteq (SetOf(Recs[idx].defs) \cup SetOf(Recs[idx].clob))
LinkWrite == IsRw => \E d \in {Dec(Recs[idx], Recs[idx].bytes)} :
    Valid(d) => LinkW(d) \subseteq (SetOf(Recs[idx].defs) \cup SetOf(Recs[idx].clob))
StaticReads == IsRw => \E d \in {Dec(Recs[idx], Recs[idx].bytes)} :
    Valid(d) => (Reads(d) \ ImplicitR(d)) \subseteq SetOf(Recs[idx].uses)

\* ---- C07, dynamic clauses: ArmExec.Step on the seeded states Recs[idx].seeds (state k carries the flags SeedFlags[k])
DeclWs(r) == SetOf(r.defs) \cup SetOf(r.clob)
\* (i) executing the instruction changes no register outside the declared writes / clobbers (lr of a call: LinkWrite)
NoUndeclaredChange == IsRw => \E d \in {Dec(Recs[idx], Recs[idx].bytes)} : Valid(d) =>
    \A k \in SetOf(Recs[idx].seeds) :
        \E s \in {SeedState(k, SeedFlags[k])} : \E t \in {Step(s, d, Recs[idx].isa)} :
            t.st = "ok" => \A q \in 0..14 : (q \notin DeclWs(Recs[idx]) \cup LinkW(d)) => t.x[q + 1] = s.x[q + 1]
\* (ii) two states that agree on the declared reads (+ the sp / pc the encoding fixes, the flags, memory) give the same
\* declared outputs, memory effect and control transfer (an unexecuted conditional instruction keeps its old destination)
OutputsDependOnDeclaredReads == IsRw => \E d \in {Dec(Recs[idx], Recs[idx].bytes)} : Valid(d) =>
    \A k \in SetOf(Recs[idx].seeds) :
        \E s1 \in {SeedState(k, SeedFlags[k])} : \E s2 \in {Perturb(s1, SetOf(Recs[idx].uses) \cup ImplicitR(d))} :
        \E t1 \in {Step(s1, d, Recs[idx].isa)} : \E t2 \in {Step(s2, d, Recs[idx].isa)} :
            (t1.st = "ok" /\ t2.st = "ok" /\ CondHolds(d.cond, s1.f)) =>
                /\ \A q \in SetOf(Recs[idx].defs) \ {PC} : t1.x[q + 1] = t2.x[q + 1]
                /\ t1.mem = t2.mem /\ t1.pc = t2.pc
=============================================================================
