-------------------------------- MODULE Dom --------------------------------
(* Path-based definitions of dominance, post-dominance and reachability on  *)
(* a rooted directed graph (property C25; reused for "definition dominates  *)
(* use" in IR well-formedness).                                              *)
(*                                                                           *)
(* A graph is a set E of pairs <<a, b>> (edge a -> b) over any node values; *)
(* r is the root (the entry node; for post-dominance the exit node of the   *)
(* reversed graph).  Nothing here is an algorithm for dominators: every     *)
(* notion is defined through reachability, i.e. through the existence of    *)
(* paths.  Dom_MC checks on all small graphs that these definitions agree   *)
(* with the literal ones ("every path from r to n contains d") and that the *)
(* algorithms used by ppci (iterative data-flow, Lengauer-Tarjan,           *)
(* interval numbering of the dominator tree, Cytron's bottom-up dominance   *)
(* frontier) compute exactly them.                                           *)
(*                                                                           *)
(* All notions are defined for nodes reachable from r only: for an          *)
(* unreachable n "every path from r to n" is vacuous and neither the        *)
(* property nor this module says anything about it.                          *)
EXTENDS Naturals, FiniteSets, Sequences

Succs(E, n) == {e[2] : e \in {f \in E : f[1] = n}}
Preds(E, n) == {e[1] : e \in {f \in E : f[2] = n}}
Rev(E)      == {<<e[2], e[1]>> : e \in E}
NodesOf(E)  == {e[1] : e \in E} \cup {e[2] : e \in E}
\* the graph with node d (and every edge touching it) deleted
Without(E, d) == {e \in E : e[1] # d /\ e[2] # d}

\* least set containing S and closed under E-successors
RECURSIVE Grow(_, _)
Grow(E, S) == LET S2 == S \cup {e[2] : e \in {f \in E : f[1] \in S}}
              IN IF S2 = S THEN S ELSE Grow(E, S2)
ReachSet(E, S) == Grow(E, S)                  \* paths of length >= 0 from a node of S
Reach(E, r)    == ReachSet(E, {r})            \* nodes reachable from r (r included)
ReachPlus(E, a) == ReachSet(E, Succs(E, a))   \* nodes reachable from a by >= 1 edge
CanReach(E, a, b) == b \in ReachPlus(E, a)
OnCycle(E, a)  == a \in ReachPlus(E, a)

(***************************************************************************)
(* Dominance.  d dominates n (both reachable from r) iff every path from r *)
(* to n contains d, iff n cannot be reached from r once d is deleted.      *)
(***************************************************************************)
\* the set of nodes dominated by d
Dominated(E, r, d) ==
    Reach(E, r) \ (IF d = r THEN {} ELSE ReachSet(Without(E, d), {r}))
Dominates(E, r, d, n)         == n \in Dominated(E, r, d)
StrictlyDominates(E, r, d, n) == d # n /\ Dominates(E, r, d, n)

\* "dominance map": node d |-> set of nodes it dominates.  Heavy; evaluate
\* once per graph and hand it to the operators below.
DomMap(E, r) == [d \in Reach(E, r) |-> Dominated(E, r, d)]
DomSetM(DM, n)  == {d \in DOMAIN DM : n \in DM[d]}           \* dominators of n
SDomSetM(DM, n) == DomSetM(DM, n) \ {n}
\* the strict dominators of n that every strict dominator of n dominates:
\* by LawTree exactly one node for n # r reachable, none for r
IDomSetM(DM, n) == {d \in SDomSetM(DM, n) : \A d2 \in SDomSetM(DM, n) : d \in DM[d2]}
HasIDomM(DM, n) == IDomSetM(DM, n) # {}
IDomM(DM, n)    == CHOOSE d \in IDomSetM(DM, n) : TRUE
ChildrenM(DM, n) == {c \in DOMAIN DM : IDomSetM(DM, c) = {n}}   \* dominator tree

DomSet(E, r, n)  == DomSetM(DomMap(E, r), n)
SDomSet(E, r, n) == DomSet(E, r, n) \ {n}
IDomSet(E, r, n) == IDomSetM(DomMap(E, r), n)
IDom(E, r, n)    == IDomM(DomMap(E, r), n)

(***************************************************************************)
(* The same dominance map evaluated with less work (successor table built  *)
(* once, frontier-driven search that simply never enters the deleted node).*)
(* Dom_MC checks DomMapF = DomMap on every small graph; the evaluation of   *)
(* recorded runs uses DomMapF.                                             *)
(***************************************************************************)
SuccTable(E, r) == [n \in NodesOf(E) \cup {r} |-> {e[2] : e \in {f \in E : f[1] = n}}]
RECURSIVE Spread(_, _, _, _)
Spread(ST, seen, front, avoid) ==
    IF front = {} THEN seen
    ELSE LET nxt == (UNION {ST[x] : x \in front}) \ (seen \cup avoid)
         IN Spread(ST, seen \cup nxt, nxt, avoid)
DomMapF(E, r) ==
    LET ST == SuccTable(E, r)
        R  == Spread(ST, {r}, {r}, {})
    IN [d \in R |-> IF d = r THEN R ELSE R \ Spread(ST, {r}, {r}, {d})]
PDomMapF(E, x) == DomMapF(Rev(E), x)

(***************************************************************************)
(* Dominance frontier, Cytron et al.'s *definition*:                       *)
(*   DF(x) = { y : x dominates a predecessor of y and x does not strictly  *)
(*                 dominate y }                                            *)
(* (predecessors that are unreachable from r do not count).                *)
(***************************************************************************)
DFM(E, DM, x) ==
    {y \in DOMAIN DM : /\ \E p \in Preds(E, y) \cap DOMAIN DM : p \in DM[x]
                       /\ ~(x # y /\ y \in DM[x])}
DF(E, r, x) == DFM(E, DomMap(E, r), x)

(***************************************************************************)
(* Post-dominance w.r.t. exit x: dominance in the reversed graph rooted at *)
(* x; defined for the nodes that can reach x.  d post-dominates n iff      *)
(* every path from n to x contains d.                                      *)
(***************************************************************************)
CanExit(E, x)          == Reach(Rev(E), x)
PDomMap(E, x)          == DomMap(Rev(E), x)
PostDominates(E, x, d, n) == Dominates(Rev(E), x, d, n)
PDomSet(E, x, n)       == DomSet(Rev(E), x, n)
IPDomSet(E, x, n)      == IDomSet(Rev(E), x, n)

(***************************************************************************)
(* Interval numbering of the dominator tree: iv maps a node to <<lo, hi>>. *)
(* The numbering is right iff nesting of intervals is exactly dominance.   *)
(***************************************************************************)
Within(a, b)         == b[1] <= a[1] /\ a[2] <= b[2]      \* a inside b, or equal
StrictlyWithin(a, b) == b[1] <  a[1] /\ a[2] <  b[2]
IntervalsMatch(DM, iv) ==
    \A d \in DOMAIN DM : \A n \in DOMAIN DM :
        /\ iv[n][1] < iv[n][2]
        /\ Within(iv[n], iv[d])         <=> n \in DM[d]
        /\ StrictlyWithin(iv[n], iv[d]) <=> (n # d /\ n \in DM[d])

(***************************************************************************)
(* Literal path-based forms, used by Dom_MC to anchor the cheap forms      *)
(* above (simple paths suffice: a path avoiding d contains a simple path   *)
(* avoiding d).                                                            *)
(***************************************************************************)
\* every simple path (sequence of distinct nodes along edges, length >= 1) over node
\* set N, built by extension: a path is a single node, or a path extended by a
\* successor of its last node that is not yet on it (heavy: evaluate once per graph)
RECURSIVE Extend(_, _, _)
Extend(E, all, new) ==
    IF new = {} THEN all
    ELSE LET nxt == UNION {{Append(p, m) : m \in {y \in Succs(E, p[Len(p)]) : \A i \in 1..Len(p) : p[i] # y}} : p \in new}
         IN Extend(E, all \cup nxt, nxt)
AllSimplePaths(E, N) == Extend(E, {<<n>> : n \in N}, {<<n>> : n \in N})
PathsBetween(SP, a, b) == {p \in SP : p[1] = a /\ p[Len(p)] = b}
OnPath(p, d) == \E i \in 1..Len(p) : p[i] = d
\* n is reachable from r and every path from r to n contains d
DominatesByPaths(SP, r, d, n) ==
    /\ PathsBetween(SP, r, n) # {}
    /\ \A p \in PathsBetween(SP, r, n) : OnPath(p, d)
\* n can reach x and every path from n to x contains d
PostDominatesByPaths(SP, x, d, n) ==
    /\ PathsBetween(SP, n, x) # {}
    /\ \A p \in PathsBetween(SP, n, x) : OnPath(p, d)
=============================================================================
