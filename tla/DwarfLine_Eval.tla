---------------------------- MODULE DwarfLine_Eval ----------------------------
(* Idiom E: what ppci/format/dwarf produced, decoded by the DwarfLine machine.     *)
(* TRACE_FILE is a JSON array of records                                           *)
(*   {"key", "mode": "raw" | "emit", "ok": bool, "exc": str, "bytes": [u8],        *)
(*    "hp": prologue values (raw mode), "rows": [[addr, file, line]] (raw mode:    *)
(*    the matrix ppci's own ExecutionContext built from the same opcode objects),  *)
(*    "pairs": [[addr, line]] (emit mode: the linked object's debug locations,     *)
(*    address = symbol value + section address)}                                   *)
(* raw:  bytes = LineNumberProgram(...).encode() without prologue; the machine     *)
(*       must halt normally with the matrix ppci's execute() methods built.        *)
(* emit: bytes = the debug_line section emit_dwarf added to the linked object: a   *)
(*       DWARF 2 statement program whose prologue parses (its header_length        *)
(*       is where the file table ends), whose matrix holds exactly the            *)
(*       (address, line) pairs of the object's debug locations and ends each       *)
(*       sequence with end_sequence.                                               *)
EXTENDS DwarfLine, Json, IOUtils, TLC, FiniteSets

Recs == JsonDeserialize(IOEnv.TRACE_FILE)
NChunks == 8
VARIABLES chunk, i
vars == <<prog, hp, pc, regs, rows, status, chunk, i>>

NoHp == [min_inst |-> 1, default_is_stmt |-> FALSE, line_base |-> 0, line_range |-> 1, opcode_base |-> 1, std_len |-> <<>>]
Pro(r) == Prologue(r.bytes, 1)
Usable(r) == r.ok /\ (r.mode = "emit" => (Len(r.bytes) > 0 /\ Pro(r).ok))

Init == chunk = 0 /\ i = 0 /\ DInit(<<>>, NoHp, 1) /\ status = "run"
PickChunk == /\ chunk = 0 /\ chunk' \in 1..NChunks /\ UNCHANGED <<i, prog, hp, pc, regs, rows, status>>
PickRec == /\ chunk > 0 /\ i = 0 /\ i' \in {c \in 1..Len(Recs) : c % NChunks = chunk - 1}
           /\ LET r == Recs[i'] IN
              IF ~Usable(r) THEN prog' = <<>> /\ hp' = NoHp /\ pc' = 1 /\ regs' = InitRegs(NoHp) /\ rows' = <<>> /\ status' = "unusable"
              ELSE IF r.mode = "raw" THEN prog' = r.bytes /\ hp' = r.hp /\ pc' = 1 /\ regs' = InitRegs(r.hp) /\ rows' = <<>> /\ status' = "run"
              ELSE prog' = SubSeq(r.bytes, 1, Pro(r).end) /\ hp' = Pro(r).hp /\ pc' = Pro(r).start
                   /\ regs' = InitRegs(Pro(r).hp) /\ rows' = <<>> /\ status' = "run"
           /\ UNCHANGED chunk
Run == i > 0 /\ DStep /\ UNCHANGED <<chunk, i>>
Next == PickChunk \/ PickRec \/ Run

Rec == Recs[i]
Fin == i > 0 /\ status # "run"
\* ppci produced something at all
Produces == i > 0 => (Rec.ok /\ (Rec.mode = "emit" => (Len(Rec.pairs) > 0 => Len(Rec.bytes) > 0)))
PrologueOK == (i > 0 /\ Rec.ok /\ Rec.mode = "emit" /\ Len(Rec.bytes) > 0) =>
                 (Pro(Rec).ok /\ Pro(Rec).tables_end = Pro(Rec).start)
Halts == Fin => status \in {"done", "unusable"}
RawAgrees == (Fin /\ status = "done" /\ Rec.mode = "raw") =>
                 [n \in 1..Len(rows) |-> <<rows[n][1], rows[n][2], rows[n][3]>>] = Rec.rows
EmitAgrees == (Fin /\ status = "done" /\ Rec.mode = "emit") =>
    /\ {<<rows[n][1], rows[n][3]>> : n \in {m \in 1..Len(rows) : ~rows[m][7]}} = {<<Rec.pairs[n][1], Rec.pairs[n][2]>> : n \in 1..Len(Rec.pairs)}
    /\ Len(rows) > 0 => rows[Len(rows)][7]
    \* inside a sequence addresses do not decrease
    /\ \A n \in 1..(Len(rows) - 1) : ~rows[n][7] => rows[n][1] <= rows[n + 1][1]
ShownE == [i |-> i, pc |-> pc, status |-> status, nrows |-> Len(rows)]
=============================================================================
