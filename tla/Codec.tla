------------------------------- MODULE Codec -------------------------------
(* C09: the round-trip law of an instruction codec.                          *)
(*                                                                           *)
(*      Asm(Print(i)) = <<Encode(i), Relocs(i)>>                             *)
(*                                                                           *)
(* An observation of one instruction instance i is a record                  *)
(*   direct = [bytes |-> Encode(i), relocs |-> Relocs(i)]                    *)
(*   asm    = [ok, exc, bytes, relocs]   what assembling the text Print(i)   *)
(*            produced: section bytes and relocation list, or the exception  *)
(* A relocation is <<type name, symbol name, offset, addend (decimal text)>>.*)
(* Byte sequences are compared as sequences, relocation lists as multisets   *)
(* (the order in which an object file lists relocations carries no meaning). *)
(* The specification content is only this law; the instruction sets are not  *)
(* modelled (DESIGN section 6: level "other").                               *)
EXTENDS Naturals, Sequences, FiniteSets

IsBytes(s) == \A k \in 1..Len(s) : s[k] \in 0..255
Count(A, x) == Cardinality({k \in 1..Len(A) : A[k] = x})
SameBag(A, B) == Len(A) = Len(B) /\ \A k \in 1..Len(A) : Count(A, A[k]) = Count(B, A[k])

\* the three clauses of the law
Accepted(r)   == r.asm.ok                                         \* the assembler accepts ppci's own printed form
SameBytes(r)  == r.asm.ok => (IsBytes(r.asm.bytes) /\ r.asm.bytes = r.direct.bytes)
SameRelocs(r) == r.asm.ok => SameBag(r.asm.relocs, r.direct.relocs)
Law(r) == Accepted(r) /\ SameBytes(r) /\ SameRelocs(r)

Failing(r) == (IF Accepted(r) THEN {} ELSE {"rejected"})
              \cup (IF SameBytes(r) THEN {} ELSE {"bytes"})
              \cup (IF SameRelocs(r) THEN {} ELSE {"relocs"})
=============================================================================
