------------------------------ MODULE MipsExec ------------------------------
(* Small-step semantics of the MIPS32 subset that Mips.Decode accepts        *)
(* (MIPS32 Architecture For Programmers volume II, the "Operation:" sections *)
(* of the instruction descriptions; volume I chapter 4.1.3 "Jump and branch  *)
(* instructions" for the delay slot), on the machine shape of RV32.tla.      *)
(*                                                                           *)
(* State [pc, npc, x, hi, lo, mem]: pc = address of the instruction that is  *)
(* executed next, npc = address of the one after it.  A taken branch or jump *)
(* changes npc only, so the instruction in the delay slot (at the old npc)   *)
(* is executed before the target: every step is  pc' = npc,  npc' = target   *)
(* or npc + 4.  x is a 32-tuple of 4-byte words indexed r + 1 (r0 reads 0),  *)
(* hi / lo the multiply-divide registers, mem a total byte memory (background *)
(* pattern + log of written bytes), little-endian as ppci's mips target      *)
(* declares (MipsArch.info: Endianness.LITTLE).                              *)
(*                                                                           *)
(* What is modelled, and how:                                                *)
(*  - add / addi / sub raise Integer Overflow on signed overflow: st "trap"  *)
(*    (addu / addiu / subu wrap)                                             *)
(*  - lh / lhu / sh need 2-byte, lw / sw 4-byte aligned addresses, else       *)
(*    Address Error: st "trap"                                               *)
(*  - mult / multu / div / divu write HI / LO; division by zero is           *)
(*    UNPREDICTABLE: st "outofmodel";  mul writes rd (HI / LO kept)          *)
(*  - jal / jalr / b..al link to pc + 8 (the instruction after the delay     *)
(*    slot); the "likely" branches nullify the delay slot when not taken     *)
(*  - a branch or jump in a delay slot is UNPREDICTABLE: st "outofmodel"     *)
(*  - lwl / lwr / swl / swr, ll / sc, syscall, break, traps, madd..msubu,    *)
(*    sync and everything Mips.Decode calls reserved / unsupported:          *)
(*    st "outofmodel" (never a verdict about the program)                    *)
EXTENDS Words, FiniteSets
M == INSTANCE Mips

W4(v) == WFromInt(v, 4)
Reg(s, r) == IF r = 0 THEN WZero(4) ELSE s.x[r + 1]
SetReg(x, r, w) == IF r = 0 \/ r = 32 THEN x ELSE Mk([x EXCEPT ![r + 1] = w])
Background(salt, a) == (a[1] * 7 + a[2] * 13 + a[3] * 31 + a[4] * 3 + salt + (a[1] \div 4) * 64) % 256
RECURSIVE Lookup(_, _, _)
Lookup(ov, a, k) == IF k = 0 THEN -1 ELSE IF ov[k][1] = a THEN ov[k][2] ELSE Lookup(ov, a, k - 1)
MemByte(m, a) == LET v == Lookup(m.ov, a, Len(m.ov)) IN IF v >= 0 THEN v ELSE Background(m.salt, a)
MemPut(m, a, v) == [m EXCEPT !.ov = Append(m.ov, <<a, v>>)]
RECURSIVE LoadBytes(_, _, _), StoreBytes(_, _, _, _)
LoadBytes(m, a, n) == IF n = 0 THEN << >> ELSE <<MemByte(m, a)>> \o LoadBytes(m, WAdd(a, WOne(4)), n - 1)
StoreBytes(m, a, w, k) == IF k > Len(w) THEN m ELSE StoreBytes(MemPut(m, a, w[k]), WAdd(a, WOne(4)), w, k + 1)

BoolW(c) == IF c THEN WOne(4) ELSE WZero(4)
\* signed overflow of a + b / a - b (32 bits)
AddOvf(a, b) == SignBit(a) = SignBit(b) /\ SignBit(WAdd(a, b)) # SignBit(a)
SubOvf(a, b) == SignBit(a) # SignBit(b) /\ SignBit(WSub(a, b)) # SignBit(a)
Prod64(a, b, signed) == WMul(WResize(a, 8, signed), WResize(b, 8, signed))
Lo4(p) == <<p[1], p[2], p[3], p[4]>>
Hi4(p) == <<p[5], p[6], p[7], p[8]>>
Clz(a) == IF WIsZero(a) THEN 32 ELSE 31 - (CHOOSE k \in 0..31 : Bit(a, k) = 1 /\ \A j \in (k + 1)..31 : Bit(a, j) = 0)
Aligned(a, n) == a[1] % n = 0

IsJump(d) == d.mn \in M!Br2 \cup M!Br1 \cup M!BrRI \cup {"j", "jal", "jr", "jalr"}
Likely == {"beql", "bnel", "blezl", "bgtzl", "bltzl", "bgezl", "bltzall", "bgezall"}
Cond(m, a, b) ==
    CASE m \in {"beq", "beql"} -> a = b
      [] m \in {"bne", "bnel"} -> a # b
      [] m \in {"blez", "blezl"} -> IsNegW(a) \/ WIsZero(a)
      [] m \in {"bgtz", "bgtzl"} -> ~IsNegW(a) /\ ~WIsZero(a)
      [] m \in {"bltz", "bltzl", "bltzal", "bltzall"} -> IsNegW(a)
      [] m \in {"bgez", "bgezl", "bgezal", "bgezall"} -> ~IsNegW(a)

\* results: [st, pc, npc, x, hi, lo, mem]
Res(st, s, npc2, x, hi, lo, mem) == [st |-> st, pc |-> s.npc, npc |-> npc2, x |-> x, hi |-> hi, lo |-> lo, mem |-> mem]
Stop(st, s) == [st |-> st, pc |-> s.pc, npc |-> s.npc, x |-> s.x, hi |-> s.hi, lo |-> s.lo, mem |-> s.mem]
Seq4(s) == WAdd(s.npc, W4(4))                             \* sequential successor of npc
WrD(s, r, w) == Res("ok", s, Seq4(s), SetReg(s.x, r, w), s.hi, s.lo, s.mem)
Goto(s, t, x) == Res("ok", s, t, x, s.hi, s.lo, s.mem)    \* the delay slot at npc runs first, then t
JTarget(s, idx) == LET t == W4(4 * idx) IN Mk([t EXCEPT ![4] = (s.npc[4] \div 16) * 16 + (t[4] % 16)])

ExecB(s, d) ==
    LET m == d.mn  a == Reg(s, IF d.rs = 32 THEN 0 ELSE d.rs)  b == Reg(s, IF d.rt = 32 THEN 0 ELSE d.rt)
        immw == W4(d.imm)  addr == WAdd(a, immw)  link == WAdd(s.pc, W4(8)) IN
    IF ~M!Valid(d) THEN Stop("outofmodel", s)
    ELSE IF IsJump(d) /\ s.npc # WAdd(s.pc, W4(4)) THEN Stop("outofmodel", s)           \* branch in a delay slot
    ELSE CASE m = "add" -> IF AddOvf(a, b) THEN Stop("trap", s) ELSE WrD(s, d.rd, WAdd(a, b))
      [] m = "addu" -> WrD(s, d.rd, WAdd(a, b))
      [] m = "sub" -> IF SubOvf(a, b) THEN Stop("trap", s) ELSE WrD(s, d.rd, WSub(a, b))
      [] m = "subu" -> WrD(s, d.rd, WSub(a, b))
      [] m = "and" -> WrD(s, d.rd, WAnd(a, b))
      [] m = "or" -> WrD(s, d.rd, WOr(a, b))
      [] m = "xor" -> WrD(s, d.rd, WXor(a, b))
      [] m = "nor" -> WrD(s, d.rd, WNot(WOr(a, b)))
      [] m = "slt" -> WrD(s, d.rd, BoolW(WLtS(a, b)))
      [] m = "sltu" -> WrD(s, d.rd, BoolW(WLtU(a, b)))
      [] m = "movz" -> IF WIsZero(b) THEN WrD(s, d.rd, a) ELSE WrD(s, 0, a)
      [] m = "movn" -> IF ~WIsZero(b) THEN WrD(s, d.rd, a) ELSE WrD(s, 0, a)
      [] m = "mul" -> WrD(s, d.rd, WMul(a, b))
      [] m = "sll" -> WrD(s, d.rd, WShl(b, d.sa))
      [] m = "srl" -> WrD(s, d.rd, WShrL(b, d.sa))
      [] m = "sra" -> WrD(s, d.rd, WShrA(b, d.sa))
      [] m = "rotr" -> WrD(s, d.rd, WRor(b, d.sa))
      [] m = "sllv" -> WrD(s, d.rd, WShl(b, a[1] % 32))                              \* rt shifted by rs<4:0>
      [] m = "srlv" -> WrD(s, d.rd, WShrL(b, a[1] % 32))
      [] m = "srav" -> WrD(s, d.rd, WShrA(b, a[1] % 32))
      [] m = "rotrv" -> WrD(s, d.rd, WRor(b, a[1] % 32))
      [] m = "clz" -> WrD(s, d.rd, W4(Clz(a)))
      [] m = "clo" -> WrD(s, d.rd, W4(Clz(WNot(a))))
      [] m = "addi" -> IF AddOvf(a, immw) THEN Stop("trap", s) ELSE WrD(s, d.rt, WAdd(a, immw))
      [] m = "addiu" -> WrD(s, d.rt, WAdd(a, immw))
      [] m = "slti" -> WrD(s, d.rt, BoolW(WLtS(a, immw)))
      [] m = "sltiu" -> WrD(s, d.rt, BoolW(WLtU(a, immw)))                           \* sign-extended, compared unsigned
      [] m = "andi" -> WrD(s, d.rt, WAnd(a, immw))
      [] m = "ori" -> WrD(s, d.rt, WOr(a, immw))
      [] m = "xori" -> WrD(s, d.rt, WXor(a, immw))
      [] m = "lui" -> WrD(s, d.rt, WShl(immw, 16))
      [] m \in {"mult", "multu"} -> LET p == Prod64(a, b, m = "mult") IN Res("ok", s, Seq4(s), s.x, Hi4(p), Lo4(p), s.mem)
      [] m \in {"div", "divu"} ->
            IF WIsZero(b) THEN Stop("outofmodel", s)
            ELSE IF m = "div" /\ WIsMin(a) /\ WIsMinusOne(b) THEN Res("ok", s, Seq4(s), s.x, WZero(4), a, s.mem)
            ELSE Res("ok", s, Seq4(s), s.x, WRem(a, b, m = "div"), WDiv(a, b, m = "div"), s.mem)
      [] m = "mfhi" -> WrD(s, d.rd, s.hi)
      [] m = "mflo" -> WrD(s, d.rd, s.lo)
      [] m = "mthi" -> Res("ok", s, Seq4(s), s.x, a, s.lo, s.mem)
      [] m = "mtlo" -> Res("ok", s, Seq4(s), s.x, s.hi, a, s.mem)
      [] m = "lb" -> WrD(s, d.rt, WResize(LoadBytes(s.mem, addr, 1), 4, TRUE))
      [] m = "lbu" -> WrD(s, d.rt, WResize(LoadBytes(s.mem, addr, 1), 4, FALSE))
      [] m = "lh" -> IF ~Aligned(addr, 2) THEN Stop("trap", s) ELSE WrD(s, d.rt, WResize(LoadBytes(s.mem, addr, 2), 4, TRUE))
      [] m = "lhu" -> IF ~Aligned(addr, 2) THEN Stop("trap", s) ELSE WrD(s, d.rt, WResize(LoadBytes(s.mem, addr, 2), 4, FALSE))
      [] m = "lw" -> IF ~Aligned(addr, 4) THEN Stop("trap", s) ELSE WrD(s, d.rt, LoadBytes(s.mem, addr, 4))
      [] m = "sb" -> Res("ok", s, Seq4(s), s.x, s.hi, s.lo, StoreBytes(s.mem, addr, <<b[1]>>, 1))
      [] m = "sh" -> IF ~Aligned(addr, 2) THEN Stop("trap", s) ELSE Res("ok", s, Seq4(s), s.x, s.hi, s.lo, StoreBytes(s.mem, addr, <<b[1], b[2]>>, 1))
      [] m = "sw" -> IF ~Aligned(addr, 4) THEN Stop("trap", s) ELSE Res("ok", s, Seq4(s), s.x, s.hi, s.lo, StoreBytes(s.mem, addr, b, 1))
      [] m = "j" -> Goto(s, JTarget(s, d.imm), s.x)
      [] m = "jal" -> Goto(s, JTarget(s, d.imm), SetReg(s.x, 31, link))
      [] m = "jr" -> IF ~Aligned(a, 4) THEN Stop("trap", s) ELSE Goto(s, a, s.x)
      [] m = "jalr" -> IF ~Aligned(a, 4) THEN Stop("trap", s) ELSE Goto(s, a, SetReg(s.x, d.rd, link))
      [] m \in M!Br2 \cup M!Br1 \cup M!BrRI ->
            LET x2 == IF m \in M!Links THEN SetReg(s.x, 31, link) ELSE s.x IN
            IF Cond(m, a, b) THEN Goto(s, WAdd(s.npc, immw), x2)
            ELSE IF m \in Likely THEN [Goto(s, WAdd(s.npc, W4(8)), x2) EXCEPT !.pc = WAdd(s.npc, W4(4))]   \* delay slot nullified
            ELSE Goto(s, Seq4(s), x2)
      [] OTHER -> Stop("outofmodel", s)
\* (TLC re-evaluates operator arguments on every use: the decoded instruction is bound once)
Exec(s, d0) == CHOOSE t \in {ExecB(s, d) : d \in {d0}} : TRUE
Modelled(d) == M!Valid(d) /\ d.mn \notin {"lwl", "lwr", "swl", "swr", "ll", "sc", "syscall", "break", "sync", "madd", "maddu", "msub", "msubu"}
                    \cup M!TrapR \cup M!TrapI
=============================================================================
