------------------------------- MODULE X64Abi -------------------------------
(* System V AMD64 psABI, section 3.2 (function calling sequence), restricted to   *)
(* scalar parameters: integers of 1/2/4/8 bytes, pointers, float, double.         *)
(*                                                                                 *)
(* 3.2.3 Parameter passing.  Every scalar has one eightbyte, of class             *)
(*   INTEGER  (integral types, pointers)   or   SSE  (float, double).             *)
(* Arguments are assigned left to right:                                           *)
(*   INTEGER -> the next available register of  %rdi %rsi %rdx %rcx %r8 %r9        *)
(*   SSE     -> the next available register of  %xmm0 .. %xmm7                     *)
(*   when no register of the class is left the argument is passed in MEMORY: the  *)
(*   memory arguments are pushed in reverse order, i.e. they occupy consecutive   *)
(*   eightbyte slots in argument order, the first at 8(%rsp) on entry to the      *)
(*   callee (figure 3.3: 8n+16(%rbp) once the callee has executed                 *)
(*   push %rbp; mov %rsp,%rbp).  The end of the argument area is 16-byte aligned: *)
(*   (%rsp + 8) is a multiple of 16 when control is transferred to the callee.    *)
(* 3.2.3 Returning of values: class INTEGER in %rax, class SSE in %xmm0.          *)
(* 3.2.1 Registers: %rbx %rbp %r12 %r13 %r14 %r15 belong to the caller and must   *)
(*   be preserved by the callee; %rsp is restored (the callee pops exactly the    *)
(*   return address).                                                              *)
(*                                                                                 *)
(* The module has two readings of the assignment rule:                             *)
(*  (1) the *sequential machine* Assign (state: counters of used registers and    *)
(*      memory slots, one named action per outcome) - the shape of the code in    *)
(*      ppci/arch/x86_64/arch.py: determine_arg_locations;                         *)
(*  (2) the *closed form* LocOf(sig, k) - position k's location from counts over   *)
(*      the earlier positions.                                                     *)
(* X64Abi_MC.tla model-checks (1) against (2) and the structural laws over all    *)
(* signatures up to MaxParams; X64Abi_Eval.tla judges recorded calls of ppci's    *)
(* functions and recorded native call traces.                                      *)
EXTENDS Naturals, Sequences, FiniteSets, TLC

IntRegs == <<"rdi", "rsi", "rdx", "rcx", "r8", "r9">>
SseRegs == <<"xmm0", "xmm1", "xmm2", "xmm3", "xmm4", "xmm5", "xmm6", "xmm7">>
CalleeSaved == <<"rbx", "rbp", "r12", "r13", "r14", "r15", "rsp">>
Classes == {"INTEGER", "SSE"}

(* ---- types ------------------------------------------------------------------ *)
IntTypes == {"i8", "u8", "i16", "u16", "i32", "u32", "i64", "u64", "ptr"}
SseTypes == {"f32", "f64"}
ScalarTypes == IntTypes \cup SseTypes
ClassOf(t) == IF t \in SseTypes THEN "SSE" ELSE "INTEGER"
SizeOf(t) == CASE t \in {"i8", "u8"} -> 1 [] t \in {"i16", "u16"} -> 2 [] t \in {"i32", "u32", "f32"} -> 4
               [] OTHER -> 8

(* ---- locations --------------------------------------------------------------- *)
\* [k |-> "reg", r |-> register name]  or  [k |-> "mem", slot |-> n]  (n-th memory eightbyte, from 0)
Reg(r) == [k |-> "reg", r |-> r, slot |-> 0]
Mem(n) == [k |-> "mem", r |-> "", slot |-> n]
EntryRspOffset(slot) == 8 + 8 * slot        \* n-th memory argument at this offset from %rsp on entry
FrameRbpOffset(slot) == 16 + 8 * slot       \* ... and from %rbp after  push %rbp; mov %rsp, %rbp

(* ---- (2) closed form ----------------------------------------------------------- *)
\* number of positions j < k of class c
Before(sig, k, c) == Cardinality({j \in 1..(k - 1) : sig[j] = c})
Limit(c) == IF c = "INTEGER" THEN Len(IntRegs) ELSE Len(SseRegs)
InMemory(sig, k) == Before(sig, k, sig[k]) >= Limit(sig[k])
MemBefore(sig, k) == Cardinality({j \in 1..(k - 1) : InMemory(sig, j)})
LocOf(sig, k) ==
    IF InMemory(sig, k) THEN Mem(MemBefore(sig, k))
    ELSE IF sig[k] = "INTEGER" THEN Reg(IntRegs[Before(sig, k, "INTEGER") + 1])
    ELSE Reg(SseRegs[Before(sig, k, "SSE") + 1])
Locs(sig) == [k \in 1..Len(sig) |-> LocOf(sig, k)]
MemSlots(sig) == Cardinality({k \in 1..Len(sig) : InMemory(sig, k)})
\* bytes the caller must reserve for the memory arguments, padded so that the call site stays 16-byte aligned
ArgAreaBytes(sig) == LET b == 8 * MemSlots(sig) IN IF b % 16 = 0 THEN b ELSE b + 8
RetLoc(c) == IF c = "SSE" THEN Reg("xmm0") ELSE Reg("rax")

(* ---- (1) sequential machine ------------------------------------------------------- *)
VARIABLES sig,     \* classes assigned so far (the signature is extended one parameter at a time)
          nint,    \* INTEGER registers used
          nsse,    \* SSE registers used
          nmem,    \* memory eightbytes used
          locs     \* location of every parameter so far
avars == <<sig, nint, nsse, nmem, locs>>

AInit == sig = <<>> /\ nint = 0 /\ nsse = 0 /\ nmem = 0 /\ locs = <<>>

AssignIntReg ==
    /\ nint < Len(IntRegs)
    /\ sig' = Append(sig, "INTEGER") /\ locs' = Append(locs, Reg(IntRegs[nint + 1]))
    /\ nint' = nint + 1 /\ UNCHANGED <<nsse, nmem>>
AssignSseReg ==
    /\ nsse < Len(SseRegs)
    /\ sig' = Append(sig, "SSE") /\ locs' = Append(locs, Reg(SseRegs[nsse + 1]))
    /\ nsse' = nsse + 1 /\ UNCHANGED <<nint, nmem>>
AssignIntMem ==
    /\ nint = Len(IntRegs)
    /\ sig' = Append(sig, "INTEGER") /\ locs' = Append(locs, Mem(nmem))
    /\ nmem' = nmem + 1 /\ UNCHANGED <<nint, nsse>>
AssignSseMem ==
    /\ nsse = Len(SseRegs)
    /\ sig' = Append(sig, "SSE") /\ locs' = Append(locs, Mem(nmem))
    /\ nmem' = nmem + 1 /\ UNCHANGED <<nint, nsse>>
Assign == AssignIntReg \/ AssignSseReg \/ AssignIntMem \/ AssignSseMem

(* ---- call semantics (for recorded native calls) ------------------------------------- *)
\* A recorded register / stack snapshot taken on entry to a callee:
\*   snap = [gpr : 6 eightbytes in the order of IntRegs, xmm : 8 eightbytes (low half of xmm0-7),
\*           stack : eightbytes at 8(%rsp), 16(%rsp), ..., rsp16 : (%rsp + 8) mod 16]
\* words are little-endian byte sequences.
Low(w, n) == SubSeq(w, 1, n)
RegIndex(r, regs) == CHOOSE j \in 1..Len(regs) : regs[j] = r
EightbyteAt(snap, loc, c) ==
    IF loc.k = "mem" THEN (IF loc.slot + 1 <= Len(snap.stack) THEN snap.stack[loc.slot + 1] ELSE <<>>)
    ELSE IF c = "INTEGER" THEN snap.gpr[RegIndex(loc.r, IntRegs)]
    ELSE snap.xmm[RegIndex(loc.r, SseRegs)]
\* the value of parameter k (type tys[k]) is where the psABI says, in the low bytes of its eightbyte
ArgIsAt(snap, tys, k, w) ==
    LET csig == [j \in 1..Len(tys) |-> ClassOf(tys[j])]
        e == EightbyteAt(snap, LocOf(csig, k), csig[k])
    IN Len(e) = 8 /\ Low(e, SizeOf(tys[k])) = w
=============================================================================
