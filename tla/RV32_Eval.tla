----------------------------- MODULE RV32_Eval -----------------------------
(* Idiom E for C08 / C10 / C07: one state per record observed on the real    *)
(* ppci code (harness/asmgen.py); the invariants are the property clauses.   *)
(*                                                                           *)
(* t = "enc": one instruction instance                                       *)
(*     mn, ops   printed text of the instance, tokenised                     *)
(*     sym, pc   address words of the (only) symbol operand / the place      *)
(*     out       [ok, exc, bytes]: what encode() / the assembler / the       *)
(*               linker produced (bytes = the instruction's bytes)           *)
(* t = "rw": bytes + declared uses / defs / clobbers (x-register numbers)    *)
(* t = "pseudo": printed text of a macro instruction + the byte strings of   *)
(*     the instructions it was rendered to                                   *)
EXTENDS RV32, Json, IOUtils, TLC
Recs == JsonDeserialize(IOEnv.TRACE_FILE)
\* two-level fan-out: chunk c holds records (c-1)*ChunkLen+1 .. c*ChunkLen (small chunks keep TLC's
\* error-trace reconstruction cheap when many records are rejected)
ChunkLen == 16
NChunks == (Len(Recs) + ChunkLen - 1) \div ChunkLen
VARIABLES chunk, i
vars == <<chunk, i>>
Init == chunk = 0 /\ i = 0
PickChunk == chunk = 0 /\ chunk' \in 1..NChunks /\ i' = 0
PickRec == chunk > 0 /\ i = 0 /\ chunk' = chunk
           /\ i' \in ((chunk - 1) * ChunkLen + 1)..(IF chunk * ChunkLen < Len(Recs) THEN chunk * ChunkLen ELSE Len(Recs))
Next == PickChunk \/ PickRec

Denoted(r) == Asm(r.mn, r.ops, r.sym, r.pc)
IsEnc(r) == r.t = "enc" /\ Denoted(r) # NoAsm

\* ---- C08 ----
\* whatever ppci accepts and emits decodes to the operation and operands it prints
EncodingAgrees == (i > 0 /\ IsEnc(Recs[i]) /\ Recs[i].out.ok) =>
                      Decode(Recs[i].out.bytes) = Canon(Denoted(Recs[i]))
\* not a verdict: the printed line is outside the modelled assembly syntax (reported as a note)
SyntaxKnown == (i > 0 /\ Recs[i].t = "enc") => Denoted(Recs[i]) # NoAsm

\* ---- C10 ----
AcceptsRepresentable == (i > 0 /\ IsEnc(Recs[i]) /\ Encodable(Denoted(Recs[i]))) => Recs[i].out.ok
RejectsUnrepresentable == (i > 0 /\ IsEnc(Recs[i]) /\ ~Encodable(Denoted(Recs[i]))) => ~Recs[i].out.ok
FieldDecodesToValue == (i > 0 /\ IsEnc(Recs[i]) /\ Encodable(Denoted(Recs[i])) /\ Recs[i].out.ok) =>
                      Decode(Recs[i].out.bytes) = Canon(Denoted(Recs[i]))
=============================================================================
