----------------------------- MODULE RV32_Eval -----------------------------
(* Idiom E for C08 / C10 / C07: one state per record observed on the real    *)
(* ppci code (harness/asmgen.py).  The verdict of every clause is computed   *)
(* per record by the invariants, one invariant per property clause.           *)
(*                                                                           *)
(* t = "enc": one instruction instance                                       *)
(*     mn, ops   printed text of the instance, tokenised                     *)
(*     sym, pc   address words of the (only) symbol operand / the place      *)
(*     out       [ok, exc, bytes]: what encode() / the assembler / the       *)
(*               linker produced (bytes = the instruction's bytes)           *)
(* t = "rw":  seq = byte strings of the instruction (for a macro             *)
(*     instruction: of the instructions it renders to), uses / defs / clob = *)
(*     x-register numbers ppci declares, plans = indices into PairPlan;      *)
(*     mn / ops / sym / pc as above (macro = TRUE: printed text not compared)*)
(* t = "pseudo": printed text of a macro instruction + seq as above          *)
EXTENDS RV32, Json, IOUtils, TLC
Recs == JsonDeserialize(IOEnv.TRACE_FILE)
\* two-level fan-out: chunk c holds records (c-1)*ChunkLen+1 .. c*ChunkLen (small chunks keep TLC's
\* error-trace reconstruction cheap when many records are rejected)
ChunkLen == 16
NChunks == (Len(Recs) + ChunkLen - 1) \div ChunkLen
VARIABLES chunk, i
vars == <<chunk, i>>
Init == chunk = 0 /\ i = 0
PickChunk == chunk = 0 /\ chunk' \in 1..NChunks /\ i' = 0
PickRec == chunk > 0 /\ i = 0 /\ chunk' = chunk
           /\ i' \in ((chunk - 1) * ChunkLen + 1)..(IF chunk * ChunkLen < Len(Recs) THEN chunk * ChunkLen ELSE Len(Recs))
Next == PickChunk \/ PickRec
\* (the clauses are evaluated as invariants, i.e. at state level, where TLC caches LET / argument
\* values; heavy values are additionally bound through singleton sets so they are computed once)

SetOf(q) == {q[k] : k \in 1..Len(q)}
Yes == [syn |-> TRUE, agree |-> TRUE, acc |-> TRUE, rej |-> TRUE, fld |-> TRUE]

\* ---- C08 / C10: a = the instruction the printed line denotes, d = what the emitted bytes decode to
EncVerdict2(r, a, d, e) ==
    IF a = NoAsm THEN [Yes EXCEPT !.syn = FALSE]
    ELSE [Yes EXCEPT !.agree = (r.out.ok => d = Canon(a)),
                     !.acc = (e => r.out.ok),
                     !.rej = (~e => ~r.out.ok),
                     !.fld = ((e /\ r.out.ok) => d = Canon(a))]
EncVerdict(r) ==
    CHOOSE res \in {EncVerdict2(r, a, IF r.out.ok THEN Decode(r.out.bytes) ELSE Illegal(0),
                                IF a = NoAsm THEN FALSE ELSE Encodable(a)) : a \in {Asm(r.mn, r.ops, r.sym, r.pc)}} : TRUE
IsEnc == i > 0 /\ Recs[i].t = "enc"
\* not a verdict (reported as a note): the printed line is outside the modelled assembly syntax
SyntaxKnown == IsEnc => EncVerdict(Recs[i]).syn
\* C08: whatever ppci accepts and emits decodes to the operation and operands it prints
EncodingAgrees == IsEnc => EncVerdict(Recs[i]).agree
\* C10
AcceptsRepresentable == IsEnc => EncVerdict(Recs[i]).acc
RejectsUnrepresentable == IsEnc => EncVerdict(Recs[i]).rej
FieldDecodesToValue == IsEnc => EncVerdict(Recs[i]).fld

\* ---- C07
Prog(r) == Mk([k \in 1..Len(r.seq) |-> Decode(r.seq[k])])
\* a verdict is given when the bytes decode inside the model and (for a real instruction) decode to
\* the operation and operands the declared sets talk about, i.e. the printed ones (else: C08's business)
Judgeable(r, p) ==
    /\ \A k \in 1..Len(p) : p[k].mn \notin {"illegal", "unsupported"}
    /\ r.macro \/ (\E a \in {Asm(r.mn, r.ops, r.sym, r.pc)} : a # NoAsm /\ Len(p) = 1 /\ p[1] = Canon(a))
DeclW(r) == SetOf(r.defs) \cup SetOf(r.clob)
DeclR(r) == SetOf(r.uses)
IsRw == i > 0 /\ Recs[i].t = "rw"
Decodable == IsRw => \E p \in {Prog(Recs[i])} : Judgeable(Recs[i], p)
StaticWrites == IsRw => \E p \in {Prog(Recs[i])} : Judgeable(Recs[i], p) => WritesSeq(p) \subseteq DeclW(Recs[i])
StaticReads == IsRw => \E p \in {Prog(Recs[i])} :
    Judgeable(Recs[i], p) => (ReadsSeq(p) \ ImplicitSPSeq(p)) \subseteq DeclR(Recs[i])
NoUndeclaredChange == IsRw => \E p \in {Prog(Recs[i])} : Judgeable(Recs[i], p) =>
    \A n \in SetOf(Recs[i].plans) :
        \E s1 \in {BaseState(PairPlan[n][1], PairPlan[n][2])} :
        \E t1 \in {Run(s1, p)} : NoUndeclaredWriteT(s1, t1, DeclW(Recs[i]))
OutputsDependOnDeclaredReads == IsRw => \E p \in {Prog(Recs[i])} : Judgeable(Recs[i], p) =>
    \A n \in SetOf(Recs[i].plans) :
        \E s1 \in {BaseState(PairPlan[n][1], PairPlan[n][2])} :
        \E s2 \in {Perturb(s1, DeclR(Recs[i]) \cup ImplicitSPSeq(p), PairPlan[n][3])} :
        \E t1 \in {Run(s1, p)} : \E t2 \in {Run(s2, p)} : SameOutputsT(t1, t2, SetOf(Recs[i].defs))

\* ---- macro instructions (C08): the rendering means what the macro prints
\* single instruction: its expansion is the printed base instruction (and/or/xor/add commute);
\* li / la / lw rd, label: executing the rendering leaves the printed value in rd
Commutes(m) == m \in {"and", "or", "xor", "add"}
SameBase(x, y) == \/ [x EXCEPT !.len = 4] = [y EXCEPT !.len = 4]
                  \/ Commutes(x.mn) /\ [x EXCEPT !.len = 4] = [y EXCEPT !.len = 4, !.rs1 = y.rs2, !.rs2 = y.rs1]
PseudoOk(r, p, s1, t) ==
    LET rd == r.ops[1][2] IN
    IF \E k \in 1..Len(p) : p[k].mn \in {"illegal", "unsupported"} THEN TRUE
    ELSE IF r.mn \in {"li", "la", "lw"} /\ Kinds(r.ops)[1] = "r" /\ rd = 0 THEN TRUE     \* x0 holds no value
    ELSE IF r.mn = "li" /\ Kinds(r.ops) = <<"r", "i">> THEN
        t.st = "ok" /\ Reg(t, rd) = W4(r.ops[2][2]) /\ WritesSeq(p) \subseteq {rd}
    ELSE IF r.mn = "la" /\ Kinds(r.ops) = <<"r", "l">> THEN
        t.st = "ok" /\ Reg(t, rd) = WAdd(WSub(r.sym, r.pc), s1.pc) /\ WritesSeq(p) \subseteq {rd}
    ELSE IF r.mn = "lw" /\ Kinds(r.ops) = <<"r", "l">> THEN
        t.st = "ok" /\ WritesSeq(p) \subseteq {rd} /\ Reg(t, rd) = LoadBytes(s1.mem, WAdd(WSub(r.sym, r.pc), s1.pc), 4)
    ELSE \E a \in {Asm(r.mn, r.ops, r.sym, r.pc)} :
            a # NoAsm => (Len(p) = 1 /\ SameBase(Expand(p[1]), Canon(a)))
MacroMeansWhatItPrints == (i > 0 /\ Recs[i].t = "pseudo") =>
    \E p \in {Prog(Recs[i])} : \E s1 \in {BaseState(3, 0)} : \E t \in {Run(s1, p)} : PseudoOk(Recs[i], p, s1, t)
=============================================================================
