------------------------------ MODULE Wasm_MCGen ------------------------------
(* Cases of the sanity model of Wasm.tla (idiom M), written in TLA+: an         *)
(* embedded module whose functions compute both sides of arithmetic laws (so    *)
(* the expected result is the constant 0), small programs whose results are     *)
(* stated with TLA+ integer arithmetic (factorial, Fibonacci, br_table,         *)
(* call_indirect, memory.grow), and every trap.  Every exported function is     *)
(* called with ALL argument tuples over the boundary domain D32 (or the listed  *)
(* small domains), each call on a fresh instance, on the module and on a        *)
(* syntactically different equivalent (a nop in front of every body).           *)
(* TLC evaluates McCases once and writes it (with the expectations `exp`) to    *)
(* the file MC_OUT; Wasm_MC.tla model-checks Wasm.tla over it.  (TLC rebuilds   *)
(* such a large TLA+ value on every access when it is bound to the machine      *)
(* directly; a deserialised value is kept.)                                     *)
EXTENDS Words, FiniteSets, TLC, SequencesExt, Json, IOUtils

(* ---- instruction constructors ------------------------------------------------ *)
N(t, o) == [op |-> t \o "." \o o, t |-> t, o |-> o]
K(t, w) == [op |-> t \o ".const", t |-> t, o |-> "const", v |-> w]
K32(n) == K("i32", WFromInt(n, 4))
K64(n) == K("i64", WFromInt(n, 8))
LG(x) == [op |-> "local.get", t |-> "local", o |-> "get", x |-> x]
LS(x) == [op |-> "local.set", t |-> "local", o |-> "set", x |-> x]
LT(x) == [op |-> "local.tee", t |-> "local", o |-> "tee", x |-> x]
GG(x) == [op |-> "global.get", t |-> "global", o |-> "get", x |-> x]
GS(x) == [op |-> "global.set", t |-> "global", o |-> "set", x |-> x]
B0(op) == [op |-> op, t |-> "", o |-> op]
BE == [k |-> "empty"]
BV(ty) == [k |-> "val", ty |-> ty]
BI(x) == [k |-> "idx", x |-> x]
Blk(op, bt) == [op |-> op, t |-> "", o |-> op, bt |-> bt]
iBr(l) == [op |-> "br", t |-> "", o |-> "br", l |-> l]
iBrIf(l) == [op |-> "br_if", t |-> "", o |-> "br_if", l |-> l]
iBrT(ls, d) == [op |-> "br_table", t |-> "", o |-> "br_table", ls |-> ls, d |-> d]
iCall(x) == [op |-> "call", t |-> "", o |-> "call", x |-> x]
iCallInd(ty) == [op |-> "call_indirect", t |-> "", o |-> "call_indirect", type |-> ty, table |-> 0]
MA(t, o, off) == [op |-> t \o "." \o o, t |-> t, o |-> o, align |-> 0, off |-> WFromNat(off, 4)]
MSize == [op |-> "memory.size", t |-> "memory", o |-> "size", m |-> 0]
MGrow == [op |-> "memory.grow", t |-> "memory", o |-> "grow", m |-> 0]
iEnd == B0("end")
iElse == B0("else")
TI32 == "i32"
TI64 == "i64"
W32(n) == WFromInt(n, 4)
A == LG(0)
B == LG(1)

(* ---- the module ------------------------------------------------------------------ *)
Types == << [params |-> <<TI32, TI32>>, results |-> <<TI32>>],     \* 0
            [params |-> <<TI32>>, results |-> <<TI32>>],          \* 1
            [params |-> <<TI64>>, results |-> <<TI64>>],          \* 2
            [params |-> <<>>, results |-> <<>>],                \* 3
            [params |-> <<>>, results |-> <<TI32>>],             \* 4
            [params |-> <<TI32>>, results |-> <<TI32, TI32>>] >>   \* 5 (multi-value)

\* function index 0 is the import  env.h : (i32) -> i32
Fn(ty, locals, body) == [type |-> ty, locals |-> locals, body |-> body]
DivRem(sfx) == <<A, B, N(TI32, "div_" \o sfx), B, N(TI32, "mul"), A, B, N(TI32, "rem_" \o sfx), N(TI32, "add"), A, N(TI32, "sub")>>
Funcs == <<
  \* 1 divrem_u, 2 divrem_s:  (a / b) * b + a % b - a
  Fn(0, <<>>, DivRem("u")),
  Fn(0, <<>>, DivRem("s")),
  \* 3 rot:  rotr(rotl(a, k), k) xor a
  Fn(0, <<>>, <<A, B, N(TI32, "rotl"), B, N(TI32, "rotr"), A, N(TI32, "xor")>>),
  \* 4 shifts:  ((a shl k) shr_u k) xor (a and (-1 shr_u k))
  Fn(0, <<>>, <<A, B, N(TI32, "shl"), B, N(TI32, "shr_u"), A, K32(-1), B, N(TI32, "shr_u"), N(TI32, "and"), N(TI32, "xor")>>),
  \* 5 sar:  (a shr_s k) xor (if a < 0 then not((not a) shr_u k) else a shr_u k)
  Fn(0, <<>>, <<A, B, N(TI32, "shr_s"),
                A, K32(0), N(TI32, "lt_s"), Blk("if", BV(TI32)),
                  A, K32(-1), N(TI32, "xor"), B, N(TI32, "shr_u"), K32(-1), N(TI32, "xor"),
                iElse, A, B, N(TI32, "shr_u"), iEnd,
                N(TI32, "xor")>>),
  \* 6 bits:  ((a and b) + (a or b) - (a + b)) or ((a xor b) - ((a or b) - (a and b)))
  Fn(0, <<>>, <<A, B, N(TI32, "and"), A, B, N(TI32, "or"), N(TI32, "add"), A, B, N(TI32, "add"), N(TI32, "sub"),
                A, B, N(TI32, "xor"), A, B, N(TI32, "or"), A, B, N(TI32, "and"), N(TI32, "sub"), N(TI32, "sub"),
                N(TI32, "or")>>),
  \* 7 counts:  (popcnt a + popcnt(not a) - 32) or ((clz a = 32) xor (a = 0)) or ((ctz a = 32) xor eqz a)
  \*            or (a # 0 and bit (31 - clz a) of a is clear) or (a # 0 and bit (ctz a) of a is clear)
  Fn(0, <<>>, <<A, N(TI32, "popcnt"), A, K32(-1), N(TI32, "xor"), N(TI32, "popcnt"), N(TI32, "add"), K32(32), N(TI32, "sub"),
                A, N(TI32, "clz"), K32(32), N(TI32, "eq"), A, N(TI32, "eqz"), N(TI32, "xor"), N(TI32, "or"),
                A, N(TI32, "ctz"), K32(32), N(TI32, "eq"), A, N(TI32, "eqz"), N(TI32, "xor"), N(TI32, "or"),
                A, Blk("if", BV(TI32)),
                  A, K32(31), A, N(TI32, "clz"), N(TI32, "sub"), N(TI32, "shr_u"), K32(1), N(TI32, "and"), N(TI32, "eqz"),
                  A, A, N(TI32, "ctz"), N(TI32, "shr_u"), K32(1), N(TI32, "and"), N(TI32, "eqz"), N(TI32, "or"),
                iElse, K32(0), iEnd,
                N(TI32, "or")>>),
  \* 8 cmps: every comparison against its mirror image / negation
  Fn(0, <<>>, <<A, B, N(TI32, "lt_s"), B, A, N(TI32, "gt_s"), N(TI32, "xor"),
                A, B, N(TI32, "le_s"), A, B, N(TI32, "gt_s"), N(TI32, "eqz"), N(TI32, "xor"), N(TI32, "or"),
                A, B, N(TI32, "lt_u"), B, A, N(TI32, "gt_u"), N(TI32, "xor"), N(TI32, "or"),
                A, B, N(TI32, "ge_u"), A, B, N(TI32, "lt_u"), N(TI32, "eqz"), N(TI32, "xor"), N(TI32, "or"),
                A, B, N(TI32, "ge_s"), B, A, N(TI32, "le_s"), N(TI32, "xor"), N(TI32, "or"),
                A, B, N(TI32, "le_u"), B, A, N(TI32, "ge_u"), N(TI32, "xor"), N(TI32, "or"),
                A, B, N(TI32, "eq"), A, B, N(TI32, "ne"), N(TI32, "eqz"), N(TI32, "xor"), N(TI32, "or"),
                \* signed and unsigned order differ exactly when the sign bits differ
                A, B, N(TI32, "lt_s"), A, B, N(TI32, "lt_u"), N(TI32, "xor"),
                A, B, N(TI32, "xor"), K32(31), N(TI32, "shr_u"), N(TI32, "xor"), N(TI32, "or")>>),
  \* 9 ext:  extendN_s a  against  (a shl (32-N)) shr_s (32-N)
  Fn(0, <<>>, <<A, N(TI32, "extend8_s"), A, K32(24), N(TI32, "shl"), K32(24), N(TI32, "shr_s"), N(TI32, "xor"),
                A, N(TI32, "extend16_s"), A, K32(16), N(TI32, "shl"), K32(16), N(TI32, "shr_s"), N(TI32, "xor"), N(TI32, "or"),
                A, N(TI64, "extend_i32_u"), N(TI64, "extend32_s"), A, N(TI64, "extend_i32_s"), N(TI64, "xor"),
                N(TI32, "wrap_i64"), N(TI32, "or")>>),
  \* 10 conv:  wrap(extend_s a) xor a  |  wrap(extend_u a shr_u 32)  |  wrap(extend_s a shr_s 32) xor (a shr_s 31)
  Fn(0, <<>>, <<A, N(TI64, "extend_i32_s"), N(TI32, "wrap_i64"), A, N(TI32, "xor"),
                A, N(TI64, "extend_i32_u"), K64(32), N(TI64, "shr_u"), N(TI32, "wrap_i64"), N(TI32, "or"),
                A, N(TI64, "extend_i32_s"), K64(32), N(TI64, "shr_s"), N(TI32, "wrap_i64"), A, K32(31), N(TI32, "shr_s"),
                N(TI32, "xor"), N(TI32, "or"),
                \* 64-bit multiply of the zero-extended operands, low half = 32-bit multiply
                A, N(TI64, "extend_i32_u"), B, N(TI64, "extend_i32_u"), N(TI64, "mul"), N(TI32, "wrap_i64"),
                A, B, N(TI32, "mul"), N(TI32, "xor"), N(TI32, "or")>>),
  \* 11 mem:  store a at 8 and b at 12, read back with every width
  Fn(0, <<>>, <<K32(8), A, MA(TI32, "store", 0), K32(4), B, MA(TI32, "store", 8),
                K32(8), MA(TI32, "load8_u", 0), K32(8), MA(TI32, "load8_u", 1), K32(8), N(TI32, "shl"), N(TI32, "or"),
                K32(8), MA(TI32, "load16_u", 2), K32(16), N(TI32, "shl"), N(TI32, "or"), A, N(TI32, "xor"),
                K32(8), MA(TI64, "load", 0), A, N(TI64, "extend_i32_u"), B, N(TI64, "extend_i32_u"), K64(32), N(TI64, "shl"),
                N(TI64, "or"), N(TI64, "ne"), N(TI32, "or"),
                K32(8), MA(TI32, "load16_s", 0), A, N(TI32, "extend16_s"), N(TI32, "xor"), N(TI32, "or"),
                K32(0), MA(TI32, "load8_s", 11), A, K32(24), N(TI32, "shr_s"), N(TI32, "xor"), N(TI32, "or"),
                K32(12), MA(TI64, "load32_s", 0), B, N(TI64, "extend_i32_s"), N(TI64, "ne"), N(TI32, "or"),
                K32(12), MA(TI64, "load32_u", 0), B, N(TI64, "extend_i32_u"), N(TI64, "ne"), N(TI32, "or"),
                \* narrow stores only touch their bytes
                K32(9), K32(0), MA(TI32, "store8", 0), K32(8), K64(-1), MA(TI64, "store16", 2),
                K32(8), MA(TI32, "load", 0), A, K32(255), N(TI32, "and"), K32(-65536), N(TI32, "or"), N(TI32, "xor"), N(TI32, "or"),
                K32(12), MA(TI32, "load", 0), B, N(TI32, "xor"), N(TI32, "or")>>),
  \* 12 fac (i64, loop / br_if / br)
  Fn(2, <<TI64>>, <<K64(1), LS(1), Blk("block", BE), Blk("loop", BE), A, N(TI64, "eqz"), iBrIf(1),
                   LG(1), A, N(TI64, "mul"), LS(1), A, K64(1), N(TI64, "sub"), LS(0), iBr(0), iEnd, iEnd, LG(1)>>),
  \* 13 fib (recursion; function index 13)
  Fn(1, <<>>, <<A, K32(2), N(TI32, "lt_u"), Blk("if", BV(TI32)), A, iElse,
                A, K32(1), N(TI32, "sub"), iCall(13), A, K32(2), N(TI32, "sub"), iCall(13), N(TI32, "add"), iEnd>>),
  \* 14 brt: three value blocks; every target takes one i32
  Fn(0, <<>>, <<Blk("block", BV(TI32)), Blk("block", BV(TI32)), Blk("block", BV(TI32)),
                B, A, iBrT(<<0, 1, 2, 3, 0>>, 3),
                iEnd, K32(10), N(TI32, "add"), iEnd, K32(20), N(TI32, "mul"), iEnd, K32(3), N(TI32, "sub")>>),
  \* 15 inc, 16 dbl, 17 neg64: table entries
  Fn(1, <<>>, <<A, K32(1), N(TI32, "add")>>),
  Fn(1, <<>>, <<A, K32(2), N(TI32, "mul")>>),
  Fn(2, <<>>, <<K64(0), A, N(TI64, "sub")>>),
  \* 18 calli: table[a](b) with the (i32) -> i32 signature
  Fn(0, <<>>, <<B, A, iCallInd(1)>>),
  \* 19 oob: i32.load offset=65532 (a)
  Fn(1, <<>>, <<A, MA(TI32, "load", 65532)>>),
  \* 20 grow: memory.grow a, then memory.size * 256 + (old size and 255)
  Fn(1, <<>>, <<A, MGrow, K32(255), N(TI32, "and"), MSize, K32(256), N(TI32, "mul"), N(TI32, "add")>>),
  \* 21 glob: g0 := a; g0 + b, through tee / drop / nop / select
  Fn(0, <<TI32>>, <<A, GS(0), B0("nop"), GG(0), LT(2), B0("drop"), LG(2), B, N(TI32, "add"), K32(77), A, B0("select")>>),
  \* 22 unr
  Fn(4, <<>>, <<B0("unreachable")>>),
  \* 23 float (outside the model)
  Fn(4, <<>>, <<[op |-> "f32.const", t |-> "f32", o |-> "const"], B0("drop"), K32(1)>>),
  \* 24 spin (runs out of fuel)
  Fn(3, <<>>, <<Blk("loop", BE), iBr(0), iEnd>>),
  \* 25 imp: h(a) + h(b)
  Fn(0, <<>>, <<A, iCall(0), B, iCall(0), N(TI32, "add")>>),
  \* 26 ret: early return from nested blocks with operands left on the stack; loop with a parameter (type 1);
  \*         if without else; br_if to the function label
  Fn(0, <<>>, <<K32(5), A, iBrIf(0), B0("drop"),
                Blk("block", BV(TI32)), K32(1), K32(2), B, K32(1), N(TI32, "eq"), Blk("if", BE), K32(9), B0("return"), iEnd,
                B0("drop"), iEnd,
                B, Blk("loop", BI(1)), K32(1), N(TI32, "sub"), LT(1), LG(1), K32(0), N(TI32, "gt_s"), iBrIf(0), iEnd,
                N(TI32, "add")>>),
  \* 27 multi: (a) -> (a + 1, a * 2) and 28 usemulti: sums the two results
  Fn(5, <<>>, <<A, K32(1), N(TI32, "add"), A, K32(2), N(TI32, "mul")>>),
  Fn(1, <<>>, <<A, iCall(27), N(TI32, "sub")>>),
  \* 29 start function: g1 := 7, mem[100] := g1
  Fn(3, <<>>, <<K32(7), GS(1), K32(100), GG(1), MA(TI32, "store8", 0)>>),
  \* 30 getstart: g1 * 256 + mem8[100] + mem8[41] (data segment)
  Fn(4, <<>>, <<GG(1), K32(256), N(TI32, "mul"), K32(100), MA(TI32, "load8_u", 0), N(TI32, "add"),
                K32(40), MA(TI32, "load8_u", 1), N(TI32, "add")>>)
>>

ExportNames == <<"divrem_u", "divrem_s", "rot", "shifts", "sar", "bits", "counts", "cmps", "ext", "conv", "mem", "fac",
                 "fib", "brt", "inc", "dbl", "neg64", "calli", "oob", "grow", "glob", "unr", "float", "spin", "imp",
                 "ret", "multi", "usemulti", "startfn", "getstart">>

Mod(prefix) ==
  [types |-> Types,
   imports |-> << [mod |-> "env", name |-> "h", kind |-> "func", type |-> 1] >>,
   funcs |-> Mk([k \in 1..Len(Funcs) |-> [Funcs[k] EXCEPT !.body = prefix \o @]]),
   tables |-> << [kind |-> "funcref", min |-> 5, max |-> -1] >>,
   mems |-> << [min |-> 1, max |-> 2] >>,
   globals |-> << [ty |-> TI32, mut |-> TRUE, init |-> <<K32(0)>>], [ty |-> TI32, mut |-> TRUE, init |-> <<K32(1)>>],
                  [ty |-> TI64, mut |-> FALSE, init |-> <<K64(-2)>>] >>,
   exports |-> Mk([k \in 1..Len(ExportNames) |-> [name |-> ExportNames[k], kind |-> "func", idx |-> k]]),
   start |-> 29,
   elems |-> << [mode |-> "active", table |-> 0, offset |-> <<K32(0)>>, refs |-> <<15, 16, 17>>],
                [mode |-> "passive", table |-> -1, offset |-> <<>>, refs |-> <<15>>] >>,
   datas |-> << [mode |-> "active", mem |-> 0, offset |-> <<K32(40)>>, bytes |-> <<3, 4, 5>>],
                [mode |-> "active", mem |-> 0, offset |-> <<K32(65535)>>, bytes |-> <<9>>] >>]

Mods == <<Mod(<<>>), Mod(<<B0("nop")>>)>>

(* ---- argument domains and expectations ----------------------------------------------- *)
Min32 == <<0, 0, 0, 128>>
Max32 == <<255, 255, 255, 127>>
CONSTANT Wide
D32 == IF Wide THEN {W32(0), W32(1), W32(2), W32(7), W32(-1), W32(-8), W32(31), W32(32), W32(33), W32(255), W32(65536), Min32, Max32}
       ELSE {W32(0), W32(-1), W32(33), Min32}
S32 == {W32(0), W32(1), W32(-1), W32(33), Min32, Max32}
Zero == <<W32(0)>>
Ok(r) == [status |-> "ok", ret |-> r]
TrapE == [status |-> "trap", ret |-> <<>>]
NoVerdict(st) == [status |-> st, ret |-> <<>>]

RECURSIVE Fac(_)
Fac(n) == IF n = 0 THEN 1 ELSE n * Fac(n - 1)
RECURSIVE Fib(_)
Fib(n) == IF n < 2 THEN n ELSE Fib(n - 1) + Fib(n - 2)

MkCall(fn, args, exp) == [fn |-> fn, args |-> args, exp |-> exp]
Pairs(fn, D, exp(_, _)) == {MkCall(fn, <<a, b>>, exp(a, b)) : a \in D, b \in D}
ZeroLaw(a, b) == Ok(Zero)

ExtStub == << [name |-> "h", rets |-> <<W32(40), W32(2)>>] >>

AllCalls ==
    Pairs("divrem_u", D32, LAMBDA a, b : IF WIsZero(b) THEN TrapE ELSE Ok(Zero))
    \cup Pairs("divrem_s", D32, LAMBDA a, b : IF WIsZero(b) \/ (a = Min32 /\ b = W32(-1)) THEN TrapE ELSE Ok(Zero))
    \cup Pairs("rot", D32, ZeroLaw) \cup Pairs("shifts", D32, ZeroLaw) \cup Pairs("sar", D32, ZeroLaw)
    \cup Pairs("bits", D32, ZeroLaw) \cup Pairs("counts", D32, ZeroLaw) \cup Pairs("cmps", D32, ZeroLaw)
    \cup Pairs("ext", D32, ZeroLaw) \cup Pairs("conv", D32, ZeroLaw) \cup Pairs("mem", D32, ZeroLaw)
    \cup {MkCall("fac", <<WFromNat(n, 8)>>, Ok(<<WFromNat(Fac(n), 8)>>)) : n \in 0..8}
    \cup {MkCall("fib", <<W32(n)>>, Ok(<<W32(Fib(n))>>)) : n \in 0..6}
    \cup {MkCall("brt", <<W32(k), W32(v)>>,
               Ok(<<W32(CASE k \in {0, 4} -> (v + 10) * 20 - 3 [] k = 1 -> v * 20 - 3 [] k = 2 -> v - 3 [] OTHER -> v)>>))
          : k \in -1..6, v \in {0, 5}}
    \cup {MkCall("calli", <<W32(k), W32(v)>>,
               CASE k = 0 -> Ok(<<W32(v + 1)>>) [] k = 1 -> Ok(<<W32(2 * v)>>) [] OTHER -> TrapE)
          : k \in -1..6, v \in {0, 21}}
    \cup {MkCall("oob", <<a>>, IF a = W32(0) THEN Ok(<<<<0, 0, 0, 9>>>>) ELSE TrapE) : a \in D32}
    \cup {MkCall("grow", <<a>>, Ok(<<IF a = W32(0) THEN W32(256 + 1) ELSE IF a = W32(1) THEN W32(512 + 1) ELSE W32(256 + 255)>>))
          : a \in D32}
    \cup Pairs("glob", S32, LAMBDA a, b : Ok(<<IF WIsZero(a) THEN W32(77) ELSE WAdd(a, b)>>))
    \cup {MkCall("unr", <<>>, TrapE), MkCall("float", <<>>, NoVerdict("outofmodel")), MkCall("spin", <<>>, NoVerdict("fuel")),
          MkCall("imp", <<W32(3), W32(4)>>, Ok(<<W32(42)>>)), MkCall("getstart", <<>>, Ok(<<W32(7 * 256 + 7 + 4)>>)),
          MkCall("neg64", <<WFromInt(5, 8)>>, Ok(<<WFromInt(-5, 8)>>))}
    \cup {MkCall("ret", <<W32(a), W32(b)>>,
               Ok(<<W32(IF a # 0 THEN 5 ELSE IF b = 1 THEN 9 ELSE IF b = 0 THEN 0 ELSE 1)>>))
          : a \in {0, 1}, b \in {0, 1, 3}}
    \cup {MkCall("usemulti", <<W32(v)>>, Ok(<<W32((v + 1) - 2 * v)>>)) : v \in {0, 5, -3}}
    \cup {MkCall("multi", <<W32(v)>>, Ok(<<W32(v + 1), W32(2 * v)>>)) : v \in {0, 5, -3}}

McCases == [mods |-> Mods,
            cases |-> SetToSeq({[id |-> c.fn, mods |-> <<1, 2>>, calls |-> <<c>>, ext |-> ExtStub, fuel |-> 600] : c \in AllCalls})]

(* ---- calibration of the module equivalence of Wasm_Eq.tla ------------------------------------ *)
\* the same module with one more entry in front of the type section and every type reference shifted
ShiftIns(x) == IF x.op = "call_indirect" THEN [x EXCEPT !.type = @ + 1]
               ELSE IF x.op \in {"block", "loop", "if"} /\ x.bt.k = "idx" THEN [x EXCEPT !.bt.x = @ + 1]
               ELSE x
ShiftTypes(m) ==
    [m EXCEPT !.types = <<[params |-> <<TI64, TI64>>, results |-> <<>>]>> \o @,
              !.imports = Mk([k \in 1..Len(@) |-> [@[k] EXCEPT !.type = @ + 1]]),
              !.funcs = Mk([k \in 1..Len(@) |-> [@[k] EXCEPT !.type = @ + 1,
                                                              !.body = Mk([j \in 1..Len(@) |-> ShiftIns(@[j])])]])]
M1 == Mods[1]
EqRec(key, b, expect) == [key |-> key, law |-> "module", ok |-> TRUE, a |-> M1, b |-> b, expect |-> expect]
EqCases == <<
    EqRec("same", M1, TRUE),
    EqRec("types shifted", ShiftTypes(M1), TRUE),
    EqRec("nop inserted", Mods[2], FALSE),
    EqRec("type lost", [M1 EXCEPT !.types = SubSeq(@, 1, Len(@) - 1)], FALSE),
    EqRec("signature of a function", [M1 EXCEPT !.funcs[3].type = 1], FALSE),
    EqRec("local type", [M1 EXCEPT !.funcs[12].locals = <<TI32>>], FALSE),
    EqRec("constant in a body", [M1 EXCEPT !.funcs[15].body[2] = K32(2)], FALSE),
    EqRec("memory offset", [M1 EXCEPT !.funcs[19].body[2] = MA(TI32, "load", 65531)], FALSE),
    EqRec("call_indirect type", [M1 EXCEPT !.funcs[18].body[3] = iCallInd(0)], FALSE),
    EqRec("block type", [M1 EXCEPT !.funcs[26].body[18] = Blk("loop", BI(0))], FALSE),
    EqRec("import name", [M1 EXCEPT !.imports[1].name = "g"], FALSE),
    EqRec("table limits", [M1 EXCEPT !.tables[1].max = 9], FALSE),
    EqRec("memory limits", [M1 EXCEPT !.mems[1].max = -1], FALSE),
    EqRec("global mutability", [M1 EXCEPT !.globals[3].mut = TRUE], FALSE),
    EqRec("global initialiser", [M1 EXCEPT !.globals[2].init = <<K32(2)>>], FALSE),
    EqRec("export name", [M1 EXCEPT !.exports[1].name = "x"], FALSE),
    EqRec("export index", [M1 EXCEPT !.exports[2].idx = 1], FALSE),
    EqRec("start", [M1 EXCEPT !.start = -1], FALSE),
    EqRec("element reference", [M1 EXCEPT !.elems[1].refs = <<15, 17, 16>>], FALSE),
    EqRec("element mode", [M1 EXCEPT !.elems[2].mode = "declarative"], FALSE),
    EqRec("data byte", [M1 EXCEPT !.datas[1].bytes = <<3, 4, 6>>], FALSE),
    EqRec("data offset", [M1 EXCEPT !.datas[2].offset = <<K32(65534)>>], FALSE),
    EqRec("data lost", [M1 EXCEPT !.datas = SubSeq(@, 1, 1)], FALSE) >>

\* an output named "-" is not wanted
ASSUME IF IOEnv.MC_OUT = "-" THEN TRUE ELSE JsonSerialize(IOEnv.MC_OUT, McCases)
ASSUME IF IOEnv.EQ_OUT = "-" THEN TRUE ELSE JsonSerialize(IOEnv.EQ_OUT, EqCases)
VARIABLE x
Init == x = 0
Next == x' = x
=============================================================================
