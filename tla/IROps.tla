------------------------------- MODULE IROps -------------------------------
(* Run-time meaning of ppci IR types and operators on machine words          *)
(* (shared by IR.tla, ConstFold.tla, ...).                                   *)
EXTENDS Words

(* ---- types --------------------------------------------------------------- *)
IsIntTy(t) == t \in {"i8", "i16", "i32", "i64", "u8", "u16", "u32", "u64", "ptr"}
IsFloatTy(t) == t \in {"f32", "f64"}
Signed(t) == t \in {"i8", "i16", "i32", "i64"}
SzP(t, pb) == CASE t \in {"i8", "u8"} -> 1 [] t \in {"i16", "u16"} -> 2
           [] t \in {"i32", "u32", "f32"} -> 4 [] t \in {"i64", "u64", "f64"} -> 8
           [] t = "ptr" -> pb [] OTHER -> 0


(* ---- arithmetic --------------------------------------------------------------- *)
BinopDefined(op, a, b, t) ==
    CASE op \in {"/", "%"} -> ~WIsZero(b) /\ ~(Signed(t) /\ WIsMin(a) /\ WIsMinusOne(b))
      [] op \in {"<<", ">>", "rol", "ror"} -> WFitsNat(b) /\ WToNat(b) < 8 * Len(a)
      [] OTHER -> TRUE
BinopVal(op, a, b, t) ==
    CASE op = "+" -> WAdd(a, b)
      [] op = "-" -> WSub(a, b)
      [] op = "*" -> WMul(a, b)
      [] op = "/" -> WDiv(a, b, Signed(t))
      [] op = "%" -> WRem(a, b, Signed(t))
      [] op = "&" -> WAnd(a, b)
      [] op = "|" -> WOr(a, b)
      [] op = "^" -> WXor(a, b)
      [] op = "<<" -> WShl(a, WToNat(b))
      [] op = ">>" -> IF Signed(t) THEN WShrA(a, WToNat(b)) ELSE WShrL(a, WToNat(b))
      [] op = "rol" -> WRol(a, WToNat(b))
      [] op = "ror" -> WRor(a, WToNat(b))
KnownBinop(op) == op \in {"+", "-", "*", "/", "%", "&", "|", "^", "<<", ">>", "rol", "ror"}

CondVal(cond, a, b, t) ==
    CASE cond = "==" -> a = b
      [] cond = "!=" -> a # b
      [] cond = "<"  -> WLt(a, b, Signed(t))
      [] cond = ">"  -> WLt(b, a, Signed(t))
      [] cond = "<=" -> ~WLt(b, a, Signed(t))
      [] cond = ">=" -> ~WLt(a, b, Signed(t))


\* integer cast: resize from a source of the given type
CastVal(x, fromTy, toTy, pb) == WResize(x, SzP(toTy, pb), Signed(fromTy))
UnopVal(op, a) == IF op = "-" THEN WNeg(a) ELSE WNot(a)
=============================================================================
