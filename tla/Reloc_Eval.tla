----------------------------- MODULE Reloc_Eval -----------------------------
(* Idiom E for property C11 with full-width addresses: one record per        *)
(* relocation of a real link whose layout uses addresses beyond TLC's        *)
(* integers (the phases of such links cannot be followed by Linker_Trace).   *)
(* TRACE_FILE = JSON array of                                                *)
(*   {key, arch, type, ctl,                                                  *)
(*    symsec: [8 limbs] address of the symbol's section (0 if none),         *)
(*    symval: [8 limbs] the symbol's value (offset in its section),          *)
(*    relsec: [8 limbs] address of the section holding the field,            *)
(*    off: int offset of the field, add: [8 limbs] addend (two's complement),*)
(*    before: [u8] site bytes before, after: [u8] site bytes after,          *)
(*    sec: [u8] whole section after (only when ctl), ok: the link succeeded} *)
(* S and P are computed here: S = symsec + symval ("every symbol is defined  *)
(* at its section's final address plus its offset"), P = relsec + off.       *)
EXTENDS Reloc, Json, IOUtils
Recs == JsonDeserialize(IOEnv.TRACE_FILE)
NChunks == 8
VARIABLES chunk, i
Init == chunk = 0 /\ i = 0
PickChunk == chunk = 0 /\ chunk' \in 1..NChunks /\ UNCHANGED i
PickRec == chunk > 0 /\ i = 0 /\ i' \in {k \in 1..Len(Recs) : k % NChunks = chunk - 1} /\ UNCHANGED chunk
Next == PickChunk \/ PickRec
R == Recs[i]
Sw == WAdd(R.symsec, R.symval)
Pw == WAdd(R.relsec, W(R.off))
A_ == ArchOf(R.arch)
Fits == Representable(A_, R.type, Sw, R.add, Pw)
\* a link that produced output patched the field so that it designates S + A; a value that does not
\* fit must have made the link fail
Conforms == i > 0 /\ R.ok =>
    /\ Fits
    /\ PatchOKW(A_, R.type, R.before, R.after, Sw, R.add, Pw)
    /\ (R.ctl => BranchOK(A_, R.type, R.sec, R.off, Sw, Pw))
\* (tolerated, counted) the link failed although the value fits
NoSpuriousFailure == i > 0 /\ ~R.ok => ~Fits
Domain == i > 0 => Modelled(A_, R.type) /\ Len(R.before) = RelSize(R.type)
=============================================================================
