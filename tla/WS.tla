--------------------------------- MODULE WS ---------------------------------
(* The Whitespace language (extension property X02): concrete syntax and      *)
(* abstract machine, written from the language tutorial (Brady & Morris,       *)
(* Whitespace 0.3).  Only three characters matter: space S, tab T, linefeed L. *)
(*                                                                             *)
(* Syntax.  A program is a sequence of instructions  IMP command [parameter]:  *)
(*   S     stack      S n push | L S dup | T S n copy | L T swap | L L drop    *)
(*                    | T L n slide                                            *)
(*   T S   arithmetic S S add | S T sub | S L mul | T S div | T T mod          *)
(*   T T   heap       S store | T retrieve                                     *)
(*   L     flow       S S l mark | S T l call | S L l jump | T S l jz          *)
(*                    | T T l jn | T L ret | L L end                           *)
(*   T L   i/o        S S outchar | S T outnum | T S readchar | T T readnum    *)
(* A number n is a sign (S = +, T = -) and binary digits (S = 0, T = 1) ended  *)
(* by L; a label l is any sequence of S / T ended by L.  The table `Table`     *)
(* is prefix-free, so parsing is deterministic; a token sequence that is not   *)
(* a sequence of instructions, or that jumps to / calls a label that is never  *)
(* marked, is *malformed*.  (A number without a sign and a label marked twice  *)
(* are left open by the tutorial: `unspec`, no verdict.)                       *)
(*                                                                             *)
(* Machine.  Value stack, heap (address -> value), call stack, program         *)
(* counter, output events, input cursor; one named action per instruction.     *)
(* Binary operators take the left operand from below the top: push 7, push 2,  *)
(* sub leaves 5.  div / mod round toward minus infinity (Haskell div / mod,    *)
(* the reference implementation).  store pops value then address; retrieve     *)
(* pops the address.  outchar / outnum pop what they print.  jz / jn pop the   *)
(* tested value.  Errors of the program (stack underflow, division by zero,    *)
(* return without call, retrieve of an address never stored to, running off    *)
(* the end, reading past the input) end "error": no behaviour is prescribed.   *)
EXTENDS Integers, Sequences, FiniteSets

S == 32   T == 9   L == 10
Tokens == {S, T, L}
MaxBits == 24                      \* numbers are kept inside TLC's integers
Big == 1073741824                  \* 2^30: results beyond are "outofmodel"

Table == <<
  [pre |-> <<S, S>>,       op |-> "push",     arg |-> "num"],
  [pre |-> <<S, L, S>>,    op |-> "dup",      arg |-> "none"],
  [pre |-> <<S, T, S>>,    op |-> "copy",     arg |-> "num"],
  [pre |-> <<S, L, T>>,    op |-> "swap",     arg |-> "none"],
  [pre |-> <<S, L, L>>,    op |-> "drop",     arg |-> "none"],
  [pre |-> <<S, T, L>>,    op |-> "slide",    arg |-> "num"],
  [pre |-> <<T, S, S, S>>, op |-> "add",      arg |-> "none"],
  [pre |-> <<T, S, S, T>>, op |-> "sub",      arg |-> "none"],
  [pre |-> <<T, S, S, L>>, op |-> "mul",      arg |-> "none"],
  [pre |-> <<T, S, T, S>>, op |-> "div",      arg |-> "none"],
  [pre |-> <<T, S, T, T>>, op |-> "mod",      arg |-> "none"],
  [pre |-> <<T, T, S>>,    op |-> "store",    arg |-> "none"],
  [pre |-> <<T, T, T>>,    op |-> "retrieve", arg |-> "none"],
  [pre |-> <<L, S, S>>,    op |-> "mark",     arg |-> "label"],
  [pre |-> <<L, S, T>>,    op |-> "call",     arg |-> "label"],
  [pre |-> <<L, S, L>>,    op |-> "jump",     arg |-> "label"],
  [pre |-> <<L, T, S>>,    op |-> "jz",       arg |-> "label"],
  [pre |-> <<L, T, T>>,    op |-> "jn",       arg |-> "label"],
  [pre |-> <<L, T, L>>,    op |-> "ret",      arg |-> "none"],
  [pre |-> <<L, L, L>>,    op |-> "end",      arg |-> "none"],
  [pre |-> <<T, L, S, S>>, op |-> "outchar",  arg |-> "none"],
  [pre |-> <<T, L, S, T>>, op |-> "outnum",   arg |-> "none"],
  [pre |-> <<T, L, T, S>>, op |-> "readchar", arg |-> "none"],
  [pre |-> <<T, L, T, T>>, op |-> "readnum",  arg |-> "none"] >>
Ops == {Table[j].op : j \in 1..Len(Table)}
Entry(op) == Table[CHOOSE j \in 1..Len(Table) : Table[j].op = op]

IsPrefixAt(pre, t, k) == k + Len(pre) - 1 <= Len(t) /\ \A j \in 1..Len(pre) : t[k + j - 1] = pre[j]

\* the S / T run up to the next L, as bits
RECURSIVE Bits(_, _, _)
Bits(t, k, acc) == IF k > Len(t) THEN [ok |-> FALSE]
                   ELSE IF t[k] = L THEN [ok |-> TRUE, bits |-> acc, next |-> k + 1]
                   ELSE Bits(t, k + 1, Append(acc, IF t[k] = T THEN 1 ELSE 0))
RECURSIVE Mag(_, _)
Mag(b, n) == IF n <= 1 THEN 0 ELSE 2 * Mag(b, n - 1) + b[n]          \* digits b[2..n], most significant first
NumVal(b) == IF b = <<>> THEN 0 ELSE IF b[1] = 1 THEN 0 - Mag(b, Len(b)) ELSE Mag(b, Len(b))

\* one instruction at position k:  [ok, ins, next]
ParseAt(t, k) ==
    LET M == {j \in 1..Len(Table) : IsPrefixAt(Table[j].pre, t, k)} IN
    IF M = {} THEN [ok |-> FALSE]
    ELSE LET e == Table[CHOOSE j \in M : TRUE]
             a == k + Len(e.pre) IN
         IF e.arg = "none" THEN [ok |-> TRUE, ins |-> [op |-> e.op, bits |-> <<>>], next |-> a]
         ELSE LET b == Bits(t, a, <<>>) IN
              IF ~b.ok THEN [ok |-> FALSE]
              ELSE [ok |-> TRUE, ins |-> [op |-> e.op, bits |-> b.bits], next |-> b.next]
RECURSIVE ParseFrom(_, _, _)
ParseFrom(t, k, acc) ==
    IF k > Len(t) THEN [ok |-> TRUE, ins |-> acc, at |-> 0]
    ELSE LET r == ParseAt(t, k) IN
         IF ~r.ok THEN [ok |-> FALSE, ins |-> acc, at |-> k] ELSE ParseFrom(t, r.next, Append(acc, r.ins))
Syntax(t) == ParseFrom(t, 1, <<>>)

Marks(ins, l) == {j \in 1..Len(ins) : ins[j].op = "mark" /\ ins[j].bits = l}
Targets(ins) == {j \in 1..Len(ins) : ins[j].op \in {"call", "jump", "jz", "jn"}}
\* the verdict on a token sequence
Parse(t) ==
    LET P == Syntax(t) IN
    IF ~P.ok THEN [ok |-> FALSE, why |-> "not an instruction", at |-> P.at, ins |-> P.ins, unspec |-> FALSE]
    ELSE IF \E j \in Targets(P.ins) : Marks(P.ins, P.ins[j].bits) = {}
         THEN [ok |-> FALSE, why |-> "label never marked", at |-> 0, ins |-> P.ins, unspec |-> FALSE]
    ELSE [ok |-> TRUE, why |-> "", at |-> 0, ins |-> P.ins,
          unspec |-> \/ \E j \in 1..Len(P.ins) : Entry(P.ins[j].op).arg = "num"
                                                  /\ (P.ins[j].bits = <<>> \/ Len(P.ins[j].bits) > MaxBits)
                     \/ \E j \in 1..Len(P.ins) : P.ins[j].op = "mark" /\ Cardinality(Marks(P.ins, P.ins[j].bits)) > 1]

\* back to tokens (BitTok is the inverse of the bit reading)
BitTok(b) == [j \in 1..Len(b) |-> IF b[j] = 1 THEN T ELSE S]
RECURSIVE Unparse(_, _)
Unparse(ins, n) == IF n = 0 THEN <<>>
                   ELSE Unparse(ins, n - 1) \o Entry(ins[n].op).pre
                        \o (IF Entry(ins[n].op).arg = "none" THEN <<>> ELSE BitTok(ins[n].bits) \o <<L>>)

(* ---- the machine ------------------------------------------------------------- *)
VARIABLE w

Fresh(ins, in, fuel) ==
    [ins |-> ins, inp |-> in, fuel |-> fuel, pc |-> 1, stack |-> <<>>, heap |-> <<>>, cs |-> <<>>,
     out |-> <<>>, nin |-> 0, status |-> "run", why |-> "", steps |-> 0, last |-> "load"]
Idle == [status |-> "idle"]

Running == w.status = "run"
Budget == Running /\ w.steps < w.fuel
AtEnd == w.pc > Len(w.ins)
I == w.ins[w.pc]
At(op) == Budget /\ ~AtEnd /\ I.op = op
N == Len(w.stack)
Top == w.stack[N]
Sec == w.stack[N - 1]
PopN(n) == SubSeq(w.stack, 1, N - n)
Target(l) == (CHOOSE j \in Marks(w.ins, l) : \A x \in Marks(w.ins, l) : j <= x) + 1
InRange(v) == v > 0 - Big /\ v < Big

Go(name, r, pc) == w' = [r EXCEPT !.pc = pc, !.steps = w.steps + 1, !.last = name]
Adv(name, r) == Go(name, r, w.pc + 1)
Stop(name, st, reason) == w' = [w EXCEPT !.status = st, !.why = reason, !.last = name]
Need(name, n, body) == IF N < n THEN Stop(name, "error", "stack underflow") ELSE body
PushV(name, rest, v) == IF InRange(v) THEN Adv(name, [w EXCEPT !.stack = Append(rest, v)])
                        ELSE Stop(name, "outofmodel", "value beyond 2^30")

\* TLA+ \div rounds toward minus infinity for a positive divisor; for a negative one negate both operands
FDiv(a, b) == IF b > 0 THEN a \div b ELSE (0 - a) \div (0 - b)
FMod(a, b) == a - b * FDiv(a, b)

Push   == At("push")  /\ PushV("Push", w.stack, NumVal(I.bits))
Dup    == At("dup")   /\ Need("Dup", 1, PushV("Dup", w.stack, Top))
Copy   == At("copy")  /\ LET n == NumVal(I.bits) IN
                         IF n < 0 \/ n >= N THEN Stop("Copy", "error", "copy beyond the stack")
                         ELSE PushV("Copy", w.stack, w.stack[N - n])
Swap   == At("swap")  /\ Need("Swap", 2, Adv("Swap", [w EXCEPT !.stack = PopN(2) \o <<Top, Sec>>]))
Drop   == At("drop")  /\ Need("Drop", 1, Adv("Drop", [w EXCEPT !.stack = PopN(1)]))
Slide  == At("slide") /\ LET n == NumVal(I.bits) IN
                         IF n < 0 \/ N < 1 \/ n > N - 1 THEN Stop("Slide", "error", "slide beyond the stack")
                         ELSE Adv("Slide", [w EXCEPT !.stack = PopN(n + 1) \o <<Top>>])
Add    == At("add")   /\ Need("Add", 2, PushV("Add", PopN(2), Sec + Top))
Sub    == At("sub")   /\ Need("Sub", 2, PushV("Sub", PopN(2), Sec - Top))
Mul    == At("mul")   /\ Need("Mul", 2, IF Sec > 32768 \/ Sec < -32768 \/ Top > 32768 \/ Top < -32768
                                        THEN Stop("Mul", "outofmodel", "product beyond 2^30")
                                        ELSE PushV("Mul", PopN(2), Sec * Top))
Div    == At("div")   /\ Need("Div", 2, IF Top = 0 THEN Stop("Div", "error", "division by zero")
                                        ELSE PushV("Div", PopN(2), FDiv(Sec, Top)))
Mod    == At("mod")   /\ Need("Mod", 2, IF Top = 0 THEN Stop("Mod", "error", "division by zero")
                                        ELSE PushV("Mod", PopN(2), FMod(Sec, Top)))
Store  == At("store") /\ Need("Store", 2, Adv("Store", [w EXCEPT !.stack = PopN(2),
                                   !.heap = [a \in DOMAIN w.heap \cup {Sec} |-> IF a = Sec THEN Top ELSE w.heap[a]]]))
Retrieve == At("retrieve") /\ Need("Retrieve", 1,
                                   IF Top \notin DOMAIN w.heap THEN Stop("Retrieve", "error", "address never stored to")
                                   ELSE PushV("Retrieve", PopN(1), w.heap[Top]))
Mark   == At("mark")  /\ Adv("Mark", w)
Call   == At("call")  /\ Go("Call", [w EXCEPT !.cs = Append(w.cs, w.pc + 1)], Target(I.bits))
Jump   == At("jump")  /\ Go("Jump", w, Target(I.bits))
JumpZero == At("jz")  /\ Need("JumpZero", 1, Go("JumpZero", [w EXCEPT !.stack = PopN(1)],
                                                IF Top = 0 THEN Target(I.bits) ELSE w.pc + 1))
JumpNeg  == At("jn")  /\ Need("JumpNeg", 1, Go("JumpNeg", [w EXCEPT !.stack = PopN(1)],
                                               IF Top < 0 THEN Target(I.bits) ELSE w.pc + 1))
Return == At("ret")   /\ IF w.cs = <<>> THEN Stop("Return", "error", "return without call")
                         ELSE Go("Return", [w EXCEPT !.cs = SubSeq(w.cs, 1, Len(w.cs) - 1)], w.cs[Len(w.cs)])
End    == At("end")   /\ Stop("End", "ok", "")
OutChar == At("outchar") /\ Need("OutChar", 1, Adv("OutChar", [w EXCEPT !.stack = PopN(1),
                                                                        !.out = Append(w.out, [k |-> "c", v |-> Top])]))
OutNum  == At("outnum")  /\ Need("OutNum", 1, Adv("OutNum", [w EXCEPT !.stack = PopN(1),
                                                                      !.out = Append(w.out, [k |-> "n", v |-> Top])]))
ReadTo(name) == Need(name, 1, IF w.nin >= Len(w.inp) THEN Stop(name, "error", "input exhausted")
                              ELSE Adv(name, [w EXCEPT !.stack = PopN(1), !.nin = w.nin + 1,
                                   !.heap = [a \in DOMAIN w.heap \cup {Top} |-> IF a = Top THEN w.inp[w.nin + 1] ELSE w.heap[a]]]))
ReadChar == At("readchar") /\ ReadTo("ReadChar")
ReadNum  == At("readnum")  /\ ReadTo("ReadNum")
FallOff   == Budget /\ AtEnd /\ Stop("FallOff", "error", "ran off the end of the program")
OutOfFuel == Running /\ w.steps >= w.fuel /\ Stop("OutOfFuel", "fuel", "step budget")

Step == Push \/ Dup \/ Copy \/ Swap \/ Drop \/ Slide \/ Add \/ Sub \/ Mul \/ Div \/ Mod \/ Store \/ Retrieve
        \/ Mark \/ Call \/ Jump \/ JumpZero \/ JumpNeg \/ Return \/ End \/ OutChar \/ OutNum \/ ReadChar \/ ReadNum
        \/ FallOff \/ OutOfFuel

Finished == w.status \in {"ok", "error", "fuel", "outofmodel"}
Obs == [status |-> w.status, why |-> w.why, out |-> w.out, nin |-> w.nin, steps |-> w.steps]

\* the text an output event stands for (decimal digits; characters outside ASCII depend on an encoding)
RECURSIVE Digits(_)
Digits(n) == IF n < 10 THEN <<48 + n>> ELSE Digits(n \div 10) \o <<48 + (n % 10)>>
EvText(e) == IF e.k = "c" THEN <<e.v>> ELSE IF e.v < 0 THEN <<45>> \o Digits(0 - e.v) ELSE Digits(e.v)
RECURSIVE Text(_, _)
Text(out, n) == IF n = 0 THEN <<>> ELSE Text(out, n - 1) \o EvText(out[n])
Printable(out) == \A j \in 1..Len(out) : out[j].k = "c" => out[j].v \in 0..127

TypeOK == \/ w = Idle
          \/ /\ w.status \in {"run", "ok", "error", "fuel", "outofmodel"}
             /\ w.pc \in 1..(Len(w.ins) + 1)
             /\ \A j \in 1..Len(w.stack) : InRange(w.stack[j])
             /\ \A a \in DOMAIN w.heap : InRange(w.heap[a])
             /\ \A j \in 1..Len(w.cs) : w.cs[j] \in 2..(Len(w.ins) + 1)
             /\ w.nin \in 0..Len(w.inp)
=============================================================================
