------------------------------- MODULE M68kExec -------------------------------
(* Small-step semantics of the MC68000 user-mode integer instructions, after  *)
(* the "Operation" and "Condition Codes" paragraphs of section 4 of the        *)
(* M68000 Family Programmer's Reference Manual, for the instructions that     *)
(* M68k.tla decodes (MK!Decode): MOVE MOVEA MOVEQ LEA PEA CLR TST EXT SWAP EXG *)
(* ADD ADDA ADDI ADDQ SUB SUBA SUBI SUBQ CMP CMPA CMPI CMPM NEG AND ANDI OR   *)
(* ORI EOR EORI NOT MULS MULU DIVS DIVU ASL ASR LSL LSR ROL ROR (register and  *)
(* memory forms) Bcc BRA BSR JSR JMP RTS Scc DBcc LINK UNLK MOVEM NOP, with    *)
(* every addressing mode (predecrement / postincrement side effects, byte /   *)
(* word / long sizes, big-endian memory) and the condition codes X N Z V C.   *)
(* The rest (BCD, X-extended arithmetic, bit instructions, ROXL / ROXR, CHK,  *)
(* TAS, MOVEP, traps, the status register) is "outofmodel".                   *)
(*                                                                           *)
(* State [pc, d, a, ccr, mem]: pc, d[1..8] = D0..D7, a[1..8] = A0..A7 are      *)
(* 4-byte words of Words.tla (little-endian limb order inside the model, the  *)
(* memory image is big-endian), ccr = [x, n, z, v, c] with values 0 / 1, mem  *)
(* is a total byte memory: background pattern + overlay (as in RV32.tla).     *)
(* A word / long access at an odd address is an address error ("fault").     *)
EXTENDS Words, FiniteSets
MK == INSTANCE M68k

W4(v) == WFromInt(v, 4)
Z4 == WZero(4)
Rev(w) == Mk([k \in 1..Len(w) |-> w[Len(w) + 1 - k]])
Low(w, n) == Mk([k \in 1..n |-> w[k]])
SetLow(old, v, n) == Mk([k \in 1..4 |-> IF k <= n THEN v[k] ELSE old[k]])
SExt4(v) == WResize(v, 4, TRUE)
ZExt4(v) == WResize(v, 4, FALSE)
SzBytes(z) == CASE z = "b" -> 1 [] z = "w" -> 2 [] OTHER -> 4
IsOdd(w) == w[1] % 2 = 1

\* memory: background + overlay log of byte writes <<address, byte>>, latest last
Background(salt, a) == (a[1] * 7 + a[2] * 13 + a[3] * 31 + a[4] * 3 + salt + (a[1] \div 4) * 64) % 256
RECURSIVE Lookup(_, _, _)
Lookup(ov, a, k) == IF k = 0 THEN -1 ELSE IF ov[k][1] = a THEN ov[k][2] ELSE Lookup(ov, a, k - 1)
MemByte(m, a) == LET v == Lookup(m.ov, a, Len(m.ov)) IN IF v >= 0 THEN v ELSE Background(m.salt, a)
MemPut(m, a, v) == [m EXCEPT !.ov = Append(m.ov, <<a, v>>)]
RECURSIVE LoadBytes(_, _, _), StoreBytes(_, _, _, _)
LoadBytes(m, a, n) == IF n = 0 THEN << >> ELSE <<MemByte(m, a)>> \o LoadBytes(m, WAdd(a, WOne(4)), n - 1)
StoreBytes(m, a, w, k) == IF k > Len(w) THEN m ELSE StoreBytes(MemPut(m, a, w[k]), WAdd(a, WOne(4)), w, k + 1)
\* big-endian: the most significant byte at the lowest address
LoadBE(m, a, n) == Rev(LoadBytes(m, a, n))
StoreBE(m, a, v) == StoreBytes(m, a, Rev(v), 1)

-----------------------------------------------------------------------------
(* Condition codes                                                            *)
B01(c) == IF c THEN 1 ELSE 0
NoFlags == [x |-> 0, n |-> 0, z |-> 0, v |-> 0, c |-> 0]
\* logical result (MOVE AND OR EOR NOT CLR TST EXT SWAP MULS MULU): N Z by the result, V C cleared, X not affected
LogicCC(old, r) == [old EXCEPT !.n = SignBit(r), !.z = B01(WIsZero(r)), !.v = 0, !.c = 0]
\* ADD: destination + source
AddRes(dw, sw) == WAdd(dw, sw)
AddCarry(dw, sw) == B01(WLtU(WAdd(dw, sw), dw))
AddOvf(dw, sw) == B01(SignBit(dw) = SignBit(sw) /\ SignBit(WAdd(dw, sw)) # SignBit(dw))
AddCC(old, dw, sw) == LET r == WAdd(dw, sw)  c == AddCarry(dw, sw) IN
    [x |-> c, n |-> SignBit(r), z |-> B01(WIsZero(r)), v |-> AddOvf(dw, sw), c |-> c]
\* SUB / CMP: destination - source; C is the borrow
SubBorrow(dw, sw) == B01(WLtU(dw, sw))
SubOvf(dw, sw) == B01(SignBit(dw) # SignBit(sw) /\ SignBit(WSub(dw, sw)) # SignBit(dw))
SubCC(old, dw, sw, setx) == LET r == WSub(dw, sw)  c == SubBorrow(dw, sw) IN
    [x |-> IF setx THEN c ELSE old.x, n |-> SignBit(r), z |-> B01(WIsZero(r)), v |-> SubOvf(dw, sw), c |-> c]
\* the sixteen conditions of Bcc / Scc / DBcc (table 3-19): index = condition field + 1
CondHolds(k, f) ==
    CASE k = 0 -> TRUE [] k = 1 -> FALSE
      [] k = 2 -> f.c = 0 /\ f.z = 0             \* HI
      [] k = 3 -> f.c = 1 \/ f.z = 1             \* LS
      [] k = 4 -> f.c = 0 [] k = 5 -> f.c = 1    \* CC CS
      [] k = 6 -> f.z = 0 [] k = 7 -> f.z = 1    \* NE EQ
      [] k = 8 -> f.v = 0 [] k = 9 -> f.v = 1    \* VC VS
      [] k = 10 -> f.n = 0 [] k = 11 -> f.n = 1  \* PL MI
      [] k = 12 -> f.n = f.v                      \* GE
      [] k = 13 -> f.n # f.v                      \* LT
      [] k = 14 -> f.z = 0 /\ f.n = f.v          \* GT
      [] k = 15 -> f.z = 1 \/ f.n # f.v          \* LE
CondOf(mn, prefix) == IF mn = "bra" THEN 0 ELSE MK!CondIndex(mn, prefix) - 1

\* one-bit shift / rotate steps on an n-byte value; acc = [w, c, v]
ShiftStep(kind, acc) ==
    LET w == acc.w  n == Len(w)  msb == SignBit(w)  lsb == w[1] % 2 IN
    CASE kind \in {"asl", "lsl"} -> LET r == WShl(w, 1) IN [w |-> r, c |-> msb, v |-> IF SignBit(r) # msb THEN 1 ELSE acc.v]
      [] kind = "lsr" -> [w |-> WShrL(w, 1), c |-> lsb, v |-> 0]
      [] kind = "asr" -> [w |-> WShrA(w, 1), c |-> lsb, v |-> 0]
      [] kind = "rol" -> [w |-> WRol(w, 1), c |-> msb, v |-> 0]
      [] kind = "ror" -> [w |-> WRor(w, 1), c |-> lsb, v |-> 0]
RECURSIVE ShiftN(_, _, _)
ShiftN(kind, acc, k) == IF k = 0 THEN acc ELSE ShiftN(kind, ShiftStep(kind, acc), k - 1)
\* ASL ASR LSL LSR: C = last bit shifted out (cleared for count 0), X = C unless count 0, V (ASL) = the MSB changed
\* at any time; ROL ROR: C = last bit rotated (cleared for count 0), X not affected, V cleared
ShiftCC(old, kind, w, cnt) ==
    LET a == ShiftN(kind, [w |-> w, c |-> 0, v |-> 0], cnt) IN
    [x |-> IF cnt = 0 \/ kind \in {"rol", "ror"} THEN old.x ELSE a.c, n |-> SignBit(a.w), z |-> B01(WIsZero(a.w)),
     v |-> IF kind = "asl" THEN a.v ELSE 0, c |-> IF cnt = 0 THEN 0 ELSE a.c]
ShiftRes(kind, w, cnt) == ShiftN(kind, [w |-> w, c |-> 0, v |-> 0], cnt).w

-----------------------------------------------------------------------------
(* Operands.  Res: where an operand is, after the side effect of its          *)
(* addressing mode on the address registers (a2).  extpc: address of the       *)
(* operand's first extension word (base of the PC-relative modes).            *)
DReg(s, r) == s.d[r + 1]
AReg(s, r) == s.a[r + 1]
XReg(s, x) == LET r == x % 16  w == IF r < 8 THEN s.d[r + 1] ELSE s.a[r - 7] IN IF x >= 16 THEN w ELSE SExt4(Low(w, 2))
Step(r, n) == IF n = 1 /\ r = 7 THEN 2 ELSE n          \* the stack pointer stays word aligned
Res(s, o, n, extpc) ==
    LET Mem(addr, a2) == [k |-> "m", r |-> 0, addr |-> addr, val |-> Z4, a2 |-> a2] IN
    CASE o.k = "dn" -> [k |-> "d", r |-> o.r, addr |-> Z4, val |-> Z4, a2 |-> s.a]
      [] o.k = "an" -> [k |-> "a", r |-> o.r, addr |-> Z4, val |-> Z4, a2 |-> s.a]
      [] o.k = "ind" -> Mem(AReg(s, o.r), s.a)
      [] o.k = "post" -> Mem(AReg(s, o.r), Mk([s.a EXCEPT ![o.r + 1] = WAdd(@, W4(Step(o.r, n)))]))
      [] o.k = "pre" -> LET na == WSub(AReg(s, o.r), W4(Step(o.r, n))) IN Mem(na, Mk([s.a EXCEPT ![o.r + 1] = na]))
      [] o.k = "d16" -> Mem(WAdd(AReg(s, o.r), W4(o.v)), s.a)
      [] o.k = "idx" -> Mem(WAdd(WAdd(AReg(s, o.r), W4(o.v)), XReg(s, o.x)), s.a)
      [] o.k \in {"absw", "absl"} -> Mem(W4(o.v), s.a)
      [] o.k = "pcd" -> Mem(WAdd(extpc, W4(o.v)), s.a)
      [] o.k = "pcx" -> Mem(WAdd(WAdd(extpc, W4(o.v)), XReg(s, o.x)), s.a)
      [] o.k \in {"imm", "q"} -> [k |-> "i", r |-> 0, addr |-> Z4, val |-> W4(o.v), a2 |-> s.a]
      [] OTHER -> [k |-> "none", r |-> 0, addr |-> Z4, val |-> Z4, a2 |-> s.a]
Misaligned(loc, n) == loc.k = "m" /\ n > 1 /\ IsOdd(loc.addr)
Get(s, loc, n) ==
    CASE loc.k = "d" -> Low(DReg(s, loc.r), n)
      [] loc.k = "a" -> Low(AReg(s, loc.r), n)
      [] loc.k = "m" -> LoadBE(s.mem, loc.addr, n)
      [] loc.k = "i" -> Low(loc.val, n)
\* write an n-byte value; a data register keeps its upper bytes
Put(s, loc, v) ==
    CASE loc.k = "d" -> [s EXCEPT !.d = Mk([s.d EXCEPT ![loc.r + 1] = SetLow(@, v, Len(v))])]
      [] loc.k = "a" -> [s EXCEPT !.a = Mk([s.a EXCEPT ![loc.r + 1] = SExt4(v)])]
      [] loc.k = "m" -> [s EXCEPT !.mem = StoreBE(s.mem, loc.addr, v)]
ExtWords(o, z) == CASE o.k \in {"d16", "idx", "absw", "pcd", "pcx"} -> 1 [] o.k = "absl" -> 2
                    [] o.k = "imm" -> (IF z = "l" THEN 2 ELSE IF z = "" THEN 0 ELSE 1) [] OTHER -> 0
SetA(s, r, w) == [s EXCEPT !.a = Mk([s.a EXCEPT ![r + 1] = w])]
SetD(s, r, w) == [s EXCEPT !.d = Mk([s.d EXCEPT ![r + 1] = w])]
Push(s, w) == LET sp == WSub(AReg(s, 7), W4(4)) IN [SetA(s, 7, sp) EXCEPT !.mem = StoreBE(s.mem, sp, w)]

\* MOVEM: the registers of a mask (bit n = register n, D0..D7 A0..A7) in ascending order
RegList(mask) == LET S == {r \in 0..15 : (mask \div P2(r)) % 2 = 1} IN
    [k \in 1..Cardinality(S) |-> CHOOSE r \in S : Cardinality({q \in S : q < r}) = k - 1]
AnyReg(s, r) == IF r < 8 THEN s.d[r + 1] ELSE s.a[r - 7]
SetAnyReg(s, r, w) == IF r < 8 THEN SetD(s, r, w) ELSE SetA(s, r - 8, w)
RECURSIVE MovemStore(_, _, _, _, _, _), MovemLoad(_, _, _, _, _)
\* registers to memory at ascending addresses; the values are those before the instruction (s0)
MovemStore(s0, mem, regs, k, addr, n) ==
    IF k > Len(regs) THEN mem
    ELSE MovemStore(s0, StoreBE(mem, addr, Low(AnyReg(s0, regs[k]), n)), regs, k + 1, WAdd(addr, W4(n)), n)
MovemLoad(s, regs, k, addr, n) ==
    IF k > Len(regs) THEN s
    ELSE MovemLoad(SetAnyReg(s, regs[k], SExt4(LoadBE(s.mem, addr, n))), regs, k + 1, WAdd(addr, W4(n)), n)

-----------------------------------------------------------------------------
(* One step.  i = MK!Decode(bytes at pc).  -> [st, s]; st = "ok" | "fault"     *)
(* (address error) | "trap" (division by zero) | "outofmodel".                *)
Arith2 == {"add", "addi", "addq", "sub", "subi", "subq", "and", "andi", "or", "ori", "eor", "eori"}
Compare == {"cmp", "cmpi", "cmpm"}
Unary == {"neg", "not", "clr", "tst"}
Shifts == {"asl", "asr", "lsl", "lsr", "rol", "ror"}
Exec(s, i) ==
    LET m == i.mn  z == i.sz
        n == IF m \in MK!SccNames \cup {"tas", "nbcd"} THEN 1 ELSE SzBytes(z)
        pc2 == WAdd(s.pc, W4(2))
        next == WAdd(s.pc, W4(i.len))
        Ok(t) == [st |-> "ok", s |-> t]
        Fault == [st |-> "fault", s |-> s]
        Out == [st |-> "outofmodel", s |-> s]
        \* source, then destination, each with its address-register side effect
        ls == Res(s, i.src, n, pc2)
        s1 == [s EXCEPT !.a = ls.a2]
        ld == Res(s1, i.dst, n, WAdd(pc2, W4(2 * ExtWords(i.src, IF m \in {"btst", "bchg", "bclr", "bset"} THEN "b" ELSE z))))
        s2 == [s1 EXCEPT !.a = ld.a2, !.pc = next]
        bad == Misaligned(ls, n) \/ Misaligned(ld, n)
        sv == Get(s1, ls, n)
        dv == Get(s2, ld, n)
        WithCC(t, f) == [t EXCEPT !.ccr = f]
    IN
    CASE ~MK!Valid(i) -> Out
      [] m = "nop" -> Ok([s EXCEPT !.pc = next])
      [] m = "move" /\ i.src.k \in MK!AllK /\ i.dst.k \in MK!AllK ->
            IF bad THEN Fault ELSE Ok(WithCC(Put(s2, ld, sv), LogicCC(s.ccr, sv)))
      [] m = "movea" -> IF bad THEN Fault ELSE Ok(SetA(s2, i.dst.r, SExt4(sv)))
      [] m = "moveq" -> LET w == W4(i.src.v) IN Ok(WithCC(SetD([s EXCEPT !.pc = next], i.dst.r, w), LogicCC(s.ccr, w)))
      [] m = "lea" -> Ok(SetA(s2, i.dst.r, ls.addr))
      [] m = "pea" -> Ok(Push(s2, ld.addr))
      [] m \in Arith2 /\ i.dst.k \notin {"ccr", "sr", "an"} ->
            IF bad THEN Fault
            ELSE (CASE m \in {"add", "addi", "addq"} -> Ok(WithCC(Put(s2, ld, WAdd(dv, sv)), AddCC(s.ccr, dv, sv)))
                    [] m \in {"sub", "subi", "subq"} -> Ok(WithCC(Put(s2, ld, WSub(dv, sv)), SubCC(s.ccr, dv, sv, TRUE)))
                    [] m \in {"and", "andi"} -> LET r == WAnd(dv, sv) IN Ok(WithCC(Put(s2, ld, r), LogicCC(s.ccr, r)))
                    [] m \in {"or", "ori"} -> LET r == WOr(dv, sv) IN Ok(WithCC(Put(s2, ld, r), LogicCC(s.ccr, r)))
                    [] m \in {"eor", "eori"} -> LET r == WXor(dv, sv) IN Ok(WithCC(Put(s2, ld, r), LogicCC(s.ccr, r))))
      \* ADDQ / SUBQ to an address register: the whole register, no condition codes
      [] m \in {"addq", "subq"} /\ i.dst.k = "an" ->
            Ok(SetA(s2, i.dst.r, IF m = "addq" THEN WAdd(AReg(s2, i.dst.r), W4(i.src.v)) ELSE WSub(AReg(s2, i.dst.r), W4(i.src.v))))
      [] m \in {"adda", "suba"} ->
            IF bad THEN Fault
            ELSE Ok(SetA(s2, i.dst.r, IF m = "adda" THEN WAdd(AReg(s2, i.dst.r), SExt4(sv)) ELSE WSub(AReg(s2, i.dst.r), SExt4(sv))))
      [] m \in Compare -> IF bad THEN Fault ELSE Ok(WithCC(s2, SubCC(s.ccr, dv, sv, FALSE)))
      [] m = "cmpa" -> IF bad THEN Fault ELSE Ok(WithCC(s2, SubCC(s.ccr, AReg(s2, i.dst.r), SExt4(sv), FALSE)))
      [] m \in Unary ->
            IF bad THEN Fault
            ELSE (CASE m = "neg" -> Ok(WithCC(Put(s2, ld, WSub(WZero(n), dv)), SubCC(s.ccr, WZero(n), dv, TRUE)))
                    [] m = "not" -> LET r == WNot(dv) IN Ok(WithCC(Put(s2, ld, r), LogicCC(s.ccr, r)))
                    [] m = "clr" -> Ok(WithCC(Put(s2, ld, WZero(n)), LogicCC(s.ccr, WZero(n))))
                    [] m = "tst" -> Ok(WithCC(s2, LogicCC(s.ccr, dv))))
      [] m = "ext" -> LET r == IF z = "w" THEN WResize(Low(dv, 1), 2, TRUE) ELSE SExt4(Low(dv, 2)) IN
                      Ok(WithCC(Put(s2, ld, r), LogicCC(s.ccr, r)))
      [] m = "swap" -> LET w == DReg(s, i.dst.r)  r == <<w[3], w[4], w[1], w[2]>> IN
                       Ok(WithCC(SetD(s2, i.dst.r, r), LogicCC(s.ccr, r)))
      [] m = "exg" -> LET x == AnyReg(s, i.src.r + (IF i.src.k = "an" THEN 8 ELSE 0))
                          y == AnyReg(s, i.dst.r + (IF i.dst.k = "an" THEN 8 ELSE 0)) IN
                      Ok(SetAnyReg(SetAnyReg(s2, i.src.r + (IF i.src.k = "an" THEN 8 ELSE 0), y),
                                   i.dst.r + (IF i.dst.k = "an" THEN 8 ELSE 0), x))
      [] m \in {"mulu", "muls"} ->
            IF bad THEN Fault
            ELSE LET r == WMul(WResize(sv, 4, m = "muls"), WResize(Low(DReg(s2, i.dst.r), 2), 4, m = "muls")) IN
                 Ok(WithCC(SetD(s2, i.dst.r, r), LogicCC(s.ccr, r)))
      [] m \in {"divu", "divs"} ->
            IF bad THEN Fault
            ELSE IF WIsZero(sv) THEN [st |-> "trap", s |-> s]
            ELSE LET dd == DReg(s2, i.dst.r)  dv4 == WResize(sv, 4, m = "divs")
                     q == WDiv(dd, dv4, m = "divs")  r == WRem(dd, dv4, m = "divs")
                     fits == IF m = "divu" THEN q[3] = 0 /\ q[4] = 0 ELSE SExt4(Low(q, 2)) = q IN
                 IF ~fits THEN Ok(WithCC(s2, [s.ccr EXCEPT !.v = 1, !.c = 0]))     \* overflow: operands unaffected (N Z undefined)
                 ELSE Ok(WithCC(SetD(s2, i.dst.r, <<q[1], q[2], r[1], r[2]>>), LogicCC(s.ccr, Low(q, 2))))
      [] m \in Shifts ->
            IF bad THEN Fault
            ELSE LET cnt == IF i.src.k = "none" THEN 1 ELSE IF i.src.k = "q" THEN i.src.v ELSE DReg(s, i.src.r)[1] % 64 IN
                 Ok(WithCC(Put(s2, ld, ShiftRes(m, dv, cnt)), ShiftCC(s.ccr, m, dv, cnt)))
      [] m \in MK!BccNames /\ m # "bsr" ->
            Ok([s EXCEPT !.pc = IF CondHolds(CondOf(m, "b"), s.ccr) THEN WAdd(pc2, W4(i.dst.v)) ELSE next])
      [] m = "bsr" -> Ok([Push(s, next) EXCEPT !.pc = WAdd(pc2, W4(i.dst.v))])
      [] m = "jsr" -> Ok([Push(s2, next) EXCEPT !.pc = ld.addr])
      [] m = "jmp" -> Ok([s2 EXCEPT !.pc = ld.addr])
      [] m = "rts" -> IF IsOdd(AReg(s, 7)) THEN Fault
                      ELSE Ok([SetA(s, 7, WAdd(AReg(s, 7), W4(4))) EXCEPT !.pc = LoadBE(s.mem, AReg(s, 7), 4)])
      [] m \in MK!SccNames -> Ok(Put(s2, ld, IF CondHolds(MK!CondIndex(m, "s") - 1, s.ccr) THEN <<255>> ELSE <<0>>))
      [] m \in MK!DbccNames ->
            IF CondHolds(MK!CondIndex(m, "db") - 1, s.ccr) THEN Ok([s EXCEPT !.pc = next])
            ELSE LET cntw == WSub(Low(DReg(s, i.src.r), 2), <<1, 0>>)
                     t == SetD(s, i.src.r, SetLow(DReg(s, i.src.r), cntw, 2)) IN
                 Ok([t EXCEPT !.pc = IF cntw = <<255, 255>> THEN next ELSE WAdd(pc2, W4(i.dst.v))])
      [] m = "link" -> LET t == Push(s, AReg(s, i.src.r))  fp == AReg(t, 7) IN
                       Ok([SetA(SetA(t, i.src.r, fp), 7, WAdd(fp, W4(i.dst.v))) EXCEPT !.pc = next])
      [] m = "unlk" -> LET fp == AReg(s, i.dst.r) IN
                       IF IsOdd(fp) THEN Fault
                       ELSE LET t == SetA(SetA(s, 7, WAdd(fp, W4(4))), i.dst.r, LoadBE(s.mem, fp, 4)) IN Ok([t EXCEPT !.pc = next])
      [] m = "movem" /\ i.src.k = "list" ->                                  \* registers to memory
            LET regs == RegList(i.src.v)  cnt == Len(regs) IN
            IF i.dst.k = "pre"
            THEN LET base == WSub(AReg(s, i.dst.r), W4(n * cnt)) IN
                 IF IsOdd(base) THEN Fault
                 ELSE Ok([SetA(s, i.dst.r, base) EXCEPT !.mem = MovemStore(s, s.mem, regs, 1, base, n), !.pc = next])
            ELSE LET la == Res(s, i.dst, n, WAdd(pc2, W4(2))) IN
                 IF IsOdd(la.addr) THEN Fault ELSE Ok([s EXCEPT !.mem = MovemStore(s, s.mem, regs, 1, la.addr, n), !.pc = next])
      [] m = "movem" /\ i.dst.k = "list" ->                                  \* memory to registers (word data is sign-extended)
            LET regs == RegList(i.dst.v)  cnt == Len(regs)
                la == IF i.src.k = "post" THEN [addr |-> AReg(s, i.src.r)] ELSE Res(s, i.src, n, WAdd(pc2, W4(2))) IN
            IF IsOdd(la.addr) THEN Fault
            ELSE LET t == MovemLoad(s, regs, 1, la.addr, n)
                     u == IF i.src.k = "post" THEN SetA(t, i.src.r, WAdd(la.addr, W4(n * cnt))) ELSE t IN
                 Ok([u EXCEPT !.pc = next])
      [] OTHER -> Out

-----------------------------------------------------------------------------
(* Registers changed / read by a step, for the tie to the static sets         *)
(* MK!Reads / MK!Writes (D0-D7 = 0..7, A0-A7 = 8..15)                          *)
Changed(s, t) == {r \in 0..15 : AnyReg(s, r) # AnyReg(t, r)}
=============================================================================
