----------------------------- MODULE Thumb_MC -----------------------------
(* Idiom M for Thumb.tla and Arm32.tla: laws of the two ISA models, checked  *)
(* exhaustively on small domains before the models judge ppci.               *)
(*  family "t16"  every 16-bit pattern (65 536; a third when ~Deep): exactly  *)
(*                one format of table                                        *)
(*                A6-1 matches; a defined instruction re-encodes to itself   *)
(*  family "t32"  first x second halfword samples of the 32-bit encodings    *)
(*  family "tln"  printed Thumb lines (every form x registers x labelled     *)
(*                boundary operands): Decode(Encode(AsmT(line))) = AsmT(line) *)
(*  family "aw"   A32 words: all of bits 27:20 x condition / Rn samples x    *)
(*                low-halfword samples: a defined instruction re-encodes     *)
(*  family "aln"  printed A32 lines (forms x registers x shifts x values)    *)
(*  family "amod" every (rotation, imm8) pair of the modified immediate      *)
(*  family "amn"  every mnemonic spelling parses in exactly one way          *)
(* The same run writes the boundary table of idiom G (operand values the     *)
(* harness instantiates ppci's classes with) to IOEnv.OUT_FILE.             *)
EXTENDS Thumb, Arm32, Json, IOUtils, SequencesExt
CONSTANTS Deep, Fams

-----------------------------------------------------------------------------
(* idiom G: labelled boundary values of a range <<lo, hi, align>>            *)
Labelled(lo, hi, a) ==
    {lo - a, lo - 1, lo, lo + 1, lo + a, -a, -1, 0, 1, a, 2 * a, 3 * a, hi - a, hi - 1, hi, hi + 1, hi + a, 2 * hi + 2 * a,
     ((lo + hi) \div (2 * a)) * a, ((lo + hi) \div (2 * a)) * a + a, -(hi + a), -(2 * hi + 2 * a),
     (hi \div (2 * a)) * a, (hi \div (2 * a)) * a + a, (lo \div (2 * a)) * a, (lo \div (2 * a)) * a - a,    \* half way: the two top bits differ
     (hi \div (4 * a)) * a, (lo \div (4 * a)) * a, (hi \div (4 * a)) * 3 * a, (lo \div (4 * a)) * 3 * a}
Inside(lo, hi, a, v) == lo <= v /\ v <= hi /\ v % a = 0
Row(r) == [mns |-> SetToSeq(r[1]), pat |-> r[2], lo |-> r[3], hi |-> r[4], align |-> r[5],
           vals |-> SetToSeq({[v |-> v, inside |-> Inside(r[3], r[4], r[5], v)] : v \in Labelled(r[3], r[4], r[5])})]
Table == [thumb |-> SetToSeq({Row(r) : r \in TRanges}), arm |-> SetToSeq({Row(r) : r \in ARanges}),
          aimm |-> SetToSeq({[v |-> v, inside |-> ModImmOK(v)] : v \in AImmSamples})]
WriteTable == JsonSerialize(IOEnv.OUT_FILE, Table)
ASSUME WriteTable

-----------------------------------------------------------------------------
VARIABLES fam, pick
vars == <<fam, pick>>
None == [k |-> "none"]

\* ---- printed lines: <<mnemonic, ops, symbol address, instruction address>>
Rg(r) == <<"r", r, "">>
Im(v) == <<"i", v, "">>
Lb == <<"l", 0, "L_t">>
Wd(w) == <<"w", 0, w>>
G(ch) == <<ch, 0, "">>
LowT == IF Deep THEN 0..7 ELSE {0, 1, 3, 7}
AnyT == IF Deep THEN 0..15 ELSE {0, 1, 7, 8, 9, 12, 13, 14, 15}
ImmsIn(r) == {v \in Labelled(r[3], r[4], r[5]) : Inside(r[3], r[4], r[5], v)}
RangeOf(S, mn, pat) == CHOOSE r \in S : mn \in r[1] /\ r[2] = pat
TPc == {4194304, 4194306}
TLines ==
    {<<m, <<Rg(d), Im(v)>>, 0, 0>> : m \in {"mov", "cmp"}, d \in LowT, v \in ImmsIn(RangeOf(TRanges, "mov", "ri"))}
    \cup {<<m, <<Rg(d), Rg(n), Im(v)>>, 0, 0>> : m \in {"add", "sub"}, d \in LowT, n \in LowT, v \in 0..7}
    \cup {<<m, <<Rg(d), Rg(n), Rg(k)>>, 0, 0>> : m \in {"add", "sub"}, d \in LowT, n \in LowT, k \in LowT}
    \cup {<<m, <<Rg(SP), Rg(SP), Im(v)>>, 0, 0>> : m \in {"add", "sub"}, v \in ImmsIn(RangeOf(TRanges, "add", "SSi"))}
    \cup {<<"mov", <<Rg(d), Rg(k)>>, 0, 0>> : d \in AnyT, k \in AnyT}
    \cup {<<"add", <<Rg(d), Rg(k)>>, 0, 0>> : d \in AnyT, k \in AnyT}
    \cup {<<m, <<Rg(d), Rg(k)>>, 0, 0>> : m \in DpTwo \cup {"cmp", "tst", "cmn", "mvn", "rsb", "mul", "movs"}, d \in LowT, k \in LowT}
    \cup {<<m, <<Rg(d), Rg(k), Im(v)>>, 0, 0>> : m \in {"lsl", "lsr", "asr"}, d \in LowT, k \in LowT, v \in {1, 2, 31}}
    \cup {<<m, <<Rg(d), G("["), Rg(n), Im(v), G("]")>>, 0, 0>> :
              m \in {"ldr", "str"}, d \in LowT, n \in LowT, v \in ImmsIn(RangeOf(TRanges, "ldr", "r[ri]"))}
    \cup {<<m, <<Rg(d), G("["), Rg(n), Im(v), G("]")>>, 0, 0>> :
              m \in {"ldrb", "strb"}, d \in LowT, n \in LowT, v \in ImmsIn(RangeOf(TRanges, "ldrb", "r[ri]"))}
    \cup {<<m, <<Rg(d), G("["), Rg(n), Im(v), G("]")>>, 0, 0>> :
              m \in {"ldrh", "strh"}, d \in LowT, n \in LowT, v \in ImmsIn(RangeOf(TRanges, "ldrh", "r[ri]"))}
    \cup {<<m, <<Rg(d), G("["), Rg(SP), Im(v), G("]")>>, 0, 0>> :
              m \in {"ldr", "str"}, d \in LowT, v \in ImmsIn(RangeOf(TRanges, "ldr", "r[Si]"))}
    \cup {<<m, <<Rg(d), G("["), Rg(n), Rg(k), G("]")>>, 0, 0>> :
              m \in {"ldr", "str", "ldrb", "strb", "ldrh", "strh", "ldrsb", "ldrsh"}, d \in LowT, n \in LowT, k \in LowT}
    \cup {<<m, <<Rg(d), Lb>>, Align4(pc + 4) + v, pc>> : m \in {"ldr", "adr"}, d \in LowT, pc \in TPc,
                                                          v \in ImmsIn(RangeOf(TRanges, "ldr", "rl"))}
    \cup {<<"b", <<Lb>>, pc + 4 + v, pc>> : pc \in TPc, v \in ImmsIn(RangeOf(TRanges, "b", "l"))}
    \cup {<<m, <<Lb>>, pc + 4 + v, pc>> : m \in CondMn2, pc \in TPc, v \in ImmsIn(RangeOf(TRanges, "beq", "l"))}
    \cup {<<m, <<Lb>>, 33554432 + 4 + v, 33554432>> : m \in {"bl", "bw"}, v \in ImmsIn(RangeOf(TRanges, "bl", "l"))}
    \cup {<<m, <<Lb>>, 33554432 + 4 + v, 33554432>> : m \in CondMn4, v \in ImmsIn(RangeOf(TRanges, "beqw", "l"))}
    \cup {<<m, <<Rg(k)>>, 0, 0>> : m \in {"bx", "blx"}, k \in 0..14}
    \cup {<<"push", <<G("{")>> \o [k \in 1..Cardinality(l) |-> Rg(SetToSeq(l)[k])] \o <<G("}")>>, 0, 0>> :
              l \in (SUBSET {0, 3, 7, LR}) \ {{}}}
    \cup {<<"pop", <<G("{")>> \o [k \in 1..Cardinality(l) |-> Rg(SetToSeq(l)[k])] \o <<G("}")>>, 0, 0>> :
              l \in (SUBSET {0, 4, 7, PC}) \ {{}}}
    \cup {<<m, <<>>, 0, 0>> : m \in {"nop", "yield", "wfe", "wfi", "sev"}}
    \cup {<<m, <<Im(v)>>, 0, 0>> : m \in {"bkpt", "svc"}, v \in {0, 1, 128, 255}}
    \cup {<<m, <<Rg(d), Rg(n), Rg(k)>>, 0, 0>> : m \in {"sdiv", "udiv"}, d \in AnyT, n \in AnyT, k \in AnyT}

AnyA == IF Deep THEN 0..15 ELSE {0, 1, 9, 13, 14, 15}
DeepA == {0, 1, 7, 8, 12, 13, 14, 15}
R2A == IF Deep THEN DeepA \X DeepA ELSE {<<0, 1>>, <<9, 9>>, <<13, 15>>, <<15, 14>>, <<14, 0>>, <<1, 13>>, <<12, 7>>}
R3A == IF Deep THEN (DeepA \ {12}) \X (DeepA \ {12}) \X (DeepA \ {12})
       ELSE {<<0, 1, 2>>, <<9, 9, 9>>, <<13, 14, 15>>, <<15, 13, 14>>, <<14, 15, 0>>, <<1, 0, 13>>, <<12, 7, 1>>, <<2, 2, 9>>, <<3, 8, 8>>,
             <<15, 15, 15>>, <<0, 0, 0>>}
ShAmts == {0, 1, 15, 31}
ACond == IF Deep THEN {"", "eq", "ls", "cc", "hs"} ELSE {"", "eq", "hs"}
AImms == {v \in AImmSamples : ModImmOK(v)}
APc == 67108864
\* groups of printed A32 lines (an operator, so that a group is built by the worker that picks it)
NALineGroups == 8
ALineGroup(g) ==
    CASE g = 1 ->
        {<<m \o cs, <<Rg(t[1]), Rg(t[2]), Im(v)>>, 0, 0>> : m \in {"and", "eor", "sub", "rsb", "add", "adc", "sbc", "rsc", "orr", "bic"},
                                                          cs \in {"", "ne"}, t \in R2A, v \in AImms}
      [] g = 2 ->
        {<<m \o cs, <<Rg(t[1]), Rg(t[2]), Rg(t[3])>>, 0, 0>> :
              m \in {"and", "sub", "add", "orr", "adds", "mul", "sdiv", "udiv", "lsl", "lsr", "asr", "ror"}, cs \in ACond, t \in R3A}
      [] g = 3 ->
        {<<m, <<Rg(t[1]), Rg(t[2]), Rg(t[3]), Wd(w), Im(v)>>, 0, 0>> : m \in {"add", "eor", "subcs"}, t \in R3A,
                                                                     w \in {"lsl", "lsr", "asr", "ror"}, v \in ShAmts}
        \cup {<<m, <<Rg(t[1]), Rg(t[2]), Rg(t[3]), Wd(w), Rg(q)>>, 0, 0>> : m \in {"add", "orr"}, t \in R3A,
                                                                     w \in {"lsl", "lsr", "asr", "ror"}, q \in {0, 9, 14}}
      [] g = 4 ->
        {<<m, <<Rg(d), Im(v)>>, 0, 0>> : m \in {"mov", "mvn", "cmp", "cmn", "tst", "teq", "movls"}, d \in AnyA, v \in AImms}
        \cup {<<m, <<Rg(t[1]), Rg(t[2])>>, 0, 0>> : m \in {"mov", "mvn", "cmp", "cmn", "tst", "teq", "movls", "clz"}, t \in R2A}
        \cup {<<m, <<Rg(t[1]), Rg(t[2]), Wd(w), Im(v)>>, 0, 0>> : m \in {"mov", "cmp"}, t \in R2A,
                                                                 w \in {"lsl", "lsr", "asr", "ror"}, v \in ShAmts}
        \cup {<<m, <<Rg(t[1]), Rg(t[2]), Rg(t[3]), Rg(q)>>, 0, 0>> : m \in {"mla", "mls"}, t \in R3A, q \in {0, 9, 14, 15}}
      [] g = 5 ->
        {<<m, <<Rg(t[1]), G("["), Rg(t[2]), Im(v), G("]")>>, 0, 0>> :
              m \in {"ldr", "str", "ldrb", "strb"}, t \in {x \in R2A : x[2] # PC}, v \in ImmsIn(RangeOf(ARanges, "ldr", "r[ri]"))}
        \cup {<<m, <<Rg(t[1]), G("["), Rg(t[2]), Im(v), G("]")>>, 0, 0>> :
              m \in {"ldrh", "strh", "ldrsb", "ldrsh"}, t \in {x \in R2A : x[2] # PC}, v \in ImmsIn(RangeOf(ARanges, "ldrh", "r[ri]"))}
      [] g = 6 ->
        {<<m, <<Rg(d), G("["), Rg(n), Im(v), G("]"), G("!")>>, 0, 0>> : m \in {"ldr", "strb", "ldrsh"}, d \in {1}, n \in {2, 13}, v \in {-4, 4, 255}}
        \cup {<<m, <<Rg(d), G("["), Rg(n), G("]"), Im(v)>>, 0, 0>> : m \in {"ldr", "strb", "ldrsh"}, d \in {1}, n \in {2, 13}, v \in {-4, 4, 255}}
        \cup {<<m, <<Rg(t[1]), G("["), Rg(t[2]), Rg(t[3]), G("]")>>, 0, 0>> :
              m \in {"ldr", "str", "ldrb", "strb", "ldrh", "strh", "ldrsb", "ldrsh"}, t \in {x \in R3A : x[3] # PC}}
      [] g = 7 ->
        {<<m, <<Rg(d), Lb>>, APc + 8 + v, APc>> : m \in {"ldr"}, d \in AnyA, v \in ImmsIn(RangeOf(ARanges, "ldr", "rl"))}
        \cup {<<"adr", <<Rg(d), Lb>>, APc + 8 + v, APc>> : d \in AnyA, v \in {0, 4, 1020, 4080, -4, -1020, -4080}}
        \cup {<<m \o cs, <<Lb>>, APc + 8 + v, APc>> : m \in {"b", "bl"}, cs \in ACond \cup {"gt", "lo"}, v \in ImmsIn(RangeOf(ARanges, "b", "l"))}
        \cup {<<m, <<Rg(k)>>, 0, 0>> : m \in {"bx", "blx"}, k \in 0..14}
      [] g = 8 ->
        {<<m, [k \in 1..Cardinality(l) |-> Rg(SetToSeq(l)[k])], 0, 0>> : m \in {"push", "pop"}, l \in (SUBSET {0, 4, 11, LR, PC}) \ {{}}}
        \cup {<<m, <<<<"p", p, "">>, Im(o1), Rg(d), <<"c", n, "">>, <<"c", k, "">>, Im(o2)>>, 0, 0>> :
              m \in {"mcr", "mrc"}, p \in {8, 14, 15}, o1 \in {0, 7}, d \in {0, 9, 14}, n \in {0, 7, 15}, k \in {0, 15}, o2 \in {0, 5, 7}}
        \cup {<<m, <<Im(v)>>, 0, 0>> : m \in {"svc", "bkpt"}, v \in {0, 1, 255, 4096, 65535}}
        \cup {<<m, <<>>, 0, 0>> : m \in {"nop", "yield", "wfe", "wfi", "sev"}}

T32Hi == {61440 + x : x \in {0, 1, 2, 512, 1023, 1024, 1025, 1536, 2047, 64, 128, 960, 896, 1984}} \cup {64400 + r : r \in 0..15}
         \cup {64432 + r : r \in 0..15} \cup {59392, 63488, 64512, 65535}
T32Lo == {32768 + x : x \in {0, 1, 2047, 2048, 4096, 6144, 8192, 10240, 12288, 14336, 16384, 20480, 22528, 24576, 28672, 30720, 32767}}
         \cup {61680 + r : r \in 0..15} \cup {61440 + 256 * r + 240 + 5 : r \in 0..15} \cup {0, 4351, 61695}
AwHi == {cnd * 4096 + op * 16 + rn : cnd \in {0, 14}, op \in 0..255, rn \in (IF Deep THEN {0, 1, 13, 15} ELSE {0, 1, 15})}
        \cup {15 * 4096 + op * 16 : op \in {0, 87, 160, 255}}
AwLo == {0, 1, 16, 17, 144, 145, 176, 177, 208, 240, 241, 61440, 61441, 61444, 4660, 65535, 3871, 33825, 4021, 65310, 61567,
         96, 97, 32, 64, 3840, 3857, 65280, 65297, 65329, 61457, 61713, 3985, 7956, 40960, 57343, 16, 112, 113, 65392}
         \cup (IF Deep THEN {2048 * x + 159 + 32 * (x % 4) : x \in 0..31} ELSE {})

Init == fam = "none" /\ pick = None
PickFam == fam = "none" /\ fam' \in Fams /\ pick' = None
\* quick configuration: every third high byte (all low bytes): every value of the opcode bits 15:10 occurs
T16Hi == IF Deep THEN 0..255 ELSE {h \in 0..255 : h % 3 = 0}
PickT16 == fam = "t16" /\ pick = None /\ UNCHANGED fam /\ \E hi \in T16Hi : pick' = [k |-> "t16-", hi |-> hi]
PickT16b == fam = "t16" /\ pick.k = "t16-" /\ UNCHANGED fam /\ \E lo \in 0..255 : pick' = [k |-> "t16", h |-> 256 * pick.hi + lo]
PickT32 == fam = "t32" /\ pick = None /\ UNCHANGED fam /\ \E h1 \in T32Hi, h2 \in T32Lo : pick' = [k |-> "t32", h1 |-> h1, h2 |-> h2]
PickTln == fam = "tln" /\ pick = None /\ UNCHANGED fam /\ \E ln \in TLines : pick' = [k |-> "tln", ln |-> ln]
PickAw == fam = "aw" /\ pick = None /\ UNCHANGED fam /\ \E hi \in AwHi : pick' = [k |-> "aw-", hi |-> hi]
PickAwb == fam = "aw" /\ pick.k = "aw-" /\ UNCHANGED fam /\ \E lo \in AwLo : pick' = [k |-> "aw", lo |-> lo, hi |-> pick.hi]
PickAlnG == fam = "aln" /\ pick = None /\ UNCHANGED fam /\ \E g \in 1..NALineGroups : pick' = [k |-> "aln-", g |-> g]
PickAln == fam = "aln" /\ pick.k = "aln-" /\ UNCHANGED fam /\ \E ln \in ALineGroup(pick.g) : pick' = [k |-> "aln", ln |-> ln]
PickAmod == fam = "amod" /\ pick = None /\ UNCHANGED fam /\ \E rot \in 0..15, b \in 0..255 : pick' = [k |-> "amod", rot |-> rot, b |-> b]
PickAmn == fam = "amn" /\ pick = None /\ UNCHANGED fam /\ \E nm \in MnNames : pick' = [k |-> "amn", nm |-> nm]
Next == PickFam \/ PickT16 \/ PickT16b \/ PickT32 \/ PickTln \/ PickAw \/ PickAwb \/ PickAlnG \/ PickAln \/ PickAmod \/ PickAmn

RegsOK(d) == /\ Reads(d) \subseteq 0..15 /\ Writes(d) \subseteq 0..15
             /\ ImplicitR(d) \subseteq Reads(d) \cup Writes(d)
             /\ \A f \in {d.rd, d.rn, d.rm, d.ra, d.rs} : f \in 0..16
-----------------------------------------------------------------------------
\* table A6-1 is a partition of the 16-bit space
LawOneFormat == pick.k = "t16" => Cardinality(Matches16(pick.h)) = 1
\* a defined 16-bit instruction is re-encoded to the same halfword by the reference encoder
LawReencode16 == pick.k = "t16" => LET d == Decode16(pick.h) IN
    /\ d.len = 2
    /\ Valid(d) => (Enc16(d) = pick.h /\ RegsOK(d) /\ Decode(Encode(d)) = d)
LawReencode32 == pick.k = "t32" => LET d == Decode32(pick.h1, pick.h2) IN
    /\ d.len = 4
    /\ Valid(d) => (Enc32(d) = <<pick.h1, pick.h2>> /\ RegsOK(d) /\ Decode(Encode(d)) = d)
\* the reference assembler: a printed line is encoded to bytes that decode to what the line means
LawThumbLine == pick.k = "tln" => LET a == AsmT(pick.ln[1], pick.ln[2], pick.ln[3], pick.ln[4]) IN
    /\ a # NoAsm
    /\ Core(Decode(Encode(a))) = Core(a)
    /\ Len(Encode(a)) = a.len
LawReencodeA == pick.k = "aw" => LET d == DecodeW(pick.lo, pick.hi) IN
    /\ d.len = 4
    /\ Valid(d) => (EncodeW(d) = <<pick.lo, pick.hi>> /\ RegsOK(d) /\ DecodeA(EncodeA(d)) = d)
LawArmLine == pick.k = "aln" => LET a == Complete(AsmA(pick.ln[1], pick.ln[2], pick.ln[3], pick.ln[4])) IN
    /\ a # NoAsm
    /\ DecodeA(EncodeA(a)) = a
LawModImm == pick.k = "amod" => LET v == ModImm(pick.rot, pick.b) IN
    /\ Imm8Of(v, pick.rot) = pick.b
    /\ ModImmOK(v) /\ MinRot(v) <= pick.rot
    /\ (pick.rot = 0 => v = pick.b)
    /\ (pick.rot = 4 /\ pick.b = 255) => v = -16777216
LawMnemonic == pick.k = "amn" => Cardinality(MnParses(pick.nm)) = 1
=============================================================================
