----------------------------- MODULE Graphs2_SM -----------------------------
(* The mutable graph objects of ppci.graph as explicit state machines       *)
(* (extension property X14).                                                *)
(*                                                                           *)
(*  kind = "di"    ppci.graph.digraph.DiGraph: node set plus THREE maps     *)
(*                 kept by hand -- suc_map, pre_map and the undirected      *)
(*                 adj_map inherited from BaseGraph (degree, adjecent()).   *)
(*  kind = "mask"  ppci.graph.maskable_graph.MaskableGraph (undirected      *)
(*                 Graph whose nodes can be masked = temporarily removed;   *)
(*                 "edge information is retained, and restored when the     *)
(*                 node is placed back"): adj_map holds for every node its  *)
(*                 unmasked neighbours, _masked_adj its masked ones.        *)
(*                                                                           *)
(* Every action mirrors one mutator of the code and updates the maps the    *)
(* way the code does (per key), next to the ghost variable `edges` -- the   *)
(* abstract graph the object stands for.  The invariants say that the       *)
(* bookkeeping never drifts from the abstract graph:                        *)
(*   SucPredSymmetric  m in suc[n] <=> n in pre[m]                          *)
(*   AdjSymmetric      adjacency (incl. masked part) is symmetric           *)
(*   DiRefines         suc / pre / adj are exactly the successor,           *)
(*                     predecessor and neighbour sets of `edges`            *)
(*   MkRefines         adj / madj are the unmasked / masked neighbours      *)
(*   NoDangling        nothing refers to a node that is not in the graph    *)
(* Calls outside a mutator's documented domain (its assert statements:      *)
(* end points must be nodes of the graph, masked nodes are not) are not     *)
(* actions.  DiGraph.del_edge asserts n # m although add_edge accepts a     *)
(* self loop; deleting a self loop may therefore either be refused          *)
(* (DiDelSelfRefused, nothing changes) or be carried out (DiDelSelf).       *)
EXTENDS Graphs2

CONSTANT NN                     \* node identities 1..NN
Node == 1..NN

VARIABLES kind, nodes, masked, edges, suc, pre, adj, madj
gv == <<kind, nodes, masked, edges, suc, pre, adj, madj>>

NoMap == [m \in Node |-> {}]
GInit(kd) == /\ kind = kd /\ nodes = {} /\ masked = {} /\ edges = {}
             /\ suc = NoMap /\ pre = NoMap /\ adj = NoMap /\ madj = NoMap

\* ------------------------------------------------------------- DiGraph ----
\* BaseGraph.add_node (OrderedSet.add: adding a present node changes nothing)
DiAddNode(v) ==
    /\ kind = "di" /\ v \in Node
    /\ nodes' = nodes \cup {v}
    /\ UNCHANGED <<kind, masked, edges, suc, pre, adj, madj>>

\* DiGraph.add_edge: asserts both ends are nodes; a self loop is accepted
DiAddEdge(v, w) ==
    /\ kind = "di" /\ v \in nodes /\ w \in nodes
    /\ edges' = edges \cup {<<v, w>>}
    /\ suc' = [suc EXCEPT ![v] = @ \cup {w}]
    /\ pre' = [pre EXCEPT ![w] = @ \cup {v}]
    /\ adj' = [adj EXCEPT ![v] = @ \cup {w}, ![w] = @ \cup {v}]
    /\ UNCHANGED <<kind, nodes, masked, madj>>

\* DiGraph.del_edge, v # w: the neighbour relation goes only when no edge is
\* left between the two nodes in either direction
DiDelEdge(v, w) ==
    /\ kind = "di" /\ v \in nodes /\ w \in nodes /\ v # w
    /\ edges' = edges \ {<<v, w>>}
    /\ suc' = [suc EXCEPT ![v] = @ \ {w}]
    /\ pre' = [pre EXCEPT ![w] = @ \ {v}]
    /\ adj' = IF <<w, v>> \in edges \/ <<v, w>> \notin edges THEN adj
              ELSE [adj EXCEPT ![v] = @ \ {w}, ![w] = @ \ {v}]
    /\ UNCHANGED <<kind, nodes, masked, madj>>

DiDelSelfRefused(v) ==
    /\ kind = "di" /\ v \in nodes
    /\ UNCHANGED gv
DiDelSelf(v) ==
    /\ kind = "di" /\ v \in nodes
    /\ edges' = edges \ {<<v, v>>}
    /\ suc' = [suc EXCEPT ![v] = @ \ {v}]
    /\ pre' = [pre EXCEPT ![v] = @ \ {v}]
    /\ adj' = [adj EXCEPT ![v] = @ \ {v}]
    /\ UNCHANGED <<kind, nodes, masked, madj>>

\* DiGraph.del_node: every edge from or to the node goes, then the node
DiDelNode(v) ==
    /\ kind = "di" /\ v \in nodes
    /\ nodes' = nodes \ {v}
    /\ edges' = Without(edges, v)
    /\ suc' = [m \in Node |-> IF m = v THEN {} ELSE suc[m] \ {v}]
    /\ pre' = [m \in Node |-> IF m = v THEN {} ELSE pre[m] \ {v}]
    /\ adj' = [m \in Node |-> IF m = v THEN {} ELSE adj[m] \ {v}]
    /\ UNCHANGED <<kind, masked, madj>>

\* ------------------------------------------------------- MaskableGraph ----
MkAddNode(v) ==
    /\ kind = "mask" /\ v \in Node \ masked
    /\ nodes' = nodes \cup {v}
    /\ UNCHANGED <<kind, masked, edges, suc, pre, adj, madj>>

\* Graph.add_edge: n = m is ignored; both ends must be (unmasked) nodes
MkAddEdge(v, w) ==
    /\ kind = "mask" /\ v \in nodes /\ w \in nodes
    /\ IF v = w THEN UNCHANGED <<edges, adj>>
       ELSE /\ edges' = edges \cup {<<v, w>>, <<w, v>>}
            /\ adj' = [adj EXCEPT ![v] = @ \cup {w}, ![w] = @ \cup {v}]
    /\ UNCHANGED <<kind, nodes, masked, suc, pre, madj>>

MkDelEdge(v, w) ==
    /\ kind = "mask" /\ v \in nodes /\ w \in nodes /\ v # w
    /\ edges' = edges \ {<<v, w>>, <<w, v>>}
    /\ adj' = [adj EXCEPT ![v] = @ \ {w}, ![w] = @ \ {v}]
    /\ UNCHANGED <<kind, nodes, masked, suc, pre, madj>>

\* Graph.del_node of an unmasked node: all its edges go, also those to
\* neighbours that are masked at the moment
MkDelNode(v) ==
    /\ kind = "mask" /\ v \in nodes
    /\ nodes' = nodes \ {v}
    /\ edges' = Without(edges, v)
    /\ adj'  = [m \in Node |-> IF m = v THEN {} ELSE adj[m] \ {v}]
    /\ madj' = [m \in Node |-> IF m = v THEN {} ELSE madj[m]]
    /\ UNCHANGED <<kind, masked, suc, pre>>

\* MaskableGraph.mask_node: the node leaves the node set, every neighbour
\* (masked or not) moves it from its adj to its masked-adj list
MkMask(v) ==
    /\ kind = "mask" /\ v \in nodes
    /\ nodes' = nodes \ {v} /\ masked' = masked \cup {v}
    /\ LET nb == adj[v] \cup madj[v] IN
         /\ adj'  = [m \in Node |-> IF m \in nb THEN adj[m] \ {v} ELSE adj[m]]
         /\ madj' = [m \in Node |-> IF m \in nb THEN madj[m] \cup {v} ELSE madj[m]]
    /\ UNCHANGED <<kind, edges, suc, pre>>

MkUnmask(v) ==
    /\ kind = "mask" /\ v \in masked
    /\ nodes' = nodes \cup {v} /\ masked' = masked \ {v}
    /\ LET nb == adj[v] \cup madj[v] IN
         /\ adj'  = [m \in Node |-> IF m \in nb THEN adj[m] \cup {v} ELSE adj[m]]
         /\ madj' = [m \in Node |-> IF m \in nb THEN madj[m] \ {v} ELSE madj[m]]
    /\ UNCHANGED <<kind, edges, suc, pre>>

\* ---------------------------------------------------------- invariants ----
Live == nodes \cup masked
GTypeOK ==
    /\ kind \in {"di", "mask"}
    /\ nodes \subseteq Node /\ masked \subseteq Node /\ nodes \cap masked = {}
    /\ edges \subseteq Node \X Node
    /\ \A mp \in {suc, pre, adj, madj} : mp \in [Node -> SUBSET Node]
SucPredSymmetric == \A v \in Node : \A w \in Node : w \in suc[v] <=> v \in pre[w]
AdjSymmetric == \A v \in Node : \A w \in Node :
                   (w \in adj[v] \cup madj[v]) <=> (v \in adj[w] \cup madj[w])
NoDangling ==
    /\ edges \subseteq Live \X Live
    /\ \A v \in Node : suc[v] \cup pre[v] \cup adj[v] \cup madj[v] \subseteq Live
    /\ \A v \in Node \ Live : suc[v] = {} /\ pre[v] = {} /\ adj[v] = {} /\ madj[v] = {}
DiRefines == kind = "di" =>
    /\ masked = {} /\ madj = NoMap
    /\ suc = SuccMap(Node, edges) /\ pre = PredMap(Node, edges) /\ adj = AdjMap(Node, edges)
MkRefines == kind = "mask" =>
    /\ suc = NoMap /\ pre = NoMap
    /\ edges = Sym(edges) /\ \A v \in Node : <<v, v>> \notin edges
    /\ \A v \in Node : /\ adj[v]  = Succs(edges, v) \cap nodes
                       /\ madj[v] = Succs(edges, v) \cap masked
\* what get_number_of_edges has to answer
NumEdgesOf(kd, ns, es) == IF kd = "di" THEN Cardinality(es)
                          ELSE Cardinality(Within2(ns, es)) \div 2
=============================================================================
