---------------------------- MODULE Graphs2_Eval ----------------------------
(* Idiom E for extension property X14: what the real ppci.graph code        *)
(* answered about a graph is judged against the definitions of Graphs2.tla. *)
(*                                                                           *)
(* Input: JSON arrays (one file per chunk) of graph records                  *)
(*   [n |-> number of nodes (1..n), edges |-> pair list, entry |-> node,    *)
(*    obs |-> << observation, ... >>]      (pair <<a, b>> = 1000 * a + b)   *)
(* Every observation o carries o.cl, the clause it is evidence for:         *)
(*  "scc"    o.reach = [ok, t, x]: pairs answered True by / raising in      *)
(*           ControlFlowGraph.can_reach; the classes of mutual reachability *)
(*           derived from it must be the strongly connected components      *)
(*  "dfs"    o.start, o.rev, o.out = [ok, v]: digraph.dfs(start, rev) as    *)
(*           the list of 1000 * parent + node (parent 0 = None)             *)
(*  "topo"   o.out = [ok, v] | [ok |-> FALSE, exc]: graph.topological_sort  *)
(*           of node objects whose .children are the successors             *)
(*  "loops"  o.loops = [ok, v]: ControlFlowGraph.calculate_loops, each loop *)
(*           as << header, rest... >>                                        *)
(*  "count"  o.nn = [ok, n] len(graph), o.ne = [ok, n] get_number_of_edges  *)
(*  "cyclo"  o.cc = [ok, n, neg] cyclo.cyclomatic_complexity               *)
(*  "maps"   o.suc, o.pre, o.adj = [ok, v]: successors / predecessors /     *)
(*           adjecent of every node of a DiGraph built with add_edge        *)
(*  "callgraph" o.F, o.X, o.calls (the module: see Graphs2.CallEdges),      *)
(*           o.cg = [ok, n, edges]: callgraph.mod_to_call_graph             *)
(* [ok |-> FALSE, exc |-> class] = the call raised; never allowed, except   *)
(* that topological_sort has to fail on a cyclic graph.                     *)
(*                                                                           *)
(* Two clauses have a *listed deviation* of the unchanged tree.  For those  *)
(* TLC also decides whether a wrong answer is that deviation or something   *)
(* else (the invariant ...OrListed is violated only by something else), so  *)
(* that the known-finding patterns stay narrow.                             *)
EXTENDS Graphs2, Json, IOUtils, TLC

NChunks == 32
ChunkFile(ch) == IOEnv.TRACE_FILE \o ToString(ch) \o ".json"
Pairs(s) == {<<s[k] \div 1000, s[k] % 1000>> : k \in 1..Len(s)}
G(r)     == Pairs(r.edges)
Nodes(r) == 1..r.n

VARIABLES chunk, i, c, rec, dm
vars == <<chunk, i, c, rec, dm>>
Empty == [x \in {} |-> 0]
Init == chunk = 0 /\ i = 0 /\ c = 0 /\ rec = Empty /\ dm = Empty
PickChunk == chunk = 0 /\ chunk' \in 1..NChunks /\ UNCHANGED <<i, c, rec, dm>>
PickRec == /\ chunk > 0 /\ i = 0 /\ UNCHANGED <<chunk, c>>
           /\ \E F \in {JsonDeserialize(ChunkFile(chunk))} : \E k \in 1..Len(F) :
                 /\ i' = k
                 /\ rec' = F[k]
                 /\ dm' = DomMapF(G(F[k]), F[k].entry)
PickClause == /\ i > 0 /\ c = 0 /\ UNCHANGED <<chunk, i, rec, dm>>
              /\ c' \in 1..Len(rec.obs)
Next == PickChunk \/ PickRec \/ PickClause
Shown == [chunk |-> chunk, i |-> i, c |-> c]

\* ---- the clauses ---------------------------------------------------------
SccAllowed(r, o) ==
    /\ o.reach.ok /\ o.reach.x = <<>>
    /\ ClassesOf(Nodes(r), Pairs(o.reach.t)) = SCCs(Nodes(r), G(r))

DfsAllowed(r, o) ==
    LET E == IF o.rev THEN Rev(G(r)) ELSE G(r)
        v == IF o.out.ok THEN o.out.v ELSE <<>>
        P(k) == v[k] \div 1000
        V(k) == v[k] % 1000
    IN /\ o.out.ok
       /\ \A a \in 1..Len(v) : \A b \in 1..Len(v) : V(a) = V(b) => a = b      \* each node once
       /\ {V(k) : k \in 1..Len(v)} = Reach(E, o.start)                         \* exactly the reachable
       /\ Len(v) > 0 /\ V(1) = o.start /\ P(1) = 0
       \* every other node is reported with an edge from a node visited before it
       /\ \A k \in 2..Len(v) : <<P(k), V(k)>> \in E /\ \E j \in 1..(k - 1) : V(j) = P(k)

TopoAllowed(r, o) ==
    IF Acyclic(Nodes(r), G(r))
    THEN o.out.ok /\ IsTopoOrder(Nodes(r), G(r), o.out.v)
    ELSE ~o.out.ok

\* the loop list: a loop is << header, rest... >>
LoopsShape(r, o, Body(_)) ==
    LET L  == o.loops.v
        BE == BackEdges(G(r), dm)
        Hs == Headers(G(r), dm)
    IN /\ {L[k][1] : k \in 1..Len(L)} = Hs                 \* a loop per header of a back edge, no other
       /\ \A k \in 1..Len(L) :
            /\ NoDup2(L[k])
            \* the loop of one back edge into the header, or the merged loop of the header
            /\ \/ Rng2(L[k]) = Body(L[k][1])
               \/ \E e \in BE : e[2] = L[k][1] /\ Rng2(L[k]) = NatLoop(G(r), dm, e)
       /\ \A h \in Hs : UNION {Rng2(L[k]) : k \in {j \in 1..Len(L) : L[j][1] = h}} = Body(h)
LoopsAllowed(r, o) ==
    LET M(h) == MergedLoop(G(r), dm, h) IN o.loops.ok /\ LoopsShape(r, o, M)
\* listed deviation: cfg.calculate_loops takes every node dominated by the header that
\* lies on a cycle through the header (also the part of an enclosing loop behind the loop)
LoopsListed(r, o) ==
    LET A(h) == {h} \cup {x \in dm[h] : x \in ReachPlus(G(r), h) /\ CanReach(G(r), x, h)}
    IN o.loops.ok /\ \A k \in 1..Len(o.loops.v) : Len(o.loops.v[k]) > 0 /\ o.loops.v[k][1] \in DOMAIN dm
       /\ LoopsShape(r, o, A)
\* nesting: reported loops of different headers nest exactly as the defined loops do
NestAllowed(r, o) ==
    LET L == o.loops.v IN
    /\ o.loops.ok
    /\ \A j \in 1..Len(L) : \A k \in 1..Len(L) :
         (L[j][1] # L[k][1] /\ L[j][1] \in Headers(G(r), dm) /\ L[k][1] \in Headers(G(r), dm)) =>
            (NestsIn(Rng2(L[j]), Rng2(L[k]))
               <=> NestsIn(MergedLoop(G(r), dm, L[j][1]), MergedLoop(G(r), dm, L[k][1])))

CountAllowed(r, o) ==
    /\ o.nn.ok /\ o.nn.n = r.n
    /\ o.ne.ok /\ o.ne.n = Cardinality(G(r))
\* listed deviation: DiGraph.get_number_of_edges adds up the undirected adj_map
AdjCount(r) == LET AM == AdjMap(Nodes(r), G(r))
                   RECURSIVE Sum(_)
                   Sum(k) == IF k = 0 THEN 0 ELSE Cardinality(AM[k]) + Sum(k - 1)
               IN Sum(r.n)
CountListed(r, o) == o.nn.ok /\ o.nn.n = r.n /\ o.ne.ok /\ o.ne.n = AdjCount(r)

Val(q) == IF q.neg THEN 0 - q.n ELSE q.n
\* cyclomatic_complexity documents P = 1 ("for functions and procedures"): graphs that are
\* not connected are outside its domain and not judged
CycloAllowed(r, o) ==
    Cardinality(WeakComps(Nodes(r), G(r))) = 1 => (o.cc.ok /\ Val(o.cc) = Cyclo(Nodes(r), G(r)))
CycloListed(r, o) == o.cc.ok /\ Val(o.cc) = AdjCount(r) - r.n + 2

MapOK(q, n, M) == q.ok /\ Len(q.v) = n /\ \A k \in 1..n : NoDup2(q.v[k]) /\ Rng2(q.v[k]) = M[k]
MapsAllowed(r, o) ==
    /\ MapOK(o.suc, r.n, SuccMap(Nodes(r), G(r)))
    /\ MapOK(o.pre, r.n, PredMap(Nodes(r), G(r)))
    /\ MapOK(o.adj, r.n, AdjMap(Nodes(r), G(r)))

CallGraphAllowed(r, o) ==
    /\ o.cg.ok
    /\ o.cg.n = o.F + o.X
    /\ Pairs(o.cg.edges) = CallEdges(o.calls)

\* ---- one invariant per clause (a state carries exactly one observation) ---
Obs == rec.obs[c]
Is(cl) == c > 0 /\ Obs.cl = cl
SccOK        == Is("scc")   => SccAllowed(rec, Obs)
DfsOK        == Is("dfs")   => DfsAllowed(rec, Obs)
TopoOK       == Is("topo")  => TopoAllowed(rec, Obs)
LoopsOKOrListed == Is("loops") => (LoopsAllowed(rec, Obs) \/ LoopsListed(rec, Obs))
LoopsOK      == Is("loops") => LoopsAllowed(rec, Obs)
NestOK       == Is("loops") => NestAllowed(rec, Obs)
CountOKOrListed == Is("count") => (CountAllowed(rec, Obs) \/ CountListed(rec, Obs))
CountOK      == Is("count") => CountAllowed(rec, Obs)
CycloOKOrListed == Is("cyclo") => (CycloAllowed(rec, Obs) \/ CycloListed(rec, Obs))
CycloOK      == Is("cyclo") => CycloAllowed(rec, Obs)
MapsOK       == Is("maps")  => MapsAllowed(rec, Obs)
CallGraphOK  == Is("callgraph") => CallGraphAllowed(rec, Obs)
KnownClause  == c > 0 => Obs.cl \in {"scc", "dfs", "topo", "loops", "count", "cyclo", "maps", "callgraph"}
=============================================================================
