--------------------------------- MODULE Src ---------------------------------
(* The C abstract machine for the abstract programs of harness/absprog.py,    *)
(* written from ISO C (C11 clause numbers in the comments), independent of    *)
(* ppci.  Data model LP64: char types 8 bits, short 16, int 32, long 64,      *)
(* long long 64 (ppci's x86_64 target); two's complement representation.      *)
(* Type names: c8 u8 i16 u16 i32 u32 il ul (long, unsigned long) i64 u64.     *)
(*                                                                           *)
(* A *case* is [id, prog, fn, argv : Seq(Seq(word)), ext : Seq([name, rets]), *)
(*             fuel].  The machine runs prog.fn(argv[av]) and yields          *)
(*   Obs = [status, ret (word of the function's return type), globals        *)
(*          (Seq([name, off, bytes]): one entry per scalar / array / struct   *)
(*          member - padding bytes are not observable), calls (external      *)
(*          calls in order, arguments as words of the declared types)].      *)
(* status:  ok | undefined (6.5p5, 6.5.5p5, 6.5.7, 6.5.6p8 ...) |             *)
(*          impldef (6.3.1.3p3 narrowing to signed, 6.5.7p5 >> of negative) | *)
(*          unspec (result depends on an unspecified evaluation order,       *)
(*          6.5p2-3, 6.5.2.2p10) | fuel | stuck (malformed AST: a bug of the  *)
(*          generator, never of ppci).                                       *)
(*                                                                           *)
(* Expressions are evaluated by the recursive operator Eval (they have no    *)
(* side effects of their own except through calls); statements are executed  *)
(* small-step, one named action per statement kind, over a continuation      *)
(* stack, so that loops are sequences of transitions.  A call of a generated *)
(* function met inside an expression suspends the statement: the callee runs *)
(* in a new frame, its result is appended to the caller's `pend` list and    *)
(* the statement is evaluated again, replaying completed calls from `pend`.  *)
EXTENDS Words, FiniteSets, TLC, Json, IOUtils

Cases == JsonDeserialize(IOEnv.TRACE_FILE)     \* sequence of cases
NChunks == 64
MaxDepth == 12

VARIABLES chunk,   \* fan-out helper (0 = not chosen yet)
          i,       \* case under execution (0 = none yet)
          av,      \* argument vector of the case under execution
          stack,   \* activation frames, top = last
          glob,    \* global objects: name -> object
          calls,   \* external calls made so far
          status,  \* "idle" | "run" | "ok" | "undefined" | "impldef" | "unspec" | "fuel" | "stuck"
          why,     \* reason for a non-ok status
          ret,     \* returned word of the outermost activation
          steps    \* transitions taken

vars == <<chunk, i, av, stack, glob, calls, status, why, ret, steps>>

(* ======================= types (6.2.5, 6.3.1.1) ============================ *)
IntTypes == {"c8", "u8", "i16", "u16", "i32", "u32", "il", "ul", "i64", "u64"}
Size(t) == CASE t \in {"c8", "u8"} -> 1 [] t \in {"i16", "u16"} -> 2
             [] t \in {"i32", "u32"} -> 4 [] t \in {"il", "ul", "i64", "u64"} -> 8 [] OTHER -> 0
IsSigned(t) == t \in {"c8", "i16", "i32", "il", "i64"}
\* conversion rank (6.3.1.1p1): signed char < short < int < long < long long; unsigned = corresponding signed
Rank(t) == CASE t \in {"c8", "u8"} -> 1 [] t \in {"i16", "u16"} -> 2
             [] t \in {"i32", "u32"} -> 3 [] t \in {"il", "ul"} -> 4 [] t \in {"i64", "u64"} -> 5 [] OTHER -> 0
UnsignedOf(t) == CASE t = "c8" -> "u8" [] t = "i16" -> "u16" [] t = "i32" -> "u32" [] t = "il" -> "ul"
                   [] t = "i64" -> "u64" [] OTHER -> t
\* integer promotions (6.3.1.1p2): int can represent all values of every type of lower rank here
Promote(t) == IF Rank(t) < 3 THEN "i32" ELSE t
\* usual arithmetic conversions (6.3.1.8), integer part
UAC(t1, t2) ==
    LET a == Promote(t1)  b == Promote(t2) IN
    IF a = b THEN a
    ELSE IF IsSigned(a) = IsSigned(b) THEN (IF Rank(a) >= Rank(b) THEN a ELSE b)
    ELSE LET u == IF IsSigned(a) THEN b ELSE a
             s == IF IsSigned(a) THEN a ELSE b
         IN IF Rank(u) >= Rank(s) THEN u
            ELSE IF Size(s) > Size(u) THEN s        \* the signed type represents all values of the unsigned one
            ELSE UnsignedOf(s)                      \* e.g. long long with unsigned long: unsigned long long

(* ======================= values and results ================================ *)
IV(t, w) == [ty |-> t, w |-> w]                                  \* integer value
PV(g, off, ety) == [ty |-> "ptr", g |-> g, off |-> off, ety |-> ety]   \* pointer to element off of global array g
IsInt(v) == v.ty \in IntTypes
BoolV(b) == IV("i32", IF b THEN WOne(4) ELSE WZero(4))
OneV == IV("i32", WOne(4))

\* objects (what variables hold)
Scal(t, w) == [k |-> "s", ty |-> t, w |-> w]
Arr(t, el) == [k |-> "a", ty |-> t, el |-> el]
Str(fl) == [k |-> "st", fl |-> fl]                               \* fl : Seq([f, ty, off, w])
PtrO(t, g, off) == [k |-> "p", ty |-> t, g |-> g, off |-> off]
NoObj == [k |-> "none"]

\* effects of an evaluation: globals read / written, external calls made
NoFx == [r |-> {}, w |-> {}, x |-> FALSE]
Rd(n) == [r |-> {n}, w |-> {}, x |-> FALSE]
Wr(n) == [r |-> {}, w |-> {n}, x |-> FALSE]
XFx == [r |-> {}, w |-> {}, x |-> TRUE]
Join(f, g) == [r |-> f.r \cup g.r, w |-> f.w \cup g.w, x |-> f.x \/ g.x]
\* two unsequenced / indeterminately sequenced evaluations interfere (6.5p2, 6.5.2.2p10)
Conflict(f, g) == \/ f.w \cap (g.r \cup g.w) # {}
                  \/ g.w \cap (f.r \cup f.w) # {}
                  \/ (f.x /\ g.x)

\* results of Eval: st = "ok" (v, S, fx) | "call" (f, args, S) | a final status (why)
Ok(v, S, fx) == [st |-> "ok", v |-> v, S |-> S, fx |-> fx]
Bad(st, reason) == [st |-> st, why |-> reason]
NeedCall(fi, objs, S) == [st |-> "call", f |-> fi, args |-> objs, S |-> S]
OkV(v) == [st |-> "ok", v |-> v]

(* ======================= conversions (6.3.1.3) ============================= *)
ConvW(w, from, to) == WResize(w, Size(to), IsSigned(from))
\* the mathematical value of (from, w) is representable in `to`
Fits(w, from, to) ==
    LET n == Size(to)  m == Len(w) IN
    IF IsSigned(from)
    THEN IF IsSigned(to) THEN n >= m \/ WResize(WResize(w, n, TRUE), m, TRUE) = w
         ELSE ~IsNegW(w) /\ (n >= m \/ WResize(WResize(w, n, FALSE), m, FALSE) = w)
    ELSE IF IsSigned(to) THEN n > m \/ (WResize(WResize(w, n, FALSE), m, FALSE) = w /\ ~IsNegW(WResize(w, n, FALSE)))
         ELSE n >= m \/ WResize(WResize(w, n, FALSE), m, FALSE) = w
\* p1 value preserved if representable; p2 unsigned target: modulo 2^N; p3 signed target: implementation-defined
Conv(v, to) ==
    IF IsSigned(to) /\ ~Fits(v.w, v.ty, to)
    THEN Bad("impldef", "conversion to a signed type that cannot represent the value")
    ELSE OkV(IV(to, ConvW(v.w, v.ty, to)))

\* small mathematical value of an integer value: [ok, n], ok iff |value| < 2^31
SmallInt(v) ==
    IF IsSigned(v.ty) /\ IsNegW(v.w)
    THEN LET m == WNeg(v.w) IN
         IF WFitsNat(m) THEN [ok |-> TRUE, n |-> -WToNat(m)] ELSE [ok |-> FALSE, n |-> 0]
    ELSE IF WFitsNat(v.w) THEN [ok |-> TRUE, n |-> WToNat(v.w)] ELSE [ok |-> FALSE, n |-> 0]

(* ======================= operators (6.5.3 - 6.5.14) ========================= *)
AddOvf(a, b) == SignBit(a) = SignBit(b) /\ SignBit(WAdd(a, b)) # SignBit(a)
SubOvf(a, b) == SignBit(a) # SignBit(b) /\ SignBit(WSub(a, b)) # SignBit(a)
MulOvf(a, b) == LET n == Len(a)
                    p == WMul(WResize(a, 2 * n, TRUE), WResize(b, 2 * n, TRUE))
                IN WResize(WResize(p, n, TRUE), 2 * n, TRUE) # p
CmpOps == {"<", "<=", ">", ">=", "==", "!="}
CmpVal(op, a, b, sg) ==
    CASE op = "==" -> a = b
      [] op = "!=" -> a # b
      [] op = "<"  -> WLt(a, b, sg)
      [] op = ">"  -> WLt(b, a, sg)
      [] op = "<=" -> ~WLt(b, a, sg)
      [] op = ">=" -> ~WLt(a, b, sg)

\* 6.5.7: operands promoted separately; result has the promoted left type
Shift(op, va, vb) ==
    LET ta == Promote(va.ty)  a == ConvW(va.w, va.ty, ta)
        tb == Promote(vb.ty)  b == ConvW(vb.w, vb.ty, tb)
    IN IF (IsSigned(tb) /\ IsNegW(b)) \/ ~WFitsNat(b) \/ WToNat(b) >= 8 * Len(a)
       THEN Bad("undefined", "shift amount negative or >= width")
       ELSE LET n == WToNat(b) IN
            IF op = "<<"
            THEN IF ~IsSigned(ta) THEN OkV(IV(ta, WShl(a, n)))
                 ELSE IF IsNegW(a) THEN Bad("undefined", "left shift of a negative value")
                 ELSE LET r == WShl(a, n) IN
                      IF IsNegW(r) \/ WShrL(r, n) # a THEN Bad("undefined", "left shift overflows")
                      ELSE OkV(IV(ta, r))
            ELSE IF IsSigned(ta) /\ IsNegW(a) THEN Bad("impldef", "right shift of a negative value")
                 ELSE OkV(IV(ta, WShrL(a, n)))

\* binary operators other than && and || on two integer values
Arith(op, va, vb) ==
    IF op \in {"<<", ">>"} THEN Shift(op, va, vb)
    ELSE LET t == UAC(va.ty, vb.ty)
             a == ConvW(va.w, va.ty, t)      \* conversion to the common type is always value- or modulo-defined
             b == ConvW(vb.w, vb.ty, t)
             sg == IsSigned(t)
         IN CASE op \in CmpOps -> OkV(BoolV(CmpVal(op, a, b, sg)))                      \* 6.5.8p6, 6.5.9p3: int
              [] op = "+" -> IF sg /\ AddOvf(a, b) THEN Bad("undefined", "signed overflow in +") ELSE OkV(IV(t, WAdd(a, b)))
              [] op = "-" -> IF sg /\ SubOvf(a, b) THEN Bad("undefined", "signed overflow in -") ELSE OkV(IV(t, WSub(a, b)))
              [] op = "*" -> IF sg /\ MulOvf(a, b) THEN Bad("undefined", "signed overflow in *") ELSE OkV(IV(t, WMul(a, b)))
              [] op \in {"/", "%"} ->
                    IF WIsZero(b) THEN Bad("undefined", "division by zero")
                    ELSE IF sg /\ WIsMin(a) /\ WIsMinusOne(b) THEN Bad("undefined", "quotient not representable")
                    ELSE OkV(IV(t, IF op = "/" THEN WDiv(a, b, sg) ELSE WRem(a, b, sg)))      \* 6.5.5p6: truncation
              [] op = "&" -> OkV(IV(t, WAnd(a, b)))
              [] op = "|" -> OkV(IV(t, WOr(a, b)))
              [] op = "^" -> OkV(IV(t, WXor(a, b)))
              [] OTHER -> Bad("stuck", "unknown binary operator")

Unary(op, va) ==
    LET t == Promote(va.ty)  a == ConvW(va.w, va.ty, t) IN
    CASE op = "!" -> OkV(BoolV(WIsZero(va.w)))
      [] op = "~" -> OkV(IV(t, WNot(a)))
      [] op = "-" -> IF IsSigned(t) /\ WIsMin(a) THEN Bad("undefined", "signed overflow in unary -") ELSE OkV(IV(t, WNeg(a)))
      [] OTHER -> Bad("stuck", "unknown unary operator")

BaseOp(op) == CASE op = "+=" -> "+" [] op = "-=" -> "-" [] op = "*=" -> "*" [] op = "/=" -> "/" [] op = "%=" -> "%"
                [] op = "&=" -> "&" [] op = "|=" -> "|" [] op = "^=" -> "^" [] op = "<<=" -> "<<" [] op = ">>=" -> ">>"
                [] OTHER -> "?"

(* ======================= literals (6.4.4.1) ================================= *)
\* a literal carries its value as an 8-byte word and the type named by its suffix
\* (none / u / l / ul / ll / ull as i32 / u32 / il / ul / i64 / u64); narrower types are written as a cast of an int literal
LitBase(e) == IF e.ty \in {"i32", "u32", "il", "ul", "i64", "u64"} THEN e.ty ELSE "i32"
LitFits(w8, n, sgn) == (\A j \in (n + 1)..8 : w8[j] = 0) /\ (sgn => w8[n] < 128)
LitHex(e) == "hex" \in DOMAIN e /\ e.hex      \* written in hexadecimal / octal: the unsigned types join the list
LitType0(e) ==            \* first type of the list of 6.4.4.1p5 in which the value fits
    LET b == LitBase(e)  h == LitHex(e) IN
    CASE b = "i32" -> IF LitFits(e.w, 4, TRUE) THEN "i32"                             \* int, [unsigned int,] long, [unsigned long,] ...
                      ELSE IF h /\ LitFits(e.w, 4, FALSE) THEN "u32"
                      ELSE IF LitFits(e.w, 8, TRUE) THEN "il"
                      ELSE IF h THEN "ul" ELSE "none"
      [] b = "u32" -> IF LitFits(e.w, 4, FALSE) THEN "u32" ELSE "ul"                 \* unsigned int, unsigned long, ...
      [] b = "il" -> IF LitFits(e.w, 8, TRUE) THEN "il" ELSE IF h THEN "ul" ELSE "none"
      [] b = "ul" -> "ul"
      [] b = "i64" -> IF LitFits(e.w, 8, TRUE) THEN "i64" ELSE IF h THEN "u64" ELSE "none"
      [] b = "u64" -> "u64"
LitType(e) == IF LitBase(e) = e.ty THEN LitType0(e) ELSE e.ty
LitVal(e) ==
    LET t == LitType0(e) IN
    IF t = "none" \/ Len(e.w) # 8 THEN Bad("stuck", "integer literal has no type")
    ELSE LET v == IV(t, SubSeq(e.w, 1, Size(t))) IN
         IF LitBase(e) = e.ty THEN OkV(v) ELSE Conv(v, e.ty)

(* ======================= program lookup ===================================== *)
IdxByName(seq, name) == LET S == {k \in 1..Len(seq) : seq[k].n = name} IN IF S = {} THEN 0 ELSE CHOOSE k \in S : TRUE
FnIdx(name, P) == IdxByName(P.funcs, name)
ExtIdx(name, P) == IdxByName(P.externs, name)
FldIdx(fl, f) == LET S == {k \in 1..Len(fl) : fl[k].f = f} IN IF S = {} THEN 0 ELSE CHOOSE k \in S : TRUE

\* result of the k-th call of external `name` (the stub table of the case; 0 when it is shorter)
ExtRet(ext, name, k, n) ==
    LET S == {j \in 1..Len(ext) : ext[j].name = name} IN
    IF S = {} THEN WZero(n)
    ELSE LET rets == ext[CHOOSE j \in S : TRUE].rets IN
         IF k <= Len(rets) THEN WResize(rets[k], n, FALSE) ELSE WZero(n)
CountCalls(cl, name) == Cardinality({j \in 1..Len(cl) : cl[j].name = name})

(* ======================= expressions (6.5) ================================== *)
\* X = [env, prog, ext, pend] context;  S = [gl, cl, np] threaded state (globals, call log, replayed calls)
RECURSIVE Eval(_, _, _), LVal(_, _, _), EvalArgs(_, _, _, _, _, _), TypeOf(_, _, _)

OkL(loc, cur, S, fx, obj) == [st |-> "ok", loc |-> loc, cur |-> cur, S |-> S, fx |-> fx, obj |-> obj]

IsPtrVar(e, X) == e.k = "var" /\ e.n \in DOMAIN X.env /\ X.env[e.n].k = "p"

\* static type of an expression (needed for the unevaluated operand of ?:, 6.5.15p5)
TypeOf(e, X, S) ==
    CASE e.k = "lit" -> LitType(e)
      [] e.k = "var" -> IF e.n \in DOMAIN X.env THEN (IF X.env[e.n].k = "s" THEN X.env[e.n].ty ELSE "ptr")
                        ELSE IF e.n \in DOMAIN S.gl /\ S.gl[e.n].k = "s" THEN S.gl[e.n].ty ELSE "none"
      [] e.k = "idx" -> IF e.a \in DOMAIN X.env THEN X.env[e.a].ty
                        ELSE IF e.a \in DOMAIN S.gl /\ S.gl[e.a].k = "a" THEN S.gl[e.a].ty ELSE "none"
      [] e.k = "fld" -> IF e.s \in DOMAIN S.gl /\ S.gl[e.s].k = "st" /\ FldIdx(S.gl[e.s].fl, e.f) > 0
                        THEN S.gl[e.s].fl[FldIdx(S.gl[e.s].fl, e.f)].ty ELSE "none"
      [] e.k = "deref" -> IF e.p \in DOMAIN X.env THEN X.env[e.p].ty ELSE "none"
      [] e.k = "addr" -> "ptr"
      [] e.k = "un" -> IF e.op = "!" THEN "i32" ELSE Promote(TypeOf(e.a, X, S))
      [] e.k = "bin" -> IF e.op \in CmpOps \cup {"&&", "||"} THEN "i32"
                        ELSE IF e.op \in {"<<", ">>"} THEN Promote(TypeOf(e.a, X, S))
                        ELSE UAC(TypeOf(e.a, X, S), TypeOf(e.b, X, S))
      [] e.k = "cast" -> e.ty
      [] e.k = "cond" -> UAC(TypeOf(e.a, X, S), TypeOf(e.b, X, S))
      [] e.k = "call" -> IF FnIdx(e.f, X.prog) > 0 THEN X.prog.funcs[FnIdx(e.f, X.prog)].ret
                         ELSE IF ExtIdx(e.f, X.prog) > 0 THEN X.prog.externs[ExtIdx(e.f, X.prog)].ret ELSE "none"
      [] OTHER -> "none"

\* designate an object (6.5.1, 6.5.2.1 a[e], 6.5.2.3 s.f, p[e] = *(p + e) with 6.5.6p8 bounds)
LVal(lv, X, S) ==
    CASE lv.k = "var" ->
           IF lv.n \in DOMAIN X.env
           THEN LET o == X.env[lv.n] IN
                IF o.k = "s" THEN OkL([k |-> "lv", n |-> lv.n, j |-> 0], IV(o.ty, o.w), S, NoFx, "")
                ELSE Bad("stuck", "not a scalar variable")
           ELSE IF lv.n \in DOMAIN S.gl
           THEN LET o == S.gl[lv.n] IN
                IF o.k = "s" THEN OkL([k |-> "gv", n |-> lv.n, j |-> 0], IV(o.ty, o.w), S, NoFx, lv.n)
                ELSE Bad("stuck", "not a scalar variable")
           ELSE Bad("stuck", "unknown variable")
      [] lv.k = "idx" ->
           LET r == Eval(lv.e, X, S) IN
           IF r.st # "ok" THEN r
           ELSE IF ~IsInt(r.v) THEN Bad("stuck", "index is not an integer")
           ELSE LET isloc == lv.a \in DOMAIN X.env
                    o == IF isloc THEN X.env[lv.a] ELSE IF lv.a \in DOMAIN r.S.gl THEN r.S.gl[lv.a] ELSE NoObj
                    ix == SmallInt(r.v)
                IN IF o.k # "a" THEN Bad("stuck", "not an array")
                   ELSE IF ~ix.ok \/ ix.n < 0 \/ ix.n >= Len(o.el) THEN Bad("undefined", "array index out of bounds")
                   ELSE OkL([k |-> IF isloc THEN "la" ELSE "ga", n |-> lv.a, j |-> ix.n + 1],
                            IV(o.ty, o.el[ix.n + 1]), r.S, r.fx, IF isloc THEN "" ELSE lv.a)
      [] lv.k = "fld" ->
           LET o == IF lv.s \in DOMAIN S.gl THEN S.gl[lv.s] ELSE NoObj IN
           IF o.k # "st" THEN Bad("stuck", "not a struct object")
           ELSE LET j == FldIdx(o.fl, lv.f) IN
                IF j = 0 THEN Bad("stuck", "no such member")
                ELSE OkL([k |-> "gf", n |-> lv.s, j |-> j], IV(o.fl[j].ty, o.fl[j].w), S, NoFx, lv.s)
      [] lv.k = "deref" ->
           LET p == IF lv.p \in DOMAIN X.env THEN X.env[lv.p] ELSE NoObj IN
           IF p.k # "p" THEN Bad("stuck", "not a pointer variable")
           ELSE LET r == Eval(lv.e, X, S) IN
                IF r.st # "ok" THEN r
                ELSE IF ~IsInt(r.v) THEN Bad("stuck", "index is not an integer")
                ELSE LET o == IF p.g \in DOMAIN r.S.gl THEN r.S.gl[p.g] ELSE NoObj
                         ix == SmallInt(r.v)
                     IN IF o.k # "a" \/ o.ty # p.ty THEN Bad("stuck", "pointer does not point into an array of its type")
                        ELSE IF ~ix.ok \/ p.off + ix.n < 0 \/ p.off + ix.n >= Len(o.el)
                        THEN Bad("undefined", "pointer arithmetic / access out of bounds")
                        ELSE OkL([k |-> "ga", n |-> p.g, j |-> p.off + ix.n + 1],
                                 IV(o.ty, o.el[p.off + ix.n + 1]), r.S, r.fx, p.g)
      [] OTHER -> Bad("stuck", "not an lvalue")

\* arguments are evaluated left to right here; any interference between two of them makes the
\* result depend on the unspecified order (6.5.2.2p10)
EvalArgs(args, j, X, S, vals, fx) ==
    IF j > Len(args) THEN [st |-> "ok", vals |-> vals, S |-> S, fx |-> fx]
    ELSE LET r == Eval(args[j], X, S) IN
         IF r.st # "ok" THEN r
         ELSE IF Conflict(fx, r.fx) THEN Bad("unspec", "arguments interfere")
         ELSE EvalArgs(args, j + 1, X, r.S, Append(vals, r.v), Join(fx, r.fx))

\* argument passing = conversion as if by assignment to the parameter type (6.5.2.2p7)
RECURSIVE PassArgs(_, _, _, _)
PassArgs(params, vals, j, objs) ==
    IF j > Len(params) THEN [st |-> "ok", objs |-> objs]
    ELSE IF params[j].ptr
    THEN IF vals[j].ty = "ptr" /\ vals[j].ety = params[j].ty
         THEN PassArgs(params, vals, j + 1, Append(objs, PtrO(params[j].ty, vals[j].g, vals[j].off)))
         ELSE Bad("stuck", "pointer argument of the wrong type")
    ELSE IF ~IsInt(vals[j]) THEN Bad("stuck", "integer parameter given a pointer")
    ELSE LET c == Conv(vals[j], params[j].ty) IN
         IF c.st # "ok" THEN c ELSE PassArgs(params, vals, j + 1, Append(objs, Scal(params[j].ty, c.v.w)))

RECURSIVE PassExt(_, _, _, _)
PassExt(tys, vals, j, ws) ==
    IF j > Len(tys) THEN [st |-> "ok", ws |-> ws]
    ELSE IF ~IsInt(vals[j]) THEN Bad("stuck", "integer parameter given a pointer")
    ELSE LET c == Conv(vals[j], tys[j]) IN
         IF c.st # "ok" THEN c ELSE PassExt(tys, vals, j + 1, Append(ws, c.v.w))

EvalCall(e, X, S) ==
    LET fi == FnIdx(e.f, X.prog)  xi == ExtIdx(e.f, X.prog) IN
    IF fi = 0 /\ xi = 0 THEN Bad("stuck", "unknown function")
    ELSE LET ra == EvalArgs(e.args, 1, X, S, <<>>, NoFx) IN
         IF ra.st # "ok" THEN ra
         ELSE IF fi > 0
         THEN LET Fd == X.prog.funcs[fi] IN
              IF Len(Fd.params) # Len(ra.vals) THEN Bad("stuck", "wrong number of arguments")
              ELSE LET pa == PassArgs(Fd.params, ra.vals, 1, <<>>) IN
                   IF pa.st # "ok" THEN pa
                   ELSE IF ra.S.np < Len(X.pend)
                   THEN LET p == X.pend[ra.S.np + 1] IN       \* this call has completed: replay its outcome
                        Ok(p.v, [gl |-> p.gl, cl |-> p.cl, np |-> ra.S.np + 1], Join(ra.fx, p.fx))
                   ELSE NeedCall(fi, pa.objs, ra.S)
         ELSE LET Xd == X.prog.externs[xi] IN
              IF Len(Xd.args) # Len(ra.vals) THEN Bad("stuck", "wrong number of arguments")
              ELSE LET pa == PassExt(Xd.args, ra.vals, 1, <<>>) IN
                   IF pa.st # "ok" THEN pa
                   ELSE LET n == CountCalls(ra.S.cl, e.f) + 1 IN
                        Ok(IV(Xd.ret, ExtRet(X.ext, e.f, n, Size(Xd.ret))),
                           [ra.S EXCEPT !.cl = Append(@, [name |-> e.f, args |-> pa.ws])],
                           Join(ra.fx, XFx))

EvalBin(e, X, S) ==
    LET ra == Eval(e.a, X, S) IN
    IF ra.st # "ok" THEN ra
    ELSE IF ~IsInt(ra.v) THEN Bad("stuck", "pointer operand")
    ELSE IF e.op \in {"&&", "||"}                 \* 6.5.13, 6.5.14: sequence point, short circuit, int result
    THEN LET az == WIsZero(ra.v.w) IN
         IF e.op = "&&" /\ az THEN Ok(BoolV(FALSE), ra.S, ra.fx)
         ELSE IF e.op = "||" /\ ~az THEN Ok(BoolV(TRUE), ra.S, ra.fx)
         ELSE LET rb == Eval(e.b, X, ra.S) IN
              IF rb.st # "ok" THEN rb
              ELSE IF ~IsInt(rb.v) THEN Bad("stuck", "pointer operand")
              ELSE Ok(BoolV(~WIsZero(rb.v.w)), rb.S, Join(ra.fx, rb.fx))
    ELSE LET rb == Eval(e.b, X, ra.S) IN
         IF rb.st # "ok" THEN rb
         ELSE IF ~IsInt(rb.v) THEN Bad("stuck", "pointer operand")
         ELSE IF Conflict(ra.fx, rb.fx) THEN Bad("unspec", "operands interfere")
         ELSE LET z == Arith(e.op, ra.v, rb.v) IN
              IF z.st # "ok" THEN z ELSE Ok(z.v, rb.S, Join(ra.fx, rb.fx))

Eval(e, X, S) ==
    CASE e.k = "lit" -> LET z == LitVal(e) IN IF z.st # "ok" THEN z ELSE Ok(z.v, S, NoFx)
      [] IsPtrVar(e, X) -> LET p == X.env[e.n] IN Ok(PV(p.g, p.off, p.ty), S, NoFx)
      [] e.k \in {"var", "idx", "fld", "deref"} /\ ~IsPtrVar(e, X) ->
           LET l == LVal(e, X, S) IN
           IF l.st # "ok" THEN l ELSE Ok(l.cur, l.S, IF l.obj = "" THEN l.fx ELSE Join(l.fx, Rd(l.obj)))
      [] e.k = "addr" ->          \* &a[e]: one past the end may be formed (6.5.6p8)
           LET r == Eval(e.e, X, S) IN
           IF r.st # "ok" THEN r
           ELSE IF ~IsInt(r.v) THEN Bad("stuck", "index is not an integer")
           ELSE LET o == IF e.a \in DOMAIN r.S.gl THEN r.S.gl[e.a] ELSE NoObj
                    ix == SmallInt(r.v)
                IN IF o.k # "a" THEN Bad("stuck", "address of something that is not a global array")
                   ELSE IF ~ix.ok \/ ix.n < 0 \/ ix.n > Len(o.el) THEN Bad("undefined", "address out of bounds")
                   ELSE Ok(PV(e.a, ix.n, o.ty), r.S, r.fx)
      [] e.k = "un" ->
           LET r == Eval(e.a, X, S) IN
           IF r.st # "ok" THEN r
           ELSE IF ~IsInt(r.v) THEN Bad("stuck", "pointer operand")
           ELSE LET z == Unary(e.op, r.v) IN IF z.st # "ok" THEN z ELSE Ok(z.v, r.S, r.fx)
      [] e.k = "bin" -> EvalBin(e, X, S)
      [] e.k = "cast" ->
           LET r == Eval(e.a, X, S) IN
           IF r.st # "ok" THEN r
           ELSE IF ~IsInt(r.v) \/ e.ty \notin IntTypes THEN Bad("stuck", "cast of / to a non-integer")
           ELSE LET z == Conv(r.v, e.ty) IN IF z.st # "ok" THEN z ELSE Ok(z.v, r.S, r.fx)
      [] e.k = "cond" ->          \* 6.5.15: sequence point after the condition; result type = common type
           LET rc == Eval(e.c, X, S) IN
           IF rc.st # "ok" THEN rc
           ELSE IF ~IsInt(rc.v) THEN Bad("stuck", "pointer operand")
           ELSE LET ta == TypeOf(e.a, X, rc.S)  tb == TypeOf(e.b, X, rc.S) IN
                IF ta \notin IntTypes \/ tb \notin IntTypes THEN Bad("stuck", "?: on non-integers")
                ELSE LET r == Eval(IF WIsZero(rc.v.w) THEN e.b ELSE e.a, X, rc.S) IN
                     IF r.st # "ok" THEN r
                     ELSE IF ~IsInt(r.v) THEN Bad("stuck", "?: on non-integers")
                     ELSE LET z == Conv(r.v, UAC(ta, tb)) IN
                          IF z.st # "ok" THEN z ELSE Ok(z.v, r.S, Join(rc.fx, r.fx))
      [] e.k = "call" -> EvalCall(e, X, S)
      [] OTHER -> Bad("stuck", "unknown expression kind")

(* ======================= objects, stores, layout ============================ *)
Store(loc, w, env, gl) ==
    CASE loc.k = "lv" -> [env |-> [env EXCEPT ![loc.n] = [@ EXCEPT !.w = w]], gl |-> gl]
      [] loc.k = "la" -> [env |-> [env EXCEPT ![loc.n] = [@ EXCEPT !.el = [@ EXCEPT ![loc.j] = w]]], gl |-> gl]
      [] loc.k = "gv" -> [env |-> env, gl |-> [gl EXCEPT ![loc.n] = [@ EXCEPT !.w = w]]]
      [] loc.k = "ga" -> [env |-> env, gl |-> [gl EXCEPT ![loc.n] = [@ EXCEPT !.el = [@ EXCEPT ![loc.j] = w]]]]
      [] loc.k = "gf" -> [env |-> env, gl |-> [gl EXCEPT ![loc.n] = [@ EXCEPT !.fl = [@ EXCEPT ![loc.j] = [@ EXCEPT !.w = w]]]]]

\* initialisers are integer constant expressions converted as if by assignment (6.7.9p11); missing ones are 0 (p21)
InitConv(w8, t) == Conv(IV("i64", w8), t)
RECURSIVE InitElems(_, _, _, _, _)
InitElems(t, n, init, j, acc) ==
    IF j > n THEN [st |-> "ok", el |-> acc]
    ELSE IF j > Len(init) THEN InitElems(t, n, init, j + 1, Append(acc, WZero(Size(t))))
    ELSE LET c == InitConv(init[j], t) IN
         IF c.st # "ok" THEN c ELSE InitElems(t, n, init, j + 1, Append(acc, c.v.w))
\* layout (6.7.2.1p15, System V ABI): every member is aligned to its size, an anonymous struct member (p13) to the
\* largest alignment of its members, and its size is padded to a multiple of that alignment; the bytes in
\* between are padding.  Members of an anonymous struct count as members of the enclosing struct.
AlignUp(a, al) == IF al <= 1 THEN a ELSE ((a + al - 1) \div al) * al
RECURSIVE MaxAlign(_, _, _)
MaxAlign(ms, j, m) == IF j > Len(ms) THEN m
                      ELSE LET a == IF ms[j].anon THEN MaxAlign(ms[j].sub, 1, 1) ELSE Size(ms[j].ty) IN
                           MaxAlign(ms, j + 1, IF a > m THEN a ELSE m)
RECURSIVE LayoutFields(_, _, _, _)
LayoutFields(ms, j, cur, acc) ==          \* [fl : Seq([f, ty, off]) in declaration order, end : first free offset]
    IF j > Len(ms) THEN [fl |-> acc, end |-> cur]
    ELSE IF ms[j].anon
    THEN LET al == MaxAlign(ms[j].sub, 1, 1)
             a == AlignUp(cur, al)
             inner == LayoutFields(ms[j].sub, 1, a, acc)
         IN LayoutFields(ms, j + 1, a + AlignUp(inner.end - a, al), inner.fl)
    ELSE LET a == AlignUp(cur, Size(ms[j].ty)) IN
         LayoutFields(ms, j + 1, a + Size(ms[j].ty), Append(acc, [f |-> ms[j].f, ty |-> ms[j].ty, off |-> a]))
RECURSIVE InitFields(_, _, _, _)
InitFields(fl, init, j, acc) ==
    IF j > Len(fl) THEN [st |-> "ok", fl |-> acc]
    ELSE LET c == IF j > Len(init) THEN OkV(IV(fl[j].ty, WZero(Size(fl[j].ty)))) ELSE InitConv(init[j], fl[j].ty) IN
         IF c.st # "ok" THEN c
         ELSE InitFields(fl, init, j + 1, Append(acc, [f |-> fl[j].f, ty |-> fl[j].ty, off |-> fl[j].off, w |-> c.v.w]))
InitObj(g) ==
    CASE g.gk = "s" -> LET c == IF Len(g.init) = 0 THEN OkV(IV(g.ty, WZero(Size(g.ty)))) ELSE InitConv(g.init[1], g.ty) IN
                       IF c.st # "ok" THEN c ELSE [st |-> "ok", o |-> Scal(g.ty, c.v.w)]
      [] g.gk = "a" -> IF Len(g.init) > g.len THEN Bad("stuck", "too many initialisers")
                       ELSE LET r == InitElems(g.ty, g.len, g.init, 1, <<>>) IN
                            IF r.st # "ok" THEN r ELSE [st |-> "ok", o |-> Arr(g.ty, r.el)]
      [] g.gk = "st" -> LET lay == LayoutFields(g.struct, 1, 0, <<>>) IN
                        IF Len(g.init) > Len(lay.fl) THEN Bad("stuck", "too many initialisers")
                        ELSE LET r == InitFields(lay.fl, g.init, 1, <<>>) IN
                             IF r.st # "ok" THEN r ELSE [st |-> "ok", o |-> Str(r.fl)]
      [] OTHER -> Bad("stuck", "unknown global kind")
RECURSIVE InitGlobals(_, _, _)
InitGlobals(G, k, acc) ==
    IF k > Len(G) THEN [st |-> "ok", gl |-> acc]
    ELSE LET r == InitObj(G[k]) IN
         IF r.st # "ok" THEN r ELSE InitGlobals(G, k + 1, (G[k].n :> r.o) @@ acc)

RECURSIVE Flat(_, _)
Flat(el, j) == IF j > Len(el) THEN <<>> ELSE el[j] \o Flat(el, j + 1)
RECURSIVE StructObs(_, _, _)
StructObs(n, fl, j) ==
    IF j > Len(fl) THEN <<>>
    ELSE <<[name |-> n, off |-> fl[j].off, bytes |-> fl[j].w]>> \o StructObs(n, fl, j + 1)
ObjObs(n, o) == CASE o.k = "s" -> <<[name |-> n, off |-> 0, bytes |-> o.w]>>
                  [] o.k = "a" -> <<[name |-> n, off |-> 0, bytes |-> Flat(o.el, 1)]>>
                  [] o.k = "st" -> StructObs(n, o.fl, 1)
RECURSIVE GlobObs(_, _, _)
GlobObs(G, k, gl) == IF k > Len(G) THEN <<>> ELSE ObjObs(G[k].n, gl[G[k].n]) \o GlobObs(G, k + 1, gl)

(* ======================= the machine ========================================= *)
(* Every action is  <guard on the item on top of the continuation> /\ Apply(<outcome>)  where the    *)
(* outcome is a state-level expression (TLC caches LET values there, not in action-level formulas):  *)
(*   [t |-> "commit", S, env, k, fx]  the statement (or loop test) is complete                        *)
(*   [t |-> "call", f, args, S]       it met a call of a generated function that has not run yet      *)
(*   [t |-> "ret", v, S, fx]          return statement with the converted value                       *)
(*   [t |-> "halt", st, why]          the execution ends with a non-ok status                         *)
C == Cases[i]
Prog == C.prog
Running == i > 0 /\ status = "run"
Top == stack[Len(stack)]
Fn == Prog.funcs[Top.f]
K == Top.k
It == K[Len(K)]                                   \* item on top of the continuation stack
HasFuel == steps < C.fuel
AtItem(kind) == Running /\ HasFuel /\ Len(K) > 0 /\ It.k = kind
AtStmt == AtItem("blk") /\ It.ix <= Len(It.ss)
St == It.ss[It.ix]                                \* statement to execute
Is(kind) == AtStmt /\ St.k = kind
KAdv == [K EXCEPT ![Len(K)] = [@ EXCEPT !.ix = @ + 1]]
KPop == SubSeq(K, 1, Len(K) - 1)
Blk(ss) == [k |-> "blk", ss |-> ss, ix |-> 1]
NoSnap == [gl |-> <<>>, cl |-> <<>>]

\* evaluation of the current statement starts from the state in which the statement began
S0 == IF Top.pend = <<>> THEN [gl |-> glob, cl |-> calls, np |-> 0]
      ELSE [gl |-> Top.snap.gl, cl |-> Top.snap.cl, np |-> 0]
X0 == [env |-> Top.env, prog |-> Prog, ext |-> C.ext, pend |-> Top.pend]

CommitO(S, env2, k2, fx) == [t |-> "commit", S |-> S, env |-> env2, k |-> k2, fx |-> fx]
HaltO(st, reason) == [t |-> "halt", st |-> st, why |-> reason]
\* the evaluation met a call that has not run yet (6.5.2.2p10: sequence point before the call), or cannot go on
DivertO(r) == IF r.st = "call" THEN [t |-> "call", f |-> r.f, args |-> r.args, S |-> r.S] ELSE HaltO(r.st, r.why)

RECURSIVE BindR(_, _, _, _)
BindR(params, objs, j, env) == IF j > Len(params) THEN env ELSE BindR(params, objs, j + 1, (params[j].n :> objs[j]) @@ env)
NewFrame(fi, Fd, objs) ==
    [f |-> fi, env |-> BindR(Fd.params, objs, 1, <<>>), k |-> <<Blk(Fd.body)>>, pend |-> <<>>, snap |-> NoSnap, fx |-> NoFx]

Halt(st, reason) ==
    /\ status' = st /\ why' = reason /\ steps' = steps + 1
    /\ UNCHANGED <<stack, glob, calls, ret>>

Apply(o) ==
    CASE o.t = "halt" -> Halt(o.st, o.why)
      [] o.t = "commit" ->
           IF o.S.np # Len(Top.pend) THEN Halt("stuck", "replay consumed a different number of calls")
           ELSE /\ stack' = [stack EXCEPT ![Len(stack)] =
                                [@ EXCEPT !.env = o.env, !.k = o.k, !.pend = <<>>, !.snap = NoSnap, !.fx = Join(@, o.fx)]]
                /\ glob' = o.S.gl /\ calls' = o.S.cl /\ steps' = steps + 1
                /\ UNCHANGED <<status, why, ret>>
      [] o.t = "call" ->           \* suspend the statement, remember where it started, run the callee
           IF Len(stack) >= MaxDepth THEN Halt("fuel", "call depth")
           ELSE /\ stack' = Append([stack EXCEPT ![Len(stack)] =
                                       [@ EXCEPT !.snap = IF Top.pend = <<>> THEN [gl |-> glob, cl |-> calls] ELSE @]],
                                   NewFrame(o.f, Prog.funcs[o.f], o.args))
                /\ glob' = o.S.gl /\ calls' = o.S.cl /\ steps' = steps + 1
                /\ UNCHANGED <<status, why, ret>>
      [] o.t = "ret" ->
           IF o.S.np # Len(Top.pend) THEN Halt("stuck", "replay consumed a different number of calls")
           ELSE IF Len(stack) = 1
           THEN /\ status' = "ok" /\ why' = "" /\ ret' = o.v.w /\ stack' = <<>>
                /\ glob' = o.S.gl /\ calls' = o.S.cl /\ steps' = steps + 1
           ELSE LET n == Len(stack) - 1 IN          \* the caller evaluates its statement again, replaying this call
                /\ stack' = [SubSeq(stack, 1, n) EXCEPT ![n] =
                                [@ EXCEPT !.pend = Append(@, [v |-> o.v, gl |-> o.S.gl, cl |-> o.S.cl,
                                                               fx |-> Join(Top.fx, o.fx)])]]
                /\ glob' = o.S.gl /\ calls' = o.S.cl /\ steps' = steps + 1
                /\ UNCHANGED <<status, why, ret>>

Truth(v) == ~WIsZero(v.w)

(* ---- declarations and expression statements -------------------------------------- *)
DeclO ==
    LET r == Eval(St.e, X0, S0) IN
    IF r.st # "ok" THEN DivertO(r)
    ELSE IF ~IsInt(r.v) THEN HaltO("stuck", "pointer initialiser")
    ELSE LET c == Conv(r.v, St.ty) IN                      \* 6.7.9p11: as simple assignment
         IF c.st # "ok" THEN HaltO(c.st, c.why)
         ELSE CommitO(r.S, (St.n :> Scal(St.ty, c.v.w)) @@ Top.env, KAdv, r.fx)
Decl == Is("decl") /\ Apply(DeclO)

DeclArrO ==
    IF Len(St.init) > St.len THEN HaltO("stuck", "too many initialisers")
    ELSE LET r == InitElems(St.ty, St.len, St.init, 1, <<>>) IN
         IF r.st # "ok" THEN HaltO(r.st, r.why)
         ELSE CommitO(S0, (St.n :> Arr(St.ty, r.el)) @@ Top.env, KAdv, NoFx)
DeclArr == Is("declarr") /\ Apply(DeclArrO)

ExprStmtO == LET r == Eval(St.e, X0, S0) IN IF r.st # "ok" THEN DivertO(r) ELSE CommitO(r.S, Top.env, KAdv, r.fx)
ExprStmt == Is("expr") /\ Apply(ExprStmtO)

(* ---- assignment (6.5.16): simple, compound (E1 op= E2 is E1 = E1 op (E2), E1 evaluated once), ++ -- *)
AssignO ==
    LET l == LVal(St.lhs, X0, S0) IN
    IF l.st # "ok" THEN DivertO(l)
    ELSE LET r == Eval(St.e, X0, l.S) IN
         IF r.st # "ok" THEN DivertO(r)
         ELSE IF ~IsInt(r.v) THEN HaltO("stuck", "pointer assigned to an integer")
         ELSE LET lfx == IF St.op = "=" \/ l.obj = "" THEN l.fx ELSE Join(l.fx, Rd(l.obj)) IN
              IF Conflict(lfx, r.fx) THEN HaltO("unspec", "operands of assignment interfere")
              ELSE LET z == IF St.op = "=" THEN OkV(r.v) ELSE Arith(BaseOp(St.op), l.cur, r.v) IN
                   IF z.st # "ok" THEN HaltO(z.st, z.why)
                   ELSE LET c == Conv(z.v, l.cur.ty) IN                 \* 6.5.16.1p2: converted to the type of the lhs
                        IF c.st # "ok" THEN HaltO(c.st, c.why)
                        ELSE LET sto == Store(l.loc, c.v.w, Top.env, r.S.gl) IN
                             CommitO([r.S EXCEPT !.gl = sto.gl], sto.env, KAdv,
                                     Join(Join(lfx, r.fx), IF l.obj = "" THEN NoFx ELSE Wr(l.obj)))
Assign == Is("asg") /\ Apply(AssignO)

IncDecO ==
    LET l == LVal(St.lhs, X0, S0) IN
    IF l.st # "ok" THEN DivertO(l)
    ELSE LET z == Arith(IF St.op = "++" THEN "+" ELSE "-", l.cur, OneV) IN      \* 6.5.2.4, 6.5.3.1: E += 1
         IF z.st # "ok" THEN HaltO(z.st, z.why)
         ELSE LET c == Conv(z.v, l.cur.ty) IN
              IF c.st # "ok" THEN HaltO(c.st, c.why)
              ELSE LET sto == Store(l.loc, c.v.w, Top.env, l.S.gl) IN
                   CommitO([l.S EXCEPT !.gl = sto.gl], sto.env, KAdv,
                           IF l.obj = "" THEN l.fx ELSE Join(l.fx, Join(Rd(l.obj), Wr(l.obj))))
IncDec == Is("inc") /\ Apply(IncDecO)

(* ---- selection and iteration (6.8.4, 6.8.5) ---------------------------------------- *)
IfO ==
    LET r == Eval(St.c, X0, S0) IN
    IF r.st # "ok" THEN DivertO(r)
    ELSE IF ~IsInt(r.v) THEN HaltO("stuck", "pointer condition")
    ELSE CommitO(r.S, Top.env, Append(KAdv, Blk(IF Truth(r.v) THEN St.t ELSE St.f)), r.fx)
If == Is("if") /\ Apply(IfO)

SeqStmt == Is("seq") /\ Apply(CommitO(S0, Top.env, Append(KAdv, Blk(St.b)), NoFx))

Loop(c, b) == [k |-> "loop", c |-> c, b |-> b]
While == Is("while") /\ Apply(CommitO(S0, Top.env, Append(KAdv, Loop(St.c, St.b)), NoFx))
DoWhile == Is("dowhile") /\ Apply(CommitO(S0, Top.env, Append(Append(KAdv, Loop(St.c, St.b)), Blk(St.b)), NoFx))
\* the loop marker is on top: the body (or a continue) has finished; evaluate the controlling expression
LoopTestO ==
    LET r == Eval(It.c, X0, S0) IN
    IF r.st # "ok" THEN DivertO(r)
    ELSE IF ~IsInt(r.v) THEN HaltO("stuck", "pointer condition")
    ELSE CommitO(r.S, Top.env, IF Truth(r.v) THEN Append(K, Blk(It.b)) ELSE KPop, r.fx)
LoopTest == AtItem("loop") /\ Apply(LoopTestO)

\* for (int v = lo; v < hi; v++) body
ForO ==
    LET c == InitConv(St.lo, "i32") IN
    IF c.st # "ok" THEN HaltO(c.st, c.why)
    ELSE CommitO(S0, (St.v :> Scal("i32", c.v.w)) @@ Top.env,
                 Append(KAdv, [k |-> "for", v |-> St.v, hi |-> St.hi, b |-> St.b, inc |-> FALSE]), NoFx)
For == Is("for") /\ Apply(ForO)
ForTestO ==
    LET cur == IV("i32", Top.env[It.v].w)
        z == IF It.inc THEN Arith("+", cur, OneV) ELSE OkV(cur)
    IN IF z.st # "ok" THEN HaltO(z.st, z.why)
       ELSE LET env1 == [Top.env EXCEPT ![It.v] = [@ EXCEPT !.w = z.v.w]]
                r == Eval([k |-> "bin", op |-> "<", a |-> [k |-> "var", n |-> It.v], b |-> It.hi],
                          [X0 EXCEPT !.env = env1], S0)
            IN IF r.st # "ok" THEN DivertO(r)
               ELSE CommitO(r.S, env1,
                            IF Truth(r.v) THEN Append([K EXCEPT ![Len(K)] = [@ EXCEPT !.inc = TRUE]], Blk(It.b)) ELSE KPop,
                            r.fx)
ForTest == AtItem("for") /\ Apply(ForTestO)

\* switch (6.8.4.2): controlling expression promoted, case constants converted to that type;
\* jump to the matching case, else to default, else past the statement; then fall through
RECURSIVE MatchCase(_, _, _, _, _)
MatchCase(cases, w, t, j, dflt) ==
    IF j > Len(cases) THEN dflt
    ELSE IF cases[j].dflt THEN MatchCase(cases, w, t, j + 1, j)
    ELSE IF ConvW(cases[j].w, "i64", t) = w /\ Fits(cases[j].w, "i64", t) THEN j
    ELSE MatchCase(cases, w, t, j + 1, dflt)
SwitchO ==
    LET r == Eval(St.e, X0, S0) IN
    IF r.st # "ok" THEN DivertO(r)
    ELSE IF ~IsInt(r.v) THEN HaltO("stuck", "pointer switch expression")
    ELSE LET t == Promote(r.v.ty)
             j == MatchCase(St.cases, ConvW(r.v.w, r.v.ty, t), t, 1, 0)
         IN CommitO(r.S, Top.env,
                    IF j = 0 THEN KAdv ELSE Append(KAdv, [k |-> "sw", cases |-> St.cases, j |-> j, ph |-> "body"]), r.fx)
Switch == Is("switch") /\ Apply(SwitchO)
\* the switch marker is on top: run the body of case j, then either leave (rendered `break;`) or fall through
SwitchStep ==
    /\ AtItem("sw")
    /\ Apply(CommitO(S0, Top.env,
              IF It.j > Len(It.cases) THEN KPop
              ELSE IF It.ph = "body" THEN Append([K EXCEPT ![Len(K)] = [@ EXCEPT !.ph = "brk"]], Blk(It.cases[It.j].b))
              ELSE IF It.cases[It.j].brk THEN KPop
              ELSE [K EXCEPT ![Len(K)] = [@ EXCEPT !.j = @ + 1, !.ph = "body"]],
              NoFx))

\* break / continue (6.8.6): unwind the continuation to the innermost enclosing construct
RECURSIVE PopTo(_, _)
PopTo(k, kinds) == IF Len(k) = 0 THEN k
                   ELSE IF k[Len(k)].k \in kinds THEN k ELSE PopTo(SubSeq(k, 1, Len(k) - 1), kinds)
BreakO == LET k2 == PopTo(K, {"loop", "for", "sw"}) IN
          IF Len(k2) = 0 THEN HaltO("stuck", "break outside of a loop or switch")
          ELSE CommitO(S0, Top.env, SubSeq(k2, 1, Len(k2) - 1), NoFx)
Break == Is("break") /\ Apply(BreakO)
ContinueO == LET k2 == PopTo(K, {"loop", "for"}) IN
             IF Len(k2) = 0 THEN HaltO("stuck", "continue outside of a loop")
             ELSE CommitO(S0, Top.env, k2, NoFx)
Continue == Is("continue") /\ Apply(ContinueO)

(* ---- return (6.8.6.4): value converted to the return type as if by assignment -------- *)
ReturnO ==
    LET r == Eval(St.e, X0, S0) IN
    IF r.st # "ok" THEN DivertO(r)
    ELSE IF ~IsInt(r.v) THEN HaltO("stuck", "pointer returned")
    ELSE LET c == Conv(r.v, Fn.ret) IN
         IF c.st # "ok" THEN HaltO(c.st, c.why)
         ELSE [t |-> "ret", v |-> c.v, S |-> r.S, fx |-> r.fx]
Return == Is("ret") /\ Apply(ReturnO)

\* end of a statement list; falling off the end of a function whose value is used is undefined (6.9.1p12)
BlockEnd ==
    /\ AtItem("blk") /\ It.ix > Len(It.ss)
    /\ Apply(IF Len(K) = 1 THEN HaltO("undefined", "control reaches the end of a non-void function")
             ELSE CommitO(S0, Top.env, KPop, NoFx))

StmtKinds == {"decl", "declarr", "expr", "asg", "inc", "if", "seq", "while", "dowhile", "for", "switch",
              "break", "continue", "ret"}
Unknown ==
    /\ Running /\ HasFuel
    /\ \/ Len(K) = 0
       \/ Len(K) > 0 /\ It.k \notin {"blk", "loop", "for", "sw"}
       \/ AtStmt /\ St.k \notin StmtKinds
    /\ Halt("stuck", "unknown statement or continuation item")

OutOfFuel == Running /\ ~HasFuel /\ Halt("fuel", "step budget")

Step == /\ \/ Decl \/ DeclArr \/ ExprStmt \/ Assign \/ IncDec \/ If \/ SeqStmt \/ While \/ DoWhile \/ LoopTest
           \/ For \/ ForTest \/ Switch \/ SwitchStep \/ Break \/ Continue \/ Return \/ BlockEnd
           \/ Unknown \/ OutOfFuel
        /\ UNCHANGED <<chunk, i, av>>

(* ---- start of a case ----------------------------------------------------------------------- *)
RECURSIVE MainArgs(_, _, _, _)
MainArgs(params, words, j, objs) ==
    IF j > Len(params) THEN [st |-> "ok", objs |-> objs]
    ELSE IF params[j].ptr \/ Len(words[j]) # Size(params[j].ty) THEN Bad("stuck", "argument does not match the parameter")
    ELSE MainArgs(params, words, j + 1, Append(objs, Scal(params[j].ty, words[j])))

StartCase(c, a) ==
    LET P == c.prog
        fi == FnIdx(c.fn, P)
        g0 == InitGlobals(P.globals, 1, <<>>)
    IN /\ calls' = <<>> /\ ret' = <<>> /\ steps' = 0
       /\ IF fi = 0 \/ g0.st # "ok"
          THEN /\ status' = IF fi = 0 THEN "stuck" ELSE g0.st
               /\ why' = IF fi = 0 THEN "no such function" ELSE g0.why
               /\ stack' = <<>> /\ glob' = <<>>
          ELSE LET Fd == P.funcs[fi] IN
               IF Len(Fd.params) # Len(c.argv[a]) THEN /\ status' = "stuck" /\ why' = "arity" /\ stack' = <<>> /\ glob' = <<>>
               ELSE LET pa == MainArgs(Fd.params, c.argv[a], 1, <<>>) IN
                    IF pa.st # "ok" THEN /\ status' = "stuck" /\ why' = pa.why /\ stack' = <<>> /\ glob' = <<>>
                    ELSE /\ status' = "run" /\ why' = "" /\ glob' = g0.gl
                         /\ stack' = <<NewFrame(fi, Fd, pa.objs)>>

Init == /\ chunk = 0 /\ i = 0 /\ av = 0 /\ stack = <<>> /\ glob = <<>> /\ calls = <<>>
        /\ status = "idle" /\ why = "" /\ ret = <<>> /\ steps = 0
PickChunk == /\ chunk = 0 /\ chunk' \in 1..NChunks
             /\ UNCHANGED <<i, av, stack, glob, calls, status, why, ret, steps>>
PickCase == /\ chunk > 0 /\ i = 0
            /\ i' \in {k \in 1..Len(Cases) : k % NChunks = chunk - 1}
            /\ av' \in 1..Len(Cases[i'].argv)
            /\ StartCase(Cases[i'], av')
            /\ UNCHANGED chunk
Next == PickChunk \/ PickCase \/ Step

(* ---- observation ------------------------------------------------------------------------------ *)
Finished == i > 0 /\ status \notin {"run", "idle"}
Obs == [status |-> status, why |-> why,
        ret |-> ret,
        globals |-> IF status = "ok" THEN GlobObs(Prog.globals, 1, glob) ELSE <<>>,
        calls |-> calls]

TypeOK == /\ status \in {"idle", "run", "ok", "undefined", "impldef", "unspec", "fuel", "stuck"}
          /\ (status = "run" => Len(stack) >= 1)
          /\ (status = "ok" => Len(ret) \in {1, 2, 4, 8})
NeverStuck == status # "stuck"
=============================================================================
