------------------------------- MODULE Avr_MC -------------------------------
(* Idiom M for Avr.tla: laws of the ISA model, checked exhaustively on small *)
(* domains before the model judges ppci.                                     *)
(*  family "w16"  every 16-bit word (65 536; every fifth high byte + the      *)
(*                dense 90h..97h region when ~Deep): exactly one region of    *)
(*                the opcode map matches; a defined instruction is well-      *)
(*                formed and re-encodes to the same word; the first word of a *)
(*                32-bit instruction alone is "truncated"                     *)
(*  family "w32"  first words of lds / sts / jmp / call x second words, and   *)
(*                16-bit words followed by a second word ("toolong")          *)
(*  family "ins"  well-formed records (every mnemonic x registers x boundary  *)
(*                operands x pointer modes): Decode(Encode(i)) = i            *)
(*  family "ln"   printed lines of the reference assembler (the manual's      *)
(*                syntax, alias mnemonics, ppci's pair names, low / high):    *)
(*                the bytes of every equivalent encoding decode to what the   *)
(*                line means                                                  *)
(*  family "ka"   hand-checked known answers                                  *)
(*  family "fld"  field split / join laws: the scattered K, q, A fields, the  *)
(*                7- and 12-bit displacements, the 22-bit address             *)
(*  family "mn"   every mnemonic parses in exactly one way                    *)
(* The same run writes the boundary table of idiom G to IOEnv.OUT_FILE.      *)
EXTENDS Avr, Json, IOUtils, SequencesExt
CONSTANTS Deep, Fams

Labelled(lo, hi, a) ==
    {lo - a, lo - 1, lo, lo + 1, lo + a, -a, -1, 0, 1, a, 2 * a, 3 * a, 7, 8, 15, 16, 31, 32, hi - a, hi - 1, hi, hi + 1, hi + a,
     ((lo + hi) \div (2 * a)) * a, ((lo + hi) \div (2 * a)) * a + a, (hi \div (2 * a)) * a, (hi \div (2 * a)) * a + a,
     (lo \div (2 * a)) * a, (lo \div (2 * a)) * a - a, (hi \div (4 * a)) * a, (lo \div (4 * a)) * a}
Inside(lo, hi, a, v) == lo <= v /\ v <= hi /\ v % a = 0
Row(r) == [mns |-> SetToSeq(r[1]), what |-> r[2], lo |-> r[3], hi |-> r[4], align |-> r[5],
           vals |-> SetToSeq({[v |-> v, inside |-> Inside(r[3], r[4], r[5], v)] : v \in Labelled(r[3], r[4], r[5])})]
Table == [avr |-> SetToSeq({Row(r) : r \in ARanges})]
ASSUME JsonSerialize(IOEnv.OUT_FILE, Table)

-----------------------------------------------------------------------------
VARIABLES fam, pick
vars == <<fam, pick>>
None == [k |-> "none"]
Rg(r) == <<"r", r, "">>
Pr(r) == <<"w", r, "">>
Pt(r) == <<"p", r, "">>
Im(v) == <<"i", v, "">>
Lb(a) == <<"l", a, "L_t">>
Fw(w) == <<"f", 0, w>>
G(ch) == <<ch, 0, "">>

RegsS == IF Deep THEN 0..31 ELSE {0, 1, 15, 16, 17, 23, 24, 26, 30, 31}
WithLen(i) == [i EXCEPT !.len = LenOfMn(i.mn)]
AllMn == {Alu2Mn[k] : k \in 1..11} \cup {"mul", "muls", "movw"} \cup {MulsuMn[k] : k \in 1..4} \cup NoOperand
         \cup {"cpi", "sbci", "subi", "ori", "andi", "ldi", "adiw", "sbiw", "com", "neg", "swap", "inc", "asr", "lsr", "ror", "dec", "push", "pop",
               "ld", "st", "lds", "sts", "lpm", "elpm", "spm", "in", "out", "bset", "bclr", "des", "brbs", "brbc", "rjmp", "rcall", "jmp", "call"}
         \cup {RmwMn[k] : k \in 1..4} \cup {IoBitMn[k] : k \in 1..4} \cup {BitRegMn[k] : k \in 1..4}
InsOf(mn) ==
    LET B == [I0 EXCEPT !.mn = mn] IN
    CASE mn \in NoOperand -> {WithLen(B)}
      [] InSeq(Alu2Mn, mn) \/ mn = "mul" -> {WithLen([B EXCEPT !.rd = d, !.rr = r]) : d \in RegsS, r \in RegsS}
      [] mn = "movw" -> {WithLen([B EXCEPT !.rd = d, !.rr = r]) : d \in {x \in RegsS : x % 2 = 0}, r \in {x \in RegsS : x % 2 = 0}}
      [] mn = "muls" -> {WithLen([B EXCEPT !.rd = d, !.rr = r]) : d \in RegsS \cap 16..31, r \in RegsS \cap 16..31}
      [] InSeq(MulsuMn, mn) -> {WithLen([B EXCEPT !.rd = d, !.rr = r]) : d \in 16..23, r \in 16..23}
      [] mn \in {"cpi", "sbci", "subi", "ori", "andi", "ldi"} -> {WithLen([B EXCEPT !.rd = d, !.k = k]) : d \in RegsS \cap 16..31, k \in {0, 1, 15, 16, 127, 128, 240, 255}}
      [] mn \in {"adiw", "sbiw"} -> {WithLen([B EXCEPT !.rd = d, !.k = k]) : d \in {24, 26, 28, 30}, k \in {0, 1, 15, 16, 32, 47, 48, 63}}
      [] mn \in {"com", "neg", "swap", "inc", "asr", "lsr", "ror", "dec", "push", "pop"} -> {WithLen([B EXCEPT !.rd = d]) : d \in RegsS}
      [] mn \in {"ld", "st"} -> {WithLen([B EXCEPT !.rd = d, !.ptr = p, !.am = a]) : d \in RegsS, p \in Ptrs, a \in {"", "post", "pre"}}
                                \cup {WithLen([B EXCEPT !.rd = d, !.ptr = p, !.am = "disp", !.k = q]) : d \in RegsS, p \in {"Y", "Z"}, q \in {1, 7, 8, 24, 31, 32, 63}}
      [] mn \in {"lds", "sts"} -> {WithLen([B EXCEPT !.rd = d, !.k = k]) : d \in RegsS, k \in {0, 1, 255, 256, 4660, 32768, 65535}}
      [] mn \in {"lpm", "elpm"} -> {WithLen([B EXCEPT !.rd = d, !.ptr = "Z", !.am = a]) : d \in RegsS, a \in {"", "post"}}
                                   \cup {WithLen([B EXCEPT !.rd = 0, !.ptr = "Z", !.enc = "implied"])}
      [] mn = "spm" -> {WithLen(B), WithLen([B EXCEPT !.ptr = "Z", !.am = "post"])}
      [] InSeq(RmwMn, mn) -> {WithLen([B EXCEPT !.rd = d, !.ptr = "Z"]) : d \in RegsS}
      [] mn \in {"in", "out"} -> {WithLen([B EXCEPT !.rd = d, !.k = k]) : d \in RegsS, k \in {0, 1, 15, 16, 31, 32, 48, 63}}
      [] InSeq(IoBitMn, mn) -> {WithLen([B EXCEPT !.k = k, !.b = b]) : k \in {0, 1, 15, 16, 31}, b \in 0..7}
      [] InSeq(BitRegMn, mn) -> {WithLen([B EXCEPT !.rd = d, !.b = b]) : d \in RegsS, b \in 0..7}
      [] mn \in {"bset", "bclr"} -> {WithLen([B EXCEPT !.k = k]) : k \in 0..7}
      [] mn = "des" -> {WithLen([B EXCEPT !.k = k]) : k \in 0..15}
      [] mn \in {"brbs", "brbc"} -> {WithLen([B EXCEPT !.k = k, !.rel = v]) : k \in 0..7, v \in {-128, -126, -2, 0, 2, 62, 64, 126}}
      [] mn \in {"rjmp", "rcall"} -> {WithLen([B EXCEPT !.rel = v]) : v \in {-4096, -4094, -2050, -2048, -2, 0, 2, 2046, 2048, 4094}}
      [] mn \in {"jmp", "call"} -> {WithLen([B EXCEPT !.k = k]) : k \in {0, 1, 4660, 65535, 65536, 65537, 131072, 2097151, 2097152, 4194303}}

\* ---- printed lines <<mnemonic, ops, pc>>
LR == IF Deep THEN 0..31 ELSE {0, 1, 16, 25, 31}
HR == IF Deep THEN 16..31 ELSE {16, 17, 31}
NLineGroups == 6
LineGroup(g) ==
    CASE g = 1 -> {<<m, <<Rg(d), Rg(r)>>, 0>> : m \in {Alu2Mn[k] : k \in 1..11} \cup {"mul"}, d \in LR, r \in LR}
                  \cup {<<m, <<Rg(d)>>, 0>> : m \in {"lsl", "rol", "tst", "clr", "com", "neg", "swap", "inc", "asr", "lsr", "ror", "dec", "push", "pop"}, d \in LR}
                  \cup {<<m, <<Rg(d), Rg(r)>>, 0>> : m \in {"muls"}, d \in HR, r \in HR}
                  \cup {<<m, <<Rg(d), Rg(r)>>, 0>> : m \in {MulsuMn[k] : k \in 1..4}, d \in {16, 23}, r \in {17, 22}}
      [] g = 2 -> {<<m, <<Rg(d), Im(v)>>, 0>> : m \in {"cpi", "sbci", "subi", "ori", "andi", "ldi", "sbr"}, d \in HR, v \in {-128, -1, 0, 1, 127, 128, 255}}
                  \cup {<<"cbr", <<Rg(d), Im(v)>>, 0>> : d \in HR, v \in {0, 1, 15, 240, 255}} \cup {<<"ser", <<Rg(d)>>, 0>> : d \in HR}
                  \cup {<<"ldi", <<Rg(d), Fw(f), G("("), Lb(a), G(")")>>, 0>> : d \in HR, f \in {"low", "high", "lo8", "hi8"}, a \in {0, 255, 256, 4660, 65535}}
                  \cup {<<m, <<x, Im(v)>>, 0>> : m \in {"adiw", "sbiw"}, x \in {Pr(24), Pt(26), Pt(28), Pt(30), Rg(24), Rg(30)}, v \in {0, 1, 15, 16, 63}}
                  \cup {<<"movw", <<x, y>>, 0>> : x \in {Pr(0), Pr(2), Pr(24), Pt(26), Pt(30), Rg(16)}, y \in {Pr(0), Pr(22), Pt(28), Rg(30)}}
      [] g = 3 -> {<<"ld", <<Rg(d), Pt(p)>>, 0>> : d \in LR, p \in {26, 28, 30}} \cup {<<"ld", <<Rg(d), Pt(p), G("+")>>, 0>> : d \in LR, p \in {26, 28, 30}}
                  \cup {<<"ld", <<Rg(d), G("-"), Pt(p)>>, 0>> : d \in LR, p \in {26, 28, 30}}
                  \cup {<<"ldd", <<Rg(d), Pt(p), G("+"), Im(q)>>, 0>> : d \in LR, p \in {28, 30}, q \in {0, 1, 7, 8, 32, 63}}
                  \cup {<<"st", <<Pt(p), Rg(d)>>, 0>> : d \in LR, p \in {26, 28, 30}} \cup {<<"st", <<Pt(p), G("+"), Rg(d)>>, 0>> : d \in LR, p \in {26, 28, 30}}
                  \cup {<<"st", <<G("-"), Pt(p), Rg(d)>>, 0>> : d \in LR, p \in {26, 28, 30}}
                  \cup {<<"std", <<Pt(p), G("+"), Im(q), Rg(d)>>, 0>> : d \in LR, p \in {28, 30}, q \in {0, 1, 7, 8, 32, 63}}
      [] g = 4 -> {<<"lds", <<Rg(d), Im(v)>>, 0>> : d \in LR, v \in {0, 4660, 65535}} \cup {<<"sts", <<Im(v), Rg(d)>>, 0>> : d \in LR, v \in {0, 4660, 65535}}
                  \cup {<<m, <<>>, 0>> : m \in {"lpm", "elpm", "spm"}} \cup {<<m, <<Rg(d), Pt(30)>>, 0>> : m \in {"lpm", "elpm"}, d \in LR}
                  \cup {<<m, <<Rg(d), Pt(30), G("+")>>, 0>> : m \in {"lpm", "elpm"}, d \in LR} \cup {<<"spm", <<Pt(30), G("+")>>, 0>>}
                  \cup {<<m, <<Pt(30), Rg(d)>>, 0>> : m \in {RmwMn[k] : k \in 1..4}, d \in LR}
                  \cup {<<"in", <<Rg(d), Im(a)>>, 0>> : d \in LR, a \in {0, 15, 16, 63}} \cup {<<"out", <<Im(a), Rg(d)>>, 0>> : d \in LR, a \in {0, 15, 16, 63}}
                  \cup {<<m, <<Im(a), Im(b)>>, 0>> : m \in {IoBitMn[k] : k \in 1..4}, a \in {0, 7, 8, 31}, b \in {0, 3, 7}}
                  \cup {<<m, <<Rg(d), Im(b)>>, 0>> : m \in {BitRegMn[k] : k \in 1..4}, d \in LR, b \in {0, 3, 7}}
      [] g = 5 -> {<<m, <<>>, 0>> : m \in NoOperand \cup {a[1] : a \in FlagAlias}} \cup {<<m, <<Im(s)>>, 0>> : m \in {"bset", "bclr"}, s \in 0..7}
                  \cup {<<"des", <<Im(k)>>, 0>> : k \in {0, 5, 15}}
      [] g = 6 -> {<<a[1], <<Lb(pc + 2 + v)>>, pc>> : a \in BranchAlias, pc \in {512, 4098}, v \in {-128, -2, 0, 2, 64, 126}}
                  \cup {<<m, <<Im(s), Lb(pc + 2 + v)>>, pc>> : m \in {"brbs", "brbc"}, s \in {0, 7}, pc \in {512}, v \in {-128, 0, 126}}
                  \cup {<<m, <<Lb(pc + 2 + v)>>, pc>> : m \in {"rjmp", "rcall"}, pc \in {4096, 8190}, v \in {-4096, -2048, -2, 0, 2, 2046, 2048, 4094}}
                  \cup {<<m, <<Im(v)>>, pc>> : m \in {"rjmp", "rcall", "breq"}, pc \in {0, 512}, v \in {-2, 0, 2, 126}}
                  \cup {<<m, <<Lb(a)>>, 0>> : m \in {"jmp", "call"}, a \in {0, 2, 9320, 131070, 131072, 8388606}}
Completions(a) == {WithLen([a EXCEPT !.enc = e]) : e \in (IF a.mn \in {"lpm", "elpm"} /\ a.rd = 0 /\ a.am = "" THEN {"", "implied"} ELSE {""})}

\* ---- hand-checked known answers: <<mnemonic, ops, pc, words>>
Known == {
    <<"nop", <<>>, 0, <<0>>>>, <<"ret", <<>>, 0, <<38152>>>>, <<"reti", <<>>, 0, <<38168>>>>,                   \* 0000h 9508h 9518h
    <<"icall", <<>>, 0, <<38153>>>>, <<"ijmp", <<>>, 0, <<37897>>>>, <<"eicall", <<>>, 0, <<38169>>>>, <<"eijmp", <<>>, 0, <<37913>>>>,   \* 9509h 9409h 9519h 9419h
    <<"sleep", <<>>, 0, <<38280>>>>, <<"break", <<>>, 0, <<38296>>>>, <<"wdr", <<>>, 0, <<38312>>>>,          \* 9588h 9598h 95A8h
    <<"lpm", <<>>, 0, <<38344>>>>, <<"elpm", <<>>, 0, <<38360>>>>, <<"spm", <<>>, 0, <<38376>>>>,             \* 95C8h 95D8h 95E8h
    <<"sei", <<>>, 0, <<38008>>>>, <<"cli", <<>>, 0, <<38136>>>>, <<"clc", <<>>, 0, <<38024>>>>, <<"sec", <<>>, 0, <<37896>>>>,   \* 9478h 94F8h 9488h 9408h
    <<"add", <<Rg(1), Rg(2)>>, 0, <<3090>>>>, <<"cpse", <<Rg(1), Rg(2)>>, 0, <<4114>>>>, <<"mul", <<Rg(1), Rg(2)>>, 0, <<39954>>>>,   \* 0C12h 1012h 9C12h
    <<"mov", <<Rg(31), Rg(16)>>, 0, <<12272>>>>,                                                                \* 2FF0h
    <<"lsl", <<Rg(5)>>, 0, <<3157>>>>, <<"clr", <<Rg(17)>>, 0, <<10001>>>>,                                    \* 0C55h 2711h
    <<"movw", <<Pr(0), Pr(2)>>, 0, <<257>>>>, <<"muls", <<Rg(16), Rg(17)>>, 0, <<513>>>>, <<"fmul", <<Rg(16), Rg(17)>>, 0, <<777>>>>,   \* 0101h 0201h 0309h
    <<"ldi", <<Rg(16), Im(255)>>, 0, <<61199>>>>, <<"ldi", <<Rg(21), Im(16)>>, 0, <<57680>>>>,                 \* EF0Fh E150h
    <<"cpi", <<Rg(16), Im(0)>>, 0, <<12288>>>>, <<"andi", <<Rg(31), Im(240)>>, 0, <<32752>>>>, <<"ser", <<Rg(16)>>, 0, <<61199>>>>,     \* 3000h 7FF0h EF0Fh
    <<"adiw", <<Rg(24), Im(3)>>, 0, <<38403>>>>, <<"sbiw", <<Pt(30), Im(63)>>, 0, <<38911>>>>,                 \* 9603h 97FFh
    <<"com", <<Rg(5)>>, 0, <<37968>>>>, <<"neg", <<Rg(5)>>, 0, <<37969>>>>, <<"swap", <<Rg(0)>>, 0, <<37890>>>>,   \* 9450h 9451h 9402h
    <<"inc", <<Rg(5)>>, 0, <<37971>>>>, <<"dec", <<Rg(5)>>, 0, <<37978>>>>,                                    \* 9453h 945Ah
    <<"push", <<Rg(5)>>, 0, <<37471>>>>, <<"pop", <<Rg(5)>>, 0, <<36959>>>>,                                   \* 925Fh 905Fh
    <<"ld", <<Rg(3), Pt(26)>>, 0, <<36924>>>>, <<"st", <<G("-"), Pt(26), Rg(3)>>, 0, <<37438>>>>,              \* 903Ch 923Eh
    <<"ld", <<Rg(0), Pt(28)>>, 0, <<32776>>>>, <<"ld", <<Rg(0), Pt(28), G("+")>>, 0, <<36873>>>>,              \* 8008h 9009h
    <<"ldd", <<Rg(4), Pt(28), G("+"), Im(3)>>, 0, <<32843>>>>, <<"std", <<Pt(30), G("+"), Im(63), Rg(31)>>, 0, <<45047>>>>,   \* 804Bh AFF7h
    <<"lpm", <<Rg(0), Pt(30), G("+")>>, 0, <<36869>>>>, <<"lpm", <<Rg(0), Pt(30)>>, 0, <<36868>>>>,            \* 9005h 9004h
    <<"lds", <<Rg(21), Im(4660)>>, 0, <<37200, 4660>>>>, <<"sts", <<Im(65535), Rg(5)>>, 0, <<37456, 65535>>>>,   \* 9150h 1234h / 9250h FFFFh
    <<"in", <<Rg(21), Im(63)>>, 0, <<46943>>>>, <<"out", <<Im(5), Rg(5)>>, 0, <<47189>>>>,                     \* B75Fh B855h
    <<"cbi", <<Im(0), Im(0)>>, 0, <<38912>>>>, <<"sbi", <<Im(31), Im(7)>>, 0, <<39679>>>>,                     \* 9800h 9AFFh
    <<"sbrc", <<Rg(0), Im(3)>>, 0, <<64515>>>>, <<"bst", <<Rg(7), Im(5)>>, 0, <<64117>>>>,                     \* FC03h FA75h
    <<"des", <<Im(5)>>, 0, <<37979>>>>,                                                                         \* 945Bh
    <<"rcall", <<Lb(2)>>, 0, <<53248>>>>, <<"rjmp", <<Lb(0)>>, 0, <<53247>>>>,                          \* D000h CFFFh
    <<"brne", <<Lb(4)>>, 0, <<62473>>>>, <<"breq", <<Lb(0)>>, 0, <<62457>>>>,                                  \* F409h F3F9h
    <<"call", <<Lb(9320)>>, 0, <<37902, 4660>>>>, <<"jmp", <<Lb(0)>>, 0, <<37900, 0>>>>,                       \* 940Eh 1234h / 940Ch 0000h
    <<"jmp", <<Lb(8388606)>>, 0, <<38397, 65535>>>> }                                                          \* 95FDh FFFFh

W32First == {36864 + 512 * s + 16 * d : s \in {0, 1}, d \in RegsS} \cup {37888 + 16 * h + 12 + c : h \in {0, 1, 16, 31}, c \in 0..3}
W32Other == {0, 3090, 32843, 36869, 38152, 49152, 61440, 65535}
WHi == IF Deep THEN 0..255 ELSE {h \in 0..255 : h % 5 = 0} \cup 144..151 \cup {0, 1, 2, 3}
Init == fam = "none" /\ pick = None
PickFam == fam = "none" /\ fam' \in Fams /\ pick' = None
PickW16 == fam = "w16" /\ pick = None /\ UNCHANGED fam /\ \E hi \in WHi : pick' = [k |-> "w16-", hi |-> hi]
PickW16b == fam = "w16" /\ pick.k = "w16-" /\ UNCHANGED fam /\ \E lo \in 0..255 : pick' = [k |-> "w16", w |-> 256 * pick.hi + lo]
PickW32 == fam = "w32" /\ pick = None /\ UNCHANGED fam /\ \E w1 \in W32First \cup W32Other, w2 \in {0, 1, 4660, 32768, 65535} : pick' = [k |-> "w32", w1 |-> w1, w2 |-> w2]
PickInsMn == fam = "ins" /\ pick = None /\ UNCHANGED fam /\ \E mn \in AllMn : pick' = [k |-> "ins-", mn |-> mn]
PickIns == fam = "ins" /\ pick.k = "ins-" /\ UNCHANGED fam /\ \E i \in InsOf(pick.mn) : pick' = [k |-> "ins", i |-> i]
PickLnG == fam = "ln" /\ pick = None /\ UNCHANGED fam /\ \E g \in 1..NLineGroups : pick' = [k |-> "ln-", g |-> g]
PickLn == fam = "ln" /\ pick.k = "ln-" /\ UNCHANGED fam /\ \E ln \in LineGroup(pick.g) : pick' = [k |-> "ln", ln |-> ln]
PickKa == fam = "ka" /\ pick = None /\ UNCHANGED fam /\ \E ka \in Known : pick' = [k |-> "ka", ka |-> ka]
PickFld == fam = "fld" /\ pick = None /\ UNCHANGED fam /\ \E v \in 0..4095 : pick' = [k |-> "fld", v |-> v]
PickMn == fam = "mn" /\ pick = None /\ UNCHANGED fam /\ \E m \in AllMn \cup {a[1] : a \in BranchAlias \cup FlagAlias \cup SelfAlias} : pick' = [k |-> "mn", nm |-> m]
Next == PickFam \/ PickW16 \/ PickW16b \/ PickW32 \/ PickInsMn \/ PickIns \/ PickLnG \/ PickLn \/ PickKa \/ PickFld \/ PickMn

RegsOK(d) == Reads(d) \subseteq 0..31 /\ Writes(d) \subseteq 0..31
-----------------------------------------------------------------------------
\* the regions are a partition of the 16-bit space
LawOneFormat == pick.k = "w16" => Cardinality(Matches(pick.w)) = 1
LawReencode == pick.k = "w16" => \E d \in {Decode16(pick.w)} :
    /\ d.len = 2
    /\ Is32(pick.w) = (d.mn = "truncated")
    /\ d.mn \in {"reserved", "truncated"} \/ Valid(d)
    /\ Valid(d) => (WF(d) /\ EncodeW(d) = <<pick.w>> /\ RegsOK(d) /\ Decode(Encode(d)) = d /\ Decode32(pick.w, 0).mn = "toolong")
LawReencode32 == pick.k = "w32" => \E d \in {Decode32(pick.w1, pick.w2)} :
    /\ d.len = 4
    /\ Is32(pick.w1) = Valid(d) /\ (~Valid(d) => d.mn = "toolong")
    /\ Valid(d) => (WF(d) /\ EncodeW(d) = <<pick.w1, pick.w2>> /\ RegsOK(d) /\ Decode(Encode(d)) = d /\ Decode16(pick.w1).mn = "truncated")
LawDecodeEncode == pick.k = "ins" => \E b \in {Encode(pick.i)} :
    /\ WF(pick.i) /\ Decode(b) = pick.i /\ Len(b) = pick.i.len /\ RegsOK(pick.i)
LawLine == pick.k = "ln" => \E a \in {Asm(pick.ln[1], pick.ln[2], pick.ln[3])} :
    /\ a # NoAsm
    /\ \A c \in Completions(a) : \E d \in {Decode(Encode(c))} : WF(c) /\ Core(d) = Core(a) /\ d = c
LawKnown == pick.k = "ka" => LET a == Asm(pick.ka[1], pick.ka[2], pick.ka[3])  ws == pick.ka[4] IN
    /\ Valid(a)
    /\ \E c \in Completions(a) : EncodeW(c) = ws
    /\ Core(Decode(WordBytes(ws))) = Core(a)
\* field laws: the scattered fields are split and joined without loss
LawFields == pick.k = "fld" => LET v == pick.v  k8 == v % 256  q == v % 64  a22 == 1024 * v + (v % 1024) IN
    /\ Pattern(SignExt(v, 12), 12) = v /\ SignExt(v, 12) \in -2048..2047
    /\ Pattern(SignExt(v % 128, 7), 7) = v % 128 /\ SignExt(v % 128, 7) \in -64..63
    /\ Decode16(EncodeW(WithLen([I0 EXCEPT !.mn = "ldi", !.rd = 16 + (v \div 256), !.k = k8]))[1]).k = k8
    /\ Decode16(EncodeW(WithLen([I0 EXCEPT !.mn = "st", !.rd = v \div 128, !.ptr = "Y", !.am = IF q = 0 THEN "" ELSE "disp", !.k = q]))[1]).k = q
    /\ Decode16(EncodeW(WithLen([I0 EXCEPT !.mn = "out", !.rd = v \div 128, !.k = q]))[1]).k = q
    /\ Decode16(EncodeW(WithLen([I0 EXCEPT !.mn = "adiw", !.rd = 24 + 2 * ((v \div 64) % 4), !.k = q]))[1]).k = q
    /\ LET ws == EncodeW(WithLen([I0 EXCEPT !.mn = "call", !.k = a22])) IN Decode32(ws[1], ws[2]).k = a22
    /\ RR(v \div 128, v % 32) = 512 * Bit(v, 4) + 16 * (v \div 128) + (v % 16)
    /\ WordBytes(<<16 * v>>) = <<(16 * v) % 256, v \div 16>> /\ Hw(WordBytes(<<16 * v, v>>), 1) = 16 * v /\ Hw(WordBytes(<<16 * v, v>>), 2) = v
LawMnemonic == pick.k = "mn" => LET m == pick.nm IN
    Cardinality({x \in {"core", "branch", "flag", "self"} :
        CASE x = "core" -> m \in AllMn [] x = "branch" -> \E a \in BranchAlias : a[1] = m
          [] x = "flag" -> \E a \in FlagAlias : a[1] = m [] x = "self" -> \E a \in SelfAlias : a[1] = m}) = 1
=============================================================================
