--------------------------- MODULE Mos6502_Eval ---------------------------
(* Idiom E for the mcs6500 part of X12: one state per record observed on the *)
(* real ppci code (harness/mos6502gen.py); one invariant per clause.         *)
(*                                                                           *)
(* t = "enc": one instruction instance of ppci.arch.mcs6500: mn, ops = the   *)
(*     text ppci printed, tokenised (label tokens carry the address the      *)
(*     harness resolved the label to); pc = address of the instruction;      *)
(*     out = [ok, exc, bytes]: what encode() (+ the instruction's own        *)
(*     relocations) / the assembler on the printed text produced             *)
EXTENDS Mos6502, Json, IOUtils
Recs == JsonDeserialize(IOEnv.TRACE_FILE)
ChunkLen == 16
NChunks == (Len(Recs) + ChunkLen - 1) \div ChunkLen
VARIABLES chunk, idx
vars == <<chunk, idx>>
Init == chunk = 0 /\ idx = 0
PickChunk == chunk = 0 /\ chunk' \in 1..NChunks /\ idx' = 0
PickRec == chunk > 0 /\ idx = 0 /\ chunk' = chunk
           /\ idx' \in ((chunk - 1) * ChunkLen + 1)..(IF chunk * ChunkLen < Len(Recs) THEN chunk * ChunkLen ELSE Len(Recs))
Next == PickChunk \/ PickRec

AsmOf(r) == Asm(r.mn, r.ops, r.pc)
IsEnc == idx > 0 /\ Recs[idx].t = "enc"
\* not a verdict (reported as a note): the printed line is outside the modelled assembly notation
SyntaxKnown == IsEnc => AsmOf(Recs[idx]) # NoAsm
\* not a verdict (note): the printed value lies outside every field (the harness only records in-range instances)
TextInRange == IsEnc => AsmOf(Recs[idx]).mn # "range"
\* X12: whatever ppci accepts and emits decodes to the operation and operand it prints.  A printed (mnemonic,
\* addressing mode) pair the opcode matrix does not have (NoForm) agrees with no bytes at all.
EncodingAgrees == (IsEnc /\ Recs[idx].out.ok) =>
    \E a \in {AsmOf(Recs[idx])} :
        (a # NoAsm /\ a.mn # "range") => Core(Decode(Recs[idx].out.bytes)) = Core(a)
=============================================================================
