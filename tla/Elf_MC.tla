------------------------------ MODULE Elf_MC ------------------------------
(* Idiom M: the reader's own laws.  A reference *encoder* for small abstract  *)
(* ELF objects is written here, again from the specification's tables, and a  *)
(* state machine builds every object within the bounds (class, data encoding, *)
(* file type; sections, symbols, RELA entries, PT_LOAD segments added one at  *)
(* a time).  In every state:                                                  *)
(*   RoundTrip   Read(Encode(o)) shows exactly o (header fields, every        *)
(*               section / symbol / relocation / segment with all fields)     *)
(*   WellFormed  no well-formedness clause fails on an encoded object         *)
(*   Seen        the object projected in the shape the conformance check uses *)
(*               (Lift) satisfies SectionsSeen / SymbolsSeen /                *)
(*               RelocationsSeen / EntrySeen / SegmentsHold                   *)
(*   Tamper      changing any single byte of the header, a program header, a  *)
(*               section header, the symbol table or a RELA table changes the *)
(*               view (no byte the reader claims to interpret is ignored),    *)
(*               and the reader stays defined on the damaged file             *)
(*   Damage      named damages are caught by the clause that names them       *)
EXTENDS Elf, TLC

CONSTANTS MaxSecs, MaxSyms, MaxRels, MaxSegs,
          Lite,               \* TRUE: one choice for the first section (quick tier)
          Sample, PosMod      \* Tamper / Damage: on every Sample-th state (by file length), every PosMod-th byte

\* o = the abstract object; file = Encode(o) and view = Read(file) are kept in the state so that TLC
\* computes them once per state
VARIABLES o, file, view
vars == <<o, file, view>>

\* ------------------------------------------------------------- encoder ----
B(w, n, be) == Mk([k \in 1..n |-> IF be THEN Limb(w, n + 1 - k) ELSE Limb(w, k)])   \* word -> n file bytes
NB(v, n, be) == B(WFromNat(v, 8), n, be)
RECURSIVE SumLen(_, _)
SumLen(NS, k) == IF k = 0 THEN 0 ELSE Len(NS[k]) + 1 + SumLen(NS, k - 1)
StrOff(NS, k) == 1 + SumLen(NS, k - 1)                 \* offset of the k-th name in the table
RECURSIVE Flat(_, _)
Flat(NS, k) == IF k > Len(NS) THEN <<>> ELSE NS[k] \o <<0>> \o Flat(NS, k + 1)
StrTab(NS) == <<0>> \o Flat(NS, 1)
RECURSIVE Cat(_, _)
Cat(Q, k) == IF k > Len(Q) THEN <<>> ELSE Q[k] \o Cat(Q, k + 1)
Zeros(n) == Mk([k \in 1..n |-> 0])

NameSymtab == <<46, 115>>        \* ".s"
NameStrtab == <<46, 116>>        \* ".t"
RelaPrefix == <<46, 114>>        \* ".r"
SegAlign == 4

\* sections that have at least one relocation, ascending
RelTargets(x) == SelectSeq(Mk([k \in 1..Len(x.secs) |-> k]),
                           LAMBDA k : \E r \in 1..Len(x.rels) : x.rels[r].target = k)
RelsFor(x, t) == SelectSeq(x.rels, LAMBDA r : r.target = t)

\* data offsets of the segments: each at the first position >= pos congruent to its vaddr mod SegAlign
RECURSIVE SegOffs(_, _, _)
SegOffs(x, k, pos) ==
    IF k > Len(x.segs) THEN <<>>
    ELSE LET pad == (ModPow2(x.segs[k].vaddr, SegAlign) + SegAlign - (pos % SegAlign)) % SegAlign
         IN <<pos + pad>> \o SegOffs(x, k + 1, pos + pad + Len(x.segs[k].data))
RECURSIVE Starts(_, _, _)
Starts(lens, k, pos) == IF k > Len(lens) THEN <<>> ELSE <<pos>> \o Starts(lens, k + 1, pos + lens[k])

Layout(x) ==
    LET c64 == x.c64
        nsec == Len(x.secs)  nseg == Len(x.segs)  nsym == Len(x.syms)
        RT == RelTargets(x)
        p0 == EhdrSize(c64) + nseg * PhdrSize(c64)
        segoff == SegOffs(x, 1, p0)
        p1 == IF nseg = 0 THEN p0 ELSE segoff[nseg] + Len(x.segs[nseg].data)
        secoff == Starts(Mk([k \in 1..nsec |-> Len(x.secs[k].data)]), 1, p1)
        p2 == IF nsec = 0 THEN p1 ELSE secoff[nsec] + Len(x.secs[nsec].data)
        symoff == p2
        p3 == p2 + (nsym + 1) * SymSize(c64)
        relaoff == Starts(Mk([j \in 1..Len(RT) |-> Len(RelsFor(x, RT[j])) * RelaSize(c64)]), 1, p3)
        p4 == IF Len(RT) = 0 THEN p3 ELSE relaoff[Len(RT)] + Len(RelsFor(x, RT[Len(RT)])) * RelaSize(c64)
        NS == Mk([k \in 1..nsec |-> x.secs[k].name]) \o <<NameSymtab>>
              \o Mk([j \in 1..Len(RT) |-> RelaPrefix \o x.secs[RT[j]].name]) \o <<NameStrtab>>
              \o Mk([k \in 1..nsym |-> x.syms[k].name])
        strtab == StrTab(NS)
    IN [RT |-> RT, segoff |-> segoff, secoff |-> secoff, symoff |-> symoff, relaoff |-> relaoff,
        stroff |-> p4, strtab |-> strtab, NS |-> NS, shoff |-> p4 + Len(strtab),
        symidx |-> nsec + 1, stridx |-> nsec + 2 + Len(RT), shnum |-> nsec + 3 + Len(RT)]

FirstGlobal(x) == Cardinality({k \in 1..Len(x.syms) : x.syms[k].bind = STB_LOCAL}) + 1

Encode(x) ==
    LET c64 == x.c64  be == x.be
        L == Layout(x)
        nsec == Len(x.secs)  nseg == Len(x.segs)  nsym == Len(x.syms)
        W(w, n32, n64) == B(w, IF c64 THEN n64 ELSE n32, be)          \* class dependent width
        V(v, n32, n64) == NB(v, IF c64 THEN n64 ELSE n32, be)
        ehdr == <<127, 69, 76, 70, IF c64 THEN 2 ELSE 1, IF be THEN 2 ELSE 1, 1, 0, 0, 0, 0, 0, 0, 0, 0, 0>>
                \o NB(x.etype, 2, be) \o NB(x.machine, 2, be) \o NB(1, 4, be) \o W(x.entry, 4, 8)
                \o V(IF nseg = 0 THEN 0 ELSE EhdrSize(c64), 4, 8) \o V(L.shoff, 4, 8) \o NB(0, 4, be)
                \o NB(EhdrSize(c64), 2, be) \o NB(IF nseg = 0 THEN 0 ELSE PhdrSize(c64), 2, be) \o NB(nseg, 2, be)
                \o NB(ShdrSize(c64), 2, be) \o NB(L.shnum, 2, be) \o NB(L.stridx, 2, be)
        phdr(k) == LET g == x.segs[k]  sz == Len(g.data) IN
                   IF c64 THEN NB(PT_LOAD, 4, be) \o NB(g.flags, 4, be) \o NB(L.segoff[k], 8, be) \o B(g.vaddr, 8, be)
                               \o B(g.vaddr, 8, be) \o NB(sz, 8, be) \o NB(sz, 8, be) \o NB(SegAlign, 8, be)
                   ELSE NB(PT_LOAD, 4, be) \o NB(L.segoff[k], 4, be) \o B(g.vaddr, 4, be) \o B(g.vaddr, 4, be)
                        \o NB(sz, 4, be) \o NB(sz, 4, be) \o NB(g.flags, 4, be) \o NB(SegAlign, 4, be)
        shdr(nm, ty, fl, addr, off, sz, lk, inf, al, es) ==
                   NB(nm, 4, be) \o NB(ty, 4, be) \o V(fl, 4, 8) \o W(addr, 4, 8) \o V(off, 4, 8) \o V(sz, 4, 8)
                   \o NB(lk, 4, be) \o NB(inf, 4, be) \o V(al, 4, 8) \o V(es, 4, 8)
        sym(y, nmoff) == IF c64 THEN NB(nmoff, 4, be) \o <<y.bind * 16 + y.typ, 0>> \o NB(y.shndx, 2, be)
                                     \o B(y.value, 8, be) \o B(y.size, 8, be)
                         ELSE NB(nmoff, 4, be) \o B(y.value, 4, be) \o B(y.size, 4, be)
                              \o <<y.bind * 16 + y.typ, 0>> \o NB(y.shndx, 2, be)
        rela(r) == IF c64 THEN B(r.off, 8, be) \o B(WFromNat(r.rtype, 4) \o WFromNat(r.sym, 4), 8, be) \o B(r.add, 8, be)
                   ELSE B(r.off, 4, be) \o B(<<r.rtype>> \o WFromNat(r.sym, 3), 4, be) \o B(r.add, 4, be)
        nRT == Len(L.RT)
        \* pieces in file order; segment data carry their padding in front
        segpiece(k) == LET prev == IF k = 1 THEN EhdrSize(c64) + nseg * PhdrSize(c64)
                                   ELSE L.segoff[k - 1] + Len(x.segs[k - 1].data)
                       IN Zeros(L.segoff[k] - prev) \o x.segs[k].data
        body == ehdr
                \o Cat(Mk([k \in 1..nseg |-> phdr(k)]), 1)
                \o Cat(Mk([k \in 1..nseg |-> segpiece(k)]), 1)
                \o Cat(Mk([k \in 1..nsec |-> x.secs[k].data]), 1)
                \o Zeros(SymSize(c64))
                \o Cat(Mk([k \in 1..nsym |-> sym(x.syms[k], StrOff(L.NS, nsec + 2 + nRT + k))]), 1)
                \o Cat(Mk([j \in 1..nRT |-> Cat(Mk([q \in 1..Len(RelsFor(x, L.RT[j])) |-> rela(RelsFor(x, L.RT[j])[q])]), 1)]), 1)
                \o L.strtab
        shdrs == Zeros(ShdrSize(c64))
                 \o Cat(Mk([k \in 1..nsec |-> shdr(StrOff(L.NS, k), SHT_PROGBITS, 2, x.secs[k].addr, L.secoff[k],
                                                   Len(x.secs[k].data), 0, 0, x.secs[k].align, 0)]), 1)
                 \o shdr(StrOff(L.NS, nsec + 1), SHT_SYMTAB, 0, WZero(8), L.symoff, (nsym + 1) * SymSize(c64),
                         L.stridx, FirstGlobal(x), 1, SymSize(c64))
                 \o Cat(Mk([j \in 1..nRT |-> shdr(StrOff(L.NS, nsec + 1 + j), SHT_RELA, 64, WZero(8), L.relaoff[j],
                                                  Len(RelsFor(x, L.RT[j])) * RelaSize(c64), L.symidx, L.RT[j], 1,
                                                  RelaSize(c64))]), 1)
                 \o shdr(StrOff(L.NS, nsec + 2 + nRT), SHT_STRTAB, 0, WZero(8), L.stroff, Len(L.strtab), 0, 0, 1, 0)
    IN body \o shdrs

\* ------------------------------------------------------ object domains ----
\* Small domains; variety comes from giving each index its own choices rather than from products.
Big(c64) == IF c64 THEN <<5, 0, 0, 0, 1, 0, 0, 128>> ELSE <<252, 255, 255, 255, 0, 0, 0, 0>>
SecNames == <<(<<97>>), (<<98, 99>>)>>
SymNames == <<(<<120>>), (<<121, 122>>)>>
SecChoices(k, et, c64) ==
    IF k = 1 THEN {[data |-> d, addr |-> a] : d \in IF Lite THEN {<<1, 2, 3>>} ELSE {<<1, 2, 3>>, <<>>},
                                              a \in IF et = ET_REL THEN {WZero(8)}
                                                    ELSE IF Lite THEN {Big(c64)} ELSE {N8(4096), Big(c64)}}
    ELSE {[data |-> <<7>>, addr |-> IF et = ET_REL THEN WZero(8) ELSE N8(8197)]}

Init0 == \E c64 \in BOOLEAN, be \in BOOLEAN, et \in {ET_REL, ET_EXEC} :
          o = [c64 |-> c64, be |-> be, etype |-> et, machine |-> IF c64 THEN EM_X86_64 ELSE EM_ARM,
               entry |-> WZero(8), secs |-> <<>>, syms |-> <<>>, rels |-> <<>>, segs |-> <<>>]

AddSection == /\ Len(o.secs) < MaxSecs /\ o.syms = <<>> /\ o.rels = <<>> /\ o.segs = <<>>
              /\ \E c \in SecChoices(Len(o.secs) + 1, o.etype, o.c64) :
                   o' = [o EXCEPT !.secs = Append(@, [name |-> SecNames[Len(o.secs) + 1], addr |-> c.addr,
                                                      data |-> c.data,
                                                      align |-> IF ModPow2(c.addr, 4) = 0 THEN 4 ELSE 1])]
\* a segment with data of its own, or one that holds section k at the section's address
AddSegment == /\ Len(o.segs) < MaxSegs /\ o.etype = ET_EXEC /\ o.syms = <<>>
              /\ \/ \E c \in {[d |-> <<9, 8>>, a |-> N8(12288), fl |-> 5], [d |-> <<>>, a |-> N8(20481), fl |-> 6]} :
                      /\ \A k \in 1..Len(o.segs) : o.segs[k].vaddr # c.a
                      /\ o' = [o EXCEPT !.segs = Append(@, [vaddr |-> c.a, data |-> c.d, flags |-> c.fl])]
                 \/ \E k \in 1..Len(o.secs) :
                      /\ \A j \in 1..Len(o.segs) : o.segs[j].vaddr # o.secs[k].addr
                      /\ o' = [o EXCEPT !.segs = Append(@, [vaddr |-> o.secs[k].addr,
                                                            data |-> o.secs[k].data \o <<0>>, flags |-> 5])]
\* locals first: a local symbol can be added only while there is no global one
AddSymbol == /\ Len(o.syms) < MaxSyms /\ o.rels = <<>> /\ WIsZero(o.entry)
             /\ \E b \in {STB_LOCAL, STB_GLOBAL}, t \in {STT_NOTYPE, STT_FUNC},
                  sx \in (0..Len(o.secs)) \cup {SHN_ABS} :
                   /\ (b = STB_LOCAL => \A k \in 1..Len(o.syms) : o.syms[k].bind = STB_LOCAL)
                   /\ (sx = 0 => b = STB_GLOBAL /\ t = STT_NOTYPE)
                   /\ (sx = SHN_ABS => t = STT_NOTYPE)
                   /\ LET v == IF t = STT_FUNC THEN N8(2) ELSE IF sx = SHN_ABS THEN N8(77) ELSE WZero(8) IN
                      o' = [o EXCEPT !.syms = Append(@,
                        [name |-> SymNames[Len(o.syms) + 1], bind |-> b, typ |-> t, shndx |-> sx,
                         value |-> IF sx \in 1..Len(o.secs) /\ o.etype = ET_EXEC
                                   THEN WAdd(v, o.secs[sx].addr) ELSE v,
                         size |-> IF t = STT_FUNC THEN N8(4) ELSE WZero(8)])]
AddRela == /\ Len(o.rels) < MaxRels /\ o.etype = ET_REL /\ o.syms # <<>>
           /\ \E t \in 1..Len(o.secs), y \in 1..Len(o.syms),
                c \in {[ty |-> 1, a |-> WZero(8)], [ty |-> 2, a |-> WOnes(8)],
                       [ty |-> 10, a |-> IF o.c64 THEN <<0, 0, 0, 0, 0, 0, 0, 128>> ELSE <<0, 0, 0, 128, 255, 255, 255, 255>>]} :
                /\ Len(o.secs[t].data) > 0
                /\ \E off \in {0, Len(o.secs[t].data) - 1} :
                     o' = [o EXCEPT !.rels = Append(@, [target |-> t, off |-> N8(off), rtype |-> c.ty, sym |-> y, add |-> c.a])]
SetEntry == /\ o.etype = ET_EXEC /\ WIsZero(o.entry) /\ o.syms # <<>>
            /\ \E y \in 1..Len(o.syms) : /\ o.syms[y].shndx # 0 /\ ~WIsZero(o.syms[y].value)
                                         /\ \A z \in 1..Len(o.syms) : o.syms[z].value = o.syms[y].value => z = y
                                         /\ o' = [o EXCEPT !.entry = o.syms[y].value]
\* the action's name is printed once per generated transition: the engine counts them (per-action coverage)
Derived(a) == file' = Encode(o') /\ view' = Read(file') /\ PrintT(<<"ACT", a>>)
Init == Init0 /\ file = Encode(o) /\ view = Read(file)
Next == \/ AddSection /\ Derived("AddSection")
        \/ AddSymbol /\ Derived("AddSymbol")
        \/ AddRela /\ Derived("AddRela")
        \/ AddSegment /\ Derived("AddSegment")
        \/ SetEntry /\ Derived("SetEntry")

\* ---------------------------------------------------------------- laws ----
F0 == file
V0 == view

RoundTrip ==
    LET V == V0  L == Layout(o)  nsec == Len(o.secs) IN
    /\ V.h.ok /\ V.h.c64 = o.c64 /\ V.h.be = o.be /\ V.h.type = o.etype /\ V.h.machine = o.machine
    /\ V.h.entry = o.entry /\ V.h.shnum = L.shnum /\ V.h.phnum = Len(o.segs)
    /\ Len(V.secs) = L.shnum
    /\ \A k \in 1..nsec : LET s == V.secs[k + 1] IN
          s.name = [ok |-> TRUE, s |-> o.secs[k].name] /\ s.type = SHT_PROGBITS /\ s.addr = o.secs[k].addr
          /\ s.data = o.secs[k].data /\ s.size = Len(o.secs[k].data) /\ s.align = o.secs[k].align
    /\ V.symtab = L.symidx
    /\ Len(V.syms) = Len(o.syms) + 1
    /\ \A k \in 1..Len(o.syms) : LET y == V.syms[k + 1] IN
          y.name = [ok |-> TRUE, s |-> o.syms[k].name] /\ y.value = o.syms[k].value /\ y.size = o.syms[k].size
          /\ y.bind = o.syms[k].bind /\ y.typ = o.syms[k].typ /\ y.shndx = o.syms[k].shndx
    /\ Len(V.relas) = Len(o.rels)
    /\ SameBag(Mk([k \in 1..Len(V.relas) |-> [target |-> V.relas[k].target, off |-> V.relas[k].off,
                                              rtype |-> V.relas[k].rtype, sym |-> V.relas[k].sym,
                                              add |-> V.relas[k].add]]), o.rels)
    /\ Len(V.segs) = Len(o.segs)
    /\ \A k \in 1..Len(o.segs) : LET g == V.segs[k] IN
          g.type = PT_LOAD /\ g.vaddr = o.segs[k].vaddr /\ g.filesz = Len(o.segs[k].data)
          /\ g.flags = o.segs[k].flags /\ SubSeq(F0, g.off + 1, g.off + g.filesz) = o.segs[k].data

WellFormed == WF(F0, V0) = {}

\* the object in the shape of harness/project_obj.py
Wide(w) == [b |-> w]
Lift(x) ==
    [sections |-> Mk([k \in 1..Len(x.secs) |-> [name |-> x.secs[k].name, address |-> Wide(x.secs[k].addr),
                                                 data |-> x.secs[k].data]]),
     symbols |-> Mk([k \in 1..Len(x.syms) |->
                   LET y == x.syms[k]  insec == y.shndx \in 1..Len(x.secs) IN
                   [id |-> 10 + k, name |-> y.name, binding |-> IF y.bind = STB_GLOBAL THEN "global" ELSE "local",
                    def |-> y.shndx # 0, hassec |-> insec, sec |-> IF insec THEN x.secs[y.shndx].name ELSE <<>>,
                    value |-> Wide(IF insec /\ x.etype = ET_EXEC THEN WSub(y.value, x.secs[y.shndx].addr) ELSE y.value),
                    typ |-> IF y.typ = STT_FUNC THEN "func" ELSE "", size |-> WToNat(y.size)]]),
     relocations |-> Mk([k \in 1..Len(x.rels) |->
                   LET r == x.rels[k] IN
                   [type |-> IF r.rtype = 1 THEN "abs64" ELSE IF r.rtype = 2 THEN "rel32" ELSE "abs32",
                    sym |-> 10 + r.sym, sec |-> x.secs[r.target].name, off |-> WToNat(r.off), add |-> Wide(r.add)]]),
     \* an image = a segment; the sections lying completely inside it
     images |-> Mk([k \in 1..Len(x.segs) |->
                   [address |-> Wide(x.segs[k].vaddr),
                    secs |-> LET held == SelectSeq(x.secs, LAMBDA c : c.addr = x.segs[k].vaddr
                                                              /\ Len(c.data) <= Len(x.segs[k].data)
                                                              /\ SubSeq(x.segs[k].data, 1, Len(c.data)) = c.data)
                             IN Mk([q \in 1..Len(held) |-> held[q].name])]]),
     entry |-> IF WIsZero(x.entry) THEN -1
               ELSE 10 + (CHOOSE y \in 1..Len(x.syms) : x.syms[y].shndx # 0 /\ x.syms[y].value = x.entry)]

Seen ==
    LET O == Lift(o) IN
    /\ SectionsSeen(V0, O)
    /\ SymbolsSeen(V0, O, o.etype)
    /\ (o.c64 => RelocationsSeen(V0, O, "x86_64"))
    /\ (o.rels # <<>> => ~RelocationsSeen(V0, O, "arm"))          \* no ELF numbering known: nothing is accepted
    /\ EntrySeen(V0, O)
    /\ SegmentsHold(F0, V0, O)
    /\ KindSeen(V0, IF o.c64 THEN "x86_64" ELSE "arm", o.etype) = ~o.be

\* positions (0-based) of the bytes of the structures the reader interprets; e_ident pad bytes 9..15 and
\* EI_OSABI..: interpreted as osabi / abiversion (7, 8); pad is the only thing not looked at
Structural(x) ==
    LET L == Layout(x)  c64 == x.c64 IN
    ((0..(EhdrSize(c64) + Len(x.segs) * PhdrSize(c64) - 1)) \ (9..15))
    \cup (L.symoff..(L.symoff + (Len(x.syms) + 1) * SymSize(c64) - 1))
    \cup (IF Len(L.RT) = 0 THEN {} ELSE L.relaoff[1]..(L.stroff - 1))
    \cup (L.shoff..(L.shoff + L.shnum * ShdrSize(c64) - 1))
Flip(F, p) == [F EXCEPT ![p + 1] = (@ + 1) % 256]
Sampled == Len(file) % Sample = 0
Tamper == Sampled => \A p \in Structural(o) : (p + Len(file)) % PosMod = 0 => Read(Flip(F0, p)) # V0

\* named damages and the clause that must notice them
Set(F, p, v) == [F EXCEPT ![p + 1] = v]
Damage == Sampled =>
    LET L == Layout(o)  c64 == o.c64
        bad(F) == WF(F, Read(F))
        lo(n) == IF o.be THEN n - 1 ELSE 0         \* position of the least significant byte of an n-byte field
    IN /\ "Magic" \in bad(Set(F0, 1, 70))
       /\ "Ident" \in bad(Set(F0, 4, 3))
       /\ "Ident" \in bad(Set(F0, 5, 0))
       /\ "IdentVersion" \in bad(Set(F0, 6, 0))
       /\ "Ident" \in bad(SubSeq(F0, 1, 20))
       /\ "ShTable" \in bad(SubSeq(F0, 1, Len(F0) - 1))                 \* truncated file
       /\ "EhSize" \in bad(Flip(F0, (IF c64 THEN 52 ELSE 40) + lo(2)))
       /\ "ShStrNdx" \in bad(Set(F0, (IF c64 THEN 62 ELSE 50) + lo(2), L.symidx))
       \* sh_info of the symbol table one too large / too small
       /\ LET p == L.shoff + L.symidx * ShdrSize(c64) + (IF c64 THEN 44 ELSE 28) + lo(4) IN
          /\ (FirstGlobal(o) <= Len(o.syms) + 1 /\ \E k \in 1..Len(o.syms) : o.syms[k].bind # STB_LOCAL)
               => "SymLocals" \in bad(Set(F0, p, FirstGlobal(o) + 1))
          /\ (FirstGlobal(o) > 1) => "SymLocals" \in bad(Set(F0, p, FirstGlobal(o) - 1))
       \* sh_link of the symbol table not a string table
       /\ "SymTab" \in bad(Set(F0, L.shoff + L.symidx * ShdrSize(c64) + (IF c64 THEN 40 ELSE 24) + lo(4), L.symidx))
       \* section offset beyond the file
       /\ Len(o.secs) > 0 => "SecInFile" \in bad(Set(F0, L.shoff + ShdrSize(c64) + (IF c64 THEN 24 ELSE 16) + (IF o.be THEN (IF c64 THEN 5 ELSE 1) ELSE 2), 1))
       \* segment: vaddr no longer congruent to the offset
       /\ Len(o.segs) > 0 => "SegCongruent" \in bad(Flip(F0, EhdrSize(c64) + (IF c64 THEN 16 ELSE 8) + lo(IF c64 THEN 8 ELSE 4)))
       \* relocation against a symbol index outside the table
       /\ Len(o.rels) > 0 => "RelaSyms" \in bad(Set(F0, L.relaoff[1] + (IF c64 THEN (IF o.be THEN 11 ELSE 12) ELSE (IF o.be THEN 6 ELSE 5)), 200))
=============================================================================
