------------------------------- MODULE CConst -------------------------------
(* C integer constant expressions, written from ISO C (C99/C11) 6.4.4.1      *)
(* (integer constants), 6.4.4.4 (character constants), 6.3.1.1 (integer      *)
(* promotions), 6.3.1.3 (conversions), 6.3.1.8 (usual arithmetic             *)
(* conversions), 6.5.3 - 6.5.15 (operators), 6.6 (constant expressions),     *)
(* 6.7.2.2 (enumerators), 6.8.4.2 (case labels), 6.7.2.1 (bit-field widths)  *)
(* and 6.7.9 (initialisation converts as by assignment).                     *)
(*                                                                           *)
(* Nothing here is derived from ppci.  An expression is a JSON tree          *)
(*   [k |-> "lit",  base : 8|10|16, suf : ""|"u"|"l"|"ul"|"ll"|"ull", mag : 8-byte word] *)
(*   [k |-> "chr",  c : 0..127]            [k |-> "enum", idx]               *)
(*   [k |-> "un",   op : "pos"|"neg"|"inv"|"not", a]                         *)
(*   [k |-> "bin",  op : add sub mul div mod shl shr and or xor              *)
(*                       lt le gt ge eq ne land lor, a, b]                   *)
(*   [k |-> "cond", c, a, b]   [k |-> "cast", t, a]                          *)
(*   [k |-> "sizeof", t]       [k |-> "sizeofe", a]                          *)
(* A value is a type name and a little-endian byte-limb word (Words.tla) of  *)
(* the size the data model gives that type.  The data model is a record      *)
(*   dm = [sb, ib, lb, llb : bytes of short/int/long/long long,              *)
(*         pb : bytes of a pointer (size_t is the unsigned type of that      *)
(*         size), cs : plain char is signed, be : big-endian images]         *)
(* so that the same text is model-checked on toy widths (CConst_MC) and      *)
(* applied to ppci's targets (CConst_Eval).                                  *)
(*                                                                           *)
(* Every evaluation yields a status:                                         *)
(*   "ok"         value defined by the standard (given the data model)       *)
(*   "undefined"  the standard gives no meaning (division by zero, signed    *)
(*                overflow, shift count out of range, ...)                   *)
(*   "skip"       a constraint is violated / no standard type exists; the    *)
(*                program is not a valid input for the property              *)
(* and a set of notes `fl` naming the non-trivial rules that were exercised  *)
(* (used for evidence and for identifying the class of a failing input).     *)
(* Conversions to a signed type that cannot hold the value are               *)
(* implementation-defined (6.3.1.3p3); the specification follows the two's   *)
(* complement wrap that gcc (the property's reference) documents and that    *)
(* ppci's run-time casts implement, and notes "castS" / "destS" there.       *)
EXTENDS Words, FiniteSets, TLC

(* ---- types and the data model -------------------------------------------- *)
SRank == <<"schar", "short", "int", "long", "llong">>
URank == <<"uchar", "ushort", "uint", "ulong", "ullong">>
IntTypes == {"char"} \cup {SRank[r] : r \in 1..5} \cup {URank[r] : r \in 1..5}
Rank(t) == CASE t \in {"char", "schar", "uchar"} -> 1 [] t \in {"short", "ushort"} -> 2 [] t \in {"int", "uint"} -> 3
            [] t \in {"long", "ulong"} -> 4 [] t \in {"llong", "ullong"} -> 5
\* whether plain char is signed is implementation-defined (6.2.5p15): part of the data model
IsSigned(t, dm) == IF t = "char" THEN dm.cs ELSE t \in {"schar", "short", "int", "long", "llong"}
SizeR(r, dm) == <<1, dm.sb, dm.ib, dm.lb, dm.llb>>[r]
Size(t, dm) == SizeR(Rank(t), dm)
\* size_t: "the unsigned integer type of the result of sizeof" - the unsigned type as wide as a pointer
SizeT(dm) == IF dm.pb = dm.ib THEN "uint" ELSE IF dm.pb = dm.lb THEN "ulong"
             ELSE IF dm.pb = dm.llb THEN "ullong" ELSE "ushort"

(* ---- results ---------------------------------------------------------------- *)
Ok(t, w, fl)  == [st |-> "ok", t |-> t, w |-> w, fl |-> fl, why |-> ""]
Undef(why)    == [st |-> "undefined", t |-> "", w |-> <<>>, fl |-> {}, why |-> why]
Skip(why)     == [st |-> "skip", t |-> "", w |-> <<>>, fl |-> {}, why |-> why]
IsOk(r) == r.st = "ok"

(* ---- conversions (6.3.1.3) ---------------------------------------------------- *)
WideB == 9                         \* 72 bits hold every value of every type exactly, as a signed word
Wide(t, w, dm) == WResize(w, WideB, IsSigned(t, dm))
\* value-preserving where possible, modulo 2^n for unsigned targets, two's complement wrap otherwise
ConvTo(t, w, t2, dm) == WResize(w, Size(t2, dm), IsSigned(t, dm))
Repr(t, w, t2, dm) == Wide(t2, ConvTo(t, w, t2, dm), dm) = Wide(t, w, dm)
Convert(r, t2, dm, noteU, noteS) ==
    IF ~IsOk(r) THEN r
    ELSE Ok(t2, ConvTo(r.t, r.w, t2, dm),
            r.fl \cup (IF Repr(r.t, r.w, t2, dm) THEN {} ELSE IF IsSigned(t2, dm) THEN {noteS} ELSE {noteU}))

(* ---- integer promotions (6.3.1.1p2) and usual arithmetic conversions (6.3.1.8) *)
IntHoldsAll(t, dm) == IF IsSigned(t, dm) THEN Size(t, dm) <= dm.ib ELSE Size(t, dm) < dm.ib
PromoT(t, dm) == IF Rank(t) >= 3 THEN t ELSE IF IntHoldsAll(t, dm) THEN "int" ELSE "uint"
UAC(t1, t2, dm) ==
    LET p1 == PromoT(t1, dm)  p2 == PromoT(t2, dm) IN
    IF p1 = p2 THEN p1
    ELSE IF IsSigned(p1, dm) = IsSigned(p2, dm) THEN (IF Rank(p1) >= Rank(p2) THEN p1 ELSE p2)
    ELSE LET u == IF IsSigned(p1, dm) THEN p2 ELSE p1
             s == IF IsSigned(p1, dm) THEN p1 ELSE p2 IN
         IF Rank(u) >= Rank(s) THEN u
         ELSE IF Size(s, dm) > Size(u, dm) THEN s       \* s represents every value of u
         ELSE URank[Rank(s)]
PromoNote(t, dm) == IF PromoT(t, dm) # t THEN {"promote"} ELSE {}

IntW(n, dm) == WFromNat(n, dm.ib)
Truth(b, dm) == IntW(IF b THEN 1 ELSE 0, dm)
\* r, computed exactly in Len(r) > n bytes, is representable in n bytes of signedness s
Exact(r, n, s) == WResize(WResize(r, n, s), Len(r), s) = r

(* ---- integer constants (6.4.4.1p5) ------------------------------------------- *)
LitCands(dec, suf) ==
    CASE suf = ""    -> IF dec THEN <<"int", "long", "llong">>
                        ELSE <<"int", "uint", "long", "ulong", "llong", "ullong">>
      [] suf = "u"   -> <<"uint", "ulong", "ullong">>
      [] suf = "l"   -> IF dec THEN <<"long", "llong">> ELSE <<"long", "ulong", "llong", "ullong">>
      [] suf = "ul"  -> <<"ulong", "ullong">>
      [] suf = "ll"  -> IF dec THEN <<"llong">> ELSE <<"llong", "ullong">>
      [] suf = "ull" -> <<"ullong">>
MagFits(mag, t, dm) == LET n == Size(t, dm) IN
    /\ \A j \in (n + 1)..Len(mag) : mag[j] = 0
    /\ IsSigned(t, dm) => mag[n] < 128
EvalLit(e, dm) ==
    LET dec == e.base = 10
        cs == LitCands(dec, e.suf)
        fit == {j \in 1..Len(cs) : MagFits(e.mag, cs[j], dm)} IN
    IF fit = {} THEN Skip("integer constant has no standard type")
    ELSE LET j == CHOOSE x \in fit : \A y \in fit : x <= y
             t == cs[j]
             \* the same digits written in hexadecimal would have got an unsigned type earlier in the list
             hx == LitCands(FALSE, e.suf)
             hfit == {x \in 1..Len(hx) : MagFits(e.mag, hx[x], dm)}
             ht == hx[CHOOSE x \in hfit : \A y \in hfit : x <= y] IN
         Ok(t, WResize(e.mag, Size(t, dm), FALSE),
            (IF j > 1 THEN {"lit-wider-type"} ELSE {}) \cup (IF dec /\ ht # t THEN {"lit-dec-not-unsigned"} ELSE {}))

(* ---- unary operators (6.5.3.3) -------------------------------------------------- *)
EvalUn(op, a, dm) ==
    IF ~IsOk(a) THEN a
    ELSE IF op = "not" THEN Ok("int", Truth(WIsZero(a.w), dm), a.fl)
    ELSE LET p == PromoT(a.t, dm)
             x == ConvTo(a.t, a.w, p, dm)
             fl == a.fl \cup PromoNote(a.t, dm) IN
         CASE op = "pos" -> Ok(p, x, fl)
           [] op = "inv" -> Ok(p, WNot(x), fl \cup (IF IsSigned(p, dm) THEN {} ELSE {"inv-unsigned"}))
           [] op = "neg" -> IF IsSigned(p, dm)
                            THEN IF WIsMin(x) THEN Undef("signed overflow in unary -") ELSE Ok(p, WNeg(x), fl)
                            ELSE Ok(p, WNeg(x), fl \cup (IF WIsZero(x) THEN {} ELSE {"uwrap"}))

(* ---- shifts (6.5.7) ------------------------------------------------------------------ *)
EvalShift(op, a, b, dm) ==
    LET pa == PromoT(a.t, dm)  pb == PromoT(b.t, dm)
        x == ConvTo(a.t, a.w, pa, dm)
        c == ConvTo(b.t, b.w, pb, dm)
        width == 8 * Size(pa, dm)
        fl == a.fl \cup b.fl \cup PromoNote(a.t, dm) \cup PromoNote(b.t, dm)
                   \cup (IF pa # pb THEN {"shift-types-differ"} ELSE {})
        small == (\A j \in 2..Len(c) : c[j] = 0) /\ c[1] < width IN
    IF (IsSigned(pb, dm) /\ IsNegW(c)) \/ ~small THEN Undef("shift count negative or not less than the width")
    ELSE LET n == c[1] IN
         IF op = "shl"
         THEN LET r == WShl(x, n) IN
              IF IsSigned(pa, dm)
              THEN IF IsNegW(x) THEN Undef("left shift of a negative value")
                   ELSE IF IsNegW(r) \/ WShrL(r, n) # x THEN Undef("left shift result not representable")
                   ELSE Ok(pa, r, fl)
              ELSE Ok(pa, r, fl \cup (IF WShrL(r, n) # x THEN {"uwrap"} ELSE {}))
         ELSE IF IsSigned(pa, dm) /\ IsNegW(x)
              THEN Ok(pa, WShrA(x, n), fl \cup {"impl-shr-negative"})     \* 6.5.7p5: implementation-defined
              ELSE Ok(pa, WShrL(x, n), fl)

(* ---- binary operators (6.5.5 - 6.5.14) ----------------------------------------------- *)
ArithOps == {"add", "sub", "mul", "div", "mod", "and", "or", "xor"}
RelOps == {"lt", "le", "gt", "ge", "eq", "ne"}
EvalBin(op, a, b, dm) ==
    IF ~IsOk(a) THEN a ELSE IF ~IsOk(b) THEN b
    ELSE IF op \in {"shl", "shr"} THEN EvalShift(op, a, b, dm)
    ELSE IF op = "land" THEN Ok("int", Truth(~WIsZero(a.w) /\ ~WIsZero(b.w), dm), a.fl \cup b.fl)
    ELSE IF op = "lor" THEN Ok("int", Truth(~WIsZero(a.w) \/ ~WIsZero(b.w), dm), a.fl \cup b.fl)
    ELSE LET t == UAC(a.t, b.t, dm)
             s == IsSigned(t, dm)
             n == Size(t, dm)
             x == ConvTo(a.t, a.w, t, dm)
             y == ConvTo(b.t, b.w, t, dm)
             pa == PromoT(a.t, dm)  pb == PromoT(b.t, dm)
             fl == a.fl \cup b.fl \cup PromoNote(a.t, dm) \cup PromoNote(b.t, dm)
                   \cup (IF IsSigned(pa, dm) # IsSigned(pb, dm) THEN {"uac-mixed-sign"} ELSE {})
                   \cup (IF pa # pb THEN {"uac-ranks-differ"} ELSE {})
                   \cup (IF ~Repr(a.t, a.w, t, dm) \/ ~Repr(b.t, b.w, t, dm) THEN {"uac-value-changed"} ELSE {})
             \* exact result in a wider word, then the range test
             Wrap(r) == IF Exact(r, n, s) THEN Ok(t, WResize(r, n, s), fl)
                        ELSE IF s THEN Undef("signed overflow in " \o op)
                        ELSE Ok(t, WResize(r, n, s), fl \cup {"uwrap"}) IN
         CASE op = "add" -> Wrap(WAdd(WResize(x, n + 1, s), WResize(y, n + 1, s)))
           [] op = "sub" -> Wrap(WSub(WResize(x, n + 1, s), WResize(y, n + 1, s)))
           [] op = "mul" -> Wrap(WMul(WResize(x, 2 * n, s), WResize(y, 2 * n, s)))
           [] op \in {"div", "mod"} ->
                IF WIsZero(y) THEN Undef("division by zero")
                ELSE IF s /\ WIsMin(x) /\ WIsMinusOne(y) THEN Undef("quotient not representable")
                ELSE LET q == WDiv(x, y, s)  r == WRem(x, y, s)
                         inexactneg == s /\ ~WIsZero(r) /\ (IsNegW(x) # IsNegW(y)) IN
                     IF op = "div" THEN Ok(t, q, fl \cup (IF inexactneg THEN {"trunc-div"} ELSE {}))
                     ELSE Ok(t, r, fl \cup (IF inexactneg THEN {"trunc-rem"} ELSE {}))
           [] op = "and" -> Ok(t, WAnd(x, y), fl)
           [] op = "or"  -> Ok(t, WOr(x, y), fl)
           [] op = "xor" -> Ok(t, WXor(x, y), fl)
           [] op = "lt"  -> Ok("int", Truth(WLt(x, y, s), dm), fl)
           [] op = "gt"  -> Ok("int", Truth(WLt(y, x, s), dm), fl)
           [] op = "le"  -> Ok("int", Truth(~WLt(y, x, s), dm), fl)
           [] op = "ge"  -> Ok("int", Truth(~WLt(x, y, s), dm), fl)
           [] op = "eq"  -> Ok("int", Truth(x = y, dm), fl)
           [] op = "ne"  -> Ok("int", Truth(x # y, dm), fl)

(* ---- conditional operator (6.5.15) --------------------------------------------------- *)
\* All three operands must be defined (an undefined operand, even unevaluated, makes the case
\* "undefined" here: conservative, nothing is demanded of such programs).
EvalCond(c, a, b, dm) ==
    IF ~IsOk(c) THEN c ELSE IF ~IsOk(a) THEN a ELSE IF ~IsOk(b) THEN b
    ELSE LET t == UAC(a.t, b.t, dm)
             pick == IF WIsZero(c.w) THEN b ELSE a
             fl == c.fl \cup a.fl \cup b.fl \cup PromoNote(a.t, dm) \cup PromoNote(b.t, dm)
                   \cup (IF ~Repr(c.t, c.w, "int", dm) THEN {"cond-wide-condition"} ELSE {})
                   \cup (IF PromoT(a.t, dm) # PromoT(b.t, dm) THEN {"uac-ranks-differ"} ELSE {})
                   \cup (IF ~Repr(pick.t, pick.w, t, dm) THEN {"uac-value-changed"} ELSE {}) IN
         Ok(t, ConvTo(pick.t, pick.w, t, dm), fl)

(* ---- the evaluator ---------------------------------------------------------------------- *)
\* env: results of the enumerators declared so far (type int)
RECURSIVE Eval(_, _, _)
Eval(e, env, dm) ==
    CASE e.k = "lit"  -> EvalLit(e, dm)
      [] e.k = "chr"  -> Ok("int", IntW(e.c, dm), {"char-constant"})            \* 6.4.4.4p10: type int
      [] e.k = "enum" -> IF e.idx > Len(env) THEN Skip("enumerator not declared")
                         ELSE IF IsOk(env[e.idx]) THEN Ok("int", env[e.idx].w, env[e.idx].fl \cup {"enumerator"})
                         ELSE env[e.idx]
      [] e.k = "sizeof"  -> Ok(SizeT(dm), WFromNat(Size(e.t, dm), Size(SizeT(dm), dm)), {"sizeof"})
      [] e.k = "sizeofe" -> LET a == Eval(e.a, env, dm) IN
                            IF ~IsOk(a) THEN a
                            ELSE Ok(SizeT(dm), WFromNat(Size(a.t, dm), Size(SizeT(dm), dm)), a.fl \cup {"sizeof-expr"})
      [] e.k = "cast" -> Convert(Eval(e.a, env, dm), e.t, dm, "castU", "castS")
      [] e.k = "un"   -> EvalUn(e.op, Eval(e.a, env, dm), dm)
      [] e.k = "bin"  -> EvalBin(e.op, Eval(e.a, env, dm), Eval(e.b, env, dm), dm)
      [] e.k = "cond" -> EvalCond(Eval(e.c, env, dm), Eval(e.a, env, dm), Eval(e.b, env, dm), dm)

(* ---- enumerators (6.7.2.2): type int, value representable as int ----------------------- *)
IntMax(dm) == Mk([j \in 1..dm.ib |-> IF j = dm.ib THEN 127 ELSE 255])
RECURSIVE EnumEnvR(_, _, _, _)
EnumEnvR(defs, k, acc, dm) ==
    IF k > Len(defs) THEN acc
    ELSE LET d == defs[k]
             r == IF d.has
                  THEN LET v == Eval(d.e, acc, dm) IN
                       IF ~IsOk(v) THEN v
                       ELSE IF Repr(v.t, v.w, "int", dm) THEN Ok("int", ConvTo(v.t, v.w, "int", dm), v.fl)
                       ELSE Skip("constraint: enumerator value not representable as int")
                  ELSE IF k = 1 THEN Ok("int", IntW(0, dm), {})
                  ELSE LET p == acc[k - 1] IN
                       IF ~IsOk(p) THEN p
                       ELSE IF p.w = IntMax(dm) THEN Skip("constraint: implicit enumerator value overflows int")
                       ELSE Ok("int", WAdd(p.w, WOne(dm.ib)), p.fl \cup {"enumerator-implicit"})
         IN EnumEnvR(defs, k + 1, Append(acc, r), dm)
EnumEnv(defs, dm) == EnumEnvR(defs, 1, <<>>, dm)

(* ---- uses of the value ------------------------------------------------------------------- *)
RevBytes(s) == Mk([j \in 1..Len(s) |-> s[Len(s) + 1 - j]])
Image(w, dm) == IF dm.be THEN RevBytes(w) ELSE w
\* expectation record, the same shape for every site
Exp(st, why, fl, bytes, amount, probes) ==
    [st |-> st, why |-> why, fl |-> fl, bytes |-> bytes, amount |-> amount, probes |-> probes]
NoExp(r) == Exp(r.st, r.why, r.fl, <<>>, 0, <<>>)

\* initialiser of an object of integer type `dest` (6.7.9p11: converted as by assignment)
ExpectInit(v, dest, dm) ==
    IF ~IsOk(v) THEN NoExp(v)
    ELSE LET c == Convert(v, dest, dm, "destU", "destS") IN
         Exp("ok", "", c.fl, Image(c.w, dm), 0, <<>>)

\* array bound (6.7.6.2p1: greater than zero); object size = bound * element size
MaxBound == 4096
ExpectBound(v, elem, dm) ==
    IF ~IsOk(v) THEN NoExp(v)
    ELSE LET wd == Wide(v.t, v.w, dm) IN
         IF IsNegW(wd) \/ WIsZero(wd) THEN NoExp(Skip("constraint: array bound not greater than zero"))
         ELSE IF (\E j \in 3..WideB : wd[j] # 0) \/ WToNat(wd) > MaxBound THEN NoExp(Skip("array bound outside the model"))
         ELSE Exp("ok", "", v.fl, <<>>, WToNat(wd) * Size(elem, dm), <<>>)

\* case label (6.8.4.2p5): converted to the promoted type of the controlling expression;
\* control reaches the label exactly when the converted selector equals it.
\* probes: selector words and the value the probe function returns (1 at the label, else 0)
ExpectCase(v, sel, dm) ==
    IF ~IsOk(v) THEN NoExp(v)
    ELSE LET ps == PromoT(sel, dm)
             c == Convert(v, ps, dm, "destU", "destS")
             n == Size(ps, dm)
             V == c.w
             xs == <<V, WAdd(V, WOne(n)), WSub(V, WOne(n)), WZero(n), WNot(V)>> IN
         Exp("ok", "", c.fl, <<>>, 0,
             Mk([j \in 1..Len(xs) |-> [x |-> xs[j], r |-> Truth(xs[j] = V, dm)]]))

\* bit-field width (6.7.2.1p4: non-negative, at most the width of the type; a named field needs > 0);
\* an unsigned bit-field of width W stores values modulo 2^W.  probes: stored word, word read back
ExpectWidth(v, ft, dm) ==
    IF ~IsOk(v) THEN NoExp(v)
    ELSE LET wd == Wide(v.t, v.w, dm)
             n == Size(ft, dm) IN
         IF IsNegW(wd) \/ WIsZero(wd) \/ (\E j \in 2..WideB : wd[j] # 0) \/ wd[1] > 8 * n
         THEN NoExp(Skip("constraint: bit-field width out of range"))
         ELSE LET W == wd[1]
                  mask == IF W = 8 * n THEN WOnes(n) ELSE WShrL(WOnes(n), 8 * n - W)
                  one == WOne(n)
                  xs == <<WOnes(n), WShl(one, W - 1), IF W < 8 * n THEN WShl(one, W) ELSE WZero(n),
                          Mk([j \in 1..n |-> 165])>> IN
              Exp("ok", "", v.fl \cup {"bitfield-width"}, <<>>, 0,
                  Mk([j \in 1..Len(xs) |-> [x |-> xs[j], r |-> WAnd(xs[j], mask)]]))

\* initialiser of a bit-field member (6.7.9p11: converted as by assignment to the type of the member; the type of
\* a bit-field of width W is an integer type of W bits, 6.7.2.1p10).  6.3.1.3: an unsigned bit-field receives the
\* value modulo 2^W; a signed one receives the value when -2^(W-1) <= value < 2^(W-1), otherwise the result is
\* implementation-defined and the specification gives no verdict on that member (note "bf-signed-open").
\* A plain `int` bit-field is taken as signed (implementation-defined, 6.7.2.1p5; ppci's and gcc's choice).
\* BfConvert -> [judged, w] : w = the member's value as the int / unsigned int word that reading the member yields
BfConvert(v, W, sgn, dm) ==
    LET n == dm.ib
        wd == Wide(v.t, v.w, dm)
        x == WResize(wd, n, TRUE)                    \* the low 8n bits (W <= 8n - 1)
        sh == 8 * n - W
        up == WShl(x, sh) IN
    IF sgn THEN LET sx == WShrA(up, sh) IN [judged |-> WResize(sx, WideB, TRUE) = wd, w |-> sx, changed |-> FALSE]
    ELSE LET zx == WShrL(up, sh) IN [judged |-> TRUE, w |-> zx, changed |-> WResize(zx, WideB, FALSE) # wd]
\* members: sequence of [w : width, s : signed, e : expression]; every member is initialised and read back by its
\* own function.  probes: x = <<member index>>, r = the word the reader of that member must return
RECURSIVE BfMembers(_, _, _, _, _)
BfMembers(ms, k, env, dm, acc) ==
    IF k > Len(ms) THEN acc
    ELSE LET v == Eval(ms[k].e, env, dm) IN
         IF ~IsOk(v) THEN NoExp(v)
         ELSE IF ms[k].w < 1 \/ ms[k].w > 8 * dm.ib - 1 THEN NoExp(Skip("bit-field width outside the model"))
         ELSE LET c == BfConvert(v, ms[k].w, ms[k].s, dm)
                  fl == acc.fl \cup v.fl \cup {"bitfield-init"}
                        \cup (IF c.changed THEN {"bfU"} ELSE {}) \cup (IF c.judged THEN {} ELSE {"bf-signed-open"}) IN
              BfMembers(ms, k + 1, env, dm,
                        Exp("ok", "", fl, <<>>, 0,
                            IF c.judged THEN Append(acc.probes, [x |-> <<k>>, r |-> c.w]) ELSE acc.probes))
ExpectBfInit(ms, env, dm) == BfMembers(ms, 1, env, dm, Exp("ok", "", {}, <<>>, 0, <<>>))

DataSites == {"init", "static", "lstatic", "element", "member", "enum"}
\* rec = [site, dm, dest, e, enums, members, ...]
Expect(rec) ==
    LET dm == rec.dm
        env == EnumEnv(rec.enums, dm)
        v == Eval(rec.e, env, dm) IN
    CASE rec.site \in DataSites -> ExpectInit(v, rec.dest, dm)
      [] rec.site = "array"     -> ExpectBound(v, rec.dest, dm)
      [] rec.site = "case"      -> ExpectCase(v, rec.dest, dm)
      [] rec.site = "bitfield"  -> ExpectWidth(v, rec.dest, dm)
      [] rec.site = "bfinit"    -> ExpectBfInit(rec.members, env, dm)
=============================================================================
