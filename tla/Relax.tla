------------------------------- MODULE Relax -------------------------------
(* Linker relaxation (property C13): ppci/binutils/linker.py do_relaxations / *)
(* _apply_relaxation_holes and the shrinkable relocation types of             *)
(* ppci/arch/riscv/rvc_relocations.py, over the object state of Linker.tla.   *)
(*                                                                            *)
(* The phase is one action  RelaxWith(K, addrs, ord):                         *)
(*   K      the relocations that are shrunk (4-byte `jal rd, sym` with a      *)
(*          cb_imm11 / cbl_imm11 relocation -> 2-byte c.j / c.jal, relocation *)
(*          rewritten to bc_imm11)                                            *)
(*   addrs  the address every section gets afterwards                         *)
(*   ord    where the rewritten relocation entries go in the relocation list  *)
(* The *mechanics* (hole list per section = the upper two bytes of every      *)
(* shrunk instruction, count_holes with its strict <, symbol and relocation   *)
(* offsets shifted, section bytes removed, first two bytes of the instruction *)
(* rewritten) are transcribed from _apply_relaxation_holes.  What the         *)
(* property leaves open are the parameters; ppci's choice of them is          *)
(*   DesignK      every relaxable relocation whose displacement S - P fits    *)
(*                the short form *at the pre-relaxation addresses*            *)
(*   DesignAddrs  per image a running delta: section.address -= delta        *)
(*   "append"     rewritten entries are removed and appended at the end       *)
(* FixedK / FixedAddrs is the repaired choice proposed with this property.    *)
(*                                                                            *)
(* The clauses of the property are invariants over the object before (ghost   *)
(* variable pre) and after the phase:                                         *)
(*   SymbolsKeepTarget  every symbol designates the provenance tag it         *)
(*                      designated before (or the end of its section)         *)
(*   RelocsKeepSite     every relocation entry still covers the same bytes,   *)
(*                      against the same symbol; only shrunk ones change type *)
(*   ContentKept        the bytes outside the holes are unchanged and in      *)
(*                      order; exactly the upper halves of the shrunk         *)
(*                      instructions are gone                                 *)
(*   Placement, NoOverlap, Inside (Linker.tla), OrderKept, ShiftConsistent    *)
(*                      sections stay aligned, ordered, disjoint, inside      *)
(*                      their memory, and never move up                       *)
(*   StaysInRange       a transfer that was in range is in range afterwards   *)
(*   LinkRegisterKept   only `jal ra` becomes c.jal, only `jal x0` c.j        *)
(*   OnlyRelaxable      nothing else is shrunk                                *)
EXTENDS Linker

CONSTANTS ShortBits,   \* bits of the signed displacement of the short form (c.j / c.jal: 12)
          LongBits     \* ... of the long form (jal: 21)
VARIABLE pre           \* ghost: [on, dst, K, map] the object before do_relaxations, what was shrunk,
                       \* post relocation index -> pre relocation index
rvars == <<vars, pre>>
RV == INSTANCE RV32

EmptyObj == [secs |-> <<>>, syms |-> <<>>, rels |-> <<>>, images |-> <<>>, entry |-> -1]
NoPre == [on |-> FALSE, dst |-> EmptyObj, K |-> {}, map |-> <<>>]

-----------------------------------------------------------------------------
(* relocation types of the rvc ISA (rvc_relocations.py) *)
RelaxableType(t) == t \in {"cb_imm11", "cbl_imm11"}       \* CBImm11Relocation (j), CBlImm11Relocation (jal rd)
ShortType(t) == "bc_imm11"                                \* do_shrink: new_reloc = BcImm11Relocation
LongSize == 4
ShortSize == 2
HoleSize == LongSize - ShortSize
RvcRelSize(t) == CASE t \in {"cb_imm11", "cbl_imm11"} -> 4 [] t \in {"bc_imm11", "bc_imm8"} -> 2 [] OTHER -> 0
(* The shrink rule.  do_shrink is specific to the relocation type: it rewrites the site to                *)
(*     cb_imm11  -> c.j    (= jal x0, offset: links nothing)                                             *)
(*     cbl_imm11 -> c.jal  (= jal x1, offset: links through ra)                                          *)
(* whatever rd the 32-bit `jal rd, sym` at the site has (CBl / RiscvArch.branch(reg, label) give          *)
(* cbl_imm11 to every rd, x0 included).  A site may therefore shrink only for the pairs                  *)
(*     (rd = x0, cb_imm11) and (rd = ra, cbl_imm11);                                                     *)
(* (x0, cbl_imm11), (ra, cb_imm11) and every other rd under either type must keep the long form.         *)
ShortInsn(t) == IF t = "cbl_imm11" THEN "c.jal" ELSE "c.j"
\* register the short form links through (the rd of its expansion, RV32.tla Expand)
ShortRd(t) == RV!Expand(RV!Ins(ShortInsn(t), 0, 0, 0, 0, 2)).rd
MayShrink(rd, t) == RelaxableType(t) /\ rd = ShortRd(t)

Pow2(n) == 2 ^ n
InS(x, bits) == -Pow2(bits - 1) <= x /\ x <= Pow2(bits - 1) - 1     \* rvc_relocations.isinsrange
\* displacement of a pc-relative transfer: S - P (the riscv branch / jump relocations ignore the addend)
SecAddr(d, n) == SecOf(d.secs, n).addr
RelDisp(d, r) == SymAddr(d, d.rels[r].sym) - (SecAddr(d, d.rels[r].sec) + d.rels[r].off)
ReachBits(t) == CASE t \in {"cb_imm11", "cbl_imm11", "b_imm20"} -> LongBits
                  [] t = "bc_imm11" -> ShortBits
                  [] t = "b_imm12" -> 13
                  [] t = "bc_imm8" -> 9
                  [] OTHER -> 0
IsTransfer(t) == ReachBits(t) > 0
InReach(d, r) == LET b == ReachBits(d.rels[r].type) IN
                 b = 0 \/ (InS(RelDisp(d, r), b) /\ RelDisp(d, r) % 2 = 0)

-----------------------------------------------------------------------------
(* the instruction at a relocation site, from the bytes of the input object the site came from *)
InByte(t) == inp[t[1]].secs[t[2]].data[t[3] + 1]
SiteTags(d, r, n) == LET T == SecOf(d.secs, d.rels[r].sec).data IN MkT([k \in 1..n |-> T[d.rels[r].off + k]])
SiteIsInput(d, r, n) == /\ HasSec(d.secs, d.rels[r].sec)
                        /\ d.rels[r].off >= 0 /\ d.rels[r].off + n <= Len(SecOf(d.secs, d.rels[r].sec).data)
                        /\ \A k \in 1..n : IsInputTag(SiteTags(d, r, n)[k])
SiteInsn(d, r, n) == RV!Decode(MkT([k \in 1..n |-> InByte(SiteTags(d, r, n)[k])]))
\* the site holds `jal rd, _` with the rd the short form links through
RdOK(d, r) == /\ SiteIsInput(d, r, LongSize)
              /\ LET i == SiteInsn(d, r, LongSize) IN i.mn = "jal" /\ MayShrink(i.rd, d.rels[r].type)

-----------------------------------------------------------------------------
(* the mechanics: _apply_relaxation_holes *)
Idx(n) == MkT([k \in 1..n |-> k])
RelsIn(d, K, n) == {r \in K : d.rels[r].sec = n}
\* hole = (new_end, diff): starts after the 2-byte instruction, HoleSize bytes (0-based offsets)
HoleOffs(d, K, n) == {d.rels[r].off + ShortSize : r \in RelsIn(d, K, n)}
\* count_holes(offset, holes): `if hole_offset < offset` over the sorted list = all holes strictly below
CountHoles(off, H) == HoleSize * Cardinality({h \in H : h < off})
Change(d, K, n) == HoleSize * Cardinality(HoleOffs(d, K, n))        \* section_changes[name]
\* 1-based positions of section n that are removed / rewritten by do_shrink
Gone(d, K, n) == UNION {{h + 1, h + 2} : h \in HoleOffs(d, K, n)}
Rewritten(d, K, n) == UNION {{d.rels[r].off + 1, d.rels[r].off + 2} : r \in RelsIn(d, K, n)}

\* provenance of a byte rewritten by do_shrink (opcode bits changed): still "that input byte"
Shrunk(t) == <<-(t[1]) - 1, t[2], t[3]>>
IsShrunk(t) == t[1] <= -2
Origin(t) == IF IsShrunk(t) THEN <<-(t[1]) - 1, t[2], t[3]>> ELSE t

\* (heavy values are bound once through singleton sets: TLC re-evaluates LET definitions at every use)
RelaxData(d, K, i) ==
    LET s == d.secs[i] IN
    IF HoleOffs(d, K, s.name) = {} THEN s.data
    ELSE CHOOSE res \in {MkT([j \in 1..Len(keep) |-> IF keep[j] \in rew THEN Shrunk(s.data[keep[j]]) ELSE s.data[keep[j]]]) :
                             keep \in {SelectSeq(Idx(Len(s.data)), LAMBDA p : p \notin gone) : gone \in {Gone(d, K, s.name)}},
                             rew \in {Rewritten(d, K, s.name)}} : TRUE
\* `if symbol.section is None: continue`;  symbol.value -= count_holes(symbol.value, holes)
RelaxSym(d, K, y) == IF y.sec = "" THEN y ELSE [y EXCEPT !.value = @ - CountHoles(@, HoleOffs(d, K, y.sec))]
\* relocation.offset -= count_holes(relocation.offset, holes), old entry replaced by the short type
Shorten(e) == [e EXCEPT !.type = ShortType(e.type), !.size = ShortSize]
ShiftRel(d, K, e) == [e EXCEPT !.off = @ - CountHoles(@, HoleOffs(d, K, e.sec))]
\* relocations.remove(old); add_relocation(new): the rewritten entries move to the end ("append");
\* "inplace" keeps every entry where it was
RelOrder(d, K, ord) ==
    IF ord = "append"
    THEN SelectSeq(Idx(Len(d.rels)), LAMBDA r : r \notin K) \o SelectSeq(Idx(Len(d.rels)), LAMBDA r : r \in K)
    ELSE Idx(Len(d.rels))
RelaxRels(d, K, ord) ==
    LET m == RelOrder(d, K, ord) IN
    MkT([k \in 1..Len(m) |-> ShiftRel(d, K, IF m[k] \in K THEN Shorten(d.rels[m[k]]) ELSE d.rels[m[k]])])

RelaxResult(d, K, addrs, ord) ==
    [d EXCEPT !.secs = MkT([i \in 1..Len(d.secs) |->
                              [d.secs[i] EXCEPT !.addr = addrs[i], !.data = RelaxData(d, K, i)]]),
              !.syms = MkT([j \in 1..Len(d.syms) |-> RelaxSym(d, K, d.syms[j])]),
              !.rels = RelaxRels(d, K, ord)]

-----------------------------------------------------------------------------
(* ppci's choice of the parameters *)
Candidates(d) == {r \in 1..Len(d.rels) : RelaxableType(d.rels[r].type)}
\* can_shrink(sym_value, reloc_value): isinsrange(12, sym_value - reloc_value), addresses before relaxation
DesignK(d) == {r \in Candidates(d) : InS(RelDisp(d, r), ShortBits)}
KeepAddrs(d) == MkT([i \in 1..Len(d.secs) |-> d.secs[i].addr])
\* for image in images: delta = 0; for section in image.sections: section.address -= delta; delta += change
RECURSIVE DesignAddrR(_, _, _, _, _, _)
DesignAddrR(d, K, addrs, g, k, delta) ==
    IF g > Len(d.images) THEN addrs
    ELSE IF k > Len(d.images[g].secs) THEN DesignAddrR(d, K, addrs, g + 1, 1, 0)
    ELSE LET i == SecIdx(d.secs, d.images[g].secs[k]) IN
         DesignAddrR(d, K, [addrs EXCEPT ![i] = @ - delta], g, k + 1, delta + Change(d, K, d.secs[i].name))
DesignAddrs(d, K) == DesignAddrR(d, K, KeepAddrs(d), 1, 1, 0)

(* the repaired choice: only `jal` with the right link register, only targets in the section of the jump  *)
(* (their distance can only shrink), and every section moves down by the largest multiple of its          *)
(* alignment that the space freed in front of it allows                                                   *)
SameSection(d, r) == d.syms[SymIdx(d.syms, d.rels[r].sym)].sec = d.rels[r].sec
FixedK(d) == {r \in DesignK(d) : RdOK(d, r) /\ SameSection(d, r)}
RECURSIVE FixedAddrR(_, _, _, _, _, _)
FixedAddrR(d, K, addrs, g, k, shift) ==
    IF g > Len(d.images) THEN addrs
    ELSE IF k > Len(d.images[g].secs) THEN FixedAddrR(d, K, addrs, g + 1, 1, 0)
    ELSE LET i == SecIdx(d.secs, d.images[g].secs[k])
             move == shift - (shift % d.secs[i].align) IN
         FixedAddrR(d, K, [addrs EXCEPT ![i] = @ - move], g, k + 1, move + Change(d, K, d.secs[i].name))
FixedAddrs(d, K) == FixedAddrR(d, K, KeepAddrs(d), 1, 1, 0)

-----------------------------------------------------------------------------
(* the action *)
RelaxWith(K, addrs, ord) ==
    /\ ph = "relax"
    /\ K \subseteq 1..Len(dst.rels) /\ Len(addrs) = Len(dst.secs) /\ ord \in {"append", "inplace"}
    /\ dst' = RelaxResult(dst, K, addrs, ord)
    /\ pre' = [on |-> TRUE, dst |-> dst, K |-> K, map |-> RelOrder(dst, K, ord)]
    /\ ph' = (IF Len(dst.rels) = 0 THEN "done" ELSE "relocate")
    /\ nxt' = 1
    /\ UNCHANGED <<job, sub, placed, cur, fail>>
RelaxDesign == RelaxWith(DesignK(dst), DesignAddrs(dst, DesignK(dst)), "append")
RelaxFixed  == RelaxWith(FixedK(dst), FixedAddrs(dst, FixedK(dst)), "append")

\* every other phase of Linker.tla leaves the ghost alone
OtherPhases == ph # "relax" /\ DesignNext /\ UNCHANGED pre

-----------------------------------------------------------------------------
(* the clauses of property C13, as predicates over the object before (b), the object after (a), the     *)
(* set of shrunk entries (K) and the map post relocation index -> pre relocation index (m)               *)
InSomeImage(d, n) == \E g \in 1..Len(d.images) : \E k \in 1..Len(d.images[g].secs) : d.images[g].secs[k] = n

SymbolsKeepTargetOf(b, a, K) ==
    /\ Len(a.syms) = Len(b.syms)
    /\ \A j \in 1..Len(a.syms) :
         LET y0 == b.syms[j]
             y1 == a.syms[j] IN
         /\ y1.id = y0.id /\ y1.name = y0.name /\ y1.sec = y0.sec /\ y1.def = y0.def
         /\ (y0.sec = "" => y1.value = y0.value)
         /\ (y0.def /\ y0.sec # "" /\ HasSec(b.secs, y0.sec)) =>
              LET T0 == SecOf(b.secs, y0.sec).data
                  T1 == SecOf(a.secs, y0.sec).data
                  p == y0.value
                  q == y1.value IN
              IF p < 0 \/ p > Len(T0) THEN TRUE                         \* designates nothing of this section
              ELSE IF p = Len(T0) THEN q = Len(T1)                      \* the end of the section
              ELSE IF (p + 1) \in Gone(b, K, y0.sec) THEN TRUE          \* the byte is gone: no logical target left
              ELSE q >= 0 /\ q < Len(T1) /\ Origin(T1[q + 1]) = T0[p + 1]

IsPermutation(m, n) == Len(m) = n /\ \A k \in 1..n : \E j \in 1..n : m[j] = k
RelocsKeepSiteOf(b, a, K, m) ==
    /\ IsPermutation(m, Len(b.rels)) /\ Len(a.rels) = Len(b.rels)
    /\ \A k \in 1..Len(a.rels) :
         LET e0 == b.rels[m[k]]
             e1 == a.rels[k]
             T0 == SecOf(b.secs, e0.sec).data
             T1 == SecOf(a.secs, e0.sec).data IN
         /\ e1.sym = e0.sym /\ e1.sec = e0.sec /\ e1.add = e0.add
         /\ e1.type = (IF m[k] \in K THEN ShortType(e0.type) ELSE e0.type)
         /\ e1.size = (IF m[k] \in K THEN ShortSize ELSE e0.size)
         /\ e1.off >= 0 /\ e1.off + e1.size <= Len(T1)
         /\ \A x \in 1..e1.size : Origin(T1[e1.off + x]) = T0[e0.off + x]

ContentKeptOf(b, a, K) ==
    /\ Len(a.secs) = Len(b.secs)
    /\ \A i \in 1..Len(a.secs) :
         LET T0 == b.secs[i].data
             T1 == a.secs[i].data
             n == b.secs[i].name
             sites == {b.rels[r].off : r \in RelsIn(b, K, n)} IN
         /\ a.secs[i].name = n /\ a.secs[i].align = b.secs[i].align
         /\ \E upper \in {UNION {{o + 3, o + 4} : o \in sites}} : \E lower \in {UNION {{o + 1, o + 2} : o \in sites}} :
               IF sites = {} THEN T1 = T0
               ELSE \E kept \in {SelectSeq(Idx(Len(T0)), LAMBDA p : p \notin upper)} :
                      /\ Len(T1) = Len(kept)
                      /\ \A j \in 1..Len(kept) : Origin(T1[j]) = T0[kept[j]] /\ (IsShrunk(T1[j]) <=> kept[j] \in lower)

\* sections of an image keep their order, end to start
OrderKeptOf(a) == \A g \in 1..Len(a.images) :
    \A k \in 1..(Len(a.images[g].secs) - 1) :
        LET s1 == SecOf(a.secs, a.images[g].secs[k])
            s2 == SecOf(a.secs, a.images[g].secs[k + 1]) IN
        SecEnd(s1) <= s2.addr
\* no section moves up or out of its image; a section outside every image stays where it was
ShiftConsistentOf(b, a) ==
    /\ a.images = b.images
    /\ \A i \in 1..Len(a.secs) :
         /\ a.secs[i].addr <= b.secs[i].addr
         /\ (~InSomeImage(b, b.secs[i].name) => a.secs[i].addr = b.secs[i].addr)
    /\ \A g \in 1..Len(a.images) : \A k \in 1..Len(a.images[g].secs) :
         SecOf(a.secs, a.images[g].secs[k]).addr >= a.images[g].addr
\* every section's address satisfies its alignment (Linker.tla's Placement, on an object)
AlignedOf(a) == \A i \in 1..Len(a.secs) : a.secs[i].addr % a.secs[i].align = 0
StaysInRangeOf(b, a, m) == \A k \in 1..Len(a.rels) : InReach(b, m[k]) => InReach(a, k)
LinkRegisterKeptOf(b, K) == \A r \in K : RdOK(b, r)
OnlyRelaxableOf(b, K) == K \subseteq Candidates(b)

Clauses == <<"SymbolsKeepTarget", "RelocsKeepSite", "ContentKept", "OrderKept", "ShiftConsistent", "Placement",
             "StaysInRange", "LinkRegisterKept", "OnlyRelaxable">>
Holds(c, b, a, K, m) ==
    CASE c = "SymbolsKeepTarget" -> SymbolsKeepTargetOf(b, a, K)
      [] c = "RelocsKeepSite"    -> RelocsKeepSiteOf(b, a, K, m)
      [] c = "ContentKept"       -> ContentKeptOf(b, a, K)
      [] c = "OrderKept"         -> OrderKeptOf(a)
      [] c = "ShiftConsistent"   -> ShiftConsistentOf(b, a)
      [] c = "Placement"         -> AlignedOf(a)
      [] c = "StaysInRange"      -> StaysInRangeOf(b, a, m)
      [] c = "LinkRegisterKept"  -> LinkRegisterKeptOf(b, K)
      [] c = "OnlyRelaxable"     -> OnlyRelaxableOf(b, K)
Violated(b, a, K, m) == {Clauses[k] : k \in {j \in 1..Len(Clauses) : ~Holds(Clauses[j], b, a, K, m)}}

(* ... as invariants: they speak about the state right after the phase *)
JustRelaxed == pre.on /\ ph \in {"relocate", "done"} /\ nxt = 1
Before == pre.dst
SymbolsKeepTarget == JustRelaxed => SymbolsKeepTargetOf(Before, dst, pre.K)
RelocsKeepSite    == JustRelaxed => RelocsKeepSiteOf(Before, dst, pre.K, pre.map)
ContentKept       == JustRelaxed => ContentKeptOf(Before, dst, pre.K)
OrderKept         == JustRelaxed => OrderKeptOf(dst)
ShiftConsistent   == JustRelaxed => ShiftConsistentOf(Before, dst)
StaysInRange      == JustRelaxed => StaysInRangeOf(Before, dst, pre.map)
LinkRegisterKept  == JustRelaxed => LinkRegisterKeptOf(Before, pre.K)
OnlyRelaxable     == JustRelaxed => OnlyRelaxableOf(Before, pre.K)
\* (Placement, NoOverlap, Inside: Linker.tla)
\* (informative, not a clause of the property) the phase did what the transcription of ppci does
AsTranscribed == JustRelaxed =>
    \/ pre.K = DesignK(Before) /\ KeepAddrs(dst) = DesignAddrs(Before, pre.K)      \* ppci as first transcribed
    \/ pre.K = FixedK(Before) /\ KeepAddrs(dst) = FixedAddrs(Before, pre.K)        \* ppci with the C13 repairs

\* the domain of the specification: relaxable sites are whole input instructions, pairwise disjoint, even
RelaxDomain(d) ==
    /\ \A r \in Candidates(d) : SiteIsInput(d, r, LongSize) /\ d.rels[r].off % 2 = 0
    /\ \A r1, r2 \in Candidates(d) : r1 # r2 /\ d.rels[r1].sec = d.rels[r2].sec =>
          (d.rels[r1].off + LongSize <= d.rels[r2].off \/ d.rels[r2].off + LongSize <= d.rels[r1].off)
=============================================================================
