------------------------------ MODULE Graphs2 ------------------------------
(* Definitions of the graph notions computed by ppci.graph (extension       *)
(* property X14): strongly connected components, topological order,         *)
(* natural loops and their nesting, cyclomatic number, call graph, and the  *)
(* projections (successors / predecessors / adjacency / edge count) a       *)
(* directed graph object has to answer.                                     *)
(*                                                                           *)
(* A graph is a node set N and a set E of pairs <<a, b>> (edge a -> b) over  *)
(* N, as in Dom.tla, whose reachability and dominance definitions are        *)
(* reused.  Nothing in this module is an algorithm: every notion is its      *)
(* textbook definition in terms of the existence of paths.  Graphs2_MC       *)
(* anchors these definitions (against the CommunityModules Graphs module     *)
(* and against literal path enumeration) on every small graph.               *)
EXTENDS Dom, Integers

Rng2(s)   == {s[k] : k \in 1..Len(s)}
NoDup2(s) == \A a \in 1..Len(s) : \A b \in 1..Len(s) : s[a] = s[b] => a = b
Sym(E)    == E \cup Rev(E)
Within2(N, E) == {e \in E : e[1] \in N /\ e[2] \in N}

(***************************************************************************)
(* Strongly connected components: the classes of mutual reachability (a    *)
(* node is mutually reachable with itself by the empty path).              *)
(***************************************************************************)
MutualReach(E, a, b) == a = b \/ (CanReach(E, a, b) /\ CanReach(E, b, a))
SCCOf(N, E, n) == {m \in N : MutualReach(E, n, m)}
SCCs(N, E)     == {SCCOf(N, E, n) : n \in N}
IsPartitionOf(P, N) ==
    /\ UNION P = N
    /\ {} \notin P
    /\ \A A \in P : \A B \in P : A = B \/ A \cap B = {}
\* the classes somebody derives from a claimed "a can reach b by >= 1 edge" relation T
ClassesOf(N, T) == {{n} \cup {m \in N : <<n, m>> \in T /\ <<m, n>> \in T} : n \in N}

(***************************************************************************)
(* Topological order: a listing of every node exactly once in which every  *)
(* edge points forward.  One exists iff the graph has no cycle (a self     *)
(* loop is a cycle) -- LawTopoExists in Graphs2_MC.                        *)
(***************************************************************************)
Acyclic(N, E) == \A n \in N : ~OnCycle(E, n)
PosIn(s, x)   == CHOOSE k \in 1..Len(s) : s[k] = x
IsTopoOrder(N, E, s) ==
    /\ Len(s) = Cardinality(N) /\ Rng2(s) = N
    /\ \A e \in E : PosIn(s, e[1]) < PosIn(s, e[2])

(***************************************************************************)
(* Natural loops of a rooted graph.  DM is the dominance map of Dom.tla    *)
(* (DM[d] = set of nodes d dominates; DOMAIN DM = nodes reachable from the *)
(* root).  A back edge is an edge a -> h between reachable nodes whose     *)
(* target dominates its source.  Its natural loop is h together with the   *)
(* nodes that can reach a without passing through h.  Loops with the same  *)
(* header are customarily merged (the loop of a header = union of the      *)
(* natural loops of its back edges).  A loop nests in another iff its node *)
(* set is included in the other's.                                         *)
(***************************************************************************)
BackEdges(E, DM) == {e \in E : e[2] \in DOMAIN DM /\ e[1] \in DOMAIN DM /\ e[1] \in DM[e[2]]}
Headers(E, DM)   == {e[2] : e \in BackEdges(E, DM)}
NatLoop(E, DM, e) ==
    ({e[2]} \cup (IF e[1] = e[2] THEN {} ELSE ReachSet(Rev(Without(E, e[2])), {e[1]})))
      \cap DOMAIN DM
MergedLoop(E, DM, h) == UNION {NatLoop(E, DM, e) : e \in {f \in BackEdges(E, DM) : f[2] = h}}
NestsIn(A, B) == A \subseteq B

(***************************************************************************)
(* Cyclomatic number E - N + 2P, P = number of (weakly) connected          *)
(* components.                                                             *)
(***************************************************************************)
WeakComps(N, E) == {ReachSet(Sym(E), {n}) \cap N : n \in N}
Cyclo(N, E)     == Cardinality(E) - Cardinality(N) + 2 * Cardinality(WeakComps(N, E))

(***************************************************************************)
(* What a directed-graph object answers about the graph (N, E).            *)
(***************************************************************************)
SuccMap(N, E) == [n \in N |-> Succs(E, n)]
PredMap(N, E) == [n \in N |-> Preds(E, n)]
AdjMap(N, E)  == [n \in N |-> Succs(E, n) \cup Preds(E, n)]

(***************************************************************************)
(* Call graph of a module: funcs defined routines 1..F (calls[f] = the     *)
(* callees of the call instructions of f, in any order, 0 = a call through *)
(* a pointer), externals F+1..F+X.  One node per routine, an edge f -> g   *)
(* iff f contains a direct call of g.                                      *)
(***************************************************************************)
CallNodes(F, X)  == 1..(F + X)
CallEdges(calls) == UNION {{<<f, g>> : g \in Rng2(calls[f]) \ {0}} : f \in 1..Len(calls)}
=============================================================================
