---------------------------- MODULE BitFun_Eval ----------------------------
(* Idiom E: one state per recorded call of the implementation; the         *)
(* invariant is the definition.  Two-level fan-out so all workers share.   *)
EXTENDS BitFun, Json, IOUtils, TLC
Recs == JsonDeserialize(IOEnv.TRACE_FILE)
NChunks == 64
VARIABLES chunk, i
vars == <<chunk, i>>
Init == chunk = 0 /\ i = 0
PickChunk == chunk = 0 /\ chunk' \in 1..NChunks /\ i' = 0
PickRec == chunk > 0 /\ i = 0 /\ chunk' = chunk
           /\ i' \in {k \in 1..Len(Recs) : k % NChunks = chunk - 1}
Next == PickChunk \/ PickRec
Conforms == i > 0 => Allowed(Recs[i])
=============================================================================
