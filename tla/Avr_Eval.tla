------------------------------ MODULE Avr_Eval ------------------------------
(* Idiom E for the avr part of C08: one state per record observed on the     *)
(* real ppci code (harness/avrgen.py); one invariant per clause.             *)
(*                                                                           *)
(* t = "enc": one instruction instance of ppci.arch.avr: mn, ops = the text  *)
(*     ppci printed, tokenised (label tokens carry the byte address the      *)
(*     harness resolved the label to); pc = address of the instruction;      *)
(*     out = [ok, exc, bytes]: what encode() (+ the instruction's own        *)
(*     relocation) / the assembler produced                                  *)
EXTENDS Avr, Json, IOUtils
Recs == JsonDeserialize(IOEnv.TRACE_FILE)
ChunkLen == 16
NChunks == (Len(Recs) + ChunkLen - 1) \div ChunkLen
VARIABLES chunk, idx
vars == <<chunk, idx>>
Init == chunk = 0 /\ idx = 0
PickChunk == chunk = 0 /\ chunk' \in 1..NChunks /\ idx' = 0
PickRec == chunk > 0 /\ idx = 0 /\ chunk' = chunk
           /\ idx' \in ((chunk - 1) * ChunkLen + 1)..(IF chunk * ChunkLen < Len(Recs) THEN chunk * ChunkLen ELSE Len(Recs))
Next == PickChunk \/ PickRec

AsmOf(r) == Asm(r.mn, r.ops, r.pc)
IsEnc == idx > 0 /\ Recs[idx].t = "enc"
\* not a verdict (reported as a note): the printed line is outside the modelled assembly syntax
SyntaxKnown == (IsEnc /\ Recs[idx].mn # "invalid") => AsmOf(Recs[idx]) # NoAsm
\* C08: whatever ppci accepts and emits decodes to the operation and operands it prints
\* (bytes that are no instruction, too short or too long for the printed instruction are violations)
EncodingAgrees == (IsEnc /\ Recs[idx].out.ok) =>
    \E a \in {AsmOf(Recs[idx])} : a # NoAsm => Core(Decode(Recs[idx].out.bytes)) = Core(a)
\* spec validation only (text = the reference disassembler's output; "invalid" = it rejects the bytes)
RefInvalid == (IsEnc /\ Recs[idx].mn = "invalid") => ~Valid(Decode(Recs[idx].out.bytes))
RefAgrees == (IsEnc /\ Recs[idx].mn # "invalid") =>
    \E a \in {AsmOf(Recs[idx])} : a # NoAsm => Core(Decode(Recs[idx].out.bytes)) = Core(a)
=============================================================================
