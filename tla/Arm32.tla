-------------------------------- MODULE Arm32 --------------------------------
(* The A32 (ARM state) instruction classes of ARMv7-A, transcribed from the  *)
(* ARM Architecture Reference Manual chapter A5 "ARM instruction set         *)
(* encoding" (tables A5-1 .. A5-23) and the encoding diagrams of chapter A8, *)
(* independently of ppci:                                                    *)
(*   data-processing (immediate with the rotated "modified immediate",       *)
(*   register with immediate shift, register-shifted register), MOVW/MOVT,   *)
(*   ADR, multiply / multiply-accumulate (MUL MLA MLS), SDIV / UDIV,          *)
(*   load/store word / unsigned byte (immediate, register, all of offset /   *)
(*   pre-indexed / post-indexed), extra load/store (halfword, signed byte /  *)
(*   halfword; immediate and register), block transfer (LDM/STM all four     *)
(*   modes, PUSH, POP), B / BL, BX / BLX (register), CLZ, BKPT, SVC, UDF,    *)
(*   hints, MCR / MRC.  Everything else decodes to "unsupported".            *)
(*                                                                           *)
(* A word is a pair <<lo, hi>> of halfwords (bits 15:0, bits 31:16).         *)
(*   DecodeA(b)   4 bytes little-endian -> record (ArmCommon.I0 fields)       *)
(*   EncodeA(i)   the reference encoder (laws in Thumb_MC, families aw, aln) *)
(*   AsmA(mn, ops, sym, pc)   meaning of a printed line                       *)
EXTENDS ArmCommon

A(mn, enc, c) == [I0 EXCEPT !.mn = mn, !.enc = enc, !.cond = c, !.len = 4]

-----------------------------------------------------------------------------
(* A5.2.4 modified immediate constants: imm8 rotated right by 2 * rot, kept  *)
(* in the signed reading of the 32-bit result                                *)
BitVal(t) == IF t = 31 THEN MinInt ELSE P2(t)
ModImm(rot, b) == LET t(k) == (k + 32 - 2 * rot) % 32 IN
    IBit(b, 0) * BitVal(t(0)) + IBit(b, 1) * BitVal(t(1)) + IBit(b, 2) * BitVal(t(2)) + IBit(b, 3) * BitVal(t(3))
    + IBit(b, 4) * BitVal(t(4)) + IBit(b, 5) * BitVal(t(5)) + IBit(b, 6) * BitVal(t(6)) + IBit(b, 7) * BitVal(t(7))
SBit(v, t) == IF t = 31 THEN (IF v < 0 THEN 1 ELSE 0) ELSE IBit(IF v < 0 THEN v - MinInt ELSE v, t)
Imm8Of(v, rot) == LET t(k) == (k + 32 - 2 * rot) % 32 IN          \* rotate left by 2 * rot, low 8 bits
    SBit(v, t(0)) + 2 * SBit(v, t(1)) + 4 * SBit(v, t(2)) + 8 * SBit(v, t(3))
    + 16 * SBit(v, t(4)) + 32 * SBit(v, t(5)) + 64 * SBit(v, t(6)) + 128 * SBit(v, t(7))
RotOK(v, rot) == ModImm(rot, Imm8Of(v, rot)) = v
ModImmOK(v) == \E rot \in 0..15 : RotOK(v, rot)
MinRot(v) == CHOOSE rot \in 0..15 : RotOK(v, rot) /\ \A q \in 0..(rot - 1) : ~RotOK(v, q)
Neg(v) == IF v = MinInt THEN MinInt ELSE -v

DpMnA == <<"and", "eor", "sub", "rsb", "add", "adc", "sbc", "rsc", "tst", "teq", "cmp", "cmn", "orr", "mov", "bic", "mvn">>
ShTypes == <<"lsl", "lsr", "asr", "ror">>
IndexIn(seq, x) == CHOOSE k \in 1..Len(seq) : seq[k] = x
\* A8.4.1 DecodeImmShift: <<type, amount>>
ImmShift(type, imm5) ==
    CASE type = 0 -> IF imm5 = 0 THEN <<"", 0>> ELSE <<"lsl", imm5>>
      [] type = 1 -> <<"lsr", IF imm5 = 0 THEN 32 ELSE imm5>>
      [] type = 2 -> <<"asr", IF imm5 = 0 THEN 32 ELSE imm5>>
      [] type = 3 -> IF imm5 = 0 THEN <<"rrx", 0>> ELSE <<"ror", imm5>>

-----------------------------------------------------------------------------
DecDpOperands(lo, hi, c, enc, i) ==                   \* i = the record with the second operand filled in
    LET opc == Bits(hi, 5, 4)  m == DpMnA[opc + 1]  sf == IBit(hi, 4) = 1
        rn == Bits(hi, 0, 4)  rd == Bits(lo, 12, 4) IN
    CASE m \in Compares -> IF rd # 0 THEN Bad("unpredictable", 4)
                           ELSE [i EXCEPT !.mn = m, !.enc = enc, !.cond = c, !.len = 4, !.s = TRUE, !.rn = rn]
      [] m \in {"mov", "mvn"} -> IF rn # 0 THEN Bad("unpredictable", 4)
                           ELSE [i EXCEPT !.mn = m, !.enc = enc, !.cond = c, !.len = 4, !.s = sf, !.rd = rd]
      [] OTHER -> [i EXCEPT !.mn = m, !.enc = enc, !.cond = c, !.len = 4, !.s = sf, !.rd = rd, !.rn = rn]

DecDpImm(lo, hi, c) ==                                \* cond 001 opcode S Rn Rd rot imm8
    LET opc == Bits(hi, 5, 4)  sf == IBit(hi, 4)  rn == Bits(hi, 0, 4)
        rot == Bits(lo, 8, 4)  v == ModImm(rot, Bits(lo, 0, 8)) IN
    IF opc \in {2, 4} /\ sf = 0 /\ rn = PC                                   \* ADR (encodings A1 add, A2 sub)
    THEN [A("adr", IF opc = 2 THEN "adr_sub" ELSE "adr_add", c) EXCEPT      \* imm: the offset added to Align(PC, 4), mod 2^32
               !.rd = Bits(lo, 12, 4), !.rn = PC, !.imm = IF opc = 2 THEN Neg(v) ELSE v, !.rot = rot, !.impl = {PC}]
    ELSE DecDpOperands(lo, hi, c, "dp_imm", [I0 EXCEPT !.imm = v, !.rot = rot])
DecDpReg(lo, hi, c) ==                                \* cond 000 opcode S Rn Rd imm5 type 0 Rm
    LET sh == ImmShift(Bits(lo, 5, 2), Bits(lo, 7, 5)) IN
    DecDpOperands(lo, hi, c, "dp_reg", [I0 EXCEPT !.rm = Bits(lo, 0, 4), !.st = sh[1], !.sa = sh[2]])
DecDpRsr(lo, hi, c) ==                                \* cond 000 opcode S Rn Rd Rs 0 type 1 Rm
    DecDpOperands(lo, hi, c, "dp_rsr", [I0 EXCEPT !.rm = Bits(lo, 0, 4), !.st = ShTypes[Bits(lo, 5, 2) + 1],
                                                  !.rs = Bits(lo, 8, 4)])

DecMul(lo, hi, c) ==                                  \* cond 0000 op(4) Rd Ra Rm 1001 Rn   (table A5-7)
    LET op == Bits(hi, 4, 4)  rd == Bits(hi, 0, 4)  ra == Bits(lo, 12, 4)  rm == Bits(lo, 8, 4)  rn == Bits(lo, 0, 4) IN
    CASE op \in {0, 1} -> IF ra # 0 THEN Bad("unpredictable", 4)
                          ELSE [A("mul", "mul", c) EXCEPT !.s = (op = 1), !.rd = rd, !.rn = rn, !.rm = rm]
      [] op \in {2, 3} -> [A("mla", "mul", c) EXCEPT !.s = (op = 3), !.rd = rd, !.rn = rn, !.rm = rm, !.ra = ra]
      [] op = 6 -> [A("mls", "mul", c) EXCEPT !.rd = rd, !.rn = rn, !.rm = rm, !.ra = ra]
      [] op \in {5, 7} -> Bad("undefined", 4)
      [] OTHER -> Bad("unsupported", 4)                                     \* umaal, umull, umlal, smull, smlal

AddrMode(p, w) == IF p = 1 THEN (IF w = 0 THEN "off" ELSE "pre") ELSE "post"
DecExtra(lo, hi, c) ==                                \* cond 000 P U I W L Rn Rt imm4H 1 op2 1 imm4L/Rm  (A5.2.8)
    LET p == IBit(hi, 8)  u == IBit(hi, 7)  ib == IBit(hi, 6)  w == IBit(hi, 5)  l == IBit(hi, 4)  op2 == Bits(lo, 5, 2)
        rn == Bits(hi, 0, 4)  rt == Bits(lo, 12, 4)
        m == IF op2 = 1 THEN (IF l = 1 THEN "ldrh" ELSE "strh")
             ELSE IF l = 0 THEN "dual" ELSE IF op2 = 2 THEN "ldrsb" ELSE "ldrsh"
        v == 16 * Bits(lo, 8, 4) + Bits(lo, 0, 4) IN
    IF p = 0 /\ w = 1 THEN Bad("unsupported", 4)                             \* strht ldrht ldrsbt ldrsht
    ELSE IF m = "dual" THEN Bad("unsupported", 4)                            \* ldrd strd
    ELSE IF ib = 1
    THEN [A(m, "extra_imm", c) EXCEPT !.rd = rt, !.rn = rn, !.imm = IF u = 1 THEN v ELSE -v, !.sub = (u = 0 /\ v = 0),
                                      !.am = AddrMode(p, w), !.impl = IF rn = PC /\ p = 1 /\ w = 0 THEN {PC} ELSE {}]
    ELSE IF Bits(lo, 8, 4) # 0 THEN Bad("unpredictable", 4)
    ELSE [A(m, "extra_reg", c) EXCEPT !.rd = rt, !.rn = rn, !.rm = Bits(lo, 0, 4), !.sub = (u = 0), !.am = AddrMode(p, w)]

DecMiscA(lo, hi, c) ==                                 \* cond 00010 op 0 ... 0 op2 Rm   (table A5-14)
    LET op == Bits(hi, 5, 2)  op2 == Bits(lo, 4, 3)  sbo == Bits(hi, 0, 4) = 15 /\ Bits(lo, 8, 8) = 255 IN
    CASE op2 = 1 /\ op = 1 -> IF sbo THEN [A("bx", "misc", c) EXCEPT !.rm = Bits(lo, 0, 4)] ELSE Bad("unpredictable", 4)
      [] op2 = 3 /\ op = 1 -> IF sbo /\ Bits(lo, 0, 4) # PC THEN [A("blx", "misc", c) EXCEPT !.rm = Bits(lo, 0, 4)]
                              ELSE Bad("unpredictable", 4)
      [] op2 = 1 /\ op = 3 -> IF Bits(hi, 0, 4) = 15 /\ Bits(lo, 8, 4) = 15
                              THEN [A("clz", "misc", c) EXCEPT !.rd = Bits(lo, 12, 4), !.rm = Bits(lo, 0, 4)]
                              ELSE Bad("unpredictable", 4)
      [] op2 = 7 /\ op = 1 -> IF c # AL THEN Bad("unpredictable", 4)
                              ELSE [A("bkpt", "misc", c) EXCEPT !.imm = 16 * (256 * Bits(hi, 0, 4) + Bits(lo, 8, 8)) + Bits(lo, 0, 4)]
      [] OTHER -> Bad("unsupported", 4)                                     \* mrs msr bxj smc qadd ...

HintMnA == <<"nop", "yield", "wfe", "wfi", "sev">>
DecLdst(lo, hi, c, reg) ==                            \* cond 01 R P U B W L Rn Rt imm12 | imm5 type 0 Rm  (A5.3)
    LET p == IBit(hi, 8)  u == IBit(hi, 7)  b == IBit(hi, 6)  w == IBit(hi, 5)  l == IBit(hi, 4)
        rn == Bits(hi, 0, 4)  rt == Bits(lo, 12, 4)  v == Bits(lo, 0, 12)
        m == IF l = 1 THEN (IF b = 1 THEN "ldrb" ELSE "ldr") ELSE (IF b = 1 THEN "strb" ELSE "str")
        sh == ImmShift(Bits(lo, 5, 2), Bits(lo, 7, 5)) IN
    IF p = 0 /\ w = 1 THEN Bad("unsupported", 4)                             \* ldrt strt ldrbt strbt
    ELSE IF ~reg
    THEN [A(m, "ldst_imm", c) EXCEPT !.rd = rt, !.rn = rn, !.imm = IF u = 1 THEN v ELSE -v, !.sub = (u = 0 /\ v = 0),
                                     !.am = AddrMode(p, w), !.impl = IF rn = PC /\ p = 1 /\ w = 0 /\ l = 1 THEN {PC} ELSE {}]
    ELSE [A(m, "ldst_reg", c) EXCEPT !.rd = rt, !.rn = rn, !.rm = Bits(lo, 0, 4), !.st = sh[1], !.sa = sh[2],
                                     !.sub = (u = 0), !.am = AddrMode(p, w)]

BlockMode(p, u) == IF u = 1 THEN (IF p = 1 THEN "ib" ELSE "ia") ELSE (IF p = 1 THEN "db" ELSE "da")
DecBlock(lo, hi, c) ==                                \* cond 100 P U S W L Rn register_list   (A5.5)
    LET p == IBit(hi, 8)  u == IBit(hi, 7)  w == IBit(hi, 5)  l == IBit(hi, 4)  rn == Bits(hi, 0, 4)  lst == RegSet(lo, 16) IN
    IF IBit(hi, 6) = 1 THEN Bad("unsupported", 4)                             \* user registers / exception return
    ELSE IF lst = {} \/ rn = PC THEN Bad("unpredictable", 4)
    ELSE IF l = 0 /\ p = 1 /\ u = 0 /\ w = 1 /\ rn = SP THEN [A("push", "block", c) EXCEPT !.rn = SP, !.list = lst, !.impl = {SP}]
    ELSE IF l = 1 /\ p = 0 /\ u = 1 /\ w = 1 /\ rn = SP THEN [A("pop", "block", c) EXCEPT !.rn = SP, !.list = lst, !.impl = {SP}]
    ELSE [A(IF l = 1 THEN "ldm" ELSE "stm", "block", c) EXCEPT !.rn = rn, !.list = lst,
                                                              !.am = BlockMode(p, u) \o (IF w = 1 THEN "!" ELSE "")]

DecodeW(lo, hi) ==
    LET c == Bits(hi, 12, 4)  op1 == Bits(hi, 9, 3)  op == Bits(hi, 4, 5)  b4 == IBit(lo, 4)  b7 == IBit(lo, 7)
        misc == op \in {16, 18, 20, 22} IN                                   \* op = 10xx0
    IF c = 15 THEN Bad("unsupported", 4)                                     \* unconditional instructions (A5.7)
    ELSE CASE op1 = 0 ->                                                     \* table A5-2
                 (IF b4 = 1 /\ b7 = 1 THEN                                   \* 1xx1: multiplies, sync, extra load/store
                      (IF Bits(lo, 5, 2) = 0
                       THEN (IF IBit(hi, 8) = 0 THEN DecMul(lo, hi, c) ELSE Bad("unsupported", 4))   \* swp ldrex strex
                       ELSE DecExtra(lo, hi, c))
                  ELSE IF misc THEN (IF b7 = 0 THEN DecMiscA(lo, hi, c) ELSE Bad("unsupported", 4))  \* halfword multiply
                  ELSE IF b4 = 0 THEN DecDpReg(lo, hi, c) ELSE DecDpRsr(lo, hi, c))
           [] op1 = 1 ->                                                     \* table A5-2, op = 1
                 (IF op = 16 THEN [A("movw", "movw", c) EXCEPT !.rd = Bits(lo, 12, 4), !.imm = 4096 * Bits(hi, 0, 4) + Bits(lo, 0, 12)]
                  ELSE IF op = 20 THEN [A("movt", "movw", c) EXCEPT !.rd = Bits(lo, 12, 4), !.imm = 4096 * Bits(hi, 0, 4) + Bits(lo, 0, 12)]
                  ELSE IF op = 18 /\ Bits(hi, 0, 4) = 0 /\ Bits(lo, 8, 8) = 240 /\ Bits(lo, 0, 8) < 5
                       THEN A(HintMnA[Bits(lo, 0, 8) + 1], "hint", c)
                  ELSE IF misc THEN Bad("unsupported", 4)                    \* msr (immediate), other hints, dbg
                  ELSE DecDpImm(lo, hi, c))
           [] op1 = 2 -> DecLdst(lo, hi, c, FALSE)
           [] op1 = 3 ->
                 (IF b4 = 0 THEN DecLdst(lo, hi, c, TRUE)
                  ELSE IF Bits(hi, 4, 8) \in {113, 115} /\ Bits(lo, 4, 4) = 1     \* 0111 0001 / 0111 0011 ... 0001
                       THEN (IF Bits(lo, 12, 4) # 15 THEN Bad("unpredictable", 4)
                             ELSE [A(IF Bits(hi, 4, 8) = 113 THEN "sdiv" ELSE "udiv", "div", c) EXCEPT
                                       !.rd = Bits(hi, 0, 4), !.rm = Bits(lo, 8, 4), !.rn = Bits(lo, 0, 4)])
                  ELSE IF Bits(hi, 4, 8) = 127 /\ Bits(lo, 4, 4) = 15 /\ c = AL
                       THEN [A("udf", "udf", c) EXCEPT !.imm = 16 * (256 * Bits(hi, 0, 4) + Bits(lo, 8, 8)) + Bits(lo, 0, 4)]
                  ELSE Bad("unsupported", 4))                                \* media instructions
           [] op1 = 4 -> DecBlock(lo, hi, c)
           [] op1 = 5 -> [A(IF IBit(hi, 8) = 1 THEN "bl" ELSE "b", "branch", c) EXCEPT
                               !.imm = 4 * SignExt(lo + 65536 * Bits(hi, 0, 8), 24)]
           [] op1 = 6 -> Bad("unsupported", 4)                               \* ldc stc mcrr mrrc, SIMD / VFP load/store
           [] op1 = 7 ->
                 (IF IBit(hi, 8) = 1 THEN [A("svc", "svc", c) EXCEPT !.imm = lo + 65536 * Bits(hi, 0, 8)]
                  ELSE IF b4 = 0 \/ Bits(lo, 8, 4) \in {10, 11} THEN Bad("unsupported", 4)   \* cdp, VFP / SIMD transfers
                  ELSE [A(IF IBit(hi, 4) = 1 THEN "mrc" ELSE "mcr", "cop", c) EXCEPT !.rd = Bits(lo, 12, 4),
                             !.cp = <<Bits(lo, 8, 4), Bits(hi, 5, 3), Bits(hi, 0, 4), Bits(lo, 0, 4), Bits(lo, 5, 3)>>])
DecodeA(b) == IF Len(b) # 4 THEN Bad("undefined", Len(b)) ELSE DecodeW(b[1] + 256 * b[2], b[3] + 256 * b[4])

-----------------------------------------------------------------------------
(* The reference encoder: <<lo, hi>>                                         *)
ShiftBits(i) ==                                       \* imm5 : type in bits 11:5
    CASE i.st = "" -> 0
      [] i.st = "rrx" -> 3 * 32
      [] OTHER -> (i.sa % 32) * 128 + (IndexIn(ShTypes, i.st) - 1) * 32
PUW(i) == (IF i.am = "post" THEN 0 ELSE 256) + (IF i.am = "pre" THEN 32 ELSE 0)
UBit(i) == IF i.sub \/ i.imm < 0 THEN 0 ELSE 128
Abs(v) == IF v < 0 THEN -v ELSE v
R0(r) == IF r = NoReg THEN 0 ELSE r
EncodeW(i) ==
    LET f == i.enc  c == i.cond * 4096 IN
    CASE f \in {"dp_imm", "dp_reg", "dp_rsr"} ->
            LET hi == c + (IF f = "dp_imm" THEN 512 ELSE 0) + (IndexIn(DpMnA, i.mn) - 1) * 32 + (IF i.s THEN 16 ELSE 0) + R0(i.rn)
                op2 == (CASE f = "dp_imm" -> 256 * i.rot + Imm8Of(i.imm, i.rot)
                          [] f = "dp_reg" -> ShiftBits(i) + i.rm
                          [] f = "dp_rsr" -> 256 * i.rs + (IndexIn(ShTypes, i.st) - 1) * 32 + 16 + i.rm) IN
            <<4096 * R0(i.rd) + op2, hi>>
      [] f \in {"adr_add", "adr_sub"} -> LET v == IF f = "adr_sub" THEN Neg(i.imm) ELSE i.imm IN
            <<4096 * i.rd + 256 * i.rot + Imm8Of(v, i.rot), c + 512 + (IF f = "adr_sub" THEN 2 ELSE 4) * 32 + PC>>
      [] f = "movw" -> <<4096 * i.rd + (i.imm % 4096), c + 512 + (IF i.mn = "movt" THEN 20 ELSE 16) * 16 + i.imm \div 4096>>
      [] f = "hint" -> <<240 * 256 + IndexIn(HintMnA, i.mn) - 1, c + 512 + 18 * 16>>
      [] f = "mul" -> <<4096 * R0(i.ra) + 256 * i.rm + 9 * 16 + i.rn,
                        c + 16 * (CASE i.mn = "mul" -> 0 [] i.mn = "mla" -> 2 [] i.mn = "mls" -> 6) + (IF i.s THEN 16 ELSE 0) + i.rd>>
      [] f = "div" -> <<15 * 4096 + 256 * i.rm + 16 + i.rn, c + (IF i.mn = "sdiv" THEN 113 ELSE 115) * 16 + i.rd>>
      [] f = "udf" -> <<256 * ((i.imm \div 16) % 256) + 15 * 16 + (i.imm % 16), c + 127 * 16 + i.imm \div 4096>>
      [] f = "misc" ->
            (CASE i.mn = "bx" -> <<65280 + 16 + i.rm, c + 18 * 16 + 15>>
               [] i.mn = "blx" -> <<65280 + 3 * 16 + i.rm, c + 18 * 16 + 15>>
               [] i.mn = "clz" -> <<4096 * i.rd + 15 * 256 + 16 + i.rm, c + 22 * 16 + 15>>
               [] i.mn = "bkpt" -> <<256 * ((i.imm \div 16) % 256) + 7 * 16 + (i.imm % 16), c + 18 * 16 + i.imm \div 4096>>)
      [] f \in {"extra_imm", "extra_reg"} ->
            LET op2 == (CASE i.mn \in {"ldrh", "strh"} -> 1 [] i.mn = "ldrsb" -> 2 [] i.mn = "ldrsh" -> 3)
                hi == c + PUW(i) + (IF f = "extra_imm" THEN 64 ELSE 0) + (IF i.mn = "strh" THEN 0 ELSE 16) + i.rn IN
            IF f = "extra_imm"
            THEN <<4096 * i.rd + 256 * (Abs(i.imm) \div 16) + 128 + 32 * op2 + 16 + (Abs(i.imm) % 16), hi + UBit(i)>>
            ELSE <<4096 * i.rd + 128 + 32 * op2 + 16 + i.rm, hi + (IF i.sub THEN 0 ELSE 128)>>
      [] f \in {"ldst_imm", "ldst_reg"} ->
            LET hi == c + 2 * 512 + PUW(i) + (IF i.mn \in {"ldrb", "strb"} THEN 64 ELSE 0)
                      + (IF i.mn \in {"ldr", "ldrb"} THEN 16 ELSE 0) + i.rn IN
            IF f = "ldst_imm" THEN <<4096 * i.rd + Abs(i.imm), hi + UBit(i)>>
            ELSE <<4096 * i.rd + ShiftBits(i) + i.rm, hi + 512 + (IF i.sub THEN 0 ELSE 128)>>
      [] f = "block" ->
            (CASE i.mn = "push" -> <<SetBits(i.list), c + 4 * 512 + 256 + 32 + SP>>
               [] i.mn = "pop" -> <<SetBits(i.list), c + 4 * 512 + 128 + 32 + 16 + SP>>
               [] OTHER -> LET md == CHOOSE m \in {"ia", "ib", "da", "db"} : i.am \in {m, m \o "!"} IN
                     <<SetBits(i.list), c + 4 * 512 + (IF md \in {"ib", "db"} THEN 256 ELSE 0) + (IF md \in {"ia", "ib"} THEN 128 ELSE 0)
                                        + (IF i.am = md \o "!" THEN 32 ELSE 0) + (IF i.mn = "ldm" THEN 16 ELSE 0) + i.rn>>)
      [] f = "branch" -> LET v == Pattern(i.imm \div 4, 24) IN <<v % 65536, c + 5 * 512 + (IF i.mn = "bl" THEN 256 ELSE 0) + v \div 65536>>
      [] f = "svc" -> <<i.imm % 65536, c + 15 * 256 + i.imm \div 65536>>
      [] f = "cop" -> <<4096 * i.rd + 256 * i.cp[1] + 32 * i.cp[5] + 16 + i.cp[4],
                        c + 14 * 256 + 32 * i.cp[2] + (IF i.mn = "mrc" THEN 16 ELSE 0) + i.cp[3]>>
EncodeA(i) == LET w == EncodeW(i) IN <<w[1] % 256, w[1] \div 256, w[2] % 256, w[2] \div 256>>

-----------------------------------------------------------------------------
(* Meaning of a printed line.  <<name, base mnemonic, S, condition>>         *)
BlockTable == {<<x \o y, x, IF y = "" THEN "ia" ELSE y>> : x \in {"ldm", "stm"}, y \in {"", "ia", "ib", "da", "db"}}
BlockNames == {bt[1] : bt \in BlockTable}
BlockModeOf(nm) == LET bt == CHOOSE x \in BlockTable : x[1] = nm IN <<bt[2], bt[3]>>
DpBases == {DpMnA[k] : k \in 1..16} \cup {"lsl", "lsr", "asr", "ror"}
SBases == DpBases \cup {"mul", "mla"}
Bases == SBases \cup {"mls", "sdiv", "udiv", "ldr", "str", "ldrb", "strb", "ldrh", "strh", "ldrsb", "ldrsh", "b", "bl", "bx",
                      "blx", "push", "pop", "adr", "mcr", "mrc", "svc", "bkpt", "udf", "clz", "movw", "movt", "nop", "yield",
                      "wfe", "wfi", "sev"} \cup BlockNames
MnTable == {<<b \o cs[1], b, FALSE, cs[2]>> : b \in Bases, cs \in CondSuffixes}
           \cup {<<b \o "s" \o cs[1], b, TRUE, cs[2]>> : b \in SBases, cs \in CondSuffixes}
MnNames == {t[1] : t \in MnTable}
MnParses(name) == {t \in MnTable : t[1] = name}
ShiftOf(w, n) == IF n = 0 THEN <<"", 0>> ELSE <<w, n>>        \* "lsl 0", "lsr 0" ...: the value is not shifted
IsSh(w) == w \in {"lsl", "lsr", "asr", "ror"}
AsmA(mn0, ops0, sym, pc) ==
    IF MnParses(mn0) = {} THEN NoAsm ELSE
    LET t == CHOOSE x \in MnParses(mn0) : TRUE  mn == t[2]  sf == t[3]  c == t[4]
        \* [Rn] = [Rn, 0];  a register list without braces (ppci's A32 push / pop) gets them
        ops == IF Pat(ops0) = "r[r]" THEN <<ops0[1], ops0[2], ops0[3], <<"i", 0, "">>, ops0[4]>>
               ELSE IF mn \in {"push", "pop"} /\ Len(ops0) >= 1 /\ AllKind(ops0, 1, Len(ops0), "r")
                    THEN << <<"{", 0, "">> >> \o ops0 \o << <<"}", 0, "">> >>
               ELSE ops0
        p == Pat(ops)  n == Len(ops)
        R1 == Num(ops, 1)  R2 == Num(ops, 2)  R3 == Num(ops, 3)
        disp == sym - (pc + 8)
        Addr == n >= 4 /\ ops[1][1] = "r" /\ ops[2][1] = "[" /\ ops[3][1] = "r"
                /\ Cardinality({k \in 1..n : ops[k][1] = "["}) = 1 /\ Cardinality({k \in 1..n : ops[k][1] = "]"}) = 1
                /\ Cardinality({k \in 1..n : ops[k][1] = "!"}) = (IF ops[n][1] = "!" THEN 1 ELSE 0)
                /\ (ops[n][1] = "!" => ops[n - 1][1] = "]") /\ (ops[n][1] \in {"!", "]"} \/ ops[4][1] = "]")
        flat == SelectSeq(ops, LAMBDA o : o[1] \notin {"[", "]", "!"})
        fp == Pat(flat)
        am == IF ops[n][1] = "!" THEN "pre" ELSE IF ops[n][1] = "]" THEN "off" ELSE "post"
        Dp(i) == [i EXCEPT !.mn = mn, !.cond = c, !.len = 4] IN
    CASE mn \in DpBases \ (Compares \cup {"mov", "mvn", "lsl", "lsr", "asr", "ror"}) ->
            (CASE p = "rri" /\ mn \in {"add", "sub"} /\ ~sf /\ R2 = PC ->          \* ADD / SUB Rd, PC, #const is ADR
                     [Dp([I0 EXCEPT !.enc = IF mn = "sub" THEN "adr_sub" ELSE "adr_add", !.rd = R1, !.rn = PC,
                                    !.imm = IF mn = "sub" THEN Neg(R3) ELSE R3]) EXCEPT !.mn = "adr"]
               [] p = "rri" -> Dp([I0 EXCEPT !.enc = "dp_imm", !.s = sf, !.rd = R1, !.rn = R2, !.imm = R3])
               [] p = "rrr" -> Dp([I0 EXCEPT !.enc = "dp_reg", !.s = sf, !.rd = R1, !.rn = R2, !.rm = R3])
               [] p = "rrrwi" /\ IsSh(Txt(ops, 4)) ->
                     LET sh == ShiftOf(Txt(ops, 4), Num(ops, 5)) IN
                     Dp([I0 EXCEPT !.enc = "dp_reg", !.s = sf, !.rd = R1, !.rn = R2, !.rm = R3, !.st = sh[1], !.sa = sh[2]])
               [] p = "rrrwr" /\ IsSh(Txt(ops, 4)) ->
                     Dp([I0 EXCEPT !.enc = "dp_rsr", !.s = sf, !.rd = R1, !.rn = R2, !.rm = R3, !.st = Txt(ops, 4), !.rs = Num(ops, 5)])
               [] OTHER -> NoAsm)
      [] mn \in {"mov", "mvn"} ->
            (CASE p = "ri" -> Dp([I0 EXCEPT !.enc = "dp_imm", !.s = sf, !.rd = R1, !.imm = R2])
               [] p = "rr" -> Dp([I0 EXCEPT !.enc = "dp_reg", !.s = sf, !.rd = R1, !.rm = R2])
               [] p = "rrwi" /\ IsSh(Txt(ops, 3)) ->
                     LET sh == ShiftOf(Txt(ops, 3), Num(ops, 4)) IN
                     Dp([I0 EXCEPT !.enc = "dp_reg", !.s = sf, !.rd = R1, !.rm = R2, !.st = sh[1], !.sa = sh[2]])
               [] p = "rrwr" /\ IsSh(Txt(ops, 3)) ->
                     Dp([I0 EXCEPT !.enc = "dp_rsr", !.s = sf, !.rd = R1, !.rm = R2, !.st = Txt(ops, 3), !.rs = Num(ops, 4)])
               [] OTHER -> NoAsm)
      [] mn \in Compares ->
            (CASE p = "ri" -> Dp([I0 EXCEPT !.enc = "dp_imm", !.s = TRUE, !.rn = R1, !.imm = R2])
               [] p = "rr" -> Dp([I0 EXCEPT !.enc = "dp_reg", !.s = TRUE, !.rn = R1, !.rm = R2])
               [] p = "rrwi" /\ IsSh(Txt(ops, 3)) ->
                     LET sh == ShiftOf(Txt(ops, 3), Num(ops, 4)) IN
                     Dp([I0 EXCEPT !.enc = "dp_reg", !.s = TRUE, !.rn = R1, !.rm = R2, !.st = sh[1], !.sa = sh[2]])
               [] p = "rrwr" /\ IsSh(Txt(ops, 3)) ->
                     Dp([I0 EXCEPT !.enc = "dp_rsr", !.s = TRUE, !.rn = R1, !.rm = R2, !.st = Txt(ops, 3), !.rs = Num(ops, 4)])
               [] OTHER -> NoAsm)
      \* LSL Rd, Rm, Rs / #n are the MOV (shifted register) instructions
      [] mn \in {"lsl", "lsr", "asr", "ror"} ->
            (CASE p = "rrr" -> [Dp([I0 EXCEPT !.enc = "dp_rsr", !.s = sf, !.rd = R1, !.rm = R2, !.st = mn, !.rs = R3]) EXCEPT !.mn = "mov"]
               [] p = "rri" -> LET sh == ShiftOf(mn, R3) IN
                     [Dp([I0 EXCEPT !.enc = "dp_reg", !.s = sf, !.rd = R1, !.rm = R2, !.st = sh[1], !.sa = sh[2]]) EXCEPT !.mn = "mov"]
               [] OTHER -> NoAsm)
      [] mn = "mul" /\ p = "rrr" -> Dp([I0 EXCEPT !.enc = "mul", !.s = sf, !.rd = R1, !.rn = R2, !.rm = R3])
      [] mn \in {"mla", "mls"} /\ p = "rrrr" -> Dp([I0 EXCEPT !.enc = "mul", !.s = sf, !.rd = R1, !.rn = R2, !.rm = R3, !.ra = Num(ops, 4)])
      [] mn \in {"sdiv", "udiv"} /\ p = "rrr" -> Dp([I0 EXCEPT !.enc = "div", !.rd = R1, !.rn = R2, !.rm = R3])
      \* addressing modes: [Rn, off] offset, [Rn, off]! pre-indexed, [Rn], off post-indexed;
      \* off = #imm | +/-Rm | +/-Rm, shift #n | +/-Rm, rrx   (fp = the operands without the brackets)
      [] mn \in {"ldr", "str", "ldrb", "strb"} /\ Addr /\ fp \in {"rri", "rr-i"} ->
            Dp([I0 EXCEPT !.enc = "ldst_imm", !.rd = R1, !.rn = Num(flat, 2), !.am = am,
                          !.imm = IF fp = "rri" THEN Num(flat, 3) ELSE -Num(flat, 4), !.sub = (fp = "rr-i" /\ Num(flat, 4) = 0)])
      [] mn \in {"ldr", "str", "ldrb", "strb"} /\ Addr /\ fp \in {"rrr", "rr-r", "rrrwi", "rr-rwi", "rrrw", "rr-rw"} ->
            LET neg == flat[3][1] = "-"  k == IF neg THEN 4 ELSE 3
                sh == IF Len(flat) = k THEN <<"", 0>>
                      ELSE IF Len(flat) = k + 1 THEN <<Txt(flat, k + 1), 0>>              \* rrx
                      ELSE ShiftOf(Txt(flat, k + 1), Num(flat, k + 2)) IN
            IF Len(flat) = k + 1 /\ Txt(flat, k + 1) # "rrx" THEN NoAsm
            ELSE Dp([I0 EXCEPT !.enc = "ldst_reg", !.rd = R1, !.rn = Num(flat, 2), !.rm = Num(flat, k), !.st = sh[1], !.sa = sh[2],
                               !.sub = neg, !.am = am])
      [] mn \in {"ldrh", "strh", "ldrsb", "ldrsh"} /\ Addr /\ fp \in {"rri", "rr-i"} ->
            Dp([I0 EXCEPT !.enc = "extra_imm", !.rd = R1, !.rn = Num(flat, 2), !.am = am,
                          !.imm = IF fp = "rri" THEN Num(flat, 3) ELSE -Num(flat, 4), !.sub = (fp = "rr-i" /\ Num(flat, 4) = 0)])
      [] mn \in {"ldrh", "strh", "ldrsb", "ldrsh"} /\ Addr /\ fp \in {"rrr", "rr-r"} ->
            Dp([I0 EXCEPT !.enc = "extra_reg", !.rd = R1, !.rn = Num(flat, 2), !.rm = Num(flat, Len(flat)), !.sub = (fp = "rr-r"), !.am = am])
      [] mn \in BlockNames /\ n >= 4 /\ ops[1][1] = "r" /\ ops[n][1] = "}"
              /\ ((ops[2][1] = "{" /\ AllKind(ops, 3, n - 1, "r")) \/ (n >= 5 /\ ops[2][1] = "!" /\ ops[3][1] = "{" /\ AllKind(ops, 4, n - 1, "r"))) ->
            LET wb == ops[2][1] = "!"  lst == {ops[k][2] : k \in (IF wb THEN 4 ELSE 3)..(n - 1)}
                md == BlockModeOf(mn) IN
            IF wb /\ R1 = SP /\ md[2] = "db" /\ md[1] = "stm" THEN [Dp([I0 EXCEPT !.enc = "block", !.rn = SP, !.list = lst]) EXCEPT !.mn = "push"]
            ELSE IF wb /\ R1 = SP /\ md[2] = "ia" /\ md[1] = "ldm" THEN [Dp([I0 EXCEPT !.enc = "block", !.rn = SP, !.list = lst]) EXCEPT !.mn = "pop"]
            ELSE [Dp([I0 EXCEPT !.enc = "block", !.rn = R1, !.list = lst, !.am = md[2] \o (IF wb THEN "!" ELSE "")]) EXCEPT !.mn = md[1]]
      [] mn \in {"ldr", "ldrb"} /\ p = "rl" ->
            Dp([I0 EXCEPT !.enc = "ldst_imm", !.rd = R1, !.rn = PC, !.imm = disp, !.am = "off"])
      [] mn \in {"ldrh", "ldrsb", "ldrsh"} /\ p = "rl" ->
            Dp([I0 EXCEPT !.enc = "extra_imm", !.rd = R1, !.rn = PC, !.imm = disp, !.am = "off"])
      [] mn = "adr" /\ p = "rl" -> Dp([I0 EXCEPT !.enc = IF disp < 0 THEN "adr_sub" ELSE "adr_add", !.rd = R1, !.rn = PC, !.imm = disp])
      [] mn \in {"b", "bl"} /\ p = "l" -> Dp([I0 EXCEPT !.enc = "branch", !.imm = disp])
      [] mn \in {"bx", "blx"} /\ p = "r" -> Dp([I0 EXCEPT !.enc = "misc", !.rm = R1])
      [] mn = "clz" /\ p = "rr" -> Dp([I0 EXCEPT !.enc = "misc", !.rd = R1, !.rm = R2])
      [] mn \in {"push", "pop"} /\ n >= 3 /\ ops[1][1] = "{" /\ ops[n][1] = "}" /\ AllKind(ops, 2, n - 1, "r") ->
            Dp([I0 EXCEPT !.enc = "block", !.rn = SP, !.list = {ops[k][2] : k \in 2..(n - 1)}])
      [] mn \in {"mcr", "mrc"} /\ p = "pircci" ->
            Dp([I0 EXCEPT !.enc = "cop", !.rd = R3, !.cp = <<R1, R2, Num(ops, 4), Num(ops, 5), Num(ops, 6)>>])
      [] mn \in {"movw", "movt"} /\ p = "ri" -> Dp([I0 EXCEPT !.enc = "movw", !.rd = R1, !.imm = R2])
      [] mn \in {"svc", "bkpt", "udf"} /\ p = "i" -> Dp([I0 EXCEPT !.enc = IF mn = "bkpt" THEN "misc" ELSE mn, !.imm = R1])
      [] mn \in {"nop", "yield", "wfe", "wfi", "sev"} /\ n = 0 -> Dp([I0 EXCEPT !.enc = "hint"])
      [] OTHER -> NoAsm
\* an assembled record made encodable: rotation chosen (smallest, A5.2.4), encoding-implied fields
Complete(i) ==
    CASE i.enc = "dp_imm" /\ ModImmOK(i.imm) -> [i EXCEPT !.rot = MinRot(i.imm)]
      [] i.enc \in {"adr_add", "adr_sub"} /\ ModImmOK(IF i.enc = "adr_sub" THEN Neg(i.imm) ELSE i.imm) ->
            [i EXCEPT !.rot = MinRot(IF i.enc = "adr_sub" THEN Neg(i.imm) ELSE i.imm), !.impl = {PC}]
      [] i.enc \in {"ldst_imm", "extra_imm"} /\ i.rn = PC /\ i.am = "off" /\ i.mn \notin Stores -> [i EXCEPT !.impl = {PC}]
      [] i.mn \in {"push", "pop"} -> [i EXCEPT !.impl = {SP}]
      [] OTHER -> i

-----------------------------------------------------------------------------
(* Operand ranges of the printed forms: <<mnemonics, pattern, lo, hi, align>> *)
(* (m = modified immediate: the listed sample values, inside iff ModImmOK)   *)
ARanges == {
    <<{"ldr", "str", "ldrb", "strb"}, "r[ri]", -4095, 4095, 1>>, <<{"ldrh", "strh", "ldrsb", "ldrsh"}, "r[ri]", -255, 255, 1>>,
    <<{"b", "bl"}, "l", -33554432, 33554428, 4>>, <<{"ldr"}, "rl", -4095, 4095, 1>>, <<{"mcr", "mrc"}, "pircci", 0, 7, 1>>,
    <<{"lsl"}, "w", 0, 31, 1>>, <<{"lsr", "asr"}, "w", 1, 32, 1>> }
AImmSamples == {0, 1, 4, 255, 256, 257, 258, 510, 1020, 1024, 4080, 4096, 65280, 261120, 16711680, 16711935,
                -16777216, -268435441, -1073741761, MinInt, -1, -256, 1073741824, 66846720}
=============================================================================
