----------------------------- MODULE Toolchain -----------------------------
(* ppci as a pipeline of transformers acting on an artifact (DESIGN §2).     *)
(* One compile is a trace of stage events recorded from the real code:       *)
(*   [st |-> stage, out |-> "ok" | "diag" | "error:<class>", arg |-> text]   *)
(* stages: "frontend" (source -> IR), "verify", "optimize" (one event per    *)
(* pass), "codegen" (one event per function: isel + regalloc + emit),        *)
(* "object" (object file complete).                                          *)
(* The spec states which stage may follow which, and the outcome laws:       *)
(*   C28  FrontendFailsOnlyWithDiagnostics                                   *)
(*   C29  CodegenSucceeds                                                    *)
EXTENDS Naturals, Sequences, TLC, Json, IOUtils

Traces == JsonDeserialize(IOEnv.TRACE_FILE)
NChunks == 32
VARIABLES chunk, i, l, stage, bad
vars == <<chunk, i, l, stage, bad>>

Init == chunk = 0 /\ i = 0 /\ l = 0 /\ stage = "idle" /\ bad = ""
PickChunk == chunk = 0 /\ chunk' \in 1..NChunks /\ UNCHANGED <<i, l, stage, bad>>
PickTrace == /\ chunk > 0 /\ i = 0
             /\ i' \in {k \in 1..Len(Traces) : k % NChunks = chunk - 1}
             /\ l' = 1 /\ stage' = "source" /\ bad' = "" /\ UNCHANGED chunk

T == Traces[i]
E == T.events[l]
HasEvent == i > 0 /\ bad = "" /\ l <= Len(T.events)
IsError(o) == o \notin {"ok", "diag"}

\* the pipeline order: which stage event is acceptable in which artifact state
Frontend == /\ HasEvent /\ E.st = "frontend" /\ stage = "source"
            /\ stage' = (IF E.out = "ok" THEN "ir" ELSE "stopped")
Verify   == /\ HasEvent /\ E.st = "verify" /\ stage \in {"ir", "optimized"}
            /\ stage' = (IF E.out = "ok" THEN stage ELSE "stopped")
Optimize == /\ HasEvent /\ E.st = "optimize" /\ stage \in {"ir", "optimized"}
            /\ stage' = (IF E.out = "ok" THEN "optimized" ELSE "stopped")
Codegen  == /\ HasEvent /\ E.st = "codegen" /\ stage \in {"ir", "optimized", "code"}
            /\ stage' = (IF E.out = "ok" THEN "code" ELSE "stopped")
Object   == /\ HasEvent /\ E.st = "object" /\ stage \in {"ir", "optimized", "code"}
            /\ stage' = (IF E.out = "ok" THEN "object" ELSE "stopped")
Step == (Frontend \/ Verify \/ Optimize \/ Codegen \/ Object)
        /\ l' = l + 1 /\ UNCHANGED <<chunk, i, bad>>
\* an event the pipeline has no action for (wrong order, event after a failure)
Reject == /\ HasEvent /\ ~ENABLED Step
          /\ bad' = "event out of order" /\ UNCHANGED <<chunk, i, l, stage>>
Next == PickChunk \/ PickTrace \/ Step \/ Reject

Consumed == i > 0 /\ l > 0 /\ l - 1 >= 1
Last == T.events[l - 1]

TraceFollowsPipeline == bad = ""

\* C28: a front-end ends with an artifact or a diagnostic, never an internal exception
FrontendFailsOnlyWithDiagnostics ==
    (Consumed /\ T.claim = "C28" /\ Last.st \in {"frontend", "verify"}) => ~IsError(Last.out)

\* C28 also covers the rest of the pipeline at every optimisation level for inputs the
\* front-end accepted (an accepted program must not crash the optimiser)
AcceptedInputDoesNotCrash ==
    (Consumed /\ T.claim = "C28" /\ Last.st \in {"optimize"}) => ~IsError(Last.out)

\* C29: supported IR => every stage of code generation completes
CodegenSucceeds ==
    (Consumed /\ T.claim = "C29" /\ Last.st \in {"verify", "optimize", "codegen", "object"}) => Last.out = "ok"
\* ... and a finished trace did reach the object file
Completes ==
    (i > 0 /\ T.claim = "C29" /\ l = Len(T.events) + 1 /\ bad = "") => stage = "object"
=============================================================================
