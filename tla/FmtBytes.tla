------------------------------ MODULE FmtBytes ------------------------------
(* Reading numbers out of a file image.  A file is a sequence F of bytes      *)
(* (0..255); offsets are 0-based: the byte at offset p is F[p + 1].           *)
(* TLC integers are 32-bit: a field is read as a word of byte limbs, least    *)
(* significant first (tla/Words.tla); fields that denote positions, sizes and *)
(* counts become numbers with FNum: exact below 2^24, FCap (= 2^24, larger    *)
(* than every file handled) otherwise, so that every "lies inside" test fails *)
(* for them.  (Parameter names avoid the names of state variables of the      *)
(* modules that extend this one.)                                             *)
EXTENDS Naturals, Sequences, Words

FCap == 16777216
FIn(F, off, cnt) == off >= 0 /\ cnt >= 0 /\ off < FCap /\ cnt < FCap /\ off + cnt <= Len(F)
\* cnt bytes at offset off as limbs, least significant first
FRawLE(F, off, cnt) == IF FIn(F, off, cnt) THEN Mk([k \in 1..cnt |-> F[off + k]]) ELSE Mk([k \in 1..cnt |-> 255])
FRawBE(F, off, cnt) == IF FIn(F, off, cnt) THEN Mk([k \in 1..cnt |-> F[off + cnt + 1 - k]]) ELSE Mk([k \in 1..cnt |-> 255])
FLimb(wd, k) == IF k <= Len(wd) THEN wd[k] ELSE 0
FNum(wd) == IF \A k \in 1..Len(wd) : k > 3 => wd[k] = 0
            THEN FLimb(wd, 1) + 256 * FLimb(wd, 2) + 65536 * FLimb(wd, 3) ELSE FCap
FNumLE(F, off, cnt) == IF FIn(F, off, cnt) THEN FNum(FRawLE(F, off, cnt)) ELSE FCap
FNumBE(F, off, cnt) == IF FIn(F, off, cnt) THEN FNum(FRawBE(F, off, cnt)) ELSE FCap
FBytes(F, off, cnt) == IF FIn(F, off, cnt) THEN SubSeq(F, off + 1, off + cnt) ELSE <<>>
FAllZero(F, off, cnt) == FIn(F, off, cnt) /\ \A k \in (off + 1)..(off + cnt) : F[k] = 0
FRoundUp(val, mult) == IF mult <= 0 THEN val ELSE ((val + mult - 1) \div mult) * mult
FIsPow2(val) == val \in {1, 2, 4, 8, 16, 32, 64, 128, 256, 512, 1024, 2048, 4096, 8192, 16384, 32768,
                         65536, 131072, 262144, 524288, 1048576, 2097152, 4194304, 8388608}
\* the NUL-terminated string at offset off (without the NUL); ok = FALSE when no NUL before the end / limit
RECURSIVE FScanNul(_, _, _)
FScanNul(F, p, lim) == IF p > lim THEN 0 ELSE IF F[p] = 0 THEN p ELSE FScanNul(F, p + 1, lim)
FCStr(F, off, maxlen) ==
    IF ~FIn(F, off, 1) THEN [ok |-> FALSE, s |-> <<>>]
    ELSE LET lim == IF off + maxlen < Len(F) THEN off + maxlen ELSE Len(F)
             e == FScanNul(F, off + 1, lim)
         IN IF e = 0 THEN [ok |-> FALSE, s |-> <<>>] ELSE [ok |-> TRUE, s |-> SubSeq(F, off + 1, e - 1)]
Fails(name, holds) == IF holds THEN {} ELSE {name}
=============================================================================
