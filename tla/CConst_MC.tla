----------------------------- MODULE CConst_MC -----------------------------
(* Idiom M: the byte-limb evaluator of CConst.tla is model-checked against  *)
(* the standard's rules stated over the mathematical integers, on toy data   *)
(* models whose widest type has 16 bits (so that every value fits a TLC      *)
(* integer), for every pair of operand types, every operator, every cast     *)
(* target and every use site, over boundary operands (Dense: more of them).    *)
(* One action per family of rules; the invariant of a family is evaluated in *)
(* the states that action produces, so TLC's action coverage shows that      *)
(* every family was exercised.                                               *)
EXTENDS CConst, Bitwise
CONSTANT Dense

\* A: char = short = int (8 bits), long = long long (16): unsigned char/short promote to unsigned int
\* B: int = long = long long (16), plain char unsigned, big-endian images
\* C: short = int (16) = long, char signed: the ordinary shape scaled down
Models == << [sb |-> 1, ib |-> 1, lb |-> 2, llb |-> 2, pb |-> 1, cs |-> TRUE,  be |-> FALSE],
             [sb |-> 1, ib |-> 2, lb |-> 2, llb |-> 2, pb |-> 2, cs |-> FALSE, be |-> TRUE],
             [sb |-> 2, ib |-> 2, lb |-> 2, llb |-> 2, pb |-> 2, cs |-> TRUE,  be |-> FALSE] >>

VARIABLES m, t1, t2, a, b, phase
vars == <<m, t1, t2, a, b, phase>>
Dm == Models[m]

\* families that do not depend on (t2, b) / on b are checked once per (t1, a) / (t1, t2, a)
OnlyA == {"unary", "cast", "sizeof", "init", "bfinit"}
OnlyAT == {"bound", "case", "width"}
\* Dense = FALSE (quick tier): models A and B, fewer operand values, 7 x 5 of the 11 x 11 operand type pairs
B1a == IF Dense THEN {0, 1, 2, 7, 8, 127, 128, 129, 254, 255} ELSE {0, 1, 128, 255}
B2a == IF Dense THEN {0, 1, 2, 9, 15, 16, 255, 256, 32767, 32768, 32769, 65534, 65535} ELSE {0, 1, 32768, 65535}
B1b == IF Dense THEN B1a ELSE {0, 1, 7, 8, 255}
B2b == IF Dense THEN B2a ELSE {0, 1, 15, 16, 65535}
T1s == IF Dense THEN IntTypes ELSE {"char", "uchar", "short", "int", "uint", "long", "ullong"}
T2s == IF Dense THEN IntTypes ELSE {"uchar", "int", "uint", "long", "ullong"}
ValsA(t, dm) == IF Size(t, dm) = 1 THEN {WFromNat(v, 1) : v \in B1a} ELSE {WFromNat(v, 2) : v \in B2a}
ValsB(t, dm) == IF Size(t, dm) = 1 THEN {WFromNat(v, 1) : v \in B1b} ELSE {WFromNat(v, 2) : v \in B2b}

Families == {"types", "arith", "divrem", "bitwise", "rel", "logical", "shift", "unary", "cond", "cast",
             "literal", "sizeof", "enum", "init", "bound", "case", "width", "bfinit"}
Init == /\ m \in (IF Dense THEN 1..Len(Models) ELSE 1..2) /\ t1 \in T1s /\ t2 \in T2s
        /\ a \in ValsA(t1, Models[m]) /\ b \in ValsB(t2, Models[m]) /\ phase = "pick"
Check(f) == /\ phase = "pick" /\ phase' = f /\ UNCHANGED <<m, t1, t2, a, b>>
            /\ f \in OnlyA => (t2 = "char" /\ WIsZero(b))
            /\ f \in OnlyAT => WIsZero(b)
            /\ f = "literal" => (t1 = "uchar" /\ t2 = "ullong")
CheckTypes == Check("types")      CheckArith == Check("arith")     CheckDivRem == Check("divrem")
CheckBitwise == Check("bitwise")  CheckRel == Check("rel")         CheckLogical == Check("logical")
CheckShift == Check("shift")      CheckUnary == Check("unary")     CheckCond == Check("cond")
CheckCast == Check("cast")        CheckLiteral == Check("literal") CheckSizeof == Check("sizeof")
CheckEnum == Check("enum")        CheckInit == Check("init")       CheckBound == Check("bound")
CheckCase == Check("case")        CheckWidth == Check("width")     CheckBfInit == Check("bfinit")
Next == \/ CheckTypes \/ CheckArith \/ CheckDivRem \/ CheckBitwise \/ CheckRel \/ CheckLogical \/ CheckShift
        \/ CheckUnary \/ CheckCond \/ CheckCast \/ CheckLiteral \/ CheckSizeof \/ CheckEnum \/ CheckInit
        \/ CheckBound \/ CheckCase \/ CheckWidth \/ CheckBfInit

\* a small slice of the domain, used for the run that records TLC's per-action coverage
Tiny == m = 1 /\ t1 = "uchar" /\ t2 \in {"char", "ullong"}

(* ---- the mathematical reading ------------------------------------------------ *)
Mod(z, k) == ((z % k) + k) % k
P(t) == IF Size(t, Dm) = 1 THEN 256 ELSE 65536
TMin(t) == IF IsSigned(t, Dm) THEN -(P(t) \div 2) ELSE 0
TMax(t) == IF IsSigned(t, Dm) THEN (P(t) \div 2) - 1 ELSE P(t) - 1
In(t, z) == TMin(t) <= z /\ z <= TMax(t)
IV(t, w) == LET u == WToNat(w) IN IF IsSigned(t, Dm) /\ u >= P(t) \div 2 THEN u - P(t) ELSE u
\* 6.3.1.3: unchanged if representable; modulo 2^N for unsigned; two's complement wrap for signed (impl.-defined)
ToT(t, z) == IF In(t, z) THEN z
             ELSE IF IsSigned(t, Dm) THEN Mod(z + P(t) \div 2, P(t)) - P(t) \div 2 ELSE Mod(z, P(t))
TDiv(x, y) == IF (x >= 0) = (y >= 0) THEN (IF x >= 0 THEN x \div y ELSE (-x) \div (-y))
              ELSE -(IF x >= 0 THEN x \div (-y) ELSE (-x) \div y)
RECURSIVE DoubleMod(_, _, _)
DoubleMod(x, c, k) == IF c = 0 THEN Mod(x, k) ELSE DoubleMod(Mod(2 * x, k), c - 1, k)
RECURSIVE Pow2(_)
Pow2(c) == IF c = 0 THEN 1 ELSE 2 * Pow2(c - 1)                    \* c <= 16
FloorDiv(x, d) == IF x >= 0 THEN x \div d ELSE -(((-x) + d - 1) \div d)       \* d > 0
FloorQ(x, y) == IF y > 0 THEN FloorDiv(x, y) ELSE FloorDiv(-x, -y)

va == IV(t1, a)
vb == IV(t2, b)
\* an expression of type t with value word w: a cast of a hexadecimal constant
\* (negative values as ~ of the complement, so that no cast in the builder changes a value)
Lit(w) == [k |-> "lit", base |-> 16, suf |-> "ull", mag |-> WResize(w, 8, FALSE)]
L(t, w) == IF IsSigned(t, Dm) /\ IsNegW(w)
           THEN [k |-> "cast", t |-> t, a |-> [k |-> "un", op |-> "inv", a |-> [k |-> "cast", t |-> t, a |-> Lit(WNot(w))]]]
           ELSE [k |-> "cast", t |-> t, a |-> Lit(w)]
A == L(t1, a)
B == L(t2, b)
Bin(op) == Eval([k |-> "bin", op |-> op, a |-> A, b |-> B], <<>>, Dm)
Un(op) == Eval([k |-> "un", op |-> op, a |-> A], <<>>, Dm)
OkIs(r, t, z) == IsOk(r) /\ r.t = t /\ Len(r.w) = Size(t, Dm) /\ IV(t, r.w) = z
T == UAC(t1, t2, Dm)
x == ToT(T, va)
y == ToT(T, vb)

(* ---- 6.3.1.1 / 6.3.1.8 stated declaratively ------------------------------------- *)
LawTypes == phase = "types" =>
    LET p1 == PromoT(t1, Dm)  p2 == PromoT(t2, Dm) IN
    /\ OkIs(Eval(A, <<>>, Dm), t1, va)                                  \* the operand builder is faithful
    /\ p1 \in {"int", "uint", "long", "ulong", "llong", "ullong"}
    /\ (Rank(t1) >= 3 => p1 = t1)
    /\ (Rank(t1) < 3 => (p1 = "int" <=> (In("int", TMin(t1)) /\ In("int", TMax(t1)))))
    /\ In(p1, va)                                                        \* promotion preserves the value
    /\ Rank(T) = (IF Rank(p1) >= Rank(p2) THEN Rank(p1) ELSE Rank(p2))
    /\ (IsSigned(T, Dm) <=> \/ (IsSigned(p1, Dm) /\ IsSigned(p2, Dm))
                            \/ \E s \in {p1, p2} : \E u \in {p1, p2} :
                                  /\ IsSigned(s, Dm) /\ ~IsSigned(u, Dm) /\ Rank(u) < Rank(s)
                                  /\ In(s, TMax(u)))
    /\ (IsSigned(T, Dm) => In(T, TMin(p1)) /\ In(T, TMax(p1)) /\ In(T, TMin(p2)) /\ In(T, TMax(p2)))
    /\ UAC(t2, t1, Dm) = T
    /\ Size(T, Dm) >= Size(p1, Dm) /\ Size(T, Dm) >= Size(p2, Dm)

Judge(r, z) == IF IsSigned(T, Dm) THEN (IF In(T, z) THEN OkIs(r, T, z) ELSE r.st = "undefined")
               ELSE OkIs(r, T, Mod(z, P(T))) /\ (("uwrap" \in r.fl) <=> ~In(T, z))
Small == (x < 32768 /\ x > -32769 /\ y < 32768 /\ y > -32769) \/ x \in {0, 1} \/ y \in {0, 1}
LawArith == phase = "arith" =>
    /\ Judge(Bin("add"), x + y)
    /\ Judge(Bin("sub"), x - y)
    /\ (Small => Judge(Bin("mul"), x * y))
    /\ (~Small => IsOk(Bin("mul")) /\ Bin("mul").t = T)      \* unsigned 16-bit: always defined

LawDivRem == phase = "divrem" =>
    LET q == Bin("div")  r == Bin("mod") IN
    IF y = 0 THEN q.st = "undefined" /\ r.st = "undefined"
    ELSE IF IsSigned(T, Dm) /\ x = TMin(T) /\ y = -1 THEN q.st = "undefined" /\ r.st = "undefined"
    ELSE /\ OkIs(q, T, TDiv(x, y))                           \* 6.5.5p6: truncation toward zero
         /\ OkIs(r, T, x - y * TDiv(x, y))                   \* (a/b)*b + a%b = a
         /\ (("trunc-div" \in q.fl) <=> TDiv(x, y) # FloorQ(x, y))   \* exactly where truncation and floor differ
         /\ (("trunc-rem" \in r.fl) <=> TDiv(x, y) # FloorQ(x, y))

LawBitwise == phase = "bitwise" =>
    LET ux == Mod(x, P(T))  uy == Mod(y, P(T)) IN
    /\ IsOk(Bin("and")) /\ Bin("and").t = T /\ WToNat(Bin("and").w) = ux & uy
    /\ IsOk(Bin("or"))  /\ Bin("or").t = T  /\ WToNat(Bin("or").w) = ux | uy
    /\ IsOk(Bin("xor")) /\ Bin("xor").t = T /\ WToNat(Bin("xor").w) = ux ^^ uy
    /\ WToNat(Bin("and").w) + WToNat(Bin("or").w) = ux + uy

LawRel == phase = "rel" =>
    LET tv(c) == IF c THEN 1 ELSE 0 IN
    /\ OkIs(Bin("lt"), "int", tv(x < y))  /\ OkIs(Bin("le"), "int", tv(x <= y))
    /\ OkIs(Bin("gt"), "int", tv(x > y))  /\ OkIs(Bin("ge"), "int", tv(x >= y))
    /\ OkIs(Bin("eq"), "int", tv(x = y))  /\ OkIs(Bin("ne"), "int", tv(x # y))

LawLogical == phase = "logical" =>
    LET tv(c) == IF c THEN 1 ELSE 0 IN
    /\ OkIs(Bin("land"), "int", tv(va # 0 /\ vb # 0))
    /\ OkIs(Bin("lor"), "int", tv(va # 0 \/ vb # 0))
    /\ OkIs(Un("not"), "int", tv(va = 0))

LawShift == phase = "shift" =>
    LET pa == PromoT(t1, Dm)
        width == 8 * Size(pa, Dm)
        l == Bin("shl")  r == Bin("shr") IN
    IF vb < 0 \/ vb >= width THEN l.st = "undefined" /\ r.st = "undefined"
    ELSE /\ (IF IsSigned(pa, Dm)
             THEN IF va < 0 THEN l.st = "undefined"
                  ELSE IF va > TMax(pa) \div Pow2(vb) THEN l.st = "undefined"      \* E1 * 2^E2 not representable
                  ELSE OkIs(l, pa, va * Pow2(vb))
             ELSE OkIs(l, pa, DoubleMod(va, vb, P(pa))))
         /\ OkIs(r, pa, FloorDiv(va, Pow2(vb)))      \* va >= 0: quotient; va < 0: arithmetic shift (impl.-defined)
         /\ (("impl-shr-negative" \in r.fl) <=> va < 0)

LawUnary == phase = "unary" =>
    LET p == PromoT(t1, Dm) IN
    /\ OkIs(Un("pos"), p, va)
    /\ (IF IsSigned(p, Dm) THEN (IF In(p, -va) THEN OkIs(Un("neg"), p, -va) ELSE Un("neg").st = "undefined")
        ELSE OkIs(Un("neg"), p, Mod(-va, P(p))))
    /\ (IF IsSigned(p, Dm) THEN OkIs(Un("inv"), p, -va - 1) ELSE OkIs(Un("inv"), p, P(p) - 1 - va))

LawCond == phase = "cond" =>
    LET r1 == Eval([k |-> "cond", c |-> A, a |-> A, b |-> B], <<>>, Dm)
        r2 == Eval([k |-> "cond", c |-> B, a |-> B, b |-> A], <<>>, Dm) IN
    /\ OkIs(r1, T, IF va # 0 THEN x ELSE y)
    /\ OkIs(r2, T, IF vb # 0 THEN y ELSE x)

LawCast == phase = "cast" =>
    \A t3 \in IntTypes :
        LET r == Eval([k |-> "cast", t |-> t3, a |-> A], <<>>, Dm) IN
        /\ OkIs(r, t3, ToT(t3, va))
        /\ (In(t3, va) <=> r.fl \cap {"castU", "castS"} = {})
        /\ (~In(t3, va) => (IF IsSigned(t3, Dm) THEN "castS" ELSE "castU") \in r.fl)

\* 6.4.4.1p5: the first type of the list in which the value can be represented
LawLiteral == phase = "literal" =>
    LET mag == WResize(a \o b, 3, FALSE)
        n == WToNat(mag) IN
    \A base \in {8, 10, 16} : \A suf \in {"", "u", "l", "ul", "ll", "ull"} :
        LET r == Eval([k |-> "lit", base |-> base, suf |-> suf, mag |-> WResize(mag, 8, FALSE)], <<>>, Dm)
            cs == LitCands(base = 10, suf)
            ok == {j \in 1..Len(cs) : n <= TMax(cs[j])} IN
        /\ (ok = {} <=> r.st = "skip")
        /\ (ok # {} => LET j == CHOOSE j \in ok : \A j2 \in ok : j <= j2 IN OkIs(r, cs[j], n))
        /\ (base = 10 /\ IsOk(r) /\ suf \notin {"u", "ul", "ull"} => IsSigned(r.t, Dm))   \* decimal: never unsigned
        /\ (suf \in {"u", "ul", "ull"} /\ IsOk(r) => ~IsSigned(r.t, Dm))

LawSizeof == phase = "sizeof" =>
    LET r == Eval([k |-> "sizeof", t |-> t1], <<>>, Dm)
        r2 == Eval([k |-> "sizeofe", a |-> [k |-> "bin", op |-> "add", a |-> A, b |-> B]], <<>>, Dm) IN
    /\ IsOk(r) /\ ~IsSigned(r.t, Dm) /\ Size(r.t, Dm) = Dm.pb /\ WToNat(r.w) = Size(t1, Dm)
    /\ (IsOk(r2) => WToNat(r2.w) = Size(T, Dm) /\ r2.t = r.t)

\* 6.7.2.2: enum { E1 = A, E2, E3 = E2 + B }
LawEnum == phase = "enum" =>
    LET env == EnumEnv(<< [has |-> TRUE, e |-> A], [has |-> FALSE, e |-> [k |-> "none"]],
                          [has |-> TRUE, e |-> [k |-> "bin", op |-> "add", a |-> [k |-> "enum", idx |-> 2], b |-> B]] >>, Dm)
        TI == UAC("int", t2, Dm) IN
    /\ Len(env) = 3
    /\ (IF In("int", va) THEN OkIs(env[1], "int", va) ELSE env[1].st = "skip")
    /\ (IF In("int", va) /\ va < TMax("int") THEN OkIs(env[2], "int", va + 1) ELSE env[2].st = "skip")
    /\ (IsOk(env[3]) => /\ IsOk(env[2])
                        /\ LET z == ToT(TI, va + 1) + ToT(TI, vb) IN
                           In("int", IF IsSigned(TI, Dm) THEN z ELSE Mod(z, P(TI)))
                           /\ IV("int", env[3].w) = (IF IsSigned(TI, Dm) THEN z ELSE Mod(z, P(TI))))

\* 6.7.9p11 + 6.3.1.3: the stored bytes are those of the converted value
RECURSIVE BytesVal(_, _)
BytesVal(s, j) == IF j > Len(s) THEN 0 ELSE s[j] + 256 * BytesVal(s, j + 1)
LawInit == phase = "init" =>
    \A dest \in IntTypes :
        LET e == ExpectInit(Eval(A, <<>>, Dm), dest, Dm)
            le == IF Dm.be THEN RevBytes(e.bytes) ELSE e.bytes IN
        /\ e.st = "ok" /\ Len(e.bytes) = Size(dest, Dm)
        /\ BytesVal(le, 1) = Mod(ToT(dest, va), P(dest))
        /\ (In(dest, va) <=> e.fl \cap {"destU", "destS"} = {})
LawBound == phase = "bound" =>
    LET e == ExpectBound(Eval(A, <<>>, Dm), t2, Dm) IN
    IF va <= 0 THEN e.st = "skip"
    ELSE IF va > MaxBound THEN e.st = "skip"
    ELSE e.st = "ok" /\ e.amount = va * Size(t2, Dm)
LawCase == phase = "case" =>
    LET e == ExpectCase(Eval(A, <<>>, Dm), t2, Dm)
        ps == PromoT(t2, Dm)
        V == ToT(ps, va) IN
    /\ e.st = "ok" /\ Len(e.probes) >= 4
    /\ \E j \in 1..Len(e.probes) : IV(ps, e.probes[j].x) = V
    /\ \E j \in 1..Len(e.probes) : IV(ps, e.probes[j].x) # V
    /\ \A j \in 1..Len(e.probes) : /\ Len(e.probes[j].x) = Size(ps, Dm)
                                    /\ WToNat(e.probes[j].r) = (IF IV(ps, e.probes[j].x) = V THEN 1 ELSE 0)
LawWidth == phase = "width" =>
    \A ft \in {"uint", "ulong", "uchar"} :
        LET e == ExpectWidth(Eval(A, <<>>, Dm), ft, Dm) IN
        IF va <= 0 \/ va > 8 * Size(ft, Dm) THEN e.st = "skip"
        ELSE /\ e.st = "ok"
             /\ \A j \in 1..Len(e.probes) : WToNat(e.probes[j].r) = Mod(WToNat(e.probes[j].x), Pow2(va))
             /\ \E j \in 1..Len(e.probes) : e.probes[j].r # e.probes[j].x \/ va = 8 * Size(ft, Dm)
\* 6.7.9p11 + 6.3.1.3 with the bit-field's width: struct { unsigned u : W; int s : W; ... } = { A, A, ... }
LawBfInit == phase = "bfinit" =>
    \A W \in 1..(8 * Dm.ib - 1) :
        LET ms == << [w |-> W, s |-> FALSE, e |-> A], [w |-> W, s |-> TRUE, e |-> A] >>
            e == ExpectBfInit(ms, <<>>, Dm)
            fits == -Pow2(W - 1) <= va /\ va < Pow2(W - 1)
            PU == {j \in 1..Len(e.probes) : e.probes[j].x = <<1>>}
            PS == {j \in 1..Len(e.probes) : e.probes[j].x = <<2>>} IN
        /\ e.st = "ok"
        /\ Cardinality(PU) = 1 /\ Cardinality(PS) = (IF fits THEN 1 ELSE 0)
        /\ \A j \in PU : IV("uint", e.probes[j].r) = Mod(va, Pow2(W))
        /\ \A j \in PS : IV("int", e.probes[j].r) = va
        /\ (("bf-signed-open" \in e.fl) <=> ~fits)
        /\ (("bfU" \in e.fl) <=> (va < 0 \/ va >= Pow2(W)))
=============================================================================
