--------------------------------- MODULE LR ---------------------------------
(* Context-free grammars, derivability, derivation trees, FIRST/nullable,   *)
(* the canonical LR(1) construction and the shift-reduce machine that runs  *)
(* an action/goto table (property C32; anchors ppci/lang/tools/lr.py,       *)
(* grammar.py, earley.py).                                                  *)
(*                                                                          *)
(* A grammar is a record                                                    *)
(*   [terms |-> <<"a","b">>, nonterms |-> <<"S","A">>,                      *)
(*    prods |-> << <<"S", <<"A","b">> >>, <<"A", <<>> >>, ... >>,           *)
(*    start |-> "S"]                                                        *)
(* (symbols are strings, a production is <<lhs, rhs>>, productions are      *)
(* numbered from 1 in the order of `prods`; ppci numbers them from 0).      *)
(* A word is a sequence of terminals.  "EOF" is the end marker and is never *)
(* a grammar symbol.                                                        *)
(*                                                                          *)
(* Parts:                                                                   *)
(*   1  grammars                       4  derivation trees                  *)
(*   2  nullable / FIRST (least fixpoints)   5  canonical LR(1) collection  *)
(*   3  Derives(G, w): CYK-style span fixpoint     and table construction   *)
(*                                     6  the shift-reduce machine          *)
(*                                     7  viable prefixes (LR(0) items)     *)
EXTENDS Naturals, Integers, Sequences, FiniteSets, TLC

EOF == "EOF"

-----------------------------------------------------------------------------
(* 1. Grammars *)
RangeOf(s) == {s[k] : k \in DOMAIN s}
Lhs(p) == p[1]
Rhs(p) == p[2]
Terms(G)    == RangeOf(G.terms)
NonTerms(G) == RangeOf(G.nonterms)
Symbols(G)  == Terms(G) \cup NonTerms(G)
NP(G) == Len(G.prods)
ProdsFor(G, X) == {k \in 1..NP(G) : Lhs(G.prods[k]) = X}
Lookaheads(G) == Terms(G) \cup {EOF}

IsGrammar(G) ==
    /\ Terms(G) \cap NonTerms(G) = {}
    /\ EOF \notin Symbols(G)
    /\ G.start \in NonTerms(G)
    /\ \A k \in 1..NP(G) : /\ Lhs(G.prods[k]) \in NonTerms(G)
                           /\ RangeOf(Rhs(G.prods[k])) \subseteq Symbols(G)

-----------------------------------------------------------------------------
(* 2. Nullable non-terminals and FIRST sets, both as least fixpoints.       *)
(*    FIRST(X) is the set of terminals that can begin a string derived from *)
(*    X; nullability is kept separately (no EPS pseudo-terminal).           *)
RECURSIVE NullFix(_, _)
NullFix(G, N) ==
    LET N2 == N \cup {Lhs(G.prods[k]) :
                        k \in {q \in 1..NP(G) : RangeOf(Rhs(G.prods[q])) \subseteq N}}
    IN IF N2 = N THEN N ELSE NullFix(G, N2)
Nullable(G) == NullFix(G, {})

SymFirst(G, F, s) == IF s \in NonTerms(G) THEN F[s] ELSE {s}
SeqNullable(nul, seq) == RangeOf(seq) \subseteq nul
\* terminals that can begin a string derived from the sentential form seq
SeqFirst(G, nul, F, seq) ==
    UNION {SymFirst(G, F, seq[k]) :
             k \in {q \in 1..Len(seq) : \A m \in 1..(q - 1) : seq[m] \in nul}}
RECURSIVE FirstFix(_, _, _)
FirstFix(G, nul, F) ==
    LET F2 == [X \in NonTerms(G) |->
                 F[X] \cup UNION {SeqFirst(G, nul, F, Rhs(G.prods[k])) : k \in ProdsFor(G, X)}]
    IN IF F2 = F THEN F ELSE FirstFix(G, nul, F2)
First(G) == FirstFix(G, Nullable(G), [X \in NonTerms(G) |-> {}])
\* FIRST(seq la): what can follow when seq is followed by look-ahead la
FirstOfSeq(G, nul, F, seq, la) ==
    SeqFirst(G, nul, F, seq) \cup (IF SeqNullable(nul, seq) THEN {la} ELSE {})

-----------------------------------------------------------------------------
(* 3. Derivability.  Spans(G, w) is the least family T, T[X][i] = set of     *)
(*    end positions j such that non-terminal X derives w[i+1..j]             *)
(*    (0 <= i <= j <= Len(w)), closed under the productions (CYK without     *)
(*    normal form; epsilon rules give j = i).                                *)
StepSym(nts, w, T, s, cur) ==
    IF s \in nts
    THEN UNION {T[s][p] : p \in cur}
    ELSE {q + 1 : q \in {p \in cur : p < Len(w) /\ w[p + 1] = s}}
\* end positions of derivations of rhs[k..] starting at one of the positions cur
RECURSIVE Ends(_, _, _, _, _, _)
Ends(nts, w, T, rhs, k, cur) ==
    IF k > Len(rhs) \/ cur = {} THEN cur
    ELSE Ends(nts, w, T, rhs, k + 1, StepSym(nts, w, T, rhs[k], cur))
SpanStep(G, nts, w, T) ==
    [X \in nts |-> [i \in 0..Len(w) |->
        T[X][i] \cup UNION {Ends(nts, w, T, Rhs(G.prods[k]), 1, {i}) : k \in ProdsFor(G, X)}]]
RECURSIVE SpanFix(_, _, _, _, _)
SpanFix(G, nts, w, T, T2) == IF T2 = T THEN T ELSE SpanFix(G, nts, w, T2, SpanStep(G, nts, w, T2))
Spans(G, w) ==
    LET nts == NonTerms(G)
        T0 == [X \in nts |-> [i \in 0..Len(w) |-> {}]]
    IN SpanFix(G, nts, w, T0, SpanStep(G, nts, w, T0))
DerivesFrom(G, X, w) == Len(w) \in Spans(G, w)[X][0]
Derives(G, w) == DerivesFrom(G, G.start, w)

\* The language up to length n, computed at once for all words: least family
\* L, L[X] = set of words of length <= n derived from X, closed under the
\* productions (every subtree of a derivation tree of a word of length <= n
\* yields a word of length <= n, so nothing is lost by truncating).
\* Law (model-checked in LR_MC):  w \in LangUpTo(G, n)  <=>  Derives(G, w).
CatUpTo(n, A, B) == UNION {{u \o v : v \in {x \in B : Len(x) <= n - Len(u)}} : u \in A}
RECURSIVE SeqLang(_, _, _, _, _, _)
SeqLang(nts, n, L, rhs, k, acc) ==
    IF k > Len(rhs) \/ acc = {} THEN acc
    ELSE SeqLang(nts, n, L, rhs, k + 1,
                 CatUpTo(n, acc, IF rhs[k] \in nts THEN L[rhs[k]] ELSE {<<rhs[k]>>}))
LangStep(G, nts, n, L) ==
    [X \in nts |-> L[X] \cup UNION {SeqLang(nts, n, L, Rhs(G.prods[k]), 1, {<<>>}) : k \in ProdsFor(G, X)}]
RECURSIVE LangFix(_, _, _, _, _)
LangFix(G, nts, n, L, L2) == IF L2 = L THEN L ELSE LangFix(G, nts, n, L2, LangStep(G, nts, n, L2))
LangsUpTo(G, n) ==
    LET nts == NonTerms(G)
        L0 == [X \in nts |-> {}]
    IN LangFix(G, nts, n, L0, LangStep(G, nts, n, L0))
LangUpTo(G, n) == LangsUpTo(G, n)[G.start]

\* all words over the terminals up to a length (for the model-checking configs)
WordsUpTo(G, n) == UNION {[1..m -> Terms(G)] : m \in 0..n}

-----------------------------------------------------------------------------
(* 4. Derivation trees.  A leaf is [tok |-> terminal, at |-> position in w],*)
(*    an inner node is [p |-> production number, kids |-> <<subtrees>>].    *)
(*    Anything else is not a tree.                                          *)
IsLeaf(t) == DOMAIN t = {"tok", "at"}
IsNode(t) == DOMAIN t = {"p", "kids"}
RootSym(G, t) == IF IsLeaf(t) THEN t.tok ELSE Lhs(G.prods[t.p])

RECURSIVE TreeOk(_, _)
TreeOk(G, t) ==
    \/ IsLeaf(t) /\ t.tok \in Terms(G)
    \/ /\ IsNode(t)
       /\ t.p \in 1..NP(G)
       /\ LET rhs == Rhs(G.prods[t.p])
          IN /\ Len(t.kids) = Len(rhs)
             /\ \A k \in 1..Len(rhs) : TreeOk(G, t.kids[k]) /\ RootSym(G, t.kids[k]) = rhs[k]

RECURSIVE Leaves(_), LeavesOf(_, _)
Leaves(t) == IF IsLeaf(t) THEN <<t>> ELSE IF IsNode(t) THEN LeavesOf(t.kids, 1) ELSE <<>>
LeavesOf(kids, k) == IF k > Len(kids) THEN <<>> ELSE Leaves(kids[k]) \o LeavesOf(kids, k + 1)

\* the productions applied, bottom-up left-to-right: the order in which an
\* LR parser calls the semantic actions (reverse rightmost derivation)
RECURSIVE PostOrder(_), PostOrderOf(_, _)
PostOrder(t) == IF IsNode(t) THEN PostOrderOf(t.kids, 1) \o <<t.p>> ELSE <<>>
PostOrderOf(kids, k) == IF k > Len(kids) THEN <<>> ELSE PostOrder(kids[k]) \o PostOrderOf(kids, k + 1)

\* leaves are exactly the tokens of w, in order (position = identity of the token)
YieldIs(t, w, from) ==
    LET y == Leaves(t)
    IN /\ Len(y) = Len(w)
       /\ \A k \in 1..Len(w) : y[k].tok = w[k] /\ y[k].at = from + k

\* t is a derivation tree of the word w from the start symbol
IsDerivationTree(G, t, w) ==
    /\ IsNode(t) /\ TreeOk(G, t)
    /\ RootSym(G, t) = G.start
    /\ YieldIs(t, w, 0)

-----------------------------------------------------------------------------
(* 5. Canonical LR(1) collection, mirroring LrParserBuilder: closure,       *)
(*    next_item_set (Goto), gen_canonical_set (Canonical), set_action /     *)
(*    generate_tables (SpecTables).  An item is <<production, dot, la>>.    *)
(*    As in ppci the grammar is NOT augmented: the initial item set is the  *)
(*    closure of the start symbol's productions with look-ahead EOF, and a  *)
(*    completed start production with look-ahead EOF gives the action       *)
(*    "accept p" (= final reduction by p; see AcceptStep below).            *)
Ctx(G) == [G |-> G, nul |-> Nullable(G), first |-> First(G)]

ItemRhs(G, it)   == Rhs(G.prods[it[1]])
ItemShift(G, it) == it[2] < Len(ItemRhs(G, it))
ItemNext(G, it)  == ItemRhs(G, it)[it[2] + 1]
\* the symbols after the one behind the dot
ItemRest(G, it)  == SubSeq(ItemRhs(G, it), it[2] + 2, Len(ItemRhs(G, it)))

\* [A -> alpha . C beta, a]  adds  [C -> . gamma, b]  for every b in FIRST(beta a)
ClosureStep(C, I) ==
    I \cup UNION {{<<q, 0, b>> : q \in ProdsFor(C.G, ItemNext(C.G, it)),
                               b \in FirstOfSeq(C.G, C.nul, C.first, ItemRest(C.G, it), it[3])} :
                    it \in {x \in I : ItemShift(C.G, x) /\ ItemNext(C.G, x) \in NonTerms(C.G)}}
RECURSIVE ClosureFix(_, _, _)
ClosureFix(C, I, I2) == IF I2 = I THEN I ELSE ClosureFix(C, I2, ClosureStep(C, I2))
Closure(C, I) == ClosureFix(C, I, ClosureStep(C, I))

Goto(C, I, X) ==
    Closure(C, {<<it[1], it[2] + 1, it[3]>> :
                  it \in {x \in I : ItemShift(C.G, x) /\ ItemNext(C.G, x) = X}})
InitialItems(C) == Closure(C, {<<p, 0, EOF>> : p \in ProdsFor(C.G, C.G.start)})

RECURSIVE CanonFix(_, _, _)
CanonFix(C, done, front) ==
    IF front = {} THEN done
    ELSE LET done2 == done \cup front
         IN CanonFix(C, done2,
                     {Goto(C, I, X) : I \in front, X \in Symbols(C.G)} \ (done2 \cup {{}}))
Canonical(C) == CanonFix(C, {}, {InitialItems(C)})

CanShift(G, I, t) == \E it \in I : ItemShift(G, it) /\ ItemNext(G, it) = t
Reduces(G, I, t)  == {it[1] : it \in {x \in I : ~ItemShift(G, x) /\ x[3] = t}}
SRConflict(G, I) == \E t \in Terms(G) : CanShift(G, I, t) /\ Reduces(G, I, t) # {}
RRConflict(G, I) == \E t \in Lookaheads(G) : Cardinality(Reduces(G, I, t)) > 1
HasSRConflict(G) == \E I \in Canonical(Ctx(G)) : SRConflict(G, I)
HasRRConflict(G) == \E I \in Canonical(Ctx(G)) : RRConflict(G, I)
IsLR1(G) == LET CC == Canonical(Ctx(G)) IN \A I \in CC : ~SRConflict(G, I) /\ ~RRConflict(G, I)

\* Tables in the format the machine reads (the format the harness exports
\* ppci's tables in): states are numbered from 0 (0 = initial item set);
\*   action[s + 1] : look-ahead -> [k |-> "shift", to |-> state]
\*                                | [k |-> "reduce", p |-> production]
\*                                | [k |-> "accept", p |-> production]
\*   goto[s + 1]   : non-terminal -> state
\* Shift/reduce conflicts are resolved in favour of shift (as ppci does);
\* for a reduce/reduce conflict an arbitrary production is taken (no claim is
\* made for such tables).
RECURSIVE SetToSeq(_)
SetToSeq(S) == IF S = {} THEN <<>> ELSE LET x == CHOOSE x \in S : TRUE IN <<x>> \o SetToSeq(S \ {x})

SpecTablesOf(C, CC) ==
    LET G == C.G
        init == InitialItems(C)
        order == <<init>> \o SetToSeq(CC \ {init})
        Num(I) == (CHOOSE n \in 1..Len(order) : order[n] = I) - 1
        ActFor(I, t) ==
            IF CanShift(G, I, t) THEN [k |-> "shift", to |-> Num(Goto(C, I, t))]
            ELSE LET p == CHOOSE p \in Reduces(G, I, t) : TRUE
                 IN IF Lhs(G.prods[p]) = G.start /\ t = EOF
                    THEN [k |-> "accept", p |-> p] ELSE [k |-> "reduce", p |-> p]
    IN [action |-> [n \in 1..Len(order) |->
                      [t \in {t \in Lookaheads(G) : CanShift(G, order[n], t) \/ Reduces(G, order[n], t) # {}}
                         |-> ActFor(order[n], t)]],
        goto |-> [n \in 1..Len(order) |->
                      [X \in {X \in NonTerms(G) : Goto(C, order[n], X) # {}} |-> Num(Goto(C, order[n], X))]]]
SpecTables(G) == LET C == Ctx(G) IN SpecTablesOf(C, Canonical(C))

-----------------------------------------------------------------------------
(* 6. The shift-reduce machine.  A configuration:                           *)
(*      stack  : states, bottom first (stack[1] = 0)                        *)
(*      syms   : grammar symbols between the states (Len = Len(stack) - 1)  *)
(*      vals   : the semantic values = derivation trees of those symbols    *)
(*      pos    : number of tokens consumed; look-ahead = w[pos+1] or EOF     *)
(*      status : "run" | "accept" | "reject" | "broken" | "diverge"         *)
(*      trace  : 0 for a shift, p for a reduction by production p           *)
(*      result : the tree returned on accept, [none |-> TRUE] before        *)
(*    "broken" = the table sends the machine somewhere impossible (missing  *)
(*    goto, handle not on the stack, shift of EOF, unknown production);     *)
(*    a correctly constructed table never does.                             *)
NoResult == [none |-> TRUE]
Cfg0 == [stack |-> <<0>>, syms |-> <<>>, vals |-> <<>>, pos |-> 0, status |-> "run",
         trace |-> <<>>, result |-> NoResult, why |-> ""]

Look(w, c) == IF c.pos < Len(w) THEN w[c.pos + 1] ELSE EOF
Top(c) == c.stack[Len(c.stack)]
ActOf(tab, s, a) ==
    IF s + 1 \in 1..Len(tab.action) /\ a \in DOMAIN tab.action[s + 1]
    THEN tab.action[s + 1][a] ELSE [k |-> "error"]
GotoOf(tab, s, X) ==
    IF s + 1 \in 1..Len(tab.goto) /\ X \in DOMAIN tab.goto[s + 1]
    THEN tab.goto[s + 1][X] ELSE -1
CurAct(tab, w, c) == ActOf(tab, Top(c), Look(w, c))
Broken(c, why) == [c EXCEPT !.status = "broken", !.why = why]
Front(s, n) == SubSeq(s, 1, Len(s) - n)
Back(s, n)  == SubSeq(s, Len(s) - n + 1, Len(s))

ShiftStep(w, c, act) ==
    IF c.pos >= Len(w) THEN Broken(c, "shift of EOF")
    ELSE [c EXCEPT !.stack = Append(@, act.to),
                   !.syms  = Append(@, w[c.pos + 1]),
                   !.vals  = Append(@, [tok |-> w[c.pos + 1], at |-> c.pos + 1]),
                   !.pos   = @ + 1,
                   !.trace = Append(@, 0)]

\* reduce by production p; `final` = the action was "accept p": the parse
\* is finished iff the reduction empties the stack down to the initial state
\* (the start symbol may also occur inside right-hand sides, where the same
\* completed item means an ordinary reduction).
ReduceStep(G, tab, c, p, final) ==
    IF p \notin 1..NP(G) THEN Broken(c, "unknown production")
    ELSE LET rhs == Rhs(G.prods[p])
             n == Len(rhs)
         IN IF Len(c.syms) < n THEN Broken(c, "stack underflow")
            ELSE IF Back(c.syms, n) # rhs THEN Broken(c, "handle not on the stack")
            ELSE LET base == Front(c.stack, n)
                     node == [p |-> p, kids |-> Back(c.vals, n)]
                     c2 == [c EXCEPT !.stack = base, !.syms = Front(c.syms, n),
                                     !.vals = Front(c.vals, n), !.trace = Append(@, p)]
                 IN IF final /\ Len(base) = 1
                    THEN [c2 EXCEPT !.status = "accept", !.result = node]
                    ELSE LET g == GotoOf(tab, base[Len(base)], Lhs(G.prods[p]))
                         IN IF g < 0 THEN Broken(c2, "no goto")
                            ELSE [c2 EXCEPT !.stack = Append(@, g),
                                            !.syms  = Append(@, Lhs(G.prods[p])),
                                            !.vals  = Append(@, node)]
ErrorStep(c) == [c EXCEPT !.status = "reject"]
Diverge(c) == [c EXCEPT !.status = "diverge"]

\* invariants of a configuration (theorems for tables built by SpecTables,
\* checks for tables built by the implementation)
StackShape(c) ==
    /\ Len(c.stack) = Len(c.syms) + 1 /\ Len(c.vals) = Len(c.syms)
    /\ c.stack[1] = 0
\* every stack symbol carries a derivation tree of itself ...
ValsDerive(G, c) ==
    \A k \in 1..Len(c.vals) : TreeOk(G, c.vals[k]) /\ RootSym(G, c.vals[k]) = c.syms[k]
\* ... and together they derive exactly the consumed input
RECURSIVE LeavesOfAll(_, _)
LeavesOfAll(vals, k) == IF k > Len(vals) THEN <<>> ELSE Leaves(vals[k]) \o LeavesOfAll(vals, k + 1)
StackDerivesPrefix(w, c) ==
    LET y == LeavesOfAll(c.vals, 1)
    IN /\ c.pos <= Len(w)
       /\ c.status # "accept" =>
            /\ Len(y) = c.pos
            /\ \A k \in 1..c.pos : y[k].tok = w[k] /\ y[k].at = k
\* accept only at the end of the input, with a derivation tree of the input
AcceptAtEnd(G, w, c) ==
    c.status = "accept" => /\ c.pos = Len(w) /\ c.stack = <<0>>
                           /\ IsDerivationTree(G, c.result, w)

-----------------------------------------------------------------------------
(* 7. Viable prefixes: gamma is viable iff some LR(0) item is valid for it, *)
(*    i.e. the LR(0) item automaton (items <<p, dot>>) has a run over gamma.*)
Closure0Step(G, I) ==
    I \cup UNION {{<<q, 0>> : q \in ProdsFor(G, Rhs(G.prods[it[1]])[it[2] + 1])} :
                    it \in {x \in I : x[2] < Len(Rhs(G.prods[x[1]]))}}
RECURSIVE Closure0Fix(_, _, _)
Closure0Fix(G, I, I2) == IF I2 = I THEN I ELSE Closure0Fix(G, I2, Closure0Step(G, I2))
Closure0(G, I) == Closure0Fix(G, I, Closure0Step(G, I))
Goto0(G, I, X) ==
    Closure0(G, {<<it[1], it[2] + 1>> :
                   it \in {x \in I : x[2] < Len(Rhs(G.prods[x[1]])) /\ Rhs(G.prods[x[1]])[x[2] + 1] = X}})
RECURSIVE Valid0(_, _, _, _)
Valid0(G, gamma, k, I) ==
    IF k > Len(gamma) \/ I = {} THEN I ELSE Valid0(G, gamma, k + 1, Goto0(G, I, gamma[k]))
ViablePrefix(G, gamma) ==
    Valid0(G, gamma, 1, Closure0(G, {<<p, 0>> : p \in ProdsFor(G, G.start)})) # {}
=============================================================================
