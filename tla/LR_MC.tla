------------------------------- MODULE LR_MC -------------------------------
(* Idiom M: model-check the specification itself.                           *)
(* For EVERY grammar with at most MaxProds productions, right-hand sides of *)
(* length <= MaxRhs over terminals {a,b} and non-terminals {S,A} (start S;  *)
(* every used non-terminal defined, A reachable), TLC                       *)
(*  - checks the laws tying the fixpoint definitions (Nullable, First) to    *)
(*    derivability (Spans);                                                 *)
(*  - builds the canonical LR(1) collection and the tables (LR!SpecTables), *)
(*    classifies the grammar (lr1 / sr = shift-reduce conflicts resolved    *)
(*    towards shift / rr = reduce-reduce conflict, no parser),              *)
(*  - runs the shift-reduce machine on every word of length <= MaxLen and   *)
(*    checks the stack discipline in every configuration and the verdict    *)
(*    in every final one:  lr1 => (accept <=> Derives), sr => (accept =>    *)
(*    Derives); the returned tree is a derivation tree of the input.        *)
EXTENDS LR
CONSTANTS MaxProds, MaxRhs, MaxLen, MaxSteps

Syms == {"a", "b", "S", "A"}
AllRhs == UNION {[1..n -> Syms] : n \in 0..MaxRhs}
AllProds == {<<X, r>> : X \in {"S", "A"}, r \in AllRhs}
RECURSIVE KSub(_, _)
KSub(S, k) == IF k = 0 THEN {{}} ELSE UNION {{T \cup {x} : x \in S \ T} : T \in KSub(S, k - 1)}
ProdSets == UNION {KSub(AllProds, k) : k \in 1..MaxProds}
Defined(ps, X) == \E p \in ps : p[1] = X
Uses(ps, X) == \E p \in ps : X \in RangeOf(p[2])
ValidSet(ps) ==
    /\ Defined(ps, "S")
    /\ Uses(ps, "A") <=> Defined(ps, "A")
    /\ Defined(ps, "A") => \E p \in ps : p[1] = "S" /\ "A" \in RangeOf(p[2])
MkG(ps) == [terms |-> <<"a", "b">>,
            nonterms |-> IF Defined(ps, "A") THEN <<"S", "A">> ELSE <<"S">>,
            prods |-> SetToSeq(ps), start |-> "S"]

VARIABLES G, cls, tab, w, c
vars == <<G, cls, tab, w, c>>

Classify(GG, CC) ==
    IF \E I \in CC : RRConflict(GG, I) THEN "rr"
    ELSE IF \E I \in CC : SRConflict(GG, I) THEN "sr" ELSE "lr1"

NoTables == [action |-> <<>>, goto |-> <<>>]
Init == /\ G \in {MkG(ps) : ps \in {q \in ProdSets : ValidSet(q)}}
        /\ cls = "new" /\ tab = NoTables /\ w = <<>>
        /\ c = [Cfg0 EXCEPT !.status = "idle"]

\* generate_tables: canonical collection, classification, tables
Build == /\ cls = "new"
         /\ LET C == Ctx(G)
                CC == Canonical(C)
            IN cls' = Classify(G, CC) /\ tab' = SpecTablesOf(C, CC)
         /\ UNCHANGED <<G, w, c>>

Start == /\ c.status = "idle" /\ cls \in {"lr1", "sr"}
         /\ w' \in WordsUpTo(G, MaxLen)
         /\ c' = Cfg0
         /\ UNCHANGED <<G, cls, tab>>
Running == c.status = "run" /\ Len(c.trace) < MaxSteps
Shift  == /\ Running /\ CurAct(tab, w, c).k = "shift"
          /\ c' = ShiftStep(w, c, CurAct(tab, w, c)) /\ UNCHANGED <<G, cls, tab, w>>
Reduce == /\ Running /\ CurAct(tab, w, c).k = "reduce"
          /\ c' = ReduceStep(G, tab, c, CurAct(tab, w, c).p, FALSE) /\ UNCHANGED <<G, cls, tab, w>>
Accept == /\ Running /\ CurAct(tab, w, c).k = "accept"
          /\ c' = ReduceStep(G, tab, c, CurAct(tab, w, c).p, TRUE) /\ UNCHANGED <<G, cls, tab, w>>
Error  == /\ Running /\ CurAct(tab, w, c).k = "error"
          /\ c' = ErrorStep(c) /\ UNCHANGED <<G, cls, tab, w>>
OutOfFuel == /\ c.status = "run" /\ Len(c.trace) >= MaxSteps
             /\ c' = Diverge(c) /\ UNCHANGED <<G, cls, tab, w>>
Next == Build \/ Start \/ Shift \/ Reduce \/ Accept \/ Error \/ OutOfFuel

Live == c.status \in {"run", "accept", "reject"}
Final == c.status \in {"accept", "reject"}

\* ---- laws of the definitions (evaluated once per grammar) ----------------
LawGrammar == IsGrammar(G)
\* (LawLang below ties LangsUpTo to the span definition on the same grammar, so
\* the FIRST laws may use the cheaper LangsUpTo)
LawNullable == (c.status = "idle" /\ cls = "new") =>
    Nullable(G) = {X \in NonTerms(G) : DerivesFrom(G, X, <<>>)}
\* every terminal that begins a derivable word is in FIRST
LawFirstComplete == (c.status = "idle" /\ cls = "new") =>
    LET L == LangsUpTo(G, MaxLen)
        F == First(G)
    IN \A X \in NonTerms(G) : \A v \in L[X] : v # <<>> => v[1] \in F[X]
\* and, when every non-terminal derives a word of length <= 1 (so witnesses
\* are short enough for the bound), nothing else is
LawFirstSound == (c.status = "idle" /\ cls = "new" /\ MaxLen >= 2 * MaxRhs - 1) =>
    LET L == LangsUpTo(G, MaxLen)
        F == First(G)
    IN (\A X \in NonTerms(G) : \E v \in L[X] : Len(v) <= 1) =>
         \A X \in NonTerms(G) : \A a \in F[X] : \E v \in L[X] : v # <<>> /\ v[1] = a
\* the language computed at once is the set of derivable words
LawLang == (c.status = "idle" /\ cls = "new") =>
    LET L == LangsUpTo(G, MaxLen)
    IN \A X \in NonTerms(G) : L[X] = {v \in WordsUpTo(G, MaxLen) : DerivesFrom(G, X, v)}
\* the tables have an entry exactly where an item asks for one
LawTables == (c.status = "idle" /\ cls # "new") =>
    /\ Len(tab.action) = Len(tab.goto)
    /\ \A n \in 1..Len(tab.action) : \A t \in DOMAIN tab.action[n] :
         tab.action[n][t].k = "shift" => tab.action[n][t].to \in 0..(Len(tab.action) - 1)

\* ---- invariants of the machine ------------------------------------------
NeverBroken == c.status \notin {"broken", "diverge"}
InvStackShape == Live => StackShape(c)
InvValsDerive == Live => ValsDerive(G, c)
InvPrefix == Live => StackDerivesPrefix(w, c)
InvViable == Live => ViablePrefix(G, c.syms)
InvAcceptAtEnd == Live => AcceptAtEnd(G, w, c)
InvTraceIsTree == c.status = "accept" => PostOrder(c.result) = SelectSeq(c.trace, LAMBDA x : x > 0)
\* ---- the theorem --------------------------------------------------------
Sound == c.status = "accept" => Derives(G, w)
Exact == (Final /\ cls = "lr1") => (c.status = "accept" <=> Derives(G, w))
=============================================================================
