------------------------------ MODULE M68k_Run ------------------------------
(* Batch driver of M68kExec.tla for linked images (property C05, m68k part):  *)
(* image loader + call wrapper + observation, on the shape of RV32_Run.tla.   *)
(*                                                                            *)
(* TRACE_FILE = JSON array of cases                                           *)
(*   id                                                                       *)
(*   img    [segs : Seq([addr, bytes]), entry, globals : Seq([name, addr, size])] *)
(*   calls  Seq([args : Seq(<<offset, bytes>>)])  argument block: bytes (memory *)
(*          order, big-endian values) at abase + offset                       *)
(*   abase  value of A0 at the call: ppci's m68k back-end addresses arguments *)
(*          (offset, A0) and its stack slots (negative offset, A0)            *)
(*   sp, ra stack pointer A7 at the call; the return address (a sentinel      *)
(*          outside every segment) lies at (A7)                               *)
(*   fuel   instruction budget                                                *)
(*   expect (optional) [status, d0, ...] for self-checks of this driver       *)
(* For every (case, call): load every byte of every segment, D0-D7 / A1-A6 = a *)
(* junk pattern, execute MK!Decode / Exec from `entry` until pc = ra, observe  *)
(*   status "ok" | "fuel" | "fault" (pc outside the image / odd, address      *)
(*          error) | "trap" | "outofmodel" (instruction outside M68kExec)     *)
(*   d0, final bytes of every global, kept = A7 is sp + 4 (return address     *)
(*   popped, nothing else left on the stack)                                  *)
(* NEXT NextEmit prints <<"OBS", case, call, 1, Obs, steps>> in every final    *)
(* state; the engine hands it to IR.tla as the case's obs record.             *)
EXTENDS M68kExec, TLC, Json, IOUtils

Cases == JsonDeserialize(IOEnv.TRACE_FILE)
CONSTANTS NChunks, Burst

VARIABLES chunk, i, av, m, status, steps
vars == <<chunk, i, av, m, status, steps>>
C == Cases[i]
Img == C.img
Call == C.calls[av]

SegCells(seg) == Mk([k \in 1..Len(seg.bytes) |-> <<W4(seg.addr + k - 1), seg.bytes[k]>>])
RECURSIVE AllCells(_, _)
AllCells(segs, k) == IF k > Len(segs) THEN <<>> ELSE SegCells(segs[k]) \o AllCells(segs, k + 1)
\* up to n bytes at address a inside one segment (fewer at the end of the segment), << >> outside
FetchAt(img, a, n) ==
    LET S == {k \in 1..Len(img.segs) : img.segs[k].addr <= a /\ a < img.segs[k].addr + Len(img.segs[k].bytes)} IN
    IF S = {} THEN <<>>
    ELSE LET seg == img.segs[CHOOSE k \in S : TRUE]
             have == seg.addr + Len(seg.bytes) - a
             cnt == IF have < n THEN have ELSE n IN
         Mk([j \in 1..cnt |-> seg.bytes[a - seg.addr + j]])
PcInt(w) == IF w[4] # 0 THEN -1 ELSE w[1] + 256 * w[2] + 65536 * w[3]

Junk(r) == <<(r * 37 + 11) % 256, 165, (r * 5 + 3) % 256, 90>>
RECURSIVE PutArgs(_, _, _, _)
PutArgs(mem, base, args, k) ==
    IF k > Len(args) THEN mem ELSE PutArgs(StoreBytes(mem, W4(base + args[k][1]), args[k][2], 1), base, args, k + 1)
D0regs == Mk([k \in 1..8 |-> Junk(k)])
A0regs(c) == Mk([k \in 1..8 |-> IF k = 1 THEN W4(c.abase) ELSE IF k = 8 THEN W4(c.sp) ELSE Junk(k + 8)])
Load(c, call) ==
    [pc |-> W4(c.img.entry), d |-> D0regs, a |-> A0regs(c), ccr |-> [x |-> 1, n |-> 0, z |-> 1, v |-> 0, c |-> 1],
     mem |-> PutArgs(StoreBE([salt |-> 7, ov |-> AllCells(c.img.segs, 1)], W4(c.sp), W4(c.ra)), c.abase, call.args, 1)]

Step1(img, s) ==
    LET a == PcInt(s.pc) IN
    IF a < 0 \/ a % 2 = 1 THEN [st |-> "fault", s |-> s]
    ELSE LET b == FetchAt(img, a, 10) IN
         IF Len(b) < 2 THEN [st |-> "fault", s |-> s]
         ELSE LET even == IF Len(b) % 2 = 0 THEN b ELSE Mk([j \in 1..(Len(b) - 1) |-> b[j]])
                  len == MK!DecWords(MK!Words(even)).len IN
              IF len > Len(even) THEN [st |-> "fault", s |-> s]
              ELSE CHOOSE r \in {IF t.st = "ok" THEN [st |-> "run", s |-> t.s] ELSE [st |-> t.st, s |-> s]
                                 : t \in {Exec(s, MK!Decode(Mk([j \in 1..len |-> even[j]])))}} : TRUE
RECURSIVE RunK(_, _, _, _, _)
RunK(img, s, n, k, sentinel) ==
    IF PcInt(s.pc) = sentinel THEN [st |-> "ok", s |-> s, n |-> n]
    ELSE IF k = 0 THEN [st |-> "run", s |-> s, n |-> n]
    ELSE CHOOSE r \in {IF t.st = "run" THEN RunK(img, t.s, n + 1, k - 1, sentinel) ELSE [st |-> t.st, s |-> t.s, n |-> n]
                       : t \in {Step1(img, s)}} : TRUE

Running == i > 0 /\ status = "run"
Finished == i > 0 /\ status \notin {"run", "idle"}
Min(a, b) == IF a <= b THEN a ELSE b
Exec_ ==
    /\ Running /\ steps < C.fuel
    /\ \E r \in {RunK(Img, m, 0, Min(Burst, C.fuel - steps), C.ra)} :
          /\ m' = r.s /\ status' = r.st /\ steps' = steps + r.n
    /\ UNCHANGED <<chunk, i, av>>
Exhaust == /\ Running /\ steps >= C.fuel
           /\ status' = (IF PcInt(m.pc) = C.ra THEN "ok" ELSE "fuel")
           /\ UNCHANGED <<chunk, i, av, m, steps>>

GlobalBytes(g) == LoadBytes(m.mem, W4(g.addr), g.size)
Obs == [status |-> status,
        d0 |-> IF status = "ok" THEN m.d[1] ELSE <<>>,
        globals |-> IF status = "ok" THEN Mk([k \in 1..Len(Img.globals) |-> [name |-> Img.globals[k].name,
                                                                             bytes |-> GlobalBytes(Img.globals[k])]])
                    ELSE <<>>,
        kept |-> IF status = "ok" THEN m.a[8] = W4(C.sp + 4) ELSE TRUE]

NoMachine == [pc |-> WZero(4), d |-> <<>>, a |-> <<>>, ccr |-> NoFlags, mem |-> [salt |-> 0, ov |-> <<>>]]
Init == chunk = 0 /\ i = 0 /\ av = 0 /\ m = NoMachine /\ status = "idle" /\ steps = 0
PickChunk == /\ chunk = 0 /\ chunk' \in 1..NChunks
             /\ UNCHANGED <<i, av, m, status, steps>>
PickCase == /\ chunk > 0 /\ i = 0
            /\ i' \in {k \in 1..Len(Cases) : k % NChunks = chunk - 1}
            /\ av' \in 1..Len(Cases[i'].calls)
            /\ m' = Load(Cases[i'], Cases[i'].calls[av'])
            /\ status' = "run" /\ steps' = 0
            /\ UNCHANGED chunk
Next == PickChunk \/ PickCase \/ Exec_ \/ Exhaust
EmitObs == Finished /\ PrintT(<<"OBS", i, av, 1, Obs, steps>>) /\ FALSE /\ UNCHANGED vars
NextEmit == Next \/ EmitObs

Shown == [i |-> i, av |-> av, status |-> status, steps |-> steps, pc |-> m.pc,
          d0 |-> IF Len(m.d) = 8 THEN m.d[1] ELSE <<>>]
-----------------------------------------------------------------------------
AsExpected ==
    (Finished /\ "expect" \in DOMAIN C) =>
        /\ status = C.expect.status
        /\ (status = "ok" => Obs.d0 = C.expect.d0[av] /\ Obs.kept)
TypeOK == status \in {"idle", "run", "ok", "fuel", "fault", "trap", "outofmodel"}
=============================================================================
