------------------------------ MODULE Dis_Eval ------------------------------
(* Idiom E for X18: one state per record observed on the real ppci code      *)
(* (harness/disgen.py), one invariant per clause; the clauses are stated     *)
(* with the operators of Dis.tla on the pattern table projected from the     *)
(* real instruction classes.                                                 *)
(*                                                                           *)
(* TRACE_FILE = [isas |-> <<table, ...>>, recs |-> <<record, ...>>]; a table *)
(* is a sequence of rows (Dis.tla).                                          *)
(* t = "ins": one instruction instance i of class cls of instruction set     *)
(*   isa: text = str(i), bits = i.encode(), fv = what every variable pattern *)
(*   put into its field, ops = the operands ([k, v, s]: kind, number as      *)
(*   bits, printed form); dec = what cls.decode(bytes) did: out = "decoded"  *)
(*   / "refused" (ValueError) / "crashed" (any other exception) / "unusable" *)
(*   (the decoded object cannot be printed or encoded), and for a decoded    *)
(*   object its text, its encoding (bits), its operands and field values;    *)
(*   cands = what the decode of every other class of the set with the same   *)
(*   encoding length did on the same bytes ([c, out, bits])                  *)
(* t = "stream": the encodings of parts (cls, bits, text, dtext = the text   *)
(*   its own class's decode printed) one after the other; at[b] = which      *)
(*   classes decoded which prefix of the stream at the b-th boundary         *)
(*   ([n bytes, c, out]); dis = what Disassembler.disasm emitted for the     *)
(*   whole stream ([ok, items = <<[text, bits], ...>>])                      *)
EXTENDS Dis, TLC, Json, IOUtils

Input == JsonDeserialize(IOEnv.TRACE_FILE)
Tabs == Input.isas
Recs == Input.recs

ChunkLen == 16
NChunks == (Len(Recs) + ChunkLen - 1) \div ChunkLen
VARIABLES chunk, i
vars == <<chunk, i>>
Init == chunk = 0 /\ i = 0
PickChunk == chunk = 0 /\ chunk' \in 1..NChunks /\ i' = 0
PickRec == chunk > 0 /\ i = 0 /\ chunk' = chunk
           /\ i' \in ((chunk - 1) * ChunkLen + 1)..(IF chunk * ChunkLen < Len(Recs) THEN chunk * ChunkLen ELSE Len(Recs))
Next == PickChunk \/ PickRec

R == Recs[i]
IsIns == i > 0 /\ Recs[i].t = "ins"
IsStream == i > 0 /\ Recs[i].t = "stream"
RowOf(isa, c) == Tabs[isa][c]
Own == RowOf(R.isa, R.cls)
\* the encoder of the class is the table alone
Plain(row) == row.flat /\ ~row.custom /\ ~row.opaque
Decoded == R.dec.out = "decoded"
WidthOf(row, k) == Len(row.pats[k].pos)

\* ---- the encoder side: the projected table is the encoder (binds the projection to the code)
EncodesTable == IsIns => ((Plain(Own) /\ PosInside(Own, Len(R.bits)) /\ Len(R.fv) = Len(Own.pats)) => R.bits = EncodeT(Own, R.fv))

\* ---- decode of the own class
\* a class a table-derived decoder can invert decodes every one of its encodings
Decodes == IsIns => ((Complete(Own) /\ FixedMatch(Own, R.bits) /\ RegFieldsOK(Own, R.bits)) => Decoded)
\* a decoded instruction can be printed and encoded
Usable == IsIns => R.dec.out # "unusable"
\* ... re-encodes to the same bytes
RoundTripBytes == IsIns => (Decoded => R.dec.bits = R.bits)
\* ... its fields are the fields of the word
FieldsInvert == IsIns => ((Decoded /\ Plain(Own) /\ FixedMatch(Own, R.bits) /\ Len(R.dec.fv) = Len(Own.pats)) =>
    \A k \in 1..Len(Own.pats) : ~Own.pats[k].fix => Congruent(R.dec.fv[k], DecodeT(Own, R.bits)[k], WidthOf(Own, k)))
\* ... its operands are the operands of i (numbers: as far as the field holds them)
SameOperands == IsIns => ((Decoded /\ Complete(Own)) =>
    /\ Len(R.dec.ops) = Len(R.ops)
    /\ \A o \in 1..Len(R.ops) :
          /\ R.dec.ops[o].k = R.ops[o].k
          /\ (R.ops[o].k \in {"reg", "int"} /\ SinglePlain(Own, o))
                => Congruent(R.ops[o].v, R.dec.ops[o].v, WidthOf(Own, PlainPatOf(Own, o))))
\* ... and it prints the same text when its operands print the same
TextEqual == IsIns => ((Decoded /\ Len(R.dec.ops) = Len(R.ops) /\ \A o \in 1..Len(R.ops) : R.dec.ops[o].s = R.ops[o].s)
                          => R.dec.text = R.text)

\* ---- decode of the other classes of the set on the same bytes
CandRow(j) == RowOf(R.isa, R.cands[j].c)
\* a class decodes only words its fixed bits match
MatchSound == IsIns => \A j \in 1..Len(R.cands) : R.cands[j].out = "decoded" => FixedMatch(CandRow(j), R.bits)
\* a class a table-derived decoder can invert decodes every word its fixed bits match (and whose register
\* fields name registers of the operand's class) and no other word
MatchExact == IsIns => \A j \in 1..Len(R.cands) : (Complete(CandRow(j)) /\ PosInside(CandRow(j), Len(R.bits))) =>
    /\ (FixedMatch(CandRow(j), R.bits) /\ RegFieldsOK(CandRow(j), R.bits)) => R.cands[j].out = "decoded"
    /\ ~(FixedMatch(CandRow(j), R.bits) /\ RegFieldsOK(CandRow(j), R.bits)) => R.cands[j].out # "decoded"
\* ... and reports the other words as undecodable the documented way (ValueError), whatever the order of its patterns
RefusesCleanly == IsIns => \A j \in 1..Len(R.cands) :
    (Complete(CandRow(j)) /\ PosInside(CandRow(j), Len(R.bits)) /\ ~(FixedMatch(CandRow(j), R.bits) /\ RegFieldsOK(CandRow(j), R.bits)))
        => R.cands[j].out = "refused"
\* where two classes overlap either may be chosen: whichever decodes re-encodes to the same bytes
AliasReencodes == IsIns => \A j \in 1..Len(R.cands) : (R.cands[j].out = "decoded" /\ Complete(CandRow(j))) => R.cands[j].bits = R.bits

\* ---- streams
PartRow(b) == RowOf(R.isa, R.parts[b].cls)
\* at an instruction boundary no instruction class decodes a prefix of another length
SplitUnambiguous == IsStream => \A b \in 1..Len(R.parts) : ~CatchAll(PartRow(b)) =>
    \A j \in 1..Len(R.at[b]) :
        (R.at[b][j].out = "decoded" /\ Complete(RowOf(R.isa, R.at[b][j].c)) /\ ~CatchAll(RowOf(R.isa, R.at[b][j].c)))
            => BB * R.at[b][j].n = Len(R.parts[b].bits)
\* ... and the instruction's own class decodes the prefix of the right length
SplitFinds == IsStream => \A b \in 1..Len(R.parts) :
    (Complete(PartRow(b)) /\ FixedMatch(PartRow(b), R.parts[b].bits) /\ RegFieldsOK(PartRow(b), R.parts[b].bits)) =>
        \E j \in 1..Len(R.at[b]) : R.at[b][j].c = R.parts[b].cls /\ BB * R.at[b][j].n = Len(R.parts[b].bits) /\ R.at[b][j].out = "decoded"
\* the Disassembler cuts the stream at the instruction boundaries and shows the instructions
DisassemblerSplits == IsStream =>
    /\ R.dis.ok
    /\ Len(R.dis.items) = Len(R.parts)
    /\ \A b \in 1..Len(R.parts) : b <= Len(R.dis.items) =>
          /\ R.dis.items[b].bits = R.parts[b].bits
          /\ Complete(PartRow(b)) => R.dis.items[b].text = R.parts[b].dtext
=============================================================================
