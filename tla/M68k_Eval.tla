----------------------------- MODULE M68k_Eval -----------------------------
(* Idiom E for the m68k part of C08 / C07: one state per record observed on  *)
(* the real ppci code (harness/m68kgen.py); one invariant per clause.        *)
(*                                                                           *)
(* t = "enc": one instruction instance of ppci.arch.m68k: mn, ops = the text *)
(*     ppci printed, tokenised; sym, pc = address of the label operand / of  *)
(*     the instruction; out = [ok, exc, bytes]: what encode() (+ the         *)
(*     instruction's own relocation) or the assembler and linker produced    *)
(* t = "rw":  mn, ops, sym, pc as above, bytes of the instance, uses / defs  *)
(*     / clob = numbers of the                                               *)
(*     registers ppci declares as read / written / clobbered (D0-D7 = 0..7,  *)
(*     A0-A7 = 8..15)                                                        *)
EXTENDS M68k, Json, IOUtils
Recs == JsonDeserialize(IOEnv.TRACE_FILE)
ChunkLen == 16
NChunks == (Len(Recs) + ChunkLen - 1) \div ChunkLen
VARIABLES chunk, idx
vars == <<chunk, idx>>
Init == chunk = 0 /\ idx = 0
PickChunk == chunk = 0 /\ chunk' \in 1..NChunks /\ idx' = 0
PickRec == chunk > 0 /\ idx = 0 /\ chunk' = chunk
           /\ idx' \in ((chunk - 1) * ChunkLen + 1)..(IF chunk * ChunkLen < Len(Recs) THEN chunk * ChunkLen ELSE Len(Recs))
Next == PickChunk \/ PickRec

SetOf(q) == {q[k] : k \in 1..Len(q)}
AsmOf(r) == Asm(r.mn, r.ops, r.sym, r.pc)

\* ---- C08: whatever ppci accepts and emits decodes to the operation and operands it prints
IsEnc == idx > 0 /\ Recs[idx].t = "enc"
\* not a verdict (a note): the printed line is outside the modelled assembly syntax
SyntaxKnown == (IsEnc /\ Recs[idx].mn # "invalid") => AsmOf(Recs[idx]) # NoAsm
\* not a verdict (a note; C10's question): ppci accepted an operand outside the range / an addressing mode
\* outside the set the architecture defines for the instruction
InDomain == (IsEnc /\ Recs[idx].out.ok /\ Recs[idx].mn # "invalid") =>
    \E a \in {AsmOf(Recs[idx])} : a # NoAsm => WF(a)
EncodingAgrees == (IsEnc /\ Recs[idx].out.ok /\ Recs[idx].mn # "invalid") =>
    \E a \in {AsmOf(Recs[idx])} : \E d \in {Decode(Recs[idx].out.bytes)} :
        (a # NoAsm /\ WF(a)) => Core(d) = Core(Norm(a))
\* spec validation only (text = the reference disassembler's output; "invalid" = it rejects the bytes)
RefInvalid == (IsEnc /\ Recs[idx].mn = "invalid") => ~Valid(Decode(Recs[idx].out.bytes))
RefAgrees == (IsEnc /\ Recs[idx].out.ok /\ Recs[idx].mn # "invalid") =>
    \E a \in {AsmOf(Recs[idx])} : \E d \in {Decode(Recs[idx].out.bytes)} :
        (a # NoAsm /\ WF(a) /\ d.mn # "unsupported") => Core(d) = Core(Norm(a))

\* ---- C07: the registers the emitted instruction reads / writes are declared
\* (judged only where the bytes are the printed instruction: anything else is C08's / C10's finding, reported as a note here)
IsRw == idx > 0 /\ Recs[idx].t = "rw"
IsPrinted(r, d) == \E a \in {AsmOf(r)} : a # NoAsm /\ WF(a) /\ Valid(d) /\ Core(d) = Core(Norm(a))
Decodable == IsRw => IsPrinted(Recs[idx], Decode(Recs[idx].bytes))
StaticWrites == IsRw => \E d \in {Decode(Recs[idx].bytes)} :
    IsPrinted(Recs[idx], d) => (Writes(d) \ ImplicitW(d)) \subseteq (SetOf(Recs[idx].defs) \cup SetOf(Recs[idx].clob))
StaticReads == IsRw => \E d \in {Decode(Recs[idx].bytes)} :
    IsPrinted(Recs[idx], d) => (Reads(d) \ ImplicitR(d)) \subseteq SetOf(Recs[idx].uses)
=============================================================================
