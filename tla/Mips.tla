-------------------------------- MODULE Mips --------------------------------
(* The MIPS32 instruction set (MIPS32 Architecture For Programmers, Volume   *)
(* II "The MIPS32 Instruction Set", release 1/2: chapter 3 instruction       *)
(* descriptions and appendix A "Instruction bit encodings", tables A.2       *)
(* (opcode field), A.3 (SPECIAL function field), A.4 (REGIMM rt field), A.5  *)
(* (SPECIAL2 function field)), transcribed from the manual independently of  *)
(* ppci.  Integer subset: no coprocessor / SPECIAL3 / cache instructions     *)
(* ("unsupported").                                                          *)
(*                                                                           *)
(*   Formats   R  opcode(6) rs(5) rt(5) rd(5) sa(5) function(6)              *)
(*             I  opcode(6) rs(5) rt(5) immediate(16)                        *)
(*             J  opcode(6) instr_index(26)                                  *)
(*   Matches(w)     the classes of table A.2 a word belongs to               *)
(*   DecodeW(w)     word <<hi, lo>> -> record;  Decode(b) little-endian      *)
(*                  byte string (ppci's mips target is little-endian)        *)
(*   EncodeW(i)     the reference encoder (inverse; laws in Mips_MC)         *)
(*   Asm(mn, ops, sym, pc)   meaning of a printed line in the manual's       *)
(*                  "Format:" syntax (ADD rd, rs, rt; SLLV rd, rt, rs;        *)
(*                  ADDI rt, rs, immediate; LW rt, offset(base); ...)        *)
(*   WF(i)          encodable record         Reads / Writes   GPR sets       *)
EXTENDS RiscCommon

NoReg == 32
RA == 31
(*  mn   mnemonic             rd rs rt   register fields named as in the manual *)
(*  sa   shift amount / sync stype       imm  immediate: sign-extended value  *)
(*  (addi.., loads / stores, traps), zero-extended (andi ori xori lui), byte *)
(*  offset from the delay-slot address (branches: 4 * sign-extended field),  *)
(*  instr_index (j, jal), code (syscall, break, register traps)              *)
I0 == [mn |-> "", rd |-> NoReg, rs |-> NoReg, rt |-> NoReg, sa |-> 0, imm |-> 0, fmt |-> "", len |-> 4]
NotInsn == {"reserved", "unsupported", "none"}
Bad(k) == [I0 EXCEPT !.mn = k]
Valid(i) == i.mn \notin NotInsn
Core(i) == [i EXCEPT !.fmt = ""]
NoAsm == [I0 EXCEPT !.mn = "none", !.len = 0]

-----------------------------------------------------------------------------
(* Table A.2: the opcode field, bits 31:26                                   *)
OpTab == <<"special", "regimm", "j", "jal", "beq", "bne", "blez", "bgtz",
           "addi", "addiu", "slti", "sltiu", "andi", "ori", "xori", "lui",
           "cop0", "cop1", "cop2", "cop1x", "beql", "bnel", "blezl", "bgtzl",
           "", "", "", "", "special2", "", "", "special3",
           "lb", "lh", "lwl", "lw", "lbu", "lhu", "lwr", "",
           "sb", "sh", "swl", "sw", "", "", "swr", "cache",
           "ll", "lwc1", "lwc2", "pref", "", "ldc1", "ldc2", "",
           "sc", "swc1", "swc2", "", "", "sdc1", "sdc2", "">>
(* Table A.3: SPECIAL, function field bits 5:0                                *)
SpecialTab == <<"sll", "", "srl", "sra", "sllv", "", "srlv", "srav",
                "jr", "jalr", "movz", "movn", "syscall", "break", "", "sync",
                "mfhi", "mthi", "mflo", "mtlo", "", "", "", "",
                "mult", "multu", "div", "divu", "", "", "", "",
                "add", "addu", "sub", "subu", "and", "or", "xor", "nor",
                "", "", "slt", "sltu", "", "", "", "",
                "tge", "tgeu", "tlt", "tltu", "teq", "", "tne", "",
                "", "", "", "", "", "", "", "">>
(* Table A.4: REGIMM, rt field bits 20:16                                    *)
RegimmTab == <<"bltz", "bgez", "bltzl", "bgezl", "", "", "", "",
               "tgei", "tgeiu", "tlti", "tltiu", "teqi", "", "tnei", "",
               "bltzal", "bgezal", "bltzall", "bgezall", "", "", "", "",
               "", "", "", "", "", "", "", "">>
(* Table A.5: SPECIAL2, function field                                       *)
Special2Fn == {<<0, "madd">>, <<1, "maddu">>, <<2, "mul">>, <<4, "msub">>, <<5, "msubu">>, <<32, "clz">>, <<33, "clo">>}

R3 == {"add", "addu", "sub", "subu", "and", "or", "xor", "nor", "slt", "sltu", "movz", "movn", "mul"}
ShI == {"sll", "srl", "sra", "rotr"}
ShV == {"sllv", "srlv", "srav", "rotrv"}
MulDiv == {"mult", "multu", "div", "divu", "madd", "maddu", "msub", "msubu"}
TrapR == {"tge", "tgeu", "tlt", "tltu", "teq", "tne"}
TrapI == {"tgei", "tgeiu", "tlti", "tltiu", "teqi", "tnei"}
ImmS == {"addi", "addiu", "slti", "sltiu"}
ImmU == {"andi", "ori", "xori"}
Br2 == {"beq", "bne", "beql", "bnel"}
Br1 == {"blez", "bgtz", "blezl", "bgtzl"}
BrRI == {"bltz", "bgez", "bltzl", "bgezl", "bltzal", "bgezal", "bltzall", "bgezall"}
Loads == {"lb", "lh", "lwl", "lw", "lbu", "lhu", "lwr", "ll"}
Stores == {"sb", "sh", "swl", "sw", "swr", "sc"}
IOps == ImmS \cup ImmU \cup Br2 \cup Br1 \cup Loads \cup Stores \cup {"lui"}

(* the classes of table A.2: a partition of the opcode space                 *)
Fmt == {"R", "RI", "J", "I", "S2", "COP", "S3", "RSV"}
CopOps == {16, 17, 18, 19, 49, 50, 53, 54, 57, 58, 61, 62}
Match(f, w) ==
    LET op == Op6(w) IN
    CASE f = "R"   -> op = 0
      [] f = "RI"  -> op = 1
      [] f = "J"   -> op \in {2, 3}
      [] f = "I"   -> OpTab[op + 1] \in IOps \cup {"cache", "pref"}
      [] f = "S2"  -> op = 28
      [] f = "COP" -> op \in CopOps
      [] f = "S3"  -> op = 31
      [] f = "RSV" -> OpTab[op + 1] = ""
Matches(w) == {f \in Fmt : Match(f, w)}

Ins(mn, f) == [I0 EXCEPT !.mn = mn, !.fmt = f]
DecSpecial(w) ==
    LET fn == F5(w)  rs == F25(w)  rt == F20(w)  rd == F15(w)  sa == F10(w)  m == SpecialTab[fn + 1] IN
    CASE m = "" -> Bad(IF fn = 1 THEN "unsupported" ELSE "reserved")      \* 1 = MOVCI (floating point condition)
      [] m \in R3 -> IF sa # 0 THEN Bad("reserved") ELSE [Ins(m, "R") EXCEPT !.rd = rd, !.rs = rs, !.rt = rt]
      [] m \in {"sll", "sra"} -> IF rs # 0 THEN Bad("reserved") ELSE [Ins(m, "R") EXCEPT !.rd = rd, !.rt = rt, !.sa = sa]
      [] m = "srl" -> IF rs > 1 THEN Bad("reserved")                       \* bit 21 = 1: ROTR (release 2)
                      ELSE [Ins(IF rs = 1 THEN "rotr" ELSE "srl", "R") EXCEPT !.rd = rd, !.rt = rt, !.sa = sa]
      [] m \in {"sllv", "srav"} -> IF sa # 0 THEN Bad("reserved") ELSE [Ins(m, "R") EXCEPT !.rd = rd, !.rt = rt, !.rs = rs]
      [] m = "srlv" -> IF sa > 1 THEN Bad("reserved")                      \* bit 6 = 1: ROTRV (release 2)
                       ELSE [Ins(IF sa = 1 THEN "rotrv" ELSE "srlv", "R") EXCEPT !.rd = rd, !.rt = rt, !.rs = rs]
      [] m = "jr" -> IF rt # 0 \/ rd # 0 THEN Bad("reserved")
                     ELSE IF sa # 0 THEN Bad("unsupported")                \* hint field: jr.hb
                     ELSE [Ins(m, "R") EXCEPT !.rs = rs]
      [] m = "jalr" -> IF rt # 0 THEN Bad("reserved")
                       ELSE IF sa # 0 THEN Bad("unsupported")
                       ELSE [Ins(m, "R") EXCEPT !.rd = rd, !.rs = rs]
      [] m \in {"syscall", "break"} -> [Ins(m, "R") EXCEPT !.imm = Bits(w[1], 0, 10) * 1024 + Bits(w[2], 6, 10)]  \* code 25:6
      [] m = "sync" -> IF rs # 0 \/ rt # 0 \/ rd # 0 THEN Bad("reserved") ELSE [Ins(m, "R") EXCEPT !.sa = sa]
      [] m \in {"mfhi", "mflo"} -> IF rs # 0 \/ rt # 0 \/ sa # 0 THEN Bad("reserved") ELSE [Ins(m, "R") EXCEPT !.rd = rd]
      [] m \in {"mthi", "mtlo"} -> IF rd # 0 \/ rt # 0 \/ sa # 0 THEN Bad("reserved") ELSE [Ins(m, "R") EXCEPT !.rs = rs]
      [] m \in MulDiv -> IF rd # 0 \/ sa # 0 THEN Bad("reserved") ELSE [Ins(m, "R") EXCEPT !.rs = rs, !.rt = rt]
      [] m \in TrapR -> [Ins(m, "R") EXCEPT !.rs = rs, !.rt = rt, !.imm = Bits(w[2], 6, 10)]               \* code 15:6
DecRegimm(w) ==
    LET m == RegimmTab[F20(w) + 1] IN
    CASE m = "" -> Bad(IF F20(w) = 31 THEN "unsupported" ELSE "reserved")  \* 31 = SYNCI
      [] m \in TrapI -> [Ins(m, "RI") EXCEPT !.rs = F25(w), !.imm = SignExt(Lo16(w), 16)]
      [] OTHER -> [Ins(m, "RI") EXCEPT !.rs = F25(w), !.imm = 4 * SignExt(Lo16(w), 16)]
DecSpecial2(w) ==
    LET fn == F5(w)  rs == F25(w)  rt == F20(w)  rd == F15(w)  sa == F10(w) IN
    IF \A p \in Special2Fn : p[1] # fn THEN Bad(IF fn = 63 THEN "unsupported" ELSE "reserved")   \* 63 = SDBBP
    ELSE LET m == (CHOOSE p \in Special2Fn : p[1] = fn)[2] IN
         CASE m = "mul" -> IF sa # 0 THEN Bad("reserved") ELSE [Ins(m, "S2") EXCEPT !.rd = rd, !.rs = rs, !.rt = rt]
           [] m \in {"clz", "clo"} -> IF sa # 0 THEN Bad("reserved")
                                      ELSE IF rt # rd THEN Bad("unsupported")  \* UNPREDICTABLE unless rt = rd
                                      ELSE [Ins(m, "S2") EXCEPT !.rd = rd, !.rs = rs]
           [] OTHER -> IF rd # 0 \/ sa # 0 THEN Bad("reserved") ELSE [Ins(m, "S2") EXCEPT !.rs = rs, !.rt = rt]
DecImm(w) ==
    LET m == OpTab[Op6(w) + 1]  rs == F25(w)  rt == F20(w)  v == Lo16(w) IN
    CASE m \in ImmS -> [Ins(m, "I") EXCEPT !.rt = rt, !.rs = rs, !.imm = SignExt(v, 16)]
      [] m \in ImmU -> [Ins(m, "I") EXCEPT !.rt = rt, !.rs = rs, !.imm = v]
      [] m = "lui" -> IF rs # 0 THEN Bad("reserved")                       \* 001111 00000 rt immediate
                      ELSE [Ins(m, "I") EXCEPT !.rt = rt, !.imm = v]
      [] m \in Br2 -> [Ins(m, "I") EXCEPT !.rs = rs, !.rt = rt, !.imm = 4 * SignExt(v, 16)]
      [] m \in Br1 -> IF rt # 0 THEN Bad("reserved") ELSE [Ins(m, "I") EXCEPT !.rs = rs, !.imm = 4 * SignExt(v, 16)]
      [] m \in Loads \cup Stores -> [Ins(m, "I") EXCEPT !.rt = rt, !.rs = rs, !.imm = SignExt(v, 16)]
      [] OTHER -> Bad("unsupported")                                        \* cache, pref
Dec(f, w) ==
    CASE f = "R" -> DecSpecial(w)
      [] f = "RI" -> DecRegimm(w)
      [] f = "J" -> [Ins(OpTab[Op6(w) + 1], "J") EXCEPT !.imm = Lo26(w)]
      [] f = "I" -> DecImm(w)
      [] f = "S2" -> DecSpecial2(w)
      [] f \in {"COP", "S3"} -> Bad("unsupported")
      [] f = "RSV" -> Bad("reserved")
DecodeW(w) == LET m == Matches(w) IN IF m = {} THEN Bad("reserved") ELSE Dec(CHOOSE f \in m : TRUE, w)
Decode(b) == IF Len(b) = 4 THEN DecodeW(WordLE(b)) ELSE [Bad("reserved") EXCEPT !.len = Len(b)]

-----------------------------------------------------------------------------
(* The reference encoder, from the same diagrams                              *)
IndexIn(tab, m) == (CHOOSE k \in 1..Len(tab) : tab[k] = m) - 1
R(r) == IF r = NoReg THEN 0 ELSE r
EncodeW(i) ==
    LET m == i.mn IN
    CASE m \in R3 \ {"mul"} -> MkW(0, i.rs, i.rt, MkLo(i.rd, 0, IndexIn(SpecialTab, m)))
      [] m = "mul" -> MkW(28, i.rs, i.rt, MkLo(i.rd, 0, 2))
      [] m \in {"sll", "srl", "sra"} -> MkW(0, 0, i.rt, MkLo(i.rd, i.sa, IndexIn(SpecialTab, m)))
      [] m = "rotr" -> MkW(0, 1, i.rt, MkLo(i.rd, i.sa, 2))
      [] m \in {"sllv", "srlv", "srav"} -> MkW(0, i.rs, i.rt, MkLo(i.rd, 0, IndexIn(SpecialTab, m)))
      [] m = "rotrv" -> MkW(0, i.rs, i.rt, MkLo(i.rd, 1, 6))
      [] m = "jr" -> MkW(0, i.rs, 0, MkLo(0, 0, 8))
      [] m = "jalr" -> MkW(0, i.rs, 0, MkLo(i.rd, 0, 9))
      [] m \in {"syscall", "break"} -> <<i.imm \div 1024, (i.imm % 1024) * 64 + IndexIn(SpecialTab, m)>>
      [] m = "sync" -> MkW(0, 0, 0, MkLo(0, i.sa, 15))
      [] m \in {"mfhi", "mflo"} -> MkW(0, 0, 0, MkLo(i.rd, 0, IndexIn(SpecialTab, m)))
      [] m \in {"mthi", "mtlo"} -> MkW(0, i.rs, 0, MkLo(0, 0, IndexIn(SpecialTab, m)))
      [] m \in {"mult", "multu", "div", "divu"} -> MkW(0, i.rs, i.rt, MkLo(0, 0, IndexIn(SpecialTab, m)))
      [] m \in {"madd", "maddu", "msub", "msubu"} -> MkW(28, i.rs, i.rt, (CHOOSE p \in Special2Fn : p[2] = m)[1])
      [] m \in {"clz", "clo"} -> MkW(28, i.rs, i.rd, MkLo(i.rd, 0, (CHOOSE p \in Special2Fn : p[2] = m)[1]))
      [] m \in TrapR -> MkW(0, i.rs, i.rt, i.imm * 64 + IndexIn(SpecialTab, m))
      [] m \in TrapI -> MkW(1, i.rs, IndexIn(RegimmTab, m), Pattern(i.imm, 16))
      [] m \in BrRI -> MkW(1, i.rs, IndexIn(RegimmTab, m), Pattern(i.imm \div 4, 16))
      [] m \in {"j", "jal"} -> MkJ(IndexIn(OpTab, m), i.imm)
      [] m \in ImmS \cup Loads \cup Stores -> MkW(IndexIn(OpTab, m), i.rs, i.rt, Pattern(i.imm, 16))
      [] m \in ImmU -> MkW(IndexIn(OpTab, m), i.rs, i.rt, i.imm)
      [] m = "lui" -> MkW(15, 0, i.rt, i.imm)
      [] m \in Br2 -> MkW(IndexIn(OpTab, m), i.rs, i.rt, Pattern(i.imm \div 4, 16))
      [] m \in Br1 -> MkW(IndexIn(OpTab, m), i.rs, 0, Pattern(i.imm \div 4, 16))
Encode(i) == BytesLE(EncodeW(i))

(* Encodable records: which fields an instruction has and their ranges       *)
Reg(r) == r \in 0..31
S16(v) == -32768 <= v /\ v <= 32767
Off18(v) == -131072 <= v /\ v <= 131068 /\ v % 4 = 0
Has(i, rd, rs, rt) == /\ (IF rd THEN Reg(i.rd) ELSE i.rd = NoReg) /\ (IF rs THEN Reg(i.rs) ELSE i.rs = NoReg)
                      /\ (IF rt THEN Reg(i.rt) ELSE i.rt = NoReg)
WF(i) ==
    LET m == i.mn IN
    /\ i.len = 4
    /\ CASE m \in R3 -> Has(i, TRUE, TRUE, TRUE) /\ i.sa = 0 /\ i.imm = 0
         [] m \in ShI -> Has(i, TRUE, FALSE, TRUE) /\ i.sa \in 0..31 /\ i.imm = 0
         [] m \in ShV -> Has(i, TRUE, TRUE, TRUE) /\ i.sa = 0 /\ i.imm = 0
         [] m = "jr" -> Has(i, FALSE, TRUE, FALSE) /\ i.sa = 0 /\ i.imm = 0
         [] m = "jalr" -> Has(i, TRUE, TRUE, FALSE) /\ i.sa = 0 /\ i.imm = 0
         [] m \in {"syscall", "break"} -> Has(i, FALSE, FALSE, FALSE) /\ i.sa = 0 /\ i.imm \in 0..1048575
         [] m = "sync" -> Has(i, FALSE, FALSE, FALSE) /\ i.sa \in 0..31 /\ i.imm = 0
         [] m \in {"mfhi", "mflo"} -> Has(i, TRUE, FALSE, FALSE) /\ i.sa = 0 /\ i.imm = 0
         [] m \in {"mthi", "mtlo"} -> Has(i, FALSE, TRUE, FALSE) /\ i.sa = 0 /\ i.imm = 0
         [] m \in MulDiv -> Has(i, FALSE, TRUE, TRUE) /\ i.sa = 0 /\ i.imm = 0
         [] m \in {"clz", "clo"} -> Has(i, TRUE, TRUE, FALSE) /\ i.sa = 0 /\ i.imm = 0
         [] m \in TrapR -> Has(i, FALSE, TRUE, TRUE) /\ i.sa = 0 /\ i.imm \in 0..1023
         [] m \in TrapI -> Has(i, FALSE, TRUE, FALSE) /\ i.sa = 0 /\ S16(i.imm)
         [] m \in BrRI \cup Br1 -> Has(i, FALSE, TRUE, FALSE) /\ i.sa = 0 /\ Off18(i.imm)
         [] m \in Br2 -> Has(i, FALSE, TRUE, TRUE) /\ i.sa = 0 /\ Off18(i.imm)
         [] m \in {"j", "jal"} -> Has(i, FALSE, FALSE, FALSE) /\ i.sa = 0 /\ i.imm \in 0..67108863
         [] m \in ImmS \cup Loads \cup Stores -> Has(i, FALSE, TRUE, TRUE) /\ i.sa = 0 /\ S16(i.imm)
         [] m \in ImmU -> Has(i, FALSE, TRUE, TRUE) /\ i.sa = 0 /\ i.imm \in Half
         [] m = "lui" -> Has(i, FALSE, FALSE, TRUE) /\ i.sa = 0 /\ i.imm \in Half
         [] OTHER -> FALSE
\* the immediates / displacements are in range (register operands the instruction does not have stay a mismatch)
ImmWF(i) == IF i.mn = "lui" THEN WF([i EXCEPT !.rs = NoReg]) ELSE WF(i)

-----------------------------------------------------------------------------
(* Meaning of a printed line (the "Format:" lines of the instruction         *)
(* descriptions).  sym / pc: address of the label operand and of the         *)
(* instruction.  J / JAL reach the 256 MB region of the delay slot:           *)
(* instr_index = target<27:2>; JumpReach says whether the label is there.    *)
JumpReach(sym, pc) == sym >= 0 /\ sym % 4 = 0 /\ sym \div P2(28) = (pc + 4) \div P2(28)
Asm(mn, ops, sym, pc) ==
    LET p == Pat(ops)  R1 == Num(ops, 1)  R2 == Num(ops, 2)  R3n == Num(ops, 3) IN
    CASE mn \in R3 /\ p = "rrr" -> [Ins(mn, "") EXCEPT !.rd = R1, !.rs = R2, !.rt = R3n]          \* ADD rd, rs, rt
      [] mn \in ShV /\ p = "rrr" -> [Ins(mn, "") EXCEPT !.rd = R1, !.rt = R2, !.rs = R3n]         \* SLLV rd, rt, rs
      [] mn \in ShI /\ p = "rri" -> [Ins(mn, "") EXCEPT !.rd = R1, !.rt = R2, !.sa = R3n]         \* SLL rd, rt, sa
      [] mn \in ImmS \cup ImmU /\ p = "rri" -> [Ins(mn, "") EXCEPT !.rt = R1, !.rs = R2, !.imm = R3n]  \* ADDI rt, rs, immediate
      [] mn = "lui" /\ p = "ri" -> [Ins(mn, "") EXCEPT !.rt = R1, !.imm = R2]                     \* LUI rt, immediate
      \* ppci's three-operand spelling "lui rt, rs, immediate": LUI has no rs operand (bits 25:21 are 00000);
      \* the line means LUI only when that operand is register 0
      [] mn = "lui" /\ p = "rri" -> [Ins(mn, "") EXCEPT !.rt = R1, !.rs = IF R2 = 0 THEN NoReg ELSE R2, !.imm = R3n]
      [] mn \in Loads \cup Stores /\ p = "ri(r)" ->                                                \* LW rt, offset(base)
            [Ins(mn, "") EXCEPT !.rt = R1, !.imm = R2, !.rs = Num(ops, 4)]
      [] mn = "jr" /\ p = "r" -> [Ins(mn, "") EXCEPT !.rs = R1]
      [] mn = "jalr" /\ p = "r" -> [Ins(mn, "") EXCEPT !.rd = RA, !.rs = R1]                      \* JALR rs (rd = 31 implied)
      [] mn = "jalr" /\ p = "rr" -> [Ins(mn, "") EXCEPT !.rd = R1, !.rs = R2]                     \* JALR rd, rs
      [] mn \in {"j", "jal"} /\ p = "l" ->
            IF JumpReach(sym, pc) THEN [Ins(mn, "") EXCEPT !.imm = (sym \div 4) % P2(26)]
            ELSE [Ins(mn, "") EXCEPT !.imm = -1]                                                  \* not reachable: not encodable
      [] mn \in Br2 /\ p = "rrl" -> [Ins(mn, "") EXCEPT !.rs = R1, !.rt = R2, !.imm = sym - (pc + 4)]
      [] mn \in Br1 \cup BrRI /\ p = "rl" -> [Ins(mn, "") EXCEPT !.rs = R1, !.imm = sym - (pc + 4)]
      [] mn \in MulDiv /\ p = "rr" -> [Ins(mn, "") EXCEPT !.rs = R1, !.rt = R2]
      [] mn \in {"mfhi", "mflo"} /\ p = "r" -> [Ins(mn, "") EXCEPT !.rd = R1]
      [] mn \in {"mthi", "mtlo"} /\ p = "r" -> [Ins(mn, "") EXCEPT !.rs = R1]
      [] mn \in {"clz", "clo"} /\ p = "rr" -> [Ins(mn, "") EXCEPT !.rd = R1, !.rs = R2]
      [] mn \in TrapR /\ p = "rr" -> [Ins(mn, "") EXCEPT !.rs = R1, !.rt = R2]
      [] mn \in TrapI /\ p = "ri" -> [Ins(mn, "") EXCEPT !.rs = R1, !.imm = R2]
      [] mn \in {"syscall", "break", "sync"} /\ p = "" -> Ins(mn, "")
      [] mn = "nop" /\ p = "" -> [Ins("sll", "") EXCEPT !.rd = 0, !.rt = 0]                       \* NOP = SLL r0, r0, 0
      [] OTHER -> NoAsm

-----------------------------------------------------------------------------
(* General-purpose registers an instruction reads / writes (HI / LO and the  *)
(* pc are not GPRs; r0 is hard-wired and never counts).  LWL / LWR merge     *)
(* into rt, MOVZ / MOVN keep rd when the condition fails: both depend on the *)
(* old value.                                                                *)
WritesRd == R3 \cup ShI \cup ShV \cup {"mfhi", "mflo", "jalr", "clz", "clo"}
WritesRt == ImmS \cup ImmU \cup Loads \cup {"lui", "sc"}
ReadsRt == R3 \cup ShI \cup ShV \cup MulDiv \cup TrapR \cup Br2 \cup Stores \cup {"lwl", "lwr"}
Links == {"jal", "bltzal", "bgezal", "bltzall", "bgezall"}
Reads(i) == ({i.rs} \cup (IF i.mn \in ReadsRt THEN {i.rt} ELSE {}) \cup (IF i.mn \in {"movz", "movn"} THEN {i.rd} ELSE {}))
            \ {0, NoReg}
LinkW(i) == (IF i.mn \in Links THEN {RA} ELSE {}) \cup (IF i.mn = "jalr" THEN {i.rd} \ {0} ELSE {})
Writes(i) == ((IF i.mn \in WritesRd THEN {i.rd} ELSE {}) \cup (IF i.mn \in WritesRt THEN {i.rt} ELSE {}) \cup LinkW(i))
             \ {0, NoReg}

-----------------------------------------------------------------------------
(* Operand ranges of the printed forms: <<mnemonics, pattern, lo, hi, alignment>> *)
(* (l of j / jal: the absolute label address with the instruction in region 0) *)
Ranges == {
    <<ImmS, "rri", -32768, 32767, 1>>, <<ImmU \cup {"lui"}, "rri", 0, 65535, 1>>, <<{"lui"}, "ri", 0, 65535, 1>>,
    <<Loads \cup Stores, "ri(r)", -32768, 32767, 1>>, <<ShI, "rri", 0, 31, 1>>,
    <<{"j", "jal"}, "l", 0, 268435452, 4>>, <<Br2, "rrl", -131072, 131068, 4>>, <<Br1 \cup BrRI, "rl", -131072, 131068, 4>>,
    <<TrapI, "ri", -32768, 32767, 1>> }
=============================================================================
