---------------------------- MODULE AllocCheck_MC ----------------------------
(* Idiom M: AllocCheck.tla model-checked on its own.                         *)
(*                                                                           *)
(* Every program of 1..MaxLen instructions from a small menu over            *)
(*   machine registers 1 (contains 2), 2, 3 and virtual registers 4, 5       *)
(* is combined with                                                          *)
(*   phase "colour": every colouring of 4 and 5 with 1..3 and three ways of   *)
(*       deleting moves (none / those within one location / all), giving a    *)
(*       ColourCheck case;                                                   *)
(*   phase "spill":  the rewrite of virtual register 4 into a stack slot      *)
(*       (Rewrite below = the specification of rewrite_program: a fresh       *)
(*       register per touched instruction, a load block before it if it       *)
(*       reads, a store block after it if it writes), correct or with one     *)
(*       store / load block left out, giving a SpillRewriteCheck case.        *)
(* The lock-step machine of AllocCheck then explores all paths.  Checked:     *)
(*   ProperColouringIsAccepted  a colouring that respects the interference    *)
(*       relation (two names live-out or defined at one instruction, or one   *)
(*       of them and a clobbered register, never in overlapping registers;    *)
(*       only moves within one location deleted) never violates a clause —    *)
(*       the property cannot raise a false alarm on a correct allocation;     *)
(*   CorrectRewriteIsAccepted   the same for the correct spill rewrite;       *)
(*   LivenessIsPathLiveness     the data-flow liveness used for normalising   *)
(*       states is the path definition of liveness;                          *)
(*   TypeOK.                                                                 *)
(* The engine additionally requires that each clause IS violated by some      *)
(* improper colouring / broken rewrite (witness runs, anti-vacuity).          *)
EXTENDS AllocCheck

CONSTANTS MaxLen, Menu

NP == 3
Arch == [np |-> NP, sub |-> <<<<2>>, <<>>, <<>>>>]
Ov == OvOf(Arch)
Virt == {4, 5}
NN == 5

\* instruction shapes; the id (= position) and fall-through targets are filled in by Place
DefI(x)    == <<0, <<>>, <<x>>, <<>>, <<>>, 0>>
UseI(x)    == <<0, <<x>>, <<>>, <<>>, <<>>, 0>>
MovI(d, s) == <<0, <<s>>, <<d>>, <<>>, <<>>, 1>>
OpI(d, s)  == <<0, <<d, s>>, <<d>>, <<>>, <<>>, 0>>
ClobI(p)   == <<0, <<>>, <<>>, <<p>>, <<>>, 0>>
JmpI(t)    == <<0, <<>>, <<>>, <<>>, <<t>>, 0>>
CJmpI(t)   == <<0, <<>>, <<>>, <<>>, <<t, 0>>, 0>>       \* 0 = the next instruction

Names == IF Menu = "full" THEN {1, 2, 4, 5} ELSE {2, 4, 5}
Instrs ==
    IF Menu = "tiny" THEN {DefI(4), DefI(5), UseI(4), UseI(5), OpI(4, 5), ClobI(3), MovI(5, 4), CJmpI(1)} ELSE
    {DefI(x) : x \in Names} \cup {UseI(x) : x \in Names}
    \cup {MovI(d, s) : d \in Names, s \in Names \ {1}}
    \cup {OpI(d, s) : d \in Virt, s \in Virt}
    \cup {ClobI(p) : p \in (IF Menu = "full" THEN {2, 3} ELSE {3})}
    \cup {CJmpI(t) : t \in 1..MaxLen}
    \cup (IF Menu = "full" THEN {JmpI(t) : t \in 1..MaxLen} ELSE {})

\* give instruction e position i in a program of length n
Place(e, i, n) ==
    <<i, e[2], e[3], e[4],
      IF e[5] = <<>> THEN <<>>
      ELSE IF Len(e[5]) = 2 /\ i < n THEN <<e[5][1], i + 1>> ELSE <<e[5][1]>>,
      e[6]>>
JumpsInside(e, n) == \A k \in 1..Len(e[5]) : e[5][k] <= n

VARIABLES phase, prog, colr, rm, brk, pc, last, cur, holds, tab
vars == <<phase, prog, colr, rm, brk, pc, last, cur, holds, tab>>
View == <<phase, prog, colr, rm, brk, pc, last, cur, holds>>
Empty == [r \in {} |-> 0]
NoTab == [n |-> 0]

Init == /\ phase = "build" /\ prog = <<>> /\ colr = <<>> /\ rm = "none" /\ brk = 0
        /\ pc = 0 /\ last = 0 /\ cur = Empty /\ holds = Empty /\ tab = NoTab

\* ---- building the case ----
AddInstr == /\ phase = "build" /\ Len(prog) < MaxLen
            /\ \E e \in Instrs : prog' = Append(prog, e)
            /\ UNCHANGED <<phase, colr, rm, brk, pc, last, cur, holds, tab>>

Placed(p) == Mk([i \in 1..Len(p) |-> Place(p[i], i, Len(p))])
WellFormed(p) == \A i \in 1..Len(p) : JumpsInside(p[i], Len(p))

LocC(c, r) == IF r <= NP THEN r ELSE c[r]
ColourCase(W, c, mode) ==
    LET removed == {i \in 1..Len(W) :
                       /\ IsMv(W[i]) /\ mode # "none"
                       /\ (mode = "all" \/ LocC(c, D(W[i])[1]) = LocC(c, U(W[i])[1]))}
        S == SelectSeq(W, LAMBDA e : Id(e) \notin removed)
    IN [mode |-> "colour", nn |-> NN, W |-> W, S |-> S, colour |-> c, blocks |-> <<>>, chain |-> <<>>,
        pre |-> Mk([i \in 1..Len(W) |-> i]), post |-> Mk([k \in 1..Len(S) |-> Id(S[k])])]

StartColour ==
    /\ phase = "build" /\ Len(prog) >= 1 /\ WellFormed(prog)
    /\ \E c4 \in 1..NP : \E c5 \in 1..NP : \E m \in {"none", "same", "all"} :
          \* only the deletion modes that differ on this program and colouring
          /\ m = "same" => \E i \in 1..Len(prog) : /\ IsMv(prog[i])
                                                   /\ LocC(<<1, 2, 3, c4, c5>>, D(prog[i])[1]) = LocC(<<1, 2, 3, c4, c5>>, U(prog[i])[1])
          /\ m = "all" => \E i \in 1..Len(prog) : /\ IsMv(prog[i])
                                                  /\ LocC(<<1, 2, 3, c4, c5>>, D(prog[i])[1]) # LocC(<<1, 2, 3, c4, c5>>, U(prog[i])[1])
          /\ colr' = <<1, 2, 3, c4, c5>> /\ rm' = m
          /\ tab' = Build(ColourCase(Placed(prog), <<1, 2, 3, c4, c5>>, m), Ov)
    /\ phase' = "colour" /\ pc' = 1 /\ UNCHANGED <<prog, brk, last, cur, holds>>

(* The specification of rewrite_program for the temporary 4: walk the list; an   *)
(* instruction that mentions 4 gets a fresh register (NN + its position) in      *)
(* place of 4, a load block before it if it reads 4 and a store block after it   *)
(* if it writes 4.  `skip' = the number of one block that is left out (0 = none). *)
Touches(e) == 4 \in Range(U(e)) \cup Range(D(e))
Ren(s, x) == Mk([k \in 1..Len(s) |-> IF s[k] = 4 THEN x ELSE s[k]])
\* pieces contributed by instruction i of the original list, with their original ids
\* piece = <<kind ("load" | "ins" | "store"), original id, fresh register>>
Pieces(W, i) ==
    IF ~Touches(W[i]) THEN <<<<"ins", i, 0>>>>
    ELSE (IF 4 \in Range(U(W[i])) THEN <<<<"load", i, NN + i>>>> ELSE <<>>)
         \o <<<<"ins", i, NN + i>>>>
         \o (IF 4 \in Range(D(W[i])) THEN <<<<"store", i, NN + i>>>> ELSE <<>>)
RECURSIVE Flat(_, _, _)
Flat(P, i, n) == IF i > n THEN <<>> ELSE P[i] \o Flat(P, i + 1, n)
SpillCase(W0, skip) ==
    LET n == Len(W0)
        all == Flat([i \in 1..n |-> Pieces(W0, i)], 1, n)
        blockIdx == {k \in 1..Len(all) : all[k][1] # "ins"}
        \* leave out the skip-th block
        dropped == IF skip = 0 \/ skip > Cardinality(blockIdx) THEN 0
                   ELSE CHOOSE k \in blockIdx : Cardinality({j \in blockIdx : j <= k}) = skip
        kept == SelectSeq(Mk([k \in 1..Len(all) |-> <<k, all[k]>>]), LAMBDA x : x[1] # dropped)
        pieces == Mk([k \in 1..Len(kept) |-> kept[k][2]])
        m == Len(pieces)
        \* new position of original instruction i
        posOf == [i \in 1..n |-> CHOOSE k \in 1..m : pieces[k][1] = "ins" /\ pieces[k][2] = i]
        after == Mk([k \in 1..m |->
                    LET pk == pieces[k]  e == W0[pk[2]] IN
                    IF pk[1] = "load" THEN <<k, <<>>, <<pk[3]>>, <<>>, <<>>, 0>>
                    ELSE IF pk[1] = "store" THEN <<k, <<pk[3]>>, <<>>, <<>>, <<>>, 0>>
                    ELSE <<k, Ren(U(e), pk[3]), Ren(D(e), pk[3]), C(e),
                           Mk([t \in 1..Len(J(e)) |-> posOf[J(e)[t]]]), e[6]>>])
        before == Mk([i \in 1..n |->
                    <<posOf[i], U(W0[i]), D(W0[i]), C(W0[i]),
                      Mk([t \in 1..Len(J(W0[i])) |-> posOf[J(W0[i])[t]]]), W0[i][6]>>])
        blks == SelectSeq(Mk([k \in 1..m |-> <<IF pieces[k][1] = "load" THEN 1 ELSE IF pieces[k][1] = "store" THEN 2 ELSE 0,
                                                pieces[k][3], 1, <<k>>>>]), LAMBDA b : b[1] # 0)
    IN [mode |-> "spill", nn |-> NN + n, W |-> after, S |-> before, colour |-> <<>>, blocks |-> blks, chain |-> <<>>,
        pre |-> <<>>, post |-> <<>>]

StartSpill ==
    /\ phase = "build" /\ Len(prog) >= 1 /\ WellFormed(prog)
    /\ \E i \in 1..Len(prog) : Touches(prog[i])
    \* assumption on the input (true of ppci's lists: jump targets are labels or bare jumps):
    \* no jump lands on an instruction that mentions the spilled register
    /\ \A i \in 1..Len(prog) : \A k \in 1..Len(prog[i][5]) :
          prog[i][5][k] # 0 => ~Touches(prog[prog[i][5][k]])
    /\ \A i \in 1..(Len(prog) - 1) : Len(prog[i][5]) = 2 => ~Touches(prog[i + 1])
    /\ \E skip \in 0..(2 * Len(prog)) :
          /\ skip <= Cardinality({k \in 1..Len(prog) : 4 \in Range(U(prog[k]))})
                     + Cardinality({k \in 1..Len(prog) : 4 \in Range(D(prog[k]))})
          /\ brk' = skip
          /\ tab' = Build(SpillCase(Placed(prog), skip), Ov)
    /\ phase' = "spill" /\ pc' = 1 /\ UNCHANGED <<prog, colr, rm, last, cur, holds>>

\* ---- the machine (same actions as AllocCheck_Trace) ----
P == tab
At == P.T[pc]
Running == phase \in {"colour", "spill"} /\ pc >= 1 /\ pc <= P.n
Healthy == /\ ReadsOK(P, pc, cur, holds) /\ NoShareStep(P, last, cur) /\ RemovedOK(P, pc) /\ InsertedOK(P, pc)
\* one step of the machine at an entry of the given kind; a path is followed only while the
\* property holds on it (Healthy), so every failing path prefix is reported once
At_(kind) == /\ Running /\ At.kind = kind /\ Healthy /\ last' = pc /\ UNCHANGED <<phase, prog, colr, rm, brk, tab>>
\* an instruction of both programs: reads are checked (Healthy / invariants), definitions take effect
Exec == /\ At_("both")
        /\ \E j \in At.succ : \E s \in {ExecTo(P, pc, j, cur, holds)} :
              pc' = j /\ cur' = s.cur /\ holds' = s.holds
\* a coalesced move deleted by remove_redundant_moves: only the ground truth moves on
RemovedMove == /\ At_("spec")
               /\ \E j \in At.succ : \E s \in {RemovedTo(P, pc, j, cur, holds)} :
                     pc' = j /\ cur' = s.cur /\ holds' = s.holds
\* spill code inserted by rewrite_program: one load / store block, atomically
SpillBlock == /\ At_("impl") /\ At.blk # 0
              /\ \E s \in {BlockTo(P, pc, cur, holds)} :
                    pc' = pc + At.blkLen /\ cur' = s.cur /\ holds' = s.holds
Next == AddInstr \/ StartColour \/ StartSpill \/ Exec \/ RemovedMove \/ SpillBlock

\* ---- what a correct allocator guarantees (the interference relation) ----
LiveOut(i) == UNION {P.live[s] : s \in P.T[i].succ}
Overlap(a, b) == P.loc[b] \in OvL(P.ov, P.loc[a])
Proper ==
    /\ \A i \in 1..P.n :
          LET ld == LiveOut(i) \cup P.T[i].def IN
          /\ \A a \in ld : \A b \in ld : a # b => ~Overlap(a, b)
          /\ \A a \in ld : \A c \in P.T[i].clob : P.loc[a] \notin OvL(P.ov, c)
    /\ \A i \in 1..P.n : RemovedOK(P, i)
Structure == /\ P.subList /\ P.sameOps /\ P.jumpsOK /\ P.located /\ P.blocksOK /\ P.removedOK

ProperColouringIsAccepted ==
    (phase = "colour" /\ Proper) =>
        /\ Structure
        /\ Running => Healthy
CorrectRewriteIsAccepted ==
    (phase = "spill" /\ brk = 0) =>
        /\ Structure
        /\ Running => Healthy
\* the incremental form of sentence 2 used by the machine is sentence 2
IncrementalNoSharingIsNoSharing == Running => (NoShareStep(P, last, cur) <=> NoShare(P, cur))
LivenessIsPathLiveness ==
    (phase # "build" /\ pc = 1) =>
        \A i \in 1..P.n : \A r \in 1..P.nn : (r \in P.live[i]) <=> LivePath(P.T, P.n, r, i, {i})
TypeOK ==
    /\ phase \in {"build", "colour", "spill"}
    /\ phase # "build" =>
          /\ pc \in 1..(P.n + 1)
          /\ DOMAIN cur \subseteq (IF pc <= P.n THEN P.live[pc] ELSE {})
          /\ \A r \in DOMAIN cur : cur[r] \in DOMAIN cur /\ cur[r] <= r /\ cur[cur[r]] = cur[r]
          /\ \A l \in DOMAIN holds : holds[l] \in {cur[r] : r \in DOMAIN cur}

\* ---- witnesses: each clause can be violated (run with exactly one of these as invariant) ----
ReadsSeeLatestDef == (Running /\ phase = "colour") => ReadsOK(P, pc, cur, holds)
NoSharing         == (Running /\ phase = "colour") => NoShareStep(P, last, cur)
CoalescedSameLoc  == (Running /\ phase = "colour") => RemovedOK(P, pc)
SpillReadsSeeLatestDef == (Running /\ phase = "spill") => ReadsOK(P, pc, cur, holds)
=============================================================================
