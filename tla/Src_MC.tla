------------------------------- MODULE Src_MC -------------------------------
(* Idiom M for Src.tla: the specification checked by itself.                    *)
(*                                                                             *)
(* (1) Laws of the definitions, exhaustively over all 64 pairs of integer types *)
(*     and a boundary set of values per type (state variable `lw`):             *)
(*     the usual arithmetic conversions against the table written out from      *)
(*     6.3.1.8; conversions against integer arithmetic (narrow sources) and     *)
(*     against an exact 9-byte embedding (all types); + - * / % shifts,         *)
(*     comparisons and unary operators on promoted narrow operands against      *)
(*     TLC integer arithmetic; 32-bit against 64-bit arithmetic (overflow is    *)
(*     flagged exactly when the wide result does not fit; unsigned results are  *)
(*     the wide results modulo 2^32); 64-bit overflow detection against         *)
(*     independent formulations.                                               *)
(* (2) Hand-written micro programs (TRACE_FILE, written by engines/c01.py)      *)
(*     whose outcomes were derived from the standard (and confirmed with gcc):  *)
(*     every behaviour must end with the expected status / value / call log /   *)
(*     globals; in every running state exactly one action of Src is enabled     *)
(*     (determinism and progress); the dynamic type of every evaluated          *)
(*     expression equals its static type; no execution gets stuck.              *)
EXTENDS Src_Run

CONSTANT NV          \* number of boundary values per type used for the laws (<= 13)
VARIABLE lw          \* <<>> or a law instance [ta, tb, x, y]

(* ---- boundary values ----------------------------------------------------------- *)
Narrow == {"c8", "u8", "i16", "u16"}
Lo(t) == CASE t = "c8" -> -128 [] t = "i16" -> -32768 [] t = "i32" -> -2147483647 - 1 [] OTHER -> 0
Hi(t) == CASE t = "c8" -> 127 [] t = "u8" -> 255 [] t = "i16" -> 32767 [] t = "u16" -> 65535 [] t = "i32" -> 2147483647
\* the first 7 values of every list are the quick-tier set (NV = 7), all 13 the thorough one
Ints(t) == CASE t = "c8" -> <<0, 1, -1, 127, -128, 7, 100, 2, 126, -2, -7, -127, 64>>
             [] t = "u8" -> <<0, 1, 255, 128, 127, 7, 31, 2, 100, 129, 200, 254, 32>>
             [] t = "i16" -> <<0, 1, -1, 32767, -32768, 7, 255, 2, 256, 32766, -2, -32767, 181>>
             [] t = "u16" -> <<0, 1, 65535, 32768, 46341, 7, 31, 2, 255, 256, 32767, 65534, 32>>
             [] t = "i32" -> <<0, 1, -1, 2147483647, -2147483647 - 1, 46341, 7, 2, 65536, 46340, 2147483646, -2, -2147483647>>
FromInt(v, n) == IF v >= 0 THEN WFromNat(v, n) ELSE WNot(WFromNat(-(v + 1), n))     \* also for -2^31
W4(b) == <<b[1], b[2], b[3], b[4]>>
BV(t) == IF t \in Narrow \cup {"i32"} THEN [k \in 1..13 |-> FromInt(Ints(t)[k], Size(t))]
         ELSE IF t = "u32" THEN <<WZero(4), WOne(4), WOnes(4), <<0, 0, 0, 128>>, WFromNat(65536, 4), WFromNat(7, 4), WFromNat(31, 4),
                                  WFromNat(2, 4), WFromNat(65535, 4), WFromNat(2147483647, 4), <<1, 0, 0, 128>>,
                                  <<254, 255, 255, 255>>, WFromNat(32, 4)>>
         ELSE IF t \in {"i64", "il"} THEN <<WZero(8), WOne(8), FromInt(-1, 8), <<255, 255, 255, 255, 255, 255, 255, 127>>,
                                  <<0, 0, 0, 0, 0, 0, 0, 128>>, <<0, 0, 0, 128, 0, 0, 0, 0>>, FromInt(-2147483647 - 1, 8),
                                  WFromNat(2, 8), FromInt(-2, 8), WFromNat(2147483647, 8), <<0, 0, 0, 0, 1, 0, 0, 0>>,
                                  <<1, 0, 0, 0, 0, 0, 0, 128>>, WFromNat(63, 8)>>
         ELSE <<WZero(8), WOne(8), WOnes(8), <<0, 0, 0, 0, 0, 0, 0, 128>>, <<0, 0, 0, 0, 1, 0, 0, 0>>, WFromNat(7, 8),
                <<0, 0, 0, 128, 0, 0, 0, 0>>, WFromNat(2, 8), WFromNat(2147483647, 8), <<255, 255, 255, 255, 0, 0, 0, 0>>,
                <<255, 255, 255, 255, 255, 255, 255, 127>>, <<254, 255, 255, 255, 255, 255, 255, 255>>, WFromNat(64, 8)>>

HasLaw == lw # <<>>
ta == lw.ta
tb == lw.tb
X == BV(ta)[lw.x]
Y == BV(tb)[lw.y]
xi == Ints(ta)[lw.x]            \* only for ta \in Narrow \cup {"i32"}
yi == Ints(tb)[lw.y]
VX == IV(ta, X)
VY == IV(tb, Y)

Mod(a, m) == ((a % m) + m) % m
Abs(a) == IF a < 0 THEN -a ELSE a
TDiv(a, b) == IF (a >= 0) = (b >= 0) THEN Abs(a) \div Abs(b) ELSE -(Abs(a) \div Abs(b))
TRem(a, b) == a - b * TDiv(a, b)
I32(n) == IV("i32", FromInt(n, 4))
MaxInt == 2147483647

(* ---- typing ------------------------------------------------------------------------ *)
\* 6.3.1.8 written out for the promoted types of this data model
Table(a, b) ==
    CASE a = b -> a
      [] {a, b} = {"i32", "u32"} -> "u32"       \* same rank: the unsigned type
      [] {a, b} = {"i32", "il"} -> "il"         \* both signed: greater rank
      [] {a, b} = {"i32", "ul"} -> "ul"         \* unsigned has greater rank
      [] {a, b} = {"i32", "i64"} -> "i64"
      [] {a, b} = {"i32", "u64"} -> "u64"
      [] {a, b} = {"u32", "il"} -> "il"         \* long (64 bits) represents all unsigned int values
      [] {a, b} = {"u32", "ul"} -> "ul"
      [] {a, b} = {"u32", "i64"} -> "i64"
      [] {a, b} = {"u32", "u64"} -> "u64"
      [] {a, b} = {"il", "ul"} -> "ul"
      [] {a, b} = {"il", "i64"} -> "i64"
      [] {a, b} = {"il", "u64"} -> "u64"
      [] {a, b} = {"ul", "i64"} -> "u64"        \* long long cannot represent all unsigned long values: its unsigned type
      [] {a, b} = {"ul", "u64"} -> "u64"
      [] {a, b} = {"i64", "u64"} -> "u64"
LawTyping == HasLaw =>
    /\ Promote(ta) = (IF ta \in Narrow THEN "i32" ELSE ta)
    /\ UAC(ta, tb) = Table(Promote(ta), Promote(tb))
    /\ UAC(ta, tb) = UAC(tb, ta)
    /\ Size(UAC(ta, tb)) >= Size(ta) /\ Size(UAC(ta, tb)) >= Size(tb)

(* ---- conversions ---------------------------------------------------------------- *)
Embed(t, w) == WResize(w, 9, IsSigned(t))      \* exact value of any 64-bit-or-smaller integer as a 9-byte signed word
LawConvExact == HasLaw =>
    LET c == Conv(VX, tb) IN
    /\ Fits(X, ta, tb) <=> Embed(tb, ConvW(X, ta, tb)) = Embed(ta, X)              \* representable = value preserved
    /\ c.st = "ok" <=> (~IsSigned(tb) \/ Fits(X, ta, tb))
    /\ (c.st # "ok" => c.st = "impldef")
    /\ (c.st = "ok" => c.v.ty = tb /\ Len(c.v.w) = Size(tb))
    /\ (c.st = "ok" /\ Size(tb) <= Size(ta) => c.v.w = SubSeq(X, 1, Size(tb)))     \* modulo 2^N = low bytes
    /\ (ta = tb => c.st = "ok" /\ c.v.w = X)
    /\ (Fits(X, ta, tb) => Conv(c.v, ta).st = "ok" /\ Conv(c.v, ta).v.w = X)       \* value-preserving conversions invert
LawConvInt == (HasLaw /\ ta \in Narrow \cup {"i32"} /\ tb \in Narrow) =>
    LET c == Conv(VX, tb)  m == IF Size(tb) = 1 THEN 256 ELSE 65536 IN
    IF IsSigned(tb)
    THEN /\ c.st = "ok" <=> (xi >= Lo(tb) /\ xi <= Hi(tb))
         /\ (c.st = "ok" => c.v.w = FromInt(xi, Size(tb)))
    ELSE c.st = "ok" /\ WToNat(c.v.w) = Mod(xi, m)

(* ---- operators on narrow operands (computed in int) against integer arithmetic ------ *)
NarrowPair == HasLaw /\ ta \in Narrow /\ tb \in Narrow
R(op) == Arith(op, VX, VY)
MulSafe == xi = 0 \/ yi = 0 \/ Abs(xi) <= MaxInt \div Abs(yi)
LawArithInt == NarrowPair =>
    /\ R("+") = OkV(I32(xi + yi))
    /\ R("-") = OkV(I32(xi - yi))
    /\ (MulSafe => R("*") = OkV(I32(xi * yi)))
    /\ (~MulSafe => R("*").st = "undefined")              \* e.g. 65535 * 65535 as unsigned short operands
    /\ (yi = 0 => R("/").st = "undefined" /\ R("%").st = "undefined")
    /\ (yi # 0 => R("/") = OkV(I32(TDiv(xi, yi))) /\ R("%") = OkV(I32(TRem(xi, yi))))
    /\ R("<") = OkV(BoolV(xi < yi)) /\ R("<=") = OkV(BoolV(xi <= yi))
    /\ R(">") = OkV(BoolV(xi > yi)) /\ R(">=") = OkV(BoolV(xi >= yi))
    /\ R("==") = OkV(BoolV(xi = yi)) /\ R("!=") = OkV(BoolV(xi # yi))
    /\ Unary("-", VX) = OkV(I32(-xi)) /\ Unary("~", VX) = OkV(I32(-xi - 1)) /\ Unary("!", VX) = OkV(BoolV(xi = 0))
LawShiftInt == NarrowPair =>
    IF yi < 0 \/ yi >= 32 THEN R("<<").st = "undefined" /\ R(">>").st = "undefined"
    ELSE /\ IF xi < 0 THEN R("<<").st = "undefined" /\ R(">>").st = "impldef"
            ELSE IF yi = 31 THEN /\ R(">>") = OkV(I32(0))
                                 /\ (IF xi = 0 THEN R("<<") = OkV(I32(0)) ELSE R("<<").st = "undefined")
            ELSE /\ R(">>") = OkV(I32(xi \div P2(yi)))
                 /\ IF xi <= MaxInt \div P2(yi) THEN R("<<") = OkV(I32(xi * P2(yi))) ELSE R("<<").st = "undefined"

(* ---- 32-bit arithmetic against 64-bit arithmetic ---------------------------------- *)
Ext(t, w) == WResize(w, 8, IsSigned(t))
Wide(t) == IF IsSigned(t) THEN "i64" ELSE "u64"
LawWidth == (HasLaw /\ ta = tb /\ ta \in {"i32", "u32"}) =>
    \A op \in {"+", "-", "*", "/", "%"} :
       LET r == Arith(op, VX, VY)
           rw == Arith(op, IV(Wide(ta), Ext(ta, X)), IV(Wide(ta), Ext(ta, Y)))
           \* a % b is defined only if the quotient a / b is representable
           qw == IF op = "%" THEN Arith("/", IV(Wide(ta), Ext(ta, X)), IV(Wide(ta), Ext(ta, Y))) ELSE rw
       IN IF op \in {"/", "%"} /\ WIsZero(Y) THEN r.st = "undefined" /\ rw.st = "undefined"
          ELSE /\ rw.st = "ok"                                   \* 32-bit operands never overflow 64 bits
               /\ IF ta = "u32" THEN r.st = "ok" /\ r.v = IV("u32", W4(rw.v.w))           \* reduced modulo 2^32
                  ELSE /\ r.st = "ok" <=> Fits(qw.v.w, "i64", "i32")                      \* 6.5p5; 6.5.5p6 for %
                       /\ (r.st = "ok" => r.v = IV("i32", W4(rw.v.w)))
                       /\ (r.st # "ok" => r.st = "undefined")
LawCmpWidth == (HasLaw /\ Size(ta) <= 4 /\ Size(tb) <= 4) =>
    \* the comparison of the exact values decides, unless int meets unsigned int
    \A op \in CmpOps :
       LET r == Arith(op, VX, VY) IN
       IF {Promote(ta), Promote(tb)} = {"i32", "u32"}
       THEN r = OkV(BoolV(CmpVal(op, ConvW(X, ta, "u32"), ConvW(Y, tb, "u32"), FALSE)))   \* the int operand is converted to unsigned
       ELSE r = OkV(BoolV(CmpVal(op, Ext(ta, X), Ext(tb, Y), TRUE)))

(* ---- 64-bit overflow detection against independent formulations --------------------- *)
LawOvf64 == (HasLaw /\ ta \in {"i64", "il"} /\ tb \in {"i64", "il"}) =>
    /\ AddOvf(X, Y) <=> WAdd(Embed("i64", X), Embed("i64", Y)) # Embed("i64", WAdd(X, Y))
    /\ SubOvf(X, Y) <=> WSub(Embed("i64", X), Embed("i64", Y)) # Embed("i64", WSub(X, Y))
    /\ MulOvf(X, Y) <=> (~WIsZero(Y) /\ ((WIsMin(X) /\ WIsMinusOne(Y)) \/ WDiv(WMul(X, Y), Y, TRUE) # X))
    /\ (Arith("/", VX, VY).st = "ok" =>
           LET q == Arith("/", VX, VY).v.w  m == Arith("%", VX, VY).v.w IN
           /\ WAdd(WMul(q, Y), m) = X                                   \* 6.5.5p6: (a/b)*b + a%b = a
           /\ (WIsZero(m) \/ IsNegW(m) = IsNegW(X))                      \* truncation toward zero
           /\ WLtU(WAbs(m), WAbs(Y)))
    /\ (Unary("-", VX).st = "ok" <=> ~WIsMin(X))
LawUnsigned64 == (HasLaw /\ ta = "u64" /\ tb \in {"u64", "i64", "ul", "il", "i32", "c8"}) =>
    \* 6.2.5p9: unsigned arithmetic never overflows; a signed operand of lower or equal rank is converted to unsigned
    /\ Arith("+", VX, VY) = OkV(IV("u64", WAdd(X, WResize(Y, 8, IsSigned(tb)))))
    /\ Arith("*", VX, VY) = OkV(IV("u64", WMul(X, WResize(Y, 8, IsSigned(tb)))))
    /\ Arith("<", VX, VY) = OkV(BoolV(WLtU(X, WResize(Y, 8, IsSigned(tb)))))

(* ---- micro programs ---------------------------------------------------------------- *)
Exp == C.expect[av]
ExpectMet == (Finished /\ lw = <<>>) =>
    /\ status = Exp.status
    /\ (status = "ok" =>
          /\ ret = Exp.ret
          /\ calls = Exp.calls
          /\ \A j \in 1..Len(Exp.globals) :
               \E k \in 1..Len(Obs.globals) : Obs.globals[k] = Exp.globals[j])

ActionsEnabled ==
    {<<1, ENABLED Decl>>, <<2, ENABLED DeclArr>>, <<3, ENABLED ExprStmt>>, <<4, ENABLED Assign>>, <<5, ENABLED IncDec>>,
     <<6, ENABLED If>>, <<7, ENABLED SeqStmt>>, <<8, ENABLED While>>, <<9, ENABLED DoWhile>>, <<10, ENABLED LoopTest>>,
     <<11, ENABLED For>>, <<12, ENABLED ForTest>>, <<13, ENABLED Switch>>, <<14, ENABLED SwitchStep>>, <<15, ENABLED Break>>,
     <<16, ENABLED Continue>>, <<17, ENABLED Return>>, <<18, ENABLED BlockEnd>>, <<19, ENABLED Unknown>>,
     <<20, ENABLED OutOfFuel>>}
Deterministic == Running => Cardinality({p \in ActionsEnabled : p[2]}) = 1

\* static typing agrees with evaluation (the type of an expression does not depend on its value)
StmtExprs == IF ~AtStmt THEN <<>>
             ELSE IF St.k \in {"decl", "expr", "ret", "asg"} THEN <<St.e>>
             ELSE IF St.k = "if" THEN <<St.c>> ELSE IF St.k = "switch" THEN <<St.e>> ELSE <<>>
TypesAgree == (Running /\ HasFuel /\ Len(K) > 0) =>
    \A j \in 1..Len(StmtExprs) :
       LET r == Eval(StmtExprs[j], X0, S0) IN r.st = "ok" => r.v.ty = TypeOf(StmtExprs[j], X0, S0)

(* ---- driver --------------------------------------------------------------------------- *)
\* the micro programs run under Src_Run's driver, which also writes, per behaviour, the set of actions it took
MInit == RInit /\ lw = <<>>
PickLaw == /\ chunk = 0 /\ lw = <<>>
           /\ lw' \in [ta : IntTypes, tb : IntTypes, x : 1..NV, y : 1..NV]
           /\ chunk' = -1
           /\ UNCHANGED <<i, av, stack, glob, calls, status, why, ret, steps, done, acts>>
MNext == (RNext /\ UNCHANGED lw) \/ PickLaw
=============================================================================
