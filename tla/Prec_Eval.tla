------------------------------ MODULE Prec_Eval ------------------------------
(* Idiom E/G: one record per replayed tree.                                       *)
(*   t      the tree TLC generated,  src  the token string handed to ppci          *)
(*   p1     what ppci's parser made of src            [ok, t]                      *)
(*   out    the tokens of CPrinter.gen_expr(ast)      [ok, toks]                   *)
(*   p2     what ppci's parser made of the printed text  [ok, t]                   *)
(* A record is judged when ppci read src as the grammar does (p1 = t up to         *)
(* conversions); then the printed text must be C that reads as t -- by the         *)
(* grammar of Prec.tla and by ppci's own parser.                                   *)
EXTENDS Prec, Json, IOUtils
Recs == JsonDeserialize(IOEnv.TRACE_FILE)
NChunks == 32
VARIABLES chunk, i
vars == <<chunk, i>>
Init == chunk = 0 /\ i = 0
PickChunk == chunk = 0 /\ chunk' \in 1..NChunks /\ i' = 0
PickRec == chunk > 0 /\ i = 0 /\ chunk' = chunk /\ i' \in {k \in 1..Len(Recs) : k % NChunks = chunk - 1}
Next == PickChunk \/ PickRec

R == Recs[i]
Judged == i > 0 /\ R.p1.ok /\ Norm(R.p1.t) = Norm(R.t)
\* the source string is the one the specification prints for the tree (guards the driver)
SourceIsPrint == i > 0 => (R.src = PrintMin(R.t) \/ R.src = PrintFull(R.t))
PrinterRuns   == Judged => R.out.ok
PrintedIsC    == (Judged /\ R.out.ok) => Parse(R.out.toks) # Err
PrintedReadsSame == (Judged /\ R.out.ok /\ Parse(R.out.toks) # Err) => Norm(Parse(R.out.toks)) = Norm(R.t)
RereadSame    == (Judged /\ R.out.ok) => (R.p2.ok /\ Norm(R.p2.t) = Norm(R.t))
=============================================================================
