-------------------------------- MODULE Rat --------------------------------
(* Exact rationals  <<num, den>>  with den > 0  (the "exact dyadic" float    *)
(* fragment of DESIGN 3.3: |num| < 2^20, den a power of two <= 256, so every *)
(* value is an IEEE-754 binary32/binary64 number and TLC's 32-bit integers   *)
(* suffice), and the integer roundings that matter for C24.                   *)
EXTENDS Integers

IsRat(q) == q[2] > 0
Num(q) == q[1]
Den(q) == q[2]
Abs(x) == IF x < 0 THEN -x ELSE x
Sgn(x) == IF x < 0 THEN -1 ELSE IF x > 0 THEN 1 ELSE 0

\* TLC's \div rounds toward minus infinity for a positive divisor
Floor(q) == Num(q) \div Den(q)
Ceil(q)  == -((-Num(q)) \div Den(q))
\* conversion float -> integer of C / IR: discard the fractional part
TruncZ(q) == Sgn(Num(q)) * (Abs(Num(q)) \div Den(q))
IsIntegral(q) == Num(q) % Den(q) = 0

\* Python's round(): to nearest, ties to even  (what `int(round(x))` computes)
RoundHalfEven(q) ==
    LET f == Floor(q)
        r2 == 2 * (Num(q) - f * Den(q))          \* twice the fractional part, scaled by den
    IN IF r2 < Den(q) THEN f
       ELSE IF r2 > Den(q) THEN f + 1
       ELSE IF f % 2 = 0 THEN f ELSE f + 1

\* the defining property of truncation toward zero, stated without division:
\*   t has the sign of q (or is 0), |t| <= |q| < |t| + 1
IsTruncOf(t, q) ==
    /\ Abs(t) * Den(q) <= Abs(Num(q))
    /\ Abs(Num(q)) < (Abs(t) + 1) * Den(q)
    /\ (t # 0 => Sgn(t) = Sgn(Num(q)))
=============================================================================
