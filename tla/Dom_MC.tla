------------------------------- MODULE Dom_MC -------------------------------
(* Idiom M for property C25.  TLC enumerates every digraph on 1..N whose     *)
(* nodes are all reachable from the root 1 (self loops included) and checks  *)
(*  (a) the laws of the definitions in Dom.tla: they coincide with the       *)
(*      literal path-based wording, dominance is a partial order whose       *)
(*      strict part is a tree (unique immediate dominator), the data-flow    *)
(*      equations, Cytron's characterisation of the dominance frontier,      *)
(*      post-dominance, reachability;                                        *)
(*  (b) that the algorithms ppci uses, written as state machines with the    *)
(*      same steps as the code and every iteration order the code may take   *)
(*      (set iteration order is arbitrary in Python), compute exactly the    *)
(*      defined notions:                                                     *)
(*        FP*    iterative data-flow dominators / post-dominators            *)
(*               (graph/algorithm/fixed_point_dominator.py)                  *)
(*        Num*   interval numbering of the dominator tree                    *)
(*               (graph/cfg.py: _number_dominator_tree)                      *)
(*        DF*    bottom-up dominance frontier (cfg.py:                       *)
(*               calculate_dominance_frontier)                               *)
(*        Reach* transitive successors (cfg.py: calculate_reach)             *)
(*        LT*    Lengauer-Tarjan with path compression (graph/lt.py)         *)
(* One machine runs at a time (pc says which), so the state space is the sum *)
(* and not the product of the machines.                                      *)
EXTENDS Dom, Integers, TLC

CONSTANTS N,           \* number of nodes
          Machines,    \* BOOLEAN: run the algorithm machines (else laws only)
          SelfLoops,   \* BOOLEAN: enumerate graphs with self loops too
          RefineRoot   \* BOOLEAN: FALSE = the root keeps its initial set {root} (textbook);
                       \* TRUE = the root is re-evaluated like any node (what
                       \* fixed_point_dominator.py does): wrong when the root has predecessors

Node == 1..N
root == 1
None == 0

VARIABLES pc, edges,
          dm,                               \* the definitions evaluated once when the graph is chosen:
                                            \* [dom |-> DomMap(edges, root), idom |-> ..., kids |-> ...]
          fdm,                              \* FP: DomMap of the graph/root the FP machine works on
          dir, rt, fd,                      \* FP: direction, root, node |-> set
          stack, disc, iv, t,               \* Num
          dfm,                              \* DF
          rch,                              \* Reach
          work, dfnum, vertex, parent,      \* LT: depth-first search
          k, semi, anc, best, bucket, idom, samedom   \* LT: main loop

fpv  == <<dir, rt, fd, fdm>>
numv == <<stack, disc, iv, t>>
ltv  == <<work, dfnum, vertex, parent, k, semi, anc, best, bucket, idom, samedom>>
vars == <<pc, edges, dm, fpv, numv, dfm, rch, ltv>>
Defs(E) == LET D == DomMap(E, root) IN
           [dom  |-> D,
            idom |-> [n \in DOMAIN D |-> IF HasIDomM(D, n) THEN IDomM(D, n) ELSE None],
            kids |-> [n \in DOMAIN D |-> ChildrenM(D, n)]]

Empty == [x \in {} |-> 0]
Orders(S) == {s \in [1..Cardinality(S) -> S] : \A a \in DOMAIN s : \A b \in DOMAIN s : s[a] = s[b] => a = b}
Front(s) == SubSeq(s, 1, Len(s) - 1)
Last(s)  == s[Len(s)]

Idle == /\ dir = "fwd" /\ rt = root /\ fd = Empty /\ fdm = Empty
        /\ stack = <<>> /\ disc = Empty /\ iv = Empty /\ t = 0
        /\ dfm = Empty /\ rch = Empty
        /\ work = <<>> /\ dfnum = Empty /\ vertex = <<>> /\ parent = Empty /\ k = 0
        /\ semi = Empty /\ anc = Empty /\ best = Empty /\ bucket = Empty /\ idom = Empty /\ samedom = Empty

Init == pc = "start" /\ edges = {} /\ dm = Empty /\ Idle

\* ---- choosing the graph (two steps, so that the workers share the graphs) ----
PickFirst == /\ pc = "start" /\ pc' = "pick"
                 /\ edges' \in SUBSET {e \in (Node \cap {1, 2}) \X Node : SelfLoops \/ e[1] # e[2]}
                 /\ UNCHANGED <<dm, fpv, numv, dfm, rch, ltv>>
PickRest == /\ pc = "pick" /\ pc' = "graph"
            /\ \E rest \in SUBSET {e \in (Node \ {1, 2}) \X Node : SelfLoops \/ e[1] # e[2]} :
                  /\ edges' = edges \cup rest
                  /\ Reach(edges', root) = Node
                  /\ dm' = Defs(edges')
            /\ UNCHANGED <<fpv, numv, dfm, rch, ltv>>

DM == dm.dom
IdomOf(n) == dm.idom[n]
Kids(n) == dm.kids[n]

(***************************************************************************)
(* FP: calculate_dominators / calculate_post_dominators.                   *)
(***************************************************************************)
FG == IF dir = "fwd" THEN edges ELSE Rev(edges)
Refined(n) == {n} \cup {x \in Node : \A p \in Preds(FG, n) : x \in fd[p]}
FPStart == /\ pc = "graph" /\ Machines /\ pc' = "fp"
           /\ \/ dir' = "fwd" /\ rt' = root
              \/ dir' = "bwd" /\ rt' \in Node
           /\ fd' = [n \in Node |-> IF n = rt' THEN {n} ELSE Node]
           /\ fdm' = IF dir' = "fwd" THEN DM ELSE PDomMap(edges, rt')
           /\ UNCHANGED <<edges, dm, numv, dfm, rch, ltv>>
CanRefine(n) == /\ (n # rt \/ RefineRoot)
                /\ Preds(FG, n) # {}
                /\ Refined(n) # fd[n]
FPRefine == /\ pc = "fp"
            /\ \E n \in Node : CanRefine(n) /\ fd' = [fd EXCEPT ![n] = Refined(n)]
            /\ UNCHANGED <<pc, edges, dm, dir, rt, fdm, numv, dfm, rch, ltv>>
FPDone == /\ pc = "fp" /\ \A n \in Node : ~CanRefine(n)
          /\ pc' = "fpdone"
          /\ UNCHANGED <<edges, dm, fpv, numv, dfm, rch, ltv>>

\* the sets only shrink towards the dominator sets ...
FPSoundP(D) == \A n \in DOMAIN D : DomSetM(D, n) \subseteq fd[n]
FPSound == pc \in {"fp", "fpdone"} => FPSoundP(fdm)
\* ... and when nothing changes any more they are the dominator sets; the immediate
\* (post-)dominator is then picked as calculate_immediate_(post_)dominators does
FPCompleteP(D) == \A n \in DOMAIN D :
                /\ fd[n] = DomSetM(D, n)
                /\ {x \in fd[n] \ {n} : fd[x] = fd[n] \ {n}} = IDomSetM(D, n)
FPComplete == pc = "fpdone" => FPCompleteP(fdm)

(***************************************************************************)
(* Num: _number_dominator_tree (explicit stack, discovery/finish events).  *)
(***************************************************************************)
NumStart == /\ pc = "graph" /\ Machines /\ pc' = "num"
            /\ stack' = <<root>> /\ disc' = Empty /\ iv' = Empty /\ t' = 0
            /\ UNCHANGED <<edges, dm, fpv, dfm, rch, ltv>>
NumDiscover == /\ pc = "num" /\ stack # <<>> /\ Last(stack) \notin DOMAIN disc
               /\ disc' = (Last(stack) :> t) @@ disc
               /\ \E o \in Orders(Kids(Last(stack))) : stack' = stack \o o
               /\ t' = t + 1
               /\ UNCHANGED <<pc, edges, dm, iv, fpv, dfm, rch, ltv>>
NumFinish == /\ pc = "num" /\ stack # <<>> /\ Last(stack) \in DOMAIN disc
             /\ iv' = (Last(stack) :> <<disc[Last(stack)], t>>) @@ iv
             /\ stack' = Front(stack)
             /\ t' = t + 1
             /\ UNCHANGED <<pc, edges, dm, disc, fpv, dfm, rch, ltv>>
NumDone == /\ pc = "num" /\ stack = <<>> /\ pc' = "numdone"
           /\ UNCHANGED <<edges, dm, fpv, numv, dfm, rch, ltv>>
\* finished intervals are nested or disjoint, and nested exactly along dominance
NumParenthesis == pc \in {"num", "numdone"} =>
    \A a \in DOMAIN iv : \A b \in DOMAIN iv :
        /\ Within(iv[b], iv[a]) <=> b \in DM[a]
        /\ (a # b /\ b \notin DM[a] /\ a \notin DM[b]) => (iv[a][2] < iv[b][1] \/ iv[b][2] < iv[a][1])
NumComplete == pc = "numdone" => DOMAIN iv = Node /\ IntervalsMatch(DM, iv)

(***************************************************************************)
(* DF: calculate_dominance_frontier, children before parents (bottom_up).  *)
(***************************************************************************)
DFStart == /\ pc = "graph" /\ Machines /\ pc' = "df" /\ dfm' = Empty
           /\ UNCHANGED <<edges, dm, fpv, numv, rch, ltv>>
DFVisit == /\ pc = "df"
           /\ \E x \in Node \ DOMAIN dfm :
                /\ Kids(x) \subseteq DOMAIN dfm
                /\ dfm' = (x :> ({y \in Succs(edges, x) : IdomOf(y) # x}              \* local rule
                                 \cup {y \in UNION {dfm[z] : z \in Kids(x)} : IdomOf(y) # x})) \* upwards rule
                          @@ dfm
           /\ UNCHANGED <<pc, edges, dm, fpv, numv, rch, ltv>>
DFDone == /\ pc = "df" /\ DOMAIN dfm = Node /\ pc' = "dfdone"
          /\ UNCHANGED <<edges, dm, fpv, numv, dfm, rch, ltv>>
DFStep == pc \in {"df", "dfdone"} => \A x \in DOMAIN dfm : dfm[x] = DFM(edges, DM, x)
DFComplete == pc = "dfdone" => DOMAIN dfm = Node

(***************************************************************************)
(* Reach: calculate_reach.                                                 *)
(***************************************************************************)
ReachStart == /\ pc = "graph" /\ Machines /\ pc' = "reach"
              /\ rch' = [n \in Node |-> Succs(edges, n)]
              /\ UNCHANGED <<edges, dm, fpv, numv, dfm, ltv>>
Wider(n) == rch[n] \cup UNION {rch[m] : m \in Succs(edges, n)}
ReachRefine == /\ pc = "reach"
               /\ \E n \in Node : Wider(n) # rch[n] /\ rch' = [rch EXCEPT ![n] = Wider(n)]
               /\ UNCHANGED <<pc, edges, dm, fpv, numv, dfm, ltv>>
ReachDone == /\ pc = "reach" /\ \A n \in Node : Wider(n) = rch[n] /\ pc' = "reachdone"
             /\ UNCHANGED <<edges, dm, fpv, numv, dfm, rch, ltv>>
ReachSound == pc \in {"reach", "reachdone"} => \A n \in Node : rch[n] \subseteq ReachPlus(edges, n)
ReachComplete == pc = "reachdone" => \A n \in Node : rch[n] = ReachPlus(edges, n)

(***************************************************************************)
(* LT: lt.py.  Depth-first numbering with an explicit work list of         *)
(* <<parent, node>> pairs (digraph.dfs), then the main loop in decreasing  *)
(* dfnum: semidominator from the predecessors, bucket, link, bucket of the *)
(* parent (idom or samedom), and the final samedom pass.                   *)
(***************************************************************************)
LTStart == /\ pc = "graph" /\ Machines /\ pc' = "ltdfs"
           /\ work' = << <<None, root>> >>
           /\ dfnum' = Empty /\ vertex' = <<>> /\ parent' = Empty
           /\ UNCHANGED <<edges, dm, fpv, numv, dfm, rch, k, semi, anc, best, bucket, idom, samedom>>
LTVisit == /\ pc = "ltdfs" /\ work # <<>>
           /\ LET p == Last(work)[1]
                  n == Last(work)[2]
              IN /\ n \notin DOMAIN dfnum
                 /\ dfnum' = (n :> Len(vertex)) @@ dfnum
                 /\ vertex' = Append(vertex, n)
                 /\ parent' = (n :> p) @@ parent
                 /\ \E o \in Orders(Succs(edges, n)) :
                       work' = Front(work) \o [j \in 1..Len(o) |-> <<n, o[j]>>]
           /\ UNCHANGED <<pc, edges, dm, fpv, numv, dfm, rch, k, semi, anc, best, bucket, idom, samedom>>
LTSkip == /\ pc = "ltdfs" /\ work # <<>> /\ Last(work)[2] \in DOMAIN dfnum
          /\ work' = Front(work)
          /\ UNCHANGED <<pc, edges, dm, fpv, numv, dfm, rch, dfnum, vertex, parent, k, semi, anc, best, bucket, idom, samedom>>
LTDfsDone == /\ pc = "ltdfs" /\ work = <<>> /\ pc' = "lt"
             /\ k' = Len(vertex)
             /\ bucket' = [n \in Node |-> {}]
             /\ UNCHANGED <<edges, dm, fpv, numv, dfm, rch, work, dfnum, vertex, parent, semi, anc, best, idom, samedom>>

\* ancestor_with_lowest_semi with path compression; st = [anc, best]; result adds res
RECURSIVE AWLS(_, _, _)
AWLS(st, sm, v) ==
    LET a == st.anc[v] IN
    IF a \in DOMAIN st.anc
    THEN LET r  == AWLS(st, sm, a)
             b  == r.res
             a2 == [r.anc EXCEPT ![v] = r.anc[a]]
             b2 == IF dfnum[sm[b]] < dfnum[sm[r.best[v]]] THEN [r.best EXCEPT ![v] = b] ELSE r.best
         IN [anc |-> a2, best |-> b2, res |-> b2[v]]
    ELSE [anc |-> st.anc, best |-> st.best, res |-> st.best[v]]

\* the loop "for v in n.predecessors" (any order): st = [anc, best, s]
RECURSIVE SemiLoop(_, _, _, _)
SemiLoop(st, n, ps, j) ==
    IF j > Len(ps) THEN st
    ELSE LET v == ps[j]
             r == IF dfnum[v] <= dfnum[n]
                  THEN [anc |-> st.anc, best |-> st.best, s2 |-> v]
                  ELSE LET q == AWLS(st, semi, v) IN [anc |-> q.anc, best |-> q.best, s2 |-> semi[q.res]]
             s == IF dfnum[r.s2] < dfnum[st.s] THEN r.s2 ELSE st.s
         IN SemiLoop([anc |-> r.anc, best |-> r.best, s |-> s], n, ps, j + 1)

\* the loop "for v in bucket[p]" (any order): st = [anc, best, idom, samedom]
RECURSIVE BucketLoop(_, _, _, _, _)
BucketLoop(st, sm, p, vs, j) ==
    IF j > Len(vs) THEN st
    ELSE LET v == vs[j]
             q == AWLS(st, sm, v)
             y == q.res
         IN BucketLoop([anc |-> q.anc, best |-> q.best,
                        idom |-> IF sm[y] = sm[v] THEN (v :> p) @@ st.idom ELSE st.idom,
                        samedom |-> IF sm[y] = sm[v] THEN st.samedom ELSE (v :> y) @@ st.samedom],
                       sm, p, vs, j + 1)

LTStep == /\ pc = "lt" /\ k >= 2
          /\ LET n == vertex[k]
                 p == parent[n]
             IN \E ps \in Orders(Preds(edges, n)) :
                  LET s1  == SemiLoop([anc |-> anc, best |-> best, s |-> p], n, ps, 1)
                      sm  == (n :> s1.s) @@ semi                       \* self.semi[n] = s
                      bk  == [bucket EXCEPT ![s1.s] = @ \cup {n}]      \* bucket[s].add(n)
                      a1  == (n :> p) @@ s1.anc                        \* link(p, n)
                      b1  == (n :> n) @@ s1.best
                  IN \E vs \in Orders(bk[p]) :
                       LET s2 == BucketLoop([anc |-> a1, best |-> b1, idom |-> idom, samedom |-> samedom],
                                            sm, p, vs, 1)
                       IN /\ semi' = sm /\ anc' = s2.anc /\ best' = s2.best
                          /\ idom' = s2.idom /\ samedom' = s2.samedom
                          /\ bucket' = [bk EXCEPT ![p] = {}]
          /\ k' = k - 1
          /\ UNCHANGED <<pc, edges, dm, fpv, numv, dfm, rch, work, dfnum, vertex, parent>>

\* "for n in self.vertex[1:]: if n in samedom: idom[n] = idom[samedom[n]]"
RECURSIVE FinalLoop(_, _)
FinalLoop(im, j) ==
    IF j > Len(vertex) THEN im
    ELSE LET n == vertex[j] IN
         FinalLoop(IF n \in DOMAIN samedom THEN (n :> im[samedom[n]]) @@ im ELSE im, j + 1)
LTFinal == /\ pc = "lt" /\ k = 1 /\ pc' = "ltdone"
           /\ idom' = FinalLoop(idom, 2)
           /\ UNCHANGED <<edges, dm, fpv, numv, dfm, rch, work, dfnum, vertex, parent, k, semi, anc, best, bucket, samedom>>

\* semidominator by its definition: the node of least dfnum from which n is reached by a
\* path whose inner nodes all have a dfnum greater than that of n
SemiCandidates(n) ==
    LET Hi == {m \in DOMAIN dfnum : dfnum[m] > dfnum[n]}
        Back == {<<e[2], e[1]>> : e \in {f \in edges : f[2] \in Hi}}
    IN ReachSet(Back, Preds(edges, n))
SemiDef(n) == CHOOSE v \in SemiCandidates(n) : \A w \in SemiCandidates(n) : dfnum[v] <= dfnum[w]
LTSemi == pc \in {"lt", "ltdone"} => \A n \in DOMAIN semi : semi[n] = SemiDef(n)
LTComplete == pc = "ltdone" =>
    /\ DOMAIN idom = Node \ {root}
    /\ \A n \in Node \ {root} : IDomSetM(DM, n) = {idom[n]}

Next == \/ PickFirst \/ PickRest
        \/ FPStart \/ FPRefine \/ FPDone
        \/ NumStart \/ NumDiscover \/ NumFinish \/ NumDone
        \/ DFStart \/ DFVisit \/ DFDone
        \/ ReachStart \/ ReachRefine \/ ReachDone
        \/ LTStart \/ LTVisit \/ LTSkip \/ LTDfsDone \/ LTStep \/ LTFinal

TypeOK == /\ pc \in {"start", "pick", "graph", "fp", "fpdone", "num", "numdone", "df", "dfdone",
                     "reach", "reachdone", "ltdfs", "lt", "ltdone"}
          /\ edges \subseteq Node \X Node
          /\ dir \in {"fwd", "bwd"} /\ rt \in Node
          /\ \A n \in DOMAIN fd : fd[n] \subseteq Node
          /\ DOMAIN iv \subseteq Node /\ DOMAIN dfm \subseteq Node /\ DOMAIN idom \subseteq Node

(***************************************************************************)
(* Laws of the definitions, checked on every enumerated graph.             *)
(***************************************************************************)
AtGraph == pc = "graph"
\* the cheap form (reachability after deleting d) is the literal wording
LawPathsP(SP) == \A d \in Node : \A n \in Node :
                /\ n \in DM[d] <=> DominatesByPaths(SP, root, d, n)
                /\ n \in DM[d] <=> Dominates(edges, root, d, n)
\* the faster evaluation used on recorded runs is the same map
LawFast == AtGraph => /\ DomMapF(edges, root) = DM /\ DomMap(edges, root) = DM
                      /\ \A x \in Node : PDomMapF(edges, x) = PDomMap(edges, x)
LawPaths == AtGraph => \A SP \in {AllSimplePaths(edges, Node)} : LawPathsP(SP)
LawPostPathsP(SP, x, PM) == \A d \in Node : \A n \in Node :
                /\ (d \in DOMAIN PM /\ n \in PM[d]) <=> PostDominatesByPaths(SP, x, d, n)
                /\ DOMAIN PM = CanExit(edges, x)
LawPostPaths == AtGraph => \A SP \in {AllSimplePaths(edges, Node)} :
                  \A x \in Node : \A PM \in {PDomMap(edges, x)} : LawPostPathsP(SP, x, PM)
LawPartialOrder == AtGraph =>
    /\ \A n \in Node : n \in DM[n] /\ n \in DM[root]
    /\ \A a \in Node : \A b \in Node : (b \in DM[a] /\ a \in DM[b]) => a = b
    /\ \A a \in Node : \A b \in Node : \A cc \in Node : (b \in DM[a] /\ cc \in DM[b]) => cc \in DM[a]
\* the dominators of a node form a chain; exactly one immediate dominator except for the root;
\* dominance is the ancestor relation of the tree "n -> idom(n)"
LawTree == AtGraph =>
    /\ \A n \in Node : /\ IdomOf(n) = (IF n = root THEN None ELSE IDom(edges, root, n))
                        /\ Kids(n) = {cc \in Node : IDomSet(edges, root, cc) = {n}}
    /\ IDomSetM(DM, root) = {}
    /\ \A n \in Node \ {root} :
         /\ Cardinality(IDomSetM(DM, n)) = 1
         /\ DomSetM(DM, n) = {n} \cup DomSetM(DM, IDomM(DM, n))
    /\ \A n \in Node : \A a \in DomSetM(DM, n) : \A b \in DomSetM(DM, n) : b \in DM[a] \/ a \in DM[b]
\* the dominator sets solve the data-flow equations the iterative algorithms use
LawDataFlow == AtGraph => \A n \in Node \ {root} :
    DomSetM(DM, n) = {n} \cup {x \in Node : \A p \in Preds(edges, n) : x \in DomSetM(DM, p)}
\* how the fixed-point code derives the immediate (post-)dominator from the sets
LawImmediateP(PM) == \A n \in DOMAIN PM :
       {y \in SDomSetM(PM, n) : DomSetM(PM, y) = SDomSetM(PM, n)} = IDomSetM(PM, n)
LawImmediateFromSets == AtGraph => \A x \in Node : \A PM \in {PDomMap(edges, x)} : LawImmediateP(PM)
\* Cytron et al.: DF(x) = DFlocal(x) \cup UNION {DFup(z) : z child of x}
LawDFCytron == AtGraph => \A x \in Node :
    DFM(edges, DM, x) = {y \in Succs(edges, x) : IdomOf(y) # x}
                        \cup {y \in UNION {DFM(edges, DM, z) : z \in Kids(x)} : IdomOf(y) # x}
LawReachP(SP) == \A a \in Node : \A b \in Node :
    CanReach(edges, a, b) <=> \E m \in Succs(edges, a) : PathsBetween(SP, m, b) # {}
LawReach == AtGraph => \A SP \in {AllSimplePaths(edges, Node)} : LawReachP(SP)
=============================================================================
