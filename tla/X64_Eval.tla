----------------------------- MODULE X64_Eval -----------------------------
(* Idiom E for the x86-64 part of C08 / C07: one state per record observed   *)
(* on the real ppci code (harness/x64gen.py).  The verdict of a record is    *)
(* computed when the record is picked and carried in the state variable v,   *)
(* so that a rejected record reports what exactly disagrees; one invariant   *)
(* per property clause.                                                      *)
(*                                                                           *)
(* t = "enc": mn, ops   the printed text of the instance, tokenised          *)
(*            msz       operand width of the instruction class in bits (0:   *)
(*                      not fixed by the class)                              *)
(*            place, sym16   address of the instruction (small integer) and  *)
(*                      value of the label operand (16 limbs)                *)
(*            out       [ok, exc, bytes] = what encode() (+ the instruction's*)
(*                      own relocation) produced                             *)
(* t = "rw":  bytes, uses / defs / clob = register names ppci declares       *)
EXTENDS X64, Json, IOUtils, TLC
Recs == JsonDeserialize(IOEnv.TRACE_FILE)
ChunkLen == 16
NChunks == (Len(Recs) + ChunkLen - 1) \div ChunkLen
VARIABLES chunk, i, v
vars == <<chunk, i, v>>

SetOf(q) == {q[j] : j \in 1..Len(q)}

\* ---- C08
EncVerdict2(r, d) ==
    LET syn == \A j \in 1..Len(r.ops) : KnownOperand(r.ops[j]) IN
    [t |-> "enc", syn |-> syn, st |-> d.st,
     agree |-> IF syn THEN Agrees(d, r) ELSE FALSE,
     size |-> IF syn /\ d.st = "ok" THEN SizeAgrees(d, r) ELSE TRUE,
     dmn |-> d.mn]
EncVerdict(r) == EncVerdict2(r, Decode(r.out.bytes))

\* ---- C07: families of the declared registers (al / ax / eax / rax are one register, xmm n single / double too)
DeclFam(names) == UNION {Fam(RegByName(names[j])) : j \in 1..Len(names)}
RwVerdict2(r, d) ==
    LET dr == DeclFam(r.uses)
        dw == DeclFam(r.defs) \cup DeclFam(r.clob)
        ok == d.st = "ok" /\ d.len = Len(r.bytes) /\ Modelled(d)
    IN [t |-> "rw", st |-> IF d.st = "ok" /\ ~ok THEN "unsupported" ELSE d.st,
        mr  |-> IF ok THEN ExplReads(d) \ dr ELSE {},                                          \* operand registers read, not declared
        mri |-> IF ok THEN (ImplReads(d) \ ExplReads(d)) \ dr ELSE {},                         \* implicit registers read, not declared
        mw  |-> IF ok THEN ExplWrites(d) \ dw ELSE {},
        mwi |-> IF ok THEN (ImplWrites(d) \ ExplWrites(d)) \ dw ELSE {},
        dmn |-> d.mn]
RwVerdict(r) == RwVerdict2(r, Decode(r.bytes))

Verdict(r) == IF r.t = "enc" THEN EncVerdict(r) ELSE RwVerdict(r)

Init == chunk = 0 /\ i = 0 /\ v = [t |-> "none"]
PickChunk == chunk = 0 /\ chunk' \in 1..NChunks /\ i' = 0 /\ v' = v
PickRec == chunk > 0 /\ i = 0 /\ chunk' = chunk
           /\ i' \in ((chunk - 1) * ChunkLen + 1)..(IF chunk * ChunkLen < Len(Recs) THEN chunk * ChunkLen ELSE Len(Recs))
           /\ v' = Verdict(Recs[i'])
Next == PickChunk \/ PickRec

\* not verdicts (reported as notes): the printed line is outside the modelled syntax / the bytes are outside the decoder's subset
SyntaxKnown == v.t = "enc" => v.syn
Decodable == v.t \in {"enc", "rw"} => v.st # "unsupported"
\* C08: the bytes ppci emits decode to the operation and operands it prints
EncodingAgrees == (v.t = "enc" /\ v.syn /\ v.st # "unsupported") => v.agree
OperandSizeAgrees == (v.t = "enc" /\ v.syn /\ v.st = "ok") => v.size
\* C07: whatever the emitted instruction reads / writes is declared (rsp of push / pop / call / ret is fixed implicit state)
OperandReadsDeclared == v.t = "rw" => v.mr = {}
ImplicitReadsDeclared == v.t = "rw" => v.mri = {}
OperandWritesDeclared == v.t = "rw" => v.mw = {}
ImplicitWritesDeclared == v.t = "rw" => v.mwi = {}
=============================================================================
