----------------------------- MODULE X64_Eval -----------------------------
(* Idiom E for the x86-64 part of C08 / C07: one state per record observed   *)
(* on the real ppci code (harness/x64gen.py); one invariant per property     *)
(* clause, evaluated on the record of the state (state level, where TLC      *)
(* caches LET values and operator arguments).                                *)
(*                                                                           *)
(* t = "enc": mn, ops   the printed text of the instance, tokenised          *)
(*            msz       operand width of the instruction class in bits (0:   *)
(*                      not fixed by the class)                              *)
(*            place, sym16   address of the instruction (small integer) and  *)
(*                      value of the label operand (16 limbs)                *)
(*            out       [ok, exc, bytes] = what encode() (+ the instruction's*)
(*                      own relocation) produced                             *)
(* t = "rw":  bytes, uses / defs / clob = register names ppci declares       *)
(*                                                                           *)
(* X64_Explain.tla writes the same verdict records to a file for the records *)
(* this module rejects (what exactly disagrees: used for keys and messages). *)
EXTENDS X64, Json, IOUtils, TLC
Recs == JsonDeserialize(IOEnv.TRACE_FILE)
ChunkLen == 16
NChunks == (Len(Recs) + ChunkLen - 1) \div ChunkLen
VARIABLES chunk, i
vars == <<chunk, i>>

\* ---- C08
EncVerdict2(r, d) ==
    LET syn == \A j \in 1..Len(r.ops) : KnownOperand(r.ops[j]) IN
    [t |-> "enc", syn |-> syn, st |-> d.st,
     agree |-> IF syn THEN Agrees(d, r) ELSE FALSE,
     size |-> IF syn /\ d.st = "ok" THEN SizeAgrees(d, r) ELSE TRUE,
     dmn |-> d.mn]
EncVerdict(r) == EncVerdict2(r, Decode(r.out.bytes))

\* ---- C07: families of the declared registers (al / ax / eax / rax are one register, xmm n single / double too)
DeclFam(names) == UNION {Fam(RegByName(names[j])) : j \in 1..Len(names)}
RwVerdict2(r, d) ==
    LET dr == DeclFam(r.uses)
        dw == DeclFam(r.defs) \cup DeclFam(r.clob)
        ok == d.st = "ok" /\ d.len = Len(r.bytes) /\ Modelled(d)
    IN [t |-> "rw", st |-> IF d.st = "ok" /\ ~ok THEN "unsupported" ELSE d.st,
        mr  |-> IF ok THEN ExplReads(d) \ dr ELSE {},                                          \* operand registers read, not declared
        mri |-> IF ok THEN (ImplReads(d) \ ExplReads(d)) \ dr ELSE {},                         \* implicit registers read, not declared
        mw  |-> IF ok THEN ExplWrites(d) \ dw ELSE {},
        mwi |-> IF ok THEN (ImplWrites(d) \ ExplWrites(d)) \ dw ELSE {},
        dmn |-> d.mn]
RwVerdict(r) == RwVerdict2(r, Decode(r.bytes))

Init == chunk = 0 /\ i = 0
PickChunk == chunk = 0 /\ chunk' \in 1..NChunks /\ i' = 0
PickRec == chunk > 0 /\ i = 0 /\ chunk' = chunk
           /\ i' \in ((chunk - 1) * ChunkLen + 1)..(IF chunk * ChunkLen < Len(Recs) THEN chunk * ChunkLen ELSE Len(Recs))
Next == PickChunk \/ PickRec

IsEnc == i > 0 /\ Recs[i].t = "enc"
IsRw == i > 0 /\ Recs[i].t = "rw"
\* not verdicts (reported as notes): the printed line is outside the modelled syntax / the bytes are outside the decoder's subset
SyntaxKnown == IsEnc => EncVerdict(Recs[i]).syn
Decodable == (IsEnc => EncVerdict(Recs[i]).st # "unsupported") /\ (IsRw => RwVerdict(Recs[i]).st # "unsupported")
\* C08: the bytes ppci emits decode to the operation and operands it prints
EncodingAgrees == IsEnc => \E v \in {EncVerdict(Recs[i])} : (v.syn /\ v.st # "unsupported") => v.agree
OperandSizeAgrees == IsEnc => \E v \in {EncVerdict(Recs[i])} : (v.syn /\ v.st = "ok") => v.size
\* C07: whatever the emitted instruction reads / writes is declared (rsp of push / pop / call / ret is fixed implicit state)
OperandReadsDeclared == IsRw => RwVerdict(Recs[i]).mr = {}
ImplicitReadsDeclared == IsRw => RwVerdict(Recs[i]).mri = {}
OperandWritesDeclared == IsRw => RwVerdict(Recs[i]).mw = {}
ImplicitWritesDeclared == IsRw => RwVerdict(Recs[i]).mwi = {}
=============================================================================
