------------------------------ MODULE CPrint_IR ------------------------------
(* X09, programs: a case is an IR.tla case with two modules,                     *)
(*   mods[1] = projection of c_to_ir(source)                                       *)
(*   mods[2] = projection of c_to_ir(CPrinter output for the AST of source)        *)
(* and, when the source was rendered from an abstract program, the field obs =     *)
(* the observations TLC computed for that program with Src.tla (module Src_Run),   *)
(* indexed by argument vector.  TLC executes both modules under IR.tla.  Judged    *)
(* are the executions that the C standard fully defines (Src status "ok"; all      *)
(* executions when there is no Src observation) and on which the IR of the         *)
(* original source ends "ok" (IR.NextPhase runs the second module only then):      *)
(* the IR of the printed text must end "ok" with the same return value, the same   *)
(* external calls and the same final bytes of every global.                        *)
EXTENDS IR
HasSrc   == "obs" \in DOMAIN C
SrcOK    == HasSrc => C.obs[av].status = "ok"
InModel  == status # "outofmodel" /\ ~(status = "fuel" /\ why # "step budget")
JudgedP  == Finished /\ ph = 2 /\ SrcOK /\ InModel
PrintedStaysDefined == JudgedP => status = "ok"
PrintedSameReturn   == (JudgedP /\ status = "ok") => ret = obs0.o.ret
PrintedSameCalls    == (JudgedP /\ status = "ok") => calls = obs0.o.calls
PrintedSameGlobals  == (JudgedP /\ status = "ok") => SameGlobals(Obs.globals, obs0.o.globals)
=============================================================================
