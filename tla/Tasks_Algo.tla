---------------------------- MODULE Tasks_Algo -----------------------------
(* Algorithmic refinement of Tasks.tla (property C34): how a build runner   *)
(* can meet the declarative specification.  It is the algorithm of the      *)
(* repaired ppci/build/tasks.py (proposed_fixes/C34-*.patch):               *)
(*                                                                          *)
(*   check   for each requested target r:  Project.check_target(r)          *)
(*             dfs(t, state, visited):  state.add(t)                        *)
(*                for dep in deps[t]:   dep in state   -> raise loop         *)
(*                                      dep in visited -> skip              *)
(*                                      else dfs(dep)                       *)
(*                state.remove(t); visited.add(t)                           *)
(*           `state` is the set of targets ON THE CURRENT PATH (it is       *)
(*           popped on return), `visited` the finished ones;                *)
(*   order   post-order walk from the requested targets: a target is        *)
(*           appended to `order` after all its dependencies were appended;  *)
(*   run     the tasks of the targets are run in that order.                *)
(*                                                                          *)
(* Python's iteration order over sets (target.dependencies) and the order   *)
(* of the request list are arbitrary: modelled by non-deterministic choice. *)
(* The recursion is modelled by an explicit stack of frames                 *)
(*        [t |-> target, rem |-> dependencies of t not examined yet].       *)
(*                                                                          *)
(* TLC checks  ASpec => Tasks!Spec  (cfg: PROPERTY Refines) for every       *)
(* graph on Target and every request set: each RunTarget step is an         *)
(* enabled Start(t), ReportLoop is an enabled Loop, RunEnd is an enabled    *)
(* Finish, and all other steps leave <<deps,requested,executed,result>>     *)
(* unchanged.                                                               *)
EXTENDS Tasks, TLC

CONSTANT SelfDeps          \* TRUE: graphs may contain t -> t

VARIABLES pc,              \* "check" | "order" | "run" | "end"   (+ "graph" | "request":
                           \*   staged enumeration of the inputs, see below)
          todo,            \* requested targets the current phase has not started from yet
          stack,           \* DFS recursion stack (sequence of frames, top = last)
          visited,         \* targets whose DFS visit has finished (check) / begun (order)
          order            \* the execution order computed so far / still to run

avars == <<pc, todo, stack, visited, order>>
allvars == <<vars, avars>>

Frame(t)  == [t |-> t, rem |-> deps[t]]
Top       == stack[Len(stack)]
OnPath    == {stack[k].t : k \in DOMAIN stack}          \* Python: the set `state`
Pop       == SubSeq(stack, 1, Len(stack) - 1)
\* the top frame with dependency d ticked off
TopWithout(d) == [stack EXCEPT ![Len(stack)].rem = @ \ {d}]

ATypeOK == /\ pc \in {"graph", "request", "check", "order", "run", "end"}
           /\ todo \subseteq requested
           /\ stack \in Seq([t : Target, rem : SUBSET Target])
           /\ visited \subseteq Target
           /\ order \in Seq(Target)

AInit == /\ Init
         /\ pc = "check" /\ todo = requested /\ stack = <<>> /\ visited = {} /\ order = <<>>

----------------------------------------------------------------------------
(* phase "check": loop detection                                            *)

\* for target in target_list: project.check_target(target)  -- fresh sets per call
CheckBegin(r) == /\ pc = "check" /\ stack = <<>> /\ r \in todo
                 /\ todo' = todo \ {r}
                 /\ stack' = <<Frame(r)>>
                 /\ visited' = {}
                 /\ UNCHANGED <<vars, pc, order>>

\* `if dep in state: raise TaskError("Dependency loop detected")`
ReportLoop(d) == /\ pc = "check" /\ stack # <<>> /\ d \in Top.rem
                 /\ d \in OnPath
                 /\ result' = "loop"
                 /\ pc' = "end"
                 /\ UNCHANGED <<deps, requested, executed, todo, stack, visited, order>>

\* dependency already finished on another path: nothing to do
CheckSkip(d) == /\ pc = "check" /\ stack # <<>> /\ d \in Top.rem
                /\ d \notin OnPath /\ d \in visited
                /\ stack' = TopWithout(d)
                /\ UNCHANGED <<vars, pc, todo, visited, order>>

\* `self.dfs(dep, state, visited)`
CheckDescend(d) == /\ pc = "check" /\ stack # <<>> /\ d \in Top.rem
                   /\ d \notin OnPath /\ d \notin visited
                   /\ stack' = Append(TopWithout(d), Frame(d))
                   /\ UNCHANGED <<vars, pc, todo, visited, order>>

\* all dependencies examined: `state.remove(t); visited.add(t)`, return
CheckReturn == /\ pc = "check" /\ stack # <<>> /\ Top.rem = {}
               /\ visited' = visited \cup {Top.t}
               /\ stack' = Pop
               /\ UNCHANGED <<vars, pc, todo, order>>

CheckDone == /\ pc = "check" /\ stack = <<>> /\ todo = {}
             /\ pc' = "order" /\ todo' = requested /\ visited' = {}
             /\ UNCHANGED <<vars, stack, order>>

----------------------------------------------------------------------------
(* phase "order": post-order walk (no loops left, so it terminates)         *)

OrderBegin(r) == /\ pc = "order" /\ stack = <<>> /\ r \in todo
                 /\ todo' = todo \ {r}
                 /\ IF r \in visited
                       THEN UNCHANGED <<stack, visited>>
                       ELSE stack' = <<Frame(r)>> /\ visited' = visited \cup {r}
                 /\ UNCHANGED <<vars, pc, order>>

OrderSkip(d) == /\ pc = "order" /\ stack # <<>> /\ d \in Top.rem
                /\ d \in visited
                /\ stack' = TopWithout(d)
                /\ UNCHANGED <<vars, pc, todo, visited, order>>

OrderDescend(d) == /\ pc = "order" /\ stack # <<>> /\ d \in Top.rem
                   /\ d \notin visited
                   /\ stack' = Append(TopWithout(d), Frame(d))
                   /\ visited' = visited \cup {d}
                   /\ UNCHANGED <<vars, pc, todo, order>>

\* `sequence.append(target)` after the loop over its dependencies
OrderReturn == /\ pc = "order" /\ stack # <<>> /\ Top.rem = {}
               /\ order' = Append(order, Top.t)
               /\ stack' = Pop
               /\ UNCHANGED <<vars, pc, todo, visited>>

OrderDone == /\ pc = "order" /\ stack = <<>> /\ todo = {}
             /\ pc' = "run"
             /\ UNCHANGED <<vars, todo, stack, visited, order>>

----------------------------------------------------------------------------
(* phase "run": execute in the computed order                               *)

RunTarget == /\ pc = "run" /\ order # <<>>
             /\ executed' = Append(executed, Head(order))
             /\ order' = Tail(order)
             /\ UNCHANGED <<deps, requested, result, pc, todo, stack, visited>>

RunEnd == /\ pc = "run" /\ order = <<>>
          /\ result' = "done"
          /\ pc' = "end"
          /\ UNCHANGED <<deps, requested, executed, todo, stack, visited, order>>

AStep == \/ \E r \in Target : CheckBegin(r) \/ OrderBegin(r)
         \/ \E d \in Target : \/ ReportLoop(d) \/ CheckSkip(d) \/ CheckDescend(d)
                              \/ OrderSkip(d) \/ OrderDescend(d)
         \/ CheckReturn \/ CheckDone \/ OrderReturn \/ OrderDone
         \/ RunTarget \/ RunEnd

ASpec == AInit /\ [][AStep]_allvars

----------------------------------------------------------------------------
(* staged enumeration of all (graph, request) pairs for TLC (cf. Tasks_MC):  *)
(* one initial state; PickGraph chooses deps, PickRequest chooses the       *)
(* request and enters AInit.  From pc = "check" on, the behaviours are      *)
(* exactly those of ASpec; the workers share the graphs.                    *)

Graphs == {d \in [Target -> SUBSET Target] : SelfDeps \/ \A t \in Target : t \notin d[t]}

SInit == /\ pc = "graph"
         /\ deps = [t \in Target |-> {}] /\ requested = Target
         /\ executed = <<>> /\ result = "running"
         /\ todo = Target /\ stack = <<>> /\ visited = {} /\ order = <<>>
PickGraph == /\ pc = "graph" /\ pc' = "request"
             /\ deps' \in Graphs
             /\ UNCHANGED <<requested, executed, result, todo, stack, visited, order>>
PickRequest == /\ pc = "request" /\ pc' = "check"
               /\ requested' \in (SUBSET Target) \ {{}}
               /\ todo' = requested'
               /\ UNCHANGED <<deps, executed, result, stack, visited, order>>
Ended == pc = "end" /\ UNCHANGED allvars       \* final stuttering: deadlock = stuck earlier
SNext == PickGraph \/ PickRequest \/ AStep \/ Ended
Sym == Permutations(Target)

----------------------------------------------------------------------------
(* What TLC checks                                                          *)

\* refinement: every step of a run is a step of the declarative spec or stutters
Refines == [][pc \notin {"graph", "request"} => (Next \/ UNCHANGED vars)]_allvars

\* the algorithm ends only with an outcome
EndsWithOutcome == pc = "end" <=> result # "running"

\* structure of the DFS
StackIsPath == \A k \in 1..(Len(stack) - 1) :
                  /\ stack[k + 1].t \in deps[stack[k].t]
                  /\ stack[k + 1].t \notin stack[k].rem
NoRepeatOnPath == \A j, k \in DOMAIN stack : stack[j].t = stack[k].t => j = k
CheckSets == pc = "check" => OnPath \cap visited = {}
\* a finished target of the check phase has all its dependencies finished:
\* nothing below it can close a cycle through the current path
VisitedClosed == pc = "check" => \A t \in visited : deps[t] \subseteq visited
\* the order phase only runs on graphs whose reachable part is acyclic
OrderOnlyAcyclic == pc \in {"order", "run"} => ~Cyclic
\* the order under construction is a dependency order without repetition
OrderIsTopological ==
    pc \in {"order", "run"} =>
        LET whole == executed \o order IN
        /\ \A j, k \in DOMAIN whole : whole[j] = whole[k] => j = k
        /\ \A k \in DOMAIN whole : deps[whole[k]] \subseteq {whole[j] : j \in 1..(k - 1)}
OrderComplete == pc = "run" => Range(executed \o order) = Needed
=============================================================================
