---------------------------- MODULE Mos6502_MC ----------------------------
(* Idiom M for Mos6502.tla: laws of the ISA model, checked exhaustively      *)
(* before the model judges ppci.                                             *)
(*  family "tab"  the opcode matrix as a whole: 151 entries, 56 mnemonics,    *)
(*                13 modes with the column sums of appendix B; it is a        *)
(*                partial bijection (no opcode byte twice, no (mnemonic,      *)
(*                mode) twice); it agrees with the second, independent        *)
(*                description of the same matrix by bit fields aaa bbb cc     *)
(*                (group one: ora and eor adc sta lda cmp sbc; group two:     *)
(*                asl rol lsr ror stx ldx dec inc; group three: bit jmp jmp() *)
(*                sty ldy cpy cpx; branches xxy10000)                         *)
(*  family "op"   every opcode byte 0..255 x operand bytes: at most one        *)
(*                meaning; a documented one is well-formed, re-encodes to the *)
(*                same bytes, one byte less is "truncated", one more          *)
(*                "toolong"; LengthOf agrees with the decoder                 *)
(*  family "ins"  every (mnemonic, mode) of the matrix x boundary operands:   *)
(*                Decode(Encode(i)) = i                                       *)
(*  family "ln"   printed lines: every mnemonic x every operand notation x    *)
(*                boundary values: the line means an instruction exactly      *)
(*                when the matrix has the (mnemonic, mode) cell, and the      *)
(*                bytes of that instruction decode to what the line means     *)
(*  family "ka"   hand-checked known answers (programming manual examples)    *)
(*  family "fld"  byte / word pattern and sign-extension laws                 *)
(* The same run writes the boundary table of idiom G to IOEnv.OUT_FILE.      *)
EXTENDS Mos6502, Json, IOUtils, SequencesExt
CONSTANTS Deep, Fams

Labelled(lo, hi, a) ==
    {lo - a, lo - 1, lo, lo + 1, lo + a, -a, -1, 0, 1, a, 2 * a, 3 * a, 4, 8, hi - a, hi - 1, hi, hi + 1, hi + a,
     ((lo + hi) \div (2 * a)) * a, ((lo + hi) \div (2 * a)) * a + a, (hi \div (2 * a)) * a, (hi \div (2 * a)) * a + a,
     (lo \div (2 * a)) * a, (lo \div (2 * a)) * a - a, 127, 128, 255, 256, -128, -129, 4660, 18}
Inside(lo, hi, a, v) == lo <= v /\ v <= hi /\ v % a = 0
Row(r) == [what |-> r[1], lo |-> r[2], hi |-> r[3], align |-> r[4],
           vals |-> SetToSeq({[v |-> v, inside |-> Inside(r[2], r[3], r[4], v)] : v \in Labelled(r[2], r[3], r[4])})]
Table == [mcs6500 |-> SetToSeq({Row(r) : r \in MRanges})]
ASSUME JsonSerialize(IOEnv.OUT_FILE, Table)

-----------------------------------------------------------------------------
VARIABLES fam, pick
vars == <<fam, pick>>
None == [k |-> "none"]

Im(v) == <<"i", v, "">>
Lb(a) == <<"l", a, "L_t">>
Wd(w) == <<"w", 0, w>>
G(ch) == <<ch, 0, "">>

\* the second description of the matrix: bit fields aaa bbb cc (programming manual, appendix "instruction decode")
G1Mn == <<"ora", "and", "eor", "adc", "sta", "lda", "cmp", "sbc">>
G1Mode == <<"izx", "zp", "imm", "abs", "izy", "zpx", "aby", "abx">>
G2Mn == <<"asl", "rol", "lsr", "ror", "stx", "ldx", "dec", "inc">>
G2Mode(mn) == <<"imm", "zp", "acc", "abs", "-", IF mn \in {"stx", "ldx"} THEN "zpy" ELSE "zpx", "-", IF mn = "ldx" THEN "aby" ELSE "abx">>
G3Mn == <<"-", "bit", "jmp", "jmpi", "sty", "ldy", "cpy", "cpx">>
G3Mode == <<"imm", "zp", "-", "abs", "-", "zpx", "-", "abx">>
BranchMn == <<"bpl", "bmi", "bvc", "bvs", "bcc", "bcs", "bne", "beq">>      \* xx = flag N V C Z, y = value compared
ByFields(op) ==
    LET a == Bits(op, 5, 3)  b == Bits(op, 2, 3)  c == Bits(op, 0, 2) IN
    IF Bits(op, 0, 5) = 16 THEN {<<BranchMn[a + 1], "rel">>}
    ELSE IF c = 1 THEN (IF a = 4 /\ b = 2 THEN {} ELSE {<<G1Mn[a + 1], G1Mode[b + 1]>>})      \* no sta #
    ELSE IF c = 2 THEN
        (LET mn == G2Mn[a + 1]  m == G2Mode(mn)[b + 1] IN
         IF m = "-" THEN {}
         ELSE IF m = "imm" THEN (IF mn = "ldx" THEN {<<mn, m>>} ELSE {})
         ELSE IF m = "acc" THEN (IF a < 4 THEN {<<mn, m>>} ELSE {})      \* 8A txa, AA tax, CA dex, EA nop: single-byte
         ELSE IF mn = "stx" /\ m = "abx" THEN {}
         ELSE {<<mn, m>>})
    ELSE IF c = 0 /\ b \in {1, 3, 5, 7} \cup {0} THEN
        (LET mn == G3Mn[a + 1]  m == G3Mode[b + 1] IN
         IF mn = "-" \/ m = "-" THEN {}
         ELSE IF mn = "jmp" THEN (IF m = "abs" THEN {<<"jmp", "abs">>} ELSE {})
         ELSE IF mn = "jmpi" THEN (IF m = "abs" THEN {<<"jmp", "ind">>} ELSE {})
         ELSE IF m = "imm" THEN (IF a >= 5 THEN {<<mn, m>>} ELSE {})
         ELSE IF mn = "bit" /\ m \in {"zpx", "abx"} THEN {}
         ELSE IF mn = "sty" /\ m = "abx" THEN {}
         ELSE IF mn \in {"cpy", "cpx"} /\ m \in {"zpx", "abx"} THEN {}
         ELSE {<<mn, m>>})
    ELSE {}
\* the single-byte instructions and jsr lie outside the three groups
Singles == {e \in OpTable : e[2] = "imp"} \cup {<<"jsr", "abs", 32>>}
InGroups(e) == e \notin Singles

ColumnSum == [imp |-> 25, acc |-> 4, imm |-> 11, zp |-> 21, zpx |-> 16, zpy |-> 2, abs |-> 23, abx |-> 15, aby |-> 9,
              ind |-> 1, izx |-> 8, izy |-> 8, rel |-> 8]

Vals8 == IF Deep THEN {0, 1, 18, 127, 128, 254, 255} ELSE {0, 127, 128, 255}
Vals16 == IF Deep THEN {0, 1, 255, 256, 4660, 32767, 32768, 65535} ELSE {0, 255, 256, 4660, 65535}
ValsRel == IF Deep THEN {-128, -127, -2, -1, 0, 1, 2, 126, 127} ELSE {-128, -2, 0, 127}
ValsOf(m) == CASE OperandLen(m) = 0 -> {0} [] m = "rel" -> ValsRel [] OperandLen(m) = 1 -> Vals8 [] OTHER -> Vals16
InsOf(e) == {[mn |-> e[1], mode |-> e[2], v |-> v, len |-> 1 + OperandLen(e[2])] : v \in ValsOf(e[2])}

\* ---- printed lines <<mnemonic, ops, pc, mode it must mean>>
LVals8 == {-128, -1, 0, 18, 255}
LVals16 == {-32768, -1, 0, 255, 256, 4660, 65535}
Notations(mn) ==
    {<<<<>>, IF mn \in Shifts THEN "acc" ELSE "imp", 0>>, <<<<Wd("a")>>, "acc", 0>>}
    \cup {<<<<G("#"), Im(v)>>, "imm", W8(v)>> : v \in LVals8}
    \cup {<<<<Wd("zeropage"), Im(v)>>, "zp", W8(v)>> : v \in LVals8}
    \cup {<<<<Wd("zeropage"), Im(v), G(","), Wd("x")>>, "zpx", W8(v)>> : v \in LVals8}
    \cup {<<<<Wd("zeropage"), Im(v), G(","), Wd("y")>>, "zpy", W8(v)>> : v \in LVals8}
    \cup (IF mn \in Branches
          THEN {<<<<Im(v)>>, "rel", SignExt(W8(v), 8)>> : v \in LVals8} \cup {<<<<Lb(4096 + 2 + d)>>, "rel", d>> : d \in ValsRel}
          ELSE {<<<<Im(v)>>, "abs", W16(v)>> : v \in LVals16} \cup {<<<<Lb(4660)>>, "abs", 4660>>})
    \cup {<<<<Im(v), G(","), Wd("x")>>, "abx", W16(v)>> : v \in LVals16} \cup {<<<<Lb(4660), G(","), Wd("x")>>, "abx", 4660>>}
    \cup {<<<<Im(v), G(","), Wd("y")>>, "aby", W16(v)>> : v \in LVals16} \cup {<<<<Lb(4660), G(","), Wd("y")>>, "aby", 4660>>}
    \cup {<<<<G("("), Im(v), G(","), Wd("x"), G(")")>>, "izx", W8(v)>> : v \in LVals8}
    \cup {<<<<G("("), Im(v), G(")"), G(","), Wd("y")>>, "izy", W8(v)>> : v \in LVals8}
    \cup {<<<<G("("), Im(v), G(")")>>, "ind", W16(v)>> : v \in LVals16}
\* lines outside the notation / outside every field
BadLines == {<<"lda", <<G("#"), Im(256)>>, "range">>, <<"lda", <<Im(65536)>>, "range">>, <<"lda", <<Im(-32769)>>, "range">>,
             <<"bne", <<Lb(4096 + 2 + 128)>>, "range">>, <<"bne", <<Lb(4096 + 2 - 129)>>, "range">>, <<"bne", <<Im(256)>>, "range">>,
             <<"lda", <<G("#")>>, "none">>, <<"lda", <<Im(1), G(","), Wd("z")>>, "none">>, <<"lda", <<G("("), Im(1)>>, "none">>,
             <<"lda", <<G("("), Im(5), G(","), Wd("y"), G(")")>>, "noform">>, <<"lda", <<G("("), Im(5), G(")"), G(","), Wd("x")>>, "noform">>,
             <<"xyz", <<>>, "none">>, <<"ldq", <<G("#"), Im(1)>>, "none">>, <<"lda", <<G("x")>>, "none">>}

\* ---- hand-checked known answers: <<mnemonic, ops, pc, bytes>>
Known == {
    <<"lda", <<G("#"), Im(68)>>, 0, <<169, 68>>>>,                                  \* A9 44
    <<"lda", <<Im(17408)>>, 0, <<173, 0, 68>>>>,                                    \* AD 00 44   lda $4400
    <<"lda", <<Wd("zeropage"), Im(68)>>, 0, <<165, 68>>>>,                          \* A5 44
    <<"lda", <<G("("), Im(68), G(","), Wd("x"), G(")")>>, 0, <<161, 68>>>>,         \* A1 44
    <<"lda", <<G("("), Im(68), G(")"), G(","), Wd("y")>>, 0, <<177, 68>>>>,         \* B1 44
    <<"sta", <<Im(17408), G(","), Wd("y")>>, 0, <<153, 0, 68>>>>,                   \* 99 00 44
    <<"stx", <<Wd("zeropage"), Im(68), G(","), Wd("y")>>, 0, <<150, 68>>>>,         \* 96 44
    <<"ldx", <<Im(17408), G(","), Wd("y")>>, 0, <<190, 0, 68>>>>,                   \* BE 00 44
    <<"jmp", <<Im(21911)>>, 0, <<76, 151, 85>>>>,                                   \* 4C 97 55   jmp $5597
    <<"jmp", <<G("("), Im(21911), G(")")>>, 0, <<108, 151, 85>>>>,                  \* 6C 97 55
    <<"jsr", <<Im(21911)>>, 0, <<32, 151, 85>>>>,                                   \* 20 97 55
    <<"asl", <<>>, 0, <<10>>>>, <<"asl", <<Wd("a")>>, 0, <<10>>>>,                  \* 0A
    <<"ror", <<Im(17408), G(","), Wd("x")>>, 0, <<126, 0, 68>>>>,                   \* 7E 00 44
    <<"bne", <<Lb(4096)>>, 4096, <<208, 254>>>>,                                    \* D0 FE   bne *
    <<"beq", <<Lb(4102)>>, 4096, <<240, 4>>>>,                                      \* F0 04
    <<"bvc", <<Lb(4098)>>, 4096, <<80, 0>>>>, <<"bvs", <<Lb(3970)>>, 4096, <<112, 128>>>>,   \* 50 00   70 80
    <<"bcc", <<Im(5)>>, 0, <<144, 5>>>>, <<"bcs", <<Im(-2)>>, 0, <<176, 254>>>>,    \* 90 05   B0 FE
    <<"bmi", <<Lb(4225)>>, 4096, <<48, 127>>>>, <<"bpl", <<Lb(4098)>>, 4096, <<16, 0>>>>,    \* 30 7F   10 00
    <<"brk", <<>>, 0, <<0>>>>, <<"nop", <<>>, 0, <<234>>>>, <<"rts", <<>>, 0, <<96>>>>, <<"rti", <<>>, 0, <<64>>>>,
    <<"txs", <<>>, 0, <<154>>>>, <<"tsx", <<>>, 0, <<186>>>>, <<"pha", <<>>, 0, <<72>>>>, <<"plp", <<>>, 0, <<40>>>>,
    <<"cpx", <<G("#"), Im(68)>>, 0, <<224, 68>>>>, <<"cpy", <<Im(17408)>>, 0, <<204, 0, 68>>>>,   \* E0 44   CC 00 44
    <<"bit", <<Wd("zeropage"), Im(68)>>, 0, <<36, 68>>>>, <<"inc", <<Im(17408), G(","), Wd("x")>>, 0, <<254, 0, 68>>>>,
    <<"sbc", <<G("#"), Im(-1)>>, 0, <<233, 255>>>>, <<"ldy", <<Wd("zeropage"), Im(68), G(","), Wd("x")>>, 0, <<180, 68>>>> }

Init == fam = "none" /\ pick = None
PickFam == fam = "none" /\ fam' \in Fams /\ pick' = None
PickTab == fam = "tab" /\ pick = None /\ UNCHANGED fam /\ pick' = [k |-> "tab"]
PickOp == fam = "op" /\ pick = None /\ UNCHANGED fam /\ \E op \in 0..255 : pick' = [k |-> "op-", op |-> op]
PickOpb == fam = "op" /\ pick.k = "op-" /\ UNCHANGED fam
           /\ \E e \in (IF Deep THEN {<<0, 0>>, <<255, 255>>, <<52, 18>>, <<128, 127>>} ELSE {<<52, 18>>, <<128, 255>>}) :
                 pick' = [k |-> "op", op |-> pick.op, e |-> e]
PickInsE == fam = "ins" /\ pick = None /\ UNCHANGED fam /\ \E e \in OpTable : pick' = [k |-> "ins-", e |-> e]
PickIns == fam = "ins" /\ pick.k = "ins-" /\ UNCHANGED fam /\ \E i \in InsOf(pick.e) : pick' = [k |-> "ins", i |-> i]
PickLnMn == fam = "ln" /\ pick = None /\ UNCHANGED fam /\ \E mn \in Mnemonics : pick' = [k |-> "ln-", mn |-> mn]
PickLn == fam = "ln" /\ pick.k = "ln-" /\ UNCHANGED fam /\ \E n \in Notations(pick.mn) : pick' = [k |-> "ln", mn |-> pick.mn, n |-> n]
PickBadLn == fam = "ln" /\ pick = None /\ UNCHANGED fam /\ \E b \in BadLines : pick' = [k |-> "bl", b |-> b]
PickKa == fam = "ka" /\ pick = None /\ UNCHANGED fam /\ \E ka \in Known : pick' = [k |-> "ka", ka |-> ka]
PickFld == fam = "fld" /\ pick = None /\ UNCHANGED fam /\ \E v \in 0..255 : pick' = [k |-> "fld", v |-> v]
Next == PickFam \/ PickTab \/ PickOp \/ PickOpb \/ PickInsE \/ PickIns \/ PickLnMn \/ PickLn \/ PickBadLn \/ PickKa \/ PickFld

RegsOK(d) == Reads(d) \subseteq Regs /\ Writes(d) \subseteq Regs
-----------------------------------------------------------------------------
LawTable == pick.k = "tab" =>
    /\ Cardinality(OpTable) = 151 /\ Cardinality(Mnemonics) = 56
    /\ Cardinality({e[3] : e \in OpTable}) = 151                           \* no opcode byte twice
    /\ Cardinality({<<e[1], e[2]>> : e \in OpTable}) = 151                 \* no (mnemonic, mode) twice
    /\ \A e \in OpTable : e[2] \in Modes /\ e[3] \in 0..255
    /\ \A m \in Modes : Cardinality({e \in OpTable : e[2] = m}) = ColumnSum[m]
    /\ \A e \in OpTable : (e[2] = "rel") = (e[1] \in Branches)
    \* the matrix agrees with its description by bit fields, in both directions
    /\ \A e \in OpTable : InGroups(e) => ByFields(e[3]) = {<<e[1], e[2]>>}
    /\ \A op \in 0..255 : \A f \in ByFields(op) : <<f[1], f[2], op>> \in OpTable
    /\ \A e \in Singles : ByFields(e[3]) = {}
\* every opcode byte has at most one meaning; a documented one round-trips
LawOpcode == pick.k = "op" =>
    \E n \in {LengthOf(pick.op)} :
    \E b \in {<<pick.op>> \o (IF n >= 2 THEN <<pick.e[1]>> ELSE <<>>) \o (IF n >= 3 THEN <<pick.e[2]>> ELSE <<>>)} :
    \E d \in {Decode(b)} :
    /\ Cardinality(Entries(pick.op)) <= 1
    /\ (n = 0) = (d.mn = "undefined") /\ (n = 0) = (Entries(pick.op) = {})
    /\ n > 0 => /\ Valid(d) /\ WF(d) /\ d.len = n /\ Encode(d) = b /\ RegsOK(d)
                /\ Decode(b \o <<0>>).mn = "toolong"
                /\ (n > 1 => Decode(SubSeq(b, 1, n - 1)).mn = "truncated")
LawDecodeEncode == pick.k = "ins" => \E b \in {Encode(pick.i)} :
    /\ WF(pick.i) /\ Decode(b) = pick.i /\ Len(b) = pick.i.len /\ RegsOK(pick.i)
    /\ pick.i.mode = "rel" => Target(pick.i, 4096) = 4096 + 2 + pick.i.v
LawLine == pick.k = "ln" => \E a \in {Asm(pick.mn, pick.n[1], 4096)} :
    /\ a # NoAsm
    /\ (a = NoForm) = ~HasForm(pick.mn, pick.n[2])
    /\ a # NoForm => /\ a.mode = pick.n[2] /\ a.v = pick.n[3] /\ WF(a)
                     /\ Decode(Encode(a)) = a
LawBadLine == pick.k = "bl" => Asm(pick.b[1], pick.b[2], 4096).mn = pick.b[3]
LawKnown == pick.k = "ka" => LET a == Asm(pick.ka[1], pick.ka[2], pick.ka[3])  b == pick.ka[4] IN
    /\ Valid(a) /\ Encode(a) = b /\ Decode(b) = a
LawFields == pick.k = "fld" => LET v == pick.v IN
    /\ Pattern(SignExt(v, 8), 8) = v /\ SignExt(v, 8) \in -128..127
    /\ W8(v) = v /\ W8(v - 256) = v /\ W8(v + 256) = v /\ W16(v * 256 + v) = v * 256 + v /\ W16(v - 65536) = v
    /\ W8(-1) = 255 /\ W16(-1) = 65535 /\ W16(-32768) = 32768
=============================================================================
