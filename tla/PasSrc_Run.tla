------------------------------ MODULE PasSrc_Run ------------------------------
(* Batch driver for PasSrc.tla: every (case, argument vector) is executed by TLC *)
(* and its observation is written to  <OBS_DIR>/<i>_<av>.json ; the driver       *)
(* (engines/x01.py) hands these observations to PasSrc_IR.tla, where TLC         *)
(* compares them with the execution of the IR that ppci's Pascal front-end       *)
(* produced for the same program.  `acts` records which actions of PasSrc.tla    *)
(* the behaviour took (TLC's -coverage instrumentation cannot be used with the   *)
(* mutually recursive evaluator).                                                *)
EXTENDS PasSrc
VARIABLES done, acts
ObsPath == IOEnv.OBS_DIR \o "/" \o ToString(i) \o "_" \o ToString(av) \o ".json"
RInit == Init /\ done = FALSE /\ acts = {}
T(name, A) == A /\ UNCHANGED <<chunk, i, av, done>> /\ acts' = acts \cup {name}
EmitObs == /\ Finished /\ ~done
           /\ done' = TRUE
           /\ JsonSerialize(ObsPath, [i |-> i, av |-> av, steps |-> steps, acts |-> acts, obs |-> Obs])
           /\ UNCHANGED vars /\ UNCHANGED acts
RNext == \/ ((PickChunk \/ PickCase) /\ UNCHANGED <<done, acts>>)
         \/ T("Assign", Assign) \/ T("CallStmt", CallStmt) \/ T("If", If) \/ T("While", While) \/ T("LoopTest", LoopTest)
         \/ T("Repeat", Repeat) \/ T("Until", Until) \/ T("For", For) \/ T("ForNext", ForNext) \/ T("Case", Case)
         \/ T("Write", Write) \/ T("BlockEnd", BlockEnd) \/ T("Unknown", Unknown) \/ T("OutOfFuel", OutOfFuel)
         \/ EmitObs
=============================================================================
