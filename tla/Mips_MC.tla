------------------------------ MODULE Mips_MC ------------------------------
(* Idiom M for Mips.tla: laws of the MIPS32 model, checked exhaustively on   *)
(* small domains before the model judges ppci.                               *)
(*  family "mips.w"   instruction words: every opcode x register-field       *)
(*        samples x (for SPECIAL / REGIMM / SPECIAL2 every function / rt      *)
(*        value) low halfwords: exactly one class of table A.2 matches; a    *)
(*        defined instruction is well-formed and re-encodes to the same word; *)
(*        the field split / join laws                                        *)
(*  family "mips.ln"  printed reference lines (every form x registers x      *)
(*        labelled boundary operands): Decode(Encode(Asm(line))) = Asm(line) *)
(*  family "mips.sx"  sign-extension / pattern laws on boundary values       *)
(* Table = the boundary table of idiom G (written by Risc3_MC).              *)
EXTENDS Mips, SequencesExt
CONSTANTS Deep, Fams
VARIABLES fam, pick

Row(r) == [mns |-> SetToSeq(r[1]), pat |-> r[2], lo |-> r[3], hi |-> r[4], align |-> r[5],
           vals |-> SetToSeq({[v |-> v, inside |-> Inside(r[3], r[4], r[5], v)] : v \in Labelled(r[3], r[4], r[5])})]
Table == [rows |-> SetToSeq({Row(r) : r \in Ranges})]

None == [k |-> "none"]
Rg(r) == <<"r", r, "">>
Im(v) == <<"i", v, "">>
Lb == <<"l", 0, "L_t">>
G(ch) == <<ch, 0, "">>
ImmsIn(r) == {v \in Labelled(r[3], r[4], r[5]) : Inside(r[3], r[4], r[5], v)}
RangeOf(mn, pat) == CHOOSE r \in Ranges : mn \in r[1] /\ r[2] = pat
RS == IF Deep THEN {0, 1, 8, 16, 30, 31} ELSE {0, 5, 31}
PcB == 262144
NLineGroups == 6
LineGroup(g) ==
    CASE g = 1 -> {<<m, <<Rg(d), Rg(s), Rg(t)>>, 0, 0>> : m \in R3 \cup ShV, d \in RS, s \in RS, t \in RS}
      [] g = 2 -> {<<m, <<Rg(d), Rg(t), Im(v)>>, 0, 0>> : m \in ShI, d \in RS, t \in RS, v \in {0, 1, 15, 16, 31}}
                  \cup {<<m, <<Rg(t), Rg(s), Im(v)>>, 0, 0>> : m \in ImmS, t \in RS, s \in RS, v \in ImmsIn(RangeOf("addi", "rri"))}
      [] g = 3 -> {<<m, <<Rg(t), Rg(s), Im(v)>>, 0, 0>> : m \in ImmU, t \in RS, s \in RS, v \in ImmsIn(RangeOf("ori", "rri"))}
                  \cup {<<"lui", <<Rg(t), Im(v)>>, 0, 0>> : t \in 0..31, v \in ImmsIn(RangeOf("lui", "ri"))}
                  \cup {<<"lui", <<Rg(t), Rg(0), Im(v)>>, 0, 0>> : t \in RS, v \in ImmsIn(RangeOf("lui", "ri"))}
      [] g = 4 -> {<<m, <<Rg(t), Im(v), G("("), Rg(s), G(")")>>, 0, 0>> : m \in Loads \cup Stores, t \in RS, s \in RS,
                                                                         v \in ImmsIn(RangeOf("lw", "ri(r)"))}
      [] g = 5 -> {<<m, <<Lb>>, base + v, base + pc>> : m \in {"j", "jal"}, base \in {0, 268435456, 1879048192}, pc \in {0, 4096, 268435448},
                                                        v \in ImmsIn(RangeOf("j", "l"))}
                  \cup {<<m, <<Rg(s), Rg(t), Lb>>, PcB + 4 + v, PcB>> : m \in Br2, s \in RS, t \in RS, v \in ImmsIn(RangeOf("beq", "rrl"))}
                  \cup {<<m, <<Rg(s), Lb>>, PcB + 4 + v, PcB>> : m \in Br1 \cup BrRI, s \in RS, v \in ImmsIn(RangeOf("bltz", "rl"))}
      [] g = 6 -> {<<"jr", <<Rg(s)>>, 0, 0>> : s \in 0..31} \cup {<<"jalr", <<Rg(s)>>, 0, 0>> : s \in 0..31}
                  \cup {<<"jalr", <<Rg(d), Rg(s)>>, 0, 0>> : d \in 0..31, s \in RS}
                  \cup {<<m, <<Rg(s), Rg(t)>>, 0, 0>> : m \in MulDiv \cup TrapR, s \in RS, t \in RS}
                  \cup {<<m, <<Rg(d)>>, 0, 0>> : m \in {"mfhi", "mflo", "mthi", "mtlo"}, d \in 0..31}
                  \cup {<<m, <<Rg(d), Rg(s)>>, 0, 0>> : m \in {"clz", "clo"}, d \in RS, s \in RS}
                  \cup {<<m, <<Rg(s), Im(v)>>, 0, 0>> : m \in TrapI, s \in RS, v \in ImmsIn(RangeOf("teqi", "ri"))}
                  \cup {<<m, <<>>, 0, 0>> : m \in {"syscall", "break", "sync", "nop"}}

\* words: <<high halfword, low halfword>>
RegOps == {0, 1, 28}                                   \* SPECIAL, REGIMM, SPECIAL2: sub-tables in rt / function
HiRest(op) == IF op = 1 THEN {a * 32 + b : a \in (IF Deep THEN {0, 5, 31} ELSE {5}), b \in 0..31}
              ELSE IF Deep THEN {0, 1, 32, 166, 1023, 992, 31, 517} ELSE {0, 166, 1023}
LoFor(op) == IF op \in RegOps \ (IF Deep THEN {} ELSE {1})
             THEN {c * 2048 + d * 64 + f : c \in (IF Deep THEN {0, 1, 31} ELSE {31}), d \in (IF Deep THEN {0, 1, 2, 31} ELSE {0, 1}), f \in 0..63}
             ELSE {0, 1, 4, 32767, 32768, 65535, 4660, 43690} \cup (IF Deep THEN {65532, 21845, 2048, 63} ELSE {})
SxVals == {-32768, -32767, -1, 0, 1, 32767, -4, 4, -131072, 131068, 65535, 65536, -65536, 33554431, -33554432}

Init == fam = "none" /\ pick = None
PickFam == fam = "none" /\ fam' \in Fams \cap {"mips.w", "mips.ln", "mips.sx"} /\ pick' = None
PickWHi == fam = "mips.w" /\ pick = None /\ UNCHANGED fam /\ \E op \in 0..63 : \E r \in HiRest(op) : pick' = [k |-> "mips.w-", hi |-> op * 1024 + r]
PickWLo == fam = "mips.w" /\ pick.k = "mips.w-" /\ UNCHANGED fam /\ \E lo \in LoFor(pick.hi \div 1024) : pick' = [k |-> "mips.w", w |-> <<pick.hi, lo>>]
PickLnG == fam = "mips.ln" /\ pick = None /\ UNCHANGED fam /\ \E g \in 1..NLineGroups : pick' = [k |-> "mips.ln-", g |-> g]
PickLn == fam = "mips.ln" /\ pick.k = "mips.ln-" /\ UNCHANGED fam /\ \E ln \in LineGroup(pick.g) : pick' = [k |-> "mips.ln", ln |-> ln]
PickSx == fam = "mips.sx" /\ pick = None /\ UNCHANGED fam /\ \E v \in SxVals : pick' = [k |-> "mips.sx", v |-> v]
Next == PickFam \/ PickWHi \/ PickWLo \/ PickLnG \/ PickLn \/ PickSx

-----------------------------------------------------------------------------
RegsOK(d) == Reads(d) \subseteq 1..31 /\ Writes(d) \subseteq 1..31 /\ LinkW(d) \subseteq Writes(d)
\* table A.2 is a partition of the opcode space
LawOneFormat == pick.k = "mips.w" => Cardinality(Matches(pick.w)) = 1
\* a defined instruction is well-formed, re-encodes to the same word and decodes back; little-endian bytes
LawReencode == pick.k = "mips.w" => LET d == DecodeW(pick.w) IN
    /\ d.len = 4
    /\ Valid(d) => (WF(d) /\ EncodeW(d) = pick.w /\ Decode(Encode(d)) = d /\ RegsOK(d))
\* split / join of the R, I and J formats and of the byte order
LawFields == pick.k = "mips.w" => LET w == pick.w IN
    /\ MkW(Op6(w), F25(w), F20(w), Lo16(w)) = w
    /\ MkLo(F15(w), F10(w), F5(w)) = w[2]
    /\ MkJ(Op6(w), Lo26(w)) = w
    /\ WordLE(BytesLE(w)) = w /\ WordBE(BytesBE(w)) = w
    /\ BytesLE(w) = <<BytesBE(w)[4], BytesBE(w)[3], BytesBE(w)[2], BytesBE(w)[1]>>
\* the reference assembler: a printed line is encoded to bytes that decode to what the line means
LawLine == pick.k = "mips.ln" => LET a == Asm(pick.ln[1], pick.ln[2], pick.ln[3], pick.ln[4]) IN
    /\ a # NoAsm /\ WF(a)
    /\ Core(Decode(Encode(a))) = a
    /\ Len(Encode(a)) = 4
LawSignExt == pick.k = "mips.sx" => LET v == pick.v IN
    /\ (-32768 <= v /\ v <= 32767) => (SignExt(Pattern(v, 16), 16) = v /\ Pattern(v, 16) \in Half)
    /\ (v \in Half) => Pattern(SignExt(v, 16), 16) = v
    /\ (-33554432 <= v /\ v <= 33554431) => SignExt(Pattern(v, 26), 26) = v
=============================================================================
