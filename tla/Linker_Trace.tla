--------------------------- MODULE Linker_Trace ---------------------------
(* Idiom T: links performed by the real ppci.binutils.linker.Linker, recorded *)
(* phase by phase (harness/objgen.py: link_recorder wraps inject_object,      *)
(* layout_sections, check_undefined_symbols, do_relaxations, _do_relocation), *)
(* are validated against Linker.tla.  TRACE_FILE is a JSON array of           *)
(*   {id, arch, inp, lay, opt, events}                                        *)
(* inp = projections of the real input ObjectFiles (harness/project_obj.py),  *)
(* lay / opt = the job as generated, events =                                 *)
(*   {ev:"start", state}            before the first inject_object            *)
(*   {ev:"inject", obj, state}      after each inject_object                  *)
(*   {ev:"layout", state}           after layout_sections                     *)
(*   {ev:"check"}                   check_undefined_symbols returned          *)
(*   {ev:"relax", state}            after do_relaxations                      *)
(*   {ev:"reloc", r, sec, before, after}   section bytes around _do_relocation*)
(*   {ev:"fail", phase, exc, state} first exception                           *)
(*   {ev:"end", state, imgdata}     the object returned by link(), Image.data *)
(* The specification takes its internal steps (one symbol, one memory input)  *)
(* silently and must be able to take every event in order; the state it       *)
(* reaches must match the observed one (Matches: addresses, alignments,       *)
(* symbols, relocations, images, entry, and byte-for-byte the input bytes     *)
(* wherever the provenance tag says "input byte").  The free parameters of    *)
(* Inject / Place actions (padding, alignment of output sections) are read    *)
(* off the observed state and must be legal.  A refused event sets bad (the   *)
(* invariant NotRejected fails; why names the clause).  All invariants of     *)
(* Linker.tla are checked in every state of every trace.                      *)
(* CheckValues = TRUE adds property C11 to every relocation event             *)
(* (Reloc.tla: the patched field designates S + A; a value that does not fit  *)
(* ends in a failure).                                                        *)
EXTENDS Linker, Reloc, TLC

CONSTANTS CheckValues, NChunks
VARIABLES chunk, l, bad, why, obs, spur
tvars == <<chunk, l, bad, why, obs, spur>>
allvars == <<vars, tvars>>

Events == Jobs[job].events
Ev == Events[l]
HasEv == job > 0 /\ l <= Len(Events)
ErrorClasses == {"CompilerError"}          \* what ppci raises for the failures property C12 names
EmptyDst == [secs |-> <<>>, syms |-> <<>>, rels |-> <<>>, images |-> <<>>, entry |-> -1]

-----------------------------------------------------------------------------
(* comparison of the specification's state with an observed (projected) one *)
ByteOf(t) == inp[t[1]].secs[t[2]].data[t[3] + 1]
DataMatches(tags, bytes) == /\ Len(tags) = Len(bytes)
                            /\ \A p \in 1..Len(tags) : IsInputTag(tags[p]) => bytes[p] = ByteOf(tags[p])
ObsSecIdx(o, n) == IF \E j \in 1..Len(o.sections) : o.sections[j].name = n
                   THEN CHOOSE j \in 1..Len(o.sections) : o.sections[j].name = n ELSE 0
SecMatches(s, t) == s.addr = t.address /\ s.align = t.alignment /\ DataMatches(s.data, t.data)
SecsMatch(d, o) == /\ Len(d.secs) = Len(o.sections)
                   /\ \A k \in 1..Len(d.secs) : LET j == ObsSecIdx(o, d.secs[k].name) IN
                                                j > 0 /\ SecMatches(d.secs[k], o.sections[j])
SymMatches(y, t) == /\ y.id = t.id /\ y.name = t.name /\ y.binding = t.binding /\ y.def = t.def
                    /\ (y.def => y.value = t.value /\ y.sec = t.sec)
SymsMatch(d, o) == /\ Len(d.syms) = Len(o.symbols)
                   /\ \A k \in 1..Len(d.syms) : SymMatches(d.syms[k], o.symbols[k])
RelMatches(r, t) == r.type = t.type /\ r.sym = t.sym /\ r.sec = t.sec /\ r.off = t.off /\ r.add = t.add
RelsMatch(d, o) == /\ Len(d.rels) = Len(o.relocations)
                   /\ \A k \in 1..Len(d.rels) : RelMatches(d.rels[k], o.relocations[k])
ImgsMatch(d, o) == /\ Len(d.images) = Len(o.images)
                   /\ \A k \in 1..Len(d.images) : /\ d.images[k].name = o.images[k].name
                                                  /\ d.images[k].addr = o.images[k].address
                                                  /\ d.images[k].secs = o.images[k].secs
Matches(d, o) == SecsMatch(d, o) /\ SymsMatch(d, o) /\ RelsMatch(d, o) /\ ImgsMatch(d, o) /\ d.entry = o.entry
Mismatch(d, o) == IF ~SecsMatch(d, o) THEN "sections (placement, alignment or contents)"
                  ELSE IF ~SymsMatch(d, o) THEN "symbols"
                  ELSE IF ~RelsMatch(d, o) THEN "relocation entries"
                  ELSE IF ~ImgsMatch(d, o) THEN "images"
                  ELSE IF d.entry # o.entry THEN "entry symbol" ELSE "nothing"

\* the free parameters, read off the observed state that follows
ObsAlign(o, n) == LET j == ObsSecIdx(o, n) IN IF j = 0 THEN 1 ELSE o.sections[j].alignment
ObsLen(o, n)   == LET j == ObsSecIdx(o, n) IN IF j = 0 THEN 0 ELSE Len(o.sections[j].data)
CurLen(n)      == LET k == SecIdx(dst.secs, n) IN IF k = 0 THEN 0 ELSE Len(dst.secs[k].data)
ObsPads(o)   == MkT([k \in 1..Len(inp[nxt].secs) |->
                    ObsLen(o, inp[nxt].secs[k].name) - CurLen(inp[nxt].secs[k].name) - inp[nxt].secs[k].size])
ObsAligns(o) == MkT([k \in 1..Len(inp[nxt].secs) |-> ObsAlign(o, inp[nxt].secs[k].name)])

-----------------------------------------------------------------------------
Consume == l' = l + 1
Silent  == l' = l
KeepT   == UNCHANGED <<chunk, bad, why, obs, spur>>
IsEv(k) == HasEv /\ Ev.ev = k
IsFail(phase) == HasEv /\ Ev.ev = "fail" /\ Ev.phase = phase /\ Ev.exc \in ErrorClasses
Obj == ph = "inject" /\ nxt \in 1..Len(inp)

T_Start == IsEv("start") /\ Start /\ Matches(dst', Ev.state) /\ Consume /\ KeepT

\* inject_object: the section loop is taken when the event that closes this object is known
T_InjectSections == /\ Obj /\ HasEv /\ Ev.ev \in {"inject", "fail"}
                    /\ (Ev.ev = "inject" => Ev.obj = nxt)
                    /\ InjectSections(nxt, ObsPads(Ev.state), ObsAligns(Ev.state))
                    /\ Silent /\ KeepT
T_InjectNew       == Obj /\ InjectNew(nxt) /\ Silent /\ KeepT
T_MergeGlobal     == Obj /\ MergeGlobal(nxt) /\ Silent /\ KeepT
T_DuplicateGlobal == Obj /\ IsFail("inject") /\ DuplicateGlobal(nxt) /\ Consume /\ KeepT
T_InjectRelocs    == Obj /\ IsEv("inject") /\ InjectRelocs(nxt) /\ Matches(dst', Ev.state) /\ Consume /\ KeepT
T_DuplicateEntry  == Obj /\ IsFail("inject") /\ DuplicateEntry(nxt) /\ Consume /\ KeepT

\* layout_sections: internal steps silent, the event is consumed by the step that ends the phase
LayEv == HasEv /\ Ev.ev \in {"layout", "fail"}
T_PlaceSection     == LayEv /\ LayStep /\ PlaceSection(ObsAlign(Ev.state, In.name)) /\ Silent /\ KeepT
T_PlaceSectionData == LayEv /\ LayStep /\ PlaceSectionData(ObsAlign(Ev.state, CopyName(In.name))) /\ Silent /\ KeepT
T_DefineSymbol     == LayEv /\ LayStep /\ DefineSymbol(ObsAlign(Ev.state, CopyName(In.name))) /\ Silent /\ KeepT
T_DefineSymbolTwice == IsFail("layout") /\ DefineSymbolTwice /\ Consume /\ KeepT
T_AlignTo          == AlignTo /\ Silent /\ KeepT
T_CloseMemory      == /\ CloseMemory
                      /\ IF ph' = "check" THEN IsEv("layout") /\ Matches(dst', Ev.state) /\ Consume ELSE Silent
                      /\ KeepT
T_MemoryOverflow   == IsFail("layout") /\ MemoryOverflow /\ Consume /\ KeepT
T_EmptyLayout      == IsEv("layout") /\ EmptyLayout /\ Matches(dst, Ev.state) /\ Consume /\ KeepT

T_CheckUndefined == IsEv("check") /\ CheckUndefined /\ Consume /\ KeepT
T_UndefinedFound == IsFail("check") /\ UndefinedFound /\ Consume /\ KeepT
\* no relocation of the jobs of C11 / C12 / C14 can shrink: do_relaxations must leave the object alone
T_RelaxNone == /\ IsEv("relax") /\ RelaxNone /\ Matches(dst, Ev.state)
               /\ obs' = Ev.state.sections
               /\ Consume /\ UNCHANGED <<chunk, bad, why, spur>>

-----------------------------------------------------------------------------
(* _do_relocation: byte-level account.  obs = the section bytes as last observed *)
ObsData(n) == obs[CHOOSE j \in 1..Len(obs) : obs[j].name = n].data
Site(r) == RelocSite(dst, r)
SiteBytes(bytes, r) == MkT([k \in 1..dst.rels[r].size |-> bytes[dst.rels[r].off + k]])
OnlySiteChanges(r, before, after) ==
    /\ Len(before) = Len(after)
    /\ \A p \in 1..Len(before) : p \notin Site(r) => after[p] = before[p]
\* C11: what Reloc.tla demands of the patched field
Arch == ArchOf(Jobs[job].arch)
RS(r) == W(RelS(dst, r))
RA(r) == W(RelA(dst, r))
RP(r) == W(RelP(dst, r))
Fits(r) == Representable(Arch, dst.rels[r].type, RS(r), RA(r), RP(r))
ValueOK(r, before, after) ==
    \/ ~CheckValues
    \/ /\ Fits(r)
       /\ PatchOKW(Arch, dst.rels[r].type, SiteBytes(before, r), SiteBytes(after, r), RS(r), RA(r), RP(r))
       \* a control-transfer instruction still decodes to a branch to the symbol
       /\ (dst.rels[r].ctl => BranchOK(Arch, dst.rels[r].type, after, dst.rels[r].off, RS(r), RP(r)))

T_Relocate ==
    /\ IsEv("reloc") /\ ph = "relocate" /\ Ev.r = nxt /\ Ev.sec = dst.rels[nxt].sec
    /\ Ev.before = ObsData(Ev.sec)
    /\ OnlySiteChanges(nxt, Ev.before, Ev.after)
    /\ ValueOK(nxt, Ev.before, Ev.after)
    /\ Relocate(nxt)
    /\ obs' = MkT([j \in 1..Len(obs) |-> IF obs[j].name = Ev.sec THEN [obs[j] EXCEPT !.data = Ev.after] ELSE obs[j]])
    /\ Consume /\ UNCHANGED <<chunk, bad, why, spur>>
\* the link fails at this relocation: required when the value does not fit; a failure although the
\* value fits is tolerated by C11 (recorded in spur), not by C12
T_RelocateFails ==
    /\ HasEv /\ Ev.ev = "fail" /\ Ev.phase = "reloc" /\ ph = "relocate" /\ CheckValues
    /\ RelocateFails(nxt)
    /\ spur' = Fits(nxt)
    /\ Consume /\ UNCHANGED <<chunk, bad, why, obs>>

\* objectfile.Image.data of every image of the returned object: as long as Image.size says, with every
\* section of the image at its address (the bytes in the gaps are not constrained)
ImagesAssemble ==
    /\ Len(Ev.imgdata) = Len(dst.images)
    /\ \A g \in 1..Len(dst.images) :
         LET im == dst.images[g]
             d  == Ev.imgdata[g] IN
         /\ d.ok /\ d.name = im.name
         /\ Len(d.data) = ImageSize(dst.secs, im)
         /\ \A k \in 1..Len(im.secs) :
              LET s == SecOf(dst.secs, im.secs[k])
                  j == ObsSecIdx(Ev.state, s.name) IN
              j > 0 /\ \A b \in 1..Len(s.data) : d.data[s.addr - im.addr + b] = Ev.state.sections[j].data[b]
\* the returned object is the state reached, with exactly the bytes observed after the last relocation
T_End == /\ IsEv("end") /\ ph = "done"
         /\ Matches(dst, Ev.state)
         /\ ImagesAssemble
         /\ (~opt.partial => \A j \in 1..Len(obs) :
                LET k == ObsSecIdx(Ev.state, obs[j].name) IN k > 0 /\ Ev.state.sections[k].data = obs[j].data)
         /\ Consume /\ KeepT /\ UNCHANGED vars

EvStep == \/ T_Start
          \/ T_InjectSections \/ T_InjectNew \/ T_MergeGlobal \/ T_DuplicateGlobal \/ T_InjectRelocs \/ T_DuplicateEntry
          \/ T_PlaceSection \/ T_PlaceSectionData \/ T_DefineSymbol \/ T_DefineSymbolTwice \/ T_AlignTo
          \/ T_CloseMemory \/ T_MemoryOverflow \/ T_EmptyLayout
          \/ T_CheckUndefined \/ T_UndefinedFound \/ T_RelaxNone
          \/ T_Relocate \/ T_RelocateFails \/ T_End

-----------------------------------------------------------------------------
(* which clause refuses the event (diagnosis only; the verdict is NotRejected) *)
Expect(d, what) == IF ~HasEv THEN "trace ends although the link is not finished (" \o what \o ")"
                   ELSE IF Ev.ev = "fail" THEN "link failed (" \o Ev.exc \o " in " \o Ev.phase \o ") but the specification continues: " \o what
                   ELSE IF "state" \in DOMAIN Ev THEN what \o ": observed state differs in " \o Mismatch(d, Ev.state)
                   ELSE what \o ": unexpected event " \o Ev.ev
Diag ==
    IF ph = "start" THEN Expect(StartDst, "start")
    ELSE IF ph = "inject" /\ sub.st = "secs" THEN
        (IF HasEv /\ Ev.ev \in {"inject", "fail"}
         THEN "inject_object: illegal padding / alignment of a merged section, or wrong object"
         ELSE Expect(dst, "inject_object"))
    ELSE IF ph = "inject" /\ sub.k <= Len(inp[nxt].syms) THEN
        "multiply defined global symbol: the link must fail with an error"
    ELSE IF ph = "inject" THEN
        (IF inp[nxt].entry # -1 /\ dst.entry # -1 THEN "two entry points: the link must fail"
         ELSE Expect(InjectRelocsResult(nxt), "after inject_object"))
    ELSE IF ph = "layout" /\ LayStep THEN
        (IF In.k = "symbol" THEN "layout defines a symbol that is already defined: the link must fail"
         ELSE "layout step " \o In.k \o " not possible")
    ELSE IF ph = "layout" /\ cur.m <= Len(lay.mems) THEN
        (IF ImageSize(dst.secs, ThisImage) > Mem.size
         THEN "memory region overfull: the link must fail with an error"
         ELSE Expect([dst EXCEPT !.images = Append(@, ThisImage)], "after layout_sections"))
    ELSE IF ph = "layout" THEN Expect(dst, "after layout_sections")
    ELSE IF ph = "check" THEN
        (IF UndefinedGlobals(dst) # {} THEN "undefined global symbol: the link must fail with an error"
         ELSE Expect(dst, "check_undefined_symbols"))
    ELSE IF ph = "relax" THEN Expect(dst, "do_relaxations changed the object")
    ELSE IF ph = "relocate" THEN
        (IF ~IsEv("reloc") THEN Expect(dst, "relocation")
         ELSE IF Ev.r # nxt \/ Ev.sec # dst.rels[nxt].sec THEN "relocations applied in another order / section"
         ELSE IF Ev.before # ObsData(Ev.sec) THEN "section bytes changed between relocations"
         ELSE IF ~OnlySiteChanges(nxt, Ev.before, Ev.after) THEN "bytes outside the relocation site changed"
         ELSE IF CheckValues /\ ~Fits(nxt) THEN "value not representable in the field, but output was produced"
         ELSE IF ~ValueOK(nxt, Ev.before, Ev.after) THEN "patched field does not designate S + A"
         ELSE "relocation refused")
    ELSE IF ph = "done" THEN
        (IF IsEv("end") /\ Matches(dst, Ev.state) /\ ~ImagesAssemble
         THEN "Image.data does not hold the sections of the image at their addresses"
         ELSE Expect(dst, "returned object"))
    ELSE "no event expected after the failure"

-----------------------------------------------------------------------------
TInit == /\ chunk = 0 /\ l = 0 /\ bad = FALSE /\ why = "" /\ obs = <<>> /\ spur = FALSE
         /\ job = 0 /\ ph = "idle" /\ nxt = 0 /\ sub = NoSub /\ dst = EmptyDst /\ placed = <<>> /\ cur = NoCur
         /\ fail = ""
PickChunk == /\ chunk = 0 /\ chunk' \in 1..NChunks
             /\ UNCHANGED <<l, bad, why, obs, spur>> /\ UNCHANGED vars
PickTrace == /\ chunk > 0 /\ job = 0
             /\ job' \in {k \in 1..Len(Jobs) : k % NChunks = chunk - 1}
             /\ ph' = "start" /\ l' = 1
             /\ UNCHANGED <<chunk, bad, why, obs, spur, nxt, sub, dst, placed, cur, fail>>
Working == job > 0 /\ ~bad /\ ~(l = Len(Events) + 1 /\ Finished)
Step   == Working /\ EvStep
Reject == /\ Working /\ ~ENABLED EvStep
          /\ bad' = TRUE /\ why' = Diag
          /\ UNCHANGED <<chunk, l, obs, spur>> /\ UNCHANGED vars
TNext == PickChunk \/ PickTrace \/ Step \/ Reject

-----------------------------------------------------------------------------
NotRejected == ~bad
NoSpuriousFailure == ~spur
\* the harness handed over a job of the property's domain (a failure is a harness fault)
Domain == job > 0 /\ l = 1 /\ ph = "start" =>
    /\ \A o \in 1..Len(inp) :
        /\ \A k \in 1..Len(inp[o].rels) : inp[o].rels[k].size = RelSize(inp[o].rels[k].type)
        /\ \A k \in 1..Len(inp[o].secs) : inp[o].secs[k].size = Len(inp[o].secs[k].data)
    /\ ~(opt.partial /\ lay.on)
On(I) == job > 0 /\ ph # "idle" => I
I_Placement      == On(Placement)
I_InputAligned   == On(InputAligned)
I_Inside         == On(Inside)
I_NoOverlap      == On(NoOverlap)
I_Content        == On(Content)
I_AllPlaced      == On(AllPlaced)
I_SymbolAt       == On(SymbolAt)
I_LayoutSymbolAt == On(LayoutSymbolAt)
I_RelocsResolve  == On(RelocsResolve)
I_NoUndefinedOutput == On(NoUndefinedOutput)
I_DoneIsClean    == On(DoneIsClean)
I_FailIsJustified == On(FailIsJustified)
=============================================================================
