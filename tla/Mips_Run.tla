------------------------------ MODULE Mips_Run ------------------------------
(* Batch driver of MipsExec.tla for linked images (property C05, mips part):  *)
(* image loader + call wrapper + observation, the shape of RV32_Run.tla.      *)
(*                                                                            *)
(* TRACE_FILE = JSON array of cases                                           *)
(*   id                                                                       *)
(*   imgs   Seq([segs : Seq([addr, bytes]),  sections of the linked object at *)
(*                                           their addresses (code and data)  *)
(*               entry : address of the function to call,                     *)
(*               globals : Seq([name, addr, size])])                          *)
(*   calls  Seq([regs : Seq(<<register, word>>),   argument registers         *)
(*               stk  : Seq(<<offset from sp, word>>)])  memory arguments      *)
(*   sp, ra stack pointer (r29) at the call, return address (r31: a sentinel  *)
(*          outside every segment)                                            *)
(*   keep   registers the calling convention says the callee preserves        *)
(*   fuel   instruction budget                                                *)
(*   expect (optional) [a0, globals] for self-checks of this driver           *)
(* For every (case, call) the machine loads the image (every byte of every    *)
(* segment, all registers and HI / LO set to a fixed junk pattern, then sp,   *)
(* ra and the arguments), executes Decode / Exec from `entry` (pc = entry,    *)
(* npc = entry + 4) until pc = ra -- i.e. after the delay slot of the         *)
(* returning jr has been executed -- and observes                             *)
(*   status  "ok" | "fuel" | "fault" (pc outside the image, misaligned) |     *)
(*           "trap" (integer overflow, address error) |                       *)
(*           "outofmodel" (reserved / unmodelled instruction, division by 0,  *)
(*           branch in a delay slot)                                          *)
(*   a0 = the result register v0 (r2), final bytes of every global, whether   *)
(*   sp and the keep registers are restored                                   *)
(*   ConventionKept   a call that returns leaves sp and the keep registers    *)
(*   AsExpected       the case's expect record (driver self-check)            *)
(* NEXT NextEmit additionally prints <<"OBS", case, call, image, Obs, steps>> *)
(* in every final state; the engine hands it to IR.tla as the case's obs      *)
(* record (ObsMatchesImpl), so the IR semantics judges the machine code.      *)
EXTENDS MipsExec, TLC, Json, IOUtils

Cases == JsonDeserialize(IOEnv.TRACE_FILE)
CONSTANTS NChunks, Burst          \* fan-out width; instructions executed per TLC step

VARIABLES chunk, i, av, im,      \* fan-out helper, case, call, image
          m,                      \* machine [pc, npc, x, hi, lo, mem]
          status,                 \* "idle" | "run" | "ok" | "fuel" | "fault" | "outofmodel"
          steps,                  \* instructions executed on this image
          first                   \* observation of image 1
vars == <<chunk, i, av, im, m, status, steps, first>>

C == Cases[i]
Img == C.imgs[im]
Call == C.calls[av]

-----------------------------------------------------------------------------
(* loader *)
SegCells(seg) == Mk([k \in 1..Len(seg.bytes) |-> <<W4(seg.addr + k - 1), seg.bytes[k]>>])
RECURSIVE AllCells(_, _)
AllCells(segs, k) == IF k > Len(segs) THEN <<>> ELSE SegCells(segs[k]) \o AllCells(segs, k + 1)
\* the bytes at address a .. a+n-1 if they lie inside one segment, else << >>
FetchAt(img, a, n) ==
    LET S == {k \in 1..Len(img.segs) : img.segs[k].addr <= a /\ a + n <= img.segs[k].addr + Len(img.segs[k].bytes)} IN
    IF S = {} THEN <<>>
    ELSE LET seg == img.segs[CHOOSE k \in S : TRUE] IN Mk([j \in 1..n |-> seg.bytes[a - seg.addr + j]])
PcInt(w) == IF w[4] # 0 THEN -1 ELSE w[1] + 256 * w[2] + 65536 * w[3]

\* registers before the call: junk that differs per register, then sp, ra, arguments
Junk(r) == <<(r * 37 + 11) % 256, 165, (r * 5 + 3) % 256, 90>>
RECURSIVE SetRegs(_, _, _)
SetRegs(x, regs, k) == IF k > Len(regs) THEN x ELSE SetRegs(SetReg(x, regs[k][1], regs[k][2]), regs, k + 1)
RECURSIVE PutWords(_, _, _, _)
PutWords(mem, base, ws, k) ==
    IF k > Len(ws) THEN mem ELSE PutWords(StoreBytes(mem, W4(base + ws[k][1]), ws[k][2], 1), base, ws, k + 1)
X0(c, call) == SetRegs(Mk([k \in 1..32 |-> IF k = 1 THEN WZero(4) ELSE Junk(k - 1)]),
                       <<<<29, W4(c.sp)>>, <<31, W4(c.ra)>>>> \o call.regs, 1)
Load(c, call, img) ==
    [pc |-> W4(img.entry), npc |-> W4(img.entry + 4), x |-> X0(c, call), hi |-> Junk(33), lo |-> Junk(34),
     mem |-> PutWords([salt |-> 7, ov |-> AllCells(img.segs, 1)], c.sp, call.stk, 1)]

-----------------------------------------------------------------------------
(* execution: up to Burst instructions per step *)
Step1(img, s) ==
    LET a == PcInt(s.pc) IN
    IF a < 0 \/ a % 4 # 0 THEN [st |-> "fault", s |-> s]
    ELSE LET b == FetchAt(img, a, 4) IN
         IF b = <<>> THEN [st |-> "fault", s |-> s]
         ELSE CHOOSE r \in {IF t.st = "ok" THEN [st |-> "run", s |-> [pc |-> t.pc, npc |-> t.npc, x |-> t.x, hi |-> t.hi, lo |-> t.lo, mem |-> t.mem]]
                            ELSE [st |-> t.st, s |-> s] : t \in {Exec(s, M!Decode(b))}} : TRUE
RECURSIVE RunK(_, _, _, _, _)
\* -> [st, s, n]: n instructions executed; st = "run" (budget of this burst used up) or final
RunK(img, s, n, k, sentinel) ==
    IF PcInt(s.pc) = sentinel THEN [st |-> "ok", s |-> s, n |-> n]
    ELSE IF k = 0 THEN [st |-> "run", s |-> s, n |-> n]
    ELSE CHOOSE r \in {IF t.st = "run" THEN RunK(img, t.s, n + 1, k - 1, sentinel) ELSE [st |-> t.st, s |-> t.s, n |-> n]
                       : t \in {Step1(img, s)}} : TRUE

Running == i > 0 /\ status = "run"
Finished == i > 0 /\ status \notin {"run", "idle"}
Min(a, b) == IF a <= b THEN a ELSE b
Exec_ ==
    /\ Running /\ steps < C.fuel
    /\ \E r \in {RunK(Img, m, 0, Min(Burst, C.fuel - steps), C.ra)} :
          /\ m' = r.s /\ status' = r.st /\ steps' = steps + r.n
    /\ UNCHANGED <<chunk, i, av, im, first>>
Exhaust == /\ Running /\ steps >= C.fuel
           /\ status' = (IF PcInt(m.pc) = C.ra THEN "ok" ELSE "fuel")
           /\ UNCHANGED <<chunk, i, av, im, m, steps, first>>

-----------------------------------------------------------------------------
(* observation *)
GlobalBytes(g) == LoadBytes(m.mem, W4(g.addr), g.size)
Obs == [status |-> status,
        a0 |-> IF status = "ok" THEN m.x[3] ELSE <<>>,
        globals |-> IF status = "ok" THEN Mk([k \in 1..Len(Img.globals) |-> [name |-> Img.globals[k].name,
                                                                             bytes |-> GlobalBytes(Img.globals[k])]])
                    ELSE <<>>,
        links |-> {},
        kept |-> IF status = "ok"
                 THEN m.x[30] = W4(C.sp) /\ \A k \in 1..Len(C.keep) : m.x[C.keep[k] + 1] = X0(C, Call)[C.keep[k] + 1]
                 ELSE TRUE]

NextImage ==
    /\ Finished /\ im < Len(C.imgs)
    /\ first' = IF im = 1 THEN Obs ELSE first
    /\ im' = im + 1
    /\ m' = Load(C, Call, C.imgs[im + 1]) /\ status' = "run" /\ steps' = 0
    /\ UNCHANGED <<chunk, i, av>>

NoMachine == [pc |-> WZero(4), npc |-> WZero(4), x |-> <<>>, hi |-> WZero(4), lo |-> WZero(4), mem |-> [salt |-> 0, ov |-> <<>>]]
NoObs == [status |-> "idle", a0 |-> <<>>, globals |-> <<>>, links |-> {}, kept |-> TRUE]
Init == chunk = 0 /\ i = 0 /\ av = 0 /\ im = 0 /\ m = NoMachine /\ status = "idle" /\ steps = 0 /\ first = NoObs
PickChunk == /\ chunk = 0 /\ chunk' \in 1..NChunks
             /\ UNCHANGED <<i, av, im, m, status, steps, first>>
PickCase == /\ chunk > 0 /\ i = 0
            /\ i' \in {k \in 1..Len(Cases) : k % NChunks = chunk - 1}
            /\ av' \in 1..Len(Cases[i'].calls)
            /\ im' = 1
            /\ m' = Load(Cases[i'], Cases[i'].calls[av'], Cases[i'].imgs[1])
            /\ status' = "run" /\ steps' = 0
            /\ UNCHANGED <<chunk, first>>
Next == PickChunk \/ PickCase \/ Exec_ \/ Exhaust \/ NextImage
\* never enabled; evaluated once per final state, printing the observation on the way
EmitObs == Finished /\ PrintT(<<"OBS", i, av, im, Obs, steps>>) /\ FALSE /\ UNCHANGED vars
NextEmit == Next \/ EmitObs

\* what an error trace shows (cfg: ALIAS Shown): not the memory
Shown == [i |-> i, av |-> av, im |-> im, status |-> status, steps |-> steps, pc |-> m.pc,
          a0 |-> IF Len(m.x) = 32 THEN m.x[3] ELSE <<>>, first |-> first]
-----------------------------------------------------------------------------
SameGlobals(a, b) == Len(a) = Len(b) /\ \A k \in 1..Len(a) : a[k] = b[k]
ImagesAgree ==
    (Finished /\ im > 1 /\ first.status = "ok") =>
        /\ status = "ok"
        /\ Obs.a0 = first.a0
        /\ SameGlobals(Obs.globals, first.globals)
ConventionKept == Finished => Obs.kept
AsExpected ==
    (Finished /\ "expect" \in DOMAIN C) =>
        /\ status = C.expect.status
        /\ (status = "ok" => Obs.a0 = C.expect.a0[av] /\ SameGlobals(Obs.globals, C.expect.globals[av]))
TypeOK == status \in {"idle", "run", "ok", "fuel", "fault", "trap", "outofmodel"}
=============================================================================
