------------------------------ MODULE IRC_Trace ------------------------------
(* Idiom T: the work-list steps the real GraphColoringRegisterAllocator       *)
(* performed (harness/regalloc_trace.py, recording(steps=True)) are replayed   *)
(* into IRC.tla.  A case = one allocation round:                              *)
(*   [key, inst (the instance: the interference graph, moves and register      *)
(*    tables init_data worked on), init (projection of the work lists after    *)
(*    init_data), steps (one per call of simplify / coalesc / freeze /         *)
(*    select_spill / assign_colors: the element it took and the projection of  *)
(*    the work lists afterwards)]                                             *)
(* Nodes are numbered in the order of their smallest register, a merged node   *)
(* is named by its smallest member on both sides.                              *)
(* Checked for every step: the method called is the one alloc_frame's          *)
(* if/elif chain selects in the model state, the element taken is in the       *)
(* model's work list, and the model's state after the same operator equals     *)
(* the recorded projection (TraceConforms, InitConforms, StepConforms: the      *)
(* code IS the modelled algorithm on this run); all invariants of IRC.tla hold  *)
(* along the replay.                                                           *)
(* Only part of this is the property C06: a harmless change of a heuristic      *)
(* (coalescing test, spill choice, work-list order) makes the run leave the     *)
(* model without endangering any value.  `unsafe' marks the deviations that do: *)
(* a node given a register that overlaps a neighbour's or is outside its class, *)
(* and a move coalesced although its ends interfere.  The engine reports        *)
(* SafeSteps / TInvProperColouring / TInvEdgesPreserved as violations and the   *)
(* other clauses as model deviations (notes).                                   *)
EXTENDS IRC, Json, IOUtils

Cases == JsonDeserialize(IOEnv.TRACE_FILE)
NChunks == 16
VARIABLES chunk, f, l, s, why, unsafe, inst
vars == <<chunk, f, l, s, why, unsafe, inst>>
NoState == [err |-> ""]

SeqSet(q) == {q[k] : k \in 1..Len(q)}
\* the instance of IRC.tla from its JSON form (arrays -> sets)
Inst(c) == [N |-> c.N, cls |-> c.cls, pre |-> c.pre, E |-> {{e[1], e[2]} : e \in SeqSet(c.E)}, M |-> c.M,
            R |-> c.R, cregs |-> [k \in 1..Len(c.cregs) |-> SeqSet(c.cregs[k])],
            ali |-> [r \in 1..c.R |-> SeqSet(c.ali[r])], sub |-> c.sub]
I == inst
Label(n) == CHOOSE x \in NodesOf(I) : s.rep[x] = n /\ \A y \in NodesOf(I) : s.rep[y] = n => x <= y
Labels(S) == {Label(n) : n \in S}
\* does the model state agree with a recorded projection?
Agrees(p, withStack) ==
    /\ Labels(s.simplifyWL) = SeqSet(p.simplify) /\ Labels(s.freezeWL) = SeqSet(p.freeze)
    /\ Labels(s.spillWL) = SeqSet(p.spill)
    /\ withStack => [k \in 1..Len(s.stack) |-> Label(s.stack[k])] = p.stack
    /\ s.wlMoves = SeqSet(p.wl) /\ s.active = SeqSet(p.active) /\ s.coalesced = SeqSet(p.coalesced)
    /\ s.constrained = SeqSet(p.constrained) /\ s.frozen = SeqSet(p.frozen)

Init == chunk = 0 /\ f = 0 /\ l = 0 /\ s = NoState /\ why = "" /\ unsafe = FALSE /\ inst = [N |-> 0]
PickChunk == chunk = 0 /\ chunk' \in 1..NChunks /\ UNCHANGED <<f, l, s, why, unsafe, inst>>
PickCase  == /\ chunk > 0 /\ f = 0 /\ f' \in {k \in 1..Len(Cases) : k % NChunks = chunk - 1}
             /\ \E i0 \in {Inst(Cases[f'].inst)} : inst' = i0 /\ s' = InitState(i0)
             /\ UNCHANGED <<chunk, l, why, unsafe>>

\* what alloc_frame's loop does next in the model state
Chosen == IF s.simplifyWL # {} THEN "simplify" ELSE IF s.wlMoves # {} THEN "coalesc"
          ELSE IF s.freezeWL # {} THEN "freeze" ELSE IF s.spillWL # {} THEN "select_spill" ELSE "assign_colors"

RECURSIVE AssignAll(_, _, _)
AssignAll(st, as, k) ==          \* replay assign_colors over the recorded (node, register) list
    IF k > Len(as) THEN [s |-> st, bad |-> FALSE,
                         why |-> IF Len(st.stack) = 0 THEN "" ELSE "assign_colors left nodes on the stack"]
    ELSE IF Len(st.stack) = 0 THEN [s |-> st, bad |-> FALSE, why |-> "assign_colors coloured more nodes than the stack holds"]
    ELSE LET n == st.stack[Len(st.stack)]
             lab == CHOOSE x \in NodesOf(I) : st.rep[x] = n /\ \A y \in NodesOf(I) : st.rep[y] = n => x <= y
             ok == OkRegs(I, st)
             r == as[k][2]
         IN IF lab # as[k][1] THEN [s |-> st, bad |-> FALSE, why |-> "assign_colors visits another node than the stack top"]
            ELSE IF r = 0 /\ ok # {} THEN [s |-> st, bad |-> FALSE, why |-> "node spilled although a register was free"]
            ELSE IF r # 0 /\ r \notin ok
                 THEN [s |-> st, bad |-> TRUE,
                       why |-> "node got a register that overlaps a neighbour's register or is not of its class"]
            ELSE AssignAll(AssignOne(I, st, r), as, k + 1)

Ev == Cases[f].steps[l + 1]
InNodes(x) == x >= 1 /\ x <= I.N
Step ==
    /\ f > 0 /\ why = "" /\ s.err = "" /\ l < Len(Cases[f].steps)
    /\ l' = l + 1 /\ UNCHANGED <<chunk, f, inst>>
    /\ unsafe' = (\/ (Ev.ev = "assign_colors" /\ AssignAll(s, Ev.assign, 1).bad)
                  \/ (/\ Ev.ev = "coalesc" /\ Ev.x \in s.wlMoves /\ Ev.x \in SeqSet(Ev.post.coalesced)
                      /\ CoalesceOutcome(I, s, Ev.x) = "constrained"))
    /\ IF Ev.ev # Chosen THEN why' = "the code called " \o Ev.ev \o " where its loop selects " \o Chosen /\ s' = s
       ELSE IF Ev.ev = "simplify" THEN
               IF InNodes(Ev.x) /\ s.rep[Ev.x] \in s.simplifyWL
               THEN s' = Simplify(I, s, s.rep[Ev.x]) /\ why' = ""
               ELSE s' = s /\ why' = "simplify took a node that is not on the simplify work list"
       ELSE IF Ev.ev = "coalesc" THEN
               IF Ev.x \in s.wlMoves THEN s' = Coalesce(I, s, Ev.x) /\ why' = ""
               ELSE s' = s /\ why' = "coalesc took a move that is not on the move work list"
       ELSE IF Ev.ev = "freeze" THEN
               IF InNodes(Ev.x) /\ s.rep[Ev.x] \in s.freezeWL
               THEN s' = Freeze(I, s, s.rep[Ev.x]) /\ why' = ""
               ELSE s' = s /\ why' = "freeze took a node that is not on the freeze work list"
       ELSE IF Ev.ev = "select_spill" THEN
               IF InNodes(Ev.x) /\ s.rep[Ev.x] \in s.spillWL
               THEN s' = SelectSpill(I, s, s.rep[Ev.x]) /\ why' = ""
               ELSE s' = s /\ why' = "select_spill took a node that is not on the spill work list"
       ELSE \E res \in {AssignAll(s, Ev.assign, 1)} : s' = res.s /\ why' = res.why
Next == PickChunk \/ PickCase \/ Step

\* ---- the part that is the property ----
SafeSteps == ~unsafe
\* ---- conformance to the modelled algorithm ----
TraceConforms == why = ""
InitConforms  == (f > 0 /\ l = 0) => Agrees(Cases[f].init, TRUE)
StepConforms  == (f > 0 /\ l > 0 /\ why = "" /\ s.err = "") =>
                    LET ev == Cases[f].steps[l] IN
                    IF ev.ev = "assign_colors"
                    THEN Labels(s.spilled) = SeqSet(ev.spilled)
                    ELSE Agrees(ev.post, TRUE)
NoCodeException == f > 0 => s.err = ""
\* ---- the invariants of the algorithm along the real run ----
Running == f > 0 /\ why = "" /\ s.err = ""
Work == Running /\ (l = 0 \/ Cases[f].steps[l].ev # "assign_colors")
TInvWorklists      == Work => WorklistInvariants(I, s)
TInvMovesPartition == Running => MovesPartition(I, s)
TInvNodesPartition == Work => NodesPartition(I, s)
TInvCacheCoherent  == Work => CacheCoherent(I, s)
TInvEdgesPreserved == Running => EdgesPreserved(I, s)
TInvProperColouring == Running => ProperColouring(I, s)
=============================================================================
