------------------------------ MODULE PasSrc_Diag ------------------------------
(* Idiom E for the last sentence of extension property X01: "Invalid programs are    *)
(* rejected with a CompilerError diagnostic, never an internal error."               *)
(* A record is [id, rule, outcome]: `rule` names the rule of ISO 7185 that the       *)
(* program breaks (the table below gives the clause), `outcome` is what the real     *)
(* front-end did: "diag" (CompilerError), "accepted", or "error:<exception class>".  *)
EXTENDS Naturals, Sequences, TLC, Json, IOUtils
Recs == JsonDeserialize(IOEnv.TRACE_FILE)
VARIABLES chunk, i
\* rule -> clause of ISO 7185 that makes the program not a Pascal program
Rules == [r \in {"undeclared-variable", "undeclared-in-expression", "undeclared-procedure", "unknown-type", "call-of-variable"} |-> "6.2.2.1 / 6.2.2.9 identifiers have a defining point"]
      @@ [r \in {"condition-not-boolean", "while-not-boolean", "until-not-boolean"} |-> "6.8.3.4 / 6.8.3.8 / 6.8.3.7 Boolean-expression"]
      @@ [r \in {"and-on-integers"} |-> "6.7.2.3 Boolean operators"]
      @@ [r \in {"duplicate-variable"} |-> "6.2.2.7 one defining point per region"]
      @@ [r \in {"missing-end", "missing-then", "missing-do", "bad-token", "unbalanced-parenthesis", "assignment-without-expression",
                 "missing-program-heading", "for-without-to", "unterminated-string", "text-after-end"} |-> "6.1 / 6.8 / 6.10 syntax"]
      @@ [r \in {"index-of-scalar", "field-of-scalar"} |-> "6.5.3 component-variable"]
      @@ [r \in {"wrong-argument-count"} |-> "6.8.2.3 actual-parameter-list"]
      @@ [r \in {"case-on-boolean-constant-type"} |-> "6.8.3.5 case constants have the type of the case index"]
Allowed(r) == r.rule \in DOMAIN Rules => r.outcome = "diag"
Init == chunk = 0 /\ i = 0
Next == \/ chunk = 0 /\ chunk' \in 1..4 /\ UNCHANGED i
        \/ chunk > 0 /\ i = 0 /\ i' \in {k \in 1..Len(Recs) : k % 4 = chunk - 1} /\ UNCHANGED chunk
Conforms == i > 0 => Allowed(Recs[i])
=============================================================================
