----------------------------- MODULE Relax_MC -----------------------------
(* Idiom M of property C13: the link jobs of Relax_MCJobs are linked by the   *)
(* phases of Linker.tla; the relaxation phase is Relax.tla's action with      *)
(*   Design = "ppci"   the parameters ppci chooses (faithful transcription of *)
(*                     do_relaxations / _apply_relaxation_holes)              *)
(*   Design = "fixed"  the repaired choice (FixedK / FixedAddrs)              *)
(*   Design = "legal"  every choice the property allows: any set of `jal`     *)
(*                     sites with the right link register whose short form    *)
(*                     reaches its target afterwards, sections moved down by  *)
(*                     multiples of their alignment or not at all, rewritten  *)
(*                     entries appended or kept in place                      *)
(* All clauses of the property are invariants.  For "fixed" and "legal" they  *)
(* must hold (a failure is a fault of the specification); for "ppci" no       *)
(* invariant is listed: the clauses the transcription violates are announced  *)
(* per job - the design-level findings, each of which the engine confirms on  *)
(* the real linker (idiom T).                                                 *)
(* (The engine supplies module LinkerJobs:  EXTENDS Relax_MCJobs              *)
(*  Jobs == MCJobs.)                                                          *)
EXTENDS Relax, TLC

CONSTANTS Design, Announce,
          Orders      \* orders of the relocation list explored by "legal": subset of {"append", "inplace"}

MCInit == /\ job \in 1..Len(Jobs)
          /\ ph = "start" /\ nxt = 0 /\ sub = NoSub /\ dst = StartDst /\ placed = <<>> /\ cur = NoCur /\ fail = ""
          /\ pre = NoPre

\* the short forms chosen reach their targets in the relaxed object
ShortFormsReach(d, K, addrs, ord) ==
    LET after == RelaxResult(d, K, addrs, ord)
        m == RelOrder(d, K, ord) IN
    \A k \in 1..Len(m) : InReach(d, m[k]) => InReach(after, k)
LegalChoices(d) ==
    {c \in {<<K, a, od>> : K \in SUBSET {r \in Candidates(d) : RdOK(d, r)},
                           a \in {1, 2}, od \in Orders} :
        ShortFormsReach(d, c[1], IF c[2] = 1 THEN FixedAddrs(d, c[1]) ELSE KeepAddrs(d), c[3])}

\* situations of the property's text, announced so that the engine can show they are all explored
Flag(b, n) == IF b THEN {n} ELSE {}
Situations(d, K) ==
    LET holes(n) == HoleOffs(d, K, n)
        symAt(y, c(_, _)) == y.def /\ y.sec # "" /\ \E h \in holes(y.sec) : c(y.value, h) IN
    Flag(K = {}, "nothing-shrinks")
    \cup Flag(Cardinality(K) = 1, "one-shrinks") \cup Flag(Cardinality(K) >= 2, "several-shrink")
    \cup Flag(K # Candidates(d), "candidate-kept-long")
    \cup Flag(\E n \in {d.secs[i].name : i \in 1..Len(d.secs)} : Cardinality(holes(n)) >= 2, "two-holes-in-a-section")
    \cup Flag(\E j \in 1..Len(d.syms) : symAt(d.syms[j], LAMBDA v, h : v = h - ShortSize), "symbol-on-shrunk-insn")
    \cup Flag(\E j \in 1..Len(d.syms) : symAt(d.syms[j], LAMBDA v, h : v = h), "symbol-at-hole-start")
    \cup Flag(\E j \in 1..Len(d.syms) : symAt(d.syms[j], LAMBDA v, h : v = h + 1), "symbol-inside-hole")
    \cup Flag(\E j \in 1..Len(d.syms) : symAt(d.syms[j], LAMBDA v, h : v = h + HoleSize), "symbol-right-after-hole")
    \cup Flag(\E j \in 1..Len(d.syms) : LET y == d.syms[j] IN
                  y.def /\ y.sec # "" /\ holes(y.sec) # {} /\ y.value = Len(SecOf(d.secs, y.sec).data), "symbol-at-section-end")
    \cup Flag(\E r \in 1..Len(d.rels) : r \notin K /\ \E h \in holes(d.rels[r].sec) : h < d.rels[r].off, "relocation-after-hole")
    \cup Flag(\E r \in 1..Len(d.rels) : r \notin K /\ d.rels[r].sec = "data" /\ K # {}, "reference-from-other-section")
    \cup Flag(\E p \in 1..Len(placed) : placed[p].o = 2 /\ holes(placed[p].sec) # {}, "merged-input-after-hole")
    \cup Flag(Len(d.images) = 0 /\ K # {}, "no-layout")
    \cup Flag(Len(d.images) >= 2 /\ K # {}, "two-images")
    \cup Flag(\E g \in 1..Len(d.images) : \E k \in 2..Len(d.images[g].secs) :
                  \E k0 \in 1..(k - 1) : holes(d.images[g].secs[k0]) # {}, "section-behind-shrunk-section")
    \cup Flag(\E r \in K : ~SameSection(d, r), "target-in-other-section")
    \cup Flag(\E r \in Candidates(d) : ~RdOK(d, r), "jal-with-other-link-register")
Say(ss) == ~Announce \/ PrintT(<<"sit", Design, ss>>)

\* ppci's choice: no invariant is put on it; the clauses it violates are announced per job
\* (<<"cex", job, clauses>>) and the engine confirms each on the real linker
Cex(d, K, addrs) == PrintT(<<"cex", job, Violated(d, RelaxResult(d, K, addrs, "append"), K, RelOrder(d, K, "append"))>>)
DoRelax ==
    /\ ph = "relax"
    /\ CASE Design = "ppci"  -> /\ RelaxDesign /\ Say(Situations(dst, DesignK(dst)))
                                /\ Cex(dst, DesignK(dst), DesignAddrs(dst, DesignK(dst)))
         [] Design = "fixed" -> RelaxFixed /\ Say(Situations(dst, FixedK(dst)))
         [] OTHER -> \E c \in LegalChoices(dst) :
                        /\ RelaxWith(c[1], IF c[2] = 1 THEN FixedAddrs(dst, c[1]) ELSE KeepAddrs(dst), c[3])
                        /\ Say(Situations(dst, c[1]))
\* the repaired choice is one of the legal ones (so the "legal" run covers it)
FixedIsLegal == ph = "relax" => <<FixedK(dst), 1, "append">> \in LegalChoices(dst)
MCWork == OtherPhases \/ DoRelax
MCNext == MCWork

\* every job ends (OtherPhases contains Linker.tla's final stuttering step)
NoStuck == Finished \/ ENABLED MCWork
\* the universes stay inside the domain of the specification
InDomain == ph = "relax" => RelaxDomain(dst)
=============================================================================
