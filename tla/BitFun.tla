------------------------------ MODULE BitFun ------------------------------
(* Mathematical definitions of the helpers in ppci/utils/bitfun.py and the  *)
(* bit-level wrappers of ppci/wasm/execution/runtime.py (property C39).     *)
(* A call record r carries the function name r.f, its arguments and the     *)
(* observed result r.out; Allowed(r) is the property.                       *)
(*   integers        : ZInt records [neg, mag] (BitSeq)                     *)
(*   results         : [ok |-> TRUE, z |-> ZInt]            (an integer)    *)
(*                     [ok |-> TRUE, n |-> small Nat]       (a count)       *)
(*                     [ok |-> TRUE, bits |-> Seq(Bit)]     (bit list)      *)
(*                     [ok |-> TRUE, bytes |-> Seq(0..255)]                 *)
(*                     [ok |-> TRUE, t |-> BOOLEAN]                         *)
(*                     [ok |-> FALSE, exc |-> class name]                   *)
EXTENDS BitSeq

ResZ(z)  == [ok |-> TRUE, z |-> z]
ResN(n)  == [ok |-> TRUE, n |-> n]
ResT(t)  == [ok |-> TRUE, t |-> t]
Raises(c) == [ok |-> FALSE, exc |-> c]

U(r)  == ZToUnsigned(r.v, r.w)            \* the operand as a w-bit pattern
UZ(b) == ResZ(BVToUnsignedZ(b))
SZ(b) == ResZ(BVToSignedZ(b))

\* byte i (1-based, little endian) of a bit string whose length is a multiple of 8
ByteOf(b, i) == Val(SubSeq(b, 8 * (i - 1) + 1, 8 * i))
BytesLE(b) == [i \in 1..(Len(b) \div 8) |-> ByteOf(b, i)]
BytesBE(b) == LET n == Len(b) \div 8 IN [i \in 1..n |-> ByteOf(b, n + 1 - i)]
PadTo8(b) == ZExt(b, ((Len(b) + 7) \div 8) * 8)

\* ARM "modified immediate": 8-bit value rotated right by 2*rot
ArmImmDecode(rot, val8) == RotR(ZExt(val8, 32), 2 * rot)
ArmImmRepresentable(b32) == \E rot \in 0..15 : \A i \in 9..32 : RotL(b32, 2 * rot)[i] = 0

\* x = (rot << 8) | val, as a ZInt, decodes to b32
ArmImmOk(z, b32) ==
    /\ ZFitsUnsigned(z, 12)
    /\ LET x == ZExt(z.mag, 12) IN
       ArmImmDecode(Val(SubSeq(x, 9, 12)), SubSeq(x, 1, 8)) = b32

\* smallest multiple of m that is >= v (small naturals)
AlignUp(v, m) == CHOOSE x \in v..(v + m) : x % m = 0 /\ \A y \in v..(v + m) : y % m = 0 => x <= y

\* BitView: data is a byte sequence, window starts at byte `begin`; bits
\* [start, stop) of the window (little-endian bit numbering) are set to value
DataBits(data) == [k \in 1..(8 * Len(data)) |-> (data[((k - 1) \div 8) + 1] \div Pow2((k - 1) % 8)) % 2]
BitViewSet(data, begin, start, stop, valbits) ==
    LET old == DataBits(data)
        new == [k \in 1..Len(old) |->
                  LET p == k - 1 - 8 * begin IN
                  IF p >= start /\ p < stop THEN valbits[p - start + 1] ELSE old[k]]
    IN BytesLE(new)

Expected(r) ==
    CASE r.f = "rotl"  -> UZ(RotL(U(r), r.n))
      [] r.f = "rotr"  -> UZ(RotR(U(r), r.n))
      [] r.f = "rotate_left"  -> UZ(RotL(U(r), r.n))        \* w = 32
      [] r.f = "rotate_right" -> UZ(RotR(U(r), r.n))
      [] r.f = "reverse_bits" -> UZ(Rev(U(r)))
      [] r.f = "to_unsigned"  -> UZ(U(r))
      [] r.f = "to_signed"    -> SZ(U(r))
      [] r.f = "correct"      -> IF r.signed THEN SZ(U(r)) ELSE UZ(U(r))
      [] r.f = "sign_extend"  -> SZ(U(r))
      [] r.f = "clz"    -> ResN(Clz(U(r)))
      [] r.f = "ctz"    -> ResN(Ctz(U(r)))
      [] r.f = "popcnt" -> ResN(Pop(U(r)))
      [] r.f = "inrange" -> ResT(ZFitsSigned(r.v, r.w))
      [] r.f = "wrap_negative" ->
            IF ZFitsSigned(r.v, r.w) \/ ZFitsUnsigned(r.v, r.w) THEN UZ(U(r)) ELSE Raises("ValueError")
      [] r.f = "align" -> ResN(AlignUp(r.a, r.m))
      [] r.f = "value_to_bits" -> [ok |-> TRUE, bits |-> U(r)]
      [] r.f = "bits_to_bytes" -> [ok |-> TRUE, bytes |-> BytesLE(PadTo8(r.bits))]
      [] r.f = "value_to_bytes_big_endian" -> [ok |-> TRUE, bytes |-> BytesBE(U(r))]
      [] r.f = "bitview" -> [ok |-> TRUE, bytes |-> BitViewSet(r.data, r.begin, r.start, r.stop, r.val)]
      \* wasm runtime wrappers: signed in, signed out
      [] r.f = "wasm_rotl"   -> SZ(RotL(U(r), Val(ZExt(ZToUnsigned(r.c, r.w), 6)) % r.w))
      [] r.f = "wasm_rotr"   -> SZ(RotR(U(r), Val(ZExt(ZToUnsigned(r.c, r.w), 6)) % r.w))
      [] r.f = "wasm_clz"    -> ResN(Clz(U(r)))
      [] r.f = "wasm_ctz"    -> ResN(Ctz(U(r)))
      [] r.f = "wasm_popcnt" -> ResN(Pop(U(r)))
      [] r.f = "wasm_extend" -> SZ(SExt(ZExt(U(r), r.from), r.w))

Allowed(r) ==
    IF r.f = "encode_imm32"
    THEN IF ArmImmRepresentable(U(r))
         THEN r.out.ok /\ ArmImmOk(r.out.z, U(r))
         ELSE r.out = Raises("ValueError")
    ELSE r.out = Expected(r)
=============================================================================
