----------------------------- MODULE MicroBlaze -----------------------------
(* The MicroBlaze instruction set (Xilinx UG984 "MicroBlaze Processor        *)
(* Reference Guide", chapter 5 "MicroBlaze Instruction Set Architecture":    *)
(* formats type A and type B, the per-instruction layouts, table 5-1 and the *)
(* "imm" prefix), transcribed from the manual independently of ppci.         *)
(* The manual numbers bits 0 (most significant) .. 31; below bit numbers are *)
(* the usual 31 (most significant) .. 0.  Big-endian instruction words.      *)
(*                                                                           *)
(*   type A   opcode(6) rD(5) rA(5) rB(5) function(11)                       *)
(*   type B   opcode(6) rD(5) rA(5) imm(16)                                  *)
(*   imm      101100 00000 00000 imm16: supplies the upper 16 bits of the    *)
(*            immediate of the type B instruction that follows; without it   *)
(*            the 16-bit immediate is sign-extended                          *)
(*                                                                           *)
(*   Matches(w)  classes of the opcode space       DecodeW(w) one word       *)
(*   Decode(b)   4 bytes, or 8 bytes = imm prefix + type B instruction       *)
(*   EncodeW / Encode   reference encoder           Asm   printed line       *)
(*   WF, Reads, Writes                                                       *)
(* Stream (get / put), special-purpose register (mts / mfs / msrset /        *)
(* msrclr), mbar and the newer bit-field instructions are "unsupported".     *)
EXTENDS RiscCommon

NoReg == 32
(*  imm   type B immediate as the instruction uses it: sign-extended 16 bits, *)
(*        or the full 32 bits <prefix : imm16> when pre (len = 8); for "imm"  *)
(*        itself the 16-bit pattern                                          *)
I0 == [mn |-> "", rd |-> NoReg, ra |-> NoReg, rb |-> NoReg, imm |-> 0, pre |-> FALSE, fmt |-> "", len |-> 4]
NotInsn == {"reserved", "unsupported", "none"}
Bad(k) == [I0 EXCEPT !.mn = k]
Valid(i) == i.mn \notin NotInsn
Core(i) == [i EXCEPT !.fmt = ""]
NoAsm == [I0 EXCEPT !.mn = "none", !.len = 0]
Ins(mn, f) == [I0 EXCEPT !.mn = mn, !.fmt = f]

-----------------------------------------------------------------------------
(* type A: <<opcode, function bits 10:0, mnemonic, operand shape>>            *)
(*  shapes: dab rD,rA,rB   da rD,rA (rB = 0)   ab rA,rB (rD = 0)              *)
ATab == {
    <<0, 0, "add", "dab">>, <<1, 0, "rsub", "dab">>, <<2, 0, "addc", "dab">>, <<3, 0, "rsubc", "dab">>,
    <<4, 0, "addk", "dab">>, <<5, 0, "rsubk", "dab">>, <<5, 1, "cmp", "dab">>, <<5, 3, "cmpu", "dab">>,
    <<6, 0, "addkc", "dab">>, <<7, 0, "rsubkc", "dab">>,
    <<16, 0, "mul", "dab">>, <<16, 1, "mulh", "dab">>, <<16, 2, "mulhsu", "dab">>, <<16, 3, "mulhu", "dab">>,
    <<17, 0, "bsrl", "dab">>, <<17, 512, "bsra", "dab">>, <<17, 1024, "bsll", "dab">>,
    <<18, 0, "idiv", "dab">>, <<18, 2, "idivu", "dab">>,
    <<22, 0, "fadd", "dab">>, <<22, 128, "frsub", "dab">>, <<22, 256, "fmul", "dab">>, <<22, 384, "fdiv", "dab">>,
    <<22, 512, "fcmp.un", "dab">>, <<22, 528, "fcmp.lt", "dab">>, <<22, 544, "fcmp.eq", "dab">>, <<22, 560, "fcmp.le", "dab">>,
    <<22, 576, "fcmp.gt", "dab">>, <<22, 592, "fcmp.ne", "dab">>, <<22, 608, "fcmp.ge", "dab">>,
    <<22, 640, "flt", "da">>, <<22, 768, "fint", "da">>, <<22, 896, "fsqrt", "da">>,
    <<32, 0, "or", "dab">>, <<32, 1024, "pcmpbf", "dab">>, <<33, 0, "and", "dab">>, <<34, 0, "xor", "dab">>,
    <<34, 1024, "pcmpeq", "dab">>, <<35, 0, "andn", "dab">>, <<35, 1024, "pcmpne", "dab">>,
    <<36, 1, "sra", "da">>, <<36, 33, "src", "da">>, <<36, 65, "srl", "da">>, <<36, 96, "sext8", "da">>, <<36, 97, "sext16", "da">>,
    <<36, 224, "clz", "da">>, <<36, 480, "swapb", "da">>, <<36, 482, "swaph", "da">>,
    <<36, 104, "wic", "ab">>, <<36, 100, "wdc", "ab">>, <<36, 116, "wdc.flush", "ab">>, <<36, 102, "wdc.clear", "ab">>,
    <<48, 0, "lbu", "dab">>, <<48, 512, "lbur", "dab">>, <<49, 0, "lhu", "dab">>, <<49, 512, "lhur", "dab">>,
    <<50, 0, "lw", "dab">>, <<50, 512, "lwr", "dab">>, <<50, 1024, "lwx", "dab">>,
    <<52, 0, "sb", "dab">>, <<52, 512, "sbr", "dab">>, <<53, 0, "sh", "dab">>, <<53, 512, "shr", "dab">>,
    <<54, 0, "sw", "dab">>, <<54, 512, "swr", "dab">>, <<54, 1024, "swx", "dab">> }
(* type B: <<opcode, mnemonic>>, all rD, rA, IMM                              *)
BTab == {<<8, "addi">>, <<9, "rsubi">>, <<10, "addic">>, <<11, "rsubic">>, <<12, "addik">>, <<13, "rsubik">>,
         <<14, "addikc">>, <<15, "rsubikc">>, <<24, "muli">>, <<40, "ori">>, <<41, "andi">>, <<42, "xori">>, <<43, "andni">>,
         <<56, "lbui">>, <<57, "lhui">>, <<58, "lwi">>, <<60, "sbi">>, <<61, "shi">>, <<62, "swi">>}
(* barrel shift immediate, opcode 0x19: bits 10:9 select, 4:0 amount          *)
BsTab == {<<0, "bsrli">>, <<512, "bsrai">>, <<1024, "bslli">>}
(* unconditional branches, opcodes 0x26 (rB) / 0x2E (IMM): the rA field holds *)
(* the flags D (delay slot, 16), A (absolute, 8), L (link, 4)                 *)
BrTab == {<<0, "br", FALSE>>, <<8, "bra", FALSE>>, <<16, "brd", FALSE>>, <<24, "brad", FALSE>>,
          <<20, "brld", TRUE>>, <<28, "brald", TRUE>>, <<12, "brk", TRUE>>}          \* TRUE: has rD
(* conditional branches, opcodes 0x27 / 0x2F: rD field = D flag (16) + condition *)
CondTab == <<"eq", "ne", "lt", "le", "gt", "ge">>
(* returns, opcode 0x2D: rD field selects                                    *)
RtTab == {<<16, "rtsd">>, <<17, "rtid">>, <<18, "rtbd">>, <<20, "rted">>}

Names2(S) == {p[2] : p \in S}
AMn == {t[3] : t \in ATab}
BMn == Names2(BTab)
BsMn == Names2(BsTab)
BrMn == Names2(BrTab)
BrIMn == {"bri", "brai", "brid", "braid", "brlid", "bralid", "brki"}
BccMn == {"b" \o CondTab[k] \o d : k \in 1..6, d \in {"", "d"}}
BcciMn == {"b" \o CondTab[k] \o "i" \o d : k \in 1..6, d \in {"", "d"}}
RtMn == Names2(RtTab)
BrIName(fl) == CASE fl = 0 -> "bri" [] fl = 8 -> "brai" [] fl = 16 -> "brid" [] fl = 24 -> "braid"
                 [] fl = 20 -> "brlid" [] fl = 28 -> "bralid" [] fl = 12 -> "brki" [] OTHER -> ""
BrIFlags(m) == CHOOSE fl \in {0, 8, 16, 24, 20, 28, 12} : BrIName(fl) = m
BrIHasRd(m) == m \in {"brlid", "bralid", "brki"}

AOps == {t[1] : t \in ATab} \cup {38, 39}
BOps == {p[1] : p \in BTab} \cup {25, 45, 46, 47}
Fmt == {"A", "B", "IMM", "SYS", "RSV"}
Match(f, w) ==
    LET op == Op6(w) IN
    CASE f = "A" -> op \in AOps
      [] f = "B" -> op \in BOps
      [] f = "IMM" -> op = 44
      [] f = "SYS" -> op \in {19, 27, 37}                                  \* getd / putd, get / put, mts / mfs / msrset / msrclr
      [] f = "RSV" -> op \in {20, 21, 23, 26, 28, 29, 30, 31, 51, 55, 59, 63}
Matches(w) == {f \in Fmt : Match(f, w)}

DecA(w) ==
    LET op == Op6(w)  fn == Lo11(w)  d == F25(w)  a == F20(w)  b == F15(w) IN
    IF op = 38 THEN                                                          \* br family: 100110 rD DAL00 rB 00000000000
        (IF fn # 0 \/ \A t \in BrTab : t[1] # a THEN Bad("reserved")
         ELSE LET t == CHOOSE x \in BrTab : x[1] = a IN
              IF t[3] THEN [Ins(t[2], "A") EXCEPT !.rd = d, !.rb = b]
              ELSE IF d # 0 THEN Bad("reserved") ELSE [Ins(t[2], "A") EXCEPT !.rb = b])
    ELSE IF op = 39 THEN                                                     \* bcc: 100111 D0ccc rA rB 00000000000
        (IF fn # 0 \/ Bit(d, 3) = 1 \/ Bits(d, 0, 3) > 5 THEN Bad("reserved")
         ELSE [Ins("b" \o CondTab[Bits(d, 0, 3) + 1] \o (IF Bit(d, 4) = 1 THEN "d" ELSE ""), "A") EXCEPT !.ra = a, !.rb = b])
    ELSE IF \A t \in ATab : ~(t[1] = op /\ t[2] = fn) THEN Bad("reserved")
    ELSE LET t == CHOOSE x \in ATab : x[1] = op /\ x[2] = fn IN
         CASE t[4] = "dab" -> [Ins(t[3], "A") EXCEPT !.rd = d, !.ra = a, !.rb = b]
           [] t[4] = "da" -> IF b # 0 THEN Bad("reserved") ELSE [Ins(t[3], "A") EXCEPT !.rd = d, !.ra = a]
           [] t[4] = "ab" -> IF d # 0 THEN Bad("reserved") ELSE [Ins(t[3], "A") EXCEPT !.ra = a, !.rb = b]
DecB(w) ==
    LET op == Op6(w)  d == F25(w)  a == F20(w)  v == SignExt(Lo16(w), 16) IN
    CASE op = 25 -> IF Bits(w[2], 5, 4) # 0 \/ Bits(w[2], 11, 5) # 0 \/ \A p \in BsTab : p[1] # Bits(w[2], 9, 2) * 512 THEN Bad("reserved")
                    ELSE [Ins((CHOOSE p \in BsTab : p[1] = Bits(w[2], 9, 2) * 512)[2], "B") EXCEPT !.rd = d, !.ra = a, !.imm = Bits(w[2], 0, 5)]
      [] op = 45 -> IF \A p \in RtTab : p[1] # d THEN Bad("reserved")
                    ELSE [Ins((CHOOSE p \in RtTab : p[1] = d)[2], "B") EXCEPT !.ra = a, !.imm = v]
      [] op = 46 -> IF BrIName(a) = "" THEN Bad(IF a = 2 THEN "unsupported" ELSE "reserved")   \* rA = 00010: mbar
                    ELSE IF BrIHasRd(BrIName(a)) THEN [Ins(BrIName(a), "B") EXCEPT !.rd = d, !.imm = v]
                    ELSE IF d # 0 THEN Bad("reserved") ELSE [Ins(BrIName(a), "B") EXCEPT !.imm = v]
      [] op = 47 -> IF Bit(d, 3) = 1 \/ Bits(d, 0, 3) > 5 THEN Bad("reserved")
                    ELSE [Ins("b" \o CondTab[Bits(d, 0, 3) + 1] \o "i" \o (IF Bit(d, 4) = 1 THEN "d" ELSE ""), "B") EXCEPT !.ra = a, !.imm = v]
      [] OTHER -> [Ins((CHOOSE p \in BTab : p[1] = op)[2], "B") EXCEPT !.rd = d, !.ra = a, !.imm = v]
Dec(f, w) ==
    CASE f = "A" -> DecA(w)
      [] f = "B" -> DecB(w)
      [] f = "IMM" -> IF F25(w) # 0 \/ F20(w) # 0 THEN Bad("reserved") ELSE [Ins("imm", "IMM") EXCEPT !.imm = Lo16(w)]
      [] f = "SYS" -> Bad("unsupported")
      [] f = "RSV" -> Bad("reserved")
DecodeW(w) == LET m == Matches(w) IN IF m = {} THEN Bad("reserved") ELSE Dec(CHOOSE f \in m : TRUE, w)
(* imm prefix + type B instruction: the 32-bit immediate is <prefix : imm16>   *)
(* (barrel shifts by immediate take no prefix)                                *)
Decode(b) ==
    IF Len(b) = 4 THEN DecodeW(WordBE(b))
    ELSE IF Len(b) = 8 THEN
        (LET w1 == WordBE(SubBytes(b, 1, 4))  w2 == WordBE(SubBytes(b, 5, 4))
             p == DecodeW(w1)  i == DecodeW(w2) IN
         IF p.mn = "imm" /\ i.fmt = "B" /\ Op6(w2) # 25
         THEN [i EXCEPT !.imm = SignExt(Lo16(w1), 16) * 65536 + Lo16(w2), !.pre = TRUE, !.len = 8]
         ELSE [Bad("reserved") EXCEPT !.len = 8])
    ELSE [Bad("reserved") EXCEPT !.len = Len(b)]

-----------------------------------------------------------------------------
(* The reference encoder                                                     *)
R(r) == IF r = NoReg THEN 0 ELSE r
CondIx(m, suffix) == CHOOSE k \in 1..6 : m = "b" \o CondTab[k] \o suffix \/ m = "b" \o CondTab[k] \o suffix \o "d"
IsDelay(m, suffix) == \E k \in 1..6 : m = "b" \o CondTab[k] \o suffix \o "d"
EncodeW(i) ==
    LET m == i.mn  v16 == Pattern(i.imm, 16) IN
    CASE m \in AMn -> LET t == CHOOSE x \in ATab : x[3] = m IN MkW(t[1], R(i.rd), R(i.ra), R(i.rb) * 2048 + t[2])
      [] m \in BrMn -> MkW(38, R(i.rd), (CHOOSE x \in BrTab : x[2] = m)[1], i.rb * 2048)
      [] m \in BccMn -> MkW(39, (IF IsDelay(m, "") THEN 16 ELSE 0) + CondIx(m, "") - 1, i.ra, i.rb * 2048)
      [] m \in BMn -> MkW((CHOOSE p \in BTab : p[2] = m)[1], i.rd, i.ra, v16)
      [] m \in BsMn -> MkW(25, i.rd, i.ra, (CHOOSE p \in BsTab : p[2] = m)[1] + i.imm)
      [] m = "imm" -> MkW(44, 0, 0, i.imm)
      [] m \in RtMn -> MkW(45, (CHOOSE p \in RtTab : p[2] = m)[1], i.ra, v16)
      [] m \in BrIMn -> MkW(46, R(i.rd), BrIFlags(m), v16)
      [] m \in BcciMn -> MkW(47, (IF IsDelay(m, "i") THEN 16 ELSE 0) + CondIx(m, "i") - 1, i.ra, v16)
\* a 32-bit immediate v = <hi : lo>: the prefix carries the pattern of the upper half
HiHalf(v) == Pattern((v - (v % 65536)) \div 65536, 16)
Encode(i) ==
    IF i.pre THEN BytesBE(MkW(44, 0, 0, HiHalf(i.imm))) \o BytesBE(EncodeW([i EXCEPT !.imm = SignExt(i.imm % 65536, 16)]))
    ELSE BytesBE(EncodeW(i))

Reg(r) == r \in 0..31
S16(v) == -32768 <= v /\ v <= 32767
Has(i, rd, ra, rb) == /\ (IF rd THEN Reg(i.rd) ELSE i.rd = NoReg) /\ (IF ra THEN Reg(i.ra) ELSE i.ra = NoReg)
                      /\ (IF rb THEN Reg(i.rb) ELSE i.rb = NoReg)
ImmOK(i) == IF i.pre THEN i.len = 8 ELSE i.len = 4 /\ S16(i.imm)
WF(i) ==
    LET m == i.mn IN
    CASE m \in AMn -> LET sh == (CHOOSE x \in ATab : x[3] = m)[4] IN
                      /\ Has(i, sh \in {"dab", "da"}, TRUE, sh \in {"dab", "ab"}) /\ i.imm = 0 /\ ~i.pre /\ i.len = 4
      [] m \in BrMn -> Has(i, (CHOOSE x \in BrTab : x[2] = m)[3], FALSE, TRUE) /\ i.imm = 0 /\ ~i.pre /\ i.len = 4
      [] m \in BccMn -> Has(i, FALSE, TRUE, TRUE) /\ i.imm = 0 /\ ~i.pre /\ i.len = 4
      [] m \in BMn -> Has(i, TRUE, TRUE, FALSE) /\ ImmOK(i)
      [] m \in BsMn -> Has(i, TRUE, TRUE, FALSE) /\ i.imm \in 0..31 /\ ~i.pre /\ i.len = 4
      [] m = "imm" -> Has(i, FALSE, FALSE, FALSE) /\ i.imm \in Half /\ ~i.pre /\ i.len = 4
      [] m \in RtMn \cup BcciMn -> Has(i, FALSE, TRUE, FALSE) /\ ImmOK(i)
      [] m \in BrIMn -> Has(i, BrIHasRd(m), FALSE, FALSE) /\ ImmOK(i)
      [] OTHER -> FALSE
ImmWF(i) == WF(i)

-----------------------------------------------------------------------------
(* Meaning of a printed line.  A label operand stands for the 32-bit value   *)
(* carried by an imm prefix + the instruction: the displacement from the     *)
(* address of the branch instruction itself (pc + 4, after the prefix at pc) *)
(* for the pc-relative branches, the absolute address for addik and for the  *)
(* absolute branches.  "imm v": v names a 16-bit pattern.                     *)
Absolute == {"brai", "braid", "bralid", "brki"}
LabelImm(mn, sym, pc) == IF mn \in BMn \cup Absolute THEN sym ELSE sym - (pc + 4)
Pre(i) == [i EXCEPT !.pre = TRUE, !.len = 8]
Asm(mn, ops, sym, pc) ==
    LET p == Pat(ops)  R1 == Num(ops, 1)  R2 == Num(ops, 2)  R3 == Num(ops, 3)
        shape == IF mn \in AMn THEN (CHOOSE x \in ATab : x[3] = mn)[4] ELSE "" IN
    CASE shape = "dab" /\ p = "rrr" -> [Ins(mn, "") EXCEPT !.rd = R1, !.ra = R2, !.rb = R3]
      [] shape = "da" /\ p = "rr" -> [Ins(mn, "") EXCEPT !.rd = R1, !.ra = R2]
      [] shape = "ab" /\ p = "rr" -> [Ins(mn, "") EXCEPT !.ra = R1, !.rb = R2]
      [] mn \in BrMn /\ p = "r" /\ ~(CHOOSE x \in BrTab : x[2] = mn)[3] -> [Ins(mn, "") EXCEPT !.rb = R1]
      [] mn \in BrMn /\ p = "rr" /\ (CHOOSE x \in BrTab : x[2] = mn)[3] -> [Ins(mn, "") EXCEPT !.rd = R1, !.rb = R2]
      [] mn \in BccMn /\ p = "rr" -> [Ins(mn, "") EXCEPT !.ra = R1, !.rb = R2]
      [] mn \in BMn \cup BsMn /\ p = "rri" -> [Ins(mn, "") EXCEPT !.rd = R1, !.ra = R2, !.imm = R3]
      [] mn \in BMn /\ p = "rrl" -> Pre([Ins(mn, "") EXCEPT !.rd = R1, !.ra = R2, !.imm = LabelImm(mn, sym, pc)])
      [] mn = "imm" /\ p = "i" -> [Ins(mn, "") EXCEPT !.imm = IF -32768 <= R1 /\ R1 < 0 THEN R1 + 65536 ELSE R1]
      [] mn \in RtMn \cup BcciMn /\ p = "ri" -> [Ins(mn, "") EXCEPT !.ra = R1, !.imm = R2]
      [] mn \in BcciMn /\ p = "rl" -> Pre([Ins(mn, "") EXCEPT !.ra = R1, !.imm = LabelImm(mn, sym, pc)])
      [] mn \in BrIMn /\ ~BrIHasRd(mn) /\ p = "i" -> [Ins(mn, "") EXCEPT !.imm = R1]
      [] mn \in BrIMn /\ ~BrIHasRd(mn) /\ p = "l" -> Pre([Ins(mn, "") EXCEPT !.imm = LabelImm(mn, sym, pc)])
      [] mn \in BrIMn /\ BrIHasRd(mn) /\ p = "ri" -> [Ins(mn, "") EXCEPT !.rd = R1, !.imm = R2]
      [] mn \in BrIMn /\ BrIHasRd(mn) /\ p = "rl" -> Pre([Ins(mn, "") EXCEPT !.rd = R1, !.imm = LabelImm(mn, sym, pc)])
      [] OTHER -> NoAsm

-----------------------------------------------------------------------------
(* General-purpose registers read / written (MSR carry and the pc are not    *)
(* GPRs; r0 reads as zero and ignores writes).  Stores read rD.              *)
StoreMn == {"sb", "sbr", "sh", "shr", "sw", "swr", "swx", "sbi", "shi", "swi"}
Reads(i) == ({i.ra, i.rb} \cup (IF i.mn \in StoreMn THEN {i.rd} ELSE {})) \ {0, NoReg}
Writes(i) == (IF i.mn \in StoreMn THEN {} ELSE {i.rd}) \ {0, NoReg}
LinkW(i) == {}                                        \* the link register of brlid / brald is the explicit operand rD

(* Operand ranges of the printed forms: <<mnemonics, pattern, lo, hi, alignment>> *)
Ranges == {
    <<BMn, "rri", -32768, 32767, 1>>, <<BsMn, "rri", 0, 31, 1>>, <<{"imm"}, "i", 0, 65535, 1>>,
    <<RtMn \cup BcciMn, "ri", -32768, 32767, 1>>, <<{"bri", "brai", "brid", "braid"}, "i", -32768, 32767, 1>>,
    <<{"brlid", "bralid", "brki"}, "ri", -32768, 32767, 1>>,
    \* label forms: displacement (branches) / absolute address (addik): any 32-bit value; sampled up to 2^29
    <<BcciMn \cup {"brlid"}, "rl", -536870912, 536870908, 4>>, <<{"bri"}, "l", -536870912, 536870908, 4>>,
    <<{"addik"}, "rrl", 0, 536870908, 4>> }
=============================================================================
