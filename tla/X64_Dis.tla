------------------------------ MODULE X64_Dis ------------------------------
(* Spec validation only: writes X64.Decode of every byte string of           *)
(* TRACE_FILE to OUT_FILE, so that the harness can compare the specification *)
(* with GNU objdump / llvm-objdump on the same bytes.  Never decides a       *)
(* property.                                                                 *)
EXTENDS X64, Json, IOUtils, TLC
Bs == JsonDeserialize(IOEnv.TRACE_FILE)
ASSUME JsonSerialize(IOEnv.OUT_FILE, [j \in 1..Len(Bs) |-> Decode(Bs[j])])
VARIABLE x
Init == x = 0
Next == UNCHANGED x
=============================================================================
