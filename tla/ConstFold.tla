----------------------------- MODULE ConstFold -----------------------------
(* Property C38: the optimiser's compile-time evaluation of an operation on *)
(* constants equals the run-time value of IROps (the semantics IR.tla uses), *)
(* whenever the operation is defined, and folded constants are in range.    *)
(* Records (one per state):                                                  *)
(*  [k |-> "binop", ty, op, a, b : words, folded : BOOLEAN, v : word,        *)
(*   inrange : BOOLEAN, outcome : "ok" | "error:<Exc>"]                      *)
(*  [k |-> "cast", fromty, ty, a, folded, v, inrange, outcome]               *)
(*  [k |-> "chain", ty, op1, c1, op2, c2, folded, rop, rc, inrange, ys, outcome] *)
(*      ((y op1 c1) op2 c2) was rewritten to (y rop rc); ys = sample of y    *)
EXTENDS IROps, Json, IOUtils, TLC
Recs == JsonDeserialize(IOEnv.TRACE_FILE)
NChunks == 64
VARIABLES chunk, i
vars == <<chunk, i>>
Init == chunk = 0 /\ i = 0
PickChunk == chunk = 0 /\ chunk' \in 1..NChunks /\ i' = 0
PickRec == chunk > 0 /\ i = 0 /\ chunk' = chunk
           /\ i' \in {k \in 1..Len(Recs) : k % NChunks = chunk - 1}
Next == PickChunk \/ PickRec
R == Recs[i]
PBytes == 8

Defined(r) == CASE r.k = "binop" -> BinopDefined(r.op, r.a, r.b, r.ty)
                [] OTHER -> TRUE

\* the folder may decline to fold; if it folds, the value must be the run-time value
ValueAgrees ==
    (i > 0 /\ R.outcome = "ok" /\ R.folded /\ Defined(R)) =>
        CASE R.k = "binop" -> R.v = BinopVal(R.op, R.a, R.b, R.ty)
          [] R.k = "cast"  -> R.v = CastVal(R.a, R.fromty, R.ty, PBytes)
          [] R.k = "unop"  -> R.v = UnopVal(R.op, R.a)
          [] R.k = "chain" ->
                \A j \in 1..Len(R.ys) :
                    BinopVal(R.op2, BinopVal(R.op1, R.ys[j], R.c1, R.ty), R.c2, R.ty)
                        = BinopVal(R.rop, R.ys[j], R.rc, R.ty)
          [] OTHER -> TRUE

InRange == (i > 0 /\ R.outcome = "ok" /\ R.folded /\ Defined(R)) => R.inrange

\* folding a *defined* operation never fails with an internal error
NoInternalError == (i > 0 /\ Defined(R)) => R.outcome = "ok"
=============================================================================
