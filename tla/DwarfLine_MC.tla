----------------------------- MODULE DwarfLine_MC -----------------------------
(* Idiom M for DwarfLine.tla.                                                     *)
(* (1) Round trip: every table of up to MaxRows rows (address steps and line      *)
(*     steps from small sets that force one- and two-byte LEB128, negative line   *)
(*     advances, steps too big for a special opcode) is encoded by the reference   *)
(*     encoder Enc under each of four strategies (special opcodes; standard        *)
(*     opcodes only; const_add_pc + special; fixed_advance_pc) and two prologues;  *)
(*     the machine must halt with exactly that table plus the end_sequence row.    *)
(* (2) Hand-assembled programs for the opcodes the encoder does not use and for    *)
(*     malformed input, each with the matrix the standard prescribes.              *)
EXTENDS DwarfLine, TLC

CONSTANTS MaxRows, Big
VARIABLES expect, expstatus, name
vars == <<prog, hp, pc, regs, rows, status, expect, expstatus, name>>

HPs == << [min_inst |-> 1, default_is_stmt |-> TRUE,  line_base |-> -5, line_range |-> 14, opcode_base |-> 13,
           std_len |-> <<0, 1, 1, 1, 1, 0, 0, 0, 1, 0, 0, 1>>],
          [min_inst |-> 4, default_is_stmt |-> FALSE, line_base |-> -1, line_range |-> 4,  opcode_base |-> 10,
           std_len |-> <<0, 1, 1, 1, 1, 0, 0, 0, 1>>] >>
Strats == {"special", "standard", "const", "fixed"}
AddrSteps == IF Big THEN {0, 1, 3, 20, 300, 17000} ELSE {0, 1, 20, 300}          \* in units of min_inst
LineSteps == IF Big THEN {-70, -3, -1, 0, 1, 5, 12, 200} ELSE {-70, -3, 0, 1, 12}

EncU(v) == IF v < 128 THEN <<v>> ELSE IF v < 16384 THEN <<128 + (v % 128), v \div 128>>
           ELSE <<128 + (v % 128), 128 + ((v \div 128) % 128), v \div 16384>>
EncS(v) == IF v >= -64 /\ v <= 63 THEN <<v % 128>> ELSE <<128 + (v % 128), ((v - (v % 128)) \div 128) % 128>>
LE16(v) == <<v % 256, v \div 256>>
LE32(v) == <<v % 256, (v \div 256) % 256, (v \div 65536) % 256, v \div 16777216>>

SetAddr(a) == <<0, 5, 2>> \o LE32(a)
EndSeq == <<0, 1, 1>>
Fits(h, da, dl) == dl - h.line_base >= 0 /\ dl - h.line_base < h.line_range
                   /\ (dl - h.line_base) + h.line_range * da + h.opcode_base <= 255
SpecialOp(h, da, dl) == <<(dl - h.line_base) + h.line_range * da + h.opcode_base>>
ConstStep(h) == (255 - h.opcode_base) \div h.line_range
\* one row: advance by da (units of min_inst) and dl lines, then append a row
EncRow(h, s, da, dl) ==
    IF s = "special" /\ Fits(h, da, dl) THEN SpecialOp(h, da, dl)
    ELSE IF s = "const" /\ da >= ConstStep(h) /\ Fits(h, da - ConstStep(h), dl) THEN <<8>> \o SpecialOp(h, da - ConstStep(h), dl)
    ELSE IF s = "fixed" /\ da * h.min_inst < 65536 THEN <<9>> \o LE16(da * h.min_inst) \o (IF dl = 0 THEN <<>> ELSE <<3>> \o EncS(dl)) \o <<1>>
    ELSE (IF da = 0 THEN <<>> ELSE <<2>> \o EncU(da)) \o (IF dl = 0 THEN <<>> ELSE <<3>> \o EncS(dl)) \o <<1>>

RECURSIVE EncRows(_, _, _, _)
EncRows(h, s, steps, n) == IF n > Len(steps) THEN <<>> ELSE EncRow(h, s, steps[n][1], steps[n][2]) \o EncRows(h, s, steps, n + 1)
Enc(h, s, start, steps) == SetAddr(start) \o EncRows(h, s, steps, 1) \o <<2, 1>> \o EndSeq

RECURSIVE Table(_, _, _, _, _)
Table(h, a, ln, steps, n) ==
    IF n > Len(steps) THEN << <<a + h.min_inst, 1, ln, 0, h.default_is_stmt, FALSE, TRUE>> >>
    ELSE LET a1 == a + steps[n][1] * h.min_inst  l1 == ln + steps[n][2]
         IN << <<a1, 1, l1, 0, h.default_is_stmt, FALSE, FALSE>> >> \o Table(h, a1, l1, steps, n + 1)

StepSeqs == UNION {[1..n -> AddrSteps \X LineSteps] : n \in 1..MaxRows}

H1 == HPs[1]
\* hand-assembled programs: <<name, hp, bytes, expected rows, expected status>>
Hand == {
  <<"file-column-stmt-bb", H1,
    <<4, 2, 5, 7, 6, 7, 1, 1, 0, 1, 1>>,
    << <<0, 2, 1, 7, FALSE, TRUE, FALSE>>, <<0, 2, 1, 7, FALSE, FALSE, FALSE>>, <<0, 2, 1, 7, FALSE, FALSE, TRUE>> >>, "done">>,
  <<"special-min", H1, <<13>>, << <<0, 1, -4, 0, TRUE, FALSE, FALSE>> >>, "done">>,
  <<"special-max", H1, <<255>>, << <<17, 1, 0, 0, TRUE, FALSE, FALSE>> >>, "done">>,
  <<"dwarf3-opcodes-skipped", H1, <<10, 11, 12, 5, 1>>, << <<0, 1, 1, 0, TRUE, FALSE, FALSE>> >>, "done">>,
  <<"define-file-and-unknown-extended", H1, <<0, 6, 3, 97, 0, 0, 0, 0, 0, 3, 128, 1, 2, 1>>,
    << <<0, 1, 1, 0, TRUE, FALSE, FALSE>> >>, "done">>,
  <<"two-sequences", H1, <<0, 3, 2, 16, 0, 20, 0, 1, 1, 33, 0, 1, 1>>,
    << <<16, 1, 3, 0, TRUE, FALSE, FALSE>>, <<16, 1, 3, 0, TRUE, FALSE, TRUE>>,
       <<1, 1, 2, 0, TRUE, FALSE, FALSE>>, <<1, 1, 2, 0, TRUE, FALSE, TRUE>> >>, "done">>,
  <<"advance-pc-two-byte-leb", H1, <<2, 172, 2, 3, 125, 1>>, << <<300, 1, -2, 0, TRUE, FALSE, FALSE>> >>, "done">>,
  <<"truncated-leb", H1, <<2, 128>>, <<>>, "bad:leb">>,
  <<"truncated-extended", H1, <<0, 9, 2, 1>>, <<>>, "bad:extended">>,
  <<"odd-address-size", H1, <<0, 4, 2, 1, 2, 3>>, <<>>, "bad:address size">>,
  <<"short-fixed-advance", H1, <<9, 1>>, <<>>, "bad:short">>
}

Init == \/ \E h \in {HPs[1], HPs[2]}, s \in Strats, st \in StepSeqs, a0 \in {0, 4096} :
             /\ DInit(Enc(h, s, a0, st), h, 1)
             /\ expect = Table(h, a0, 1, st, 1) /\ expstatus = "done" /\ name = s
        \/ \E c \in Hand : DInit(c[3], c[2], 1) /\ expect = c[4] /\ expstatus = c[5] /\ name = c[1]

U == UNCHANGED <<expect, expstatus, name>>
MOpSpecial == OpSpecial /\ U
MOpCopy == OpCopy /\ U
MOpAdvancePc == OpAdvancePc /\ U
MOpAdvanceLine == OpAdvanceLine /\ U
MOpSetFile == OpSetFile /\ U
MOpSetColumn == OpSetColumn /\ U
MOpNegateStmt == OpNegateStmt /\ U
MOpSetBasicBlock == OpSetBasicBlock /\ U
MOpConstAddPc == OpConstAddPc /\ U
MOpFixedAdvancePc == OpFixedAdvancePc /\ U
MOpUnknownStandard == OpUnknownStandard /\ U
MOpEndSequence == OpEndSequence /\ U
MOpSetAddress == OpSetAddress /\ U
MOpDefineFile == OpDefineFile /\ U
MOpUnknownExtended == OpUnknownExtended /\ U
MOpMalformedExtended == OpMalformedExtended /\ U
MOpBadSetAddress == OpBadSetAddress /\ U
MHalt == Halt /\ U
Next == MOpSpecial \/ MOpCopy \/ MOpAdvancePc \/ MOpAdvanceLine \/ MOpSetFile \/ MOpSetColumn \/ MOpNegateStmt \/ MOpSetBasicBlock \/ MOpConstAddPc \/ MOpFixedAdvancePc \/ MOpUnknownStandard \/ MOpEndSequence \/ MOpSetAddress \/ MOpDefineFile \/ MOpUnknownExtended \/ MOpMalformedExtended \/ MOpBadSetAddress \/ MHalt

Finished == status # "run"
\* the law
DecodesToTable == Finished => (status = expstatus /\ rows = expect)
\* while running the matrix is a prefix of the expected one
PrefixOK == (status = "run" /\ expstatus = "done") => (Len(rows) <= Len(expect) /\ rows = SubSeq(expect, 1, Len(rows)))
Shown == [name |-> name, prog |-> prog, pc |-> pc, rows |-> rows, status |-> status, expect |-> expect]
=============================================================================
