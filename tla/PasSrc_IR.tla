------------------------------ MODULE PasSrc_IR ------------------------------
(* The judgement of extension property X01:  PasSrc (Pascal, ISO 7185)  is refined by  IR.  *)
(* A case is an IR.tla case (mods = <<projection of pascal_to_ir(source, march)>>) whose     *)
(* field  obs  is the sequence, indexed by argument vector, of the observations that TLC     *)
(* computed with PasSrc.tla (module PasSrc_Run) for the abstract program the Pascal text was *)
(* rendered from.  TLC executes the IR under IR.tla and checks, for every execution that     *)
(* Pascal fully defines (PasSrc status "ok"), that the IR execution is itself defined and    *)
(* yields the same function result, the same value of every defined ordinal program-level    *)
(* variable and the same sequence of output calls.                                           *)
(*                                                                                           *)
(* Representation chosen by ppci's Pascal front-end (the refinement mapping):                *)
(*   - a program-level variable v is the IR variable named v; integer, Boolean and           *)
(*     enumerated values are stored as a 4-byte two's complement word (ordinal number;       *)
(*     false = 0, true = 1) at its start, char values as one byte;                           *)
(*   - write(e) of an integer calls  write_int(value, 10, total width)  (the width is        *)
(*     compared only when the program gives one: the default is implementation-defined),     *)
(*     write(c) of a char calls  bsp_putc(c),  writeln ends with  bsp_putc(10).              *)
(* The programs contain no reals, so an IR execution that IR.tla cannot follow               *)
(* ("outofmodel", "stuck") is a wrong translation as well.                                     *)
EXTENDS IR

HasObs == i > 0 /\ status \notin {"run", "idle"} /\ ph = 1 /\ "obs" \in DOMAIN C
SrcObs == C.obs[av]
Judged == HasObs /\ SrcObs.status = "ok" /\ status # "fuel"

ImplWidth(c) == IF c = "char" THEN 1 ELSE 4
VarBytes(name, n) ==
    LET S == {k \in VarIdx : M.globals[k].name = name} IN
    IF S = {} THEN <<>>
    ELSE LET k == CHOOSE k \in S : TRUE IN
         IF n <= M.globals[k].size THEN Cells(gaddr[k], n) ELSE <<>>

\* a program whose behaviour Pascal defines must not be translated into IR that traps, uses an
\* undefined value, accesses memory out of bounds, is malformed or is not integer code
DefinedStaysDefined == Judged => status = "ok"
\* the step budget of a case is 150 IR instructions per transition of the PasSrc execution + 1500 (one transition is one
\* statement or one loop test, far fewer instructions): a terminating Pascal execution must not become an IR execution
\* that runs that much longer (e.g. a for statement that must not be entered and then never ends)
Terminates == (HasObs /\ SrcObs.status = "ok") => status # "fuel"
\* the result of a function (a procedure / the program block leaves through `exit`: no value)
SrcSameReturn  == (Judged /\ status = "ok") =>
                  IF SrcObs.ret = <<>> THEN ret = Poison
                  ELSE ret # Poison /\ ret = SubSeq(SrcObs.ret, 1, Len(ret))
                       /\ SrcObs.ret = WResize(ret, 4, FALSE)
SrcSameGlobals == (Judged /\ status = "ok") =>
                  \A j \in 1..Len(SrcObs.globals) :
                     LET g == SrcObs.globals[j] IN VarBytes(g.name, ImplWidth(g.c)) = SubSeq(g.w, 1, ImplWidth(g.c))
\* the output: the sequence of calls of the run-time routines
EvMatches(ev, cl) ==
    CASE ev.k = "int"  -> /\ cl.name = "write_int" /\ Len(cl.args) = 3
                          /\ cl.args[1] = ev.v /\ cl.args[2] = WFromNat(10, 4)
                          /\ (ev.hasw => cl.args[3] = ev.wd)
      [] ev.k = "char" -> cl.name = "bsp_putc" /\ cl.args = <<<<ev.v[1]>>>>
      [] ev.k = "ln"   -> cl.name = "bsp_putc" /\ cl.args = <<<<10>>>>
      [] OTHER -> FALSE
SrcSameOutput  == (Judged /\ status = "ok") =>
                  /\ Len(calls) = Len(SrcObs.out)
                  /\ \A j \in 1..Len(calls) : EvMatches(SrcObs.out[j], calls[j])
=============================================================================
