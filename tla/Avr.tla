-------------------------------- MODULE Avr --------------------------------
(* The AVR 8-bit instruction set (Atmel / Microchip "AVR Instruction Set     *)
(* Manual", DS40002198 / doc0856: the instruction descriptions with their    *)
(* 16-bit opcode diagrams, and the 32-bit LDS / STS / JMP / CALL),           *)
(* transcribed from the manual independently of ppci.  The reduced-core      *)
(* (AVRrc) 16-bit LDS / STS are not modelled.                                *)
(*                                                                           *)
(*   Decode(b)     instruction bytes (little-endian words) -> record          *)
(*   Matches(w)    the opcode-map regions a first word belongs to             *)
(*   Encode(i)     the reference encoder (inverse; laws in Avr_MC)            *)
(*   Asm(mn, ops, pc)  meaning of a printed line: the manual's syntax, its    *)
(*                 alias mnemonics (lsl, clr, ser, breq, sec, ...), ppci's    *)
(*                 register-pair names (r3:r2, W, X, Y, Z) and low() / high() *)
(*   WF(i)         records the encoder accepts                                *)
(*   Reads(i) / Writes(i)   architectural register sets (r0..r31)             *)
(*   ARanges       operand ranges per printed form (boundary generation)      *)
EXTENDS Integers, Sequences, FiniteSets, TLC

P2(n) == 2 ^ n
Bits(x, lo, n) == (x \div P2(lo)) % P2(n)             \* field x<lo+n-1:lo>
Bit(x, k) == (x \div P2(k)) % 2
SignExt(v, n) == IF v >= P2(n - 1) THEN v - P2(n) ELSE v
Pattern(v, n) == IF v < 0 THEN v + P2(n) ELSE v
NoReg == 32

(* The decoded instruction.                                                  *)
(*  mn   mnemonic of the manual (conditional branches / flag instructions by  *)
(*       their generic names brbs brbc bset bclr; ld / st also for ldd / std) *)
(*  rd   destination / the register that is loaded, stored, pushed, tested;   *)
(*       for register pairs the number of the low register                    *)
(*  rr   source register                                                      *)
(*  k    immediate K, displacement q, I/O address A, data address, flag       *)
(*       number s, word address of jmp / call                                 *)
(*  b    bit number                                                           *)
(*  ptr  "" | X | Y | Z pointer register    am  "" | post | pre | disp        *)
(*  rel  branch displacement in bytes relative to the next instruction (PC+1  *)
(*       in words)                                                            *)
(*  enc  "implied" for the operand-less lpm / elpm (R0, Z implied): a choice   *)
(*       between equivalent encodings       len  2 | 4 bytes                   *)
I0 == [mn |-> "", rd |-> NoReg, rr |-> NoReg, k |-> 0, b |-> 0, ptr |-> "", am |-> "", rel |-> 0, enc |-> "", len |-> 0]
NotInsn == {"reserved", "truncated", "toolong", "undefined", "none"}
Bad(k, len) == [I0 EXCEPT !.mn = k, !.len = len]
Valid(i) == i.mn \notin NotInsn
\* what C08 compares: operation and operands, not the choice among equivalent encodings
Core(i) == [i EXCEPT !.enc = "", !.len = 0]
NoAsm == Bad("none", 0)
T(mn) == [I0 EXCEPT !.mn = mn, !.len = 2]
T4(mn) == [I0 EXCEPT !.mn = mn, !.len = 4]

-----------------------------------------------------------------------------
(* Regions of the opcode map, by the top bits of the first word              *)
Fmt == {"zero", "movw", "muls", "mulsu", "alu2", "imm8", "lddstd", "ldst", "oneop", "adiw", "iobit", "mul", "inout",
        "rjmp", "branch", "bitreg"}
Match(f, w) ==
    CASE f = "zero"   -> Bits(w, 8, 8) = 0                                  \* 0000 0000 ....: nop
      [] f = "movw"   -> Bits(w, 8, 8) = 1                                  \* 0000 0001 dddd rrrr
      [] f = "muls"   -> Bits(w, 8, 8) = 2                                  \* 0000 0010 dddd rrrr
      [] f = "mulsu"  -> Bits(w, 8, 8) = 3                                  \* 0000 0011 xddd yrrr
      [] f = "alu2"   -> Bits(w, 10, 6) \in 1..11                           \* 0000 01.. to 0010 11..: oooo oord dddd rrrr
      [] f = "imm8"   -> Bits(w, 12, 4) \in {3, 4, 5, 6, 7, 14}             \* oooo KKKK dddd KKKK
      [] f = "lddstd" -> Bits(w, 14, 2) = 2 /\ Bit(w, 12) = 0               \* 10q0 qqsd dddd yqqq
      [] f = "ldst"   -> Bits(w, 10, 6) = 36                                \* 1001 00sd dddd oooo
      [] f = "oneop"  -> Bits(w, 9, 7) = 74                                 \* 1001 010d dddd oooo
      [] f = "adiw"   -> Bits(w, 9, 7) = 75                                 \* 1001 011s KKdd KKKK
      [] f = "iobit"  -> Bits(w, 10, 6) = 38                                \* 1001 10oo AAAA Abbb
      [] f = "mul"    -> Bits(w, 10, 6) = 39                                \* 1001 11rd dddd rrrr
      [] f = "inout"  -> Bits(w, 12, 4) = 11                                \* 1011 sAAd dddd AAAA
      [] f = "rjmp"   -> Bits(w, 12, 4) \in {12, 13}                        \* 110c kkkk kkkk kkkk
      [] f = "branch" -> Bits(w, 11, 5) = 30                                \* 1111 0ckk kkkk ksss
      [] f = "bitreg" -> Bits(w, 11, 5) = 31                                \* 1111 1ood dddd 0bbb
Matches(w) == {f \in Fmt : Match(f, w)}

Alu2Mn == <<"cpc", "sbc", "add", "cpse", "cp", "sub", "adc", "and", "eor", "or", "mov">>     \* bits 15:10 = 1..11
Imm8Mn == [n \in {3, 4, 5, 6, 7, 14} |-> CASE n = 3 -> "cpi" [] n = 4 -> "sbci" [] n = 5 -> "subi" [] n = 6 -> "ori"
                                           [] n = 7 -> "andi" [] n = 14 -> "ldi"]
OneOpMn == <<"com", "neg", "swap", "inc", "?", "asr", "lsr", "ror">>                          \* bits 3:0 = 0..7
MulsuMn == <<"mulsu", "fmul", "fmuls", "fmulsu">>
IoBitMn == <<"cbi", "sbic", "sbi", "sbis">>
BitRegMn == <<"bld", "bst", "sbrc", "sbrs">>
RmwMn == <<"xch", "las", "lac", "lat">>
\* 1001 0101 oooo 1000
Misc8Mn == [n \in {0, 1, 8, 9, 10, 12, 13, 14, 15} |-> CASE n = 0 -> "ret" [] n = 1 -> "reti" [] n = 8 -> "sleep" [] n = 9 -> "break"
                                                      [] n = 10 -> "wdr" [] n = 12 -> "lpm" [] n = 13 -> "elpm" [] n = 14 -> "spm" [] n = 15 -> "spm"]
IndexOf(seq, x) == CHOOSE k \in 1..Len(seq) : seq[k] = x
InSeq(seq, x) == \E k \in 1..Len(seq) : seq[k] = x

\* the first word of a 32-bit instruction: lds / sts (1001 00sd dddd 0000), jmp / call (1001 010k kkkk 11ck)
Is32(w) == (Bits(w, 10, 6) = 36 /\ Bits(w, 0, 4) = 0) \/ (Bits(w, 9, 7) = 74 /\ Bits(w, 2, 2) = 3)

DecLdSt(w) ==                                                               \* 1001 00sd dddd oooo (16-bit ones)
    LET s == Bit(w, 9)  d == Bits(w, 4, 5)  o == Bits(w, 0, 4)  m == IF s = 0 THEN "ld" ELSE "st" IN
    CASE o = 1  -> [T(m) EXCEPT !.rd = d, !.ptr = "Z", !.am = "post"]
      [] o = 2  -> [T(m) EXCEPT !.rd = d, !.ptr = "Z", !.am = "pre"]
      [] o = 9  -> [T(m) EXCEPT !.rd = d, !.ptr = "Y", !.am = "post"]
      [] o = 10 -> [T(m) EXCEPT !.rd = d, !.ptr = "Y", !.am = "pre"]
      [] o = 12 -> [T(m) EXCEPT !.rd = d, !.ptr = "X"]
      [] o = 13 -> [T(m) EXCEPT !.rd = d, !.ptr = "X", !.am = "post"]
      [] o = 14 -> [T(m) EXCEPT !.rd = d, !.ptr = "X", !.am = "pre"]
      [] o = 15 -> [T(IF s = 0 THEN "pop" ELSE "push") EXCEPT !.rd = d]
      [] o \in 4..7 -> IF s = 0 THEN [T(IF o < 6 THEN "lpm" ELSE "elpm") EXCEPT !.rd = d, !.ptr = "Z", !.am = IF o % 2 = 1 THEN "post" ELSE ""]
                       ELSE [T(RmwMn[o - 3]) EXCEPT !.rd = d, !.ptr = "Z"]
      [] OTHER  -> Bad("reserved", 2)                                       \* 3, 8, 11
DecOneOp(w) ==                                                              \* 1001 010d dddd oooo (16-bit ones)
    LET d == Bits(w, 4, 5)  o == Bits(w, 0, 4)  hi == Bit(w, 8)  n == Bits(w, 4, 4) IN
    CASE o \in {0, 1, 2, 3, 5, 6, 7} -> [T(OneOpMn[o + 1]) EXCEPT !.rd = d]
      [] o = 10 -> [T("dec") EXCEPT !.rd = d]
      [] o = 8 -> IF hi = 0 THEN [T(IF n < 8 THEN "bset" ELSE "bclr") EXCEPT !.k = n % 8]          \* 1001 0100 csss 1000
                  ELSE IF n \notin DOMAIN Misc8Mn THEN Bad("reserved", 2)
                  ELSE IF n \in {12, 13} THEN [T(Misc8Mn[n]) EXCEPT !.rd = 0, !.ptr = "Z", !.enc = "implied"]
                  ELSE IF n = 15 THEN [T("spm") EXCEPT !.ptr = "Z", !.am = "post"]
                  ELSE T(Misc8Mn[n])
      [] o = 9 -> IF n = 0 THEN T(IF hi = 0 THEN "ijmp" ELSE "icall")
                  ELSE IF n = 1 THEN T(IF hi = 0 THEN "eijmp" ELSE "eicall")
                  ELSE Bad("reserved", 2)
      [] o = 11 -> IF hi = 0 THEN [T("des") EXCEPT !.k = n] ELSE Bad("reserved", 2)
      [] OTHER -> Bad("reserved", 2)                                        \* 4
Dec16(f, w) ==
    CASE f = "zero" -> IF w = 0 THEN T("nop") ELSE Bad("reserved", 2)
      [] f = "movw" -> [T("movw") EXCEPT !.rd = 2 * Bits(w, 4, 4), !.rr = 2 * Bits(w, 0, 4)]
      [] f = "muls" -> [T("muls") EXCEPT !.rd = 16 + Bits(w, 4, 4), !.rr = 16 + Bits(w, 0, 4)]
      [] f = "mulsu" -> [T(MulsuMn[2 * Bit(w, 7) + Bit(w, 3) + 1]) EXCEPT !.rd = 16 + Bits(w, 4, 3), !.rr = 16 + Bits(w, 0, 3)]
      [] f = "alu2" -> [T(Alu2Mn[Bits(w, 10, 6)]) EXCEPT !.rd = Bits(w, 4, 5), !.rr = 16 * Bit(w, 9) + Bits(w, 0, 4)]
      [] f = "mul" -> [T("mul") EXCEPT !.rd = Bits(w, 4, 5), !.rr = 16 * Bit(w, 9) + Bits(w, 0, 4)]
      [] f = "imm8" -> [T(Imm8Mn[Bits(w, 12, 4)]) EXCEPT !.rd = 16 + Bits(w, 4, 4), !.k = 16 * Bits(w, 8, 4) + Bits(w, 0, 4)]
      [] f = "lddstd" ->
            LET q == 32 * Bit(w, 13) + 8 * Bits(w, 10, 2) + Bits(w, 0, 3) IN
            [T(IF Bit(w, 9) = 0 THEN "ld" ELSE "st") EXCEPT !.rd = Bits(w, 4, 5), !.ptr = IF Bit(w, 3) = 1 THEN "Y" ELSE "Z",
                                                            !.am = IF q = 0 THEN "" ELSE "disp", !.k = q]
      [] f = "ldst" -> DecLdSt(w)
      [] f = "oneop" -> DecOneOp(w)
      [] f = "adiw" -> [T(IF Bit(w, 8) = 0 THEN "adiw" ELSE "sbiw") EXCEPT !.rd = 24 + 2 * Bits(w, 4, 2), !.k = 16 * Bits(w, 6, 2) + Bits(w, 0, 4)]
      [] f = "iobit" -> [T(IoBitMn[Bits(w, 8, 2) + 1]) EXCEPT !.k = Bits(w, 3, 5), !.b = Bits(w, 0, 3)]
      [] f = "inout" -> [T(IF Bit(w, 11) = 0 THEN "in" ELSE "out") EXCEPT !.rd = Bits(w, 4, 5), !.k = 16 * Bits(w, 9, 2) + Bits(w, 0, 4)]
      [] f = "rjmp" -> [T(IF Bit(w, 12) = 0 THEN "rjmp" ELSE "rcall") EXCEPT !.rel = 2 * SignExt(Bits(w, 0, 12), 12)]
      [] f = "branch" -> [T(IF Bit(w, 10) = 0 THEN "brbs" ELSE "brbc") EXCEPT !.k = Bits(w, 0, 3), !.rel = 2 * SignExt(Bits(w, 3, 7), 7)]
      [] f = "bitreg" -> IF Bit(w, 3) = 1 THEN Bad("reserved", 2)
                         ELSE [T(BitRegMn[Bits(w, 9, 2) + 1]) EXCEPT !.rd = Bits(w, 4, 5), !.b = Bits(w, 0, 3)]
Decode16(w) == LET m == Matches(w) IN
               IF Is32(w) THEN Bad("truncated", 2)
               ELSE IF Cardinality(m) # 1 THEN Bad("undefined", 2) ELSE Dec16(CHOOSE f \in m : TRUE, w)
Decode32(w1, w2) ==
    IF ~Is32(w1) THEN Bad("toolong", 4)
    ELSE IF Bits(w1, 10, 6) = 36 THEN [T4(IF Bit(w1, 9) = 0 THEN "lds" ELSE "sts") EXCEPT !.rd = Bits(w1, 4, 5), !.k = w2]
    ELSE [T4(IF Bit(w1, 1) = 0 THEN "jmp" ELSE "call") EXCEPT !.k = (2 * Bits(w1, 4, 5) + Bit(w1, 0)) * 65536 + w2]
Hw(b, k) == b[2 * k - 1] + 256 * b[2 * k]
Decode(b) == IF Len(b) = 2 THEN Decode16(Hw(b, 1)) ELSE IF Len(b) = 4 THEN Decode32(Hw(b, 1), Hw(b, 2)) ELSE Bad("undefined", Len(b))

-----------------------------------------------------------------------------
(* Well-formed records and the reference encoder                             *)
Ptrs == {"X", "Y", "Z"}
NoOperand == {"nop", "ret", "reti", "sleep", "break", "wdr", "ijmp", "icall", "eijmp", "eicall"}
Plain(i, fields) == \A f \in DOMAIN I0 \ (fields \cup {"mn", "len"}) : i[f] = I0[f]
WF(i) ==
    CASE i.mn \in NoOperand -> Plain(i, {}) /\ i.len = 2
      [] InSeq(Alu2Mn, i.mn) \/ i.mn = "mul" -> Plain(i, {"rd", "rr"}) /\ i.rd \in 0..31 /\ i.rr \in 0..31 /\ i.len = 2
      [] i.mn = "movw" -> Plain(i, {"rd", "rr"}) /\ i.rd \in 0..30 /\ i.rr \in 0..30 /\ i.rd % 2 = 0 /\ i.rr % 2 = 0 /\ i.len = 2
      [] i.mn = "muls" -> Plain(i, {"rd", "rr"}) /\ i.rd \in 16..31 /\ i.rr \in 16..31 /\ i.len = 2
      [] InSeq(MulsuMn, i.mn) -> Plain(i, {"rd", "rr"}) /\ i.rd \in 16..23 /\ i.rr \in 16..23 /\ i.len = 2
      [] i.mn \in {"cpi", "sbci", "subi", "ori", "andi", "ldi"} -> Plain(i, {"rd", "k"}) /\ i.rd \in 16..31 /\ i.k \in 0..255 /\ i.len = 2
      [] i.mn \in {"adiw", "sbiw"} -> Plain(i, {"rd", "k"}) /\ i.rd \in {24, 26, 28, 30} /\ i.k \in 0..63 /\ i.len = 2
      [] i.mn \in {"com", "neg", "swap", "inc", "asr", "lsr", "ror", "dec", "push", "pop"} -> Plain(i, {"rd"}) /\ i.rd \in 0..31 /\ i.len = 2
      [] i.mn \in {"ld", "st"} -> /\ Plain(i, {"rd", "ptr", "am", "k"}) /\ i.rd \in 0..31 /\ i.ptr \in Ptrs /\ i.len = 2
                                  /\ i.am \in {"", "post", "pre", "disp"} /\ (i.am = "disp" => i.ptr # "X" /\ i.k \in 1..63)
                                  /\ (i.am # "disp" => i.k = 0)
      [] i.mn \in {"lds", "sts"} -> Plain(i, {"rd", "k"}) /\ i.rd \in 0..31 /\ i.k \in 0..65535 /\ i.len = 4
      [] i.mn \in {"lpm", "elpm"} -> /\ Plain(i, {"rd", "ptr", "am", "enc"}) /\ i.rd \in 0..31 /\ i.ptr = "Z" /\ i.am \in {"", "post"} /\ i.len = 2
                                     /\ i.enc \in {"", "implied"} /\ (i.enc = "implied" => i.rd = 0 /\ i.am = "")
      [] i.mn = "spm" -> (Plain(i, {}) \/ (Plain(i, {"ptr", "am"}) /\ i.ptr = "Z" /\ i.am = "post")) /\ i.len = 2
      [] InSeq(RmwMn, i.mn) -> Plain(i, {"rd", "ptr"}) /\ i.rd \in 0..31 /\ i.ptr = "Z" /\ i.len = 2
      [] i.mn \in {"in", "out"} -> Plain(i, {"rd", "k"}) /\ i.rd \in 0..31 /\ i.k \in 0..63 /\ i.len = 2
      [] InSeq(IoBitMn, i.mn) -> Plain(i, {"k", "b"}) /\ i.k \in 0..31 /\ i.b \in 0..7 /\ i.len = 2
      [] InSeq(BitRegMn, i.mn) -> Plain(i, {"rd", "b"}) /\ i.rd \in 0..31 /\ i.b \in 0..7 /\ i.len = 2
      [] i.mn \in {"bset", "bclr"} -> Plain(i, {"k"}) /\ i.k \in 0..7 /\ i.len = 2
      [] i.mn = "des" -> Plain(i, {"k"}) /\ i.k \in 0..15 /\ i.len = 2
      [] i.mn \in {"brbs", "brbc"} -> Plain(i, {"k", "rel"}) /\ i.k \in 0..7 /\ i.rel \in -128..126 /\ i.rel % 2 = 0 /\ i.len = 2
      [] i.mn \in {"rjmp", "rcall"} -> Plain(i, {"rel"}) /\ i.rel \in -4096..4094 /\ i.rel % 2 = 0 /\ i.len = 2
      [] i.mn \in {"jmp", "call"} -> Plain(i, {"k"}) /\ i.k \in 0..4194303 /\ i.len = 4
      [] OTHER -> FALSE

RR(d, r) == 512 * (r \div 16) + 16 * d + (r % 16)                             \* ..rd dddd rrrr
PtrOp(i) ==                                                                 \* bits 3:0 of 1001 00sd dddd oooo
    CASE i.ptr = "X" -> (IF i.am = "" THEN 12 ELSE IF i.am = "post" THEN 13 ELSE 14)
      [] i.ptr = "Y" -> (IF i.am = "post" THEN 9 ELSE 10)
      [] i.ptr = "Z" -> (IF i.am = "post" THEN 1 ELSE 2)
EncodeW(i) ==
    LET m == i.mn IN
    CASE m = "nop" -> <<0>>
      [] m = "movw" -> <<256 + 16 * (i.rd \div 2) + i.rr \div 2>>
      [] m = "muls" -> <<512 + 16 * (i.rd - 16) + (i.rr - 16)>>
      [] InSeq(MulsuMn, m) -> LET n == IndexOf(MulsuMn, m) - 1 IN <<768 + 128 * (n \div 2) + 16 * (i.rd - 16) + 8 * (n % 2) + (i.rr - 16)>>
      [] InSeq(Alu2Mn, m) -> <<1024 * IndexOf(Alu2Mn, m) + RR(i.rd, i.rr)>>
      [] m = "mul" -> <<1024 * 39 + RR(i.rd, i.rr)>>
      [] m \in {"cpi", "sbci", "subi", "ori", "andi", "ldi"} ->
            <<4096 * (CHOOSE n \in DOMAIN Imm8Mn : Imm8Mn[n] = m) + 256 * (i.k \div 16) + 16 * (i.rd - 16) + (i.k % 16)>>
      [] m \in {"ld", "st"} ->
            LET s == IF m = "st" THEN 512 ELSE 0 IN
            IF i.ptr \in {"Y", "Z"} /\ i.am \in {"", "disp"}
            THEN <<32768 + 8192 * (i.k \div 32) + 1024 * ((i.k \div 8) % 4) + s + 16 * i.rd + (IF i.ptr = "Y" THEN 8 ELSE 0) + (i.k % 8)>>
            ELSE <<36864 + s + 16 * i.rd + PtrOp(i)>>
      [] m \in {"pop", "push"} -> <<36864 + (IF m = "push" THEN 512 ELSE 0) + 16 * i.rd + 15>>
      [] m \in {"lpm", "elpm"} -> IF i.enc = "implied" THEN <<38152 + 16 * (IF m = "lpm" THEN 12 ELSE 13)>>      \* 9508h + 16 n
                                  ELSE <<36864 + 16 * i.rd + (IF m = "lpm" THEN 4 ELSE 6) + (IF i.am = "post" THEN 1 ELSE 0)>>
      [] InSeq(RmwMn, m) -> <<36864 + 512 + 16 * i.rd + 3 + IndexOf(RmwMn, m)>>
      [] m \in {"lds", "sts"} -> <<36864 + (IF m = "sts" THEN 512 ELSE 0) + 16 * i.rd, i.k>>
      [] m \in {"com", "neg", "swap", "inc", "asr", "lsr", "ror"} -> <<37888 + 16 * i.rd + IndexOf(OneOpMn, m) - 1>>
      [] m = "dec" -> <<37888 + 16 * i.rd + 10>>
      [] m \in {"bset", "bclr"} -> <<37888 + (IF m = "bclr" THEN 128 ELSE 0) + 16 * i.k + 8>>
      [] m \in {"ret", "reti", "sleep", "break", "wdr"} -> <<38152 + 16 * (CHOOSE n \in DOMAIN Misc8Mn : Misc8Mn[n] = m)>>
      [] m = "spm" -> <<38152 + 16 * (IF i.am = "post" THEN 15 ELSE 14)>>
      [] m \in {"ijmp", "eijmp"} -> <<37897 + (IF m = "eijmp" THEN 16 ELSE 0)>>
      [] m \in {"icall", "eicall"} -> <<38153 + (IF m = "eicall" THEN 16 ELSE 0)>>
      [] m = "des" -> <<37888 + 16 * i.k + 11>>
      [] m \in {"jmp", "call"} -> LET h == i.k \div 65536 IN <<37888 + 16 * (h \div 2) + 12 + (IF m = "call" THEN 2 ELSE 0) + (h % 2), i.k % 65536>>
      [] m \in {"adiw", "sbiw"} -> <<38400 + (IF m = "sbiw" THEN 256 ELSE 0) + 64 * (i.k \div 16) + 16 * ((i.rd - 24) \div 2) + (i.k % 16)>>
      [] InSeq(IoBitMn, m) -> <<38912 + 256 * (IndexOf(IoBitMn, m) - 1) + 8 * i.k + i.b>>
      [] m \in {"in", "out"} -> <<45056 + (IF m = "out" THEN 2048 ELSE 0) + 512 * (i.k \div 16) + 16 * i.rd + (i.k % 16)>>
      [] m \in {"rjmp", "rcall"} -> <<49152 + (IF m = "rcall" THEN 4096 ELSE 0) + Pattern(i.rel \div 2, 12)>>
      [] m \in {"brbs", "brbc"} -> <<61440 + (IF m = "brbc" THEN 1024 ELSE 0) + 8 * Pattern(i.rel \div 2, 7) + i.k>>
      [] InSeq(BitRegMn, m) -> <<63488 + 512 * (IndexOf(BitRegMn, m) - 1) + 16 * i.rd + i.b>>
RECURSIVE WordBytes(_)
WordBytes(ws) == IF ws = <<>> THEN <<>> ELSE <<ws[1] % 256, ws[1] \div 256>> \o WordBytes(Tail(ws))
Encode(i) == WordBytes(EncodeW(i))

-----------------------------------------------------------------------------
(* Architectural register sets (r0..r31; SREG, SP and the I/O space are not  *)
(* registers of this model)                                                  *)
PtrRegs(p) == CASE p = "X" -> {26, 27} [] p = "Y" -> {28, 29} [] p = "Z" -> {30, 31} [] OTHER -> {}
Pair(r) == IF r = NoReg THEN {} ELSE {r, r + 1}
One(r) == IF r = NoReg THEN {} ELSE {r}
Reads(i) ==
    LET m == i.mn IN
    CASE m = "mov" -> One(i.rr)
      [] m = "movw" -> Pair(i.rr)
      [] InSeq(Alu2Mn, m) \/ m \in {"mul", "muls"} \/ InSeq(MulsuMn, m) -> One(i.rd) \cup One(i.rr)
      [] m \in {"ldi", "pop", "lds", "in"} -> {}
      [] m \in {"adiw", "sbiw"} -> Pair(i.rd)
      [] m = "ld" -> PtrRegs(i.ptr)
      [] m = "st" \/ InSeq(RmwMn, m) -> PtrRegs(i.ptr) \cup One(i.rd)
      [] m \in {"lpm", "elpm"} -> PtrRegs("Z")
      [] m = "spm" -> {0, 1, 30, 31}
      [] m \in {"ijmp", "icall", "eijmp", "eicall"} -> {30, 31}
      [] OTHER -> One(i.rd)
Writes(i) ==
    LET m == i.mn  upd == IF i.am \in {"post", "pre"} THEN PtrRegs(i.ptr) ELSE {} IN
    CASE m \in {"cp", "cpc", "cpse", "cpi", "push", "sts", "out", "bst", "sbrc", "sbrs"} -> {}
      [] m \in {"mul", "muls"} \/ InSeq(MulsuMn, m) -> {0, 1}
      [] m \in {"movw", "adiw", "sbiw"} -> Pair(i.rd)
      [] m = "st" -> upd
      [] m \in {"ld", "lpm", "elpm"} -> One(i.rd) \cup upd
      [] m = "spm" -> upd
      [] OTHER -> One(i.rd)

-----------------------------------------------------------------------------
(* Operand tokens of a printed line: <<kind, number, text>>, kind in          *)
(*  r register  w register pair (number of the low register; "W" = r25:r24)   *)
(*  p pointer register X / Y / Z (26 / 28 / 30)  i integer  l label (number = *)
(*  its byte address)  f word (low, high, lo8, hi8)  + - ( )  x unknown glyph *)
RECURSIVE PatR(_, _)
PatR(ops, k) == IF k > Len(ops) THEN "" ELSE ops[k][1] \o PatR(ops, k + 1)
Pat(ops) == PatR(ops, 1)
Num(ops, k) == ops[k][2]
PtrName(n) == CASE n = 26 -> "X" [] n = 28 -> "Y" [] n = 30 -> "Z" [] OTHER -> "?"
Byte(v) == IF v \in -128..255 THEN (v + 256) % 256 ELSE -1                  \* an 8-bit constant, written signed or unsigned

BranchAlias == {<<"breq", "brbs", 1>>, <<"brne", "brbc", 1>>, <<"brcs", "brbs", 0>>, <<"brcc", "brbc", 0>>, <<"brlo", "brbs", 0>>,
                <<"brsh", "brbc", 0>>, <<"brmi", "brbs", 2>>, <<"brpl", "brbc", 2>>, <<"brvs", "brbs", 3>>, <<"brvc", "brbc", 3>>,
                <<"brlt", "brbs", 4>>, <<"brge", "brbc", 4>>, <<"brhs", "brbs", 5>>, <<"brhc", "brbc", 5>>, <<"brts", "brbs", 6>>,
                <<"brtc", "brbc", 6>>, <<"brie", "brbs", 7>>, <<"brid", "brbc", 7>>}
FlagAlias == {<<"sec", "bset", 0>>, <<"sez", "bset", 1>>, <<"sen", "bset", 2>>, <<"sev", "bset", 3>>, <<"ses", "bset", 4>>,
              <<"seh", "bset", 5>>, <<"set", "bset", 6>>, <<"sei", "bset", 7>>, <<"clc", "bclr", 0>>, <<"clz", "bclr", 1>>,
              <<"cln", "bclr", 2>>, <<"clv", "bclr", 3>>, <<"cls", "bclr", 4>>, <<"clh", "bclr", 5>>, <<"clt", "bclr", 6>>,
              <<"cli", "bclr", 7>>}
SelfAlias == {<<"lsl", "add">>, <<"rol", "adc">>, <<"tst", "and">>, <<"clr", "eor">>}
\* the target of a relative branch: a label (byte address) or the reference disassembler's ".+N"
RelOf(ops, k, pc) == IF ops[k][1] = "l" THEN Num(ops, k) - (pc + 2) ELSE Num(ops, k)
LowReg(ops, k) == Num(ops, k)                                                \* r / w / p token -> number of the (low) register
Asm(mn, ops, pc) ==
    LET p == Pat(ops)  n == Len(ops) IN
    CASE mn \in NoOperand /\ n = 0 -> [I0 EXCEPT !.mn = mn]
      [] (InSeq(Alu2Mn, mn) \/ mn \in {"mul", "muls"} \/ InSeq(MulsuMn, mn)) /\ p = "rr" -> [I0 EXCEPT !.mn = mn, !.rd = Num(ops, 1), !.rr = Num(ops, 2)]
      [] (\E a \in SelfAlias : a[1] = mn) /\ p = "r" ->
            [I0 EXCEPT !.mn = (CHOOSE a \in SelfAlias : a[1] = mn)[2], !.rd = Num(ops, 1), !.rr = Num(ops, 1)]
      [] mn = "movw" /\ n = 2 /\ ops[1][1] \in {"r", "w", "p"} /\ ops[2][1] \in {"r", "w", "p"} ->
            [I0 EXCEPT !.mn = mn, !.rd = LowReg(ops, 1), !.rr = LowReg(ops, 2)]
      [] mn \in {"cpi", "sbci", "subi", "ori", "andi", "ldi", "sbr"} /\ p = "ri" ->
            IF Byte(Num(ops, 2)) < 0 THEN NoAsm
            ELSE [I0 EXCEPT !.mn = IF mn = "sbr" THEN "ori" ELSE mn, !.rd = Num(ops, 1), !.k = Byte(Num(ops, 2))]
      [] mn = "cbr" /\ p = "ri" -> IF Num(ops, 2) \notin 0..255 THEN NoAsm ELSE [I0 EXCEPT !.mn = "andi", !.rd = Num(ops, 1), !.k = 255 - Num(ops, 2)]
      [] mn = "ser" /\ p = "r" -> [I0 EXCEPT !.mn = "ldi", !.rd = Num(ops, 1), !.k = 255]
      [] mn = "ldi" /\ p = "rf(l)" /\ ops[2][3] \in {"low", "lo8"} -> [I0 EXCEPT !.mn = mn, !.rd = Num(ops, 1), !.k = Num(ops, 4) % 256]
      [] mn = "ldi" /\ p = "rf(l)" /\ ops[2][3] \in {"high", "hi8"} -> [I0 EXCEPT !.mn = mn, !.rd = Num(ops, 1), !.k = (Num(ops, 4) \div 256) % 256]
      [] mn \in {"adiw", "sbiw"} /\ p \in {"ri", "wi", "pi"} -> [I0 EXCEPT !.mn = mn, !.rd = LowReg(ops, 1), !.k = Num(ops, 2)]
      [] mn \in {"com", "neg", "swap", "inc", "asr", "lsr", "ror", "dec", "push", "pop"} /\ p = "r" -> [I0 EXCEPT !.mn = mn, !.rd = Num(ops, 1)]
      [] mn = "ld" /\ p = "rp" -> [I0 EXCEPT !.mn = "ld", !.rd = Num(ops, 1), !.ptr = PtrName(Num(ops, 2))]
      [] mn = "ld" /\ p = "rp+" -> [I0 EXCEPT !.mn = "ld", !.rd = Num(ops, 1), !.ptr = PtrName(Num(ops, 2)), !.am = "post"]
      [] mn = "ld" /\ p = "r-p" -> [I0 EXCEPT !.mn = "ld", !.rd = Num(ops, 1), !.ptr = PtrName(Num(ops, 3)), !.am = "pre"]
      [] mn = "ldd" /\ p = "rp+i" /\ Num(ops, 2) # 26 ->
            [I0 EXCEPT !.mn = "ld", !.rd = Num(ops, 1), !.ptr = PtrName(Num(ops, 2)), !.am = IF Num(ops, 4) = 0 THEN "" ELSE "disp", !.k = Num(ops, 4)]
      [] mn = "st" /\ p = "pr" -> [I0 EXCEPT !.mn = "st", !.rd = Num(ops, 2), !.ptr = PtrName(Num(ops, 1))]
      [] mn = "st" /\ p = "p+r" -> [I0 EXCEPT !.mn = "st", !.rd = Num(ops, 3), !.ptr = PtrName(Num(ops, 1)), !.am = "post"]
      [] mn = "st" /\ p = "-pr" -> [I0 EXCEPT !.mn = "st", !.rd = Num(ops, 3), !.ptr = PtrName(Num(ops, 2)), !.am = "pre"]
      [] mn = "std" /\ p = "p+ir" /\ Num(ops, 1) # 26 ->
            [I0 EXCEPT !.mn = "st", !.rd = Num(ops, 4), !.ptr = PtrName(Num(ops, 1)), !.am = IF Num(ops, 3) = 0 THEN "" ELSE "disp", !.k = Num(ops, 3)]
      [] mn = "lds" /\ p \in {"ri", "rl"} -> [I0 EXCEPT !.mn = mn, !.rd = Num(ops, 1), !.k = Num(ops, 2)]
      [] mn = "sts" /\ p \in {"ir", "lr"} -> [I0 EXCEPT !.mn = mn, !.rd = Num(ops, 2), !.k = Num(ops, 1)]
      [] mn \in {"lpm", "elpm"} /\ n = 0 -> [I0 EXCEPT !.mn = mn, !.rd = 0, !.ptr = "Z"]
      [] mn \in {"lpm", "elpm"} /\ p = "rp" /\ Num(ops, 2) = 30 -> [I0 EXCEPT !.mn = mn, !.rd = Num(ops, 1), !.ptr = "Z"]
      [] mn \in {"lpm", "elpm"} /\ p = "rp+" /\ Num(ops, 2) = 30 -> [I0 EXCEPT !.mn = mn, !.rd = Num(ops, 1), !.ptr = "Z", !.am = "post"]
      [] mn = "spm" /\ n = 0 -> [I0 EXCEPT !.mn = mn]
      [] mn = "spm" /\ p = "p+" /\ Num(ops, 1) = 30 -> [I0 EXCEPT !.mn = mn, !.ptr = "Z", !.am = "post"]
      [] InSeq(RmwMn, mn) /\ p = "pr" /\ Num(ops, 1) = 30 -> [I0 EXCEPT !.mn = mn, !.rd = Num(ops, 2), !.ptr = "Z"]
      [] mn = "in" /\ p = "ri" -> [I0 EXCEPT !.mn = mn, !.rd = Num(ops, 1), !.k = Num(ops, 2)]
      [] mn = "out" /\ p = "ir" -> [I0 EXCEPT !.mn = mn, !.rd = Num(ops, 2), !.k = Num(ops, 1)]
      [] InSeq(IoBitMn, mn) /\ p = "ii" -> [I0 EXCEPT !.mn = mn, !.k = Num(ops, 1), !.b = Num(ops, 2)]
      [] InSeq(BitRegMn, mn) /\ p = "ri" -> [I0 EXCEPT !.mn = mn, !.rd = Num(ops, 1), !.b = Num(ops, 2)]
      [] mn \in {"bset", "bclr", "des"} /\ p = "i" -> [I0 EXCEPT !.mn = mn, !.k = Num(ops, 1)]
      [] (\E a \in FlagAlias : a[1] = mn) /\ n = 0 -> LET a == CHOOSE x \in FlagAlias : x[1] = mn IN [I0 EXCEPT !.mn = a[2], !.k = a[3]]
      [] mn \in {"brbs", "brbc"} /\ p \in {"il", "ii"} -> [I0 EXCEPT !.mn = mn, !.k = Num(ops, 1), !.rel = RelOf(ops, 2, pc)]
      [] (\E a \in BranchAlias : a[1] = mn) /\ p \in {"l", "i"} ->
            LET a == CHOOSE x \in BranchAlias : x[1] = mn IN [I0 EXCEPT !.mn = a[2], !.k = a[3], !.rel = RelOf(ops, 1, pc)]
      [] mn \in {"rjmp", "rcall"} /\ p \in {"l", "i"} -> [I0 EXCEPT !.mn = mn, !.rel = RelOf(ops, 1, pc)]
      [] mn \in {"jmp", "call"} /\ p \in {"l", "i"} -> IF Num(ops, 1) % 2 # 0 THEN NoAsm ELSE [I0 EXCEPT !.mn = mn, !.k = Num(ops, 1) \div 2]
      [] OTHER -> NoAsm
\* the length every encoding of a printed instruction has
LenOfMn(mn) == IF mn \in {"lds", "sts", "jmp", "call"} THEN 4 ELSE 2

-----------------------------------------------------------------------------
(* Operand ranges of the printed forms: <<mnemonics, what, lo, hi, alignment>> *)
(*  imm8 K (written signed or unsigned)  k6 K of adiw / sbiw  q displacement  *)
(*  io6 I/O address  addr16 data address; label operands: rel12 / rel7        *)
(*  distance from the next instruction, abs22 byte address of jmp / call,     *)
(*  sym16 address under low() / high()                                        *)
ARanges == {<<{"cpi", "sbci", "subi", "ori", "andi", "ldi"}, "imm8", -128, 255, 1>>, <<{"adiw", "sbiw"}, "k6", 0, 63, 1>>,
            <<{"ldd", "std"}, "q", 0, 63, 1>>, <<{"in", "out"}, "io6", 0, 63, 1>>, <<{"lds", "sts"}, "addr16", 0, 65535, 1>>,
            <<{"rjmp", "rcall"}, "rel12", -4096, 4094, 2>>, <<{a[1] : a \in BranchAlias}, "rel7", -128, 126, 2>>,
            <<{"jmp", "call"}, "abs22", 0, 8388606, 2>>, <<{"ldi"}, "sym16", 0, 65535, 1>>}
=============================================================================
