----------------------------- MODULE Xtensa_MC -----------------------------
(* Idiom M for Xtensa.tla: laws of the ISA model, checked exhaustively on     *)
(* small domains before the model judges ppci.                                *)
(*  family "fmt"  every format's fields tile its word; every opcode class      *)
(*                (op0 x op1 x op2 x r x m/n bits) is in exactly one format;   *)
(*                Join(f, Split(f, w)) = w                                     *)
(*  family "w24"  24-bit words: all of op2 x op1 (= imm8) x r x op0 x s / t    *)
(*                samples: a defined instruction is well-formed and the       *)
(*                reference encoder re-encodes it to the same word             *)
(*  family "w16"  every 16-bit pattern: the same for the narrow instructions  *)
(*  family "rec"  every mnemonic x register samples x in-range boundary        *)
(*                immediates: Decode(Encode(i)) = i; values just outside the   *)
(*                range are not well-formed                                    *)
(*  family "ln"   printed lines of the reference syntax (every mnemonic x      *)
(*                registers x boundary operands / label distances from four   *)
(*                placements): Decode(Encode(Asm(line))) = Asm(line)           *)
(*  family "tab"  the syntax table has one row per mnemonic and every row's    *)
(*                kinds / fields are known shapes of equal length              *)
(* The same run writes the operand range table of idiom G (the ranges the      *)
(* harness draws boundary immediates / label distances from) to OUT_FILE.     *)
EXTENDS Xtensa, Json, IOUtils, SequencesExt
CONSTANTS Deep, Fams

Table == SetToSeq({[mn |-> r[1], kinds |-> r[2], lo |-> r[3], hi |-> r[4], step |-> r[5]] : r \in XRanges})
WriteTable == JsonSerialize(IOEnv.OUT_FILE, Table)
ASSUME WriteTable

VARIABLES fam, pick
vars == <<fam, pick>>
None == [k |-> "none"]

RegS == IF Deep THEN {0, 1, 8, 15} ELSE {0, 9, 15}
STPairs == IF Deep THEN {<<0, 0>>, <<1, 2>>, <<15, 8>>, <<3, 15>>, <<0, 1>>, <<9, 0>>} ELSE {<<0, 0>>, <<1, 2>>, <<15, 8>>}
\* quick tier: every op2 x op1 only where they select the operation (op0 = 0), samples of them where they are an immediate
HiOf(op0) == IF op0 = 0 THEN 0..255 ELSE IF Deep THEN {h \in 0..255 : h % 4 = 0 \/ h > 250 \/ h \in 126..130}
             ELSE {0, 1, 2, 15, 16, 127, 128, 129, 170, 240, 254, 255}
ClsHi == IF Deep THEN 0..255 ELSE {h \in 0..255 : h % 8 = 0 \/ h < 32 \/ h \div 16 = 6}
Around(lo, hi, st) == {lo - st, lo - 1, lo, lo + 1, lo + st, -st, -1, 0, 1, st, hi - st, hi - 1, hi, hi + 1, hi + st,
                       ((lo + hi) \div (2 * st)) * st, (hi \div (2 * st)) * st, (hi \div (2 * st)) * st + st, (lo \div (2 * st)) * st,
                       (lo \div (2 * st)) * st - st}
InVals(mn) == {v \in Around(ImmRange(mn)[1], ImmRange(mn)[2], ImmRange(mn)[3]) : InRange(ImmRange(mn), v) /\ (mn = "addi.n" => v # 0)}
OutVals(mn) == {v \in Around(ImmRange(mn)[1], ImmRange(mn)[2], ImmRange(mn)[3]) : ~InRange(ImmRange(mn), v) \/ (mn = "addi.n" /\ v = 0)}
Imm2Vals(mn) ==
    CASE mn \in {"beqi", "bnei", "blti", "bgei"} -> {B4Const[k] : k \in 1..16}
      [] mn \in {"bltui", "bgeui"} -> {B4ConstU[k] : k \in 1..16}
      [] mn \in {"bbci", "bbsi"} -> {0, 1, 15, 16, 31}
      [] mn = "extui" -> {1, 2, 8, 16}
      [] mn = "break" -> {0, 7, 15}
      [] OTHER -> {0}
HasImm(mn) == Uses(mn, "i") \/ Uses(mn, "l")
\* well-formed records of a mnemonic (register fields from the samples, immediates from the in-range boundary values)
RecsOf(mn) ==
    {[X(mn) EXCEPT !.r = IF Uses(mn, "r") THEN p[1] ELSE NoReg, !.s = IF Uses(mn, "s") THEN p[2] ELSE NoReg,
                   !.t = IF Uses(mn, "t") THEN p[3] ELSE NoReg, !.imm = v, !.imm2 = w] :
        p \in (IF Uses(mn, "r") THEN RegS ELSE {0}) \X (IF Uses(mn, "s") THEN RegS ELSE {0}) \X (IF Uses(mn, "t") THEN RegS ELSE {0}),
        v \in (IF HasImm(mn) THEN InVals(mn) ELSE {0}), w \in Imm2Vals(mn)}
BadRecsOf(mn) == {[X(mn) EXCEPT !.r = IF Uses(mn, "r") THEN 1 ELSE NoReg, !.s = IF Uses(mn, "s") THEN 2 ELSE NoReg,
                                !.t = IF Uses(mn, "t") THEN 3 ELSE NoReg, !.imm = v, !.imm2 = CHOOSE w \in Imm2Vals(mn) : TRUE] :
                     v \in (IF HasImm(mn) THEN OutVals(mn) ELSE {})}
\* printed lines of a mnemonic: <<mn, ops, sym, pc>>
Places == {33554432, 33554433, 33554434, 33554435}
Tok(kind, fld, p, v, w) ==
    CASE kind \in {"a", "f", "b"} -> <<kind, (CASE fld = "r" -> p[1] [] fld = "s" -> p[2] [] fld = "t" -> p[3]), "">>
      [] kind = "i" -> <<"i", IF fld = "j" THEN w ELSE v, "">>
      [] kind = "l" -> <<"l", 0, "L_t">>
KindTuple(ks) ==
    CASE ks = "" -> <<>> [] ks = "aaa" -> <<"a", "a", "a">> [] ks = "bbb" -> <<"b", "b", "b">> [] ks = "fff" -> <<"f", "f", "f">>
      [] ks = "aab" -> <<"a", "a", "b">> [] ks = "bff" -> <<"b", "f", "f">> [] ks = "ffa" -> <<"f", "f", "a">> [] ks = "ffb" -> <<"f", "f", "b">>
      [] ks = "aa" -> <<"a", "a">> [] ks = "bb" -> <<"b", "b">> [] ks = "ff" -> <<"f", "f">> [] ks = "af" -> <<"a", "f">> [] ks = "fa" -> <<"f", "a">>
      [] ks = "a" -> <<"a">> [] ks = "i" -> <<"i">> [] ks = "ii" -> <<"i", "i">> [] ks = "ai" -> <<"a", "i">> [] ks = "aai" -> <<"a", "a", "i">>
      [] ks = "fai" -> <<"f", "a", "i">> [] ks = "afi" -> <<"a", "f", "i">> [] ks = "aaii" -> <<"a", "a", "i", "i">> [] ks = "al" -> <<"a", "l">>
      [] ks = "l" -> <<"l">> [] ks = "aal" -> <<"a", "a", "l">> [] ks = "ail" -> <<"a", "i", "l">> [] ks = "bl" -> <<"b", "l">>
LinesOf(mn) ==
    LET ks == KindTuple(Row(mn)[2])  fs == FieldSeq(Row(mn)[3])  lab == Uses(mn, "l") IN
    {<<mn, [k \in 1..Len(ks) |-> Tok(ks[k], fs[k], p, v, w)], IF lab THEN LabelBase(mn, pc) + v ELSE 0, pc>> :
        p \in (IF Uses(mn, "r") THEN RegS ELSE {0}) \X (IF Uses(mn, "s") THEN RegS ELSE {0}) \X (IF Uses(mn, "t") THEN RegS ELSE {0}),
        v \in (IF HasImm(mn) THEN InVals(mn) ELSE {0}), w \in Imm2Vals(mn), pc \in (IF lab THEN Places ELSE {0})}

Init == fam = "none" /\ pick = None
PickFam == fam = "none" /\ fam' \in Fams /\ pick' = None
PickFmt == fam = "fmt" /\ pick = None /\ UNCHANGED fam /\ \E f \in Formats : pick' = [k |-> "fmt", f |-> f]
\* opcode classes: op0, op1, op2, r and the m / n bits select the format; s / t (outside m, n) do not
PickClass == fam = "fmt" /\ pick = None /\ UNCHANGED fam
             /\ \E op0 \in 0..13, hi \in ClsHi : pick' = [k |-> "cls-", op0 |-> op0, hi |-> hi]
PickClassB == fam = "fmt" /\ pick.k = "cls-" /\ UNCHANGED fam
              /\ \E r \in (IF Deep THEN {0, 1, 2, 8, 15} ELSE {0, 1}), t \in (IF Deep THEN {0, 1, 4, 5, 7, 8, 9, 12, 13, 15} ELSE {0, 1, 4, 5, 8, 9, 12, 13}), s \in {0} :
                    pick' = [k |-> "cls", w |-> (IF pick.op0 >= 8 THEN (pick.hi % 16) * 4096 ELSE pick.hi * 65536 + r * 4096)
                                                + s * 256 + t * 16 + pick.op0, narrow |-> pick.op0 >= 8]
PickW24 == fam = "w24" /\ pick = None /\ UNCHANGED fam /\ \E op0 \in 0..7 : \E hi \in HiOf(op0) : pick' = [k |-> "w24-", hi |-> hi, op0 |-> op0]
PickW24b == fam = "w24" /\ pick.k = "w24-" /\ UNCHANGED fam
            /\ \E r \in 0..15, st \in STPairs : pick' = [k |-> "w24", w |-> pick.hi * 65536 + r * 4096 + st[1] * 256 + st[2] * 16 + pick.op0]
PickW16 == fam = "w16" /\ pick = None /\ UNCHANGED fam
           /\ \E hi \in (IF Deep THEN 0..255 ELSE {h \in 0..255 : h % 16 \in {0, 1, 15}}) : pick' = [k |-> "w16-", hi |-> hi]
PickW16b == fam = "w16" /\ pick.k = "w16-" /\ UNCHANGED fam /\ \E lo \in 0..255 : pick' = [k |-> "w16", h |-> 256 * pick.hi + lo]
PickMn(f, tag) == fam = f /\ pick = None /\ UNCHANGED fam /\ \E mn \in Mnemonics : pick' = [k |-> tag, mn |-> mn]
PickRecMn == PickMn("rec", "rec-")
PickRec == fam = "rec" /\ pick.k = "rec-" /\ UNCHANGED fam /\ \E i \in RecsOf(pick.mn) : pick' = [k |-> "rec", i |-> i]
PickBadRec == fam = "rec" /\ pick.k = "rec-" /\ UNCHANGED fam /\ \E i \in BadRecsOf(pick.mn) : pick' = [k |-> "badrec", i |-> i]
PickLnMn == PickMn("ln", "ln-")
PickLn == fam = "ln" /\ pick.k = "ln-" /\ UNCHANGED fam /\ \E ln \in LinesOf(pick.mn) : pick' = [k |-> "ln", ln |-> ln]
PickTab == PickMn("tab", "tab")
Next == PickFam \/ PickFmt \/ PickClass \/ PickClassB \/ PickW24 \/ PickW24b \/ PickW16 \/ PickW16b \/ PickRecMn \/ PickRec
        \/ PickBadRec \/ PickLnMn \/ PickLn \/ PickTab

Bytes3(w) == <<w % 256, (w \div 256) % 256, w \div 65536>>
Bytes2(h) == <<h % 256, h \div 256>>
RegsOK(d) == Reads(d) \subseteq 0..15 /\ Writes(d) \subseteq 0..15 /\ ImplicitR(d) \subseteq Reads(d) \cup Writes(d) \cup {0}
-----------------------------------------------------------------------------
LawFormatsTile == pick.k = "fmt" => FieldsTile(pick.f)
LawOneFormat == pick.k = "cls" => Cardinality(MatchesX(pick.w, pick.narrow)) = 1
LawSplitJoin == pick.k = "cls" => \A f \in MatchesX(pick.w, pick.narrow) : Join(f, Split(f, pick.w)) = pick.w
LawReencode24 == pick.k = "w24" => LET d == Decode24(pick.w) IN
    /\ d.len = 3
    /\ Valid(d) => (WF(d) /\ Encode(d) = Bytes3(pick.w) /\ Decode(Encode(d)) = d /\ RegsOK(d))
LawReencode16 == pick.k = "w16" => LET d == Decode16(pick.h) IN
    /\ d.len = 2
    /\ (Op0(pick.h) \in 0..7) = (d.mn = "length")
    /\ Valid(d) => (WF(d) /\ Encode(d) = Bytes2(pick.h) /\ Decode(Encode(d)) = d /\ RegsOK(d))
LawDecodeEncode ==
    /\ pick.k = "rec" => (WF(pick.i) /\ Len(Encode(pick.i)) = pick.i.len /\ Decode(Encode(pick.i)) = pick.i)
    /\ pick.k = "badrec" => ~WF(pick.i)
LawLine == pick.k = "ln" => LET a == Asm(pick.ln[1], pick.ln[2], pick.ln[3], pick.ln[4]) IN
    /\ a # NoAsm /\ WF(a)
    /\ Decode(Encode(a)) = a
LawSyntaxTable == pick.k = "tab" =>
    /\ Cardinality({x \in Syntax : x[1] = pick.mn}) = 1
    /\ Len(KindTuple(Row(pick.mn)[2])) = Len(FieldSeq(Row(pick.mn)[3]))
    /\ KindSeq(Row(pick.mn)[2]) \in {"", "g", "gg", "ggg", "i", "ii", "gi", "ggi", "ggii", "gl", "l", "ggl", "gil"}
    /\ Row(pick.mn)[4] \in {"", "r", "s", "t", "0"}
    /\ (Narrow(pick.mn) <=> X(pick.mn).len = 2)
=============================================================================
