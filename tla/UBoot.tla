-------------------------------- MODULE UBoot --------------------------------
(* The legacy U-Boot image ("uImage"), written from U-Boot's include/image.h  *)
(* (struct legacy_img_hdr) and tools/default_image.c / boot/image.c:          *)
(*                                                                            *)
(*   offset size field                                                        *)
(*      0    4   ih_magic   0x27051956                                        *)
(*      4    4   ih_hcrc    CRC-32 of the 64 header bytes with ih_hcrc = 0    *)
(*      8    4   ih_time    creation time stamp (seconds)                     *)
(*     12    4   ih_size    size of the image data that follows the header    *)
(*     16    4   ih_load    load address                                      *)
(*     20    4   ih_ep      entry point address                               *)
(*     24    4   ih_dcrc    CRC-32 of the image data                          *)
(*     28    1   ih_os      operating system code   (IH_OS_x)                 *)
(*     29    1   ih_arch    CPU architecture code   (IH_ARCH_x)               *)
(*     30    1   ih_type    image type code         (IH_TYPE_x)               *)
(*     31    1   ih_comp    compression type code   (IH_COMP_x)               *)
(*     32   32   ih_name    image name, NUL padded (IH_NMLEN = 32)            *)
(*   "All data in network byte order (aka natural aka bigendian)."            *)
(* A reader (image_check_magic / image_check_hcrc / image_check_dcrc)         *)
(* accepts the file iff magic and both check sums hold.                       *)
EXTENDS FmtBytes, Crc32

UbHdrLen == 64
UbMagic == <<39, 5, 25, 86>>                      \* 27 05 19 56
\* IH_OS / IH_ARCH / IH_TYPE / IH_COMP codes of include/image.h, by name
UbOsCode == [INVALID |-> 0, OPENBSD |-> 1, NETBSD |-> 2, FREEBSD |-> 3, BSD4_4 |-> 4, LINUX |-> 5]
UbArchCode == [INVALID |-> 0, ALPHA |-> 1, ARM |-> 2, I386 |-> 3, IA64 |-> 4, MIPS |-> 5, MIPS64 |-> 6,
               PPC |-> 7, S390 |-> 8, SH |-> 9, SPARC |-> 10, SPARC64 |-> 11, M68K |-> 12, NIOS |-> 13,
               MICROBLAZE |-> 14, NIOS2 |-> 15, BLACKFIN |-> 16, AVR32 |-> 17, ST200 |-> 18,
               SANDBOX |-> 19, NDS32 |-> 20, OPENRISC |-> 21, ARM64 |-> 22, ARC |-> 23, X86_64 |-> 24,
               XTENSA |-> 25]
UbTypeInvalid == 0   UbTypeStandalone == 1   UbTypeKernel == 2   UbTypeLast == 43
UbCompNone == 0

UbHeader(F) ==
    IF Len(F) < UbHdrLen
    THEN [ok |-> FALSE, magic |-> <<>>, hcrc |-> <<>>, time |-> <<>>, size |-> <<>>, load |-> <<>>, ep |-> <<>>,
          dcrc |-> <<>>, os |-> -1, arch |-> -1, type |-> -1, comp |-> -1, name |-> <<>>]
    ELSE [ok |-> TRUE, magic |-> SubSeq(F, 1, 4), hcrc |-> SubSeq(F, 5, 8), time |-> SubSeq(F, 9, 12),
          size |-> SubSeq(F, 13, 16), load |-> SubSeq(F, 17, 20), ep |-> SubSeq(F, 21, 24),
          dcrc |-> SubSeq(F, 25, 28), os |-> F[29], arch |-> F[30], type |-> F[31], comp |-> F[32],
          name |-> SubSeq(F, 33, 64)]
\* the header bytes with the check sum field cleared
UbHeaderForCrc(F) == Mk([k \in 1..UbHdrLen |-> IF k \in 5..8 THEN 0 ELSE F[k]])
UbPayload(F) == SubSeq(F, UbHdrLen + 1, Len(F))
UbSizeNum(H) == FNum(<<H.size[4], H.size[3], H.size[2], H.size[1]>>)

\* what U-Boot's checks accept
UbHeaderCrcOk(F) == Len(F) >= UbHdrLen /\ SubSeq(F, 5, 8) = BE4(Crc(UbHeaderForCrc(F)))
UbDataCrcOk(F) == LET H == UbHeader(F) IN
    H.ok /\ FIn(F, UbHdrLen, UbSizeNum(H)) /\ H.dcrc = BE4(CrcOfRange(F, UbHdrLen + 1, UbHdrLen + UbSizeNum(H)))
UbAccepts(F) == Len(F) >= UbHdrLen /\ SubSeq(F, 1, 4) = UbMagic /\ UbHeaderCrcOk(F) /\ UbDataCrcOk(F)

\* name field: the name's characters (7-bit), NUL padded to 32 bytes
UbNameField(nm) == Mk([k \in 1..32 |-> IF k <= Len(nm) THEN nm[k] ELSE 0])

\* reference encoder (used by the model check of this module)
UbEncode(data, nm, load, ep, tm, os, arch, type, comp) ==
    LET h0 == UbMagic \o <<0, 0, 0, 0>> \o BE4(tm) \o BE4(WFromNat(Len(data), 4)) \o BE4(load) \o BE4(ep)
              \o BE4(Crc(data)) \o <<os, arch, type, comp>> \o UbNameField(nm)
        hc == BE4(Crc(h0))
    IN SubSeq(h0, 1, 4) \o hc \o SubSeq(h0, 9, 64) \o data

\* the clauses, for an image F written for content c =
\*   [data, name (codes), load, ep, time (4 limbs each, LSB first), os, arch (names)]
UbFailures(F, c) ==
    LET H == UbHeader(F) IN
    IF ~H.ok THEN {"UbLength"}
    ELSE Fails("UbLength", Len(F) = UbHdrLen + Len(c.data))
         \cup Fails("UbMagic", H.magic = UbMagic)
         \cup Fails("UbSize", H.size = BE4(WFromNat(Len(c.data), 4)))
         \cup Fails("UbLoad", H.load = BE4(c.load))
         \cup Fails("UbEntry", H.ep = BE4(c.ep))
         \cup Fails("UbTime", H.time = BE4(c.time))
         \cup Fails("UbPayload", UbPayload(F) = c.data)
         \cup Fails("UbDataCrc", UbDataCrcOk(F))
         \cup Fails("UbHeaderCrc", UbHeaderCrcOk(F))
         \cup Fails("UbOs", c.os \in DOMAIN UbOsCode /\ H.os = UbOsCode[c.os])
         \cup Fails("UbArch", c.arch \in DOMAIN UbArchCode /\ H.arch = UbArchCode[c.arch])
         \cup Fails("UbType", H.type \in (UbTypeInvalid + 1)..UbTypeLast)
         \cup Fails("UbComp", H.comp = UbCompNone)
         \cup Fails("UbName", H.name = UbNameField(c.name))
UbClauses == {"UbLength", "UbMagic", "UbSize", "UbLoad", "UbEntry", "UbTime", "UbPayload", "UbDataCrc",
              "UbHeaderCrc", "UbOs", "UbArch", "UbType", "UbComp", "UbName"}
=============================================================================
