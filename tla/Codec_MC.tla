------------------------------ MODULE Codec_MC ------------------------------
(* Idiom M for the only non-trivial definition of Codec.tla: SameBag is      *)
(* multiset equality, i.e. holds exactly for permutations (checked for all   *)
(* pairs of sequences of length <= MaxLen over a 3-element alphabet), and    *)
(* the law's clauses are independent (each can fail alone).                  *)
EXTENDS Codec, TLC
CONSTANT MaxLen
Alpha == {<<"t", "s", 0, "0">>, <<"t", "s", 4, "0">>, <<"u", "s", 0, "-4">>}
Seqs == UNION {[1..n -> Alpha] : n \in 0..MaxLen}
VARIABLES a, b
Init == a \in Seqs /\ b \in Seqs
Next == UNCHANGED <<a, b>>
IsPerm(A, B) == Len(A) = Len(B) /\ \E p \in [1..Len(A) -> 1..Len(A)] :
                   (\A x, y \in 1..Len(A) : x # y => p[x] # p[y]) /\ \A k \in 1..Len(A) : A[k] = B[p[k]]
LawBag == SameBag(a, b) <=> IsPerm(a, b)
LawSym == SameBag(a, b) <=> SameBag(b, a)
Obs(ok, by, rl) == [direct |-> [bytes |-> <<1, 2>>, relocs |-> a], asm |-> [ok |-> ok, exc |-> "", bytes |-> by, relocs |-> rl]]
LawClauses == /\ Failing(Obs(TRUE, <<1, 2>>, a)) = {}
              /\ Failing(Obs(FALSE, <<>>, <<>>)) = {"rejected"}
              /\ Failing(Obs(TRUE, <<1, 3>>, a)) = {"bytes"}
              /\ Failing(Obs(TRUE, <<1, 2, 0>>, a)) = {"bytes"}
              /\ Failing(Obs(TRUE, <<1, 2>>, b)) = (IF IsPerm(a, b) THEN {} ELSE {"relocs"})
=============================================================================
