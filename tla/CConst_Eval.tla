---------------------------- MODULE CConst_Eval ----------------------------
(* Idioms E + G: one record per integer constant expression that the        *)
(* harness gave to ppci's C front-end.                                       *)
(*   rec = [key, site, dm, dest, e, enums,                                   *)
(*          out : [ok : BOOLEAN, diag : BOOLEAN, exc : STRING,               *)
(*                 bytes : Seq(0..255), amount : Int]]                       *)
(* out is what was observed:  ok = the front-end produced IR (bytes = the    *)
(* Variable.value image of the initialised object, amount = Variable.amount  *)
(* for array bounds);  ~ok /\ diag = it stopped with a CompilerError;        *)
(* ~ok /\ ~diag = it stopped with any other exception (exc = class name).    *)
(*                                                                           *)
(* Classify evaluates the record with CConst!Expect (one action per site     *)
(* family), the second step files it under its status (Compare /             *)
(* SkipUndefined / SkipNotValid), so TLC's action coverage gives the number  *)
(* of compared and skipped records.  For the behavioural sites (case labels, *)
(* bit-field widths) Classify writes the probes (selector / stored words     *)
(* with the results C requires) to OBS_DIR/<i>.json; the harness runs the IR *)
(* that ppci produced on exactly these words under IR.tla (CConst_IR).       *)
EXTENDS CConst, Json, IOUtils
Recs == JsonDeserialize(IOEnv.TRACE_FILE)
NChunks == 64
VARIABLES chunk, i, exp, filed
vars == <<chunk, i, exp, filed>>
None == [st |-> "", why |-> "", fl |-> {}, bytes |-> <<>>, amount |-> 0, probes |-> <<>>]
Init == chunk = 0 /\ i = 0 /\ exp = None /\ filed = ""
PickChunk == chunk = 0 /\ chunk' \in 1..NChunks /\ UNCHANGED <<i, exp, filed>>
Mine(sites) == {k \in 1..Len(Recs) : k % NChunks = chunk - 1 /\ Recs[k].site \in sites}
Classify(sites) == /\ chunk > 0 /\ i = 0
                   /\ \E k \in Mine(sites) : i' = k /\ exp' = Expect(Recs[k])
                   /\ UNCHANGED <<chunk, filed>>
ClassifyInitialiser == Classify({"init", "static", "lstatic", "element", "member"})
ClassifyEnumerator  == Classify({"enum"})
ClassifyArrayBound  == Classify({"array"})
ProbePath(k) == IOEnv.OBS_DIR \o "/" \o ToString(k) \o ".json"
ClassifyBehaviour(site) ==
    /\ chunk > 0 /\ i = 0
    /\ \E k \in Mine({site}) :
          LET x == Expect(Recs[k]) IN
          /\ i' = k /\ exp' = x
          /\ (x.st = "ok" /\ Recs[k].out.ok) => JsonSerialize(ProbePath(k), [i |-> k, probes |-> x.probes])
    /\ UNCHANGED <<chunk, filed>>
ClassifyCaseLabel == ClassifyBehaviour("case")
ClassifyBitFieldWidth == ClassifyBehaviour("bitfield")
File(st, name) == i > 0 /\ filed = "" /\ exp.st = st /\ filed' = name /\ UNCHANGED <<chunk, i, exp>>
Compare == File("ok", "compared")
SkipUndefined == File("undefined", "undefined")
SkipNotValid == File("skip", "notvalid")
Next == \/ PickChunk \/ ClassifyInitialiser \/ ClassifyEnumerator \/ ClassifyArrayBound
        \/ ClassifyCaseLabel \/ ClassifyBitFieldWidth \/ Compare \/ SkipUndefined \/ SkipNotValid

Judged == i > 0 /\ exp.st = "ok"
Out == Recs[i].out
\* "A constant that does not fit its destination type is converted, not rejected with an internal error";
\* more generally no defined constant expression stops the front-end with an internal exception
NoInternalError == Judged => (Out.ok \/ Out.diag)
\* a defined integer constant expression in a valid program is accepted
Accepted == Judged => (Out.ok \/ ~Out.diag)
\* "evaluated exactly as C prescribes, and the value is converted to the destination type"
ValueAsPrescribed ==
    (Judged /\ Out.ok) =>
        CASE Recs[i].site \in DataSites -> Out.bytes = exp.bytes
          [] Recs[i].site = "array"     -> Out.amount = exp.amount
          [] OTHER -> TRUE            \* case / bitfield: judged by CConst_IR on the probes
=============================================================================
