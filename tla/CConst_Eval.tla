---------------------------- MODULE CConst_Eval ----------------------------
(* Idioms E + G: one record per integer constant expression that the        *)
(* harness gave to ppci's C front-end.                                       *)
(*   rec = [key, site, dm, dest, e, enums, members,                          *)
(*          out : [ok : BOOLEAN, diag : BOOLEAN, exc : STRING,               *)
(*                 bytes : Seq(0..255), amount : Int]]                       *)
(* out is what was observed:  ok = the front-end produced IR (bytes = the    *)
(* Variable.value image of the initialised object, amount = Variable.amount  *)
(* for array bounds);  ~ok /\ diag = it stopped with a CompilerError;        *)
(* ~ok /\ ~diag = it stopped with any other exception (exc = class name).    *)
(*                                                                           *)
(* Classify* (one action per site family) evaluates the record with         *)
(* CConst!Expect, evaluates the three clauses of the property on it and      *)
(* writes TLC's judgement to OBS_DIR/<i>.json: status (ok / undefined /      *)
(* skip), reason, the notes, the names of the violated clauses, and for the  *)
(* behavioural sites (case labels, bit-field widths) the probes (selector /  *)
(* stored words with the results C requires).  The harness reports the       *)
(* violated clauses, counts the skipped records and runs the IR that ppci    *)
(* produced on exactly the probe words under IR.tla (CConst_IR).             *)
(* (The clauses are not cfg invariants: on a tree with a broken evaluator    *)
(* most records fail, and TLC rebuilds the trace of every invariant error by *)
(* regenerating successor states, i.e. by re-evaluating records - minutes    *)
(* for thousands of failures.  Judging inside the action costs nothing.)     *)
EXTENDS CConst, Json, IOUtils, SequencesExt
Recs == JsonDeserialize(IOEnv.TRACE_FILE)
NChunks == (Len(Recs) \div 2) + 1
VARIABLES chunk, i, exp
vars == <<chunk, i, exp>>
None == [st |-> "", why |-> "", fl |-> {}, bytes |-> <<>>, amount |-> 0, probes |-> <<>>]
(* ---- the clauses of C27, over a record r and its expectation x ------------- *)
Judged(x) == x.st = "ok"
\* "A constant that does not fit its destination type is converted, not rejected with an internal error";
\* more generally no defined constant expression stops the front-end with an internal exception
NoInternalError(r, x) == Judged(x) => (r.out.ok \/ r.out.diag)
\* a defined integer constant expression in a valid program is accepted
Accepted(r, x) == Judged(x) => (r.out.ok \/ ~r.out.diag)
\* "evaluated exactly as C prescribes, and the value is converted to the destination type"
ValueAsPrescribed(r, x) ==
    (Judged(x) /\ r.out.ok) =>
        CASE r.site \in DataSites -> r.out.bytes = x.bytes
          [] r.site = "array"     -> r.out.amount = x.amount
          [] OTHER -> TRUE            \* case / bitfield / bfinit: judged by CConst_IR on the probes
Violated(r, x) == (IF NoInternalError(r, x) THEN <<>> ELSE <<"NoInternalError">>)
                  \o (IF Accepted(r, x) THEN <<>> ELSE <<"Accepted">>)
                  \o (IF ValueAsPrescribed(r, x) THEN <<>> ELSE <<"ValueAsPrescribed">>)
Init == chunk = 0 /\ i = 0 /\ exp = None
PickChunk == chunk = 0 /\ chunk' \in 1..NChunks /\ UNCHANGED <<i, exp>>
\* the records k with k % NChunks = chunk - 1 (at most three, as NChunks > Len(Recs) / 2)
Mine(sites) == {k \in {chunk - 1, chunk - 1 + NChunks, chunk - 1 + 2 * NChunks} :
                   k >= 1 /\ k <= Len(Recs) /\ Recs[k].site \in sites}
ClassPath(k) == IOEnv.OBS_DIR \o "/" \o ToString(k) \o ".json"
Classify(sites) ==
    /\ chunk > 0 /\ i = 0
    /\ \E k \in Mine(sites) :
          /\ i' = k /\ exp' = Expect(Recs[k])          \* evaluated once; below only the new value is read
          /\ JsonSerialize(ClassPath(k), [i |-> k, st |-> exp'.st, why |-> exp'.why, fl |-> SetToSeq(exp'.fl),
                                          probes |-> exp'.probes, bytes |-> exp'.bytes, amount |-> exp'.amount,
                                          viol |-> Violated(Recs[k], exp')])
    /\ UNCHANGED chunk
ClassifyInitialiser == Classify({"init", "static", "lstatic", "element", "member"})
ClassifyEnumerator  == Classify({"enum"})
ClassifyArrayBound  == Classify({"array"})
ClassifyCaseLabel == Classify({"case"})
ClassifyBitFieldWidth == Classify({"bitfield"})
ClassifyBitFieldInitialiser == Classify({"bfinit"})
Next == \/ PickChunk \/ ClassifyInitialiser \/ ClassifyEnumerator \/ ClassifyArrayBound
        \/ ClassifyCaseLabel \/ ClassifyBitFieldWidth \/ ClassifyBitFieldInitialiser

TypeOK == /\ exp.st \in {"", "ok", "undefined", "skip"}
          /\ (i > 0 => exp.st # "")
=============================================================================
