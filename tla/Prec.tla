-------------------------------- MODULE Prec --------------------------------
(* X09 -- C expression syntax: operator table, a printer that puts parentheses   *)
(* exactly where the C grammar (ISO C 6.5.1 .. 6.5.17) needs them, and a reader    *)
(* (recursive descent over the same grammar).  The law of the pair is              *)
(*        Parse(PrintMin(t)) = t        for every expression tree t,                  *)
(* and it stays true when more parentheses are written (PrintFull) and becomes     *)
(* false when any written pair is taken away (Minimal).                            *)
(*                                                                                 *)
(* Trees (records; `k` is the node kind)                                           *)
(*   [k |-> "id",  n]            identifier          [k |-> "num", n]   constant    *)
(*   [k |-> "bin", op, a, b]     binary operators, assignments and the comma       *)
(*   [k |-> "cond", a, b, c]     a ? b : c                                         *)
(*   [k |-> "pre", op, a]        - + ~ ! * & ++ -- sizeof    (prefix)              *)
(*   [k |-> "post", op, a]       ++ --                       (postfix)             *)
(*   [k |-> "idx", a, b]         a[b]                                              *)
(*   [k |-> "call", a, args]     a(args...)                                        *)
(*   [k |-> "mem", op, a, f]     a.f   a->f                                        *)
(*   [k |-> "cast", ty, a]       (ty) a        ty = the tokens of the type name    *)
(* Token strings are sequences of strings.                                         *)
EXTENDS Naturals, Sequences, FiniteSets, TLC

Ids       == {"a", "b", "c", "d", "p", "q", "s", "g", "h"}
Nums      == {"1", "2", "3"}
Fields    == {"f"}
TypeWords == {"char", "int", "long", "short", "unsigned", "signed"}   \* a type name: type words, then stars

AssignOps == {"=", "+=", "-=", "*=", "/=", "%=", "<<=", ">>=", "&=", "^=", "|="}
MulOps    == {"*", "/", "%"}
AddOps    == {"+", "-"}
ShiftOps  == {"<<", ">>"}
RelOps    == {"<", "<=", ">", ">="}
EqOps     == {"==", "!="}
PlainBinOps == MulOps \cup AddOps \cup ShiftOps \cup RelOps \cup EqOps \cup {"&", "^", "|", "&&", "||"}
PreOps    == {"-", "+", "~", "!", "*", "&", "++", "--", "sizeof"}
PostOps   == {"++", "--"}

\* syntactic levels: the higher, the tighter (6.5.1 primary ... 6.5.17 comma)
LPrimary == 17  LPostfix == 16  LUnary == 15  LCast == 14
LLogOr == 4     LCond == 3      LAssign == 2  LComma == 1

\* precedence of the left-associative binary operators (0: not one of them)
PrecOf(op) == CASE op \in MulOps   -> 13
                [] op \in AddOps   -> 12
                [] op \in ShiftOps -> 11
                [] op \in RelOps   -> 10
                [] op \in EqOps    -> 9
                [] op = "&"        -> 8
                [] op = "^"        -> 7
                [] op = "|"        -> 6
                [] op = "&&"       -> 5
                [] op = "||"       -> 4
                [] OTHER           -> 0

Level(t) == CASE t.k \in {"id", "num"}                 -> LPrimary
              [] t.k \in {"post", "idx", "call", "mem"} -> LPostfix
              [] t.k = "pre"                            -> LUnary
              [] t.k = "cast"                           -> LCast
              [] t.k = "cond"                           -> LCond
              [] t.k = "bin" -> (IF t.op \in AssignOps THEN LAssign ELSE IF t.op = "," THEN LComma ELSE PrecOf(t.op))

(* ---------------------------------------------------------------- printer *)
Paren(s) == <<"(">> \o s \o <<")">>

\* Pr(t, need, full): the tokens of t in a position where the grammar asks for an expression of level
\* >= need; full = TRUE writes parentheses around every operator node (what a cautious printer may do)
RECURSIVE Pr(_, _, _), PrArgs(_, _, _)
PrArgs(args, k, full) ==
    IF k > Len(args) THEN <<>>
    ELSE (IF k > 1 THEN <<",">> ELSE <<>>) \o Pr(args[k], LAssign, full) \o PrArgs(args, k + 1, full)
Pr(t, need, full) ==
    LET body ==
        CASE t.k \in {"id", "num"} -> <<t.n>>
          [] t.k = "bin" ->
               IF t.op \in AssignOps THEN Pr(t.a, LUnary, full) \o <<t.op>> \o Pr(t.b, LAssign, full)   \* 6.5.16: unary-expression = assignment-expression
               ELSE IF t.op = "," THEN Pr(t.a, LComma, full) \o <<",">> \o Pr(t.b, LAssign, full)
               ELSE Pr(t.a, PrecOf(t.op), full) \o <<t.op>> \o Pr(t.b, PrecOf(t.op) + 1, full)             \* left associative
          [] t.k = "cond" -> Pr(t.a, LLogOr, full) \o <<"?">> \o Pr(t.b, LComma, full) \o <<":">> \o Pr(t.c, LCond, full)
          [] t.k = "pre"  -> <<t.op>> \o Pr(t.a, IF t.op \in {"++", "--", "sizeof"} THEN LUnary ELSE LCast, full)
          [] t.k = "cast" -> <<"(">> \o t.ty \o <<")">> \o Pr(t.a, LCast, full)
          [] t.k = "post" -> Pr(t.a, LPostfix, full) \o <<t.op>>
          [] t.k = "idx"  -> Pr(t.a, LPostfix, full) \o <<"[">> \o Pr(t.b, LComma, full) \o <<"]">>
          [] t.k = "call" -> Pr(t.a, LPostfix, full) \o <<"(">> \o PrArgs(t.args, 1, full) \o <<")">>
          [] t.k = "mem"  -> Pr(t.a, LPostfix, full) \o <<t.op, t.f>>
    IN IF Level(t) < need \/ (full /\ Level(t) < LPrimary) THEN Paren(body) ELSE body

PrintMin(t)     == Pr(t, LComma, FALSE)
PrintFull(t) == Pr(t, LComma, TRUE)

(* ---------------------------------------------------------------- reader *)
Hd(s) == IF s = <<>> THEN "$" ELSE Head(s)
Tl(s) == IF s = <<>> THEN <<>> ELSE Tail(s)
Err   == [k |-> "err"]
Fail  == [ok |-> FALSE, t |-> Err, rest |-> <<>>, lvl |-> 0]
Ok(t, rest, lvl) == [ok |-> TRUE, t |-> t, rest |-> rest, lvl |-> lvl]

\* number of tokens of the type name at the start of s: type words, then stars
RECURSIVE TypeLen(_, _)
TypeLen(s, stars) == IF s = <<>> THEN 0
                     ELSE IF Head(s) = "*" THEN 1 + TypeLen(Tail(s), 1)
                     ELSE IF Head(s) \in TypeWords /\ stars = 0 THEN 1 + TypeLen(Tail(s), 0)
                     ELSE 0

RECURSIVE PPrimary(_), PPostfix(_), PArgs(_, _), PUnary(_), PCast(_), PBin(_, _), PBinLoop(_, _),
          PCond(_), PAssign(_), PComma(_), PCommaLoop(_)
PPrimary(s) ==
    IF Hd(s) \in Ids THEN Ok([k |-> "id", n |-> Hd(s)], Tl(s), LPrimary)
    ELSE IF Hd(s) \in Nums THEN Ok([k |-> "num", n |-> Hd(s)], Tl(s), LPrimary)
    ELSE IF Hd(s) = "(" THEN
        LET r == PComma(Tl(s)) IN
        IF r.ok /\ Hd(r.rest) = ")" THEN Ok(r.t, Tl(r.rest), LPrimary) ELSE Fail
    ELSE Fail
PArgs(s, acc) ==
    IF Hd(s) = ")" /\ acc = <<>> THEN Ok(acc, Tl(s), 0)
    ELSE LET e == PAssign(s) IN
         IF ~e.ok THEN Fail
         ELSE IF Hd(e.rest) = "," THEN PArgs(Tl(e.rest), Append(acc, e.t))
         ELSE IF Hd(e.rest) = ")" THEN Ok(Append(acc, e.t), Tl(e.rest), 0)
         ELSE Fail
PPostfix(r) ==
    IF ~r.ok THEN r
    ELSE LET h == Hd(r.rest) IN
         IF h \in PostOps THEN PPostfix(Ok([k |-> "post", op |-> h, a |-> r.t], Tl(r.rest), LPostfix))
         ELSE IF h = "[" THEN
             LET e == PComma(Tl(r.rest)) IN
             IF e.ok /\ Hd(e.rest) = "]" THEN PPostfix(Ok([k |-> "idx", a |-> r.t, b |-> e.t], Tl(e.rest), LPostfix)) ELSE Fail
         ELSE IF h = "(" THEN
             LET a == PArgs(Tl(r.rest), <<>>) IN
             IF a.ok THEN PPostfix(Ok([k |-> "call", a |-> r.t, args |-> a.t], a.rest, LPostfix)) ELSE Fail
         ELSE IF h \in {".", "->"} THEN
             IF Hd(Tl(r.rest)) \in Fields
             THEN PPostfix(Ok([k |-> "mem", op |-> h, a |-> r.t, f |-> Hd(Tl(r.rest))], Tl(Tl(r.rest)), LPostfix))
             ELSE Fail
         ELSE r
PUnary(s) ==
    LET h == Hd(s) IN
    IF h \in {"++", "--", "sizeof"} THEN
        \* sizeof ( type-name ) is not part of this fragment
        IF h = "sizeof" /\ Hd(Tl(s)) = "(" /\ Hd(Tl(Tl(s))) \in TypeWords THEN Fail
        ELSE LET r == PUnary(Tl(s)) IN
             IF r.ok THEN Ok([k |-> "pre", op |-> h, a |-> r.t], r.rest, LUnary) ELSE Fail
    ELSE IF h \in {"-", "+", "~", "!", "*", "&"} THEN
        LET r == PCast(Tl(s)) IN
        IF r.ok THEN Ok([k |-> "pre", op |-> h, a |-> r.t], r.rest, LUnary) ELSE Fail
    ELSE PPostfix(PPrimary(s))
PCast(s) ==
    IF Hd(s) = "(" /\ Hd(Tl(s)) \in TypeWords THEN
        LET n == TypeLen(Tl(s), 0)
            after == SubSeq(s, n + 2, Len(s)) IN
        IF Hd(after) = ")" THEN
            LET r == PCast(Tl(after)) IN
            IF r.ok THEN Ok([k |-> "cast", ty |-> SubSeq(s, 2, n + 1), a |-> r.t], r.rest, LCast) ELSE Fail
        ELSE Fail
    ELSE PUnary(s)
PBinLoop(l, minp) ==
    IF ~l.ok THEN l
    ELSE LET h == Hd(l.rest)
             p == PrecOf(h) IN
         IF p > 0 /\ p >= minp THEN
             LET r == PBin(Tl(l.rest), p + 1) IN
             IF r.ok THEN PBinLoop(Ok([k |-> "bin", op |-> h, a |-> l.t, b |-> r.t], r.rest, p), minp) ELSE Fail
         ELSE l
PBin(s, minp) == PBinLoop(PCast(s), minp)
PCond(s) ==
    LET c == PBin(s, LLogOr) IN
    IF c.ok /\ Hd(c.rest) = "?" THEN
        LET a == PComma(Tl(c.rest)) IN
        IF a.ok /\ Hd(a.rest) = ":" THEN
            LET b == PCond(Tl(a.rest)) IN
            IF b.ok THEN Ok([k |-> "cond", a |-> c.t, b |-> a.t, c |-> b.t], b.rest, LCond) ELSE Fail
        ELSE Fail
    ELSE c
PAssign(s) ==
    LET l == PCond(s) IN
    IF l.ok /\ Hd(l.rest) \in AssignOps THEN
        IF l.lvl >= LUnary THEN
            LET r == PAssign(Tl(l.rest)) IN
            IF r.ok THEN Ok([k |-> "bin", op |-> Hd(l.rest), a |-> l.t, b |-> r.t], r.rest, LAssign) ELSE Fail
        ELSE Fail
    ELSE l
PCommaLoop(l) ==
    IF l.ok /\ Hd(l.rest) = "," THEN
        LET r == PAssign(Tl(l.rest)) IN
        IF r.ok THEN PCommaLoop(Ok([k |-> "bin", op |-> ",", a |-> l.t, b |-> r.t], r.rest, LComma)) ELSE Fail
    ELSE l
PComma(s) == PCommaLoop(PAssign(s))

Parse(s) == LET r == PComma(s) IN IF r.ok /\ r.rest = <<>> THEN r.t ELSE Err

(* ---------------------------------------------------------------- laws *)
RoundTrip(t)     == Parse(PrintMin(t)) = t
RoundTripFull(t) == Parse(PrintFull(t)) = t

\* the closing parenthesis that matches the opening one at position i
RECURSIVE MatchFrom(_, _, _)
MatchFrom(s, j, d) == IF j > Len(s) THEN 0
                      ELSE IF s[j] = "(" THEN MatchFrom(s, j + 1, d + 1)
                      ELSE IF s[j] = ")" THEN (IF d = 1 THEN j ELSE MatchFrom(s, j + 1, d - 1))
                      ELSE MatchFrom(s, j + 1, d)
Without(s, i, j) == SubSeq(s, 1, i - 1) \o SubSeq(s, i + 1, j - 1) \o SubSeq(s, j + 1, Len(s))
\* no pair of parentheses of PrintMin(t) can be left out
Minimal(t) == LET s == PrintMin(t) IN
              \A i \in {x \in 1..Len(s) : s[x] = "("} : Parse(Without(s, i, MatchFrom(s, i, 0))) # t

(* readings that the standard prescribes (written by hand from 6.5; they pin the table to C, since   *)
(* the round trip alone would hold for any self-consistent table)                                     *)
I(x) == [k |-> "id", n |-> x]
B(op, x, y) == [k |-> "bin", op |-> op, a |-> x, b |-> y]
U(op, x) == [k |-> "pre", op |-> op, a |-> x]
P(op, x) == [k |-> "post", op |-> op, a |-> x]
Known == <<
  << <<"a", "-", "b", "-", "c">>,                 B("-", B("-", I("a"), I("b")), I("c")) >>,
  << <<"a", "=", "b", "=", "c">>,                 B("=", I("a"), B("=", I("b"), I("c"))) >>,
  << <<"a", "+", "b", "*", "c">>,                 B("+", I("a"), B("*", I("b"), I("c"))) >>,
  << <<"a", "*", "b", "+", "c">>,                 B("+", B("*", I("a"), I("b")), I("c")) >>,
  << <<"a", "<<", "b", "+", "c">>,                B("<<", I("a"), B("+", I("b"), I("c"))) >>,
  << <<"a", "<", "b", "<<", "c">>,                B("<", I("a"), B("<<", I("b"), I("c"))) >>,
  << <<"a", "==", "b", "<", "c">>,                B("==", I("a"), B("<", I("b"), I("c"))) >>,
  << <<"a", "&", "b", "==", "c">>,                B("&", I("a"), B("==", I("b"), I("c"))) >>,
  << <<"a", "^", "b", "&", "c">>,                 B("^", I("a"), B("&", I("b"), I("c"))) >>,
  << <<"a", "|", "b", "^", "c">>,                 B("|", I("a"), B("^", I("b"), I("c"))) >>,
  << <<"a", "&&", "b", "|", "c">>,                B("&&", I("a"), B("|", I("b"), I("c"))) >>,
  << <<"a", "||", "b", "&&", "c">>,               B("||", I("a"), B("&&", I("b"), I("c"))) >>,
  << <<"a", "/", "b", "%", "c">>,                 B("%", B("/", I("a"), I("b")), I("c")) >>,
  << <<"a", "?", "b", ":", "c", "?", "d", ":", "a">>,
       [k |-> "cond", a |-> I("a"), b |-> I("b"), c |-> [k |-> "cond", a |-> I("c"), b |-> I("d"), c |-> I("a")]] >>,
  << <<"a", "||", "b", "?", "c", ",", "d", ":", "a">>,
       [k |-> "cond", a |-> B("||", I("a"), I("b")), b |-> B(",", I("c"), I("d")), c |-> I("a")] >>,
  << <<"a", "=", "b", "?", "c", ":", "d">>,       B("=", I("a"), [k |-> "cond", a |-> I("b"), b |-> I("c"), c |-> I("d")]) >>,
  << <<"a", "=", "b", ",", "c">>,                 B(",", B("=", I("a"), I("b")), I("c")) >>,
  << <<"-", "a", "++">>,                          U("-", P("++", I("a"))) >>,
  << <<"*", "p", "++">>,                          U("*", P("++", I("p"))) >>,
  << <<"-", "a", "*", "b">>,                      B("*", U("-", I("a")), I("b")) >>,
  << <<"!", "a", "==", "b">>,                     B("==", U("!", I("a")), I("b")) >>,
  << <<"&", "s", ".", "f">>,                      U("&", [k |-> "mem", op |-> ".", a |-> I("s"), f |-> "f"]) >>,
  << <<"*", "p", "[", "a", "]">>,                 U("*", [k |-> "idx", a |-> I("p"), b |-> I("a")]) >>,
  << <<"(", "char", ")", "a", "+", "b">>,         B("+", [k |-> "cast", ty |-> <<"char">>, a |-> I("a")], I("b")) >>,
  << <<"(", "char", ")", "-", "a">>,              [k |-> "cast", ty |-> <<"char">>, a |-> U("-", I("a"))] >>,
  << <<"(", "unsigned", "long", "*", ")", "p", "+", "a">>, B("+", [k |-> "cast", ty |-> <<"unsigned", "long", "*">>, a |-> I("p")], I("a")) >>,
  << <<"sizeof", "a", "+", "b">>,                 B("+", U("sizeof", I("a")), I("b")) >>,
  << <<"a", "-", "-", "b">>,                      B("-", I("a"), U("-", I("b"))) >>,
  << <<"g", "(", "a", ",", "b", ")">>,            [k |-> "call", a |-> I("g"), args |-> <<I("a"), I("b")>>] >>,
  << <<"g", "(", "(", "a", ",", "b", ")", ")">>,  [k |-> "call", a |-> I("g"), args |-> <<B(",", I("a"), I("b"))>>] >>,
  << <<"a", "+", "b", "=", "c">>,                 Err >>,      \* the left side of = is a unary-expression
  << <<"a", "?", "b", ":", "c", "=", "d">>,       Err >>,
  << <<"++", "(", "char", ")", "a">>,             Err >>,      \* ++ takes a unary-expression, a cast is none
  << <<"a", "+">>,                                Err >>,
  << <<"(", "a">>,                                Err >> >>
KnownOK(j) == Parse(Known[j][1]) = Known[j][2]

(* ---------------------------------------------------------------- all trees with n operators *)
\* tab: [bin, pre, post: sets of operators, mem: set of operators, cond, idx, cast: BOOLEAN, call: set of arities (0..2)]
FullTable == [bin |-> PlainBinOps \cup AssignOps \cup {","}, pre |-> PreOps, post |-> PostOps, mem |-> {".", "->"},
              cond |-> TRUE, idx |-> TRUE, cast |-> TRUE, call |-> {0, 1, 2}]
\* one operator of every level and associativity
RepTable  == [bin |-> {"*", "+", "<<", "<", "==", "&", "^", "|", "&&", "||", "=", ","}, pre |-> {"-", "++", "*", "sizeof"},
              post |-> {"++"}, mem |-> {"."}, cond |-> TRUE, idx |-> TRUE, cast |-> TRUE, call |-> {1}]

Grow(TT, n, tab) ==   \* TT[j + 1] = trees with j operators, j < n; the trees with n operators
    LET S(j) == TT[j + 1]
        Pairs == {<<x, y>> \in (0..(n - 1)) \X (0..(n - 1)) : x + y = n - 1}
        Triples == {<<x, y, z>> \in (0..(n - 1)) \X (0..(n - 1)) \X (0..(n - 1)) : x + y + z = n - 1}
    IN  UNION {{[k |-> "bin", op |-> o, a |-> x, b |-> y] : o \in tab.bin, x \in S(pr[1]), y \in S(pr[2])} : pr \in Pairs}
        \cup (IF tab.cond THEN UNION {{[k |-> "cond", a |-> x, b |-> y, c |-> z] : x \in S(tr[1]), y \in S(tr[2]), z \in S(tr[3])} : tr \in Triples}
              ELSE {})
        \cup {[k |-> "pre", op |-> o, a |-> x] : o \in tab.pre, x \in S(n - 1)}
        \cup {[k |-> "post", op |-> o, a |-> x] : o \in tab.post, x \in S(n - 1)}
        \cup {[k |-> "mem", op |-> o, a |-> x, f |-> "f"] : o \in tab.mem, x \in S(n - 1)}
        \cup (IF tab.cast THEN {[k |-> "cast", ty |-> <<"char">>, a |-> x] : x \in S(n - 1)} ELSE {})
        \cup (IF tab.idx THEN UNION {{[k |-> "idx", a |-> x, b |-> y] : x \in S(pr[1]), y \in S(pr[2])} : pr \in Pairs} ELSE {})
        \cup (IF 0 \in tab.call THEN {[k |-> "call", a |-> x, args |-> <<>>] : x \in S(n - 1)} ELSE {})
        \cup (IF 1 \in tab.call THEN UNION {{[k |-> "call", a |-> x, args |-> <<y>>] : x \in S(pr[1]), y \in S(pr[2])} : pr \in Pairs} ELSE {})
        \cup (IF 2 \in tab.call THEN UNION {{[k |-> "call", a |-> x, args |-> <<y, z>>] : x \in S(tr[1]), y \in S(tr[2]), z \in S(tr[3])} : tr \in Triples}
              ELSE {})

RECURSIVE TreeSets(_, _, _)
TreeSets(n, tab, leaves) == IF n = 0 THEN <<leaves>>
                            ELSE LET TT == TreeSets(n - 1, tab, leaves) IN Append(TT, Grow(TT, n, tab))
TreesUpTo(n, tab, leaves) == LET TT == TreeSets(n, tab, leaves) IN UNION {TT[j] : j \in 1..(n + 1)}

(* ---------------------------------------------------------------- the constraints of 6.5 that ppci checks *)
\* identifiers of the replay template:  int a, b;  int *p;  struct { int f; } s, *q;  int g(int, int);  int h(void);
\* Ty(t) in {"int", "ptr", "struct", "sptr", "fn2", "fn0", "bad"};  Lv(t): t designates an object
RECURSIVE Ty(_)
Lv(t) == \/ t.k = "id" /\ t.n \in {"a", "b", "p", "s", "q"}
         \/ t.k = "pre" /\ t.op = "*" /\ Ty(t) = "int"
         \/ t.k = "idx" /\ Ty(t) = "int"
         \/ t.k = "mem" /\ Ty(t) = "int"
Ty(t) ==
    CASE t.k = "num" -> "int"
      [] t.k = "id" -> (CASE t.n \in {"a", "b"} -> "int" [] t.n = "p" -> "ptr" [] t.n = "s" -> "struct" [] t.n = "q" -> "sptr"
                          [] t.n = "g" -> "fn2" [] t.n = "h" -> "fn0" [] OTHER -> "bad")
      [] t.k = "bin" ->
           LET x == Ty(t.a)  y == Ty(t.b) IN
           IF t.op = "," THEN (IF x \in {"int", "ptr"} /\ y \in {"int", "ptr"} THEN y ELSE "bad")
           ELSE IF t.op = "=" THEN (IF Lv(t.a) /\ x = y /\ x \in {"int", "ptr"} THEN x ELSE "bad")
           ELSE IF t.op \in AssignOps THEN (IF Lv(t.a) /\ x = "int" /\ y = "int" THEN "int" ELSE "bad")
           ELSE IF t.op = "+" /\ x = "ptr" /\ y = "int" THEN "ptr"
           ELSE IF x = "int" /\ y = "int" THEN "int" ELSE "bad"
      [] t.k = "cond" -> (IF Ty(t.a) = "int" /\ Ty(t.b) = "int" /\ Ty(t.c) = "int" THEN "int" ELSE "bad")
      [] t.k = "pre" ->
           LET x == Ty(t.a) IN
           IF t.op \in {"-", "+", "~", "!"} THEN (IF x = "int" THEN "int" ELSE "bad")
           ELSE IF t.op = "*" THEN (IF x = "ptr" THEN "int" ELSE "bad")
           ELSE IF t.op = "&" THEN (IF x = "int" /\ Lv(t.a) THEN "ptr" ELSE "bad")
           ELSE IF t.op = "sizeof" THEN (IF x \in {"int", "ptr"} THEN "int" ELSE "bad")
           ELSE (IF x = "int" /\ Lv(t.a) THEN "int" ELSE "bad")
      [] t.k = "post" -> (IF Ty(t.a) = "int" /\ Lv(t.a) THEN "int" ELSE "bad")
      [] t.k = "cast" -> (IF Ty(t.a) = "int" THEN "int" ELSE "bad")
      [] t.k = "idx"  -> (IF Ty(t.a) = "ptr" /\ Ty(t.b) = "int" THEN "int" ELSE "bad")
      [] t.k = "call" -> (IF t.a = I("g") /\ Len(t.args) = 2 /\ Ty(t.args[1]) = "int" /\ Ty(t.args[2]) = "int" THEN "int"
                          ELSE IF t.a = I("h") /\ Len(t.args) = 0 THEN "int" ELSE "bad")
      [] t.k = "mem"  -> (IF t.op = "." /\ Ty(t.a) = "struct" THEN "int" ELSE IF t.op = "->" /\ Ty(t.a) = "sptr" THEN "int" ELSE "bad")
WellTyped(t) == Ty(t) \in {"int", "ptr"}

\* the replay domain: trees over the identifiers of the template that satisfy the constraints (Ty # "bad")
GenLeaves  == {I("a"), I("b"), [k |-> "num", n |-> "1"], I("p"), I("s"), I("q"), I("g"), I("h")}
GenTable   == [FullTable EXCEPT !.call = {0, 2}]
RECURSIVE GoodSets(_, _, _)
GoodSets(n, tab, leaves) == IF n = 0 THEN <<leaves>>
                            ELSE LET TT == GoodSets(n - 1, tab, leaves) IN Append(TT, {x \in Grow(TT, n, tab) : Ty(x) # "bad"})
GoodUpTo(n, tab, leaves) == LET TT == GoodSets(n, tab, leaves) IN UNION {TT[m] : m \in 1..(n + 1)}
\* a smaller replay domain: one operator per level and associativity, six identifiers
GenLeavesSmall == {I("a"), [k |-> "num", n |-> "1"], I("p"), I("s"), I("q"), I("g")}
GenRepTable    == [RepTable EXCEPT !.call = {2}, !.mem = {".", "->"}, !.pre = {"-", "++", "*", "&", "sizeof"}]
TypedTreesN(n, full) == {x \in GoodUpTo(n, IF full THEN GenTable ELSE GenRepTable, GenLeavesSmall) : WellTyped(x)}
                        \cup {x \in GoodUpTo(1, GenTable, GenLeaves) : WellTyped(x)}


(* ---------------------------------------------------------------- comparing with what ppci's reader reports *)
\* ppci's AST holds a->f as (*a).f, and marks conversions as cast nodes of its own; the replay template has no
\* operand of a character type, so every cast to a type other than char is such a conversion
RECURSIVE Norm(_), NormArgs(_, _)
NormArgs(args, k) == IF k > Len(args) THEN <<>> ELSE <<Norm(args[k])>> \o NormArgs(args, k + 1)
Norm(t) ==
    CASE t.k \in {"id", "num"} -> t
      [] t.k = "bin"  -> [k |-> "bin", op |-> t.op, a |-> Norm(t.a), b |-> Norm(t.b)]
      [] t.k = "cond" -> [k |-> "cond", a |-> Norm(t.a), b |-> Norm(t.b), c |-> Norm(t.c)]
      [] t.k = "pre"  -> [k |-> "pre", op |-> t.op, a |-> Norm(t.a)]
      [] t.k = "post" -> [k |-> "post", op |-> t.op, a |-> Norm(t.a)]
      [] t.k = "cast" -> (IF t.ty = <<"char">> THEN [k |-> "cast", ty |-> <<"char">>, a |-> Norm(t.a)] ELSE Norm(t.a))
      [] t.k = "idx"  -> [k |-> "idx", a |-> Norm(t.a), b |-> Norm(t.b)]
      [] t.k = "call" -> [k |-> "call", a |-> Norm(t.a), args |-> NormArgs(t.args, 1)]
      [] t.k = "mem"  -> (IF t.op = "->" THEN [k |-> "mem", op |-> ".", a |-> [k |-> "pre", op |-> "*", a |-> Norm(t.a)], f |-> t.f]
                          ELSE [k |-> "mem", op |-> ".", a |-> Norm(t.a), f |-> t.f])
      [] OTHER -> t
=============================================================================
