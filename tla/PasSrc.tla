-------------------------------- MODULE PasSrc --------------------------------
(* Small-step semantics of the Pascal subset that ppci.lang.pascal accepts,   *)
(* written from ISO 7185:1990 (clause numbers below), for the abstract        *)
(* programs of harness/pasgen.py (extension property X01).                    *)
(*                                                                           *)
(* Rules and the decisions taken (P1 - P10):                                  *)
(*  P1  Ordinal types (6.4.2): integer (values -maxint..maxint, maxint =     *)
(*      2^31 - 1: the `int` of both targets of this check), Boolean           *)
(*      (false < true), char (ord 0..255), enumerated types (ord 0..card-1), *)
(*      subranges of integer.  Structured types: one-dimensional arrays of    *)
(*      ordinals indexed by an integer subrange, records of ordinal fields.   *)
(*  P2  + - * on integers are the mathematical operations; it is an ERROR     *)
(*      (6.7.2.2) if the result is not in -maxint..maxint.  i div j: error   *)
(*      if j = 0, else truncation toward zero.  i mod j: error if j <= 0,    *)
(*      else the value i - k*j with 0 <= i mod j < j (never negative).       *)
(*      Errors give no verdict (status "undefined"): a processor may do       *)
(*      anything (3.1, 5.1 f).                                                *)
(*  P3  Relational operators (6.7.2.5) compare two operands of the same       *)
(*      ordinal type by ordinal number; the result is Boolean.                *)
(*  P4  not / and / or take Boolean operands (6.7.2.3).  Whether both         *)
(*      operands of and / or are evaluated when the left one decides is       *)
(*      implementation-dependent (6.7.1, 6.7.2.3 note): when the left operand *)
(*      decides and the evaluation of the right one is an error or has side   *)
(*      effects, the execution gives no verdict (status "unspec"); when it is *)
(*      free of errors and side effects the value is the same either way.     *)
(*  P5  The order of evaluation of the operands of a dyadic operator (6.7.2.1),*)
(*      of the actual parameters of a call (6.7.3, 6.8.2.3) and of the two    *)
(*      sides of an assignment (6.8.2.2) is implementation-dependent: an      *)
(*      execution in which two such evaluations interfere (one writes an      *)
(*      object or the output that the other reads or writes) gives no verdict *)
(*      ("unspec").                                                           *)
(*  P6  Variables (globals, locals, function results) are undefined until     *)
(*      assigned (6.5.1, 6.6.2 for the result); using an undefined value is   *)
(*      an error (6.7.1) -> "undefined".  Assigning a value outside the       *)
(*      range of the target type (6.8.2.2), an index outside the index type   *)
(*      (6.5.3.2), succ / pred / chr without a result (6.6.6.4), a case index *)
(*      that matches no constant (6.8.3.5) are errors -> "undefined".         *)
(*  P7  Value parameters are local variables initialised with the actual      *)
(*      value (6.6.3.2); variable parameters denote the actual variable for   *)
(*      the whole activation, the reference being established before the      *)
(*      activation (6.6.3.3): two var parameters may alias.                   *)
(*  P8  for v := e1 to e2 do S  (6.8.3.9): e1 and e2 are evaluated once,      *)
(*      before anything else; if e1 > e2 S is not executed; else v := e1; S;  *)
(*      while v <> e2: v := succ(v); S.  (downto: <, pred).  After the        *)
(*      statement v is undefined.  repeat S until c executes S at least once  *)
(*      (6.8.3.7); while c do S (6.8.3.8).                                    *)
(*  P9  case (6.8.3.5): the statement whose constant equals the index.  The   *)
(*      `else` part is the common extension that ppci's grammar accepts: it   *)
(*      is executed when no constant matches.                                 *)
(*  P10 write(f, ...) on the standard output (6.9.3): write(a, b) is          *)
(*      write(a); write(b).  The observation is the sequence of output        *)
(*      events [int, value, total width if given] / [char, value] / [ln]; the *)
(*      default field width is implementation-defined (6.9.3.1) and not part  *)
(*      of the event.  A width < 1 is an error.                               *)
(*  Out of the model (never generated): reals, strings, sets, files,          *)
(*  pointers, goto, with, nested routines, procedural parameters, variant     *)
(*  records, multi-dimensional arrays, structured value parameters, whole-    *)
(*  array assignment, read.                                                   *)
(*                                                                           *)
(* A *case* is [id, prog, fn ("" = the program block), argv : Seq(Seq(word)), *)
(* fuel].  Values are [c (class), w (4-byte two's complement word)].          *)
(* Expressions are evaluated by the recursive operator Eval; statements are   *)
(* executed small-step, one named action per statement kind, over a           *)
(* continuation stack.  All objects live in one store `mem`, keyed            *)
(* <<frame id, name>> (frame 0 = program level; <<0, "$out">> is the output), *)
(* so that variable parameters can refer to objects of any live activation.   *)
(* A function call met inside an expression suspends the statement: the       *)
(* callee runs in a new frame, its outcome is appended to the caller's `pend` *)
(* list and the statement is evaluated again from the store in which it       *)
(* began (`snap`), replaying completed calls from `pend` (as in C3Src.tla).   *)
EXTENDS Words, FiniteSets, TLC, Json, IOUtils

Cases == JsonDeserialize(IOEnv.TRACE_FILE)     \* sequence of cases
NChunks == 64
MaxDepth == 20

VARIABLES chunk,   \* fan-out helper (0 = not chosen yet)
          i,       \* case under execution (0 = none yet)
          av,      \* argument vector of the case under execution
          stack,   \* activation frames, top = last
          mem,     \* the store: <<frame id, name>> -> object
          nfr,     \* frame ids handed out so far
          status,  \* "idle" | "run" | "ok" | "undefined" | "unspec" | "fuel" | "stuck"
          why,     \* reason for a non-ok status
          ret,     \* result word of the outermost activation (<<>>: none)
          steps    \* transitions taken

vars == <<chunk, i, av, stack, mem, nfr, status, why, ret, steps>>

(* ======================= types and values (P1) ============================== *)
ScalarK == {"int", "sub", "bool", "char", "enum"}
IsScalarT(t) == t.k \in ScalarK
Cls(t) == CASE t.k \in {"int", "sub"} -> "int"
            [] t.k = "bool" -> "bool"
            [] t.k = "char" -> "char"
            [] t.k = "enum" -> "enum:" \o t.n
            [] OTHER -> "none"
V(c, w) == [c |-> c, w |-> w]                       \* w = <<>>: undefined
VoidV == [c |-> "void", w |-> <<>>]
W4(n) == WFromInt(n, 4)
BoolV(b) == V("bool", IF b THEN WOne(4) ELSE WZero(4))
MinW == <<0, 0, 0, 128>>                            \* -2^31: not a value of type integer
MaxIntW == <<255, 255, 255, 127>>

\* small mathematical value of a word that is not MinW
SmallInt(w) == IF IsNegW(w) THEN -WToNat(WNeg(w)) ELSE WToNat(w)

Scal(t, w) == [k |-> "s", ty |-> t, w |-> w]
ArrO(t, el) == [k |-> "a", ty |-> t, el |-> el]
RecO(t, vals) == [k |-> "r", ty |-> t, vals |-> vals]
RefO(key, j) == [k |-> "ref", key |-> key, j |-> j]   \* variable parameter: the object key (j = 0) / its component j
OutKey == <<0, "$out">>
OutO(ev) == [k |-> "o", ev |-> ev]
ResKey(fid) == <<fid, "$result">>

\* effects of an evaluation: objects read / written (P5)
NoFx == [r |-> {}, w |-> {}]
Rd(key) == [r |-> {key}, w |-> {}]
Wr(key) == [r |-> {}, w |-> {key}]
Join(f, g) == [r |-> f.r \cup g.r, w |-> f.w \cup g.w]
Conflict(f, g) == \/ f.w \cap (g.r \cup g.w) # {}
                  \/ g.w \cap (f.r \cup f.w) # {}
StripFx(f, fid) == [r |-> {q \in f.r : q[1] # fid}, w |-> {q \in f.w : q[1] # fid}]

\* results of Eval: st = "ok" (v, S, fx) | "call" (f, objs, S) | a final status (why)
Ok(v, S, fx) == [st |-> "ok", v |-> v, S |-> S, fx |-> fx]
Bad(st, reason) == [st |-> st, why |-> reason]
NeedCall(fi, objs, S) == [st |-> "call", f |-> fi, args |-> objs, S |-> S]
OkV(v) == [st |-> "ok", v |-> v]

(* ======================= assignment compatibility (6.4.6, 6.8.2.2) ========== *)
InType(v, t) == CASE t.k = "sub" -> ~WLtS(v.w, t.lo) /\ ~WLtS(t.hi, v.w)
                  [] t.k = "enum" -> ~IsNegW(v.w) /\ WToNat(v.w) < t.card
                  [] t.k = "char" -> ~IsNegW(v.w) /\ WToNat(v.w) <= 255
                  [] t.k = "bool" -> v.w \in {WZero(4), WOne(4)}
                  [] OTHER -> v.w # MinW
AssignTo(v, t) ==
    IF ~IsScalarT(t) \/ Cls(t) # v.c THEN Bad("stuck", "not assignment compatible")
    ELSE IF ~InType(v, t) THEN Bad("undefined", "value outside the range of the type")
    ELSE OkV(v)

(* ======================= operators (P2 - P4) ================================= *)
Ext(w) == WResize(w, 8, TRUE)
Low4(x) == SubSeq(x, 1, 4)
FitsInt(x) == Ext(Low4(x)) = x /\ Low4(x) # MinW
IntRes(x) == IF FitsInt(x) THEN OkV(V("int", Low4(x))) ELSE Bad("undefined", "integer result outside -maxint..maxint")
ArithOps == {"+", "-", "*", "div", "mod"}
RelOps == {"=", "<>", "<", ">", "<=", ">="}
ArithI(op, a, b) ==
    CASE op = "+" -> IntRes(WAdd(Ext(a), Ext(b)))
      [] op = "-" -> IntRes(WSub(Ext(a), Ext(b)))
      [] op = "*" -> IntRes(WMul(Ext(a), Ext(b)))
      [] op = "div" -> IF WIsZero(b) THEN Bad("undefined", "div by zero") ELSE OkV(V("int", WDiv(a, b, TRUE)))
      [] op = "mod" -> IF WIsZero(b) \/ IsNegW(b) THEN Bad("undefined", "mod with a divisor <= 0")
                       ELSE LET m == WRem(a, b, TRUE) IN OkV(V("int", IF IsNegW(m) THEN WAdd(m, b) ELSE m))
RelVal(op, a, b) ==
    CASE op = "="  -> a = b
      [] op = "<>" -> a # b
      [] op = "<"  -> WLtS(a, b)
      [] op = ">"  -> WLtS(b, a)
      [] op = "<=" -> ~WLtS(b, a)
      [] op = ">=" -> ~WLtS(a, b)
\* dyadic operators other than and / or
Dyadic(op, va, vb) ==
    IF op \in ArithOps
    THEN IF va.c # "int" \/ vb.c # "int" THEN Bad("stuck", "arithmetic on non-integers") ELSE ArithI(op, va.w, vb.w)
    ELSE IF op \in RelOps
    THEN IF va.c # vb.c \/ va.c \in {"void", "none"} THEN Bad("stuck", "comparison of different types")
         ELSE OkV(BoolV(RelVal(op, va.w, vb.w)))
    ELSE Bad("stuck", "unknown dyadic operator")
Monadic(op, va) ==
    CASE op = "not" -> IF va.c = "bool" THEN OkV(BoolV(WIsZero(va.w))) ELSE Bad("stuck", "not of a non-Boolean")
      [] op = "-" -> IF va.c = "int" THEN OkV(V("int", WNeg(va.w))) ELSE Bad("stuck", "sign of a non-integer")
      [] op = "+" -> IF va.c = "int" THEN OkV(va) ELSE Bad("stuck", "sign of a non-integer")
      [] OTHER -> Bad("stuck", "unknown monadic operator")
\* required functions (6.6.6); ty = type of the argument expression as declared (needed for succ / pred of enums)
OrdMax(c, card) == IF c = "bool" THEN 1 ELSE IF c = "char" THEN 255 ELSE card - 1
BuiltIn(f, va, card) ==
    CASE f = "ord" -> IF va.c \in {"void", "none"} THEN Bad("stuck", "ord of a non-ordinal") ELSE OkV(V("int", va.w))
      [] f = "chr" -> IF va.c # "int" THEN Bad("stuck", "chr of a non-integer")
                      ELSE IF IsNegW(va.w) \/ WToNat(va.w) > 255 THEN Bad("undefined", "chr: no such character")
                      ELSE OkV(V("char", va.w))
      [] f \in {"succ", "pred"} ->
             IF va.c = "int" THEN ArithI(IF f = "succ" THEN "+" ELSE "-", va.w, WOne(4))
             ELSE IF va.c \in {"void", "none"} THEN Bad("stuck", "succ / pred of a non-ordinal")
             ELSE LET n == WToNat(va.w) IN
                  IF f = "succ" THEN (IF n >= OrdMax(va.c, card) THEN Bad("undefined", "succ: no successor") ELSE OkV(V(va.c, W4(n + 1))))
                  ELSE (IF n = 0 THEN Bad("undefined", "pred: no predecessor") ELSE OkV(V(va.c, W4(n - 1))))
      [] f = "abs" -> IF va.c # "int" THEN Bad("stuck", "abs of a non-integer") ELSE OkV(V("int", WAbs(va.w)))
      [] f = "sqr" -> IF va.c # "int" THEN Bad("stuck", "sqr of a non-integer") ELSE ArithI("*", va.w, va.w)
      [] f = "odd" -> IF va.c # "int" THEN Bad("stuck", "odd of a non-integer") ELSE OkV(BoolV(va.w[1] % 2 = 1))
      [] OTHER -> Bad("stuck", "unknown required function")

(* ======================= program lookup ===================================== *)
IdxByName(seq, name) == LET S == {k \in 1..Len(seq) : seq[k].n = name} IN IF S = {} THEN 0 ELSE CHOOSE k \in S : TRUE
SubIdx(name, P) == IdxByName(P.subs, name)
\* a name designates a local of the current activation, else a program-level variable
Lookup(n, X, S) == IF <<X.fid, n>> \in DOMAIN S.m THEN <<X.fid, n>>
                   ELSE IF <<0, n>> \in DOMAIN S.m THEN <<0, n>> ELSE <<-3, n>>

(* ======================= expressions ========================================= *)
\* X = [fid, prog, pend] context;  S = [m, np] threaded state (store, replayed calls)
RECURSIVE Eval(_, _, _), LVal(_, _, _), EvalArgs(_, _, _, _, _, _, _), WholeArg(_, _, _, _, _, _, _, _)

OkL(loc, cur, lty, S, fx) == [st |-> "ok", loc |-> loc, cur |-> cur, lty |-> lty, S |-> S, fx |-> fx]
CompT(o, j) == CASE o.k = "s" -> o.ty
                 [] o.k = "a" -> o.ty.el
                 [] o.k = "r" -> o.ty.fs[j].ty
CompW(o, j) == CASE o.k = "s" -> o.w
                 [] o.k = "a" -> o.el[j]
                 [] o.k = "r" -> o.vals[j]
\* the object that a name stands for: [st, key, j] (variable parameters are followed)
Base(n, X, S) ==
    LET key == Lookup(n, X, S) IN
    IF key[1] < 0 THEN Bad("stuck", "unknown variable")
    ELSE LET o == S.m[key] IN
         IF o.k = "ref" THEN [st |-> "ok", key |-> o.key, j |-> o.j]
         ELSE IF o.k = "o" THEN Bad("stuck", "not a variable")
         ELSE [st |-> "ok", key |-> key, j |-> 0]
LocL(key, j, S, fx) ==
    LET o == S.m[key] IN OkL([key |-> key, j |-> j], V(Cls(CompT(o, j)), CompW(o, j)), CompT(o, j), S, fx)

LVal(lv, X, S) ==
    CASE lv.k = "var" ->
           LET b == Base(lv.n, X, S) IN
           IF b.st # "ok" THEN b
           ELSE IF b.key \notin DOMAIN S.m THEN Bad("stuck", "dangling variable parameter")
           ELSE IF (S.m[b.key].k = "s") # (b.j = 0) THEN Bad("stuck", "structured variable used as a simple variable")
           ELSE LocL(b.key, b.j, S, NoFx)
      [] lv.k = "idx" ->
           LET b == Base(lv.a, X, S) IN
           IF b.st # "ok" THEN b
           ELSE IF b.j # 0 \/ S.m[b.key].k # "a" THEN Bad("stuck", "not an array")
           ELSE LET r == Eval(lv.e, X, S) IN
                IF r.st # "ok" THEN r
                ELSE IF r.v.c # "int" THEN Bad("stuck", "index is not an integer")
                ELSE LET t == r.S.m[b.key].ty
                         n == SmallInt(r.v.w)
                     IN IF n < t.lo \/ n > t.hi THEN Bad("undefined", "index outside the index type")
                        ELSE LocL(b.key, n - t.lo + 1, r.S, r.fx)
      [] lv.k = "fld" ->
           LET b == Base(lv.r, X, S) IN
           IF b.st # "ok" THEN b
           ELSE IF b.j # 0 \/ S.m[b.key].k # "r" THEN Bad("stuck", "not a record")
           ELSE LET j == IdxByName(S.m[b.key].ty.fs, lv.f) IN
                IF j = 0 THEN Bad("stuck", "no such field") ELSE LocL(b.key, j, S, NoFx)
      [] OTHER -> Bad("stuck", "not a variable access")

\* actual parameters: value parameters are evaluated and converted, variable parameters are accessed;
\* interference between two of them makes the result depend on the implementation-dependent order (P5)
EvalArgs(params, args, j, X, S, objs, fx) ==
    IF j > Len(args) THEN [st |-> "ok", objs |-> objs, S |-> S, fx |-> fx]
    ELSE IF params[j].var
    THEN LET l == LVal(args[j], X, S) IN
         IF l.st # "ok" THEN (IF args[j].k \in {"var", "idx", "fld"} THEN WholeArg(params, args, j, X, S, objs, fx, l) ELSE l)
         ELSE IF Cls(l.lty) # Cls(params[j].ty) THEN Bad("stuck", "variable parameter of another type")
         ELSE IF Conflict(fx, l.fx) THEN Bad("unspec", "actual parameters interfere")
         ELSE EvalArgs(params, args, j + 1, X, l.S, Append(objs, RefO(l.loc.key, l.loc.j)), Join(fx, l.fx))
    ELSE LET r == Eval(args[j], X, S) IN
         IF r.st # "ok" THEN r
         ELSE LET c == AssignTo(r.v, params[j].ty) IN
              IF c.st # "ok" THEN c
              ELSE IF Conflict(fx, r.fx) THEN Bad("unspec", "actual parameters interfere")
              ELSE EvalArgs(params, args, j + 1, X, r.S, Append(objs, Scal(params[j].ty, c.v.w)), Join(fx, r.fx))
\* a whole array / record passed as a variable parameter
WholeArg(params, args, j, X, S, objs, fx, l) ==
    IF args[j].k # "var" THEN l
    ELSE LET b == Base(args[j].n, X, S) IN
         IF b.st # "ok" THEN b
         ELSE IF b.j # 0 \/ S.m[b.key].k \notin {"a", "r"} \/ S.m[b.key].ty # params[j].ty THEN l
         ELSE EvalArgs(params, args, j + 1, X, S, Append(objs, RefO(b.key, 0)), fx)

EvalCall(e, X, S) ==
    LET fi == SubIdx(e.f, X.prog) IN
    IF fi = 0 THEN Bad("stuck", "unknown procedure or function")
    ELSE LET Sd == X.prog.subs[fi] IN
         IF Len(Sd.params) # Len(e.args) THEN Bad("stuck", "wrong number of actual parameters")
         ELSE LET ra == EvalArgs(Sd.params, e.args, 1, X, S, <<>>, NoFx) IN
              IF ra.st # "ok" THEN ra
              ELSE IF ra.S.np < Len(X.pend)
              THEN LET p == X.pend[ra.S.np + 1] IN       \* this call has completed: replay its outcome
                   Ok(p.v, [m |-> p.m, np |-> ra.S.np + 1], Join(ra.fx, p.fx))
              ELSE NeedCall(fi, ra.objs, ra.S)

EvalBin(e, X, S) ==
    LET ra == Eval(e.a, X, S) IN
    IF ra.st # "ok" THEN ra
    ELSE LET rb == Eval(e.b, X, ra.S) IN
    IF e.op \in {"and", "or"}                      \* P4
    THEN IF ra.v.c # "bool" THEN Bad("stuck", "operand of and / or is not Boolean")
         ELSE LET at == ~WIsZero(ra.v.w)
                  decided == (e.op = "and" /\ ~at) \/ (e.op = "or" /\ at)
              IN IF rb.st \in {"call", "stuck"} THEN rb
                 ELSE IF decided
                 THEN IF rb.st # "ok" THEN Bad("unspec", "the left operand decides; evaluating the right one is an error")
                      ELSE IF rb.v.c # "bool" THEN Bad("stuck", "operand of and / or is not Boolean")
                      ELSE IF rb.fx.w # {} THEN Bad("unspec", "the left operand decides; the right one has side effects")
                      ELSE Ok(BoolV(at), rb.S, Join(ra.fx, rb.fx))
                 ELSE IF rb.st # "ok" THEN rb
                 ELSE IF rb.v.c # "bool" THEN Bad("stuck", "operand of and / or is not Boolean")
                 ELSE IF Conflict(ra.fx, rb.fx) THEN Bad("unspec", "operands interfere")
                 ELSE Ok(BoolV(~WIsZero(rb.v.w)), rb.S, Join(ra.fx, rb.fx))
    ELSE IF rb.st # "ok" THEN rb
         ELSE IF Conflict(ra.fx, rb.fx) THEN Bad("unspec", "operands interfere")
         ELSE LET z == Dyadic(e.op, ra.v, rb.v) IN
              IF z.st # "ok" THEN z ELSE Ok(z.v, rb.S, Join(ra.fx, rb.fx))

Eval(e, X, S) ==
    CASE e.k = "lit" -> Ok(V(e.c, e.w), S, NoFx)
      [] e.k \in {"var", "idx", "fld"} ->
           LET l == LVal(e, X, S) IN
           IF l.st # "ok" THEN l
           ELSE IF l.cur.w = <<>> THEN Bad("undefined", "use of an undefined variable")
           ELSE Ok(l.cur, l.S, Join(l.fx, Rd(l.loc.key)))
      [] e.k = "un" ->
           LET r == Eval(e.a, X, S) IN
           IF r.st # "ok" THEN r
           ELSE LET z == Monadic(e.op, r.v) IN IF z.st # "ok" THEN z ELSE Ok(z.v, r.S, r.fx)
      [] e.k = "bin" -> EvalBin(e, X, S)
      [] e.k = "bi" ->
           LET r == Eval(e.a, X, S) IN
           IF r.st # "ok" THEN r
           ELSE LET z == BuiltIn(e.f, r.v, e.card) IN IF z.st # "ok" THEN z ELSE Ok(z.v, r.S, r.fx)
      [] e.k = "call" ->
           LET r == EvalCall(e, X, S) IN
           IF r.st = "ok" /\ r.v.c = "void" THEN Bad("stuck", "procedure called in an expression") ELSE r
      [] OTHER -> Bad("stuck", "unknown expression kind")

(* ======================= stores, initial objects, observation ================= *)
StoreAt(loc, w, m) ==
    LET o == m[loc.key] IN
    CASE o.k = "s" -> [m EXCEPT ![loc.key] = [@ EXCEPT !.w = w]]
      [] o.k = "a" -> [m EXCEPT ![loc.key] = [@ EXCEPT !.el = [@ EXCEPT ![loc.j] = w]]]
      [] o.k = "r" -> [m EXCEPT ![loc.key] = [@ EXCEPT !.vals = [@ EXCEPT ![loc.j] = w]]]
DropFrame(m, fid) == [q \in {q \in DOMAIN m : q[1] # fid} |-> m[q]]
\* a new variable is totally undefined (P6)
NewObj(t) == CASE t.k = "arr" -> ArrO(t, [j \in 1..(t.hi - t.lo + 1) |-> <<>>])
               [] t.k = "rec" -> RecO(t, [j \in 1..Len(t.fs) |-> <<>>])
               [] OTHER -> Scal(t, <<>>)
RECURSIVE BindVars(_, _, _, _)
BindVars(decls, j, fid, m) ==
    IF j > Len(decls) THEN m ELSE BindVars(decls, j + 1, fid, (<<fid, decls[j].n>> :> NewObj(decls[j].ty)) @@ m)
RECURSIVE BindR(_, _, _, _, _)
BindR(params, objs, j, fid, m) ==
    IF j > Len(params) THEN m ELSE BindR(params, objs, j + 1, fid, (<<fid, params[j].n>> :> objs[j]) @@ m)

\* observation: the defined ordinal program-level variables, and the output
RECURSIVE GlobObs(_, _, _)
GlobObs(G, k, m) ==
    IF k > Len(G) THEN <<>>
    ELSE LET o == m[<<0, G[k].n>>] IN
         (IF o.k = "s" /\ o.w # <<>> THEN <<[name |-> G[k].n, c |-> Cls(o.ty), w |-> o.w]>> ELSE <<>>)
         \o GlobObs(G, k + 1, m)

(* ======================= the machine ========================================= *)
(* Every action is  <guard on the item on top of the continuation> /\ Apply(<outcome>):              *)
(*   [t |-> "commit", S, k, fx]       the statement (or loop test) is complete                        *)
(*   [t |-> "call", f, args, S]       it met a call of a routine that has not run yet                 *)
(*   [t |-> "ret", v, S, fx]          the block of the activation is complete                         *)
(*   [t |-> "halt", st, why]          the execution ends with a non-ok status                         *)
C == Cases[i]
Prog == C.prog
Running == i > 0 /\ status = "run"
Top == stack[Len(stack)]
K == Top.k
It == K[Len(K)]                                   \* item on top of the continuation stack
HasFuel == steps < C.fuel
AtItem(kind) == Running /\ HasFuel /\ Len(K) > 0 /\ It.k = kind
AtStmt == AtItem("blk") /\ It.ix <= Len(It.ss)
St == It.ss[It.ix]                                \* statement to execute
Is(kind) == AtStmt /\ St.k = kind
KAdv == [K EXCEPT ![Len(K)] = [@ EXCEPT !.ix = @ + 1]]
KPop == SubSeq(K, 1, Len(K) - 1)
Blk(ss) == [k |-> "blk", ss |-> ss, ix |-> 1]

\* evaluation of the current statement starts from the store in which the statement began
S0 == [m |-> IF Top.pend = <<>> THEN mem ELSE Top.snap, np |-> 0]
X0 == [fid |-> Top.fid, prog |-> Prog, pend |-> Top.pend]

CommitO(S, k2, fx) == [t |-> "commit", S |-> S, k |-> k2, fx |-> fx]
HaltO(st, reason) == [t |-> "halt", st |-> st, why |-> reason]
DivertO(r) == IF r.st = "call" THEN [t |-> "call", f |-> r.f, args |-> r.args, S |-> r.S] ELSE HaltO(r.st, r.why)

\* f = 0: the program block
NewFrame(fi, body, fid) == [f |-> fi, fid |-> fid, k |-> <<Blk(body)>>, pend |-> <<>>, snap |-> <<>>, fx |-> NoFx]
\* the store of a new activation of routine Sd: parameters, locals, the result variable of a function
ActMem(Sd, objs, fid, m) ==
    LET m1 == BindVars(Sd.locals, 1, fid, BindR(Sd.params, objs, 1, fid, m)) IN
    IF Sd.kind = "func" THEN (ResKey(fid) :> Scal(Sd.ret, <<>>)) @@ m1 ELSE m1

Halt(st, reason) ==
    /\ status' = st /\ why' = reason /\ steps' = steps + 1
    /\ UNCHANGED <<stack, mem, nfr, ret>>

Apply(o) ==
    CASE o.t = "halt" -> Halt(o.st, o.why)
      [] o.t = "commit" ->
           IF o.S.np # Len(Top.pend) THEN Halt("stuck", "replay consumed a different number of calls")
           ELSE /\ stack' = [stack EXCEPT ![Len(stack)] =
                                [@ EXCEPT !.k = o.k, !.pend = <<>>, !.snap = <<>>, !.fx = Join(@, o.fx)]]
                /\ mem' = o.S.m /\ steps' = steps + 1
                /\ UNCHANGED <<status, why, ret, nfr>>
      [] o.t = "call" ->           \* suspend the statement, remember where it started, run the callee
           IF Len(stack) >= MaxDepth THEN Halt("fuel", "call depth")
           ELSE /\ stack' = Append([stack EXCEPT ![Len(stack)] =
                                       [@ EXCEPT !.snap = IF Top.pend = <<>> THEN mem ELSE @]],
                                   NewFrame(o.f, Prog.subs[o.f].body, nfr + 1))
                /\ mem' = ActMem(Prog.subs[o.f], o.args, nfr + 1, o.S.m)
                /\ nfr' = nfr + 1 /\ steps' = steps + 1
                /\ UNCHANGED <<status, why, ret>>
      [] o.t = "ret" ->
           IF o.S.np # Len(Top.pend) THEN Halt("stuck", "replay consumed a different number of calls")
           ELSE LET m2 == DropFrame(o.S.m, Top.fid) IN          \* the variables of the activation cease to exist
                IF Len(stack) = 1
                THEN /\ status' = "ok" /\ why' = "" /\ ret' = o.v.w /\ stack' = <<>>
                     /\ mem' = m2 /\ steps' = steps + 1 /\ UNCHANGED nfr
                ELSE LET n == Len(stack) - 1 IN          \* the caller evaluates its statement again, replaying this call
                     /\ stack' = [SubSeq(stack, 1, n) EXCEPT ![n] =
                                     [@ EXCEPT !.pend = Append(@, [v |-> o.v, m |-> m2,
                                                                   fx |-> StripFx(Join(Top.fx, o.fx), Top.fid)])]]
                     /\ mem' = m2 /\ steps' = steps + 1
                     /\ UNCHANGED <<status, why, ret, nfr>>

Truth(v) == ~WIsZero(v.w)

(* ---- assignment (6.8.2.2); the left side may be the result variable of the active function ---------- *)
ResultL(S) ==
    IF Top.f = 0 \/ ResKey(Top.fid) \notin DOMAIN S.m \/ Prog.subs[Top.f].n # St.lhs.f
    THEN Bad("stuck", "assignment to the result of a function that is not the active one")
    ELSE LocL(ResKey(Top.fid), 0, S, NoFx)
AssignO ==
    LET l == IF St.lhs.k = "result" THEN ResultL(S0) ELSE LVal(St.lhs, X0, S0) IN
    IF l.st # "ok" THEN DivertO(l)
    ELSE LET r == Eval(St.e, X0, l.S) IN
         IF r.st # "ok" THEN DivertO(r)
         ELSE IF Conflict(l.fx, r.fx) THEN HaltO("unspec", "the two sides of the assignment interfere")
         ELSE LET c == AssignTo(r.v, l.lty) IN
              IF c.st # "ok" THEN HaltO(c.st, c.why)
              ELSE CommitO([r.S EXCEPT !.m = StoreAt(l.loc, c.v.w, @)], KAdv, Join(Join(l.fx, r.fx), Wr(l.loc.key)))
Assign == Is("asg") /\ \E o \in {AssignO} : Apply(o)

(* ---- procedure statement (6.8.2.3) -------------------------------------------------------------------- *)
CallStmtO ==
    LET r == EvalCall(St, X0, S0) IN
    IF r.st # "ok" THEN DivertO(r)
    ELSE IF r.v.c # "void" THEN HaltO("stuck", "a function cannot be called as a statement")
    ELSE CommitO(r.S, KAdv, r.fx)
CallStmt == Is("call") /\ \E o \in {CallStmtO} : Apply(o)

(* ---- if, while, repeat (6.8.3.4, 6.8.3.8, 6.8.3.7) ---------------------------------------------------- *)
CondO(c, kt, kf) ==
    LET r == Eval(c, X0, S0) IN
    IF r.st # "ok" THEN DivertO(r)
    ELSE IF r.v.c # "bool" THEN HaltO("stuck", "condition is not Boolean")
    ELSE CommitO(r.S, IF Truth(r.v) THEN kt ELSE kf, r.fx)
If == Is("if") /\ \E o \in {CondO(St.c, Append(KAdv, Blk(St.t)), Append(KAdv, Blk(St.f)))} : Apply(o)

LoopI(c, b) == [k |-> "loop", c |-> c, b |-> b]
While == Is("while") /\ Apply(CommitO(S0, Append(KAdv, LoopI(St.c, St.b)), NoFx))
\* the loop marker is on top: evaluate the condition; the body runs while it is true
LoopTest == AtItem("loop") /\ \E o \in {CondO(It.c, Append(K, Blk(It.b)), KPop)} : Apply(o)

UntilI(c, b) == [k |-> "until", c |-> c, b |-> b]
\* the body is executed first, then the condition: the loop ends when it is true
Repeat == Is("repeat") /\ Apply(CommitO(S0, Append(Append(KAdv, UntilI(St.c, St.b)), Blk(St.b)), NoFx))
Until == AtItem("until") /\ \E o \in {CondO(It.c, KPop, Append(K, Blk(It.b)))} : Apply(o)

(* ---- for (6.8.3.9, P8) ---------------------------------------------------------------------------------- *)
ForI(loc, fin, up, b) == [k |-> "forl", loc |-> loc, fin |-> fin, up |-> up, b |-> b]
ForO ==
    LET ra == Eval(St.a, X0, S0) IN
    IF ra.st # "ok" THEN DivertO(ra)
    ELSE LET rb == Eval(St.b, X0, ra.S) IN
    IF rb.st # "ok" THEN DivertO(rb)
    ELSE IF Conflict(ra.fx, rb.fx) THEN HaltO("unspec", "initial and final value interfere")
    ELSE LET lv == LVal([k |-> "var", n |-> St.v], X0, rb.S) IN
    IF lv.st # "ok" THEN HaltO(lv.st, lv.why)
    ELSE IF ra.v.c # rb.v.c \/ ra.v.c # Cls(lv.lty) \/ ra.v.c = "void" THEN HaltO("stuck", "control variable and bounds of different types")
    ELSE LET enters == IF St.up THEN ~WLtS(rb.v.w, ra.v.w) ELSE ~WLtS(ra.v.w, rb.v.w)
             fx == Join(Join(ra.fx, rb.fx), Wr(lv.loc.key))
         IN IF ~enters THEN CommitO([rb.S EXCEPT !.m = StoreAt(lv.loc, <<>>, @)], KAdv, fx)   \* not executed; v is undefined afterwards
            ELSE LET c1 == AssignTo(ra.v, lv.lty)  c2 == AssignTo(rb.v, lv.lty) IN
                 IF c1.st # "ok" THEN HaltO(c1.st, c1.why)
                 ELSE IF c2.st # "ok" THEN HaltO(c2.st, c2.why)
                 ELSE CommitO([rb.S EXCEPT !.m = StoreAt(lv.loc, ra.v.w, @)],
                              Append(Append(KAdv, ForI(lv.loc, rb.v.w, St.up, St.body)), Blk(St.body)), fx)
For == Is("for") /\ \E o \in {ForO} : Apply(o)
\* the body has finished: stop when the control variable equals the final value, else step and run the body again
ForNextO ==
    LET cur == CompW(S0.m[It.loc.key], It.loc.j) IN
    IF cur = <<>> THEN HaltO("stuck", "the control variable was made undefined by the body")
    ELSE IF cur = It.fin THEN CommitO([S0 EXCEPT !.m = StoreAt(It.loc, <<>>, @)], KPop, Wr(It.loc.key))
    ELSE CommitO([S0 EXCEPT !.m = StoreAt(It.loc, IF It.up THEN WAdd(cur, WOne(4)) ELSE WSub(cur, WOne(4)), @)],
                 Append(K, Blk(It.b)), Wr(It.loc.key))
ForNext == AtItem("forl") /\ \E o \in {ForNextO} : Apply(o)

(* ---- case (6.8.3.5, P9) --------------------------------------------------------------------------------- *)
Matches(arm, v) == \E q \in 1..Len(arm.vals) : arm.vals[q].c = v.c /\ arm.vals[q].w = v.w
CaseO ==
    LET r == Eval(St.e, X0, S0) IN
    IF r.st # "ok" THEN DivertO(r)
    ELSE IF r.v.c \in {"void", "none"} THEN HaltO("stuck", "case index is not ordinal")
    ELSE IF \E a \in 1..Len(St.arms) : \E q \in 1..Len(St.arms[a].vals) : St.arms[a].vals[q].c # r.v.c
    THEN HaltO("stuck", "case constant of another type")
    ELSE LET S == {a \in 1..Len(St.arms) : Matches(St.arms[a], r.v)} IN
         IF Cardinality(S) > 1 THEN HaltO("stuck", "case constant appears twice")
         ELSE IF S # {} THEN CommitO(r.S, Append(KAdv, Blk(St.arms[CHOOSE a \in S : TRUE].b)), r.fx)
         ELSE IF St.haselse THEN CommitO(r.S, Append(KAdv, Blk(St.els)), r.fx)
         ELSE HaltO("undefined", "no case constant equals the case index")
Case == Is("case") /\ \E o \in {CaseO} : Apply(o)

(* ---- write / writeln on the standard output (6.9.3, 6.9.4, P10) ------------------------------------------ *)
Emit(S, ev) == [S EXCEPT !.m = [@ EXCEPT ![OutKey] = OutO(Append(@.ev, ev))]]
RECURSIVE WriteArgs(_, _, _, _)
WriteArgs(args, j, S, fx) ==       \* returns [st, S, fx]
    IF j > Len(args) THEN [st |-> "ok", S |-> S, fx |-> fx]
    ELSE LET r == Eval(args[j].e, X0, S) IN
         IF r.st # "ok" THEN r
         ELSE IF r.v.c = "char" /\ ~args[j].hasw
         THEN WriteArgs(args, j + 1, Emit(r.S, [k |-> "char", v |-> r.v.w, hasw |-> FALSE, wd |-> <<>>]), Join(fx, r.fx))
         ELSE IF r.v.c # "int" THEN Bad("stuck", "only integers and characters are written in this model")
         ELSE IF ~args[j].hasw
         THEN WriteArgs(args, j + 1, Emit(r.S, [k |-> "int", v |-> r.v.w, hasw |-> FALSE, wd |-> <<>>]), Join(fx, r.fx))
         ELSE LET rw == Eval(args[j].wd, X0, r.S) IN
              IF rw.st # "ok" THEN rw
              ELSE IF rw.v.c # "int" THEN Bad("stuck", "field width is not an integer")
              ELSE IF Conflict(r.fx, rw.fx) THEN Bad("unspec", "value and field width interfere")
              ELSE IF IsNegW(rw.v.w) \/ WIsZero(rw.v.w) THEN Bad("undefined", "field width < 1")
              ELSE WriteArgs(args, j + 1, Emit(rw.S, [k |-> "int", v |-> r.v.w, hasw |-> TRUE, wd |-> rw.v.w]),
                             Join(fx, Join(r.fx, rw.fx)))
WriteO ==
    LET r == WriteArgs(St.args, 1, S0, NoFx) IN
    IF r.st # "ok" THEN DivertO(r)
    ELSE CommitO(IF St.ln THEN Emit(r.S, [k |-> "ln", v |-> <<>>, hasw |-> FALSE, wd |-> <<>>]) ELSE r.S, KAdv,
                 Join(Join(r.fx, Rd(OutKey)), Wr(OutKey)))
Write == Is("write") /\ \E o \in {WriteO} : Apply(o)

(* ---- end of a statement sequence; end of the block of the activation ------------------------------------ *)
BlockEnd ==
    /\ AtItem("blk") /\ It.ix > Len(It.ss)
    /\ Apply(IF Len(K) > 1 THEN CommitO(S0, KPop, NoFx)
             ELSE IF Top.f = 0 \/ Prog.subs[Top.f].kind # "func" THEN [t |-> "ret", v |-> VoidV, S |-> S0, fx |-> NoFx]
             ELSE LET o == S0.m[ResKey(Top.fid)] IN
                  IF o.w = <<>> THEN HaltO("undefined", "the result of the function is undefined at the end of its block")
                  ELSE [t |-> "ret", v |-> V(Cls(o.ty), o.w), S |-> S0, fx |-> NoFx])

StmtKinds == {"asg", "call", "if", "while", "repeat", "for", "case", "write"}
Unknown ==
    /\ Running /\ HasFuel
    /\ \/ Len(K) = 0
       \/ Len(K) > 0 /\ It.k \notin {"blk", "loop", "until", "forl"}
       \/ AtStmt /\ St.k \notin StmtKinds
    /\ Halt("stuck", "unknown statement or continuation item")

OutOfFuel == Running /\ ~HasFuel /\ Halt("fuel", "step budget")

Step == /\ \/ Assign \/ CallStmt \/ If \/ While \/ LoopTest \/ Repeat \/ Until \/ For \/ ForNext \/ Case \/ Write \/ BlockEnd
           \/ Unknown \/ OutOfFuel
        /\ UNCHANGED <<chunk, i, av>>

(* ---- start of a case ----------------------------------------------------------------------- *)
\* the entry is the program block (fn = "") or one routine with ordinal value parameters (argv)
RECURSIVE MainArgs(_, _, _, _)
MainArgs(params, words, j, objs) ==
    IF j > Len(params) THEN [st |-> "ok", objs |-> objs]
    ELSE IF params[j].var \/ ~IsScalarT(params[j].ty) \/ Len(words[j]) # 4
    THEN Bad("stuck", "argument does not match the parameter")
    ELSE LET c == AssignTo(V(Cls(params[j].ty), words[j]), params[j].ty) IN
         IF c.st # "ok" THEN Bad("stuck", "argument outside the type of the parameter")
         ELSE MainArgs(params, words, j + 1, Append(objs, Scal(params[j].ty, words[j])))

Fail(st, reason) == /\ status' = st /\ why' = reason /\ stack' = <<>> /\ mem' = <<>>
StartCase(c, a) ==
    LET P == c.prog
        g0 == BindVars(P.globals, 1, 0, (OutKey :> OutO(<<>>)))
    IN /\ ret' = <<>> /\ steps' = 0 /\ nfr' = 1
       /\ IF c.fn = ""
          THEN /\ status' = "run" /\ why' = "" /\ mem' = g0 /\ stack' = <<NewFrame(0, P.main, 1)>>
          ELSE LET fi == SubIdx(c.fn, P) IN
               IF fi = 0 THEN Fail("stuck", "no such routine")
               ELSE LET Sd == P.subs[fi] IN
                    IF Len(Sd.params) # Len(c.argv[a]) THEN Fail("stuck", "arity")
                    ELSE LET pa == MainArgs(Sd.params, c.argv[a], 1, <<>>) IN
                         IF pa.st # "ok" THEN Fail("stuck", pa.why)
                         ELSE /\ status' = "run" /\ why' = ""
                              /\ mem' = ActMem(Sd, pa.objs, 1, g0)
                              /\ stack' = <<NewFrame(fi, Sd.body, 1)>>

Init == /\ chunk = 0 /\ i = 0 /\ av = 0 /\ stack = <<>> /\ mem = <<>> /\ nfr = 0
        /\ status = "idle" /\ why = "" /\ ret = <<>> /\ steps = 0
PickChunk == /\ chunk = 0 /\ chunk' \in 1..NChunks
             /\ UNCHANGED <<i, av, stack, mem, nfr, status, why, ret, steps>>
PickCase == /\ chunk > 0 /\ i = 0
            /\ i' \in {k \in 1..Len(Cases) : k % NChunks = chunk - 1}
            /\ av' \in 1..Len(Cases[i'].argv)
            /\ StartCase(Cases[i'], av')
            /\ UNCHANGED chunk
Next == PickChunk \/ PickCase \/ Step

(* ---- observation ------------------------------------------------------------------------------ *)
Finished == i > 0 /\ status \notin {"run", "idle"}
Obs == [status |-> status, why |-> why,
        ret |-> ret,
        globals |-> IF status = "ok" THEN GlobObs(Prog.globals, 1, mem) ELSE <<>>,
        out |-> IF status = "ok" THEN mem[OutKey].ev ELSE <<>>]

TypeOK == /\ status \in {"idle", "run", "ok", "undefined", "unspec", "fuel", "stuck"}
          /\ (status = "run" => Len(stack) >= 1)
          /\ (status = "ok" => Len(ret) \in {0, 4})
          /\ (status = "ok" => \A q \in DOMAIN mem : q[1] = 0)        \* only the program-level variables survive
NeverStuck == status # "stuck"
=============================================================================
