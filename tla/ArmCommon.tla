----------------------------- MODULE ArmCommon -----------------------------
(* Shared vocabulary of Thumb.tla (T32 16-bit + the 32-bit branches) and     *)
(* Arm32.tla (A32): the decoded-instruction record, bit-field helpers, the   *)
(* condition table, operand tokens of a printed assembly line and the        *)
(* architectural register sets Reads / Writes (ARM Architecture Reference    *)
(* Manual ARMv7-A/R, chapters A5 "ARM instruction set encoding", A6 "Thumb   *)
(* instruction set encoding", A8 "Instruction descriptions").                *)
(*                                                                           *)
(* All numbers fit TLC's 32-bit integers: a 16-bit halfword is an Int, an    *)
(* A32 word is a pair of halfwords, a 32-bit immediate is kept in its signed *)
(* two's-complement reading (0xFF000000 is -16777216).                       *)
EXTENDS Integers, Sequences, FiniteSets, TLC, Words

\* (P2(n) = 2^n, n <= 30, and the byte-limb words of the execution model come from Words.tla)
Bits(x, lo, n) == (x \div P2(lo)) % P2(n)             \* field x<lo+n-1:lo>
IBit(x, k) == (x \div P2(k)) % 2                      \* bit k of an integer (Words.Bit: of a word)
SignExt(v, n) == IF v >= P2(n - 1) THEN v - P2(n) ELSE v     \* n-bit pattern -> signed value (n <= 30)
Pattern(v, n) == IF v < 0 THEN v + P2(n) ELSE v              \* signed value -> n-bit pattern
XorBit(a, b) == IF a = b THEN 0 ELSE 1
Align4(a) == a - (a % 4)
MinInt == -2147483647 - 1

NoReg == 16
SP == 13
LR == 14
PC == 15
AL == 14                                              \* condition field 1110 = always

(* The decoded instruction.                                                  *)
(*  mn    canonical (UAL) mnemonic without S / condition suffix               *)
(*  s     updates the condition flags        cond  condition field 0..14      *)
(*  rd    destination (for a store: the register that is stored, Rt)         *)
(*  rn    first operand / base register     rm  second operand / offset reg  *)
(*  ra    accumulator (mla, mls)            rs  shift-amount register         *)
(*  imm   immediate / offset / branch displacement relative to the PC value  *)
(*        the instruction reads (address + 4 in Thumb, + 8 in ARM state)     *)
(*  st,sa shift applied to rm: "" | lsl | lsr | asr | ror | rrx, amount       *)
(*  list  register list     am  "" | off | pre | post | ia ib da db (+ "!")   *)
(*  sub   register offset is subtracted (U = 0); also U = 0 with offset 0     *)
(*  cp    <<coproc, opc1, CRn, CRm, opc2>> of mcr / mrc                        *)
(*  enc   which encoding (format) of the manual   rot  rotation field of an  *)
(*  A32 modified immediate      impl  registers fixed by the encoding itself *)
(*  (not named by an operand field): sp of push/pop/sp-relative forms, pc of *)
(*  literal loads and adr                     len  2 | 4 bytes                *)
I0 == [mn |-> "", s |-> FALSE, cond |-> AL, rd |-> NoReg, rn |-> NoReg, rm |-> NoReg, ra |-> NoReg, rs |-> NoReg,
       imm |-> 0, st |-> "", sa |-> 0, list |-> {}, am |-> "", sub |-> FALSE, cp |-> <<>>, enc |-> "", rot |-> 0,
       impl |-> {}, len |-> 0]
NotInsn == {"undefined", "unpredictable", "unsupported", "prefix32", "none"}
Bad(k, len) == [I0 EXCEPT !.mn = k, !.len = len]
Valid(i) == i.mn \notin NotInsn
\* what C08 compares: operation and operands, not the choice among equivalent encodings
Core(i) == [i EXCEPT !.enc = "", !.rot = 0, !.impl = {}]
NoAsm == Bad("none", 0)

CondNames == <<"eq", "ne", "cs", "cc", "mi", "pl", "vs", "vc", "hi", "ls", "ge", "lt", "gt", "le", "">>
\* <<suffix, condition number>> incl. the synonyms hs = cs, lo = cc and the explicit "al"
CondSuffixes == {<<CondNames[k], k - 1>> : k \in 1..15} \cup {<<"hs", 2>>, <<"lo", 3>>, <<"al", 14>>}

RegSet(bits, n) == {r \in 0..(n - 1) : IBit(bits, r) = 1}
RECURSIVE SetBits(_)
SetBits(S) == IF S = {} THEN 0 ELSE LET r == CHOOSE x \in S : TRUE IN P2(r) + SetBits(S \ {r})

-----------------------------------------------------------------------------
(* Architectural register sets (core registers r0..r15; the flags are not    *)
(* registers of ppci's model and are left out).  The pc is not counted as    *)
(* written (every instruction changes it) and is read only where an operand  *)
(* field or the encoding names it.                                           *)
Stores == {"str", "strb", "strh", "strd"}
Loads == {"ldr", "ldrb", "ldrh", "ldrsb", "ldrsh", "ldrd"}
Compares == {"cmp", "cmn", "tst", "teq"}
NoDest == Compares \cup Stores \cup {"b", "bl", "bx", "blx", "push", "pop", "stm", "ldm", "svc", "bkpt", "udf", "nop",
                                     "yield", "wfe", "wfi", "sev", "hint", "it", "cbz", "cbnz", "cps", "setend", "mcr"}
Reads(i) ==
    ({i.rn, i.rm, i.ra, i.rs}
     \cup (IF i.mn \in Stores \cup {"mcr"} THEN {i.rd} ELSE {})
     \cup (IF i.mn = "strd" THEN {i.rd + 1} ELSE {})
     \cup (IF i.mn = "movt" THEN {i.rd} ELSE {})                   \* movt keeps the lower halfword of Rd
     \cup (IF i.mn \in {"push", "stm"} THEN i.list ELSE {})) \ {NoReg}
Writes(i) ==
    ((IF i.mn \notin NoDest THEN {i.rd} ELSE {})
     \cup (IF i.mn = "ldrd" THEN {i.rd + 1} ELSE {})
     \cup (IF i.am \in {"pre", "post", "ia!", "ib!", "da!", "db!"} THEN {i.rn} ELSE {})
     \cup (IF i.mn \in {"pop", "ldm"} THEN i.list ELSE {})
     \cup (IF i.mn \in {"push", "pop"} THEN {SP} ELSE {})
     \cup (IF i.mn = "bl" \/ (i.mn = "blx") THEN {LR} ELSE {})) \ {NoReg}
\* documented implicit state: for reads the registers the encoding itself fixes (sp / pc relative
\* forms); writes are never exempt, except that every instruction changes the pc.  The link register
\* written by a call is kept apart so that it is judged by a clause of its own.
ImplicitR(i) == i.impl
ImplicitW(i) == {PC}
LinkW(i) == IF i.mn \in {"bl", "blx"} THEN {LR} ELSE {}

-----------------------------------------------------------------------------
(* Operand tokens of a printed line: <<kind, number, text>>, kind in          *)
(*  r register   i integer   l label   w word (lsl, ...)   c coprocessor reg *)
(*  p coprocessor   [ ] { } !   x unknown glyph                               *)
RECURSIVE PatR(_, _)
PatR(ops, k) == IF k > Len(ops) THEN "" ELSE ops[k][1] \o PatR(ops, k + 1)
Pat(ops) == PatR(ops, 1)
Num(ops, k) == ops[k][2]
Txt(ops, k) == ops[k][3]
AllKind(ops, from, to, kind) == \A k \in from..to : ops[k][1] = kind
=============================================================================
