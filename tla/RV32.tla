-------------------------------- MODULE RV32 --------------------------------
(* RISC-V RV32IM + Zicsr names + the RV32C (compressed) subset, transcribed  *)
(* from "The RISC-V Instruction Set Manual, Volume I: Unprivileged ISA"       *)
(* (chapters RV32I, "M", "C", "RISC-V Assembly Programmer's Handbook").       *)
(*                                                                           *)
(*   Decode(b)        instruction bytes (little-endian, 2 or 4) -> Insn       *)
(*   Encode(i)        the inverse, from the same field tables (laws in MC)   *)
(*   Asm(mn, ops,..)  meaning of a printed assembly line (mnemonic + operand *)
(*                    tokens), incl. the manual's pseudo-instructions        *)
(*   FieldRange(mn)   signedness / width / alignment of the immediate        *)
(*   Expand(i)        compressed instruction -> the base instruction it is   *)
(*   Exec(s, i)       one step of the machine [pc, x, mem]                   *)
(*   Reads(i), Writes(i)   architectural register sets                       *)
(*                                                                           *)
(* TLC integers are 32-bit: register values and addresses are byte-limb      *)
(* words (Words.tla); immediates are small signed integers (|imm| < 2^21);   *)
(* the U-type immediate is kept as its 20-bit field value.                   *)
EXTENDS Words, FiniteSets

-----------------------------------------------------------------------------
(* Bit fields of an instruction given as bytes b[1..n], bit 0 = LSB of b[1]. *)
IBit(b, k) == (b[(k \div 8) + 1] \div P2(k % 8)) % 2
RECURSIVE Fld(_, _, _)
Fld(b, hi, lo) == IF hi < lo THEN 0 ELSE IBit(b, lo) + 2 * Fld(b, hi, lo + 1)

\* An immediate "scramble" is a sequence of <<ihi, ilo, mlo>>: instruction bits
\* ihi..ilo hold immediate bits (mlo + ihi - ilo)..mlo  (the manual writes e.g.
\* offset[11|4|9:8|10|6|7|3:1|5] for instruction bits 12..2).
RECURSIVE GatherR(_, _, _)
GatherR(b, map, k) == IF k > Len(map) THEN 0
                      ELSE Fld(b, map[k][1], map[k][2]) * P2(map[k][3]) + GatherR(b, map, k + 1)
Gather(b, map) == GatherR(b, map, 1)
SignExt(v, n) == IF v >= P2(n - 1) THEN v - P2(n) ELSE v       \* n-bit pattern -> signed value
ToPattern(v, n) == IF v < 0 THEN v + P2(n) ELSE v              \* signed value -> n-bit pattern

\* base formats (Volume I, figure "RISC-V base instruction formats showing immediate variants")
MapI == << <<31, 20, 0>> >>
MapS == << <<31, 25, 5>>, <<11, 7, 0>> >>
MapB == << <<31, 31, 12>>, <<7, 7, 11>>, <<30, 25, 5>>, <<11, 8, 1>> >>
MapU == << <<31, 12, 0>> >>
MapJ == << <<31, 31, 20>>, <<19, 12, 12>>, <<20, 20, 11>>, <<30, 21, 1>> >>
MapShamt == << <<24, 20, 0>> >>
\* compressed formats (chapter "C", tables of CI/CSS/CIW/CL/CS/CB/CJ instructions)
MapCI     == << <<12, 12, 5>>, <<6, 2, 0>> >>                       \* imm[5] | imm[4:0]
MapCI16sp == << <<12, 12, 9>>, <<6, 6, 4>>, <<5, 5, 6>>, <<4, 3, 7>>, <<2, 2, 5>> >>  \* nzimm[9] | nzimm[4|6|8:7|5]
MapCLwsp  == << <<12, 12, 5>>, <<6, 4, 2>>, <<3, 2, 6>> >>          \* uimm[5] | uimm[4:2|7:6]
MapCSwsp  == << <<12, 9, 2>>, <<8, 7, 6>> >>                        \* uimm[5:2|7:6]
MapCIW    == << <<12, 11, 4>>, <<10, 7, 6>>, <<6, 6, 2>>, <<5, 5, 3>> >>  \* nzuimm[5:4|9:6|2|3]
MapCLS    == << <<12, 10, 3>>, <<6, 6, 2>>, <<5, 5, 6>> >>          \* uimm[5:3] | uimm[2|6]
MapCB     == << <<12, 12, 8>>, <<11, 10, 3>>, <<6, 5, 6>>, <<4, 3, 1>>, <<2, 2, 5>> >>  \* offset[8|4:3] | offset[7:6|2:1|5]
MapCJ     == << <<12, 12, 11>>, <<11, 11, 4>>, <<10, 9, 8>>, <<8, 8, 10>>, <<7, 7, 6>>,
                <<6, 6, 7>>, <<5, 3, 1>>, <<2, 2, 5>> >>            \* offset[11|4|9:8|10|6|7|3:1|5]

-----------------------------------------------------------------------------
(* Decoded instruction.  Register fields hold architectural numbers 0..31    *)
(* (for compressed instructions the registers of the expansion: rd' + 8,     *)
(* implicit x1 / x2 made explicit).  csrr?i: rs1 holds the 5-bit uimm.       *)
Ins(mn, rd, rs1, rs2, imm, len) == [mn |-> mn, rd |-> rd, rs1 |-> rs1, rs2 |-> rs2, imm |-> imm, len |-> len]
Illegal(len) == Ins("illegal", 0, 0, 0, 0, len)
Unsupported(len) == Ins("unsupported", 0, 0, 0, 0, len)     \* valid RISC-V, outside RV32IMC+Zicsr (F/D/A ...)

BranchMn == <<"beq", "bne", "?", "?", "blt", "bge", "bltu", "bgeu">>
LoadMn   == <<"lb", "lh", "lw", "?", "lbu", "lhu", "?", "?">>
StoreMn  == <<"sb", "sh", "sw", "?", "?", "?", "?", "?">>
OpImmMn  == <<"addi", "?", "slti", "sltiu", "xori", "?", "ori", "andi">>
OpMn     == <<"add", "sll", "slt", "sltu", "xor", "srl", "or", "and">>
MulMn    == <<"mul", "mulh", "mulhsu", "mulhu", "div", "divu", "rem", "remu">>
CsrMn    == <<"?", "csrrw", "csrrs", "csrrc", "?", "csrrwi", "csrrsi", "csrrci">>

Decode32(b) ==
    LET opc == Fld(b, 6, 0)   rd == Fld(b, 11, 7)   f3 == Fld(b, 14, 12)
        rs1 == Fld(b, 19, 15) rs2 == Fld(b, 24, 20) f7 == Fld(b, 31, 25)
        immI == SignExt(Gather(b, MapI), 12)
    IN  IF opc % 4 # 3 \/ (opc \div 4) % 8 = 7 THEN Illegal(4)            \* not a 32-bit encoding
        ELSE IF opc = 55  THEN Ins("lui", rd, 0, 0, Gather(b, MapU), 4)    \* 0110111
        ELSE IF opc = 23  THEN Ins("auipc", rd, 0, 0, Gather(b, MapU), 4)  \* 0010111
        ELSE IF opc = 111 THEN Ins("jal", rd, 0, 0, SignExt(Gather(b, MapJ), 21), 4)     \* 1101111
        ELSE IF opc = 103 THEN IF f3 = 0 THEN Ins("jalr", rd, rs1, 0, immI, 4) ELSE Illegal(4)  \* 1100111
        ELSE IF opc = 99  THEN IF BranchMn[f3 + 1] = "?" THEN Illegal(4)    \* 1100011
                               ELSE Ins(BranchMn[f3 + 1], 0, rs1, rs2, SignExt(Gather(b, MapB), 13), 4)
        ELSE IF opc = 3   THEN IF LoadMn[f3 + 1] = "?" THEN Illegal(4)      \* 0000011
                               ELSE Ins(LoadMn[f3 + 1], rd, rs1, 0, immI, 4)
        ELSE IF opc = 35  THEN IF StoreMn[f3 + 1] = "?" THEN Illegal(4)     \* 0100011
                               ELSE Ins(StoreMn[f3 + 1], 0, rs1, rs2, SignExt(Gather(b, MapS), 12), 4)
        ELSE IF opc = 19  THEN                                              \* 0010011
             IF f3 = 1 THEN IF f7 = 0 THEN Ins("slli", rd, rs1, 0, rs2, 4) ELSE Illegal(4)
             ELSE IF f3 = 5 THEN IF f7 = 0 THEN Ins("srli", rd, rs1, 0, rs2, 4)
                                 ELSE IF f7 = 32 THEN Ins("srai", rd, rs1, 0, rs2, 4) ELSE Illegal(4)
             ELSE Ins(OpImmMn[f3 + 1], rd, rs1, 0, immI, 4)
        ELSE IF opc = 51  THEN                                              \* 0110011
             IF f7 = 0 THEN Ins(OpMn[f3 + 1], rd, rs1, rs2, 0, 4)
             ELSE IF f7 = 32 THEN IF f3 = 0 THEN Ins("sub", rd, rs1, rs2, 0, 4)
                                  ELSE IF f3 = 5 THEN Ins("sra", rd, rs1, rs2, 0, 4) ELSE Illegal(4)
             ELSE IF f7 = 1 THEN Ins(MulMn[f3 + 1], rd, rs1, rs2, 0, 4)
             ELSE Illegal(4)
        ELSE IF opc = 115 THEN                                              \* 1110011
             LET csr == Gather(b, MapI) IN
             IF f3 = 0 THEN
                 IF rd # 0 \/ rs1 # 0 THEN Unsupported(4)                 \* sfence.vma etc.
                 ELSE IF csr = 0 THEN Ins("ecall", 0, 0, 0, 0, 4)
                 ELSE IF csr = 1 THEN Ins("ebreak", 0, 0, 0, 0, 4)
                 ELSE IF csr = 770 THEN Ins("mret", 0, 0, 0, 0, 4)        \* 0011000 00010
                 ELSE Unsupported(4)
             ELSE IF CsrMn[f3 + 1] = "?" THEN Illegal(4)
             ELSE Ins(CsrMn[f3 + 1], rd, rs1, 0, csr, 4)
        ELSE Unsupported(4)                                                 \* FENCE, LOAD-FP, AMO, OP-FP, custom ...

Decode16(b) ==
    LET op == Fld(b, 1, 0)   f3 == Fld(b, 15, 13)   b12 == IBit(b, 12)
        rdf == Fld(b, 11, 7) rs2f == Fld(b, 6, 2)
        rdp == Fld(b, 4, 2) + 8                      \* rd' / rs2' in bits 4..2
        rs1p == Fld(b, 9, 7) + 8                     \* rs1' / rd' in bits 9..7
        imm6 == SignExt(Gather(b, MapCI), 6)
        sh == Gather(b, MapCI)
    IN  IF op = 3 THEN Illegal(2)
        ELSE IF Fld(b, 15, 0) = 0 THEN Illegal(2)                           \* defined illegal instruction
        ELSE IF op = 0 THEN
             IF f3 = 0 THEN IF Gather(b, MapCIW) = 0 THEN Illegal(2)        \* nzuimm = 0 reserved
                            ELSE Ins("c.addi4spn", rdp, 2, 0, Gather(b, MapCIW), 2)
             ELSE IF f3 = 2 THEN Ins("c.lw", rdp, rs1p, 0, Gather(b, MapCLS), 2)
             ELSE IF f3 = 6 THEN Ins("c.sw", 0, rs1p, rdp, Gather(b, MapCLS), 2)
             ELSE IF f3 = 4 THEN Illegal(2)                                 \* reserved
             ELSE Unsupported(2)                                            \* c.fld c.flw c.fsd c.fsw
        ELSE IF op = 1 THEN
             IF f3 = 0 THEN IF rdf = 0 THEN Ins("c.nop", 0, 0, 0, imm6, 2)
                            ELSE Ins("c.addi", rdf, rdf, 0, imm6, 2)
             ELSE IF f3 = 1 THEN Ins("c.jal", 1, 0, 0, SignExt(Gather(b, MapCJ), 12), 2)      \* RV32 only
             ELSE IF f3 = 2 THEN Ins("c.li", rdf, 0, 0, imm6, 2)
             ELSE IF f3 = 3 THEN
                  IF rdf = 2 THEN IF Gather(b, MapCI16sp) = 0 THEN Illegal(2)               \* nzimm = 0 reserved
                                  ELSE Ins("c.addi16sp", 2, 2, 0, SignExt(Gather(b, MapCI16sp), 10), 2)
                  ELSE IF imm6 = 0 THEN Illegal(2)                                           \* nzimm = 0 reserved
                  ELSE Ins("c.lui", rdf, 0, 0, imm6, 2)
             ELSE IF f3 = 4 THEN
                  LET f2 == Fld(b, 11, 10) IN
                  IF f2 = 0 THEN IF b12 = 1 THEN Illegal(2) ELSE Ins("c.srli", rs1p, rs1p, 0, sh, 2)   \* shamt[5]=1: RV32 NSE
                  ELSE IF f2 = 1 THEN IF b12 = 1 THEN Illegal(2) ELSE Ins("c.srai", rs1p, rs1p, 0, sh, 2)
                  ELSE IF f2 = 2 THEN Ins("c.andi", rs1p, rs1p, 0, imm6, 2)
                  ELSE IF b12 = 1 THEN Illegal(2)                                            \* c.subw/c.addw: RV64
                  ELSE Ins(<<"c.sub", "c.xor", "c.or", "c.and">>[Fld(b, 6, 5) + 1], rs1p, rs1p, rdp, 0, 2)
             ELSE IF f3 = 5 THEN Ins("c.j", 0, 0, 0, SignExt(Gather(b, MapCJ), 12), 2)
             ELSE IF f3 = 6 THEN Ins("c.beqz", 0, rs1p, 0, SignExt(Gather(b, MapCB), 9), 2)
             ELSE Ins("c.bnez", 0, rs1p, 0, SignExt(Gather(b, MapCB), 9), 2)
        ELSE \* op = 2
             IF f3 = 0 THEN IF b12 = 1 THEN Illegal(2) ELSE Ins("c.slli", rdf, rdf, 0, sh, 2)
             ELSE IF f3 = 2 THEN IF rdf = 0 THEN Illegal(2)                                   \* rd = 0 reserved
                                 ELSE Ins("c.lwsp", rdf, 2, 0, Gather(b, MapCLwsp), 2)
             ELSE IF f3 = 4 THEN
                  IF b12 = 0 THEN IF rs2f = 0 THEN IF rdf = 0 THEN Illegal(2)               \* c.jr x0 reserved
                                                   ELSE Ins("c.jr", 0, rdf, 0, 0, 2)
                                  ELSE Ins("c.mv", rdf, 0, rs2f, 0, 2)
                  ELSE IF rs2f = 0 THEN IF rdf = 0 THEN Ins("c.ebreak", 0, 0, 0, 0, 2)
                                        ELSE Ins("c.jalr", 1, rdf, 0, 0, 2)
                  ELSE Ins("c.add", rdf, rdf, rs2f, 0, 2)
             ELSE IF f3 = 6 THEN Ins("c.swsp", 0, 2, rs2f, Gather(b, MapCSwsp), 2)
             ELSE Unsupported(2)                                            \* c.fldsp c.flwsp c.fsdsp c.fswsp

IsBytes(b) == DOMAIN b = 1..Len(b) /\ \A k \in 1..Len(b) : b[k] \in 0..255
\* The length is determined by the two low bits of the first parcel.
InsnLen(b) == IF b[1] % 4 = 3 THEN 4 ELSE 2
Decode(b) == IF ~IsBytes(b) \/ Len(b) \notin {2, 4} THEN Illegal(0)
             ELSE IF Len(b) # InsnLen(b) THEN Illegal(Len(b))
             ELSE IF Len(b) = 2 THEN Decode16(b) ELSE Decode32(b)

-----------------------------------------------------------------------------
(* Compressed instruction -> the base instruction it is defined to be        *)
(* (chapter "C": "each RVC instruction expands into a single 32-bit ...").   *)
Expand(i) ==
    LET m == i.mn  B(mn, rd, rs1, rs2, imm) == Ins(mn, rd, rs1, rs2, imm, i.len) IN
    CASE m = "c.addi4spn" -> B("addi", i.rd, 2, 0, i.imm)
      [] m = "c.lw"       -> B("lw", i.rd, i.rs1, 0, i.imm)
      [] m = "c.sw"       -> B("sw", 0, i.rs1, i.rs2, i.imm)
      [] m = "c.nop"      -> B("addi", 0, 0, 0, i.imm)
      [] m = "c.addi"     -> B("addi", i.rd, i.rd, 0, i.imm)
      [] m = "c.jal"      -> B("jal", 1, 0, 0, i.imm)
      [] m = "c.li"       -> B("addi", i.rd, 0, 0, i.imm)
      [] m = "c.addi16sp" -> B("addi", 2, 2, 0, i.imm)
      [] m = "c.lui"      -> B("lui", i.rd, 0, 0, ToPattern(i.imm, 20))     \* sign-extended nzimm[17:12]
      [] m = "c.srli"     -> B("srli", i.rd, i.rd, 0, i.imm)
      [] m = "c.srai"     -> B("srai", i.rd, i.rd, 0, i.imm)
      [] m = "c.andi"     -> B("andi", i.rd, i.rd, 0, i.imm)
      [] m = "c.sub"      -> B("sub", i.rd, i.rd, i.rs2, 0)
      [] m = "c.xor"      -> B("xor", i.rd, i.rd, i.rs2, 0)
      [] m = "c.or"       -> B("or", i.rd, i.rd, i.rs2, 0)
      [] m = "c.and"      -> B("and", i.rd, i.rd, i.rs2, 0)
      [] m = "c.j"        -> B("jal", 0, 0, 0, i.imm)
      [] m = "c.beqz"     -> B("beq", 0, i.rs1, 0, i.imm)
      [] m = "c.bnez"     -> B("bne", 0, i.rs1, 0, i.imm)
      [] m = "c.slli"     -> B("slli", i.rd, i.rd, 0, i.imm)
      [] m = "c.lwsp"     -> B("lw", i.rd, 2, 0, i.imm)
      [] m = "c.jr"       -> B("jalr", 0, i.rs1, 0, 0)
      [] m = "c.mv"       -> B("add", i.rd, 0, i.rs2, 0)
      [] m = "c.ebreak"   -> B("ebreak", 0, 0, 0, 0)
      [] m = "c.jalr"     -> B("jalr", 1, i.rs1, 0, 0)
      [] m = "c.add"      -> B("add", i.rd, i.rd, i.rs2, 0)
      [] m = "c.swsp"     -> B("sw", 0, 2, i.rs2, i.imm)
      [] OTHER            -> i

-----------------------------------------------------------------------------
(* Immediate operand of each mnemonic: kind, width, alignment.               *)
(*   "s"  two's-complement signed field of `bits` bits (after scaling)       *)
(*   "u"  unsigned field                                                     *)
(*   "p"  raw bit pattern (U-type: the field is the upper 20 bits of a word; *)
(*        assemblers accept 0..2^20-1, ppci's own `li` also hands in the     *)
(*        sign-extended form -2^19..-1: both readings denote the pattern     *)
(*        v mod 2^20)                                                        *)
(*   "n"  no immediate operand                                               *)
(* bits counts the bits of the VALUE (incl. the implied low zero bits),      *)
(* align = required divisor, nz = value 0 is a reserved encoding.            *)
FR(kind, bits, align, nz) == [kind |-> kind, bits |-> bits, align |-> align, nz |-> nz]
FieldRange(mn) ==
    IF mn \in {"addi", "slti", "sltiu", "xori", "ori", "andi", "jalr",
               "lb", "lh", "lw", "lbu", "lhu", "sb", "sh", "sw"} THEN FR("s", 12, 1, FALSE)
    ELSE IF mn \in {"slli", "srli", "srai"} THEN FR("u", 5, 1, FALSE)
    ELSE IF mn \in {"lui", "auipc"} THEN FR("p", 20, 1, FALSE)
    ELSE IF mn \in {"beq", "bne", "blt", "bge", "bltu", "bgeu"} THEN FR("s", 13, 2, FALSE)
    ELSE IF mn = "jal" THEN FR("s", 21, 2, FALSE)
    ELSE IF mn \in {"csrrw", "csrrs", "csrrc", "csrrwi", "csrrsi", "csrrci"} THEN FR("u", 12, 1, FALSE)
    ELSE IF mn \in {"c.addi", "c.li", "c.andi", "c.nop"} THEN FR("s", 6, 1, FALSE)
    ELSE IF mn = "c.lui" THEN FR("s", 6, 1, TRUE)
    ELSE IF mn \in {"c.slli", "c.srli", "c.srai"} THEN FR("u", 5, 1, FALSE)      \* RV32: shamt[5] = 0
    ELSE IF mn = "c.addi4spn" THEN FR("u", 10, 4, TRUE)
    ELSE IF mn = "c.addi16sp" THEN FR("s", 10, 16, TRUE)
    ELSE IF mn \in {"c.lwsp", "c.swsp"} THEN FR("u", 8, 4, FALSE)
    ELSE IF mn \in {"c.lw", "c.sw"} THEN FR("u", 7, 4, FALSE)
    ELSE IF mn \in {"c.beqz", "c.bnez"} THEN FR("s", 9, 2, FALSE)
    ELSE IF mn \in {"c.j", "c.jal"} THEN FR("s", 12, 2, FALSE)
    ELSE FR("n", 0, 1, FALSE)
\* the 5-bit zimm of csrr?i (held in the rs1 slot)
UimmRange == FR("u", 5, 1, FALSE)

FMin(fr) == IF fr.kind = "s" THEN -P2(fr.bits - 1) ELSE IF fr.kind = "p" THEN -P2(fr.bits - 1) ELSE 0
FMax(fr) == IF fr.kind = "s" THEN P2(fr.bits - 1) - fr.align ELSE P2(fr.bits) - fr.align
Representable(fr, v) == /\ fr.kind # "n"
                        /\ FMin(fr) <= v /\ v <= FMax(fr)
                        /\ v % fr.align = 0
                        /\ ~(fr.nz /\ v = 0)
\* what a decoder reads back for a representable operand value
FieldValue(fr, v) == IF fr.kind = "p" THEN ToPattern(v, fr.bits) ELSE v
\* (the labelled boundary product of C10 is enumerated from these definitions in RV32_Gen.tla)

-----------------------------------------------------------------------------
(* Encode: the inverse of Decode, built from the same field tables.  Used by *)
(* the laws of RV32_MC (Decode(Encode(i)) = i on well-formed i, and          *)
(* Encode(Decode(b)) = b on every legal 16-bit pattern).                     *)
(* A part is <<value, map>>: value bits are placed by the map.  Bit 31 is    *)
(* summed separately (TLC integers are 32-bit signed).                       *)
F(hi, lo) == << <<hi, lo, 0>> >>
PartLow(v, e) == LET w == e[1] - e[2] + 1  sl == (v \div P2(e[3])) % P2(w) IN
                 IF e[1] = 31 THEN (IF e[2] = 31 THEN 0 ELSE (sl % P2(w - 1)) * P2(e[2])) ELSE sl * P2(e[2])
PartTop(v, e) == IF e[1] = 31 THEN ((v \div P2(e[3])) \div P2(e[1] - e[2])) % 2 ELSE 0
RECURSIVE MapLow(_, _, _), MapTop(_, _, _), PartsLow(_, _), PartsTop(_, _)
MapLow(v, map, k) == IF k > Len(map) THEN 0 ELSE PartLow(v, map[k]) + MapLow(v, map, k + 1)
MapTop(v, map, k) == IF k > Len(map) THEN 0 ELSE PartTop(v, map[k]) + MapTop(v, map, k + 1)
PartsLow(ps, k) == IF k > Len(ps) THEN 0 ELSE MapLow(ps[k][1], ps[k][2], 1) + PartsLow(ps, k + 1)
PartsTop(ps, k) == IF k > Len(ps) THEN 0 ELSE MapTop(ps[k][1], ps[k][2], 1) + PartsTop(ps, k + 1)
Assemble(ps, n) == LET lo == PartsLow(ps, 1)  top == PartsTop(ps, 1) IN
    IF n = 2 THEN <<lo % 256, (lo \div 256) % 256>>
    ELSE <<lo % 256, (lo \div 256) % 256, (lo \div 65536) % 256, (lo \div 16777216) + 128 * top>>
\* instruction bit positions named by a map / by the parts of a format (for the coverage law)
MapBits(map) == UNION {map[k][2]..map[k][1] : k \in 1..Len(map)}
MapWidth(map) == LET RECURSIVE w(_)  w(k) == IF k > Len(map) THEN 0 ELSE map[k][1] - map[k][2] + 1 + w(k + 1) IN w(1)
IdxOf(t, x) == CHOOSE k \in 1..Len(t) : t[k] = x
InTab(t, x) == \E k \in 1..Len(t) : t[k] = x /\ x # "?"
CAluMn == <<"c.sub", "c.xor", "c.or", "c.and">>

Parts(i) ==
    LET m == i.mn
        opc(v) == <<v, F(6, 0)>>     rd == <<i.rd, F(11, 7)>>    f3(v) == <<v, F(14, 12)>>
        rs1 == <<i.rs1, F(19, 15)>>  rs2 == <<i.rs2, F(24, 20)>> f7(v) == <<v, F(31, 25)>>
        immI == <<ToPattern(i.imm, 12), MapI>>
        cop(v) == <<v, F(1, 0)>>     cf3(v) == <<v, F(15, 13)>>  b12(v) == <<v, F(12, 12)>>
        crd == <<i.rd, F(11, 7)>>    crs2 == <<i.rs2, F(6, 2)>>
        lo3(r) == <<r - 8, F(4, 2)>> hi3(r) == <<r - 8, F(9, 7)>>
        ci6 == <<ToPattern(i.imm, 6), MapCI>>
    IN
    IF m = "lui" THEN <<opc(55), rd, <<i.imm, MapU>> >>
    ELSE IF m = "auipc" THEN <<opc(23), rd, <<i.imm, MapU>> >>
    ELSE IF m = "jal" THEN <<opc(111), rd, <<ToPattern(i.imm, 21), MapJ>> >>
    ELSE IF m = "jalr" THEN <<opc(103), rd, f3(0), rs1, immI>>
    ELSE IF InTab(BranchMn, m) THEN <<opc(99), f3(IdxOf(BranchMn, m) - 1), rs1, rs2, <<ToPattern(i.imm, 13), MapB>> >>
    ELSE IF InTab(LoadMn, m) THEN <<opc(3), rd, f3(IdxOf(LoadMn, m) - 1), rs1, immI>>
    ELSE IF InTab(StoreMn, m) THEN <<opc(35), f3(IdxOf(StoreMn, m) - 1), rs1, rs2, <<ToPattern(i.imm, 12), MapS>> >>
    ELSE IF InTab(OpImmMn, m) THEN <<opc(19), rd, f3(IdxOf(OpImmMn, m) - 1), rs1, immI>>
    ELSE IF m = "slli" THEN <<opc(19), rd, f3(1), rs1, <<i.imm, MapShamt>>, f7(0)>>
    ELSE IF m = "srli" THEN <<opc(19), rd, f3(5), rs1, <<i.imm, MapShamt>>, f7(0)>>
    ELSE IF m = "srai" THEN <<opc(19), rd, f3(5), rs1, <<i.imm, MapShamt>>, f7(32)>>
    ELSE IF m = "sub" THEN <<opc(51), rd, f3(0), rs1, rs2, f7(32)>>
    ELSE IF m = "sra" THEN <<opc(51), rd, f3(5), rs1, rs2, f7(32)>>
    ELSE IF InTab(OpMn, m) THEN <<opc(51), rd, f3(IdxOf(OpMn, m) - 1), rs1, rs2, f7(0)>>
    ELSE IF InTab(MulMn, m) THEN <<opc(51), rd, f3(IdxOf(MulMn, m) - 1), rs1, rs2, f7(1)>>
    ELSE IF m = "ecall" THEN <<opc(115)>>
    ELSE IF m = "ebreak" THEN <<opc(115), <<1, MapI>> >>
    ELSE IF m = "mret" THEN <<opc(115), <<770, MapI>> >>
    ELSE IF InTab(CsrMn, m) THEN <<opc(115), rd, f3(IdxOf(CsrMn, m) - 1), rs1, <<i.imm, MapI>> >>
    \* compressed
    ELSE IF m = "c.addi4spn" THEN <<cop(0), cf3(0), lo3(i.rd), <<i.imm, MapCIW>> >>
    ELSE IF m = "c.lw" THEN <<cop(0), cf3(2), lo3(i.rd), hi3(i.rs1), <<i.imm, MapCLS>> >>
    ELSE IF m = "c.sw" THEN <<cop(0), cf3(6), lo3(i.rs2), hi3(i.rs1), <<i.imm, MapCLS>> >>
    ELSE IF m = "c.nop" THEN <<cop(1), cf3(0), ci6>>
    ELSE IF m = "c.addi" THEN <<cop(1), cf3(0), crd, ci6>>
    ELSE IF m = "c.jal" THEN <<cop(1), cf3(1), <<ToPattern(i.imm, 12), MapCJ>> >>
    ELSE IF m = "c.li" THEN <<cop(1), cf3(2), crd, ci6>>
    ELSE IF m = "c.addi16sp" THEN <<cop(1), cf3(3), <<2, F(11, 7)>>, <<ToPattern(i.imm, 10), MapCI16sp>> >>
    ELSE IF m = "c.lui" THEN <<cop(1), cf3(3), crd, ci6>>
    ELSE IF m = "c.srli" THEN <<cop(1), cf3(4), <<0, F(11, 10)>>, hi3(i.rd), <<i.imm, MapCI>> >>
    ELSE IF m = "c.srai" THEN <<cop(1), cf3(4), <<1, F(11, 10)>>, hi3(i.rd), <<i.imm, MapCI>> >>
    ELSE IF m = "c.andi" THEN <<cop(1), cf3(4), <<2, F(11, 10)>>, hi3(i.rd), ci6>>
    ELSE IF InTab(CAluMn, m) THEN <<cop(1), cf3(4), <<3, F(11, 10)>>, b12(0), hi3(i.rd),
                                    <<IdxOf(CAluMn, m) - 1, F(6, 5)>>, lo3(i.rs2)>>
    ELSE IF m = "c.j" THEN <<cop(1), cf3(5), <<ToPattern(i.imm, 12), MapCJ>> >>
    ELSE IF m = "c.beqz" THEN <<cop(1), cf3(6), hi3(i.rs1), <<ToPattern(i.imm, 9), MapCB>> >>
    ELSE IF m = "c.bnez" THEN <<cop(1), cf3(7), hi3(i.rs1), <<ToPattern(i.imm, 9), MapCB>> >>
    ELSE IF m = "c.slli" THEN <<cop(2), cf3(0), crd, <<i.imm, MapCI>> >>
    ELSE IF m = "c.lwsp" THEN <<cop(2), cf3(2), crd, <<i.imm, MapCLwsp>> >>
    ELSE IF m = "c.jr" THEN <<cop(2), cf3(4), b12(0), <<i.rs1, F(11, 7)>> >>
    ELSE IF m = "c.mv" THEN <<cop(2), cf3(4), b12(0), crd, crs2>>
    ELSE IF m = "c.ebreak" THEN <<cop(2), cf3(4), b12(1)>>
    ELSE IF m = "c.jalr" THEN <<cop(2), cf3(4), b12(1), <<i.rs1, F(11, 7)>> >>
    ELSE IF m = "c.add" THEN <<cop(2), cf3(4), b12(1), crd, crs2>>
    ELSE IF m = "c.swsp" THEN <<cop(2), cf3(6), crs2, <<i.imm, MapCSwsp>> >>
    ELSE << >>
Encode(i) == Assemble(Parts(i), i.len)

\* Every mnemonic of the model
Mn32 == {"lui", "auipc", "jal", "jalr", "beq", "bne", "blt", "bge", "bltu", "bgeu",
         "lb", "lh", "lw", "lbu", "lhu", "sb", "sh", "sw",
         "addi", "slti", "sltiu", "xori", "ori", "andi", "slli", "srli", "srai",
         "add", "sub", "sll", "slt", "sltu", "xor", "srl", "sra", "or", "and",
         "mul", "mulh", "mulhsu", "mulhu", "div", "divu", "rem", "remu",
         "ecall", "ebreak", "mret", "csrrw", "csrrs", "csrrc", "csrrwi", "csrrsi", "csrrci"}
Mn16 == {"c.addi4spn", "c.lw", "c.sw", "c.nop", "c.addi", "c.jal", "c.li", "c.addi16sp", "c.lui",
         "c.srli", "c.srai", "c.andi", "c.sub", "c.xor", "c.or", "c.and", "c.j", "c.beqz", "c.bnez",
         "c.slli", "c.lwsp", "c.jr", "c.mv", "c.ebreak", "c.jalr", "c.add", "c.swsp"}

\* which register slots a mnemonic has (others must be 0 in an Ins record)
HasRd(m)  == m \in {"lui", "auipc", "jal", "jalr", "addi", "slti", "sltiu", "xori", "ori", "andi", "slli", "srli", "srai",
                    "csrrw", "csrrs", "csrrc", "csrrwi", "csrrsi", "csrrci"}
             \/ InTab(LoadMn, m) \/ InTab(OpMn, m) \/ InTab(MulMn, m) \/ m \in {"sub", "sra"}
HasRs1(m) == m \in {"jalr", "addi", "slti", "sltiu", "xori", "ori", "andi", "slli", "srli", "srai",
                    "csrrw", "csrrs", "csrrc", "csrrwi", "csrrsi", "csrrci", "sub", "sra"}
             \/ InTab(LoadMn, m) \/ InTab(StoreMn, m) \/ InTab(BranchMn, m) \/ InTab(OpMn, m) \/ InTab(MulMn, m)
HasRs2(m) == InTab(StoreMn, m) \/ InTab(BranchMn, m) \/ InTab(OpMn, m) \/ InTab(MulMn, m) \/ m \in {"sub", "sra"}
PrimeReg(r) == r \in 8..15
\* Well-formed (encodable) instruction records: the domain on which Decode(Encode(i)) = i.
WF(i) ==
    LET m == i.mn  fr == FieldRange(m) IN
    /\ i.rd \in 0..31 /\ i.rs1 \in 0..31 /\ i.rs2 \in 0..31
    /\ IF fr.kind = "n" THEN i.imm = 0
       ELSE IF fr.kind = "p" THEN i.imm \in 0..(P2(fr.bits) - 1)
       ELSE Representable(fr, i.imm)
    /\ IF m \in Mn32 THEN
          /\ i.len = 4
          /\ (HasRd(m) \/ i.rd = 0) /\ (HasRs1(m) \/ i.rs1 = 0) /\ (HasRs2(m) \/ i.rs2 = 0)
       ELSE
          /\ m \in Mn16 /\ i.len = 2
          /\ CASE m = "c.addi4spn" -> PrimeReg(i.rd) /\ i.rs1 = 2 /\ i.rs2 = 0
               [] m = "c.lw"   -> PrimeReg(i.rd) /\ PrimeReg(i.rs1) /\ i.rs2 = 0
               [] m = "c.sw"   -> i.rd = 0 /\ PrimeReg(i.rs1) /\ PrimeReg(i.rs2)
               [] m = "c.nop"  -> i.rd = 0 /\ i.rs1 = 0 /\ i.rs2 = 0
               [] m = "c.addi" -> i.rd # 0 /\ i.rs1 = i.rd /\ i.rs2 = 0
               [] m \in {"c.li", "c.lui"} -> i.rs1 = 0 /\ i.rs2 = 0 /\ (m = "c.lui" => i.rd # 2)
               [] m = "c.jal"  -> i.rd = 1 /\ i.rs1 = 0 /\ i.rs2 = 0
               [] m = "c.j"    -> i.rd = 0 /\ i.rs1 = 0 /\ i.rs2 = 0
               [] m = "c.addi16sp" -> i.rd = 2 /\ i.rs1 = 2 /\ i.rs2 = 0
               [] m \in {"c.srli", "c.srai", "c.andi"} -> PrimeReg(i.rd) /\ i.rs1 = i.rd /\ i.rs2 = 0
               [] InTab(CAluMn, m) -> PrimeReg(i.rd) /\ i.rs1 = i.rd /\ PrimeReg(i.rs2)
               [] m \in {"c.beqz", "c.bnez"} -> i.rd = 0 /\ PrimeReg(i.rs1) /\ i.rs2 = 0
               [] m = "c.slli" -> i.rs1 = i.rd /\ i.rs2 = 0
               [] m = "c.lwsp" -> i.rd # 0 /\ i.rs1 = 2 /\ i.rs2 = 0
               [] m = "c.jr"   -> i.rd = 0 /\ i.rs1 # 0 /\ i.rs2 = 0
               [] m = "c.jalr" -> i.rd = 1 /\ i.rs1 # 0 /\ i.rs2 = 0
               [] m = "c.mv"   -> i.rs1 = 0 /\ i.rs2 # 0
               [] m = "c.add"  -> i.rs1 = i.rd /\ i.rs2 # 0
               [] m = "c.ebreak" -> i.rd = 0 /\ i.rs1 = 0 /\ i.rs2 = 0
               [] m = "c.swsp" -> i.rd = 0 /\ i.rs1 = 2

-----------------------------------------------------------------------------
(* Meaning of a printed assembly line: mnemonic + operand tokens in textual  *)
(* order (chapter "RISC-V Assembly Programmer's Handbook", incl. the table   *)
(* of pseudo-instructions).  An operand token is <<k, v, s>>:                *)
(*   k = "r" integer register v      k = "i" integer literal v               *)
(*   k = "c" CSR named s             k = "l" symbol s (v = S - P as integer) *)
(*   k = "m" relocation modifier s ("pcrel_hi" / "pcrel_lo")                 *)
(* sym / pc: absolute address of the symbol / of the instruction (words).    *)
(* The result is the instruction the line denotes (not necessarily           *)
(* encodable: see WF), or NoAsm when the line is not in the modelled syntax. *)
NoAsm == Ins("noasm", 0, 0, 0, 0, 0)
Kinds(ops) == Mk([j \in 1..Len(ops) |-> ops[j][1]])
\* CSR addresses (Volume II, "CSR Listing"; Volume I "Zicntr")
CsrNum(s) == CASE s = "mstatus" -> 768 [] s = "misa" -> 769 [] s = "mie" -> 772 [] s = "mtvec" -> 773
               [] s = "mscratch" -> 832 [] s = "mepc" -> 833 [] s = "mcause" -> 834 [] s = "mtval" -> 835
               [] s = "mip" -> 836 [] s = "mhartid" -> 3860 [] s = "fflags" -> 1 [] s = "frm" -> 2 [] s = "fcsr" -> 3
               [] s = "cycle" -> 3072 [] s = "time" -> 3073 [] s = "instret" -> 3074
               [] s = "cycleh" -> 3200 [] s = "timeh" -> 3201 [] s = "instreth" -> 3202
               [] OTHER -> -1
\* %hi / %lo split of a 32-bit value: value = (Hi20 << 12) + sext(Lo12)   (handbook: "lui/addi pair")
Hi20(w) == LET t == WAdd(w, <<0, 8, 0, 0>>) IN (t[2] \div 16) + 16 * t[3] + 4096 * t[4]
Lo12(w) == SignExt(w[1] + 256 * (w[2] % 16), 12)
Four == <<4, 0, 0, 0>>
\* spellings that differ from the manual's mnemonic (the operation is the same)
Spelling(m) == CASE m = "c.bneqz" -> "c.bnez" [] m = "bneq" -> "bne" [] OTHER -> m

AsmB(m, ks, ops, sym, pc) ==
    LET n == Len(ops)
        v(j) == ops[j][2]
        rrr == ks = <<"r", "r", "r">>   rri == ks = <<"r", "r", "i">>   rir == ks = <<"r", "i", "r">>
        rrl == ks = <<"r", "r", "l">>   rr == ks = <<"r", "r">>         ri == ks = <<"r", "i">>
        rl == ks = <<"r", "l">>         r1 == ks = <<"r">>              l1 == ks = <<"l">>
        swapped == CASE m = "bgt" -> "blt" [] m = "ble" -> "bge" [] m = "bgtu" -> "bltu" [] m = "bleu" -> "bgeu" [] OTHER -> "?"
        counter == CASE m = "rdcycle" -> 3072 [] m = "rdtime" -> 3073 [] m = "rdinstret" -> 3074
                     [] m = "rdcycleh" -> 3200 [] m = "rdtimeh" -> 3201 [] m = "rdinstreth" -> 3202 [] OTHER -> -1
    IN
    IF InTab(OpMn, m) \/ InTab(MulMn, m) \/ m \in {"sub", "sra"} THEN
        IF rrr THEN Ins(m, v(1), v(2), v(3), 0, 4) ELSE NoAsm
    ELSE IF InTab(OpImmMn, m) THEN
        IF rri THEN Ins(m, v(1), v(2), 0, v(3), 4)
        ELSE IF rrl /\ m = "addi" THEN Ins(m, v(1), v(2), 0, Lo12(sym), 4)                \* addi rd, rs, %lo(sym)
        ELSE IF rl /\ m = "addi" THEN Ins(m, v(1), v(1), 0, Lo12(WAdd(WSub(sym, pc), Four)), 4)
                                                              \* addi rd, rd, %pcrel_lo: the auipc is the previous instruction
        ELSE NoAsm
    ELSE IF m \in {"slli", "srli", "srai"} THEN IF rri THEN Ins(m, v(1), v(2), 0, v(3), 4) ELSE NoAsm
    ELSE IF InTab(LoadMn, m) THEN
        IF rir THEN Ins(m, v(1), v(3), 0, v(2), 4)
        ELSE IF ks = <<"r", "m", "l", "r">> /\ ops[2][3] = "pcrel_lo"
             THEN Ins(m, v(1), v(4), 0, Lo12(WAdd(WSub(sym, pc), Four)), 4)
        ELSE NoAsm
    ELSE IF InTab(StoreMn, m) THEN IF rir THEN Ins(m, 0, v(3), v(1), v(2), 4) ELSE NoAsm
    ELSE IF InTab(BranchMn, m) THEN IF rrl \/ rri THEN Ins(m, 0, v(1), v(2), v(3), 4) ELSE NoAsm
    ELSE IF swapped # "?" THEN IF rrl \/ rri THEN Ins(swapped, 0, v(2), v(1), v(3), 4) ELSE NoAsm
    ELSE IF m = "jal" THEN IF rl \/ ri THEN Ins("jal", v(1), 0, 0, v(2), 4)
                           ELSE IF l1 THEN Ins("jal", 1, 0, 0, v(1), 4) ELSE NoAsm
    ELSE IF m = "j" THEN IF l1 \/ ks = <<"i">> THEN Ins("jal", 0, 0, 0, v(1), 4) ELSE NoAsm
    ELSE IF m = "jalr" THEN IF rri THEN Ins("jalr", v(1), v(2), 0, v(3), 4)
                            ELSE IF rir THEN Ins("jalr", v(1), v(3), 0, v(2), 4)
                            ELSE IF r1 THEN Ins("jalr", 1, v(1), 0, 0, 4) ELSE NoAsm
    ELSE IF m = "jr" THEN IF r1 THEN Ins("jalr", 0, v(1), 0, 0, 4) ELSE NoAsm
    ELSE IF m = "ret" THEN IF n = 0 THEN Ins("jalr", 0, 1, 0, 0, 4) ELSE NoAsm
    ELSE IF m = "lui" THEN IF ri THEN Ins("lui", v(1), 0, 0, v(2), 4)
                           ELSE IF rl THEN Ins("lui", v(1), 0, 0, Hi20(sym), 4) ELSE NoAsm     \* lui rd, %hi(sym)
    ELSE IF m = "auipc" THEN IF ri THEN Ins("auipc", v(1), 0, 0, v(2), 4)
                             ELSE IF ks = <<"r", "m", "l">> /\ ops[2][3] = "pcrel_hi"
                                  THEN Ins("auipc", v(1), 0, 0, Hi20(WSub(sym, pc)), 4) ELSE NoAsm
    ELSE IF m = "mv" THEN IF rr THEN Ins("addi", v(1), v(2), 0, 0, 4) ELSE NoAsm
    ELSE IF m = "nop" THEN IF n = 0 THEN Ins("addi", 0, 0, 0, 0, 4) ELSE NoAsm
    ELSE IF m \in {"ecall", "ebreak", "mret"} THEN IF n = 0 THEN Ins(m, 0, 0, 0, 0, 4) ELSE NoAsm
    ELSE IF m \in {"csrrw", "csrrs", "csrrc"} THEN
        IF ks = <<"r", "c", "r">> THEN Ins(m, v(1), v(3), 0, CsrNum(ops[2][3]), 4) ELSE NoAsm
    ELSE IF m \in {"csrrwi", "csrrsi", "csrrci"} THEN
        IF ks = <<"r", "c", "i">> THEN Ins(m, v(1), v(3), 0, CsrNum(ops[2][3]), 4) ELSE NoAsm
    ELSE IF m = "csrr" THEN IF ks = <<"r", "c">> THEN Ins("csrrs", v(1), 0, 0, CsrNum(ops[2][3]), 4) ELSE NoAsm
    ELSE IF m \in {"csrw", "csrs", "csrc"} THEN
        IF ks = <<"c", "r">> THEN Ins(CASE m = "csrw" -> "csrrw" [] m = "csrs" -> "csrrs" [] OTHER -> "csrrc",
                                      0, v(2), 0, CsrNum(ops[1][3]), 4) ELSE NoAsm
    ELSE IF m \in {"csrwi", "csrsi", "csrci"} THEN
        IF ks = <<"c", "i">> THEN Ins(CASE m = "csrwi" -> "csrrwi" [] m = "csrsi" -> "csrrsi" [] OTHER -> "csrrci",
                                      0, v(2), 0, CsrNum(ops[1][3]), 4) ELSE NoAsm
    ELSE IF counter >= 0 THEN IF r1 THEN Ins("csrrs", v(1), 0, 0, counter, 4) ELSE NoAsm
    \* ---- compressed (operands of the expansion, see Decode16) ----
    ELSE IF InTab(CAluMn, m) THEN IF rr THEN Ins(m, v(1), v(1), v(2), 0, 2) ELSE NoAsm
    ELSE IF m \in {"c.mv", "c.add"} THEN
        IF rr THEN Ins(m, v(1), IF m = "c.mv" THEN 0 ELSE v(1), v(2), 0, 2) ELSE NoAsm
    ELSE IF m \in {"c.slli", "c.srli", "c.srai", "c.andi", "c.addi"} THEN
        IF ri THEN Ins(m, v(1), v(1), 0, v(2), 2)
        ELSE IF rri THEN Ins(m, v(1), v(2), 0, v(3), 2)        \* three-operand spelling "rd, rs, imm": rd = rs op imm
        ELSE NoAsm
    ELSE IF m \in {"c.li", "c.lui"} THEN
        IF ri THEN Ins(m, v(1), 0, 0, IF m = "c.lui" /\ v(2) >= 524288 THEN v(2) - 1048576 ELSE v(2), 2) ELSE NoAsm
    ELSE IF m = "c.nop" THEN IF n = 0 THEN Ins(m, 0, 0, 0, 0, 2) ELSE NoAsm
    ELSE IF m = "c.ebreak" THEN IF n = 0 THEN Ins(m, 0, 0, 0, 0, 2) ELSE NoAsm
    ELSE IF m = "c.jal" THEN IF l1 \/ ks = <<"i">> THEN Ins(m, 1, 0, 0, v(1), 2) ELSE NoAsm
    ELSE IF m = "c.j" THEN IF l1 \/ ks = <<"i">> THEN Ins(m, 0, 0, 0, v(1), 2) ELSE NoAsm
    ELSE IF m = "c.jr" THEN IF r1 THEN Ins(m, 0, v(1), 0, 0, 2) ELSE NoAsm
    ELSE IF m = "c.jalr" THEN IF r1 THEN Ins(m, 1, v(1), 0, 0, 2) ELSE NoAsm
    ELSE IF m \in {"c.beqz", "c.bnez"} THEN IF rl \/ ri THEN Ins(m, 0, v(1), 0, v(2), 2) ELSE NoAsm
    ELSE IF m = "c.lw" THEN IF rir THEN Ins(m, v(1), v(3), 0, v(2), 2) ELSE NoAsm
    ELSE IF m = "c.sw" THEN IF rir THEN Ins(m, 0, v(3), v(1), v(2), 2) ELSE NoAsm
    ELSE IF m = "c.lwsp" THEN IF rir THEN Ins(m, v(1), v(3), 0, v(2), 2) ELSE NoAsm
    ELSE IF m = "c.swsp" THEN IF rir THEN Ins(m, 0, v(3), v(1), v(2), 2) ELSE NoAsm
    ELSE IF m = "c.addi4spn" THEN IF ri THEN Ins(m, v(1), 2, 0, v(2), 2)
                                  ELSE IF rri THEN Ins(m, v(1), v(2), 0, v(3), 2) ELSE NoAsm
    ELSE IF m = "c.addi16sp" THEN IF ks = <<"i">> THEN Ins(m, 2, 2, 0, v(1), 2)
                                  ELSE IF ri THEN Ins(m, v(1), v(1), 0, v(2), 2) ELSE NoAsm
    ELSE NoAsm
Asm0(mn0, ops, sym, pc) == CHOOSE r \in {AsmB(m, ks, ops, sym, pc) : m \in {Spelling(mn0)}, ks \in {Kinds(ops)}} : TRUE

\* an unknown CSR name is outside the modelled syntax
Asm(mn0, ops, sym, pc) == LET r == Asm0(mn0, ops, sym, pc) IN IF InTab(CsrMn, r.mn) /\ r.imm < 0 THEN NoAsm ELSE r

\* Does the denoted instruction exist as an encoding?  (C10: if not, the tool must refuse.)
\* For the U-type pattern operand both readings are encodable (see FieldRange).
Encodable(a) == LET fr == FieldRange(a.mn) IN
    IF fr.kind = "p" THEN Representable(fr, a.imm) /\ WF([a EXCEPT !.imm = FieldValue(fr, a.imm)])
    ELSE IF a.mn \in {"csrrwi", "csrrsi", "csrrci"} THEN WF(a) /\ Representable(UimmRange, a.rs1)
    ELSE WF(a)
\* the record a decoder yields for an encodable denoted instruction
Canon(a) == [a EXCEPT !.imm = FieldValue(FieldRange(a.mn), a.imm)]
-----------------------------------------------------------------------------
(* The machine.  State [pc, x, mem]: pc and x[r] are 4-byte words (x is a    *)
(* 32-tuple indexed r + 1, x0 = 0), mem is a total byte memory represented   *)
(* as a background pattern (salt) plus an overlay: the log of written bytes.  *)
(*  IALIGN = 16 (the C extension is present), misaligned data  *)
(* accesses are performed byte-wise (allowed by the ISA; EEI-defined).       *)
W4(v) == WFromInt(v, 4)
Reg(s, r) == IF r = 0 THEN WZero(4) ELSE s.x[r + 1]
SetReg(x, r, w) == IF r = 0 THEN x ELSE Mk([x EXCEPT ![r + 1] = w])
Background(salt, a) == (a[1] * 7 + a[2] * 13 + a[3] * 31 + a[4] * 3 + salt + (a[1] \div 4) * 64) % 256
\* the overlay is the log of byte writes <<address, byte>>, latest last
RECURSIVE Lookup(_, _, _)
Lookup(ov, a, k) == IF k = 0 THEN -1 ELSE IF ov[k][1] = a THEN ov[k][2] ELSE Lookup(ov, a, k - 1)
MemByte(m, a) == LET v == Lookup(m.ov, a, Len(m.ov)) IN IF v >= 0 THEN v ELSE Background(m.salt, a)
MemPut(m, a, v) == [m EXCEPT !.ov = Append(m.ov, <<a, v>>)]
RECURSIVE LoadBytes(_, _, _), StoreBytes(_, _, _, _)
LoadBytes(m, a, n) == IF n = 0 THEN << >> ELSE <<MemByte(m, a)>> \o LoadBytes(m, WAdd(a, WOne(4)), n - 1)
StoreBytes(m, a, w, k) == IF k > Len(w) THEN m ELSE StoreBytes(MemPut(m, a, w[k]), WAdd(a, WOne(4)), w, k + 1)

\* upper half of the 64-bit product (signedness of each operand given)
MulHigh(a, b, sa, sb) == LET p == WMul(WResize(a, 8, sa), WResize(b, 8, sb)) IN <<p[5], p[6], p[7], p[8]>>
BoolW(c) == IF c THEN WOne(4) ELSE WZero(4)
\* "M" chapter, table "Semantics for division by zero and division overflow"
DivS(a, b) == IF WIsZero(b) THEN WOnes(4) ELSE IF WIsMin(a) /\ WIsMinusOne(b) THEN a ELSE WDivS(a, b)
DivU(a, b) == IF WIsZero(b) THEN WOnes(4) ELSE WDivModU(a, b)[1]
RemS(a, b) == IF WIsZero(b) THEN a ELSE IF WIsMin(a) /\ WIsMinusOne(b) THEN WZero(4) ELSE WRemS(a, b)
RemU(a, b) == IF WIsZero(b) THEN a ELSE WDivModU(a, b)[2]

Alu(m, a, b) ==
    CASE m \in {"add", "addi"}   -> WAdd(a, b)
      [] m = "sub"               -> WSub(a, b)
      [] m \in {"sll", "slli"}   -> WShl(a, b[1] % 32)
      [] m \in {"slt", "slti"}   -> BoolW(WLtS(a, b))
      [] m \in {"sltu", "sltiu"} -> BoolW(WLtU(a, b))
      [] m \in {"xor", "xori"}   -> WXor(a, b)
      [] m \in {"srl", "srli"}   -> WShrL(a, b[1] % 32)
      [] m \in {"sra", "srai"}   -> WShrA(a, b[1] % 32)
      [] m \in {"or", "ori"}     -> WOr(a, b)
      [] m \in {"and", "andi"}   -> WAnd(a, b)
      [] m = "mul"               -> WMul(a, b)
      [] m = "mulh"              -> MulHigh(a, b, TRUE, TRUE)
      [] m = "mulhsu"            -> MulHigh(a, b, TRUE, FALSE)
      [] m = "mulhu"             -> MulHigh(a, b, FALSE, FALSE)
      [] m = "div"               -> DivS(a, b)
      [] m = "divu"              -> DivU(a, b)
      [] m = "rem"               -> RemS(a, b)
      [] m = "remu"              -> RemU(a, b)
Taken(m, a, b) ==
    CASE m = "beq" -> a = b [] m = "bne" -> a # b [] m = "blt" -> WLtS(a, b) [] m = "bge" -> ~WLtS(a, b)
      [] m = "bltu" -> WLtU(a, b) [] m = "bgeu" -> ~WLtU(a, b)

\* One step.  i0 is a decoded instruction (compressed ones are executed as their expansion,
\* with the 2-byte length for the fall-through / link address).  st = "ok" | "outofmodel".
ExecB(s, i, len) ==
    LET m == i.mn
        a == Reg(s, i.rs1)  b == Reg(s, i.rs2)  immw == W4(i.imm)
        next == WAdd(s.pc, W4(len))
        Ok(pc, x, mem) == [st |-> "ok", pc |-> pc, x |-> x, mem |-> mem]
        addr == WAdd(a, immw)
    IN
    IF InTab(OpMn, m) \/ InTab(MulMn, m) \/ m \in {"sub", "sra"} THEN Ok(next, SetReg(s.x, i.rd, Alu(m, a, b)), s.mem)
    ELSE IF InTab(OpImmMn, m) \/ m \in {"slli", "srli", "srai"} THEN Ok(next, SetReg(s.x, i.rd, Alu(m, a, immw)), s.mem)
    ELSE IF m = "lui" THEN Ok(next, SetReg(s.x, i.rd, WShl(W4(i.imm), 12)), s.mem)
    ELSE IF m = "auipc" THEN Ok(next, SetReg(s.x, i.rd, WAdd(s.pc, WShl(W4(i.imm), 12))), s.mem)
    ELSE IF m = "jal" THEN Ok(WAdd(s.pc, immw), SetReg(s.x, i.rd, next), s.mem)
    ELSE IF m = "jalr" THEN Ok(LET t == addr IN Mk([t EXCEPT ![1] = t[1] - (t[1] % 2)]), SetReg(s.x, i.rd, next), s.mem)
    ELSE IF InTab(BranchMn, m) THEN Ok(IF Taken(m, a, b) THEN WAdd(s.pc, immw) ELSE next, s.x, s.mem)
    ELSE IF m = "lb"  THEN Ok(next, SetReg(s.x, i.rd, WResize(LoadBytes(s.mem, addr, 1), 4, TRUE)), s.mem)
    ELSE IF m = "lbu" THEN Ok(next, SetReg(s.x, i.rd, WResize(LoadBytes(s.mem, addr, 1), 4, FALSE)), s.mem)
    ELSE IF m = "lh"  THEN Ok(next, SetReg(s.x, i.rd, WResize(LoadBytes(s.mem, addr, 2), 4, TRUE)), s.mem)
    ELSE IF m = "lhu" THEN Ok(next, SetReg(s.x, i.rd, WResize(LoadBytes(s.mem, addr, 2), 4, FALSE)), s.mem)
    ELSE IF m = "lw"  THEN Ok(next, SetReg(s.x, i.rd, LoadBytes(s.mem, addr, 4)), s.mem)
    ELSE IF m = "sb"  THEN Ok(next, s.x, StoreBytes(s.mem, addr, <<b[1]>>, 1))
    ELSE IF m = "sh"  THEN Ok(next, s.x, StoreBytes(s.mem, addr, <<b[1], b[2]>>, 1))
    ELSE IF m = "sw"  THEN Ok(next, s.x, StoreBytes(s.mem, addr, b, 1))
    ELSE [st |-> "outofmodel", pc |-> s.pc, x |-> s.x, mem |-> s.mem]      \* traps, CSRs, illegal
\* (TLC re-evaluates LET definitions and operator arguments on every use: values that are used often
\* are bound through a singleton set, which is evaluated exactly once)
Exec(s, i0) == CHOOSE t \in {ExecB(s, i, i0.len) : i \in {Expand(i0)}} : TRUE

\* Architectural source / destination registers (x0 is a constant, never a dependency).
\* csrr?i carry a 5-bit immediate in the rs1 slot.
Reads(i0) == LET i == Expand(i0)  m == i.mn IN
    ((IF HasRs1(m) /\ m \notin {"csrrwi", "csrrsi", "csrrci"} THEN {i.rs1} ELSE {})
     \cup (IF HasRs2(m) THEN {i.rs2} ELSE {})) \ {0}
Writes(i0) == LET i == Expand(i0) IN (IF HasRd(i.mn) THEN {i.rd} ELSE {}) \ {0}
\* registers a compressed instruction names implicitly (chapter "C": stack-pointer-based
\* loads/stores, c.addi4spn, c.addi16sp use x2; c.jal / c.jalr link through x1)
ImplicitSP(i0) == IF i0.mn \in {"c.lwsp", "c.swsp", "c.addi4spn", "c.addi16sp"} THEN {2} ELSE {}
Modelled(i0) == Expand(i0).mn \in (Mn32 \ {"ecall", "ebreak", "mret", "csrrw", "csrrs", "csrrc", "csrrwi", "csrrsi", "csrrci"})

-----------------------------------------------------------------------------
(* C07: the two clauses about declared register sets, stated on Exec.        *)
(* declR / declW: sets of register numbers an instruction is DECLARED to     *)
(* read / write (by the manual: Reads / Writes; by ppci: used_registers /    *)
(* defined_registers + clobbers).                                            *)
XRegs == 1..31
\* straight-line execution of a sequence of decoded instructions (a macro instruction's rendering)
RECURSIVE ExecSeq(_, _, _)
ExecSeq(s, is, k) ==
    IF k > Len(is) THEN [st |-> "ok", pc |-> s.pc, x |-> s.x, mem |-> s.mem]
    ELSE CHOOSE res \in {IF t.st # "ok" THEN t ELSE ExecSeq(t, is, k + 1) : t \in {Exec(s, is[k])}} : TRUE
Run(s, is) == ExecSeq(s, is, 1)
\* registers read before being written / written, over a sequence
RECURSIVE ReadsSeqR(_, _, _, _), WritesSeqR(_, _, _)
ReadsSeqR(is, k, rd, wr) == IF k > Len(is) THEN rd
                            ELSE ReadsSeqR(is, k + 1, rd \cup (Reads(is[k]) \ wr), wr \cup Writes(is[k]))
ReadsSeq(is) == ReadsSeqR(is, 1, {}, {})
WritesSeqR(is, k, wr) == IF k > Len(is) THEN wr ELSE WritesSeqR(is, k + 1, wr \cup Writes(is[k]))
WritesSeq(is) == WritesSeqR(is, 1, {})
ImplicitSPSeq(is) == UNION {ImplicitSP(is[k]) : k \in 1..Len(is)}
\* (i) executing changes no register outside declW
NoUndeclaredWriteT(s, t, declW) == t.st = "ok" => \A r \in XRegs \ declW : t.x[r + 1] = s.x[r + 1]
NoUndeclaredWrite(s, is, declW) == NoUndeclaredWriteT(s, Run(s, is), declW)
\* (ii) for two states agreeing on declR (+ pc, memory; x2 where the instruction names it implicitly),
\* the declared outputs, the memory effect and the control transfer coincide
SameOutputsT(t1, t2, outs) ==
    (t1.st = "ok" /\ t2.st = "ok") =>
        /\ \A r \in outs \cap XRegs : t1.x[r + 1] = t2.x[r + 1]
        /\ t1.mem = t2.mem
        /\ t1.pc = t2.pc
SameOutputs(s1, s2, is, outs) == SameOutputsT(Run(s1, is), Run(s2, is), outs)

\* ---- machine states for the checks (deterministic families indexed by small integers) ----
Interesting == << <<0, 0, 0, 0>>, <<255, 255, 255, 255>>, <<0, 0, 0, 128>>, <<255, 255, 255, 127>>,
                  <<1, 0, 0, 0>>, <<0, 8, 0, 0>>, <<120, 86, 52, 18>>, <<254, 255, 255, 255>> >>
RandWord(seed, r) == Mk([k \in 1..4 |-> (r * 37 + seed * 11 + k * 101 + r * r * 7 + seed * k * 3) % 256])
\* shape 0: every register a different pseudo-random word; shape k >= 1: every register = Interesting[k]
BaseState(seed, shape) ==
    [pc  |-> <<(seed * 4) % 256, 16, 64, 0>>,
     x   |-> Mk([k \in 1..32 |-> IF k = 1 THEN WZero(4)
                                 ELSE IF shape = 0 THEN RandWord(seed, k - 1) ELSE Interesting[shape]]),
     mem |-> [salt |-> seed, ov |-> << >>]]
\* change every register outside `keep` (and x0): mode 0 complement, 1 increment, 2 decrement
Perturb(s, keep, mode) ==
    [s EXCEPT !.x = Mk([k \in 1..32 |->
        IF k = 1 \/ (k - 1) \in keep THEN s.x[k]
        ELSE IF mode = 0 THEN WNot(s.x[k])
        ELSE IF mode = 1 THEN WAdd(s.x[k], WOne(4))
        ELSE WSub(s.x[k], WOne(4))])]
\* the state pairs every instruction is run on: <<seed, shape, mode>>
PairPlan == << <<1, 0, 0>>, <<2, 0, 1>>, <<3, 1, 1>>, <<4, 2, 1>>, <<5, 3, 2>>, <<6, 4, 0>>, <<7, 5, 2>>,
               <<8, 7, 0>>, <<9, 8, 1>>, <<10, 6, 0>>, <<11, 0, 2>>, <<12, 4, 1>> >>
=============================================================================
