------------------------------- MODULE IRC_MC -------------------------------
(* Idiom M: IRC.tla explored exhaustively over ALL small instances.           *)
(*                                                                           *)
(* Instance space (built in three fan-out steps so that the workers share it):*)
(*   shape   MinN <= N <= MaxN nodes, a class for each, at most MaxPre of them         *)
(*           pre-coloured with distinct registers of their class;              *)
(*   edges   any set of interference edges (two pre-coloured nodes only if     *)
(*           their registers do not overlap);                                  *)
(*   moves   any set of at most MaxMoves move instructions between nodes of    *)
(*           the same class (dst = src allowed).                               *)
(* Architectures (constant Arch):                                             *)
(*   "k2", "k3"  one class of 2 / 3 registers, no aliasing;                    *)
(*   "pair"      wide registers W1 = (N1,N2), W2 = (N3,N4) and the four narrow *)
(*               ones: classes wide (K = 2) and narrow (K = 4), a wide         *)
(*               register blocks two narrow ones (q(narrow, wide) = 2) — the   *)
(*               situation the pq-test exists for.                             *)
(* Then the allocator runs: work lists are processed in the code's priority    *)
(* order (simplify, coalesce, freeze, select spill) or, with FreeOrder, in any *)
(* order (then the code's assertion in freeze_moves can fail for an identity    *)
(* move frozen before it was coalesced — unreachable in the code's own order);  *)
(* every element a pop() could return is tried (AnyPop; otherwise one           *)
(* fixed schedule: the smallest element); assign_colors picks the               *)
(* first free register of the class (as the code does) or, with AnyRegister,   *)
(* any free register.  All invariants of IRC.tla are checked in every state.   *)
EXTENDS IRC

CONSTANTS MinN, MaxN, MaxPre, MaxMoves, Arch, FreeOrder, AnyRegister, AnyPop

ArchRec ==
    IF Arch = "k2" THEN [R |-> 2, rcls |-> <<1, 1>>, cregs |-> <<{1, 2}>>, ali |-> <<{1}, {2}>>, sub |-> <<<<TRUE>>>>, classes |-> {1}]
    ELSE IF Arch = "k3" THEN [R |-> 3, rcls |-> <<1, 1, 1>>, cregs |-> <<{1, 2, 3}>>, ali |-> <<{1}, {2}, {3}>>, sub |-> <<<<TRUE>>>>, classes |-> {1}]
    ELSE \* "pair": 1 = W1, 2 = W2 (class 1, wide); 3..6 = N1..N4 (class 2, narrow); W1 = (N1, N2), W2 = (N3, N4)
         [R |-> 6, rcls |-> <<1, 1, 2, 2, 2, 2>>, cregs |-> <<{1, 2}, {3, 4, 5, 6}>>,
          ali |-> <<{1, 3, 4}, {2, 5, 6}, {3, 1}, {4, 1}, {5, 2}, {6, 2}>>,
          sub |-> <<<<TRUE, FALSE>>, <<FALSE, TRUE>>>>, classes |-> {1, 2}]

VARIABLES stage, inst, s
vars == <<stage, inst, s>>
NoState == [err |-> ""]
NoInst == [N |-> 0]

Init == stage = "shape" /\ inst = NoInst /\ s = NoState

Pairs(N) == {{a, b} : a \in 1..N, b \in 1..N} \ {{a} : a \in 1..N}
PickShape ==
    /\ stage = "shape"
    /\ \E N \in MinN..MaxN : \E cls \in [1..N -> ArchRec.classes] : \E pre \in [1..N -> 0..ArchRec.R] :
          /\ \A n \in 1..N : pre[n] # 0 => ArchRec.rcls[pre[n]] = cls[n]
          /\ \A a \in 1..N : \A b \in 1..N : (a # b /\ pre[a] # 0) => pre[a] # pre[b]
          /\ Cardinality({n \in 1..N : pre[n] # 0}) <= MaxPre
          \* symmetry: pre-coloured nodes first, classes non-decreasing among the free nodes
          /\ \A a \in 1..N : \A b \in 1..N : (a < b /\ pre[b] # 0) => pre[a] # 0
          /\ \A a \in 1..N : \A b \in 1..N : (a < b /\ pre[a] = 0 /\ pre[b] = 0) => cls[a] <= cls[b]
          /\ inst' = [N |-> N, cls |-> cls, pre |-> pre, E |-> {}, M |-> <<>>,
                      R |-> ArchRec.R, cregs |-> ArchRec.cregs, ali |-> ArchRec.ali, sub |-> ArchRec.sub]
    /\ stage' = "edges" /\ UNCHANGED s
PickEdges ==
    /\ stage = "edges"
    /\ \E E \in SUBSET Pairs(inst.N) :
          /\ \A e \in E : \A a \in e : \A b \in e :
                (a # b /\ inst.pre[a] # 0 /\ inst.pre[b] # 0) => inst.pre[b] \notin inst.ali[inst.pre[a]]
          /\ inst' = [inst EXCEPT !.E = E]
    /\ stage' = "moves" /\ UNCHANGED s
MoveCands == {<<d, c>> \in (1..inst.N) \X (1..inst.N) : inst.cls[d] = inst.cls[c]}
RECURSIVE SeqOf(_)
SeqOf(S) == IF S = {} THEN <<>> ELSE LET x == CHOOSE y \in S : TRUE IN <<x>> \o SeqOf(S \ {x})
PickMoves ==
    /\ stage = "moves"
    /\ \E MS \in SUBSET MoveCands :
          /\ Cardinality(MS) <= MaxMoves
          /\ inst' = [inst EXCEPT !.M = SeqOf(MS)]
          /\ s' = InitState([inst EXCEPT !.M = SeqOf(MS)])
    /\ stage' = "work"

\* ---- alloc_frame's loop ----
Ready == stage = "work" /\ s.err = ""
\* which elements a pop() may return: all of them (AnyPop), or only the smallest (one fixed schedule)
Pops(S) == IF AnyPop THEN S ELSE {x \in S : \A y \in S : x <= y}
DoSimplify    == /\ Ready /\ s.simplifyWL # {}
                 /\ \E n \in Pops(s.simplifyWL) : s' = Simplify(inst, s, n)
                 /\ UNCHANGED <<stage, inst>>
DoCoalesce    == /\ Ready /\ s.wlMoves # {} /\ (FreeOrder \/ s.simplifyWL = {})
                 /\ \E m \in Pops(s.wlMoves) : s' = Coalesce(inst, s, m)
                 /\ UNCHANGED <<stage, inst>>
DoFreeze      == /\ Ready /\ s.freezeWL # {} /\ (FreeOrder \/ (s.simplifyWL = {} /\ s.wlMoves = {}))
                 /\ \E u \in Pops(s.freezeWL) : s' = Freeze(inst, s, u)
                 /\ UNCHANGED <<stage, inst>>
DoSelectSpill == /\ Ready /\ s.spillWL # {}
                 /\ (FreeOrder \/ (s.simplifyWL = {} /\ s.wlMoves = {} /\ s.freezeWL = {}))
                 /\ \E n \in Pops(s.spillWL) : s' = SelectSpill(inst, s, n)
                 /\ UNCHANGED <<stage, inst>>
StartAssign   == /\ Ready /\ ~Working(s) /\ stage' = "assign" /\ UNCHANGED <<inst, s>>
DoAssign      == /\ stage = "assign" /\ s.err = "" /\ Len(s.stack) > 0
                 /\ LET ok == OkRegs(inst, s) IN
                    IF ok = {} THEN s' = AssignOne(inst, s, 0)
                    ELSE \E r \in ok : /\ (AnyRegister \/ \A r2 \in ok : r <= r2)   \* the code takes ok_regs[0]
                                       /\ s' = AssignOne(inst, s, r)
                 /\ UNCHANGED <<stage, inst>>
Finish        == /\ stage = "assign" /\ Len(s.stack) = 0 /\ stage' = "done" /\ UNCHANGED <<inst, s>>
Next == PickShape \/ PickEdges \/ PickMoves \/ DoSimplify \/ DoCoalesce \/ DoFreeze \/ DoSelectSpill
        \/ StartAssign \/ DoAssign \/ Finish

Started == stage \in {"work", "assign", "done"}
InvNoException     == Started => NoException(s)
InvWorklists       == (stage = "work" /\ s.err = "") => WorklistInvariants(inst, s)
InvMovesPartition  == (Started /\ s.err = "") => MovesPartition(inst, s)
InvNodesPartition  == (stage = "work" /\ s.err = "") => NodesPartition(inst, s)
InvCacheCoherent   == (stage = "work" /\ s.err = "") => CacheCoherent(inst, s)
InvMovesLinked     == (stage = "work" /\ s.err = "") => MovesLinked(inst, s)
InvEdgesPreserved  == (Started /\ s.err = "") => EdgesPreserved(inst, s)
InvProperColouring == (Started /\ s.err = "") => ProperColouring(inst, s)
InvClassRespected  == (Started /\ s.err = "") => ClassRespected(inst, s)
\* at the end every node has a register or is reported as spilled; coalesced moves join one register
InvComplete == stage = "done" =>
    /\ \A n \in NodesOf(inst) : s.rep[n] = n => (s.reg[n] # 0 \/ n \in s.spilled)
    /\ \A m \in s.coalesced : ColourOf(s, inst.M[m][1]) = ColourOf(s, inst.M[m][2])
=============================================================================
